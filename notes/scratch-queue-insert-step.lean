/-! scratch: one-step refinement of the replay-queue insert (not framework code) -/
structure QS (α : Type) where
  data : List α
  ip : Nat
  sp : Nat
deriving Repr

def rotL {α : Type} (l : List α) (r : Nat) : List α := l.drop r ++ l.take r

/-- model of `insert_internal` for `k = upd.length ≤ cap = data.length` -/
def QS.ins {α : Type} (s : QS α) (upd : List α) : QS α :=
  let cap := s.data.length
  let k := upd.length
  let r := (s.ip + k) - cap          -- = -roll, truncated subtraction = max 0
  let d := if r = 0 then s.data else rotL s.data r
  let p := s.ip - r
  let d' := d.take p ++ upd ++ d.drop (p + k)
  { data := d', ip := (p + k) % (cap + 1), sp := s.sp - r }

theorem ins_len {α : Type} (s : QS α) (upd : List α) (hk : upd.length ≤ s.data.length)
    (hip : s.ip ≤ s.data.length) : (s.ins upd).data.length = s.data.length := by
  simp only [QS.ins, rotL]
  split <;> simp [List.length_append, List.length_take, List.length_drop] <;> omega

/-- held records after insert = (held ++ upd) with the oldest r dropped -/
theorem ins_held {α : Type} (s : QS α) (upd : List α) (hk : upd.length ≤ s.data.length)
    (hip : s.ip ≤ s.data.length) :
    let s' := s.ins upd
    s'.data.take s'.ip = (s.data.take s.ip ++ upd).drop ((s.ip + upd.length) - s.data.length)
    ∧ s'.ip = min s.data.length (s.ip + upd.length) := by
  simp only [QS.ins, rotL]
  by_cases hr : (s.ip + upd.length) - s.data.length = 0
  · simp only [hr, if_true, Nat.sub_zero, List.drop_zero]
    have h1 : s.ip + upd.length ≤ s.data.length := by omega
    have h2 : (s.ip + upd.length) % (s.data.length + 1) = s.ip + upd.length :=
      Nat.mod_eq_of_lt (by omega)
    rw [h2]
    constructor
    · have hl : (List.take s.ip s.data ++ upd).length = s.ip + upd.length := by
        simp [List.length_take]; omega
      rw [List.take_append_of_le_length (by omega), List.take_of_length_le (by omega)]
    · omega
  · simp only [hr, if_false]
    have hr' : s.ip + upd.length > s.data.length := by omega
    have hp : s.ip - (s.ip + upd.length - s.data.length) + upd.length = s.data.length := by omega
    rw [hp, Nat.mod_eq_of_lt (by omega)]
    constructor
    · generalize hrr : s.ip + upd.length - s.data.length = r at *
      have hlen1 : (List.take (s.ip - r) (List.drop r s.data ++ List.take r s.data)).length = s.ip - r := by
        simp [List.length_take, List.length_drop]; omega
      have hdrop : List.drop (s.data.length) (List.drop r s.data ++ List.take r s.data) = [] := by
        apply List.drop_of_length_le; simp [List.length_take, List.length_drop]; omega
      rw [hdrop, List.append_nil]
      have hl2 : (List.take (s.ip - r) (List.drop r s.data ++ List.take r s.data) ++ upd).length = s.data.length := by
        rw [List.length_append, hlen1]; omega
      rw [List.take_of_length_le (by omega)]
      rw [List.drop_append_of_le_length (by simp [List.length_take]; omega)]
      congr 1
      rw [List.take_append_of_le_length (by simp [List.length_drop]; omega)]
      rw [List.drop_take]
    · omega
#print axioms ins_held
