import Brax.Model.C11
import Brax.Spec.C11
import Brax.Model.Wire
/-!
# C11 line-protocol driver (exact, `Rat`)

```
<mj>    ::= nq nv njnt {jnttype qposadr dofadr}^njnt nu
            {trnJoint trnid gainprm0 biastype biasprm0 biasprm1 biasprm2 gear0
             ctrllimited ctrlLo ctrlHi forcelimited forceLo forceHi}^nu
<row>   ::= qId qdId ctrlLo ctrlHi forceLo forceHi gain gear biasQ biasQd     (-inf / inf allowed as lo / hi)
<state> ::= nq q^nq  nqd qd^nqd  nu u^nu

C11.load <mj>                    -> wf=<0|1> n <row>^n                (Act.ofMj)
C11.tau  nv n <row>^n <state>    -> br:<codes> tau^nv                 (Act.toTau on an actuator table)
C11.spec <mj> <state>            -> wf=<0|1> qfrc^nv | force^nu | tau^nv
                                    (Mj.qfrcActuator, Mj.actuatorForce, Act.toTau (Act.ofMj m))
```
Branch code per actuator: two letters (control, raw force) of
`u` unlimited, `b` below lo, `l` = lo, `i` inside, `h` = hi, `a` above hi, `o` one-sided.
-/
namespace Brax.C11Driver
open Brax

abbrev P := StateT (List String) Option

def tok : P String := fun ts => match ts with
  | [] => none
  | t :: rest => some (t, rest)

def val {β : Type} [Wire β] : P β := do
  let t ← tok
  match Wire.parse t with
  | some v => pure v
  | none => failure

def bool : P Bool := do
  let t ← tok
  if t = "0" then pure false else if t = "1" then pure true else failure

def many {β : Type} (p : P β) : Nat → P (List β)
  | 0 => pure []
  | n + 1 => do
      let x ← p
      let xs ← many p n
      pure (x :: xs)

/-- lower bound: `-inf` is the infinite one -/
def lob : P (Option Rat) := do
  let t ← tok
  if t = "-inf" then pure none else
  match (Wire.parse t : Option Rat) with
  | some v => pure (some v)
  | none => failure

def hib : P (Option Rat) := do
  let t ← tok
  if t = "inf" then pure none else
  match (Wire.parse t : Option Rat) with
  | some v => pure (some v)
  | none => failure

def mjAct : P (Mj.Actuator Rat) := do
  let trnJoint ← bool; let trnid ← val (β := Nat); let gainprm0 ← val (β := Rat)
  let biastype ← val (β := Nat)
  let b0 ← val (β := Rat); let b1 ← val (β := Rat); let b2 ← val (β := Rat)
  let gear0 ← val (β := Rat)
  let cl ← bool; let clo ← val (β := Rat); let chi ← val (β := Rat)
  let fl ← bool; let flo ← val (β := Rat); let fhi ← val (β := Rat)
  pure { trnJoint := trnJoint, trnid := trnid, gainprm0 := gainprm0, biastype := biastype,
         biasprm0 := b0, biasprm1 := b1, biasprm2 := b2, gear0 := gear0,
         ctrllimited := cl, ctrlLo := clo, ctrlHi := chi,
         forcelimited := fl, forceLo := flo, forceHi := fhi }

def mjModel : P (Mj.Model Rat) := do
  let nq ← val (β := Nat); let nv ← val (β := Nat); let njnt ← val (β := Nat)
  let js ← many (do
    let t ← val (β := Nat); let a ← val (β := Nat); let d ← val (β := Nat); pure (t, a, d)) njnt
  let nu ← val (β := Nat)
  let acts ← many mjAct nu
  pure { nq := nq, nv := nv, jntType := js.map (·.1), jntQposadr := js.map (·.2.1),
         jntDofadr := js.map (·.2.2), acts := acts }

def row : P (Act Rat) := do
  let qId ← val (β := Nat); let qdId ← val (β := Nat)
  let clo ← lob; let chi ← hib; let flo ← lob; let fhi ← hib
  let gain ← val (β := Rat); let gear ← val (β := Rat)
  let bq ← val (β := Rat); let bqd ← val (β := Rat)
  pure { qId := qId, qdId := qdId, ctrlLo := clo, ctrlHi := chi, forceLo := flo, forceHi := fhi,
         gain := gain, gear := gear, biasQ := bq, biasQd := bqd }

def vec : P (List Rat) := do
  let n ← val (β := Nat)
  many (val (β := Rat)) n

def state : P (List Rat × List Rat × List Rat) := do
  let q ← vec; let qd ← vec; let u ← vec
  pure (q, qd, u)

def done : P Unit := fun ts => match ts with
  | [] => some ((), [])
  | _ => none

def renderLo : Option Rat → String
  | none => "-inf"
  | some v => Wire.render v
def renderHi : Option Rat → String
  | none => "inf"
  | some v => Wire.render v

def renderRow (a : Act Rat) : String :=
  " ".intercalate [toString a.qId, toString a.qdId, renderLo a.ctrlLo, renderHi a.ctrlHi,
    renderLo a.forceLo, renderHi a.forceHi, Wire.render a.gain, Wire.render a.gear,
    Wire.render a.biasQ, Wire.render a.biasQd]

def code (x : Rat) : Option Rat → Option Rat → Char
  | none, none => 'u'
  | some lo, some hi =>
      if x < lo then 'b' else if x = lo then 'l' else if x < hi then 'i'
      else if x = hi then 'h' else 'a'
  | _, _ => 'o'

def branch (a : Act Rat) (q qd : List Rat) (u : Rat) : String :=
  let c := clipO u a.ctrlLo a.ctrlHi
  let raw := a.gain * c + a.gear * (Act.gather q a.qId * a.biasQ + Act.gather qd a.qdId * a.biasQd)
  String.ofList [code u a.ctrlLo a.ctrlHi, code raw a.forceLo a.forceHi]

def b01 (b : Bool) : String := if b then "1" else "0"

def run (p : P String) (ts : List String) : String :=
  match p ts with
  | some (s, _) => s
  | none => "bad-args"

def step (line : String) : String :=
  match tokens line with
  | "C11.load" :: ts => run (do
      let m ← mjModel; done
      let rows := Act.ofMj m
      pure (" ".intercalate ([s!"wf={b01 (decide m.WF)}", toString rows.length] ++ rows.map renderRow))) ts
  | "C11.tau" :: ts => run (do
      let nv ← val (β := Nat); let n ← val (β := Nat)
      let rows ← many row n
      let (q, qd, u) ← state; done
      if u.length ≠ rows.length then failure
      let tau := Act.toTau nv rows u q qd
      let br := ",".intercalate (List.zipWith (fun a uk => branch a q qd uk) rows u)
      pure (s!"br:{br} " ++ renderVals tau)) ts
  | "C11.spec" :: ts => run (do
      let m ← mjModel
      let (q, qd, u) ← state; done
      if u.length ≠ m.acts.length ∨ q.length ≠ m.nq ∨ qd.length ≠ m.nv then failure
      let qfrc := Mj.qfrcActuator m u q qd
      let f := Mj.actuatorForce m u q qd
      let tau := Act.toTau m.nv (Act.ofMj m) u q qd
      pure (s!"wf={b01 (decide m.WF)} " ++ renderVals qfrc ++ " | " ++ renderVals f ++ " | "
            ++ renderVals tau)) ts
  | _ => "bad-op"

end Brax.C11Driver

def main : IO Unit := Brax.driverLoop Brax.C11Driver.step
