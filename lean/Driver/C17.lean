import Brax.Model.C17
import Brax.Model.Wire
/-!
# C17 line-protocol driver

```
C17.run <q|u> <n|s> <cap> <B> <cyc> <D> <w> <nops> <op>*       op = i <k> <k*w ints> | s <m> <m nats>
   -> per op, joined by " | ":  outcome host size nsamp <samples> (ip sp <data>)*   (one group per shard)
C17.spec <cap> <B> <cyc> <w> <nops> <op>*                        the abstract FIFO of Spec/C17.lean
   -> per op:  outcome size nsamp <samples> cur nheld <held>
C17.exh <n|s> <cap> <B> <cyc> <D> <w> <L> <npre> <code>*          queue kinds only
   -> "<count> <digest>" over every history of length ≤ L extending the prefix (prefix node included);
      code 0 = sample, code k = insert k records per shard labelled by a running counter
```
`q` = `Queue`, `u` = `UniformSamplingQueue` (sample carries the drawn indices, shard-major),
`n` = no wrapper, `s` = `PmapWrapper`/`PjitWrapper` with `D` shards; records are rows of `w` ints.
-/
namespace Brax.C17.Drv
open Brax Brax.C17

abbrev Row := List Int

inductive POp where
  | ins (rows : List Row)
  | smp (idx : List Nat)

def chunk (n : Nat) : Nat → List Int → List Row
  | 0, _ => []
  | m + 1, xs => xs.take n :: chunk n m (xs.drop n)

/-- parse `nops` operations -/
def parseOps (w : Nat) : Nat → List String → Option (List POp × List String)
  | 0, ts => some ([], ts)
  | n + 1, "i" :: k :: ts => do
      let k ← k.toNat?
      let (vals, rest) ← takeVals (α := Int) (k * w) ts
      let (ops, rest) ← parseOps w n rest
      pure (.ins (chunk w k vals) :: ops, rest)
  | n + 1, "s" :: m :: ts => do
      let m ← m.toNat?
      let (vals, rest) ← takeVals (α := Nat) m ts
      let (ops, rest) ← parseOps w n rest
      pure (.smp vals :: ops, rest)
  | _, _ => none

def outcomeCode : Outcome → Int
  | .ok => 0
  | .refuseInsert => 1
  | .refuseSample => 2
  | .reshapeError => 3

structure Machine (σ : Type) where
  step : σ → POp → Obs Row × σ
  host : σ → Nat
  shards : σ → List (Core Row)

def nodeTokens {σ : Type} (m : Machine σ) (o : Obs Row) (s : σ) : List Int :=
  [outcomeCode o.outcome, (m.host s : Int), o.size, (o.out.length : Int)] ++ o.out.flatten ++
    (m.shards s).flatMap fun c => [(c.ip : Int), (c.sp : Int)] ++ c.data.flatten

def runOps {σ : Type} (m : Machine σ) : σ → List POp → List String
  | _, [] => []
  | s, op :: ops =>
    let (o, s') := m.step s op
    renderVals (nodeTokens m o s') :: runOps m s' ops

/-- indices of shard `d` when `idx` holds equally many per shard, shard-major -/
def shardIdx (D : Nat) (idx : List Nat) (d : Nat) : List Nat :=
  (idx.drop (d * (idx.length / D))).take (idx.length / D)

def plainQ (cap B : Nat) (cyc : Bool) : Machine (Buf Row) where
  step s
    | .ins rows => s.step (queueKind cap B cyc) (.ins rows)
    | .smp _ => s.step (queueKind cap B cyc) (.smp ())
  host := (·.host)
  shards s := [s.core]

def plainU (cap : Nat) : Machine (Buf Row) where
  step s
    | .ins rows => s.step (uniformKind cap) (.ins rows)
    | .smp idx => s.step (uniformKind cap) (.smp idx)
  host := (·.host)
  shards s := [s.core]

def shardQ (cap B : Nat) (cyc : Bool) : Machine (ShBuf Row) where
  step s
    | .ins rows => s.step (queueKind cap B cyc) (.ins rows)
    | .smp _ => s.step (queueKind cap B cyc) (.smp fun _ => ())
  host := (·.host)
  shards := (·.shards)

def shardU (cap : Nat) : Machine (ShBuf Row) where
  step s
    | .ins rows => s.step (uniformKind cap) (.ins rows)
    | .smp idx => s.step (uniformKind cap) (.smp (shardIdx s.shards.length idx))
  host := (·.host)
  shards := (·.shards)

def wellFormed (kind wrap : String) (D B : Nat) : POp → Bool
  | .ins _ => true
  | .smp idx =>
    if kind = "q" then idx.isEmpty
    else if wrap = "n" then idx.length = B else idx.length = D * B

def parseBool : String → Option Bool
  | "0" => some false
  | "1" => some true
  | _ => none

def runCmd (ts : List String) : Option String := do
  match ts with
  | kind :: wrap :: cap :: b :: cyc :: d :: w :: nops :: rest =>
    let cap ← cap.toNat?; let B ← b.toNat?; let cyc ← parseBool cyc
    let D ← d.toNat?; let w ← w.toNat?; let nops ← nops.toNat?
    let (ops, rest) ← parseOps w nops rest
    if !rest.isEmpty then none
    if !(ops.all (wellFormed kind wrap D B)) then none
    let z : Row := List.replicate w 0
    let out ← match kind, wrap with
      | "q", "n" => some (runOps (plainQ cap B cyc) (Buf.init cap z) ops)
      | "u", "n" => some (runOps (plainU cap) (Buf.init cap z) ops)
      | "q", "s" => if D = 0 then none else some (runOps (shardQ cap B cyc) (ShBuf.init cap D z) ops)
      | "u", "s" => if D = 0 then none else some (runOps (shardU cap) (ShBuf.init cap D z) ops)
      | _, _ => none
    pure (" | ".intercalate out)
  | _ => none

/-! ### the abstract FIFO -/

def specOps (cap B : Nat) (cyc : Bool) : Fifo Row → List POp → List String
  | _, [] => []
  | f, op :: ops =>
    let (o, f') := f.step cap B cyc (match op with | .ins rows => .ins rows | .smp _ => .smp ())
    renderVals ([outcomeCode o.outcome, o.size, (o.out.length : Int)] ++ o.out.flatten ++
      [(f'.cur : Int), (f'.held.length : Int)] ++ f'.held.flatten) :: specOps cap B cyc f' ops

def specCmd (ts : List String) : Option String := do
  match ts with
  | cap :: b :: cyc :: w :: nops :: rest =>
    let cap ← cap.toNat?; let B ← b.toNat?; let cyc ← parseBool cyc
    let w ← w.toNat?; let nops ← nops.toNat?
    let (ops, rest) ← parseOps w nops rest
    if !rest.isEmpty then none
    pure (" | ".intercalate (specOps cap B cyc Fifo.empty ops))
  | _ => none

/-! ### exhaustive enumeration with a digest -/

def hashMod : Int := 2147483647
def mix (h t : Int) : Int := (h * 1000003 + t + 12345) % hashMod

def labelRow (w j : Nat) : Row := (List.range w).map fun t => ((j * w + t : Nat) : Int)

/-- the operation of code `c` with fresh labels starting at `lbl`; returns the new label counter -/
def codeOp (w perOp : Nat) (lbl c : Nat) : POp × Nat :=
  if c = 0 then (.smp [], lbl)
  else (.ins ((List.range (c * perOp)).map fun i => labelRow w (lbl + i)), lbl + c * perOp)

/-- visit the node reached by `c` from `(s, lbl, ph)` and its whole subtree of height `fuel` -/
def visit {σ : Type} (m : Machine σ) (w perOp cap : Nat) :
    Nat → σ → Nat → Int → Nat → Nat × Int
  | fuel, s, lbl, ph, c =>
    let (op, lbl') := codeOp w perOp lbl c
    let (o, s') := m.step s op
    let ph' := mix (mix ph 777) c
    let here := (nodeTokens m o s').foldl mix ph'
    match fuel with
    | 0 => (1, here % hashMod)
    | fuel + 1 =>
      (List.range (cap + 1)).foldl (fun (acc : Nat × Int) c' =>
        let r := visit m w perOp cap fuel s' lbl' ph' c'
        (acc.1 + r.1, (acc.2 + r.2) % hashMod)) (1, here % hashMod)

/-- replay a prefix silently -/
def replay {σ : Type} (m : Machine σ) (w perOp : Nat) : σ → Nat → Int → List Nat → σ × Nat × Int
  | s, lbl, ph, [] => (s, lbl, ph)
  | s, lbl, ph, c :: cs =>
    let (op, lbl') := codeOp w perOp lbl c
    replay m w perOp (m.step s op).2 lbl' (mix (mix ph 777) c) cs

def exhWith {σ : Type} (m : Machine σ) (s0 : σ) (w perOp cap L : Nat) (pre : List Nat) : Nat × Int :=
  match pre.reverse with
  | [] =>
    if L = 0 then (0, 0) else
    (List.range (cap + 1)).foldl (fun (acc : Nat × Int) c =>
      let r := visit m w perOp cap (L - 1) s0 1 0 c
      (acc.1 + r.1, (acc.2 + r.2) % hashMod)) (0, 0)
  | last :: revInit =>
    let (s, lbl, ph) := replay m w perOp s0 1 0 revInit.reverse
    visit m w perOp cap (L - pre.length) s lbl ph last

def exhCmd (ts : List String) : Option String := do
  match ts with
  | wrap :: cap :: b :: cyc :: d :: w :: l :: npre :: rest =>
    let cap ← cap.toNat?; let B ← b.toNat?; let cyc ← parseBool cyc
    let D ← d.toNat?; let w ← w.toNat?; let L ← l.toNat?; let npre ← npre.toNat?
    let (pre, rest) ← takeVals (α := Nat) npre rest
    if !rest.isEmpty then none
    if pre.length > L ∨ pre.any (· > cap) then none
    let z : Row := List.replicate w 0
    let r ← match wrap with
      | "n" => some (exhWith (plainQ cap B cyc) (Buf.init cap z) w 1 cap L pre)
      | "s" => if D = 0 then none else some (exhWith (shardQ cap B cyc) (ShBuf.init cap D z) w D cap L pre)
      | _ => none
    pure s!"{r.1} {r.2}"
  | _ => none

def step (line : String) : String :=
  match tokens line with
  | "C17.run" :: ts => (runCmd ts).getD "bad-args"
  | "C17.spec" :: ts => (specCmd ts).getD "bad-args"
  | "C17.exh" :: ts => (exhCmd ts).getD "bad-args"
  | _ => "bad-op"

end Brax.C17.Drv

def main : IO Unit := Brax.driverLoop Brax.C17.Drv.step
