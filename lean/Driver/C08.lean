import Brax.Model.C08
/-! line protocol driver for C08:
  `inv  <sys> <n j…> <n jd…>`   → `ok <branches> <margin> <q…> <qd…>`      (`Inv.inverse`)
  `w2j  <sys> <n x…> <n xd…>`   → per link `j jd a_p a_c`           (`Kin.worldToJoint`)
  `tail <sys> <n x…> <n xd…>`   → `ok <branches> <margin> <q…> <qd…>`      (`Inv.stepTail`)
  `rt   <sys> <n q…> <n qd…>`   → `ok <branches> <margin> <q…> <qd…>`      (`inverse ∘ world_to_joint ∘ forward`)
  `orth <a>`                    → `b c`                              (`Inv.orthogonals`)
`<branches>`: one tag per link, comma separated: type char, then one letter per dof
(`r` rotational, `p` prismatic, `b` both, `z` neither), then `R` (root) or `C` (child). -/
open Brax

def dofTag (m : Motion Float) : Char :=
  match Inv.v3Any m.ang, Inv.v3Any m.vel with
  | true, false => 'r' | false, true => 'p' | true, true => 'b' | false, false => 'z'

def branches (s : Sys Float) : String :=
  let ins := Kin.linkSlices s.types ([] : List Float) [] s.dofs
  let tags := (ins.zip s.parents).map fun a =>
    let dofs := if a.1.typ == .free then "" else String.ofList (a.1.dofs.map fun d => dofTag d.motion)
    String.singleton a.1.typ.toChar ++ dofs ++ (if a.2 == -1 then "R" else "C")
  if tags.isEmpty then "-" else ",".intercalate tags

/-- distance of one link's inverse computation from its nearest branch point / singular point
(only quantities that feed an output which `where(motion.ang.any(axis=1), …)` selects):
`| |a.y| − 0.5 |` of every non-zero rotational axis (branch of `orthogonals`), the norms of the two
vectors that get normalised (line of nodes, projected axis), `1 − |cos θ|` and `|sin θ|`-like
arguments of `arccos·sign`, and the modulus of the `atan2` arguments. -/
def linkMargin (j : Tf Float) (ms : List (Motion Float)) : Float :=
  let big : Float := 1e9
  let used := ms.map fun m => Inv.v3Any m.ang
  if !used.any id then big else
  match Inv.linkToJointFrame ms with
  | none => big
  | some (fr, _, parity) =>
    let nrm := fun (v : V3 Float) => Float.sqrt (V3.dot v v)
    let mOrth := ms.foldl (fun acc m =>
      if Inv.v3Any m.ang then min acc (Float.abs (Float.abs m.ang.y - 0.5)) else acc) big
    let c0 := rotate fr.r0 j.rot; let c1 := rotate fr.r1 j.rot; let c2 := rotate fr.r2 j.rot
    let lonRaw := V3.cross c2 fr.r0
    let lon := normalize3 lonRaw
    let d0 := V3.dot fr.r0 c0; let d1 := V3.dot fr.r0 c1
    let a1Raw : V3 Float := ⟨d0 * c0.x + d1 * c1.x, d0 * c0.y + d1 * c1.y, d0 * c0.z + d1 * c1.z⟩
    let ab := V3.dot (normalize3 a1Raw) fr.r0
    let hyp := fun (ax p c : V3 Float) =>
      let y := V3.dot (V3.cross p c) ax; let x := V3.dot p c; Float.sqrt (y * y + x * x)
    let ycn : V3 Float := ⟨-c2.x * parity, -c2.y * parity, -c2.z * parity⟩
    let mPsi := if used.getD 0 false then min (nrm lonRaw) (hyp fr.r0 fr.r1 lon) else big
    let mTheta := if used.getD 1 false then
      min (nrm a1Raw) (min (1 - Float.abs ab) (Float.abs (V3.dot fr.r0 c2))) else big
    let mPhi := if used.getD 2 false then min (nrm lonRaw) (hyp ycn c1 lon) else big
    min mOrth (min mPsi (min mTheta mPhi))

def margin (s : Sys Float) (j : List (Tf Float)) : Float :=
  let ins := Kin.linkSlices s.types ([] : List Float) [] s.dofs
  (ins.zip j).foldl (fun acc a =>
    if a.1.typ == .free then acc else min acc (linkMargin a.2 (a.1.dofs.map (·.motion)))) 1e9

/-- `ok <branches> <margin> <q…> <qd…>` -/
def renderQ (s : Sys Float) (j : List (Tf Float)) (r : Option (List Float × List Float)) : String :=
  match r with
  | none => "none"
  | some (q, qd) =>
    joinToks (["ok", branches s, Wire.render (margin s j)] ++ q.map Wire.render ++ qd.map Wire.render)

def readSysXs : Rd (Sys Float × List (Tf Float) × List (Motion Float)) := do
  let s ← Rd.sys; let x ← Rd.list Rd.tf; let xd ← Rd.list Rd.motion; pure (s, x, xd)

def readSysQs : Rd (Sys Float × List Float × List Float) := do
  let s ← Rd.sys; let q ← Rd.list Rd.val; let qd ← Rd.list Rd.val; pure (s, q, qd)

def stepF (line : String) : String :=
  match tokens line with
  | "inv" :: ts =>
    match readSysXs ts with
    | some ((s, j, jd), []) =>
      if !s.WF || j.length != s.numLinks || jd.length != s.numLinks then "bad-args" else
      renderQ s j (Inv.inverse s j jd)
    | _ => "bad-args"
  | "w2j" :: ts =>
    match readSysXs ts with
    | some ((s, x, xd), []) =>
      if !s.WF || x.length != s.numLinks || xd.length != s.numLinks then "bad-args" else
      joinToks ((Kin.worldToJoint s x xd).flatMap fun r =>
        r.1.toks ++ r.2.1.toks ++ r.2.2.1.toks ++ r.2.2.2.toks)
    | _ => "bad-args"
  | "tail" :: ts =>
    match readSysXs ts with
    | some ((s, x, xd), []) =>
      if !s.WF || x.length != s.numLinks || xd.length != s.numLinks then "bad-args" else
      renderQ s ((Kin.worldToJoint s x xd).map (·.1)) ((Inv.stepTail s x xd).map fun r => (r.q, r.qd))
    | _ => "bad-args"
  | "rt" :: ts =>
    match readSysQs ts with
    | some ((s, q, qd), []) =>
      if !s.WF || q.length != s.nq || qd.length != s.nv then "bad-args" else
      let f := Kin.forward s q qd
      renderQ s ((Kin.worldToJoint s (f.map (·.1)) (f.map (·.2))).map (·.1))
        ((Inv.stepTail s (f.map (·.1)) (f.map (·.2))).map fun r => (r.q, r.qd))
    | _ => "bad-args"
  | "orth" :: ts =>
    match (Rd.v3 : Rd (V3 Float)) ts with
    | some (a, []) => let r := Inv.orthogonals a; joinToks (r.1.toks ++ r.2.toks)
    | _ => "bad-args"
  | _ => "bad-op"

def main : IO Unit := driverLoop stepF
