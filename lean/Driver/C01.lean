import Brax.Spec.MjKinematics
import Brax.Model.ScanLevels
import Brax.Model.ScanTypes
import Brax.Model.KinCoded
/-! line protocol driver for C01/C08: `fwd <sys> <q> <qd>`, `mjfwd <sys> <q>`, `w2j <sys> <x> <xd>` -/
open Brax

def readSysState (α : Type) [Wire α] : Rd (Sys α × List α × List α) := do
  let s ← Rd.sys
  let q ← Rd.list Rd.val
  let qd ← Rd.list Rd.val
  pure (s, q, qd)

def stepF (line : String) : String :=
  match tokens line with
  | "fwd" :: ts =>
    match Rd.run (readSysState Float) ts with
    | some (s, q, qd) =>
      if !s.WF || q.length != s.nq || qd.length != s.nv then "bad-args" else
      -- the function including the scan code (scan.link_types / scan.tree as coded) is what is compared with
      -- the implementation; it must also agree with the recursion-level model the theorems are about
      let dz : DofP Float := ⟨⟨⟨0, 0, 0⟩, ⟨0, 0, 0⟩⟩, 0, 0, 0, none, none, 0⟩
      let coded := joinToks ((Kin.forwardCoded s q qd 0 dz).flatMap fun x => x.1.toks ++ x.2.toks)
      let plain := joinToks ((Kin.forward s q qd).flatMap fun x => x.1.toks ++ x.2.toks)
      if coded != plain then "bad-coded-differs-from-recursion-model" else coded
    | none => "bad-args"
  | "mjfwd" :: ts =>
    match Rd.run (readSysState Float) ts with
    | some (s, q, _) =>
      if !s.WF || q.length != s.nq then "bad-args" else
      joinToks ((Mj.kinematics s q).flatMap fun x => x.toks)
    | none => "bad-args"
  | "mjvel" :: ts =>
    match Rd.run (readSysState Float) ts with
    | some (s, q, qd) =>
      if !s.WF || q.length != s.nq || qd.length != s.nv then "bad-args" else
      joinToks ((Mj.kinematicsVel s q qd).flatMap fun x => x.1.toks ++ x.2.toks)
    | none => "bad-args"
  | "scanfwd" :: ts =>
    -- Layer B tie: integer-valued injective step  y = (31·parent + a) mod 1000003, roots: a
    let p : Rd (List Int × List Int) := do let ps ← Rd.list Rd.int; let as ← Rd.list Rd.int; pure (ps, as)
    match Rd.run p ts with
    | some (ps, as) =>
      if ps.length != as.length then "bad-args" else
      joinToks ((Kin.scanFwd (fun (par : Option Int) (a : Int) =>
        match par with | none => a % 1000003 | some y => (31 * y + a) % 1000003) ps as).map toString)
    | none => "bad-args"
  | "scanlevels" :: ts =>
    -- Layer B stage 2: the level-grouped transcription of scan.tree with the same injective step
    let p : Rd (List Int × List Int) := do let ps ← Rd.list Rd.int; let as ← Rd.list Rd.int; pure (ps, as)
    match Rd.run p ts with
    | some (ps, as) =>
      if ps.length != as.length then "bad-args" else
      joinToks ((Kin.scanTreeLevels (fun (par : Option Int) (a : Int) =>
        match par with | none => a % 1000003 | some y => (31 * y + a) % 1000003) ps as 0 0).map toString)
    | none => "bad-args"
  | "scanlevelsrev" :: ts =>
    -- Layer B stage 2, leaves → root: the level-grouped transcription with the same (non-additive) step
    let p : Rd (List Int × List Int) := do let ps ← Rd.list Rd.int; let as ← Rd.list Rd.int; pure (ps, as)
    match Rd.run p ts with
    | some (ps, as) =>
      if ps.length != as.length then "bad-args" else
      joinToks ((Kin.scanTreeLevelsRev (fun (c : Option Int) (a : Int) =>
        match c with | none => (a + 7) % 1000003 | some y => (a + 37 * y) % 1000003) ps as 0 0 (· + ·)).map toString)
    | none => "bad-args"
  | "scanrev" :: ts =>
    -- y = (a + 37·carry) mod 1000003 ; carry none (deepest level) counts as 7
    let p : Rd (List Int × List Int) := do let ps ← Rd.list Rd.int; let as ← Rd.list Rd.int; pure (ps, as)
    match Rd.run p ts with
    | some (ps, as) =>
      if ps.length != as.length then "bad-args" else
      joinToks ((Kin.scanRev (fun (c : Option Int) (a : Int) =>
        match c with | none => (a + 7) % 1000003 | some y => (a + 37 * y) % 1000003) ps as).map toString)
    | none => "bad-args"
  | "slices" :: ts =>
    -- Layer B tie: per-link (typ, Σ q-slice·weights, Σ qd-slice·weights)
    let p : Rd (List LinkType × List Int × List Int) := do
      let t ← Rd.linkTypes; let q ← Rd.list Rd.int; let qd ← Rd.list Rd.int; pure (t, q, qd)
    match Rd.run p ts with
    | some (t, q, qd) =>
      let ins := Kin.linkSlices t q qd ([] : List (DofP Int))
      let h := fun (xs : List Int) => (xs.foldl (fun (acc : Int × Int) x => (acc.1 * 10 + x, acc.2 + 1)) (0, 0)).1
      joinToks (ins.flatMap fun l => [toString (h l.q), toString (h l.qd)])
    | none => "bad-args"
  | "typescoded" :: kind :: ts =>
    -- Layer B stage 2: the type-grouped transcription of scan.link_types, output kinds 'l', 'q', 'd'
    let p : Rd (List LinkType × List Int × List Int) := do
      let t ← Rd.linkTypes; let q ← Rd.list Rd.int; let qd ← Rd.list Rd.int; pure (t, q, qd)
    match Rd.run p ts with
    | some (t, q, qd) =>
      let h := fun (xs : List Int) => xs.foldl (fun (acc : Int) x => acc * 10 + x) 0
      let dz : DofP Int := ⟨⟨⟨0, 0, 0⟩, ⟨0, 0, 0⟩⟩, 0, 0, 0, none, none, 0⟩
      let ds := qd.map fun _ => dz
      let run := fun (g : Kin.LinkIn Int → List Int) (wo : LinkType → Nat) =>
        joinToks ((Kin.scanLinkTypesCoded g wo t q qd ds 0 dz 0).map toString)
      match kind with
      | "l" => run (fun l => [h l.q + 7 * h l.qd]) (fun _ => 1)
      | "q" => run (fun l => l.q.map fun x => x * 3 + h l.qd) LinkType.qWidth
      | "d" => run (fun l => l.qd.map fun x => x * 2 + h l.q) LinkType.qdWidth
      | _ => "bad-args"
    | none => "bad-args"
  | "w2j" :: ts =>
    let p : Rd (Sys Float × List (Tf Float) × List (Motion Float)) := do
      let s ← Rd.sys; let x ← Rd.list Rd.tf; let xd ← Rd.list Rd.motion; pure (s, x, xd)
    match Rd.run p ts with
    | some (s, x, xd) =>
      if !s.WF || x.length != s.numLinks || xd.length != s.numLinks then "bad-args" else
      joinToks ((Kin.worldToJoint s x xd).flatMap fun r => r.1.toks ++ r.2.1.toks ++ r.2.2.1.toks ++ r.2.2.2.toks)
    | none => "bad-args"
  | _ => "bad-op"

def main : IO Unit := driverLoop stepF
