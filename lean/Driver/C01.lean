import Brax.Spec.MjKinematics
/-! line protocol driver for C01/C08: `fwd <sys> <q> <qd>`, `mjfwd <sys> <q>`, `w2j <sys> <x> <xd>` -/
open Brax

def readSysState (α : Type) [Wire α] : Rd (Sys α × List α × List α) := do
  let s ← Rd.sys
  let q ← Rd.list Rd.val
  let qd ← Rd.list Rd.val
  pure (s, q, qd)

def stepF (line : String) : String :=
  match tokens line with
  | "fwd" :: ts =>
    match Rd.run (readSysState Float) ts with
    | some (s, q, qd) =>
      if !s.WF || q.length != s.nq || qd.length != s.nv then "bad-args" else
      joinToks ((Kin.forward s q qd).flatMap fun x => x.1.toks ++ x.2.toks)
    | none => "bad-args"
  | "mjfwd" :: ts =>
    match Rd.run (readSysState Float) ts with
    | some (s, q, _) =>
      if !s.WF || q.length != s.nq then "bad-args" else
      joinToks ((Mj.kinematics s q).flatMap fun x => x.toks)
    | none => "bad-args"
  | "mjvel" :: ts =>
    match Rd.run (readSysState Float) ts with
    | some (s, q, qd) =>
      if !s.WF || q.length != s.nq || qd.length != s.nv then "bad-args" else
      joinToks ((Mj.kinematicsVel s q qd).flatMap fun x => x.1.toks ++ x.2.toks)
    | none => "bad-args"
  | "w2j" :: ts =>
    let p : Rd (Sys Float × List (Tf Float) × List (Motion Float)) := do
      let s ← Rd.sys; let x ← Rd.list Rd.tf; let xd ← Rd.list Rd.motion; pure (s, x, xd)
    match Rd.run p ts with
    | some (s, x, xd) =>
      if !s.WF || x.length != s.numLinks || xd.length != s.numLinks then "bad-args" else
      joinToks ((Kin.worldToJoint s x xd).flatMap fun r => r.1.toks ++ r.2.1.toks ++ r.2.2.1.toks ++ r.2.2.2.toks)
    | none => "bad-args"
  | _ => "bad-op"

def main : IO Unit := driverLoop stepF
