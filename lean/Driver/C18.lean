import Brax.Model.C18.Driver
def main : IO Unit := Brax.driverLoop Brax.C18.Driver.step
