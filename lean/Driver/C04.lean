import Brax.Model.Positional
/-! line protocol driver for C04 (also usable by C05/C06): the spring and positional pipelines.

exact-lattice ops (run at `Int`):
* `i.fromworld <sys> <x> <xd>`, `i.toworld <sys> <x_i> <xd_i>` — `com.from_world/to_world`
* `i.assemble <parents> <a_p> <a_c> <x_i> <jf>`   — `Spring.assemble` (tail of `joints.resolve`)
* `i.accupd <sys> <jd> <a_p> <a_c> <x_i> <tau>`  — `positional.joints.acceleration_update`
* `i.totau <sys> <act> <q> <qd>`                 — `actuator.to_tau`

float ops:
* `f.invinertia <sys> <x>`
* `f.sp.resolve <sys> <state> <tau>`, `f.sp.collide <sys> <state> <contacts>`,
  `f.sp.step <sys> <state> <act> <contacts>`
* `f.pos.posupd <sys> <state>`, `f.pos.respos <sys> <x> <x_i> <x_i_prev> <contacts>`,
  `f.pos.resvel <sys> <x> <x_i> <xd_i> <xd_i_prev> <contacts> <dlambda>`,
  `f.pos.step <sys> <state> <act> <contacts>`
-/
open Brax MC

section readers
variable {α : Type} [Wire α]

def rdContact : Rd (Contact α) := do
  let l1 ← Rd.int; let l2 ← Rd.int; let d ← Rd.val; let p ← Rd.v3; let n ← Rd.v3
  let f ← Rd.val; let e ← Rd.val
  pure ⟨l1, l2, d, p, n, f, e⟩

def rdSpringState : Rd (Spring.State α) := do
  let q ← Rd.list Rd.val; let qd ← Rd.list Rd.val
  let x ← Rd.list Rd.tf; let xd ← Rd.list Rd.motion
  let x_i ← Rd.list Rd.tf; let xd_i ← Rd.list Rd.motion
  let j ← Rd.list Rd.tf; let jd ← Rd.list Rd.motion
  let a_p ← Rd.list Rd.tf; let a_c ← Rd.list Rd.tf
  let i_inv ← Rd.list Rd.m3; let mass ← Rd.list Rd.val
  pure ⟨q, qd, x, xd, x_i, xd_i, j, jd, a_p, a_c, i_inv, mass⟩

def rdPosState : Rd (Positional.State α) := do
  let q ← Rd.list Rd.val; let qd ← Rd.list Rd.val
  let x ← Rd.list Rd.tf; let xd ← Rd.list Rd.motion
  let x_i ← Rd.list Rd.tf; let xd_i ← Rd.list Rd.motion
  let j ← Rd.list Rd.tf; let jd ← Rd.list Rd.motion
  let a_p ← Rd.list Rd.tf; let a_c ← Rd.list Rd.tf
  let mass ← Rd.list Rd.val
  pure ⟨q, qd, x, xd, x_i, xd_i, j, jd, a_p, a_c, mass⟩

/-- all tokens must be consumed -/
def runAll {β : Type} (p : Rd β) (ts : List String) : Option β :=
  match p ts with
  | some (v, []) => some v
  | _ => none

def forceToks (fs : List (Force α)) : String := joinToks (fs.flatMap fun f => f.toks)
def motionToks (fs : List (Motion α)) : String := joinToks (fs.flatMap fun f => f.toks)
def tfToks (fs : List (Tf α)) : String := joinToks (fs.flatMap fun f => f.toks)
end readers

def okLens (n : Nat) (ls : List Nat) : Bool := ls.all (· == n)

/-- `x, xd, x_i, xd_i, j, jd, a_p, a_c` of a stepped state -/
def stateToks (x : List (Tf Float)) (xd : List (Motion Float)) (x_i : List (Tf Float))
    (xd_i : List (Motion Float)) (j : List (Tf Float)) (jd : List (Motion Float))
    (a_p a_c : List (Tf Float)) : String :=
  joinToks (x.flatMap (·.toks) ++ xd.flatMap (·.toks) ++ x_i.flatMap (·.toks) ++ xd_i.flatMap (·.toks)
    ++ j.flatMap (·.toks) ++ jd.flatMap (·.toks) ++ a_p.flatMap (·.toks) ++ a_c.flatMap (·.toks))

def contactsOK (n : Nat) (cs : List (Contact Float)) : Bool :=
  cs.all fun c => decide (-1 ≤ c.link1) && decide (c.link1 < n) && decide (-1 ≤ c.link2) && decide (c.link2 < n)

def stepF (line : String) : String :=
  match tokens line with
  | "i.fromworld" :: ts =>
    let p : Rd (Sys Int × List (Tf Int) × List (Motion Int)) := do
      let s ← Rd.sys; let x ← Rd.list Rd.tf; let xd ← Rd.list Rd.motion; pure (s, x, xd)
    match runAll p ts with
    | some (s, x, xd) =>
      if !s.WF || !okLens s.numLinks [x.length, xd.length] then "bad-args" else
      let r := Com.fromWorld s x xd
      tfToks r.1 ++ " " ++ motionToks r.2
    | none => "bad-args"
  | "i.toworld" :: ts =>
    let p : Rd (Sys Int × List (Tf Int) × List (Motion Int)) := do
      let s ← Rd.sys; let x ← Rd.list Rd.tf; let xd ← Rd.list Rd.motion; pure (s, x, xd)
    match runAll p ts with
    | some (s, x, xd) =>
      if !s.WF || !okLens s.numLinks [x.length, xd.length] then "bad-args" else
      let r := Com.toWorld s x xd
      tfToks r.1 ++ " " ++ motionToks r.2
    | none => "bad-args"
  | "i.assemble" :: ts =>
    let p : Rd (List Int × List (Tf Int) × List (Tf Int) × List (Tf Int) × List (Force Int)) := do
      let ps ← Rd.list Rd.int; let a_p ← Rd.list Rd.tf; let a_c ← Rd.list Rd.tf
      let x_i ← Rd.list Rd.tf; let jf ← Rd.list Rd.force; pure (ps, a_p, a_c, x_i, jf)
    match runAll p ts with
    | some (ps, a_p, a_c, x_i, jf) =>
      if !okLens ps.length [a_p.length, a_c.length, x_i.length, jf.length]
         || !((List.range ps.length).all fun i => decide (-1 ≤ ps.getD i 0) && decide (ps.getD i 0 < (i : Int)))
      then "bad-args" else
      forceToks (Spring.assemble ps a_p a_c x_i jf)
    | none => "bad-args"
  | "i.accupd" :: ts =>
    let p : Rd (Sys Int × List (Motion Int) × List (Tf Int) × List (Tf Int) × List (Tf Int) × List Int) := do
      let s ← Rd.sys; let jd ← Rd.list Rd.motion; let a_p ← Rd.list Rd.tf; let a_c ← Rd.list Rd.tf
      let x_i ← Rd.list Rd.tf; let tau ← Rd.list Rd.val; pure (s, jd, a_p, a_c, x_i, tau)
    match runAll p ts with
    | some (s, jd, a_p, a_c, x_i, tau) =>
      if !s.WF || !okLens s.numLinks [jd.length, a_p.length, a_c.length, x_i.length]
         || tau.length != s.nv then "bad-args" else
      let st : Positional.State Int := ⟨[], [], [], [], x_i, [], [], jd, a_p, a_c, []⟩
      forceToks (Positional.accelerationUpdate s st tau)
    | none => "bad-args"
  | "i.totau" :: ts =>
    let p : Rd (Sys Int × List Int × List Int × List Int) := do
      let s ← Rd.sys; let a ← Rd.list Rd.val; let q ← Rd.list Rd.val; let qd ← Rd.list Rd.val
      pure (s, a, q, qd)
    match runAll p ts with
    | some (s, a, q, qd) =>
      if !s.WF || a.length != s.acts.length || q.length != s.nq || qd.length != s.nv then "bad-args" else
      renderVals (toTau s a q qd)
    | none => "bad-args"
  | "f.invinertia" :: ts =>
    let p : Rd (Sys Float × List (Tf Float)) := do let s ← Rd.sys; let x ← Rd.list Rd.tf; pure (s, x)
    match runAll p ts with
    | some (s, x) =>
      if !s.WF || x.length != s.numLinks then "bad-args" else
      joinToks ((Com.invInertia s x).flatMap (·.toks))
    | none => "bad-args"
  | "f.sp.resolve" :: ts =>
    let p : Rd (Sys Float × Spring.State Float × List Float) := do
      let s ← Rd.sys; let st ← rdSpringState; let tau ← Rd.list Rd.val; pure (s, st, tau)
    match runAll p ts with
    | some (s, st, tau) =>
      if !s.WF || !st.WF s || tau.length != s.nv then "bad-args" else
      forceToks (Spring.resolve s st tau)
    | none => "bad-args"
  | "f.sp.collide" :: ts =>
    let p : Rd (Sys Float × Spring.State Float × List (Contact Float)) := do
      let s ← Rd.sys; let st ← rdSpringState; let cs ← Rd.list rdContact; pure (s, st, cs)
    match runAll p ts with
    | some (s, st, cs) =>
      if !s.WF || !st.WF s || !contactsOK s.numLinks cs then "bad-args" else
      motionToks (Spring.collide s st cs)
    | none => "bad-args"
  | "f.sp.step" :: ts =>
    let p : Rd (Sys Float × Spring.State Float × List Float × List (Contact Float)) := do
      let s ← Rd.sys; let st ← rdSpringState; let a ← Rd.list Rd.val; let cs ← Rd.list rdContact
      pure (s, st, a, cs)
    match runAll p ts with
    | some (s, st, a, cs) =>
      if !s.WF || !st.WF s || a.length != s.acts.length || !contactsOK s.numLinks cs then "bad-args" else
      let r := Spring.step (fun _ _ => (st.q, st.qd)) (fun _ => cs) s st a
      stateToks r.x r.xd r.x_i r.xd_i r.j r.jd r.a_p r.a_c
    | none => "bad-args"
  | "f.pos.posupd" :: ts =>
    let p : Rd (Sys Float × Positional.State Float) := do
      let s ← Rd.sys; let st ← rdPosState; pure (s, st)
    match runAll p ts with
    | some (s, st) =>
      if !s.WF || !st.WF s then "bad-args" else tfToks (Positional.positionUpdate s st)
    | none => "bad-args"
  | "f.pos.respos" :: ts =>
    let p : Rd (Sys Float × List (Tf Float) × List (Tf Float) × List (Tf Float) × List (Contact Float)) := do
      let s ← Rd.sys; let x ← Rd.list Rd.tf; let x_i ← Rd.list Rd.tf; let xp ← Rd.list Rd.tf
      let cs ← Rd.list rdContact; pure (s, x, x_i, xp, cs)
    match runAll p ts with
    | some (s, x, x_i, xp, cs) =>
      if !s.WF || !okLens s.numLinks [x.length, x_i.length, xp.length] || !contactsOK s.numLinks cs
      then "bad-args" else
      let r := Positional.resolvePosition s x_i xp (Com.invInertia s x) (Positional.massInv s) cs
      tfToks r.1 ++ " | " ++ renderVals r.2
    | none => "bad-args"
  | "f.pos.resvel" :: ts =>
    let p : Rd (Sys Float × List (Tf Float) × List (Tf Float) × List (Motion Float) × List (Motion Float)
        × List (Contact Float) × List Float) := do
      let s ← Rd.sys; let x ← Rd.list Rd.tf; let x_i ← Rd.list Rd.tf; let xd ← Rd.list Rd.motion
      let xq ← Rd.list Rd.motion; let cs ← Rd.list rdContact; let dl ← Rd.list Rd.val
      pure (s, x, x_i, xd, xq, cs, dl)
    match runAll p ts with
    | some (s, x, x_i, xd, xq, cs, dl) =>
      if !s.WF || !okLens s.numLinks [x.length, x_i.length, xd.length, xq.length]
         || !contactsOK s.numLinks cs || (!cs.isEmpty && dl.length != cs.length) then "bad-args" else
      motionToks (Positional.resolveVelocity s x_i xd xq (Com.invInertia s x) (Positional.massInv s) cs dl)
    | none => "bad-args"
  | "f.pos.step" :: ts =>
    let p : Rd (Sys Float × Positional.State Float × List Float × List (Contact Float)) := do
      let s ← Rd.sys; let st ← rdPosState; let a ← Rd.list Rd.val; let cs ← Rd.list rdContact
      pure (s, st, a, cs)
    match runAll p ts with
    | some (s, st, a, cs) =>
      if !s.WF || !st.WF s || a.length != s.acts.length || !contactsOK s.numLinks cs then "bad-args" else
      let r := Positional.step (fun _ _ => (st.q, st.qd)) (fun _ => cs) s st a
      stateToks r.x r.xd r.x_i r.xd_i r.j r.jd r.a_p r.a_c
    | none => "bad-args"
  | _ => "bad-op"

def main : IO Unit := driverLoop stepF
