import Brax.Model.C10
import Brax.Spec.C10
import Brax.Model.Sys
/-! line protocol driver for C10 (Float):

* `pose <x> <geoms>`                      → per geom `geom_xpos(3) geom_xmat(9)` (`C10.geomWorld`)
* `get <x> <geoms> <elasticity> <pairs>`  → `none`, or `ok` followed, per candidate row, by
  `geom1 geom2 link1 link2 elasticity | dist pos(3) normal(3)` of `C10.get` run with the mjx
  transcription as the collision parameter, then `dist pos(3) normal(3)` of the closed-form Spec
  evaluated on the model's geom world poses.

`<x>` = `n (pos3 quat4)*`, `<geoms>` = `n (bodyid type size3 pos3 quat4)*`,
`<elasticity>` = `n e*`, `<pairs>` = `n (g1 g2)*`. -/
open Brax Brax.C10

def rdGeom : Rd (Geom Float) := do
  let b ← Rd.nat; let t ← Rd.nat; let s ← Rd.v3; let p ← Rd.v3; let q ← Rd.q4
  pure ⟨b, t, s, p, q⟩

def rdPair : Rd (Nat × Nat) := do let a ← Rd.nat; let b ← Rd.nat; pure (a, b)

def rdEnd : Rd Unit := fun ts => match ts with | [] => some ((), []) | _ => none

def geomsOk (nx : Nat) (gs : List (Geom Float)) : Bool :=
  gs.all fun g => decide (g.bodyid ≤ nx) && (g.typ == 0 || g.typ == 2 || g.typ == 3)

def specRows (gs : List (Geom Float)) (world : List (V3 Float × M3 Float)) (pairs : List (Nat × Nat)) :
    Option (List (Spec.Cand Float)) :=
  (pairs.mapM fun (p : Nat × Nat) => (do
    let g1 ← gs[p.1]?
    let g2 ← gs[p.2]?
    let w1 ← world[p.1]?
    let w2 ← world[p.2]?
    let s1 ← Spec.toShape g1.typ g1.size w1.1 w1.2
    let s2 ← Spec.toShape g2.typ g2.size w2.1 w2.2
    match Spec.collide s1 s2 with
    | [] => none
    | cs => some cs : Option (List (Spec.Cand Float)))).map List.flatten

def stepF (line : String) : String :=
  match tokens line with
  | "pose" :: ts =>
    let p : Rd (List (Tf Float) × List (Geom Float)) := do
      let x ← Rd.list Rd.tf; let gs ← Rd.list rdGeom; rdEnd; pure (x, gs)
    match Rd.run p ts with
    | some (x, gs) =>
      if !geomsOk x.length gs then "bad-args" else
      joinToks (gs.flatMap fun g => let w := geomWorld x g; w.1.toks ++ w.2.toks)
    | none => "bad-args"
  | "get" :: ts =>
    let p : Rd (List (Tf Float) × List (Geom Float) × List Float × List (Nat × Nat)) := do
      let x ← Rd.list Rd.tf; let gs ← Rd.list rdGeom; let e ← Rd.list Rd.val
      let ps ← Rd.list rdPair; rdEnd; pure (x, gs, e, ps)
    match Rd.run p ts with
    | some (x, gs, e, ps) =>
      if !geomsOk x.length gs || e.length != gs.length
          || !(ps.all fun p => decide (p.1 < gs.length) && decide (p.2 < gs.length)) then "bad-args" else
      let sc : Scene Float := ⟨gs, e⟩
      match get sc x (Mjx.collision gs ps) with
      | none => if ps.isEmpty then "none" else "bad-args"
      | some cs =>
        match specRows gs (gs.map (geomWorld x)) ps with
        | none => "bad-args"
        | some ss =>
          if ss.length != cs.length then "bad-args" else
          joinToks ("ok" :: (cs.zip ss).flatMap fun (c, s) =>
            [toString c.row.geom1, toString c.row.geom2, toString c.link1, toString c.link2,
             Wire.render c.elasticity, Wire.render c.row.dist] ++ c.row.pos.toks ++ c.row.normal.toks
            ++ [Wire.render s.dist] ++ s.pos.toks ++ s.n.toks)
    | none => "bad-args"
  | _ => "bad-op"

def main : IO Unit := driverLoop stepF
