import Brax.Spec.C13
import Brax.Model.Wire
/-!
# C13 driver — runs the Model (`fuse`, `fuseFixed`) and the Spec (`docEntries`) at `Rat`

One line per case:

* `fuse <P|F> <tree>`       → `ok <jointless> <rotOnly> <tree>`   (P = pinned guard, F = patched guard)
* `entries <tree>`          → `ok <n> <entry>*`
* `fuseEntries <P|F> <tree>`→ `ok <n> <entry>*`  (Spec of the fused document)

`<tree>` (prefix form, names carry a leading `:` so that they may be empty):
  `B :name <0|1 [x y z]> <0|1 [w x y z]> <n> <child>*`      body
  `L <g|s|c> :name P <0|1 [x y z]> <0|1 [w x y z]>`           geom/site/camera by pos/quat
  `L <g|s|c> :name F ax ay az bx by bz <0|1 [w x y z]>`       … by fromto
  `J <0|1> :name`                                            joint (1 = freejoint)
  `O :tag <n> <child>*`                                      any other tag
`<entry>`: `:anchor <b|g|s|c> :name F px py pz qw qx qy qz` or `… S ax ay az bx by bz`.
Numbers: doubles as `x<16 hex>` (decoded exactly) or `n/d`; answers are exact rationals `n/d`.
Malformed input is answered with `bad-op` / `bad-args`.
-/
namespace Brax.C13.Driver
open Brax Brax.C13

abbrev Toks := List String

def name? (t : String) : Option String :=
  if t.startsWith ":" then some (t.drop 1).toString else none

def parseV3 (ts : Toks) : Option (V3 Rat × Toks) := do
  let (vs, rest) ← takeVals (α := Rat) 3 ts
  match vs with
  | [x, y, z] => some (⟨x, y, z⟩, rest)
  | _ => none

def parseQ4 (ts : Toks) : Option (Q4 Rat × Toks) := do
  let (vs, rest) ← takeVals (α := Rat) 4 ts
  match vs with
  | [w, x, y, z] => some (⟨w, x, y, z⟩, rest)
  | _ => none

def parseOptV3 : Toks → Option (Option (V3 Rat) × Toks)
  | "0" :: rest => some (none, rest)
  | "1" :: rest => do let (v, r) ← parseV3 rest; some (some v, r)
  | _ => none

def parseOptQ4 : Toks → Option (Option (Q4 Rat) × Toks)
  | "0" :: rest => some (none, rest)
  | "1" :: rest => do let (q, r) ← parseQ4 rest; some (some q, r)
  | _ => none

def parseKind : String → Option Kind
  | "g" => some .geom
  | "s" => some .site
  | "c" => some .camera
  | _ => none

/-- `n` elements with the element parser `pe` -/
def parseMany (pe : Toks → Option (Elem Rat × Toks)) : Nat → Toks → Option (List (Elem Rat) × Toks)
  | 0, ts => some ([], ts)
  | n + 1, ts => do
      let (e, r) ← pe ts
      let (es, r') ← parseMany pe n r
      some (e :: es, r')

/-- fuel bounds the nesting depth (the caller passes the number of tokens) -/
def parseElem : Nat → Toks → Option (Elem Rat × Toks)
  | 0, _ => none
  | fuel + 1, ts =>
    match ts with
    | "B" :: nm :: rest => do
        let n ← name? nm
        let (p, r1) ← parseOptV3 rest
        let (q, r2) ← parseOptQ4 r1
        match r2 with
        | k :: r3 => do
            let cnt ← k.toNat?
            let (cs, r4) ← parseMany (parseElem fuel) cnt r3
            some (.body n p q cs, r4)
        | [] => none
    | "L" :: k :: nm :: "P" :: rest => do
        let kd ← parseKind k
        let n ← name? nm
        let (p, r1) ← parseOptV3 rest
        let (q, r2) ← parseOptQ4 r1
        some (.leaf kd n (.pq p q), r2)
    | "L" :: k :: nm :: "F" :: rest => do
        let kd ← parseKind k
        let n ← name? nm
        let (a, r1) ← parseV3 rest
        let (b, r2) ← parseV3 r1
        let (q, r3) ← parseOptQ4 r2
        some (.leaf kd n (.fromto a b q), r3)
    | "J" :: "0" :: nm :: rest => do let n ← name? nm; some (.joint false n, rest)
    | "J" :: "1" :: nm :: rest => do let n ← name? nm; some (.joint true n, rest)
    | "O" :: tg :: k :: rest => do
        let t ← name? tg
        let cnt ← k.toNat?
        let (cs, r) ← parseMany (parseElem fuel) cnt rest
        some (.other t cs, r)
    | _ => none

def rV3 (v : V3 Rat) : String := renderVals [v.x, v.y, v.z]
def rQ4 (q : Q4 Rat) : String := renderVals [q.w, q.x, q.y, q.z]
def rOptV3 : Option (V3 Rat) → String
  | none => "0"
  | some v => "1 " ++ rV3 v
def rOptQ4 : Option (Q4 Rat) → String
  | none => "0"
  | some q => "1 " ++ rQ4 q
def rKind : Kind → String
  | .geom => "g"
  | .site => "s"
  | .camera => "c"
def rEKind : EKind → String
  | .body => "b"
  | .geom => "g"
  | .site => "s"
  | .camera => "c"

mutual
def renderElem : Elem Rat → String
  | .body n p q cs =>
      s!"B :{n} {rOptV3 p} {rOptQ4 q} {cs.length}" ++ renderList cs
  | .leaf k n (.pq p q) => s!"L {rKind k} :{n} P {rOptV3 p} {rOptQ4 q}"
  | .leaf k n (.fromto a b q) => s!"L {rKind k} :{n} F {rV3 a} {rV3 b} {rOptQ4 q}"
  | .joint f n => s!"J {if f then "1" else "0"} :{n}"
  | .other t cs => s!"O :{t} {cs.length}" ++ renderList cs
def renderList : List (Elem Rat) → String
  | [] => ""
  | c :: cs => " " ++ renderElem c ++ renderList cs
end

def renderEntry (en : Entry Rat) : String :=
  let head := s!":{en.anchor} {rEKind en.kind} :{en.name} "
  match en.pose with
  | .frame t => head ++ "F " ++ rV3 t.pos ++ " " ++ rQ4 t.rot
  | .segment a b => head ++ "S " ++ rV3 a ++ " " ++ rV3 b

def renderEntries (es : List (Entry Rat)) : String :=
  s!"ok {es.length}" ++ String.join (es.map fun en => " " ++ renderEntry en)

def parseDoc (ts : Toks) : Option (Elem Rat) :=
  match parseElem (ts.length + 1) ts with
  | some (e, []) => some e
  | _ => none

def step (line : String) : String :=
  match tokens line with
  | "fuse" :: v :: rest =>
    if v ≠ "P" ∧ v ≠ "F" then "bad-args" else
    match parseDoc rest with
    | some d =>
      let r := if v = "P" then fuse d else fuseFixed d
      s!"ok {countJointless d} {countRotOnly d} " ++ renderElem r
    | none => "bad-args"
  | "entries" :: rest =>
    match parseDoc rest with
    | some d => renderEntries (docEntries d)
    | none => "bad-args"
  | "fuseEntries" :: v :: rest =>
    if v ≠ "P" ∧ v ≠ "F" then "bad-args" else
    match parseDoc rest with
    | some d => renderEntries (docEntries (if v = "P" then fuse d else fuseFixed d))
    | none => "bad-args"
  | _ => "bad-op"

end Brax.C13.Driver

def main : IO Unit := Brax.driverLoop Brax.C13.Driver.step
