import Brax.Model.C12
def main : IO Unit := Brax.driverLoop Brax.C12.driverStep
