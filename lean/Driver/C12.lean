import Brax.Model.C12
import Brax.Model.C02
open Brax

/-- float vectors for the n-dof linear model -/
structure Vec where
  xs : List Float
instance : Add Vec := ⟨fun a b => ⟨List.zipWith (· + ·) a.xs b.xs⟩⟩
instance : Neg Vec := ⟨fun a => ⟨a.xs.map fun x => -x⟩⟩
instance : SMul Float Vec := ⟨fun c a => ⟨a.xs.map fun x => c * x⟩⟩

/-- `lin <n> M(n·n) <n> k <dt> <n> q <n> v <steps>` → the steps+1 states of `C12.linIter` with `A q = M⁻¹ (k ⊙ q)` -/
def linDriver (ts : List String) : String :=
  let p : Rd (List (List Float) × List Float × Float × List Float × List Float × Nat) := do
    let n ← Rd.nat
    let m ← Rd.rep n (Rd.rep n (Rd.val : Rd Float))
    let k ← Rd.list (Rd.val : Rd Float)
    let dt ← (Rd.val : Rd Float)
    let q ← Rd.list (Rd.val : Rd Float)
    let v ← Rd.list (Rd.val : Rd Float)
    let steps ← Rd.nat
    pure (m, k, dt, q, v, steps)
  match Rd.run p ts with
  | some (m, k, dt, q, v, steps) =>
    if k.length != m.length || q.length != m.length || v.length != m.length then "bad-args" else
    let A : Vec → Vec := fun x => ⟨Gd.gaussSolve m (List.zipWith (· * ·) k x.xs)⟩
    let states := (List.range (steps + 1)).map fun i => C12.linIter A dt i ((⟨q⟩ : Vec), (⟨v⟩ : Vec))
    renderVals (states.flatMap fun s => s.1.xs ++ s.2.xs)
  | _ => "bad-args"

def step (line : String) : String :=
  match tokens line with
  | "lin" :: ts => linDriver ts
  | _ => C12.driverStep line

def main : IO Unit := Brax.driverLoop step
