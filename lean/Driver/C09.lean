import Brax.Gen.MathDriver
def main : IO Unit := Brax.driverLoop Brax.Gen.driverStep
