import Brax.Model.C16
import Brax.Model.Sys
/-!
# C16 line-protocol driver (`Float`)

```
<state> ::= nq q^nq  nv qd^nv  nb <tf>^nb  nb <motion>^nb          (tf = pos rot, motion = ang vel)
<rng>   ::= nu {lo hi}^nu
<cfg>   ::= ant:               ctrlW healthyR terminate zLo zHi exclude dt
            halfcheetah:       fwdW ctrlW exclude dt
            hopper:            fwdW ctrlW healthyR terminate sLo sHi zLo zHi aLo aHi exclude dt
            walker2d:          fwdW ctrlW healthyR terminate zLo zHi aLo aHi exclude dt
            swimmer:           fwdW ctrlW exclude dt
            humanoid:          fwdW ctrlW healthyR terminate zLo zHi exclude dt nb <inertia>^nb <rng>
            humanoidstandup:   dt nb <inertia>^nb <rng>
            pusher:            nb <v3>^nb tips object goal <rng>
            inverted_pendulum, inverted_double_pendulum, reacher:   (empty)
size  <env> exclude nq nv nb                         -> observation size formula
reset <env> <cfg> <state> n qfrc^n                   -> <out>
step  <env> <cfg> <state0> <state> n act^n done0 n qfrc^n -> <out>
<out> ::= n obs^n reward done m metric^m
```
`-inf`/`inf` are accepted for range ends (`lo`/`hi` of healthy ranges) only.  `qfrc` is only read
by the humanoid environments (send `0` otherwise).  Shape guards mirror the static indexing of the
python code; a line that violates them is answered `bad-args`.
-/
open Brax Brax.C16

namespace C16Driver

abbrev F := Float

def rdBool : Rd Bool := do
  let t ← Rd.tok
  if t == "0" then pure false else if t == "1" then pure true else failure

def rdState : Rd (PState F) := do
  let q ← Rd.list Rd.val
  let qd ← Rd.list Rd.val
  let x ← Rd.list Rd.tf
  let xd ← Rd.list Rd.motion
  pure ⟨q, qd, x, xd⟩

def rdRange : Rd (List (F × F)) :=
  Rd.list (do let lo ← Rd.val; let hi ← Rd.val; pure (lo, hi))

def rdEnd : Rd Unit := fun ts => match ts with | [] => some ((), []) | _ => none

def renderOut (o : Out F) : String :=
  joinToks ([toString o.obs.length] ++ o.obs.map Wire.render ++ [Wire.render o.reward, Wire.render o.done]
    ++ [toString o.metrics.length] ++ o.metrics.map Wire.render)

/-- what every environment needs of a state: consistent link lists, at least one link -/
def okState (s : PState F) (nq nv nb : Nat → Bool) : Bool :=
  nq s.q.length && nv s.qd.length && nb s.x.length && s.xd.length == s.x.length

/-- one environment on the wire: how to read its cfg, its guards and its three functions -/
structure EnvW where
  Cfg : Type
  rd : Rd Cfg
  /-- static-shape guard of the python code -/
  ok : Cfg → PState F → Bool
  /-- action length guard (broadcast against `ctrl_range`) -/
  okAct : Cfg → Nat → Bool
  /-- `qfrc` length guard: one entry per dof for the humanoids, none otherwise -/
  okFrc : PState F → Nat → Bool
  size : Bool → Nat → Nat → Nat → Nat
  reset : Cfg → PState F → List F → Out F
  step : Cfg → PState F → PState F → List F → F → List F → Out F

def ge (n : Nat) : Nat → Bool := fun m => decide (n ≤ m)
def eq (n : Nat) : Nat → Bool := fun m => m == n

def antW : EnvW where
  Cfg := Ant.Cfg F
  rd := do
    let a ← Rd.val; let b ← Rd.val; let t ← rdBool; let lo ← Rd.opt; let hi ← Rd.opt
    let e ← rdBool; let dt ← Rd.val
    pure ⟨a, b, t, lo, hi, e, dt⟩
  ok := fun _ s => okState s (ge 0) (ge 0) (ge 1)
  okAct := fun _ _ => true
  okFrc := fun _ nf => nf == 0
  size := fun e nq nv _ => Ant.obsSize (⟨0, 0, true, none, none, e, 0⟩ : Ant.Cfg F) nq nv
  reset := fun c s _ => Ant.reset c s
  step := fun c s0 s act _ _ => Ant.step c s0 s act

def halfcheetahW : EnvW where
  Cfg := HalfCheetah.Cfg F
  rd := do
    let a ← Rd.val; let b ← Rd.val; let e ← rdBool; let dt ← Rd.val
    pure ⟨a, b, e, dt⟩
  ok := fun _ s => okState s (ge 0) (ge 0) (ge 1)
  okAct := fun _ _ => true
  okFrc := fun _ nf => nf == 0
  size := fun e nq nv _ => HalfCheetah.obsSize (⟨0, 0, e, 0⟩ : HalfCheetah.Cfg F) nq nv
  reset := fun c s _ => HalfCheetah.reset c s
  step := fun c s0 s act d0 _ => HalfCheetah.step c s0 s act d0

def hopperW : EnvW where
  Cfg := Hopper.Cfg F
  rd := do
    let a ← Rd.val; let b ← Rd.val; let h ← Rd.val; let t ← rdBool
    let sl ← Rd.opt; let sh ← Rd.opt; let zl ← Rd.opt; let zh ← Rd.opt; let al ← Rd.opt; let ah ← Rd.opt
    let e ← rdBool; let dt ← Rd.val
    pure ⟨a, b, h, t, sl, sh, zl, zh, al, ah, e, dt⟩
  -- `q[2]`, `q.at[1].set`, `x.pos[0]`
  ok := fun _ s => okState s (ge 3) (ge 0) (ge 1)
  okAct := fun _ _ => true
  okFrc := fun _ nf => nf == 0
  size := fun e nq nv _ =>
    Hopper.obsSize (⟨0, 0, 0, true, none, none, none, none, none, none, e, 0⟩ : Hopper.Cfg F) nq nv
  reset := fun c s _ => Hopper.reset c s
  step := fun c s0 s act _ _ => Hopper.step c s0 s act

def walker2dW : EnvW where
  Cfg := Walker2d.Cfg F
  rd := do
    let a ← Rd.val; let b ← Rd.val; let h ← Rd.val; let t ← rdBool
    let zl ← Rd.opt; let zh ← Rd.opt; let al ← Rd.opt; let ah ← Rd.opt
    let e ← rdBool; let dt ← Rd.val
    pure ⟨a, b, h, t, zl, zh, al, ah, e, dt⟩
  ok := fun _ s => okState s (ge 3) (ge 0) (ge 1)
  okAct := fun _ _ => true
  okFrc := fun _ nf => nf == 0
  size := fun e nq nv _ =>
    Walker2d.obsSize (⟨0, 0, 0, true, none, none, none, none, e, 0⟩ : Walker2d.Cfg F) nq nv
  reset := fun c s _ => Walker2d.reset c s
  step := fun c s0 s act _ _ => Walker2d.step c s0 s act

def swimmerW : EnvW where
  Cfg := Swimmer.Cfg F
  rd := do
    let a ← Rd.val; let b ← Rd.val; let e ← rdBool; let dt ← Rd.val
    pure ⟨a, b, e, dt⟩
  -- `q[:2]` then `[0]`, `[1]`
  ok := fun _ s => okState s (ge 2) (ge 0) (ge 0)
  okAct := fun _ _ => true
  okFrc := fun _ nf => nf == 0
  size := fun e nq nv _ => Swimmer.obsSize (⟨0, 0, e, 0⟩ : Swimmer.Cfg F) nq nv
  reset := fun c s _ => Swimmer.reset c s
  step := fun c s0 s act d0 _ => Swimmer.step c s0 s act d0

def humanoidW : EnvW where
  Cfg := Humanoid.Cfg F
  rd := do
    let a ← Rd.val; let b ← Rd.val; let h ← Rd.val; let t ← rdBool; let zl ← Rd.opt; let zh ← Rd.opt
    let e ← rdBool; let dt ← Rd.val
    let it ← Rd.list Rd.inertia
    let r ← rdRange
    pure ⟨a, b, h, t, zl, zh, e, dt, it, r⟩
  -- one inertia per link (vmap over links), `x.pos[0]`
  ok := fun c s => okState s (ge 0) (ge 0) (fun n => n == c.inertia.length && decide (1 ≤ n))
  okAct := fun c na => na == c.ctrlRange.length
  okFrc := fun s nf => nf == s.qd.length
  size := fun e nq nv nb =>
    Humanoid.obsSize (⟨0, 0, 0, true, none, none, e, 0, [], []⟩ : Humanoid.Cfg F) nq nv nb
  reset := fun c s f => Humanoid.reset c s f
  step := fun c s0 s act _ f => Humanoid.step c s0 s act f

def standupW : EnvW where
  Cfg := HumanoidStandup.Cfg F
  rd := do
    let dt ← Rd.val
    let it ← Rd.list Rd.inertia
    let r ← rdRange
    pure ⟨dt, it, r⟩
  ok := fun c s => okState s (ge 0) (ge 0) (fun n => n == c.inertia.length && decide (1 ≤ n))
  okAct := fun c na => na == c.ctrlRange.length
  okFrc := fun s nf => nf == s.qd.length
  size := fun _ nq nv nb => HumanoidStandup.obsSize nq nv nb
  reset := fun c s f => HumanoidStandup.reset c s f
  step := fun c _ s act d0 f => HumanoidStandup.step c s act f d0

def invPendW : EnvW where
  Cfg := Unit
  rd := pure ()
  -- `obs[1]`
  ok := fun _ s => okState s (ge 0) (ge 0) (ge 0) && decide (2 ≤ s.q.length + s.qd.length)
  okAct := fun _ _ => true
  okFrc := fun _ nf => nf == 0
  size := fun _ nq nv _ => InvertedPendulum.obsSize nq nv
  reset := fun _ s _ => InvertedPendulum.reset s
  step := fun _ _ s _ _ _ => InvertedPendulum.step s

def idpW : EnvW where
  Cfg := Unit
  rd := pure ()
  -- `v1, v2 = qd[1:]` needs exactly three velocities; `x.take(2)` needs a link
  ok := fun _ s => okState s (ge 0) (eq 3) (ge 1)
  okAct := fun _ _ => true
  okFrc := fun _ nf => nf == 0
  size := fun _ nq nv _ => InvertedDoublePendulum.obsSize nq nv
  reset := fun _ s _ => InvertedDoublePendulum.reset s
  step := fun _ _ s _ _ _ => InvertedDoublePendulum.step s

def reacherW : EnvW where
  Cfg := Unit
  rd := pure ()
  -- `x.pos[2]`
  ok := fun _ s => okState s (ge 0) (ge 0) (ge 3)
  okAct := fun _ _ => true
  okFrc := fun _ nf => nf == 0
  size := fun _ nq _ _ => Reacher.obsSize nq
  reset := fun _ s _ => Reacher.reset s
  step := fun _ _ s act d0 _ => Reacher.step s act d0

def pusherW : EnvW where
  Cfg := Pusher.Cfg F
  rd := do
    let ip ← Rd.list Rd.v3
    let a ← Rd.nat; let b ← Rd.nat; let g ← Rd.nat
    let r ← rdRange
    pure ⟨ip, a, b, g, r⟩
  ok := fun c s => okState s (ge 0) (ge 0) (fun n => n == c.ipos.length && decide (c.tips < n)
    && decide (c.object < n) && decide (c.goal < n))
  okAct := fun c na => na == c.ctrlRange.length
  okFrc := fun _ nf => nf == 0
  size := fun _ nq nv _ => Pusher.obsSize nq nv
  reset := fun c s _ => Pusher.reset c s
  step := fun c s0 s act d0 _ => Pusher.step c s0 s act d0

def envOf : String → Option EnvW
  | "ant" => some antW
  | "halfcheetah" => some halfcheetahW
  | "hopper" => some hopperW
  | "walker2d" => some walker2dW
  | "swimmer" => some swimmerW
  | "humanoid" => some humanoidW
  | "humanoidstandup" => some standupW
  | "inverted_pendulum" => some invPendW
  | "inverted_double_pendulum" => some idpW
  | "reacher" => some reacherW
  | "pusher" => some pusherW
  | _ => none

def runReset (e : EnvW) (ts : List String) : String :=
  let p : Rd (e.Cfg × PState F × List F) := do
    let c ← e.rd; let s ← rdState; let f ← Rd.list Rd.val; rdEnd; pure (c, s, f)
  match Rd.run p ts with
  | some (c, s, f) =>
    if e.ok c s && e.okFrc s f.length then renderOut (e.reset c s f) else "bad-args"
  | none => "bad-args"

def runStep (e : EnvW) (ts : List String) : String :=
  let p : Rd (e.Cfg × PState F × PState F × List F × F × List F) := do
    let c ← e.rd; let s0 ← rdState; let s ← rdState; let a ← Rd.list Rd.val; let d ← Rd.val
    let f ← Rd.list Rd.val; rdEnd
    pure (c, s0, s, a, d, f)
  match Rd.run p ts with
  | some (c, s0, s, a, d, f) =>
    if e.ok c s0 && e.ok c s && e.okAct c a.length && e.okFrc s f.length then renderOut (e.step c s0 s a d f)
    else "bad-args"
  | none => "bad-args"

def step (line : String) : String :=
  match tokens line with
  | "size" :: name :: ts =>
    match envOf name with
    | none => "bad-op"
    | some e =>
      let p : Rd (Bool × Nat × Nat × Nat) := do
        let b ← rdBool; let nq ← Rd.nat; let nv ← Rd.nat; let nb ← Rd.nat; rdEnd; pure (b, nq, nv, nb)
      match Rd.run p ts with
      | some (b, nq, nv, nb) => toString (e.size b nq nv nb)
      | none => "bad-args"
  | "reset" :: name :: ts =>
    match envOf name with | none => "bad-op" | some e => runReset e ts
  | "step" :: name :: ts =>
    match envOf name with | none => "bad-op" | some e => runStep e ts
  | _ => "bad-op"

end C16Driver

def main : IO Unit := Brax.driverLoop C16Driver.step
