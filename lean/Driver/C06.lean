import Brax.Model.C06
/-! line protocol driver for C06.

exact-rational ops (run at `Rat`; `x ** y` only for natural `y`, checked before use):
* `r.jaclimit <sys> <solver params> <q> <qd>`          — `constraint.jac_limit`
* `r.imparef <params> <pos> <vel>`                     — `constraint._imp_aref`

float ops:
* `f.jaclimit …` (as above), `f.jaccontact <sys> <qd> <root_com> <cdof> <contacts>`,
  `f.force <nv> <jac> <diag> <aref> <mass_mx_inv> <qf_smooth> <x>` (solver := the given `x`;
  answers `a | b | qf_constraint`)
* `f.sp.leaf <hasLimit> <typ> <link> <j> <jd> <dofs> <tau>`   — `_one_dof/_two_dof/_three_dof`
* `f.sp.collide <sys> <x_i> <xd_i> <i_inv> <mass> <contacts>` — `spring.collisions.resolve`
* `f.sp.integrate <sys> <x_i> <xd_i> <xdv_i>`                 — `spring.integrator.integrate`
* `f.pos.jupd <sys> <j>`            — `vmap(_three_dof_joint_update)(j, *_sphericalize(sys, j))`
* `f.pos.respos <sys> <x> <x_i> <x_i_prev> <contacts>`, `f.pos.resvel <sys> <x> <x_i> <xd_i>
  <xd_i_prev> <contacts> <dlambda>`  — `positional.collisions.resolve_position / resolve_velocity`
* `f.pos.intxdd <sys> <x> <xd> <xdd>` — `positional.integrator.integrate_xdd`
-/
open Brax MC C06

/-- `x ** y` at `Rat` for natural exponents (the driver rejects every other exponent before it
evaluates anything, see `natPowers`) -/
instance : HasPow Rat := ⟨fun x y => if y.den = 1 ∧ 0 ≤ y.num then x ^ y.num.toNat else 0⟩

section readers
variable {α : Type} [Wire α]

def rdParams : Rd (SolverParams α) := do
  let a ← Rd.val; let b ← Rd.val; let c ← Rd.val; let d ← Rd.val; let e ← Rd.val; let f ← Rd.val
  let g ← Rd.val
  pure ⟨a, b, c, d, e, f, g⟩

def rdContact : Rd (Contact α) := do
  let l1 ← Rd.int; let l2 ← Rd.int; let d ← Rd.val; let p ← Rd.v3; let n ← Rd.v3
  let f ← Rd.val; let e ← Rd.val
  pure ⟨l1, l2, d, p, n, f, e⟩

def rdGContact : Rd (GContact α) := do
  let l1 ← Rd.int; let l2 ← Rd.int; let d ← Rd.val; let p ← Rd.v3; let fr ← Rd.m3
  let f ← Rd.val; let sp ← rdParams
  pure ⟨l1, l2, d, p, fr, f, sp⟩

/-- all tokens must be consumed -/
def runAll {β : Type} (p : Rd β) (ts : List String) : Option β :=
  match p ts with
  | some (v, []) => some v
  | _ => none

def forceToks (fs : List (Force α)) : String := joinToks (fs.flatMap fun f => f.toks)
def motionToks (fs : List (Motion α)) : String := joinToks (fs.flatMap fun f => f.toks)
def tfToks (fs : List (Tf α)) : String := joinToks (fs.flatMap fun f => f.toks)
def rowsToks (r : List (List α) × List α × List α) : String :=
  renderVals r.1.flatten ++ " | " ++ renderVals r.2.1 ++ " | " ++ renderVals r.2.2
end readers

def okLens (n : Nat) (ls : List Nat) : Bool := ls.all (· == n)

def contactsOK {α : Type} (n : Nat) (cs : List (Contact α)) : Bool :=
  cs.all fun c => decide (-1 ≤ c.link1) && decide (c.link1 < n) && decide (-1 ≤ c.link2) && decide (c.link2 < n)

def gcontactsOK {α : Type} (n : Nat) (cs : List (GContact α)) : Bool :=
  cs.all fun c => decide (-1 ≤ c.link1) && decide (c.link1 < n) && decide (-1 ≤ c.link2) && decide (c.link2 < n)

/-- every exponent the model will raise to is a natural number (`power`, `power − 1`) -/
def natPowers (sp : List (SolverParams Rat)) : Bool :=
  sp.all fun p => p.power.den == 1 && decide (1 ≤ p.power.num)

section generic
variable {α : Type} [Wire α] [Zero α] [One α] [Add α] [Sub α] [Mul α] [Neg α] [Div α]
  [LT α] [DecidableLT α] [LE α] [DecidableLE α] [OfScientific α] [HasPow α]

def readJacLimit : Rd (Sys α × List (SolverParams α) × List α × List α) := do
  let s ← Rd.sys; let sp ← Rd.list rdParams; let q ← Rd.list Rd.val; let qd ← Rd.list Rd.val
  pure (s, sp, q, qd)

def doJacLimit (a : Sys α × List (SolverParams α) × List α × List α) : String :=
  let (s, sp, q, qd) := a
  if !s.WF || sp.length != s.nv || q.length != s.nq || qd.length != s.nv then "bad-args" else
  rowsToks (jacLimit s sp q qd)

end generic

def stepF (line : String) : String :=
  match tokens line with
  | "r.jaclimit" :: ts =>
    match runAll (readJacLimit (α := Rat)) ts with
    | some a => if !natPowers a.2.1 then "bad-args" else doJacLimit a
    | none => "bad-args"
  | "r.imparef" :: ts =>
    let p : Rd (SolverParams Rat × Rat × Rat) := do
      let sp ← rdParams; let pos ← Rd.val; let vel ← Rd.val; pure (sp, pos, vel)
    match runAll p ts with
    | some (sp, pos, vel) =>
      if !natPowers [sp] then "bad-args" else
      let r := impAref sp pos vel
      renderVals [r.1, r.2]
    | none => "bad-args"
  | "f.jaclimit" :: ts =>
    match runAll (readJacLimit (α := Float)) ts with
    | some a => doJacLimit a
    | none => "bad-args"
  | "f.jaccontact" :: ts =>
    let p : Rd (Sys Float × List Float × List (V3 Float) × List (Motion Float) × List (GContact Float)) := do
      let s ← Rd.sys; let qd ← Rd.list Rd.val; let com ← Rd.list Rd.v3; let cdof ← Rd.list Rd.motion
      let cs ← Rd.list rdGContact; pure (s, qd, com, cdof, cs)
    match runAll p ts with
    | some (s, qd, com, cdof, cs) =>
      if !s.WF || qd.length != s.nv || com.length != s.numLinks || cdof.length != s.nv
         || !gcontactsOK s.numLinks cs then "bad-args" else
      rowsToks (jacContact s com cdof qd cs)
    | none => "bad-args"
  | "f.force" :: ts =>
    let p : Rd (Nat × List (List Float) × List Float × List Float × List (List Float) × List Float
        × List Float) := do
      let nv ← Rd.nat; let jac ← Rd.list (Rd.rep nv Rd.val); let dg ← Rd.list Rd.val
      let ar ← Rd.list Rd.val; let mi ← Rd.rep nv (Rd.rep nv Rd.val); let qfs ← Rd.rep nv Rd.val
      let x ← Rd.list Rd.val; pure (nv, jac, dg, ar, mi, qfs, x)
    match runAll p ts with
    | some (nv, jac, dg, ar, mi, qfs, x) =>
      if !okLens jac.length [dg.length, ar.length, x.length] then "bad-args" else
      let ab := forceAb nv jac dg ar mi qfs
      renderVals ab.1.flatten ++ " | " ++ renderVals ab.2 ++ " | "
        ++ renderVals (force (fun _ _ => x) nv jac dg ar mi qfs)
    | none => "bad-args"
  | "f.sp.leaf" :: ts =>
    let p : Rd (Nat × List LinkType × LinkP Float × Tf Float × Motion Float × List (DofP Float)
        × List Float) := do
      let hl ← Rd.nat; let ty ← Rd.linkTypes; let lk ← Rd.linkP; let j ← Rd.tf; let jd ← Rd.motion
      let ds ← Rd.list Rd.dofP; let tau ← Rd.list Rd.val; pure (hl, ty, lk, j, jd, ds, tau)
    match runAll p ts with
    | some (hl, [ty], lk, j, jd, ds, tau) =>
      if ty == .free || ds.length != ty.qdWidth || tau.length != ty.qdWidth then "bad-args" else
      joinToks (Spring.jointForce (hl != 0) lk j jd ⟨ty, [], tau, ds⟩).toks
    | _ => "bad-args"
  | "f.sp.collide" :: ts =>
    let p : Rd (Sys Float × List (Tf Float) × List (Motion Float) × List (M3 Float) × List Float
        × List (Contact Float)) := do
      let s ← Rd.sys; let x_i ← Rd.list Rd.tf; let xd_i ← Rd.list Rd.motion; let ii ← Rd.list Rd.m3
      let m ← Rd.list Rd.val; let cs ← Rd.list rdContact; pure (s, x_i, xd_i, ii, m, cs)
    match runAll p ts with
    | some (s, x_i, xd_i, ii, m, cs) =>
      if !s.WF || !okLens s.numLinks [x_i.length, xd_i.length, ii.length, m.length]
         || !contactsOK s.numLinks cs then "bad-args" else
      let st : Spring.State Float := ⟨[], [], [], [], x_i, xd_i, [], [], [], [], ii, m⟩
      motionToks (Spring.collide s st cs)
    | none => "bad-args"
  | "f.sp.integrate" :: ts =>
    let p : Rd (Sys Float × List (Tf Float) × List (Motion Float) × List (Motion Float)) := do
      let s ← Rd.sys; let x ← Rd.list Rd.tf; let xd ← Rd.list Rd.motion; let xdv ← Rd.list Rd.motion
      pure (s, x, xd, xdv)
    match runAll p ts with
    | some (s, x, xd, xdv) =>
      if !s.WF || !okLens s.numLinks [x.length, xd.length, xdv.length] then "bad-args" else
      let r := Spring.integrate s x xd xdv
      tfToks r.1 ++ " " ++ motionToks r.2
    | none => "bad-args"
  | "f.pos.jupd" :: ts =>
    let p : Rd (Sys Float × List (Tf Float)) := do let s ← Rd.sys; let j ← Rd.list Rd.tf; pure (s, j)
    match runAll p ts with
    | some (s, j) =>
      if !s.WF || j.length != s.numLinks then "bad-args" else
      let ins := Kin.linkSlices s.types ([] : List Float) [] s.dofs
      joinToks ((List.range s.numLinks).flatMap fun i =>
        match ins[i]? with
        | some l =>
          let sp := Positional.sphericalize s.hasLimit l
          let d := Positional.threeDofJointUpdate (nth j i) sp.1 sp.2
          d.1.toks ++ d.2.toks
        | none => [])
    | none => "bad-args"
  | "f.pos.respos" :: ts =>
    let p : Rd (Sys Float × List (Tf Float) × List (Tf Float) × List (Tf Float) × List (Contact Float)) := do
      let s ← Rd.sys; let x ← Rd.list Rd.tf; let x_i ← Rd.list Rd.tf; let xp ← Rd.list Rd.tf
      let cs ← Rd.list rdContact; pure (s, x, x_i, xp, cs)
    match runAll p ts with
    | some (s, x, x_i, xp, cs) =>
      if !s.WF || !okLens s.numLinks [x.length, x_i.length, xp.length] || !contactsOK s.numLinks cs
      then "bad-args" else
      let r := Positional.resolvePosition s x_i xp (Com.invInertia s x) (Positional.massInv s) cs
      tfToks r.1 ++ " | " ++ renderVals r.2
    | none => "bad-args"
  | "f.pos.resvel" :: ts =>
    let p : Rd (Sys Float × List (Tf Float) × List (Tf Float) × List (Motion Float) × List (Motion Float)
        × List (Contact Float) × List Float) := do
      let s ← Rd.sys; let x ← Rd.list Rd.tf; let x_i ← Rd.list Rd.tf; let xd ← Rd.list Rd.motion
      let xq ← Rd.list Rd.motion; let cs ← Rd.list rdContact; let dl ← Rd.list Rd.val
      pure (s, x, x_i, xd, xq, cs, dl)
    match runAll p ts with
    | some (s, x, x_i, xd, xq, cs, dl) =>
      if !s.WF || !okLens s.numLinks [x.length, x_i.length, xd.length, xq.length]
         || !contactsOK s.numLinks cs || (!cs.isEmpty && dl.length != cs.length) then "bad-args" else
      motionToks (Positional.resolveVelocity s x_i xd xq (Com.invInertia s x) (Positional.massInv s) cs dl)
    | none => "bad-args"
  | "f.pos.intxdd" :: ts =>
    let p : Rd (Sys Float × List (Tf Float) × List (Motion Float) × List (Motion Float)) := do
      let s ← Rd.sys; let x ← Rd.list Rd.tf; let xd ← Rd.list Rd.motion; let xdd ← Rd.list Rd.motion
      pure (s, x, xd, xdd)
    match runAll p ts with
    | some (s, x, xd, xdd) =>
      if !s.WF || !okLens s.numLinks [x.length, xd.length, xdd.length] then "bad-args" else
      let r := Positional.integrateXdd s x xd xdd
      tfToks r.1 ++ " " ++ motionToks r.2
    | none => "bad-args"
  | _ => "bad-op"

def main : IO Unit := driverLoop stepF
