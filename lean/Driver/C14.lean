import Brax.Model.C14
/-!
Line-protocol driver of C14.

`C14.model  <integrator> <cone> <impratio> <nq> <nv>  <w0> <w1> <w2>
            <ngeom>  { type contype conaffinity priority solmix s0 s1 s2 nfluid f_1..f_nfluid }*
            <nu>     { biastype gaintype trntype trnid }*
            <njnt>   { type bodyid p0 p1 p2 limited lo hi stiffness qposadr dofadr }*
            <len qpos0> qpos0*   <nbody> body_parentid*`
   → `v=<ok|NI|RT|OTHER> br=<index of the failing check|-> wf=<0|1> ig= is= ip=` and, when
     `load_model`'s structure exists, `lt= lp= aq= aqd= iq= dl= dld= dr= qf= q1= … df= …`

`C14.helpers <link_types or -> <n> parents*` → `dl= dld= dr= qf= …` (the `base.System` helpers on an
arbitrary type string / parent tuple).

Integers in decimal, reals as `x<16 hex>` (exact), `inf`/`-inf` for infinite joint ranges.
-/
open Brax Brax.C14

abbrev P := StateT (List String) Option

def tok : P String := fun ts => match ts with | [] => none | t :: r => some (t, r)
def pInt : P Int := do let t ← tok; (Wire.parse t : Option Int)
def pNat : P Nat := do let t ← tok; (Wire.parse t : Option Nat)
def pRat : P Rat := do let t ← tok; (Wire.parse t : Option Rat)
def pExt : P (Option Rat) := do
  let t ← tok
  if t = "inf" ∨ t = "-inf" then pure none else do
    let r ← (Wire.parse t : Option Rat)
    pure (some r)
def pBool : P Bool := do
  let i ← pInt
  if i = 0 then pure false else if i = 1 then pure true else failure
def many {α : Type} (p : P α) : Nat → P (List α)
  | 0 => pure []
  | n + 1 => do let a ← p; let r ← many p n; pure (a :: r)
def counted {α : Type} (p : P α) : P (List α) := do let n ← pNat; many p n

structure GeomRow where
  type : Int
  contype : Int
  conaffinity : Int
  priority : Int
  solmix : Rat
  size : Rat × Rat × Rat
  fluid : List Rat

structure ActRow where
  biastype : Int
  gaintype : Int
  trntype : Int
  trnid : Int

structure JntRow where
  type : Int
  bodyid : Int
  pos : Rat × Rat × Rat
  limited : Bool
  range : Option Rat × Option Rat
  stiffness : Rat
  qposadr : Int
  dofadr : Int

def pGeom : P GeomRow := do
  let t ← pInt; let ct ← pInt; let ca ← pInt; let pr ← pInt; let sm ← pRat
  let s0 ← pRat; let s1 ← pRat; let s2 ← pRat
  let fl ← counted pRat
  pure ⟨t, ct, ca, pr, sm, (s0, s1, s2), fl⟩
def pAct : P ActRow := do
  let b ← pInt; let g ← pInt; let t ← pInt; let i ← pInt
  pure ⟨b, g, t, i⟩
def pJnt : P JntRow := do
  let t ← pInt; let b ← pInt; let p0 ← pRat; let p1 ← pRat; let p2 ← pRat
  let l ← pBool; let lo ← pExt; let hi ← pExt; let k ← pRat; let qa ← pInt; let da ← pInt
  pure ⟨t, b, (p0, p1, p2), l, (lo, hi), k, qa, da⟩

def pModel : P MjFeatures := do
  let integ ← pInt; let cone ← pInt; let imp ← pRat; let nq ← pNat; let nv ← pNat
  let wind ← many pRat 3
  let gs ← counted pGeom
  let as ← counted pAct
  let js ← counted pJnt
  let q0 ← counted pRat
  let bp ← counted pInt
  pure {
    integrator := integ, cone := cone, wind := wind, impratio := imp,
    geomFluid := gs.map (·.fluid), geomSolmix := gs.map (·.solmix), geomPriority := gs.map (·.priority),
    geomType := gs.map (·.type), geomSize := gs.map (·.size), geomContype := gs.map (·.contype),
    geomConaffinity := gs.map (·.conaffinity),
    actBiastype := as.map (·.biastype), actGaintype := as.map (·.gaintype),
    actTrntype := as.map (·.trntype), actTrnid := as.map (·.trnid),
    jntType := js.map (·.type), jntBodyid := js.map (·.bodyid), jntPos := js.map (·.pos),
    jntLimited := js.map (·.limited), jntRange := js.map (·.range), jntStiffness := js.map (·.stiffness),
    jntQposadr := js.map (·.qposadr), jntDofadr := js.map (·.dofadr),
    qpos0 := q0, nq := nq, nv := nv, bodyParentid := bp }

def showErr : Err → String
  | .notImplemented => "NI"
  | .runtime => "RT"
  | .other => "OTHER"
def showV {σ : Type} : Except Err σ → String
  | .ok _ => "ok"
  | .error e => showErr e

def commas {α : Type} (f : α → String) (xs : List α) : String := ",".intercalate (xs.map f)
def showNats (xs : List Nat) : String := commas toString xs
def showOpt {α : Type} (f : α → String) : Option α → String
  | none => "none"
  | some a => f a

/-- index of the first failing check -/
def firstBad : List (Except Err Unit) → Nat → String
  | [], _ => "-"
  | .ok () :: r, k => firstBad r (k + 1)
  | .error _ :: _, k => toString k

def sels : List (String × List Char) :=
  [("f", ['f']), ("1", ['1']), ("2", ['2']), ("3", ['3']), ("123", ['1', '2', '3']),
   ("f123", ['f', '1', '2', '3'])]

def helperFields (ts : List Char) (ps : List Int) : List String :=
  [ "dl=" ++ showOpt showNats (dofLink ts),
    "dld=" ++ showOpt showNats (dofLinkDepth ts ps),
    "dr=" ++ showOpt (fun rs => "|".intercalate (rs.map showNats)) (dofRanges ts) ] ++
  sels.map (fun s => "q" ++ s.1 ++ "=" ++ showOpt showNats (qIdx ts s.2)) ++
  sels.map (fun s => "d" ++ s.1 ++ "=" ++ showOpt showNats (qdIdx ts s.2))

def stepModel (ts : List String) : String :=
  match pModel ts with
  | some (m, []) =>
    let v := validate m
    let head := [ "v=" ++ showV v, "br=" ++ firstBad (checks m) 0,
                  "wf=" ++ (if decide (WF m) then "1" else "0"),
                  "ig=" ++ showV (init .generalized (some m) (.ok ())),
                  "is=" ++ showV (init .spring (some m) (.ok ())),
                  "ip=" ++ showV (init .positional (some m) (.ok ())) ]
    match loadStructure m with
    | none => " ".intercalate (head ++ ["load=none"])
    | some o =>
      " ".intercalate (head ++
        [ "load=ok", "lt=" ++ String.ofList o.linkTypes, "lp=" ++ commas toString o.linkParents,
          "aq=" ++ commas toString o.actQId, "aqd=" ++ commas toString o.actQdId,
          "iq=" ++ commas Wire.render o.initQ ] ++ helperFields o.linkTypes o.linkParents)
  | _ => "bad-args"

def stepHelpers (ts : List String) : String :=
  match ts with
  | lt :: rest =>
    match (counted pInt) rest with
    | some (ps, []) => " ".intercalate (helperFields (if lt = "-" then [] else lt.toList) ps)
    | _ => "bad-args"
  | [] => "bad-args"

def step (line : String) : String :=
  match tokens line with
  | "C14.model" :: ts => stepModel ts
  | "C14.helpers" :: ts => stepHelpers ts
  | _ => "bad-op"

def main : IO Unit := Brax.driverLoop step
