import Brax.Model.C02
import Brax.Model.ScanLevels
import Brax.Spec.C02
/-! line protocol driver for C02

* `dyn <sys> <q> <qd> <act>` (Float): every stage of the generalized pipeline's dynamics:
  `root_com | cinr | cd | cdof | cdofd | mass_mx | bias | passive | tau | qf_smooth | q' | qd' | qdd | mass_mx'`
* `mjdyn <sys> <q> <qd> <ctrl>` (Float): the Spec (MuJoCo's algorithms):
  `root_com | cinert | crb | cdof | cvel | cdof_dot | M | qfrc_bias | qfrc_passive | qfrc_actuator | qfrc_smooth | qpos' | qvel'`
* `lat.mass <types> <parents> <cinr…> <cdof…> <armature…>` (Rat, exact): `mass.matrix`
* `lat.inv  <types> <parents> <gravity> <cinr…> <cd…> <cdof…> <cdofd…> <qd…>` (Rat): `dynamics.inverse`
* `lat.fwd  <sys> <q> <qd> <bias…> <tau…>` (Rat): `_passive` and `forward`
* `revacc <parents> <ints>` : Layer B tie of `revAcc` (integer-valued, exact)
-/
open Brax Brax.Gd Brax.Kin

def sec (xs : List String) : List String := xs ++ ["|"]

def nestBy {β : Type} : List LinkType → List β → List (List β)
  | [], _ => []
  | t :: ts, xs => xs.take t.qdWidth :: nestBy ts (xs.drop t.qdWidth)

def inertiaToks {α : Type} [Wire α] (it : Inertia α) : List String :=
  it.tf.pos.toks ++ it.i.toks ++ [Wire.render it.mass]

def matToks {α : Type} [Wire α] (m : List (List α)) : List String :=
  m.flatMap fun r => r.map Wire.render

def dynF (s : Sys Float) (q qd act : List Float) : String :=
  let st := dynInit s q qd
  let bias := biasFlat s st q qd
  let pas := passiveFlat s q qd
  let tau := toTau s.nv s.acts act q qd
  let f := forward pas bias tau
  let r := step gaussSolve s st q qd act (List.replicate s.nv 0)
  joinToks (
    sec (st.com.rootCom.flatMap V3.toks) ++
    sec (st.com.cinr.flatMap inertiaToks) ++
    sec (st.com.cd.flatMap Motion.toks) ++
    sec (st.com.cdof.flatten.flatMap Motion.toks) ++
    sec (st.com.cdofd.flatten.flatMap Motion.toks) ++
    sec (matToks st.massMx) ++
    sec (bias.map Wire.render) ++ sec (pas.map Wire.render) ++ sec (tau.map Wire.render) ++
    sec (f.map Wire.render) ++
    sec (r.1.1.map Wire.render) ++ sec (r.1.2.1.map Wire.render) ++ sec (r.1.2.2.map Wire.render) ++
    matToks r.2.massMx)

def cinertToks {α : Type} [Wire α] (c : MjD.CInert α) : List String :=
  c.h.toks ++ c.i.toks ++ [Wire.render c.mass]

/-- Spec side: MuJoCo's algorithms -/
def mjDynF (s : Sys Float) (q qd act : List Float) : String :=
  let d := MjD.forwardData s q qd act
  let r := MjD.eulerStep gaussSolve s d q qd (List.replicate s.nv 0)
  joinToks (
    sec (d.rootCom.flatMap V3.toks) ++
    sec (d.cinert.flatMap cinertToks) ++
    sec (d.crb.flatMap cinertToks) ++
    sec (d.cdof.flatten.flatMap Motion.toks) ++
    sec (d.cvel.flatMap Motion.toks) ++
    sec (d.cdofDot.flatten.flatMap Motion.toks) ++
    sec (matToks d.fullM) ++
    sec (d.qfrcBias.map Wire.render) ++ sec (d.qfrcPassive.map Wire.render) ++
    sec (d.qfrcActuator.map Wire.render) ++ sec (d.qfrcSmooth.map Wire.render) ++
    sec (r.1.map Wire.render) ++ r.2.map Wire.render)

def readDyn : Rd (Sys Float × List Float × List Float × List Float) := do
  let s ← Rd.sys
  let q ← Rd.list Rd.val
  let qd ← Rd.list Rd.val
  let act ← Rd.list Rd.val
  pure (s, q, qd, act)

structure LatIn where
  types : List LinkType
  parents : List Int
  gravity : V3 Rat
  cinr : List (Inertia Rat)
  cd : List (Motion Rat)
  cdof : List (Motion Rat)
  cdofd : List (Motion Rat)
  qd : List Rat
  arm : List Rat

def readLat : Rd LatIn := do
  let t ← Rd.linkTypes
  let ps ← Rd.list Rd.int
  let g ← Rd.v3
  let cinr ← Rd.list Rd.inertia
  let cd ← Rd.list Rd.motion
  let cdof ← Rd.list Rd.motion
  let cdofd ← Rd.list Rd.motion
  let qd ← Rd.list Rd.val
  let arm ← Rd.list Rd.val
  pure ⟨t, ps, g, cinr, cd, cdof, cdofd, qd, arm⟩

def LatIn.ok (x : LatIn) : Bool :=
  let n := x.types.length
  let nv := (x.types.map LinkType.qdWidth).sum
  x.parents.length == n && x.cinr.length == n && x.cd.length == n && x.cdof.length == nv
  && x.cdofd.length == nv && x.qd.length == nv && x.arm.length == nv
  && (List.range n).all fun i => decide (x.parents.getD i (-1) < (i : Int)) && decide (-1 ≤ x.parents.getD i (-1))

def stepLine (line : String) : String :=
  match tokens line with
  | "dyn" :: ts =>
    match Rd.run readDyn ts with
    | some (s, q, qd, act) =>
      if !s.WF || q.length != s.nq || qd.length != s.nv || act.length != s.acts.length then "bad-args"
      else dynF s q qd act
    | none => "bad-args"
  | "mjdyn" :: ts =>
    match Rd.run readDyn ts with
    | some (s, q, qd, act) =>
      if !s.WF || q.length != s.nq || qd.length != s.nv || act.length != s.acts.length then "bad-args"
      else mjDynF s q qd act
    | none => "bad-args"
  | "lat.mass" :: ts =>
    match Rd.run readLat ts with
    | some x =>
      if !x.ok then "bad-args" else
      joinToks (matToks (massMatrix x.parents x.cinr (nestBy x.types x.cdof) (nestBy x.types x.arm)))
    | none => "bad-args"
  | "lat.inv" :: ts =>
    match Rd.run readLat ts with
    | some x =>
      if !x.ok then "bad-args" else
      let st : ComState Rat := ⟨[], x.cinr, nestBy x.types x.cdof, x.cd, nestBy x.types x.cdofd⟩
      joinToks ((inverse x.parents x.gravity st (nestBy x.types x.qd)).flatten.map Wire.render)
    | none => "bad-args"
  | "lat.fwd" :: ts =>
    let p : Rd (Sys Rat × List Rat × List Rat × List Rat × List Rat) := do
      let s ← Rd.sys; let q ← Rd.list Rd.val; let qd ← Rd.list Rd.val
      let b ← Rd.list Rd.val; let t ← Rd.list Rd.val; pure (s, q, qd, b, t)
    match Rd.run p ts with
    | some (s, q, qd, b, t) =>
      if !s.WF || q.length != s.nq || qd.length != s.nv || b.length != s.nv || t.length != s.nv then "bad-args"
      else
        let pas := ((linkSlices s.types q qd s.dofs).map passiveLink).flatten
        joinToks (sec (pas.map Wire.render) ++ (forward pas b t).map Wire.render)
    | none => "bad-args"
  | "revacc" :: ts =>
    let p : Rd (List Int × List Int) := do let ps ← Rd.list Rd.int; let as ← Rd.list Rd.int; pure (ps, as)
    match Rd.run p ts with
    | some (ps, as) =>
      if ps.length != as.length then "bad-args" else
      -- the accumulation the theorems use, and the level-grouped transcription of scan.tree(reverse=True)
      -- with the additive carry (`crb_fn`/`cfrc_fn`): they must agree (theorem `reverse_scan_levels_eq_accumulation`)
      let acc := revAcc (fun (x y : Int) => x + y) ps as
      let coded := Kin.scanTreeLevelsRev (Gd.addF (fun (x y : Int) => x + y)) ps as 0 0 (fun (x y : Int) => x + y)
      if coded != acc then "bad-coded-differs-from-accumulation" else joinToks (coded.map toString)
    | none => "bad-args"
  | _ => "bad-op"

def main : IO Unit := driverLoop stepLine
