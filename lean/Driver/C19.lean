import Brax.Model.C19.Driver
def main : IO Unit := Brax.driverLoop Brax.C19.driverStep
