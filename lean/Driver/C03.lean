import Brax.Model.C03
/-! driver for C03: forward-mode derivatives of the models through dual numbers.
`jvpfwd <sys> <q> <qd> <tq> <tqd>` → per link: primal (13) then tangent (13) of `Kin.forward`;
`leaf <name> <n> x… t…` → primal then tangent of a leaf function -/
open Brax

def out3 (v : V3 (Dual Float)) : List Float := C03.primals3 v ++ C03.tangents3 v
def out4 (q : Q4 (Dual Float)) : List Float := C03.primals4 q ++ C03.tangents4 q

def leaf (name : String) (x t : List Float) : Option (List Float) :=
  let d := C03.duals x t
  match name, d with
  | "safeNorm3", [a, b, c] => let r := safeNorm3 (⟨a, b, c⟩ : V3 (Dual Float)); some [r.re, r.du]
  | "safeNorm4", [a, b, c, e] => let r := safeNorm4 (⟨a, b, c, e⟩ : Q4 (Dual Float)); some [r.re, r.du]
  | "normalize3", [a, b, c] => some (out3 (normalize3 (⟨a, b, c⟩ : V3 (Dual Float))))
  | "normalize4", [a, b, c, e] => some (out4 (normalize4 (⟨a, b, c, e⟩ : Q4 (Dual Float))))
  | "rotate", [a, b, c, w, x, y, z] => some (out3 (rotate (⟨a, b, c⟩ : V3 (Dual Float)) ⟨w, x, y, z⟩))
  | "quatRotAxis", [a, b, c, th] => some (out4 (quatRotAxis (⟨a, b, c⟩ : V3 (Dual Float)) th))
  | "acos", [a] => let r := HasTrig.acos a; some [r.re, r.du]
  | "asin", [a] => let r := HasTrig.asin a; some [r.re, r.du]
  | _, _ => none

def stepF (line : String) : String :=
  match tokens line with
  | "jvpfwd" :: ts =>
    let p : Rd (Sys Float × List Float × List Float × List Float × List Float) := do
      let s ← Rd.sys; let q ← Rd.list Rd.val; let qd ← Rd.list Rd.val
      let tq ← Rd.list Rd.val; let tqd ← Rd.list Rd.val; pure (s, q, qd, tq, tqd)
    match Rd.run p ts with
    | some (s, q, qd, tq, tqd) =>
      if !s.WF || q.length != s.nq || qd.length != s.nv || tq.length != s.nq || tqd.length != s.nv then "bad-args" else
      let r := Kin.forward (C03.sys s) (C03.duals q tq) (C03.duals qd tqd)
      renderVals (r.flatMap fun x =>
        C03.primals3 x.1.pos ++ C03.primals4 x.1.rot ++ C03.primals3 x.2.ang ++ C03.primals3 x.2.vel ++
        C03.tangents3 x.1.pos ++ C03.tangents4 x.1.rot ++ C03.tangents3 x.2.ang ++ C03.tangents3 x.2.vel)
    | none => "bad-args"
  | "leaf" :: name :: ts =>
    let p : Rd (List Float × List Float) := do
      let n ← Rd.nat; let x ← Rd.rep n Rd.val; let t ← Rd.rep n Rd.val; pure (x, t)
    match Rd.run p ts with
    | some (x, t) => match leaf name x t with | some r => renderVals r | none => "bad-args"
    | none => "bad-args"
  | _ => "bad-op"

def main : IO Unit := driverLoop stepF
