import Brax.Model.C20
/-!
Line-protocol driver of the C20 model (runs the model at `Float`).  One answer line per input line.

```
C20.dist  n B minStd varScale  params[B·2n] eps[B·n] x[B·n] y[B·n]
   -> ok  then per row: sample[n] mode[n] raw[n] scale[n] logProb(params,x) entropy post(x)[n] inv(y)[n]
C20.infer det B n  logits[B·2n] eps[B·n]                 (network = the given logits, PPO defaults)
   -> det action[B·n]      |  sto then per row: action[n] logProb raw[n]
C20.inferNet det B O n  obs[B·O] mean[O] std[O]  L (din dout kernel[din·dout] bias[dout])^L  eps[B·n]
   -> as C20.infer, logits = mlp(normalize(obs))         (network evaluated by the model)
```
malformed input is answered with `bad-op` / `bad-args`.
-/
open Brax Brax.C20

namespace Brax.C20.Drv

def chunks {β : Type} (k : Nat) (xs : List β) : List (List β) :=
  if k = 0 then [] else
  (List.range (xs.length / k)).map fun i => (xs.drop (i * k)).take k

def takeNat (ts : List String) : Option (Nat × List String) :=
  match ts with
  | t :: rest => (fun n => (n, rest)) <$> (Wire.parse t : Option Nat)
  | [] => none

def takeF (n : Nat) (ts : List String) : Option (List Float × List String) := takeVals (α := Float) n ts

def runDist (ts : List String) : Option String := do
  let (n, ts) ← takeNat ts
  let (b, ts) ← takeNat ts
  if n = 0 ∨ b = 0 then none
  let (cfg, ts) ← takeF 2 ts
  let (ps, ts) ← takeF (b * 2 * n) ts
  let (es, ts) ← takeF (b * n) ts
  let (xs, ts) ← takeF (b * n) ts
  let (ys, ts) ← takeF (b * n) ts
  if ts ≠ [] then none
  match cfg with
  | [ms, vs] =>
    let c : Cfg Float := ⟨ms, vs⟩
    let rows := List.zip (List.zip (chunks (2 * n) ps) (chunks n es)) (List.zip (chunks n xs) (chunks n ys))
    let out := rows.map fun ((p, e), (x, y)) =>
      sample c p e ++ mode c p ++ sampleNoPostprocessing c p e ++ (createDist c p).scale
        ++ [logProb c p x, entropy c p e] ++ postprocess x ++ inversePostprocess y
    some ("ok " ++ renderVals out.flatten)
  | _ => none

def renderInfer (rs : List (List Float × Option (Extra Float))) (det : Bool) : String :=
  if det then
    "det " ++ renderVals (rs.map (·.1)).flatten
  else
    "sto " ++ renderVals (rs.map fun (a, e) =>
      match e with
      | some ex => a ++ [ex.logProb] ++ ex.rawAction
      | none => a).flatten

def runInfer (ts : List String) : Option String := do
  let (d, ts) ← takeNat ts
  let (b, ts) ← takeNat ts
  let (n, ts) ← takeNat ts
  if n = 0 ∨ b = 0 ∨ d > 1 then none
  let (ls, ts) ← takeF (b * 2 * n) ts
  let (es, ts) ← takeF (b * n) ts
  if ts ≠ [] then none
  let det := d == 1
  let rows := List.zip (chunks (2 * n) ls) (chunks n es)
  -- the network is the table "this row ↦ these logits"; observations/parameters are unit
  let rs := rows.map fun (l, e) =>
    inferenceFn (Obs := Unit) (NP := Unit) (PP := Unit) (fun o _ => o) (fun _ _ => l) ppoCfg () () det () e
  -- both branches must keep / drop the extras as the code does
  if rs.any (fun r => r.2.isSome == det) then none
  some (renderInfer rs det)

def takeLayers : Nat → List String → Option (List (Dense Float) × List String)
  | 0, ts => some ([], ts)
  | k + 1, ts => do
      let (din, ts) ← takeNat ts
      let (dout, ts) ← takeNat ts
      let (ker, ts) ← takeF (din * dout) ts
      let (bias, ts) ← takeF dout ts
      let (rest, ts) ← takeLayers k ts
      pure (⟨chunks dout ker, bias⟩ :: rest, ts)

def runInferNet (ts : List String) : Option String := do
  let (d, ts) ← takeNat ts
  let (b, ts) ← takeNat ts
  let (o, ts) ← takeNat ts
  let (n, ts) ← takeNat ts
  if n = 0 ∨ b = 0 ∨ o = 0 ∨ d > 1 then none
  let (obs, ts) ← takeF (b * o) ts
  let (mean, ts) ← takeF o ts
  let (std, ts) ← takeF o ts
  let (nl, ts) ← takeNat ts
  let (layers, ts) ← takeLayers nl ts
  let (es, ts) ← takeF (b * n) ts
  if ts ≠ [] then none
  let det := d == 1
  let rows := List.zip (chunks o obs) (chunks n es)
  let rs := rows.map fun (ob, e) =>
    inferenceFn (Obs := List Float) (NP := List Float × List Float) (PP := List (Dense Float))
      (fun x ms => normalize x ms.1 ms.2) (fun w x => mlp w x) ppoCfg (mean, std) layers det ob e
  if rs.any (fun r => r.1.length ≠ n) then none
  if rs.any (fun r => r.2.isSome == det) then none
  some (renderInfer rs det)

def step (line : String) : String :=
  match tokens line with
  | "C20.dist" :: ts => (runDist ts).getD "bad-args"
  | "C20.infer" :: ts => (runInfer ts).getD "bad-args"
  | "C20.inferNet" :: ts => (runInferNet ts).getD "bad-args"
  | _ => "bad-op"

end Brax.C20.Drv

def main : IO Unit := Brax.driverLoop Brax.C20.Drv.step
