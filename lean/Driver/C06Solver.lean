import Brax.Model.C06Solver
/-! line protocol driver for the C06 solver model (`Brax/Model/C06Solver.lean`), `Float` only
(the iteration takes square roots).

* `f.pg <n> <a: n*n values, row major> <b: n values> <maxiter> <maxls> <tol> <eps>`
  — `jaxopt.ProjectedGradient(objective, projection_non_negative, maxiter, implicit_diff=False,
  maxls).run(zeros_like(b))` as configured by `constraint.force`;
  answers `<iter_num> <stepsize> <t> <error | inf> | <params>`
* `f.pgforce <nv> <jac> <diag> <aref> <mass_mx_inv> <qf_smooth> <maxiter> <maxls> <tol> <eps>`
  — `constraint.force` with `solver := pgSolve` (no solver hypothesis left); answers `qf_constraint`
-/
open Brax MC C06

def runAllS {β : Type} (p : Rd β) (ts : List String) : Option β :=
  match p ts with
  | some (v, []) => some v
  | _ => none

def rdMat {α : Type} [Wire α] (rows cols : Nat) : Rd (List (List α)) := Rd.rep rows (Rd.rep cols Rd.val)

def stepS (line : String) : String :=
  match tokens line with
  | "f.pg" :: ts =>
    let p : Rd (List (List Float) × List Float × Nat × Nat × Float × Float) := do
      let n ← Rd.nat
      let a ← rdMat n n
      let b ← Rd.rep n Rd.val
      let maxiter ← Rd.nat; let maxls ← Rd.nat; let tol ← Rd.val; let eps ← Rd.val
      pure (a, b, maxiter, maxls, tol, eps)
    match runAllS p ts with
    | some (a, b, maxiter, maxls, tol, eps) =>
      let st := pgRun a b maxiter tol eps maxls
      let err := match st.error with | none => "inf" | some e => Wire.render e
      s!"{st.iter} {Wire.render st.stepsize} {Wire.render st.t} {err} | {renderVals st.x}"
    | none => "bad-args"
  | "f.pgforce" :: ts =>
    let p : Rd (Nat × List (List Float) × List Float × List Float × List (List Float) × List Float
        × Nat × Nat × Float × Float) := do
      let nv ← Rd.nat
      let k ← Rd.nat
      let jac ← rdMat k nv
      let diag ← Rd.rep k Rd.val
      let aref ← Rd.rep k Rd.val
      let minv ← rdMat nv nv
      let qfs ← Rd.rep nv Rd.val
      let maxiter ← Rd.nat; let maxls ← Rd.nat; let tol ← Rd.val; let eps ← Rd.val
      pure (nv, jac, diag, aref, minv, qfs, maxiter, maxls, tol, eps)
    match runAllS p ts with
    | some (nv, jac, diag, aref, minv, qfs, maxiter, maxls, tol, eps) =>
      renderVals (force (fun a b => pgSolve a b maxiter tol eps maxls) nv jac diag aref minv qfs)
    | none => "bad-args"
  | _ => "bad-op"

def main : IO Unit := driverLoop stepS
