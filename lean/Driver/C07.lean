import Brax.Model.Wire
import Brax.Model.C07
/-!
Line-protocol driver of C07 (the wrapper models are run through `Driver/C15.lean`).
Every op answers with the batched-by-primitive model followed by the whole-batch model.

safenorm  B n x*(B*n)                     Float -> B (safeNormB) ++ B (safeNormWhole)
normalize B n x*(B*n)                     Float -> B*n + B (normalizeB) ++ B*n + B (normalizeWhole)
ortho     B a*(3B)                        Float -> 6B (orthogonalsB: b, c per member) ++ 6B (orthogonalsWhole)
frame1    B a*(3B)                        Float -> 9B (frame1B, rows) ++ 9B (frame1Whole)
segsum    n B c ids*(B*c) vals*(B*c)      Rat   -> B*n (segSumB) ++ B*n (segSumFlat)
wheredone k dims*(k+1) done*B x*N y*N     Rat   -> N (whereDone, literal broadcast) ++ N (selectMember)
            dims = [B, d1..dk], N = product
-/
open Brax Brax.C07

def v3s (xs : List Float) : List (V3 Float) :=
  (chunks 3 (xs.length / 3) xs).map fun r => ⟨r.getD 0 0, r.getD 1 0, r.getD 2 0⟩

def v3l (v : V3 Float) : List Float := [v.x, v.y, v.z]
def m3l (m : M3 Float) : List Float := v3l m.r0 ++ v3l m.r1 ++ v3l m.r2

def natArgs (n : Nat) (ts : List String) : Option (List Nat × List String) := takeVals (α := Nat) n ts

def step (line : String) : String :=
  match tokens line with
  | "safenorm" :: ts =>
    (do
      let ([B, n], ts) ← natArgs 2 ts | none
      let (xs, ts) ← takeVals (α := Float) (B * n) ts
      if ts ≠ [] then none else
      let rows := chunks n B xs
      pure (renderVals (safeNormB rows ++ safeNormWhole rows))).getD "bad-args"
  | "normalize" :: ts =>
    (do
      let ([B, n], ts) ← natArgs 2 ts | none
      let (xs, ts) ← takeVals (α := Float) (B * n) ts
      if ts ≠ [] then none else
      let rows := chunks n B xs
      let a := normalizeB rows
      let w := normalizeWhole rows
      pure (renderVals (a.1.flatten ++ a.2 ++ w.1.flatten ++ w.2))).getD "bad-args"
  | "ortho" :: ts =>
    (do
      let ([B], ts) ← natArgs 1 ts | none
      let (xs, ts) ← takeVals (α := Float) (3 * B) ts
      if ts ≠ [] then none else
      let as := v3s xs
      let sh := fun (l : List (V3 Float × V3 Float)) => l.flatMap fun (p : V3 Float × V3 Float) => v3l p.1 ++ v3l p.2
      pure (renderVals (sh (orthogonalsB as) ++ sh (orthogonalsWhole as)))).getD "bad-args"
  | "frame1" :: ts =>
    (do
      let ([B], ts) ← natArgs 1 ts | none
      let (xs, ts) ← takeVals (α := Float) (3 * B) ts
      if ts ≠ [] then none else
      let as := v3s xs
      pure (renderVals ((frame1B as).flatMap m3l ++ (frame1Whole as).flatMap m3l))).getD "bad-args"
  | "segsum" :: ts =>
    (do
      let ([n, B, c], ts) ← natArgs 3 ts | none
      let (ids, ts) ← takeVals (α := Int) (B * c) ts
      let (vals, ts) ← takeVals (α := Rat) (B * c) ts
      if ts ≠ [] then none else
      let idss := chunks c B ids
      let valss := chunks c B vals
      pure (renderVals ((segSumB n idss valss).flatten ++ (segSumFlat n idss valss).flatten))
      ).getD "bad-args"
  | "wheredone" :: ts =>
    (do
      let ([k], ts) ← natArgs 1 ts | none
      let (dims, ts) ← natArgs (k + 1) ts
      let B := dims.headD 0
      let N := dims.foldl (· * ·) 1
      let (done, ts) ← takeVals (α := Nat) B ts
      let (xs, ts) ← takeVals (α := Rat) N ts
      let (ys, ts) ← takeVals (α := Rat) N ts
      if ts ≠ [] ∨ done.any (· > 1) then none else
      let d := done.map (· == 1)
      let x : List (Tensor Rat k) := ofFlat (k + 1) dims xs
      let y : List (Tensor Rat k) := ofFlat (k + 1) dims ys
      pure (renderVals (toFlat (k + 1) (whereDone k d x y) ++ toFlat (k + 1) (selectMember d x y)))
      ).getD "bad-args"
  | _ => "bad-op"

def main : IO Unit := Brax.driverLoop step
