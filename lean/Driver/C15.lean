import Brax.Model.Wire
import Brax.Spec.C15
/-!
Line-protocol driver of C15: runs the model (batched and single-member) and the episode-log
spec on a scripted environment at `Rat`.

member  := localIdx c acc0 b0 b1 aw kill dones[N] rewards[N]
bwrap   L r B T N firstN member*B action*(T*B)      -> (T+1)*B*25 numbers  (batched model)
wrap    L r T N firstN member action*T              -> (T+1)*25 numbers    (single-member model)
bunroll L r B T N firstN M ptab*M member*B          -> T*B*10 numbers + B*6 (final obs, steps, done, truncation)
unroll  L r T N firstN M ptab*M member              -> T*10 + 6
beval   L r B N firstN M ptab*M member*B            -> B*6 (emReward emMetrics*3 active episodeSteps)
eval    L r N firstN M ptab*M member                -> 6
log     L r T N member action*T                     -> T*4 (reward steps done truncation), E, then per episode: len rewards*
-/
open Brax Brax.C15

abbrev Q := Rat
abbrev SEnv := BEnv (Script Q) (SPs Q) (SInfo Q) Q Q

def senv : SEnv := scripted

def parseMember (N firstN : Nat) (ts : List String) : Option (Script Q × List String) := do
  let (hd, ts) ← takeVals (α := Q) 7 ts
  let (dones, ts) ← takeVals (α := Q) N ts
  let (rewards, ts) ← takeVals (α := Q) N ts
  match hd with
  | [li, c, acc0, b0, b1, aw, kill] =>
    if li ≠ 0 ∧ li ≠ 1 then none else
    some ({ localIdx := li = 1, c, acc0, b0, b1, firstN, aw, kill, dones, rewards }, ts)
  | _ => none

def parseMembers (N firstN : Nat) : Nat → List String → Option (List (Script Q) × List String)
  | 0, ts => some ([], ts)
  | n + 1, ts => do
    let (m, ts) ← parseMember N firstN ts
    let (ms, ts) ← parseMembers N firstN n ts
    pure (m :: ms, ts)

def chunksOf {α : Type} (n : Nat) : Nat → List α → List (List α)
  | 0, _ => []
  | t + 1, l => l.take n :: chunksOf n t (l.drop n)

def natQ (n : Nat) : Q := (n : Q)

/-- the 25 numbers of one member of an `EvSt` -/
def showEv (e : EvSt (SPs Q) (List Q) (SInfo Q) Q) : List Q :=
  let s := e.ar
  s.obs ++ [s.reward, s.done, s.steps, s.truncation, natQ s.ps.t, s.ps.acc, natQ s.ep.st.info.g] ++
    s.metrics ++ s.firstObs ++ [natQ s.firstPs.t, s.firstPs.acc] ++
    [e.mReward, e.emReward] ++ e.emMetrics ++ [e.active, e.episodeSteps]

/-- the same from the batched layout, member-major -/
def showBEv (e : BEvSt (SPs Q) (SInfo Q) Q) : List Q :=
  let s := e.ar
  let st := s.ep.st
  let B := st.reward.length
  (List.range B).flatMap fun i =>
    st.obs.getD i [] ++ [st.reward.getD i 0, st.done.getD i 0, s.ep.steps.getD i 0,
      s.ep.truncation.getD i 0, natQ ((st.ps.getD i ⟨0, 0⟩).t), (st.ps.getD i ⟨0, 0⟩).acc,
      natQ ((st.info.map (·.g)).getD i 0)] ++
    st.metrics.getD i [] ++ s.firstObs.getD i [] ++
    [natQ ((s.firstPs.getD i ⟨0, 0⟩).t), (s.firstPs.getD i ⟨0, 0⟩).acc] ++
    [e.mReward.getD i 0, e.emReward.getD i 0] ++ e.emMetrics.getD i [] ++
    [e.active.getD i 0, e.episodeSteps.getD i 0]

/-- dummy policy: table lookup at `(obs₀ + 2·obs₁ + obs₂) mod M` -/
def polOne (ptab : List Q) (obs : List Q) (_ : Unit) : Q :=
  let v : Q := obs.getD 0 0 + 2 * obs.getD 1 0 + obs.getD 2 0
  let i : Int := v.num / (v.den : Int)
  ptab.getD (i % (ptab.length : Int)).toNat 0

def polB (ptab : List Q) (obs : List (List Q)) (k : Unit) : List Q := obs.map (polOne ptab · k)

def splitU (_ : Unit) : Unit × Unit := ((), ())

def showTr (t : Transition (List Q) Q Q) : List Q :=
  t.observation ++ [t.action, t.reward, t.discount] ++ t.nextObservation ++ [t.truncation]

def showBTr (B : Nat) (t : BTransition Q Q) : List Q :=
  (List.range B).flatMap fun i =>
    t.observation.getD i [] ++ [t.action.getD i 0, t.reward.getD i 0, t.discount.getD i 0] ++
      t.nextObservation.getD i [] ++ [t.truncation.getD i 0]

def scanStates {σ α : Type} (f : σ → α → σ) : σ → List α → List σ
  | s, [] => [s]
  | s, a :: as => s :: scanStates f (f s a) as

/-- the chunk of wrapped step `i` read directly off a script indexed by the global counter -/
def scriptChunk (sc : Script Q) (r i : Nat) (a : Q) : Chunk Q :=
  (List.range r).map fun j =>
    let idx := i * r + j
    (sc.rewards.getD idx 0 + sc.aw * a,
     if sc.dones.getD idx 0 ≠ 0 ∨ a = sc.kill then 1 else 0)

def natArgs (n : Nat) (ts : List String) : Option (List Nat × List String) := takeVals (α := Nat) n ts

def step (line : String) : String :=
  match tokens line with
  | "bwrap" :: ts =>
    (do
      let ([L, r, B, T, N, firstN], ts) ← natArgs 6 ts | none
      let (ms, ts) ← parseMembers N firstN B ts
      let (acts, ts) ← takeVals (α := Q) (T * B) ts
      if ts ≠ [] then none else
      let hist := chunksOf B T acts
      let states := scanStates (bEvStep senv L r) (bEvReset senv ms) hist
      pure (renderVals (states.flatMap showBEv))).getD "bad-args"
  | "wrap" :: ts =>
    (do
      let ([L, r, T, N, firstN], ts) ← natArgs 5 ts | none
      let (m, ts) ← parseMember N firstN ts
      let (acts, ts) ← takeVals (α := Q) T ts
      if ts ≠ [] then none else
      let states := scanStates (evStep senv L r) (evReset senv m) acts
      pure (renderVals (states.flatMap showEv))).getD "bad-args"
  | "bunroll" :: ts =>
    (do
      let ([L, r, B, T, N, firstN, M], ts) ← natArgs 7 ts | none
      let (ptab, ts) ← takeVals (α := Q) M ts
      let (ms, ts) ← parseMembers N firstN B ts
      if ts ≠ [] ∨ M = 0 then none else
      let res := bUnroll bArView (bArStep senv L r) (polB ptab) splitU T (bArReset senv ms) ()
      let fin := res.1
      let tail := (List.range B).flatMap fun i =>
        fin.ep.st.obs.getD i [] ++ [fin.ep.steps.getD i 0, fin.ep.st.done.getD i 0,
          fin.ep.truncation.getD i 0]
      pure (renderVals (res.2.flatMap (showBTr B) ++ tail))).getD "bad-args"
  | "unroll" :: ts =>
    (do
      let ([L, r, T, N, firstN, M], ts) ← natArgs 6 ts | none
      let (ptab, ts) ← takeVals (α := Q) M ts
      let (m, ts) ← parseMember N firstN ts
      if ts ≠ [] ∨ M = 0 then none else
      let res := unroll arView (arStep senv L r) (polOne ptab) splitU T (arReset senv m) ()
      let fin := res.1
      pure (renderVals (res.2.flatMap showTr ++ fin.obs ++ [fin.steps, fin.done, fin.truncation]))
      ).getD "bad-args"
  | "beval" :: ts =>
    (do
      let ([L, r, B, N, firstN, M], ts) ← natArgs 6 ts | none
      let (ptab, ts) ← takeVals (α := Q) M ts
      let (ms, ts) ← parseMembers N firstN B ts
      if ts ≠ [] ∨ M = 0 ∨ r = 0 then none else
      let e := bEvalRun senv L r (polB ptab) splitU ms ()
      pure (renderVals ((List.range B).flatMap fun i =>
        [e.emReward.getD i 0] ++ e.emMetrics.getD i [] ++ [e.active.getD i 0,
          e.episodeSteps.getD i 0]))).getD "bad-args"
  | "eval" :: ts =>
    (do
      let ([L, r, N, firstN, M], ts) ← natArgs 5 ts | none
      let (ptab, ts) ← takeVals (α := Q) M ts
      let (m, ts) ← parseMember N firstN ts
      if ts ≠ [] ∨ M = 0 ∨ r = 0 then none else
      let e := evalRun senv L r (polOne ptab) splitU m ()
      pure (renderVals ([e.emReward] ++ e.emMetrics ++ [e.active, e.episodeSteps]))
      ).getD "bad-args"
  | "log" :: ts =>
    (do
      let ([L, r, T, N], ts) ← natArgs 4 ts | none
      let (m, ts) ← parseMember N 0 ts
      let (acts, ts) ← takeVals (α := Q) T ts
      if ts ≠ [] ∨ m.localIdx then none else
      let chunks := (List.range T).zipWith (fun i a => scriptChunk m r i a) acts
      let outs := specSteps L r 0 chunks
      let log := episodeLog L r chunks
      pure (renderVals (outs.flatMap fun (o : StepOut Q) => [o.reward, natQ o.steps, o.done, o.truncation]) ++
        " " ++ toString log.length ++ " " ++
        " ".intercalate (log.map fun (ep : List Q) => toString ep.length ++ " " ++ renderVals ep))
      ).getD "bad-args"
  | _ => "bad-op"

def main : IO Unit := Brax.driverLoop step
