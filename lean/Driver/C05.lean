import Brax.Model.C05
/-! line protocol driver for C05:
`fwd <sys> <q> <qd>`            Kin.forward
`xform <sys> <q> <qd> <g(7)>`   the model of the scene transform on the coordinates: `q_g ++ qd_g`
`fwdx <sys> <q> <qd> <g(7)>`    Kin.forward on the g-transformed root coordinates
`gfwd <sys> <q> <qd> <g(7)>`    g applied to Kin.forward (right side of `forward_equivariant`)
`g` = 3 translation components then the quaternion (w x y z).  The three transformed ops insist
on the property's quantifier: every root link is free. -/
open Brax

def readCase : Rd (Sys Float × List Float × List Float) := do
  let s ← Rd.sys
  let q ← Rd.list Rd.val
  let qd ← Rd.list Rd.val
  pure (s, q, qd)

def readCaseG : Rd (Sys Float × List Float × List Float × Tf Float) := do
  let s ← Rd.sys
  let q ← Rd.list Rd.val
  let qd ← Rd.list Rd.val
  let g ← Rd.tf
  pure (s, q, qd, g)

/-- every root is a free link and every free link is a root (the second half is part of `WF`) -/
def freeRooted (s : Sys Float) : Bool :=
  (s.parents.zip s.types).all fun pt => decide (0 ≤ pt.1) || pt.2 == .free

def okCase (s : Sys Float) (q qd : List Float) : Bool :=
  s.WF && q.length == s.nq && qd.length == s.nv

def renderFwd (r : List (Tf Float × Motion Float)) : String :=
  joinToks (r.flatMap fun x => x.1.toks ++ x.2.toks)

def stepF (line : String) : String :=
  match tokens line with
  | "fwd" :: ts =>
    match Rd.run readCase ts with
    | some (s, q, qd) =>
      if !okCase s q qd then "bad-args" else renderFwd (Kin.forward s q qd)
    | none => "bad-args"
  | "xform" :: ts =>
    match Rd.run readCaseG ts with
    | some (s, q, qd, g) =>
      if !okCase s q qd || !freeRooted s then "bad-args" else
      let st := C05M.xformState s q qd g
      joinToks ((st.1 ++ st.2).map Wire.render)
    | none => "bad-args"
  | "fwdx" :: ts =>
    match Rd.run readCaseG ts with
    | some (s, q, qd, g) =>
      if !okCase s q qd || !freeRooted s then "bad-args" else renderFwd (C05M.forwardX s q qd g)
    | none => "bad-args"
  | "gfwd" :: ts =>
    match Rd.run readCaseG ts with
    | some (s, q, qd, g) =>
      if !okCase s q qd || !freeRooted s then "bad-args" else renderFwd (C05M.gForward s q qd g)
    | none => "bad-args"
  | _ => "bad-op"

def main : IO Unit := driverLoop stepF
