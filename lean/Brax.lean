-- Root of the `Brax` library: executable models (no Mathlib), generated definitions,
-- lemma libraries and the property theorems.  `lake build` (MANIFEST.setup_cmd) builds all.
import Brax.Scalar
import Brax.Model.Math
import Brax.Model.Wire
import Brax.Gen.Math
import Brax.Gen.MathDriver
import Brax.Lemmas.Real
import Brax.Props.C09
