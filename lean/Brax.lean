-- Root of the `Brax` library: executable models (no Mathlib), generated definitions,
-- lemma libraries and the property theorems.  `lake build` (MANIFEST.setup_cmd) builds all.
import Brax.Scalar
import Brax.Model.Math
import Brax.Model.Wire
import Brax.Gen.Math
import Brax.Gen.MathDriver
import Brax.Lemmas.Real
import Brax.Props.C09
import Brax.Model.Sys
import Brax.Model.Kinematics
import Brax.Spec.MjKinematics
import Brax.Lemmas.Algebra
import Brax.Lemmas.Norm
import Brax.Lemmas.Scan
import Brax.Lemmas.KinPos
import Brax.Lemmas.KinVel
import Brax.Props.C01
import Brax.Lemmas.ScanSpec
import Brax.Lemmas.KinEquiv
import Brax.Props.C19
import Brax.Props.C05
import Brax.Props.C13
import Brax.Props.C11
import Brax.Props.C12
import Brax.Props.C20
import Brax.Props.C10
import Brax.Props.C03
