import Brax.Model.C16.Common
import Brax.Model.C16.Classic
import Brax.Model.C16.Locomotion
import Brax.Model.C16.Humanoid
/-!
# C16 — executable models of the 11 bundled physics environments (`brax/envs/*.py`)

See `Brax/Model/C16/Common.lean` for the conventions.  Registry names as in
`brax/envs/__init__.py: _envs`.
-/
namespace Brax.C16

/-- the physics environments of the registry (`fast` is not a physics environment) -/
def envNames : List String :=
  ["ant", "halfcheetah", "hopper", "humanoid", "humanoidstandup", "inverted_pendulum",
   "inverted_double_pendulum", "pusher", "reacher", "swimmer", "walker2d"]

end Brax.C16
