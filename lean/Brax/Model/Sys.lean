import Brax.Model.Math
import Brax.Model.Wire
/-!
# Model of `brax.base.System` (the fields the native pipelines read) and its wire format

`Sys α` mirrors `System`: per-link data (`link.transform`, `link.joint`, `link.inertia`, the
spring/positional constraint parameters), per-dof data (`dof.motion`, armature, stiffness,
damping, limit), `link_types`, `link_parents`, options and actuators.  Infinite limits
(`±inf` in the implementation) are `none`.  The python side (`harness/wire.py`) serialises a
real `System` in exactly the field order read by `Sys.read`.
-/
namespace Brax

inductive LinkType | free | one | two | three
deriving Repr, BEq, DecidableEq

namespace LinkType
/-- `base.Q_WIDTHS` -/
def qWidth : LinkType → Nat | free => 7 | one => 1 | two => 2 | three => 3
/-- `base.QD_WIDTHS` -/
def qdWidth : LinkType → Nat | free => 6 | one => 1 | two => 2 | three => 3
def ofChar : Char → Option LinkType
  | 'f' => some free | '1' => some one | '2' => some two | '3' => some three | _ => none
def toChar : LinkType → Char | free => 'f' | one => '1' | two => '2' | three => '3'
end LinkType

structure LinkP (α : Type) where
  tf : Tf α                 -- link.transform
  joint : Tf α              -- link.joint
  inertia : Inertia α       -- link.inertia (transform, i, mass)
  invweight : α
  cStiffness : α            -- constraint_stiffness
  cVelDamping : α           -- constraint_vel_damping
  cLimitStiffness : α       -- constraint_limit_stiffness
  cAngDamping : α           -- constraint_ang_damping
deriving Repr

structure DofP (α : Type) where
  motion : Motion α
  armature : α
  stiffness : α
  damping : α
  lo : Option α             -- dof.limit[0]; none = -inf
  hi : Option α             -- dof.limit[1]; none = +inf
  invweight : α
deriving Repr

structure ActP (α : Type) where
  qId : Nat
  qdId : Nat
  ctrlLo : Option α
  ctrlHi : Option α
  forceLo : Option α
  forceHi : Option α
  gain : α
  gear : α
  biasQ : α
  biasQd : α
deriving Repr

structure Sys (α : Type) where
  types : List LinkType
  parents : List Int          -- -1 = world
  links : List (LinkP α)
  dofs : List (DofP α)
  hasLimit : Bool             -- `dof.limit is not None`
  acts : List (ActP α)
  gravity : V3 α
  dt : α                      -- opt.timestep
  velDamping : α
  angDamping : α
  baumgarteErp : α
  springMassScale : α
  springInertiaScale : α
  jointScaleAng : α
  jointScalePos : α
  collideScale : α
deriving Repr

namespace Sys
variable {α : Type}
def numLinks (s : Sys α) : Nat := s.types.length
def nq (s : Sys α) : Nat := (s.types.map LinkType.qWidth).sum
def nv (s : Sys α) : Nat := (s.types.map LinkType.qdWidth).sum

/-- start offsets of each link's q-slice -/
def qStarts (ts : List LinkType) : List Nat :=
  (ts.foldl (fun (acc : List Nat × Nat) t => (acc.1 ++ [acc.2], acc.2 + t.qWidth)) ([], 0)).1
def qdStarts (ts : List LinkType) : List Nat :=
  (ts.foldl (fun (acc : List Nat × Nat) t => (acc.1 ++ [acc.2], acc.2 + t.qdWidth)) ([], 0)).1

/-- structural well-formedness (decidable): lengths agree, parents precede children, free links
are roots -/
def WF (s : Sys α) : Bool :=
  s.parents.length == s.types.length && s.links.length == s.types.length
  && s.dofs.length == s.nv
  && (List.range s.types.length).all (fun i =>
        let p := s.parents.getD i (-1)
        decide (-1 ≤ p) && decide (p < (i : Int))
        && (s.types.getD i .one != .free || p == -1))
  && s.acts.all (fun a => decide (a.qId < s.nq) && decide (a.qdId < s.nv))
end Sys

/-! ## wire reader -/

abbrev Rd := StateT (List String) Option

namespace Rd
def tok : Rd String := fun ts => match ts with | [] => none | t :: r => some (t, r)
def val {α : Type} [Wire α] : Rd α := do
  let t ← tok
  match Wire.parse t with | some v => pure v | none => failure
def nat : Rd Nat := val
def int : Rd Int := val
def opt {α : Type} [Wire α] : Rd (Option α) := do
  let t ← tok
  if t == "inf" || t == "-inf" then pure none
  else match Wire.parse t with | some v => pure (some v) | none => failure
def rep {β : Type} (n : Nat) (p : Rd β) : Rd (List β) :=
  match n with
  | 0 => pure []
  | n + 1 => do let x ← p; let xs ← rep n p; pure (x :: xs)
/-- `n x1 … xn` -/
def list {β : Type} (p : Rd β) : Rd (List β) := do let n ← nat; rep n p
variable {α : Type} [Wire α]
def v3 : Rd (V3 α) := do let x ← val; let y ← val; let z ← val; pure ⟨x, y, z⟩
def q4 : Rd (Q4 α) := do let w ← val; let x ← val; let y ← val; let z ← val; pure ⟨w, x, y, z⟩
def m3 : Rd (M3 α) := do let a ← v3; let b ← v3; let c ← v3; pure ⟨a, b, c⟩
def tf : Rd (Tf α) := do let p ← v3; let r ← q4; pure ⟨p, r⟩
def motion : Rd (Motion α) := do let a ← v3; let v ← v3; pure ⟨a, v⟩
def force : Rd (Force α) := do let a ← v3; let v ← v3; pure ⟨a, v⟩
def inertia : Rd (Inertia α) := do let t ← tf; let i ← m3; let m ← val; pure ⟨t, i, m⟩
def linkTypes : Rd (List LinkType) := do
  let s ← tok
  if s == "-" then pure [] else
  match s.toList.mapM LinkType.ofChar with | some l => pure l | none => failure
def linkP : Rd (LinkP α) := do
  let t ← tf; let j ← tf; let i ← inertia
  let iw ← val; let a ← val; let b ← val; let c ← val; let d ← val
  pure ⟨t, j, i, iw, a, b, c, d⟩
def dofP : Rd (DofP α) := do
  let m ← motion; let a ← val; let s ← val; let d ← val; let lo ← opt; let hi ← opt; let iw ← val
  pure ⟨m, a, s, d, lo, hi, iw⟩
def actP : Rd (ActP α) := do
  let q ← nat; let qd ← nat; let cl ← opt; let ch ← opt; let fl ← opt; let fh ← opt
  let g ← val; let ge ← val; let bq ← val; let bqd ← val
  pure ⟨q, qd, cl, ch, fl, fh, g, ge, bq, bqd⟩
def sys : Rd (Sys α) := do
  let types ← linkTypes
  let parents ← list int
  let links ← list linkP
  let dofs ← list dofP
  let hl ← nat
  let acts ← list actP
  let g ← v3
  let dt ← val; let vd ← val; let ad ← val; let be ← val; let sms ← val; let sis ← val
  let jsa ← val; let jsp ← val; let cs ← val
  pure ⟨types, parents, links, dofs, hl != 0, acts, g, dt, vd, ad, be, sms, sis, jsa, jsp, cs⟩
def run {β : Type} (p : Rd β) (ts : List String) : Option β :=
  match p ts with | some (v, _) => some v | none => none
end Rd

/-! ## renderers -/
section render
variable {α : Type} [Wire α]
def V3.toks (v : V3 α) : List String := [Wire.render v.x, Wire.render v.y, Wire.render v.z]
def Q4.toks (q : Q4 α) : List String :=
  [Wire.render q.w, Wire.render q.x, Wire.render q.y, Wire.render q.z]
def Tf.toks (t : Tf α) : List String := t.pos.toks ++ t.rot.toks
def Motion.toks (m : Motion α) : List String := m.ang.toks ++ m.vel.toks
def Force.toks (m : Force α) : List String := m.ang.toks ++ m.vel.toks
def M3.toks (m : M3 α) : List String := m.r0.toks ++ m.r1.toks ++ m.r2.toks
def joinToks (ts : List String) : String := " ".intercalate ts
end render

end Brax
