import Brax.Model.Math
import Brax.Model.C15
/-!
# C07 — batched formulation of the whole-argument reductions, and `where_done` for any rank

Code mirrored (pinned tree):

* `brax/math.py`: `safe_norm` (`jp.allclose(x, 0.0)` over its whole argument), `normalize`,
  `orthogonals` (`jp.any(a)`);
* `brax/kinematics.py`: `link_to_joint_frame`, 1-dof branch
  (`jp.where(motion.ang[0].any(), ang_frame, jp.eye(3))`);
* `brax/spring/collisions.py`, `brax/positional/collisions.py`: `segment_sum(x, link_idx, num_links)`;
* `brax/envs/wrappers/training.py`: `AutoResetWrapper.step.where_done`
  (`done` reshaped to `[B, 1, …, 1]` and broadcast over the trailing axes of every leaf).

For every function three versions are written down:

* the **member** function (`safeNormL` of `Model/Math.lean`, `normalizeL`, `orthogonals`, `frame1`):
  the code as it reads, for one instance;
* the **batched** function (`…B`): what `jax.vmap` of the code computes, *primitive by primitive* on
  arrays with a leading batch axis (a `List` of member rows).  Each primitive is batched on its
  own: the reduction (`allclose`/`any`) becomes a reduction over the non-batch axes and yields a
  `[B]` vector of flags, the arithmetic is element-wise with the flag vector broadcast along the
  rows.  That `vmap` batches every primitive this way is JAX's contract (trusted);
  that the composition of these batched primitives is the member function mapped over the batch is
  what `Props/C07.lean` proves;
* the **whole-batch** function (`…Whole`): the same code with the reduction taken over the whole
  `[B, n]` array — what a hand-vectorised or mis-`vmap`ped implementation computes (one flag for the
  whole batch).  `Props/C07.lean` shows with concrete rational batches that these are *not*
  member-independent.

`Tensor α k` is an array of rank `k` as a nested list; `whereDone k` is `where_done` on a leaf whose
members have rank `k` (the leaf has rank `k+1`).  No Mathlib.
-/
set_option linter.unusedSectionVars false
namespace Brax.C07
open Brax.C15 (zw3)

/-! ## one reduction inside a member function -/
section red
variable {α β : Type}

/-- a member function that takes one reduction `red` of its whole argument and then computes
`f flag x` -/
def withRed (red : List α → Bool) (f : Bool → List α → β) (x : List α) : β := f (red x) x

/-- the same under `vmap`: first the batched reduction (one flag per row, `[B]`), then the rest
row by row with the flags broadcast -/
def vmapRed (red : List α → Bool) (f : Bool → List α → β) (xs : List (List α)) : List β :=
  List.zipWith f (xs.map red) xs

/-- the same with the reduction taken over the whole `[B, n]` array: one flag for everybody -/
def wholeRed (red : List α → Bool) (f : Bool → List α → β) (xs : List (List α)) : List β :=
  xs.map (f (red xs.flatten))

end red

/-! ## `safe_norm`, `normalize` -/
section real
variable {α : Type} [Zero α] [One α] [Add α] [Sub α] [Mul α] [Neg α] [Div α]
  [LT α] [DecidableLT α] [LE α] [DecidableLE α] [OfScientific α] [HasSqrt α]

/-- `jp.linalg.norm` of one row -/
def norm2 (xs : List α) : α := HasSqrt.sqrt (xs.foldl (fun acc y => acc + y * y) 0)

/-- `safe_norm` once the flag `is_zero` is known: `norm(x + is_zero * 1.0) * (1.0 - is_zero)` -/
def safeNormWith (z : Bool) (xs : List α) : α :=
  let ys := if z then xs.map (· + 1) else xs
  let n := HasSqrt.sqrt (ys.foldl (fun acc y => acc + y * y) 0)
  if z then 0 else n

/-- `vmap(safe_norm)` on `[B, n]`, primitive by primitive -/
def safeNormB (xs : List (List α)) : List α :=
  -- is_zero = reduce_and(abs(x) <= 1e-8, axes=(1,))            : [B]
  let z := xs.map allClose0
  -- x = x + is_zero[:, None] * 1.0                              : [B, n]
  let ys := List.zipWith (fun zi (row : List α) => if zi then row.map (· + 1) else row) z xs
  -- sqrt(reduce_sum(x * x, axes=(1,)))                          : [B]
  let n := ys.map fun row => HasSqrt.sqrt (row.foldl (fun acc y => acc + y * y) 0)
  -- n * (1.0 - is_zero)                                         : [B]
  List.zipWith (fun zi ni => if zi then 0 else ni) z n

/-- `safe_norm` with `jp.allclose` taken over the whole batched array (norm still per row) -/
def safeNormWhole (xs : List (List α)) : List α := wholeRed allClose0 safeNormWith xs

/-- `normalize(x)[0]` once the norm is known: `x / (norm + 1e-6 * (norm == 0.0))` -/
def normalizeWith (norm : α) (xs : List α) : List α :=
  let d := if eqZero norm then norm + 1e-6 else norm
  xs.map (· / d)

/-- `math.normalize(x)` for one row: `(x / …, norm)` -/
def normalizeL (xs : List α) : List α × α := (normalizeWith (safeNormL xs) xs, safeNormL xs)

/-- `vmap(normalize)` on `[B, n]`, primitive by primitive: `(n [B, n], norm [B])` -/
def normalizeB (xs : List (List α)) : List (List α) × List α :=
  let norm := safeNormB xs
  -- norm + 1e-6 * (norm == 0.0)                                 : [B]
  let d := norm.map fun n => if eqZero n then n + 1e-6 else n
  -- x / d[:, None]                                              : [B, n]
  (List.zipWith (fun (row : List α) di => row.map (· / di)) xs d, norm)

/-- `normalize` on top of the whole-batch `safe_norm` -/
def normalizeWhole (xs : List (List α)) : List (List α) × List α :=
  let norm := safeNormWhole xs
  (List.zipWith normalizeWith norm xs, norm)

/-! ## `orthogonals`, the 1-dof joint frame -/

def V3.toL (v : V3 α) : List α := [v.x, v.y, v.z]

/-- `jp.any(a)` / `a.any()` on the components of one row: some component is non-zero -/
def anyNZ (xs : List α) : Bool := xs.any fun x => !(eqZero x)

/-- `b = where((-0.5 < a[1]) & (a[1] < 0.5), y, z); b = b - a * a.dot(b)` -/
def orthoPre (a : V3 α) : V3 α :=
  let useY : Bool := decide (-(0.5 : α) < a.y) && decide (a.y < (0.5 : α))
  let e : V3 α := if useY then ⟨0, 1, 0⟩ else ⟨0, 0, 1⟩
  let d := V3.dot a e
  ⟨e.x - a.x * d, e.y - a.y * d, e.z - a.z * d⟩

/-- `orthogonals` once the flag `jp.any(a)` is known: `b = normalize(b)[0] * flag; (b, cross(a, b))` -/
def orthoWith (f : Bool) (a : V3 α) : V3 α × V3 α :=
  let b : V3 α := if f then normalize3 (orthoPre a) else V3.zero
  (b, V3.cross a b)

/-- `math.orthogonals(a)` -/
def orthogonals (a : V3 α) : V3 α × V3 α := orthoWith (anyNZ (V3.toL a)) a

/-- `vmap(orthogonals)` on `[B, 3]`, primitive by primitive -/
def orthogonalsB (as : List (V3 α)) : List (V3 α × V3 α) :=
  let pre := as.map orthoPre                                         -- [B, 3]
  let nb := pre.map normalize3                                       -- vmap(normalize), see normalizeB
  let flags := as.map fun a => anyNZ (V3.toL a)                      -- reduce_or(a != 0, axes=(1,)) : [B]
  let b := List.zipWith (fun f (n : V3 α) => if f then n else V3.zero) flags nb   -- n * flags[:, None]
  List.zipWith (fun a b => (b, V3.cross a b)) as b

/-- `orthogonals` with `jp.any` taken over the whole `[B, 3]` array -/
def orthogonalsWhole (as : List (V3 α)) : List (V3 α × V3 α) :=
  as.map (orthoWith (anyNZ (as.map V3.toL).flatten))

def eye3 : M3 α := ⟨⟨1, 0, 0⟩, ⟨0, 1, 0⟩, ⟨0, 0, 1⟩⟩

/-- the 1-dof frame of `link_to_joint_frame` once the flag `axis.any()` is known:
`where(flag, [axis, ortho[0], ortho[1]], eye(3))` -/
def frame1With (f : Bool) (a : V3 α) : M3 α :=
  let o := orthogonals a
  if f then ⟨a, o.1, o.2⟩ else eye3

/-- `link_to_joint_frame`, 1-dof branch, the frame completed from one axis -/
def frame1 (a : V3 α) : M3 α := frame1With (anyNZ (V3.toL a)) a

/-- the same under `vmap`, primitive by primitive -/
def frame1B (as : List (V3 α)) : List (M3 α) :=
  let o := orthogonalsB as
  let full := List.zipWith (fun a (o : V3 α × V3 α) => (⟨a, o.1, o.2⟩ : M3 α)) as o
  let flags := as.map fun a => anyNZ (V3.toL a)
  List.zipWith (fun f (m : M3 α) => if f then m else eye3) flags full

/-- the same with `.any()` taken over the whole `[B, 3]` array -/
def frame1Whole (as : List (V3 α)) : List (M3 α) :=
  as.map (frame1With (anyNZ (as.map V3.toL).flatten))

end real

/-! ## `segment_sum` keyed by link index -/
section seg
variable {α : Type} [Zero α] [Add α]

/-- `jax.ops.segment_sum(vals, ids, n)`: ids outside `[0, n)` are dropped -/
def segSum (n : Nat) (ids : List Int) (vals : List α) : List α :=
  (List.range n).map fun (l : Nat) =>
    ((ids.zip vals).filter fun p => p.1 == Int.ofNat l).foldl (fun acc p => acc + p.2) 0

/-- under `vmap`: one segment sum per member -/
def segSumB (n : Nat) (idss : List (List Int)) (valss : List (List α)) : List (List α) :=
  List.zipWith (segSum n) idss valss

/-- mis-batched: the `[B, c]` ids and values flattened into one segment sum over `n` links, the
result handed to every member -/
def segSumFlat (n : Nat) (idss : List (List Int)) (valss : List (List α)) : List (List α) :=
  idss.map fun _ => segSum n idss.flatten valss.flatten

end seg

/-! ## arrays of any rank, `where_done` -/

/-- array of rank `k` as a nested list -/
@[reducible] def Tensor (α : Type) : Nat → Type
  | 0 => α
  | k + 1 => List (Tensor α k)

/-- `jp.where(c, x, y)` on three arrays of the same shape -/
def whereT {α : Type} : (k : Nat) → Tensor Bool k → Tensor α k → Tensor α k → Tensor α k
  | 0, c, x, y => if (c : Bool) then x else y
  | k + 1, c, x, y => zw3 (whereT k) c x y

/-- a scalar reshaped to `[1, …, 1]` (`k` ones) -/
def single : (k : Nat) → Bool → Tensor Bool k
  | 0, b => b
  | k + 1, b => [single k b]

/-- numpy broadcasting of a mask against an array of the same rank: an axis of length 1 is
repeated along the other array's axis, otherwise the axes go together -/
def bcastLike {α : Type} : (k : Nat) → Tensor Bool k → Tensor α k → Tensor Bool k
  | 0, m, _ => m
  | k + 1, m, x =>
    match (m : List (Tensor Bool k)) with
    | [m0] => List.map (bcastLike k m0) x
    | ms => List.zipWith (bcastLike k) ms x

/-- `where_done(x, y)` for a leaf of rank `k+1` (members of rank `k`):
`done = jp.reshape(done, [B] + [1] * k); jp.where(done, x, y)` -/
def whereDone {α : Type} (k : Nat) (d : List Bool) (x y : List (Tensor α k)) : List (Tensor α k) :=
  whereT (k + 1) (bcastLike (α := α) (k + 1) (d.map (single k)) x) x y

/-- what one member is supposed to get: its own snapshot if its own flag is set -/
def selectMember {α : Type} (d : List Bool) (x y : List α) : List α :=
  zw3 (fun (di : Bool) xi yi => if di then xi else yi) d x y

/-- two lists of the same length whose entries are pairwise related -/
def AllRel {α β : Type} (p : α → β → Prop) : List α → List β → Prop
  | [], [] => True
  | a :: as, b :: bs => p a b ∧ AllRel p as bs
  | _, _ => False

/-- the two arrays have the same shape -/
def SameShape {α β : Type} : (k : Nat) → Tensor α k → Tensor β k → Prop
  | 0, _, _ => True
  | k + 1, x, y => AllRel (SameShape k) x y

/-- one pair of leaves of the two pytrees handed to `jax.tree.map(where_done, first, current)` -/
structure LeafPair (α : Type) where
  k : Nat
  first : List (Tensor α k)
  cur : List (Tensor α k)

/-- a leaf of the resulting pytree -/
structure Leaf (α : Type) where
  k : Nat
  val : List (Tensor α k)

/-- `jax.tree.map(where_done, first, current)` -/
def treeWhereDone {α : Type} (d : List Bool) (t : List (LeafPair α)) : List (Leaf α) :=
  t.map fun l => ⟨l.k, whereDone l.k d l.first l.cur⟩

/-- the mis-broadcast version: `jp.where(done.any(), x, y)` -/
def whereDoneAny {α : Type} (d : List Bool) (x y : List α) : List α :=
  if d.any id then x else y

/-! ## helpers for the driver: regular arrays from flat data -/

/-- split a list into `n` chunks of size `m` -/
def chunks {α : Type} (m : Nat) : Nat → List α → List (List α)
  | 0, _ => []
  | n + 1, l => l.take m :: chunks m n (l.drop m)

/-- row-major array of shape `dims` (rank `k`; missing dims count as 1) -/
def ofFlat {α : Type} [Inhabited α] : (k : Nat) → List Nat → List α → Tensor α k
  | 0, _, l => l.headD default
  | k + 1, dims, l =>
    let n := dims.headD 1
    let m := (dims.drop 1).take k |>.foldl (· * ·) 1
    (chunks m n l).map (ofFlat k (dims.drop 1))

def toFlat {α : Type} : (k : Nat) → Tensor α k → List α
  | 0, x => [x]
  | k + 1, x => List.flatMap (toFlat k) x

end Brax.C07
