import Brax.Scalar
/-!
# C18 — model of `brax/training/acme/running_statistics.py`

`update` works leaf by leaf and, inside a leaf, feature by feature: every feature of every
leaf carries its own `mean / summed_variance / std`, all of them share the scalar `count`.
The model is therefore *scalar*: `Acc` is the view (count, mean, summed_variance) of one
feature, `State` adds `std`.  A batch for one feature is a list of `(weight, value)` pairs.

Transcribed (running_statistics.py:126-198):

```
step_increment = jnp.sum(weights)            | jnp.prod(jnp.array(batch_dims))   (weights=None)
[step_increment = psum(step_increment)]
count = state.count + step_increment
diff_to_old_mean = batch - mean              ;  *= expanded_weights               (weights given)
mean_update = jnp.sum(diff_to_old_mean, axis=batch_axis) / count   [psum]
mean = mean + mean_update
diff_to_new_mean = batch - mean
variance_update = jnp.sum(diff_to_old_mean * diff_to_new_mean, axis=batch_axis)   [psum]
summed_variance = summed_variance + variance_update
std = clip(sqrt(maximum(summed_variance, 0) / count), std_min_value, std_max_value)
```

Warts kept: the old `std` is ignored; `clip` does not check `lo ≤ hi`; the division by
`count` is not guarded (first batch of total weight 0 ⇒ 0/0; in IEEE that is NaN, in a Lean
field it is 0 — every theorem therefore assumes the running counts are non-zero);
`update` does *not* skip non-float leaves (an `int` batch leaf is converted to float and
gets statistics like any other), only `normalize/denormalize` do.

No Mathlib.  Runs at `Rat` (count/mean/summed_variance, exact) and at `Float` (everything).
-/
set_option linter.unusedSectionVars false
namespace Brax.C18
open Brax

/-- `jnp.sum` of a flat list (right fold; summation order is irrelevant in exact arithmetic and
inside the 1e-9 tolerance at `Float`) -/
def sumL {α : Type} [Zero α] [Add α] (xs : List α) : α := xs.foldr (· + ·) 0

/-- (count, mean, summed_variance) of one feature; `count` is shared by all features -/
structure Acc (α : Type) where
  count : α
  mean : α
  sv : α
deriving Repr, BEq, DecidableEq

/-- one feature of `RunningStatisticsState` -/
structure State (α : Type) where
  acc : Acc α
  std : α
deriving Repr, BEq, DecidableEq

section core
variable {α : Type} [Zero α] [One α] [Add α] [Sub α] [Mul α] [Div α]

/-- `init_state`: count 0, mean 0, summed_variance 0, std 1 -/
def initAcc : Acc α := ⟨0, 0, 0⟩
def init : State α := ⟨initAcc, 1⟩

/-- The body of `update` for one feature, weights given.  `S f` stands for
`jnp.sum(f(weights, batch), axis=batch_axis)` — how the sum over the leading batch axes is
realised is a parameter, instantiated below for 0, 1, 2 batch axes and for `psum`. -/
def stepWith (S : (α → α → α) → α) (s : Acc α) : Acc α :=
  let stepIncrement := S fun w _ => w
  let count := s.count + stepIncrement
  let diffToOldMean := fun w x => (x - s.mean) * w
  let meanUpdate := S diffToOldMean / count
  let mean := s.mean + meanUpdate
  let diffToNewMean := fun x => x - mean
  let varianceUpdate := S fun w x => diffToOldMean w x * diffToNewMean x
  ⟨count, mean, s.sv + varianceUpdate⟩

/-- `weights=None`: `step_increment = prod(batch_dims)` (given as `n`), no multiplication by a
weight.  `S f = jnp.sum(f(batch), axis=batch_axis)`. -/
def stepWithU (n : α) (S : (α → α) → α) (s : Acc α) : Acc α :=
  let count := s.count + n
  let diffToOldMean := fun x => x - s.mean
  let meanUpdate := S diffToOldMean / count
  let mean := s.mean + meanUpdate
  let varianceUpdate := S fun x => diffToOldMean x * (x - mean)
  ⟨count, mean, s.sv + varianceUpdate⟩

/-- `jnp.prod(jnp.array(batch_dims))` (empty product = 1: a single un-batched sample) -/
def prodDims (dims : List α) : α := dims.foldr (· * ·) 1

/-! ### the sum over the leading batch axes -/

/-- no batch axis: `weights` is a scalar, `batch` one sample -/
def S0 (w x : α) (f : α → α → α) : α := f w x
/-- one batch axis -/
def S1 (b : List (α × α)) (f : α → α → α) : α := sumL (b.map fun p => f p.1 p.2)
/-- two batch axes (`axis=(0,1)`): rows of rows -/
def S2 (b : List (List (α × α))) (f : α → α → α) : α :=
  sumL (b.map fun r => sumL (r.map fun p => f p.1 p.2))
def S1u (b : List α) (f : α → α) : α := sumL (b.map f)
def S2u (b : List (List α)) (f : α → α) : α := sumL (b.map fun r => sumL (r.map f))

/-- weighted update of one feature, one leading batch axis — the reference form -/
def step (s : Acc α) (b : List (α × α)) : Acc α := stepWith (S1 b) s
def step0 (s : Acc α) (w x : α) : Acc α := stepWith (S0 w x) s
def step2 (s : Acc α) (b : List (List (α × α))) : Acc α := stepWith (S2 b) s
/-- unweighted; `dims` are the batch dimensions as scalars -/
def stepU (dims : List α) (s : Acc α) (b : List α) : Acc α := stepWithU (prodDims dims) (S1u b) s
def stepU2 (dims : List α) (s : Acc α) (b : List (List α)) : Acc α :=
  stepWithU (prodDims dims) (S2u b) s
/-- unweighted, no batch axis: `prod(()) = 1`, the "sum" is the sample itself -/
def stepU0 (s : Acc α) (x : α) : Acc α := stepWithU (prodDims []) (fun f => f x) s

/-- `pmap_axis_name` given: every device holds the same state and its own shard; the three
`psum`s add the per-device `step_increment`, `mean_update` (already divided by the *global*
count) and `variance_update`. -/
def stepPmap (s : Acc α) (devs : List (List (α × α))) : Acc α :=
  let stepIncrement := sumL (devs.map fun d => S1 d fun w _ => w)
  let count := s.count + stepIncrement
  let diffToOldMean := fun w x => (x - s.mean) * w
  let meanUpdate := sumL (devs.map fun d => S1 d diffToOldMean / count)
  let mean := s.mean + meanUpdate
  let varianceUpdate := sumL (devs.map fun d => S1 d fun w x => diffToOldMean w x * (x - mean))
  ⟨count, mean, s.sv + varianceUpdate⟩

/-- a history of weighted batches -/
def run (s : Acc α) (h : List (List (α × α))) : Acc α := h.foldl step s

end core

section std
variable {α : Type} [Zero α] [One α] [Add α] [Sub α] [Mul α] [Div α] [LT α] [DecidableLT α]
  [HasSqrt α]

/-- `compute_std`: `clip(sqrt(maximum(sv, 0) / count), lo, hi)`; the old std is not used -/
def stdOf (lo hi sv count : α) : α := clip (HasSqrt.sqrt (maxv sv 0 / count)) lo hi

/-- `update(state, batch, weights=w, std_min_value=lo, std_max_value=hi)` for one feature -/
def update (lo hi : α) (s : State α) (b : List (α × α)) : State α :=
  let a := step s.acc b
  ⟨a, stdOf lo hi a.sv a.count⟩

def runState (lo hi : α) (s : State α) (h : List (List (α × α))) : State α :=
  h.foldl (update lo hi) s

end std

section normalize
variable {α : Type} [Add α] [Sub α] [Mul α] [Neg α] [Div α] [LT α] [DecidableLT α]

/-- `normalize_leaf` on an inexact leaf element -/
def normalize (maxAbs : Option α) (x mean std : α) : α :=
  let y := (x - mean) / std
  match maxAbs with
  | none => y
  | some m => clip y (-m) m

/-- `denormalize_leaf` on an inexact leaf element -/
def denormalize (x mean std : α) : α := x * std + mean

/-- a leaf element by dtype: `jnp.issubdtype(dtype, jnp.inexact)` or not -/
inductive Leaf (α : Type) where
  | inexact (x : α)
  | exact (i : Int)
deriving Repr, BEq, DecidableEq

def normalizeLeaf (maxAbs : Option α) (d : Leaf α) (mean std : α) : Leaf α :=
  match d with
  | .inexact x => .inexact (normalize maxAbs x mean std)
  | .exact i => .exact i

def denormalizeLeaf (d : Leaf α) (mean std : α) : Leaf α :=
  match d with
  | .inexact x => .inexact (denormalize x mean std)
  | .exact i => .exact i

end normalize

/-! ### `validate_shapes` -/

/-- `batch_dims = batch_leaves[0].shape[: ndim(batch_leaves[0]) - ndim(state.mean leaf 0)]` -/
def batchDims (firstLeaf : List Nat) (firstMeanNdim : Nat) : List Nat :=
  firstLeaf.take (firstLeaf.length - firstMeanNdim)

/-- does `update(..., validate_shapes=True)` accept the shapes?  `none` weights = `weights=None`.
Same tree structure is a precondition (asserted separately by the code).  With no leaves the
state is returned unchanged (accepted). -/
def validate (weights : Option (List Nat)) (leaves means : List (List Nat)) : Bool :=
  match leaves, means with
  | l0 :: _, m0 :: _ =>
    let bd := batchDims l0 m0.length
    (match weights with | none => true | some w => w == bd) &&
      leaves.length == means.length &&
      (List.zipWith (fun l m => l == bd ++ m) leaves means).all id
  | _, _ => true

end Brax.C18
