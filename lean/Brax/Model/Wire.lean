import Brax.Scalar
/-!
# Line protocol helpers for the model drivers (no Mathlib)

One case per line, whitespace separated tokens.  Integers in decimal; exact rationals as
`n/d` (or `n`); IEEE doubles as 16 hex digits of their bit pattern (`Float.ofBits`), which the
`Rat` reader decodes exactly.
-/
namespace Brax

def hexVal (c : Char) : Option Nat :=
  if '0' ≤ c ∧ c ≤ '9' then some (c.toNat - '0'.toNat)
  else if 'a' ≤ c ∧ c ≤ 'f' then some (c.toNat - 'a'.toNat + 10)
  else if 'A' ≤ c ∧ c ≤ 'F' then some (c.toNat - 'A'.toNat + 10)
  else none

def parseHex (s : String) : Option Nat :=
  if s.isEmpty then none else
  s.toList.foldl (fun acc c => do let a ← acc; let v ← hexVal c; pure (a * 16 + v)) (some 0)

def hexDigit (n : Nat) : Char :=
  if n < 10 then Char.ofNat ('0'.toNat + n) else Char.ofNat ('a'.toNat + n - 10)

def toHex16 (n : Nat) : String :=
  String.ofList ((List.range 16).reverse.map fun i => hexDigit ((n / 16 ^ i) % 16))

/-- exact value of an IEEE-754 double given by its bits (finite values only) -/
def ratOfBits (b : Nat) : Rat :=
  let neg : Bool := b / 2 ^ 63 % 2 = 1
  let e : Nat := b / 2 ^ 52 % 2048
  let m : Nat := b % 2 ^ 52
  let num : Nat := if e = 0 then m else (2 ^ 52 + m) * 2 ^ (e - 1075)
  let den : Nat := if e = 0 then 2 ^ 1074 else 2 ^ (1075 - e)
  let mag : Rat := (num : Rat) / (den : Rat)
  if neg then -mag else mag

class Wire (α : Type) where
  parse : String → Option α
  render : α → String

def parseRatTok (s : String) : Option Rat :=
  match s.splitOn "/" with
  | [n] => (fun (i : Int) => (i : Rat)) <$> n.toInt?
  | [n, d] => do
      let i ← n.toInt?
      let j ← d.toNat?
      if j = 0 then none else some ((i : Rat) / (j : Rat))
  | _ => none

instance : Wire Int := ⟨String.toInt?, toString⟩
instance : Wire Nat := ⟨String.toNat?, toString⟩
instance : Wire Rat where
  parse s := if s.startsWith "x" then ratOfBits <$> parseHex (s.drop 1).toString else parseRatTok s
  render r := if r.den = 1 then toString r.num else s!"{r.num}/{r.den}"
instance : Wire Float where
  parse s :=
    if s.startsWith "x" then (fun n => Float.ofBits (UInt64.ofNat n)) <$> parseHex (s.drop 1).toString
    else (fun (r : Rat) => Float.ofInt r.num / Float.ofNat r.den) <$> parseRatTok s
  render f := "x" ++ toHex16 f.toBits.toNat

def tokens (line : String) : List String :=
  (line.splitOn " ").filter (· ≠ "") |>.map fun s => s.trimAscii.toString

/-- parse `n` values of type `α` from the head of a token list -/
def takeVals {α : Type} [Wire α] : Nat → List String → Option (List α × List String)
  | 0, ts => some ([], ts)
  | n + 1, t :: ts => do
      let v ← Wire.parse t
      let (vs, rest) ← takeVals n ts
      pure (v :: vs, rest)
  | _ + 1, [] => none

def renderVals {α : Type} [Wire α] (xs : List α) : String :=
  " ".intercalate (xs.map Wire.render)

/-- generic stdin loop: one answer line per input line -/
partial def driverLoop (step : String → String) : IO Unit := do
  let stdin ← IO.getStdin
  let stdout ← IO.getStdout
  let rec loop : IO Unit := do
    let line ← stdin.getLine
    if line.isEmpty then return ()
    let l := line.trimAscii.toString
    if l.isEmpty then loop else do
      stdout.putStrLn (step l)
      loop
  loop
  stdout.flush

end Brax
