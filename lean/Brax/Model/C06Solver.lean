import Brax.Model.C06
/-!
# C06 (deepening) — model of the constraint solver call of `brax/generalized/constraint.py::force`

```
def objective(x):
  residual = a @ x + b
  return jp.sum(0.5 * residual**2)
pg = jaxopt.ProjectedGradient(objective, jaxopt.projection.projection_non_negative,
       maxiter=sys.solver_iterations, implicit_diff=False, maxls=sys.solver_maxls)
qf_constraint = state.con_jac.T @ pg.run(jp.zeros_like(b)).params
```
`ProjectedGradient` is `ProximalGradient` with `prox := projection` (`prox.make_prox_from_projection`,
the `scaling` argument is dropped), and the arguments brax does **not** pass keep their defaults:
`stepsize = 0.0` (⇒ backtracking line search), `tol = 1e-3`, `acceleration = True` (FISTA),
`decrease_factor = 0.5`, `jit = True`, `unroll = "auto"` (⇒ unrolled, because `implicit_diff=False`:
both loops are `loop._while_loop_scan`, a `lax.scan` of fixed length whose body becomes a no-op once
the loop condition has been false — the same input/output relation as "while cond and fuel: body").

Transcribed here (`jaxopt/_src/{base,proximal_gradient,projected_gradient,projection,loop}.py`):

* `relu`, `proxGrad`        — `projection_non_negative` (`jax.nn.relu = maximum(x, 0)`), `_prox_grad`
* `residual`, `objective`, `grad` — the objective and its reverse-mode gradient `residual @ a`
  (the cotangent of `sum(0.5 * r**2)` is `0.5 * (2 * r)`, which is `r` exactly, in floats too)
* `lsCond`, `lsLoop`, `lineSearch` — `fista_line_search` (`cond_fun`, `body_fun`, at most `maxls` halvings;
  the last candidate is returned even when the condition still fails)
* `nextStepsize`            — `where(next_stepsize <= 1e-6, 1.0, next_stepsize / decrease_factor)`
* `PGState`, `initState`, `update` — `ProxGradState`, `init_state`, `_update_accel`
* `iterate`, `pgRun`, `pgSolve` — `IterativeSolver._run`: the first `update` is unconditional, then at most
  `maxiter − 1` further updates while `state.error > tol`; `maxiter == 0` returns the initial point
  (`jnp.where(self.maxiter == 0, zero_step, many_step)`); `pgSolve = run(zeros_like(b)).params`.

`eps` is `jnp.finfo(dtype).eps` (a parameter: it depends on the float type; any value in a field).
`tol` is a parameter (brax leaves the default `1e-3`).  `tree_l2_norm` adds `square(leaf.imag) = 0` to
every square: omitted (`x + 0 = x`).  The initial `error = inf` is `none` (it is never tested: the first
update is unconditional).

No Mathlib.  Raw operator classes; runs at `Float` in `Driver/C06Solver.lean`.
-/
set_option linter.unusedSectionVars false
namespace Brax
namespace C06
open MC

section solver
variable {α : Type} [Zero α] [One α] [Add α] [Sub α] [Mul α] [Neg α] [Div α]
  [LT α] [DecidableLT α] [LE α] [DecidableLE α] [OfScientific α] [HasSqrt α]

/-- `jax.nn.relu(x) = maximum(x, 0)` -/
def relu (x : α) : α := maxv x 0

/-- `a @ x + b` -/
def residual (a : List (List α)) (b x : List α) : List α :=
  List.zipWith (· + ·) (a.map fun r => dotL r x) b

/-- `objective(x) = jp.sum(0.5 * residual**2)` -/
def objective (a : List (List α)) (b x : List α) : α :=
  ((residual a b x).map fun r => 0.5 * (r * r)).sum

/-- `jax.grad(objective)(x) = residual @ a` (length `b.length`) -/
def grad (a : List (List α)) (b x : List α) : List α :=
  vecMat b.length (residual a b x) a

/-- `_prox_grad(x, g, stepsize) = relu(x + (−stepsize) * g)` -/
def proxGrad (x g : List α) (s : α) : List α :=
  (List.zipWith (fun xi gi => xi + (-s) * gi) x g).map relu

/-- `tree_sub(u, v)` -/
def vsub (u v : List α) : List α := List.zipWith (· - ·) u v

/-- `tree_l2_norm(d, squared=True)` -/
def sqNorm (d : List α) : α := (d.map fun x => x * x).sum

/-- `cond_fun` of `fista_line_search`: the sufficient-decrease condition FAILS
```
diff_x = next_x − x;  sqdist = ‖diff_x‖²
fun_decrease = stepsize * (fun(next_x) − x_fun_val)
condition = stepsize * vdot(diff_x, x_fun_grad) + 0.5 * sqdist
return fun_decrease > condition + eps
``` -/
def lsCond (a : List (List α)) (b y : List α) (fy : α) (g : List α) (eps : α)
    (p : List α × α) : Bool :=
  let d := vsub p.1 y
  let funDecrease := p.2 * (objective a b p.1 - fy)
  let condition := p.2 * dotL d g + 0.5 * sqNorm d
  decide (condition + eps < funDecrease)

/-- `body_fun`: halve the stepsize and recompute the candidate from `x` -/
def lsBody (y g : List α) (p : List α × α) : List α × α :=
  let s := p.2 * 0.5
  (proxGrad y g s, s)

/-- `loop.while_loop(cond_fun, body_fun, init_val, maxiter=maxls)` -/
def lsLoop (a : List (List α)) (b y : List α) (fy : α) (g : List α) (eps : α) :
    Nat → List α × α → List α × α
  | 0, p => p
  | fuel + 1, p => if lsCond a b y fy g eps p then lsLoop a b y fy g eps fuel (lsBody y g p) else p

/-- `fista_line_search(…, maxls, x, x_fun_val, x_fun_grad, stepsize, decrease_factor = 0.5, …)` -/
def lineSearch (a : List (List α)) (b y : List α) (fy : α) (g : List α) (eps : α) (maxls : Nat)
    (s : α) : List α × α :=
  lsLoop a b y fy g eps maxls (proxGrad y g s, s)

/-- `jnp.where(next_stepsize <= 1e-6, 1.0, next_stepsize / self.decrease_factor)` -/
def nextStepsize (s : α) : α := if s ≤ 1e-6 then 1.0 else s / 0.5

/-- `ProxGradState` together with `params` (`x`); `error = none` is the initial `inf` -/
structure PGState (α : Type) where
  x : List α
  velocity : List α
  t : α
  stepsize : α
  error : Option α
  iter : Nat

/-- `init_state(init_params)` with `init_params = jp.zeros_like(b)` -/
def initState (b : List α) : PGState α :=
  ⟨List.replicate b.length 0, List.replicate b.length 0, 1.0, 1.0, none, 0⟩

/-- `_update_accel(x, state)`
```
y = state.velocity; t = state.t
(y_fun_val, _), y_fun_grad = value_and_grad(y)
next_x, next_stepsize = self._iter(iter_num, y, y_fun_val, y_fun_grad, stepsize, …)
next_t = 0.5 * (1 + jnp.sqrt(1 + 4 * t ** 2))
diff_x = next_x − x
next_y = next_x + ((t − 1) / next_t) * diff_x
next_error = ‖diff_x‖ / next_stepsize
``` -/
def update (a : List (List α)) (b : List α) (eps : α) (maxls : Nat) (st : PGState α) : PGState α :=
  let y := st.velocity
  let ls := lineSearch a b y (objective a b y) (grad a b y) eps maxls st.stepsize
  let nextX := ls.1
  let nextS := nextStepsize ls.2
  let nextT := 0.5 * (1 + HasSqrt.sqrt (1 + 4.0 * (st.t * st.t)))
  let d := vsub nextX st.x
  let c := (st.t - 1) / nextT
  let nextY := List.zipWith (fun xi di => xi + c * di) nextX d
  ⟨nextX, nextY, nextT, nextS, some (HasSqrt.sqrt (sqNorm d) / nextS), st.iter + 1⟩

/-- `_cond_fun`: `state.error > self.tol` -/
def notConverged (tol : α) (st : PGState α) : Bool :=
  match st.error with
  | none => true
  | some e => decide (tol < e)

/-- `loop.while_loop(self._cond_fun, self._body_fun, init_val, maxiter = fuel)` -/
def iterate (a : List (List α)) (b : List α) (tol eps : α) (maxls : Nat) :
    Nat → PGState α → PGState α
  | 0, st => st
  | fuel + 1, st =>
    if notConverged tol st then iterate a b tol eps maxls fuel (update a b eps maxls st) else st

/-- `IterativeSolver._run(zeros_like(b))`: `(params, state)` -/
def pgRun (a : List (List α)) (b : List α) (maxiter : Nat) (tol eps : α) (maxls : Nat) : PGState α :=
  if maxiter = 0 then initState b
  else iterate a b tol eps maxls (maxiter - 1) (update a b eps maxls (initState b))

/-- `pg.run(jp.zeros_like(b)).params` for brax's `pg` -/
def pgSolve (a : List (List α)) (b : List α) (maxiter : Nat) (tol eps : α) (maxls : Nat) : List α :=
  (pgRun a b maxiter tol eps maxls).x

end solver
end C06
end Brax
