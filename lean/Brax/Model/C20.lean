import Brax.Scalar
import Brax.Model.Wire
/-!
# C20 — model of `brax/training/distribution.py` and of `ppo.networks.make_inference_fn`

Executable, Mathlib-free, written once over raw operator classes: it runs at `Float` in the
driver (`Driver/C20.lean`) and is instantiated with `ℝ` in `Props/C20.lean`.

What is transcribed (pinned tree):

* `jax.nn.softplus x = jnp.logaddexp x 0 = max(x,0) + log1p(exp(-|x - 0|))`   (jax/_src/lax/other.py)
* `NormalDistribution.{sample, mode, log_prob, entropy}`                        (distribution.py:95-116)
* `TanhBijector.{forward, inverse, forward_log_det_jacobian}`                   (distribution.py:119-129)
* `NormalTanhDistribution.create_dist`                                          (distribution.py:159-162)
* `ParametricDistribution.{postprocess, inverse_postprocess, sample_no_postprocessing, sample,
  mode, log_prob, entropy}` with `event_ndims = 1`                              (distribution.py:57-92)
* `make_policy_network.apply` and `make_inference_fn.policy`                    (networks.py:201-204,
                                                                                 ppo/networks.py:43-60)
* `running_statistics.normalize` with `max_abs_value = None`                   (the PPO preprocessor)

One *event* (last axis) is a `List`; leading batch axes are `List.map` over rows (the driver does
that).  `jax.random.normal(key, loc.shape)` enters as data `eps` (one number per action dim).
Constants: `2.0 = 1 + 1`, `0.5 = 1 / (1 + 1)` (both exact in IEEE double), `jnp.pi` through the
class `HasPi` (the double nearest to π at `Float`, `Real.pi` in the theorems), `lax.log1p` through
`HasLog1p` (`log (1 + t)` in the theorems, an accurate `log1p` at `Float`).
-/
namespace Brax.C20
open Brax

/-- `jnp.pi` -/
class HasPi (α : Type) where
  pi : α

/-- `lax.log1p` -/
class HasLog1p (α : Type) where
  log1p : α → α

instance : HasPi Float := ⟨3.141592653589793⟩

/-- an accurate `log1p` for IEEE doubles (Kahan): `log(1+t)·t/((1+t)-1)` -/
def floatLog1p (t : Float) : Float :=
  let u := 1.0 + t
  if u == 1.0 then t else Float.log u * t / (u - 1.0)

instance : HasLog1p Float := ⟨floatLog1p⟩

variable {α : Type}

/-! ## scalars -/

/-- the literal `2.0` -/
def two [One α] [Add α] : α := 1 + 1
/-- the literal `0.5` -/
def half [One α] [Add α] [Div α] : α := 1 / (1 + 1)

/-- `jnp.square` -/
def sq [Mul α] (x : α) : α := x * x

/-- `jax.nn.softplus x = logaddexp(x, 0) = max(x, 0) + log1p(exp(-|x|))` -/
def softplus [Zero α] [Add α] [Neg α] [LT α] [DecidableLT α] [HasExp α] [HasLog1p α] (x : α) : α :=
  maxv x 0 + HasLog1p.log1p (HasExp.exp (-(absv x)))

/-! ## `NormalDistribution` (per action dimension) -/

/-- `jax.random.normal(seed, shape) * scale + loc` -/
def normalSample1 [Add α] [Mul α] (loc scale eps : α) : α := eps * scale + loc

/-- `-0.5 * square(x / scale - loc / scale) - (0.5 * log(2.0 * pi) + log(scale))` -/
def normalLogProb1 [One α] [Add α] [Sub α] [Mul α] [Neg α] [Div α] [HasExp α] [HasPi α]
    (loc scale x : α) : α :=
  (-half) * sq (x / scale - loc / scale) - (half * HasExp.log (two * HasPi.pi) + HasExp.log scale)

/-- `(0.5 + (0.5 * log(2.0 * pi) + log(scale))) * ones_like(loc)` -/
def normalEntropy1 [One α] [Add α] [Mul α] [Div α] [HasExp α] [HasPi α] (scale : α) : α :=
  (half + (half * HasExp.log (two * HasPi.pi) + HasExp.log scale)) * 1

/-! ## `TanhBijector` -/

/-- `jnp.tanh` -/
def tanhForward [HasExp α] (x : α) : α := HasExp.tanh x

/-- `jnp.arctanh y = ½ log((1+y)/(1-y))` -/
def tanhInverse [One α] [Add α] [Sub α] [Mul α] [Div α] [HasExp α] (y : α) : α :=
  half * HasExp.log ((1 + y) / (1 - y))

/-- `2.0 * (log(2.0) - x - softplus(-2.0 * x))` -/
def fldj [Zero α] [One α] [Add α] [Sub α] [Mul α] [Neg α] [LT α] [DecidableLT α] [HasExp α]
    [HasLog1p α] (x : α) : α :=
  two * (HasExp.log two - x - softplus ((-two) * x))

/-! ## event vectors -/

/-- elementwise map over three equally long vectors (JAX raises on a shape mismatch; the driver
rejects such input, the theorems assume equal lengths) -/
def zipWith3 {β γ δ : Type} (f : α → β → γ → δ) : List α → List β → List γ → List δ
  | a :: as, b :: bs, c :: cs => f a b c :: zipWith3 f as bs cs
  | _, _, _ => []

/-- constructor arguments of `NormalTanhDistribution` -/
structure Cfg (α : Type) where
  minStd : α
  varScale : α

/-- `make_ppo_networks`: `NormalTanhDistribution(event_size=action_size)`, i.e. the defaults
`min_std=0.001, var_scale=1` -/
def ppoCfg [OfScientific α] [One α] : Cfg α := ⟨0.001, 1⟩

/-- a `NormalDistribution(loc, scale)` object -/
structure Normal (α : Type) where
  loc : List α
  scale : List α

/-- `(softplus(s) + min_std) * var_scale` -/
def scaleOf [Zero α] [Add α] [Mul α] [Neg α] [LT α] [DecidableLT α] [HasExp α] [HasLog1p α]
    (c : Cfg α) (s : α) : α :=
  (softplus s + c.minStd) * c.varScale

/-- `NormalTanhDistribution.create_dist`: `loc, scale = split(parameters, 2, axis=-1)`;
`scale = (softplus(scale) + min_std) * var_scale` -/
def createDist [Zero α] [Add α] [Mul α] [Neg α] [LT α] [DecidableLT α] [HasExp α] [HasLog1p α]
    (c : Cfg α) (p : List α) : Normal α :=
  ⟨p.take (p.length / 2), (p.drop (p.length / 2)).map (scaleOf c)⟩

def Normal.sample [Add α] [Mul α] (d : Normal α) (eps : List α) : List α :=
  zipWith3 normalSample1 d.loc d.scale eps

def Normal.mode (d : Normal α) : List α := d.loc

def Normal.logProb [One α] [Add α] [Sub α] [Mul α] [Neg α] [Div α] [HasExp α] [HasPi α]
    (d : Normal α) (x : List α) : List α :=
  zipWith3 normalLogProb1 d.loc d.scale x

/-- `entropy * ones_like(loc)` : the scalar formula broadcast against `loc` -/
def Normal.entropy [One α] [Add α] [Mul α] [Div α] [HasExp α] [HasPi α] (d : Normal α) : List α :=
  List.zipWith (fun _ s => normalEntropy1 s) d.loc d.scale

/-! ## `ParametricDistribution` with the tanh post-processor, `event_ndims = 1` -/

section dist
variable [Zero α] [One α] [Add α] [Sub α] [Mul α] [Neg α] [Div α] [LT α] [DecidableLT α]
  [HasExp α] [HasLog1p α] [HasPi α]

def postprocess (x : List α) : List α := x.map tanhForward
def inversePostprocess (y : List α) : List α := y.map tanhInverse

def sampleNoPostprocessing (c : Cfg α) (p eps : List α) : List α := (createDist c p).sample eps

def sample (c : Cfg α) (p eps : List α) : List α := postprocess (sampleNoPostprocessing c p eps)

def mode (c : Cfg α) (p : List α) : List α := postprocess (createDist c p).mode

/-- `log_probs = dist.log_prob(actions); log_probs -= fldj(actions); sum(axis=-1)` -/
def logProb (c : Cfg α) (p x : List α) : α :=
  (List.zipWith (· - ·) ((createDist c p).logProb x) (x.map fldj)).sum

/-- `entropy = dist.entropy(); entropy += fldj(dist.sample(seed)); sum(axis=-1)` -/
def entropy (c : Cfg α) (p eps : List α) : α :=
  let d := createDist c p
  (List.zipWith (· + ·) d.entropy ((d.sample eps).map fldj)).sum

end dist

/-! ## `make_policy_network.apply` and `make_inference_fn` -/

/-- `running_statistics.normalize(obs, mean_std)` with `max_abs_value=None`: `(data - mean) / std` -/
def normalize [Sub α] [Div α] (obs mean std : List α) : List α :=
  zipWith3 (fun o m s => (o - m) / s) obs mean std

/-- `apply(processor_params, policy_params, obs)`:
`obs = preprocess_observations_fn(obs, processor_params); policy_module.apply(policy_params, obs)`.
The network `net` and the preprocessor are arbitrary functions. -/
def policyApply {Obs NP PP : Type} (preprocess : Obs → NP → Obs) (net : PP → Obs → List α)
    (np : NP) (pp : PP) (obs : Obs) : List α :=
  net pp (preprocess obs np)

/-- the `extra` dictionary of the stochastic branch: `{'log_prob': …, 'raw_action': …}` -/
structure Extra (α : Type) where
  logProb : α
  rawAction : List α

/-- `make_inference_fn(ppo_networks)(params, deterministic)(observations, key_sample)`; `none` is the
empty dictionary `{}` of the deterministic branch; `eps = jax.random.normal(key_sample, loc.shape)`.
`params = (np, pp, …)`: only `params[0]`, `params[1]` are used. -/
def inferenceFn [Zero α] [One α] [Add α] [Sub α] [Mul α] [Neg α] [Div α] [LT α] [DecidableLT α]
    [HasExp α] [HasLog1p α] [HasPi α] {Obs NP PP : Type}
    (preprocess : Obs → NP → Obs) (net : PP → Obs → List α) (c : Cfg α)
    (np : NP) (pp : PP) (deterministic : Bool) (obs : Obs) (eps : List α) :
    List α × Option (Extra α) :=
  let logits := policyApply preprocess net np pp obs
  if deterministic then (mode c logits, none)
  else
    let raw := sampleNoPostprocessing c logits eps
    let lp := logProb c logits raw
    (postprocess raw, some ⟨lp, raw⟩)

/-! ## a concrete network, used by the driver only (theorems keep the network abstract):
`brax.training.networks.MLP` with `linen.swish`, biases, no layer norm -/

/-- `jax.nn.swish x = x * sigmoid x`, `sigmoid x = 1 / (1 + exp(-x))` -/
def swish [One α] [Add α] [Mul α] [Neg α] [Div α] [HasExp α] (x : α) : α :=
  x * (1 / (1 + HasExp.exp (-x)))

/-- a `linen.Dense`: `kernel` has one row per input, `bias` one entry per output -/
structure Dense (α : Type) where
  kernel : List (List α)
  bias : List α

/-- `x @ kernel + bias` -/
def Dense.apply [Add α] [Mul α] (l : Dense α) (x : List α) : List α :=
  (List.zipWith (fun xi row => row.map (xi * ·)) x l.kernel).foldl (List.zipWith (· + ·))
    l.bias

/-- `MLP.__call__`: activation after every layer but the last -/
def mlp [One α] [Add α] [Mul α] [Neg α] [Div α] [HasExp α] : List (Dense α) → List α → List α
  | [], x => x
  | [l], x => l.apply x
  | l :: ls, x => mlp ls ((l.apply x).map swish)

end Brax.C20
