import Brax.Model.Kinematics
/-!
# Maximal-coordinate helpers shared by the spring and positional pipelines

Reusable model file (no Mathlib; raw operator classes).  Used by `Brax/Model/Spring.lean`,
`Brax/Model/Positional.lean` and the properties built on them (C04, C05, C06).

* namespace `Brax.MC` ("maximal coordinates") — array idioms and small pieces both pipelines use:
  * `tab`, `nth`, `takeWrap`, `segmentSum` — `vmap` output, indexing, `x.take(i, mode='wrap')`,
    `jax.ops.segment_sum` (ids outside `[0,n)` — in particular the world parent `-1` — are dropped);
  * `HasPow`, `HasF32` — the two opaque scalar operations the pipelines need besides
    `HasSqrt/HasTrig/HasExp` (`mass ** (1 - scale)`; the `float32` cast of the contact counter);
  * `Contact` — the fields of `brax.base.Contact` the two collision resolvers read (contacts are
    *data*: `mjx.collision` is an external call, see DESIGN.md 3);
  * `toTau` — `brax.actuator.to_tau` over the platform's `Sys`/`ActP`;
  * `orthogonals`, `signedAngle`, `linkToJointFrame`, `axisAngleAng` — `math.orthogonals`,
    `math.signed_angle`, `kinematics.link_to_joint_frame`, `kinematics.axis_angle_ang` (all three
    results, including the auxiliary axes the positional joint update reads);
  * `effMass` — `sys.link.inertia.mass ** (1 - sys.spring_mass_scale)`.
* namespace `Brax.Com` — `brax/com.py`: `fromWorld`, `toWorld`, `invInertia`.

Conventions.  Per-link arrays are `List`s of length `s.numLinks`; `vmap` over links is
`tab n fun i => …` with inputs read by `nth xs i` (= `xs.getD i default`).  The defaults are never
reached for inputs satisfying the well-formedness guards (`Sys.WF`, `Spring.State.WF`,
`Positional.State.WF`), which the drivers check on every input and the theorems assume.
-/
set_option linter.unusedSectionVars false
namespace Brax
namespace MC

/-! ## array idioms -/

/-- `[f 0, …, f (n-1)]`: the result of a `vmap` over `n` rows -/
def tab {β : Type} (n : Nat) (f : Nat → β) : List β := (List.range n).map f

/-- row `i` of a per-link array (`default` outside; guarded by the `WF` predicates) -/
def nth {β : Type} [Inhabited β] (xs : List β) (i : Nat) : β := xs.getD i default

/-- row `i` of a per-link scalar array -/
def nthS {β : Type} [Zero β] (xs : List β) (i : Nat) : β := xs.getD i 0

/-- `x.take(i, mode='wrap')` / numpy-style `x[i]` with a possibly negative index:
index modulo the length, `-1 ↦ last` -/
def takeWrap {β : Type} [Inhabited β] (xs : List β) (i : Int) : β :=
  xs.getD (i % (xs.length : Int)).toNat default

/-- `jax.ops.segment_sum(vals, ids, n)`: entry `k` is the sum of the `vals` whose id is `k`; ids
outside `[0, n)` (including `-1`) are dropped. -/
def segmentSum {β : Type} [Zero β] [Add β] (vals : List β) (ids : List Int) (n : Nat) : List β :=
  tab n fun k => ((vals.zip ids).filterMap fun p => if p.2 = (k : Int) then some p.1 else none).sum

section inst
variable {α : Type}
instance instZeroV3 [Zero α] : Zero (V3 α) := ⟨⟨0, 0, 0⟩⟩
instance instZeroForce [Zero α] : Zero (Force α) := ⟨⟨0, 0⟩⟩
instance instZeroMotion [Zero α] : Zero (Motion α) := ⟨⟨0, 0⟩⟩
instance instZeroQ4 [Zero α] : Zero (Q4 α) := ⟨⟨0, 0, 0, 0⟩⟩
instance instAddQ4 [Add α] : Add (Q4 α) := ⟨fun a b => ⟨a.w + b.w, a.x + b.x, a.y + b.y, a.z + b.z⟩⟩
instance instInhV3 [Zero α] : Inhabited (V3 α) := ⟨0⟩
instance instInhForce [Zero α] : Inhabited (Force α) := ⟨0⟩
instance instInhMotion [Zero α] : Inhabited (Motion α) := ⟨0⟩
/-- default transform: `Transform.zero` (zero position, identity rotation) -/
instance instInhTf [Zero α] [One α] : Inhabited (Tf α) := ⟨⟨⟨0, 0, 0⟩, ⟨1, 0, 0, 0⟩⟩⟩
instance instInhM3 [Zero α] : Inhabited (M3 α) := ⟨⟨0, 0, 0⟩⟩
instance instInhLinkP [Zero α] [One α] : Inhabited (LinkP α) :=
  ⟨⟨default, default, ⟨default, default, 0⟩, 0, 0, 0, 0, 0⟩⟩
end inst

/-! ## opaque scalar operations -/

/-- `x ** y` for real `y` -/
class HasPow (α : Type) where
  pow : α → α → α

/-- rounding to IEEE single precision.  `collisions.resolve` / `resolve_velocity` build the
per-contact counter with `dtype=jp.float32`, so under `jax_enable_x64` the divisor
`num_contacts + 1e-8` is evaluated in single precision (`1 + 1e-8 ↦ 1`, `0 + 1e-8 ↦` the single
nearest `1e-8`).  The identity at exact scalar types (`Rat`, `ℝ`). -/
class HasF32 (α : Type) where
  f32 : α → α

instance : HasPow Float := ⟨Float.pow⟩
instance : HasF32 Float := ⟨fun x => x.toFloat32.toFloat⟩
instance : HasF32 Rat := ⟨id⟩

section ring
variable {α : Type} [Zero α] [One α] [Add α] [Sub α] [Mul α] [Neg α]

/-- `Transform.create(pos=p)` -/
def tfPos (p : V3 α) : Tf α := ⟨p, Q4.one⟩
/-- `Transform.create(rot=r)` -/
def tfRot (r : Q4 α) : Tf α := ⟨V3.zero, r⟩

/-- bool × vector (`if b then v else 0`) -/
def maskV (b : Bool) (v : V3 α) : V3 α := if b then v else ⟨0, 0, 0⟩
/-- bool × scalar -/
def maskS (b : Bool) (x : α) : α := if b then x else 0
/-- bool × matrix -/
def maskM (b : Bool) (m : M3 α) : M3 α := if b then m else ⟨0, 0, 0⟩

/-- `jp.sum(vs, axis=0)` for a list of vectors -/
def sumV (vs : List (V3 α)) : V3 α := vs.sum

end ring

/-! ## contacts (data) -/

/-- the fields of one row of `brax.base.Contact` read by the collision resolvers -/
structure Contact (α : Type) where
  /-- `link_idx[0]`, `-1` = world -/
  link1 : Int
  /-- `link_idx[1]` -/
  link2 : Int
  dist : α
  pos : V3 α
  /-- `frame[0]` -/
  normal : V3 α
  /-- `friction[0]` -/
  friction : α
  elasticity : α
deriving Repr

/-! ## actuators: `brax/actuator.py` -/

section act
variable {α : Type} [Zero α] [Add α] [Mul α] [LT α] [DecidableLT α]

/-- `jp.clip(x, lo, hi)` where a bound may be infinite (`none`) -/
def clipO (x : α) (lo hi : Option α) : α :=
  let y := match lo with
    | none => x
    | some l => if x < l then l else x
  match hi with
  | none => y
  | some h => if h < y then h else y

/-- force of one actuator after the output gear:
`clip(gain·clip(act) + gear·(q·bias_q + qd·bias_qd), force_range) · gear` -/
def actForce (a : ActP α) (u q qd : α) : α :=
  let c := clipO u a.ctrlLo a.ctrlHi
  let bias := a.gear * (q * a.biasQ + qd * a.biasQd)
  clipO (a.gain * c + bias) a.forceLo a.forceHi * a.gear

/-- `actuator.to_tau(sys, act, q, qd)`: `zeros(nv).at[qd_id].add(force)`; `q_id`, `qd_id` are
in range for `Sys.WF` -/
def toTau (s : Sys α) (act q qd : List α) : List α :=
  if s.acts.length = 0 then List.replicate s.nv 0 else
  let forces := List.zipWith (fun a u => actForce a u (nthS q a.qId) (nthS qd a.qdId)) s.acts act
  segmentSum forces (s.acts.map fun a => (a.qdId : Int)) s.nv

end act

/-! ## joint frames: `math.orthogonals`, `math.signed_angle`, `kinematics.link_to_joint_frame`,
`kinematics.axis_angle_ang` -/

section real
variable {α : Type} [Zero α] [One α] [Add α] [Sub α] [Mul α] [Neg α] [Div α]
  [LT α] [DecidableLT α] [LE α] [DecidableLE α] [OfScientific α] [HasSqrt α] [HasTrig α]

/-- `v.any()` for a float 3-vector -/
def v3Any (v : V3 α) : Bool := !(eqZero v.x) || !(eqZero v.y) || !(eqZero v.z)

/-- `jp.sign` -/
def signv (x : α) : α := if x < 0 then -1 else if 0 < x then 1 else 0

/-- `math.normalize(v)`: `(v / (norm + 1e-6·(norm == 0)), norm)` -/
def normalizeN (v : V3 α) : V3 α × α := (normalize3 v, safeNorm3 v)

/-- `math.orthogonals(a)`: `(b, cross(a, b))` -/
def orthogonals (a : V3 α) : V3 α × V3 α :=
  let useY : Bool := decide (-(0.5 : α) < a.y) && decide (a.y < (0.5 : α))
  let e : V3 α := if useY then ⟨0, 1, 0⟩ else ⟨0, 0, 1⟩
  let d := V3.dot a e
  let b0 : V3 α := ⟨e.x - a.x * d, e.y - a.y * d, e.z - a.z * d⟩
  let b : V3 α := maskV (v3Any a) (normalize3 b0)
  (b, V3.cross a b)

/-- `math.signed_angle(axis, ref_p, ref_c)` -/
def signedAngle (axis refP refC : V3 α) : α :=
  HasTrig.atan2 (V3.dot (V3.cross refP refC) axis) (V3.dot refP refC)

/-- `jp.eye(3)` -/
def eye : M3 α := ⟨⟨1, 0, 0⟩, ⟨0, 1, 0⟩, ⟨0, 0, 1⟩⟩

/-- a joint frame: `Motion(ang=ang_frame, vel=vel_frame)` (3×3 each, by rows) and `parity` -/
structure JointFrame (α : Type) where
  ang : M3 α
  vel : M3 α
  parity : α

/-- `kinematics.link_to_joint_frame(motion)`, 1 dof: the axis completed by `orthogonals`
(`eye(3)` for a zero axis), separately for the rotational and the translational part -/
def frame1 (m0 : Motion α) : JointFrame α :=
  let oa := orthogonals m0.ang
  let angF : M3 α := if v3Any m0.ang then ⟨m0.ang, oa.1, oa.2⟩ else eye
  let ov := orthogonals m0.vel
  let velF : M3 α := if v3Any m0.vel then ⟨m0.vel, ov.1, ov.2⟩ else eye
  ⟨angF, velF, 1⟩

/-- `kinematics.link_to_joint_frame(motion)`, 2 dofs -/
def frame2 (m0 m1 : Motion α) : JointFrame α :=
  let oa0 := orthogonals m0.ang; let oa1 := orthogonals m1.ang
  let ov0 := orthogonals m0.vel; let ov1 := orthogonals m1.vel
  let isTrans : Bool := v3Any m0.vel || v3Any m1.vel
  let ang : M3 α := if isTrans then eye else ⟨m0.ang, m1.ang, V3.cross m0.ang m1.ang⟩
  let vel : M3 α := if isTrans then ⟨m0.vel, m1.vel, V3.cross m0.vel m1.vel⟩ else eye
  -- rp / pr   (`ortho_ang[k][d]`: k-th result of `orthogonals` for dof d)
  let r1 := if v3Any m0.ang then m0.ang else oa1.2
  let r2 := if v3Any m1.ang then m1.ang else oa0.1
  let r3 := V3.cross r1 r2
  let p1 := if v3Any m0.vel then m0.vel else ov1.2
  let p2 := if v3Any m1.vel then m1.vel else ov0.1
  let p3 := V3.cross p1 p2
  let isBoth : Bool := (v3Any m0.ang || v3Any m1.ang) && (v3Any m0.vel || v3Any m1.vel)
  ⟨if isBoth then ⟨r1, r2, r3⟩ else ang, if isBoth then ⟨p1, p2, p3⟩ else vel, 1⟩

/-- `kinematics.link_to_joint_frame(motion)`, 3 dofs -/
def frame3 (m0 m1 m2 : Motion α) : JointFrame α :=
  let oa0 := orthogonals m0.ang; let oa1 := orthogonals m1.ang; let oa2 := orthogonals m2.ang
  let ov0 := orthogonals m0.vel; let ov1 := orthogonals m1.vel
  let ang : M3 α := ⟨m0.ang, m1.ang, V3.cross m0.ang m1.ang⟩
  let vel : M3 α := ⟨m0.vel, m1.vel, V3.cross m0.vel m1.vel⟩
  let parity := V3.dot (V3.cross m0.ang m1.ang) m2.ang
  -- rpp, prp, ppr
  let r1 := if v3Any m0.ang then m0.ang else (if v3Any m1.ang then oa1.2 else oa2.1)
  let r2 := if v3Any m1.ang then m1.ang else (if v3Any m0.ang then oa0.1 else oa2.2)
  let r3 := V3.cross r1 r2
  let p1 := if v3Any m0.vel then m0.vel else ov1.2
  let p2 := if v3Any m1.vel then m1.vel else ov0.1
  let p3 := V3.cross p1 p2
  let isBoth : Bool := (v3Any m0.ang || v3Any m1.ang || v3Any m2.ang)
    && (v3Any m0.vel || v3Any m1.vel || v3Any m2.vel)
  ⟨if isBoth then ⟨r1, r2, r3⟩ else ang, if isBoth then ⟨p1, p2, p3⟩ else vel,
   if isBoth then 1 else parity⟩

/-- `kinematics.link_to_joint_frame(motion)` (`none` = the `AssertionError` for 0 or > 3 dofs) -/
def linkToJointFrame (ms : List (Motion α)) : Option (JointFrame α) :=
  match ms with
  | [m0] => some (frame1 m0)
  | [m0, m1] => some (frame2 m0 m1)
  | [m0, m1, m2] => some (frame3 m0 m1 m2)
  | _ => none

/-- result of `axis_angle_ang`: `axis` (rows: child frame, third row times parity), the three
Euler angles, and the auxiliary axes `(line_of_nodes, axis_1_p_in_xz_c)` -/
structure AxisAngle (α : Type) where
  axis : M3 α
  psi : α
  theta : α
  phi : α
  lineOfNodes : V3 α
  axis1InXZ : V3 α

/-- `kinematics.axis_angle_ang(j, joint_motion, parity)`; `frame = joint_motion.ang` by rows -/
def axisAngleAng (j : Tf α) (frame : M3 α) (parity : α) : AxisAngle α :=
  let c0 := rotate frame.r0 j.rot
  let c1 := rotate frame.r1 j.rot
  let c2 := rotate frame.r2 j.rot
  let lon := normalize3 (V3.cross c2 frame.r0)
  let psi := signedAngle frame.r0 frame.r1 lon
  let d0 := V3.dot frame.r0 c0
  let d1 := V3.dot frame.r0 c1
  let a1 : V3 α := normalize3 ⟨d0 * c0.x + d1 * c1.x, d0 * c0.y + d1 * c1.y, d0 * c0.z + d1 * c1.z⟩
  let ab := V3.dot a1 frame.r0
  let theta := HasTrig.acos (clip ab (-1) 1) * signv (V3.dot frame.r0 c2)
  let ycn : V3 α := ⟨-c2.x * parity, -c2.y * parity, -c2.z * parity⟩
  let phi := signedAngle ycn c1 lon
  ⟨⟨c0, c1, ⟨c2.x * parity, c2.y * parity, c2.z * parity⟩⟩, psi, theta, phi, lon, a1⟩

end real

/-- `sys.link.inertia.mass ** (1 - sys.spring_mass_scale)`: the mass both pipelines store in
`state.mass` and use for every velocity/position update -/
def effMass {α : Type} [One α] [Sub α] [HasPow α] (s : Sys α) : List α :=
  s.links.map fun l => HasPow.pow l.inertia.mass (1 - s.springMassScale)

end MC

/-! ## `brax/com.py` -/
namespace Com
open MC

section ring
variable {α : Type} [Zero α] [One α] [Add α] [Sub α] [Mul α] [Neg α]

/-- `com.from_world(sys, x, xd)`: `(x_i, xd_i)`
```
x_i  = x.vmap().do(Transform.create(pos=sys.link.inertia.transform.pos))
xd_i = Transform.create(pos=x_i.pos - x.pos).vmap().do(xd)
``` -/
def fromWorld (s : Sys α) (x : List (Tf α)) (xd : List (Motion α)) : List (Tf α) × List (Motion α) :=
  let n := s.numLinks
  let xi := fun i => Tf.doTf (nth x i) (tfPos (nth s.links i).inertia.tf.pos)
  (tab n xi, tab n fun i => Tf.doMotion (tfPos ((xi i).pos - (nth x i).pos)) (nth xd i))

/-- `com.to_world(sys, x_i, xd_i)`: `(x, xd)`
```
x  = x_i.vmap().do(Transform.create(pos=-sys.link.inertia.transform.pos))
xd = Transform.create(pos=x.pos - x_i.pos).vmap().do(xd_i)
``` -/
def toWorld (s : Sys α) (x_i : List (Tf α)) (xd_i : List (Motion α)) : List (Tf α) × List (Motion α) :=
  let n := s.numLinks
  let x := fun i => Tf.doTf (nth x_i i) (tfPos (-(nth s.links i).inertia.tf.pos))
  (tab n x, tab n fun i => Tf.doMotion (tfPos ((x i).pos - (nth x_i i).pos)) (nth xd_i i))

end ring

section pow
variable {α : Type} [Zero α] [One α] [Add α] [Sub α] [Mul α] [Neg α] [Div α] [HasPow α]

/-- `inv_i(link_inertia, x_rot)` of `com.inv_inertia`:
```
ri = quat_mul(x_rot, link_inertia.transform.rot)
i_diag = diagonal(link_inertia.i) ** (1 - sys.spring_inertia_scale)
i_inv_mx = diag(1 / i_diag)
i_rot_row = vmap(rotate, [0, None])(i_inv_mx, ri)
i_rot_col = vmap(rotate, [0, None])(i_rot_row.T, ri)
``` -/
def invInertiaLink (scale : α) (it : Inertia α) (xrot : Q4 α) : M3 α :=
  let ri := quatMul xrot it.tf.rot
  let e := 1 - scale
  let d0 := 1 / HasPow.pow it.i.r0.x e
  let d1 := 1 / HasPow.pow it.i.r1.y e
  let d2 := 1 / HasPow.pow it.i.r2.z e
  let row : M3 α := ⟨rotate ⟨d0, 0, 0⟩ ri, rotate ⟨0, d1, 0⟩ ri, rotate ⟨0, 0, d2⟩ ri⟩
  let rt := row.transpose
  ⟨rotate rt.r0 ri, rotate rt.r1 ri, rotate rt.r2 ri⟩

/-- `com.inv_inertia(sys, x)` -/
def invInertia (s : Sys α) (x : List (Tf α)) : List (M3 α) :=
  tab s.numLinks fun i => invInertiaLink s.springInertiaScale (nth s.links i).inertia (nth x i).rot

end pow
end Com
end Brax
