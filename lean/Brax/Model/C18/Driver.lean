import Brax.Model.C18
import Brax.Spec.C18
import Brax.Model.Wire
/-!
# C18 — line-protocol driver (runs Model and Spec at `Rat` and `Float`)

```
C18.upd  M lo hi wflag nb d_1..d_nb F  count (mean sv)*F  [w_1..w_N]  x_{1,1..N} … x_{F,1..N}
          -> (count mean sv [std])*F                      N = Π d_i (1 if nb = 0), row-major
C18.hist M lo hi F B  (n w_1..w_n x_{1,1..n} … x_{F,1..n})*B
          -> (count mean sv [std])*F | (spec count mean sv [clip sqrt var])*F
C18.pmap M lo hi F D n  count (mean sv)*F  (w_1..w_n x_{1,1..n} … x_{F,1..n})*D
          -> (count mean sv [std])*F
C18.norm M maxflag m kind x mean std   -> f <val> | i <int>      kind = f | i
C18.denorm M kind x mean std           -> f <val> | i <int>
C18.validate wflag [k w_1..w_k] L (k d_1..d_k)*L  Mn (k d_1..d_k)*Mn  -> ok | err
```
`M = R` exact rationals (no std) or `F` IEEE doubles (with std).
-/
namespace Brax.C18.Driver
open Brax Brax.C18

def chunk {β : Type} (d : Nat) (xs : List β) : List (List β) :=
  if d = 0 then [] else (List.range (xs.length / d)).map fun i => (xs.drop (i * d)).take d

def natProd (ds : List Nat) : Nat := ds.foldr (· * ·) 1

def takeNats : Nat → List String → Option (List Nat × List String)
  | 0, ts => some ([], ts)
  | n + 1, t :: ts => do
      let v ← t.toNat?
      let (vs, rest) ← takeNats n ts
      pure (v :: vs, rest)
  | _ + 1, [] => none

/-- `k d_1 … d_k` -/
def takeShape : List String → Option (List Nat × List String)
  | t :: ts => do let k ← t.toNat?; takeNats k ts
  | [] => none

def takeShapes : Nat → List String → Option (List (List Nat) × List String)
  | 0, ts => some ([], ts)
  | n + 1, ts => do
      let (s, r) ← takeShape ts
      let (ss, r') ← takeShapes n r
      pure (s :: ss, r')

section generic
variable {α : Type} [Zero α] [One α] [Add α] [Sub α] [Mul α] [Neg α] [Div α] [LT α]
  [DecidableLT α] [Wire α]

def pairUp : List α → List (Acc α)
  | m :: v :: r => ⟨0, m, v⟩ :: pairUp r
  | _ => []

/-- parse `count (mean sv)*F` -/
def takeAccs (F : Nat) (ts : List String) : Option (List (Acc α) × List String) := do
  let (c, r) ← takeVals (α := α) 1 ts
  let (mv, r') ← takeVals (α := α) (2 * F) r
  match c with
  | [c] => pure ((pairUp mv).map fun a => { a with count := c }, r')
  | _ => none

/-- parse `[w_1..w_n] x_{1,·} … x_{F,·}` -/
def takeBatch (wflag : Bool) (F n : Nat) (ts : List String) :
    Option (List α × List (List α) × List String) := do
  let (ws, r) ← if wflag then takeVals (α := α) n ts else some ([], ts)
  let (xs, r') ← takeVals (α := α) (F * n) r
  pure (ws, chunk n xs, r')

/-- the update of every feature (shared `count`, shared weights) -/
def updAll (wflag : Bool) (dims : List Nat) (dimsα : List α) (accs : List (Acc α)) (ws : List α)
    (xss : List (List α)) : Option (List (Acc α)) :=
  match wflag, dims, ws with
  | true, [], [w] => (List.zipWith (fun a xs => match xs with | [x] => some (step0 a w x) | _ => none) accs xss).mapM id
  | true, [_], _ => some (List.zipWith (fun a xs => step a (ws.zip xs)) accs xss)
  | true, [_, d2], _ => some (List.zipWith (fun a xs => step2 a (chunk d2 (ws.zip xs))) accs xss)
  | false, [], _ => (List.zipWith (fun a xs => match xs with | [x] => some (stepU0 a x) | _ => none) accs xss).mapM id
  | false, [_], _ => some (List.zipWith (fun a xs => stepU dimsα a xs) accs xss)
  | false, [_, d2], _ => some (List.zipWith (fun a xs => stepU2 dimsα a (chunk d2 xs)) accs xss)
  | _, _, _ => none

def parseUpd (ts : List String) : Option (α × α × List (Acc α)) := do
  let (lh, r) ← takeVals (α := α) 2 ts
  match lh, r with
  | [lo, hi], wf :: nbT :: r =>
    let wflag ← (if wf = "1" then some true else if wf = "0" then some false else none)
    let nb ← nbT.toNat?
    if nb > 2 then none else
    let (dims, _) ← takeNats nb r
    let (dimsα, r) ← takeVals (α := α) nb r
    match r with
    | fT :: r =>
      let F ← fT.toNat?
      if F = 0 then none else
      let n := natProd dims
      if n = 0 then none else
      let (accs, r) ← takeAccs (α := α) F r
      let (ws, xss, r) ← takeBatch (α := α) wflag F n r
      if !r.isEmpty || xss.length != F then none else
      let out ← updAll wflag dims dimsα accs ws xss
      pure (lo, hi, out)
    | [] => none
  | _, _ => none

/-- fold `B` batches `(n ws xs)` -/
def takeHist (F : Nat) : Nat → List String → Option (List (List α × List (List α)) × List String)
  | 0, ts => some ([], ts)
  | b + 1, nT :: ts => do
      let n ← nT.toNat?
      if n = 0 then none else
      let (ws, xss, r) ← takeBatch (α := α) true F n ts
      if xss.length != F then none else
      let (rest, r') ← takeHist F b r
      pure ((ws, xss) :: rest, r')
  | _ + 1, [] => none

/-- batches of feature `j` as lists of (weight, value) -/
def featHist (h : List (List α × List (List α))) (j : Nat) : List (List (α × α)) :=
  h.map fun b => b.1.zip (b.2.getD j [])

def parseHist (ts : List String) : Option (α × α × List (Acc α) × List (Acc α)) := do
  let (lh, r) ← takeVals (α := α) 2 ts
  match lh, r with
  | [lo, hi], fT :: bT :: r =>
    let F ← fT.toNat?
    let B ← bT.toNat?
    if F = 0 || B = 0 then none else
    let (h, r) ← takeHist (α := α) F B r
    if !r.isEmpty then none else
    let model := (List.range F).map fun j => run initAcc (featHist h j)
    let spec := (List.range F).map fun j => Spec.acc (featHist h j).flatten
    pure (lo, hi, model, spec)
  | _, _ => none

def takeDevs (F n : Nat) : Nat → List String → Option (List (List α × List (List α)) × List String)
  | 0, ts => some ([], ts)
  | d + 1, ts => do
      let (ws, xss, r) ← takeBatch (α := α) true F n ts
      if xss.length != F then none else
      let (rest, r') ← takeDevs F n d r
      pure ((ws, xss) :: rest, r')

def parsePmap (ts : List String) : Option (α × α × List (Acc α)) := do
  let (lh, r) ← takeVals (α := α) 2 ts
  match lh, r with
  | [lo, hi], fT :: dT :: nT :: r =>
    let F ← fT.toNat?
    let D ← dT.toNat?
    let n ← nT.toNat?
    if F = 0 || D = 0 || n = 0 then none else
    let (accs, r) ← takeAccs (α := α) F r
    let (devs, r) ← takeDevs (α := α) F n D r
    if !r.isEmpty then none else
    pure (lo, hi, (List.range F).zipWith (fun j a => stepPmap a (featHist devs j)) accs)
  | _, _ => none

def renderLeaf : Leaf α → String
  | .inexact x => "f " ++ Wire.render x
  | .exact i => "i " ++ toString i

def parseLeaf (kind x : String) : Option (Leaf α) :=
  if kind = "f" then Leaf.inexact <$> Wire.parse x
  else if kind = "i" then Leaf.exact <$> x.toInt?
  else none

def runNorm (ts : List String) : Option String :=
  match ts with
  | [mf, m, kind, x, mu, sd] => do
    let mx ← (if mf = "1" then some <$> (Wire.parse m : Option α) else if mf = "0" then some none else none)
    let d ← parseLeaf (α := α) kind x
    let mu ← (Wire.parse mu : Option α)
    let sd ← (Wire.parse sd : Option α)
    pure (renderLeaf (normalizeLeaf mx d mu sd))
  | _ => none

def runDenorm (ts : List String) : Option String :=
  match ts with
  | [kind, x, mu, sd] => do
    let d ← parseLeaf (α := α) kind x
    let mu ← (Wire.parse mu : Option α)
    let sd ← (Wire.parse sd : Option α)
    pure (renderLeaf (denormalizeLeaf d mu sd))
  | _ => none

def renderAccs (as : List (Acc α)) : String :=
  renderVals (as.flatMap fun a => [a.count, a.mean, a.sv])

end generic

def renderStates (lo hi : Float) (as : List (Acc Float)) : String :=
  renderVals (as.flatMap fun a => [a.count, a.mean, a.sv, stdOf lo hi a.sv a.count])

def runValidate (ts : List String) : Option String :=
  match ts with
  | wf :: r => do
    let (w, r) ← (if wf = "1" then (fun p => (some p.1, p.2)) <$> takeShape r
                  else if wf = "0" then some (none, r) else none)
    match r with
    | lT :: r =>
      let L ← lT.toNat?
      let (leaves, r) ← takeShapes L r
      match r with
      | mT :: r =>
        let Mn ← mT.toNat?
        let (means, r) ← takeShapes Mn r
        if !r.isEmpty then none else
        pure (if validate w leaves means then "ok" else "err")
      | [] => none
    | [] => none
  | [] => none

def step (line : String) : String :=
  match tokens line with
  | "C18.upd" :: "R" :: ts =>
    match parseUpd (α := Rat) ts with | some (_, _, o) => renderAccs o | none => "bad-args"
  | "C18.upd" :: "F" :: ts =>
    match parseUpd (α := Float) ts with | some (lo, hi, o) => renderStates lo hi o | none => "bad-args"
  | "C18.hist" :: "R" :: ts =>
    match parseHist (α := Rat) ts with
    | some (_, _, m, s) => renderAccs m ++ " | " ++ renderAccs s
    | none => "bad-args"
  | "C18.hist" :: "F" :: ts =>
    match parseHist (α := Float) ts with
    | some (lo, hi, m, s) => renderStates lo hi m ++ " | " ++ renderStates lo hi s
    | none => "bad-args"
  | "C18.pmap" :: "R" :: ts =>
    match parsePmap (α := Rat) ts with | some (_, _, o) => renderAccs o | none => "bad-args"
  | "C18.pmap" :: "F" :: ts =>
    match parsePmap (α := Float) ts with | some (lo, hi, o) => renderStates lo hi o | none => "bad-args"
  | "C18.norm" :: "R" :: ts => (runNorm (α := Rat) ts).getD "bad-args"
  | "C18.norm" :: "F" :: ts => (runNorm (α := Float) ts).getD "bad-args"
  | "C18.denorm" :: "R" :: ts => (runDenorm (α := Rat) ts).getD "bad-args"
  | "C18.denorm" :: "F" :: ts => (runDenorm (α := Float) ts).getD "bad-args"
  | "C18.validate" :: ts => (runValidate ts).getD "bad-args"
  | _ => "bad-op"

end Brax.C18.Driver
