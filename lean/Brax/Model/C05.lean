import Brax.Model.Kinematics
/-!
# C05 — executable twins of the definitions used by `Props/C05.lean`

`Lemmas/KinEquiv.lean` defines `xformIn`, `rotM` and `forwardIns` over ℝ (noncomputable).  The
driver needs the same functions at `Float`; they are written here over the raw operator classes,
textually parallel to the ℝ definitions (same match, same field order), so that the harness can

* check the real `kinematics.forward` on transformed coordinates against the model on the
  coordinates transformed *by the model of the transform* (`forwardX`), and
* evaluate both sides of `forward_equivariant` numerically on the model (`forwardX` vs
  `gForward`): a sanity check of the reading of the theorem, not a proof.
-/
namespace Brax.C05M
open Brax Kin

section
variable {α : Type} [Zero α] [One α] [Add α] [Sub α] [Mul α] [Neg α]

/-- rotate a world motion by `g` (twin of `KinEquiv.rotM`) -/
def rotM (g : Tf α) (m : Motion α) : Motion α := ⟨rotate m.ang g.rot, rotate m.vel g.rot⟩

/-- transform the coordinates of a free root link by `g` (twin of `KinEquiv.xformIn`):
`pos ↦ g.pos + R_g pos`, `rot ↦ g.rot · rot`, linear velocity rotated, body-frame angular
velocity unchanged; non-free links keep their joint coordinates -/
def xformIn (g : Tf α) (l : LinkIn α) : LinkIn α :=
  match l.typ, l.q, l.qd with
  | .free, [p0, p1, p2, r0, r1, r2, r3], [v0, v1, v2, w0, w1, w2] =>
    let t := Tf.doTf g ⟨⟨p0, p1, p2⟩, ⟨r0, r1, r2, r3⟩⟩
    let v := rotate ⟨v0, v1, v2⟩ g.rot
    { l with q := [t.pos.x, t.pos.y, t.pos.z, t.rot.w, t.rot.x, t.rot.y, t.rot.z],
             qd := [v.x, v.y, v.z, w0, w1, w2] }
  | _, _, _ => l

/-- the transformed coordinate vectors `(q_g, qd_g)`: per-link slices transformed and
concatenated again -/
def xformState (s : Sys α) (q qd : List α) (g : Tf α) : List α × List α :=
  let ins := (linkSlices s.types q qd s.dofs).map (xformIn g)
  (ins.flatMap (·.q), ins.flatMap (·.qd))

end

section real
variable {α : Type} [Zero α] [One α] [Add α] [Sub α] [Mul α] [Neg α] [Div α]
  [LT α] [DecidableLT α] [LE α] [DecidableLE α] [OfScientific α] [HasSqrt α] [HasTrig α]

/-- `Kin.forward` on the `g`-transformed root coordinates (left side of `forward_equivariant`) -/
def forwardX (s : Sys α) (q qd : List α) (g : Tf α) : List (Tf α × Motion α) :=
  let st := xformState s q qd g
  forward s st.1 st.2

/-- `g` applied to the result of `Kin.forward` (right side of `forward_equivariant`) -/
def gForward (s : Sys α) (q qd : List α) (g : Tf α) : List (Tf α × Motion α) :=
  (forward s q qd).map (fun x => (Tf.doTf g x.1, rotM g x.2))

end real
end Brax.C05M
