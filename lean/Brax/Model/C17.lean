import Brax.Spec.C17
/-!
# C17 — executable model of `brax/training/replay_buffers.py` (no Mathlib)

What the code does, line by line, including its warts:

* `Core`              = `ReplayBufferState` without the PRNG key (`data`, `insert_position`,
                        `sample_position`); `data` is a list of `cap` records.
* `insertInternal`    = `QueueBase.insert_internal`: `roll = min(0, cap - ip - k)` (an `Int`, ≤ 0),
                        `lax.cond(roll, jnp.roll(data, roll), data)`, `position = ip + roll`,
                        `dynamic_update_slice_in_dim` (start clamped so that the slice fits),
                        `ip' = (position + k) % (cap + 1)`, `sp' = max(0, sp + roll)`.
* `queueSampleInternal` = `Queue.sample_internal`: `idx = (arange(B) + sp) % ip`
                        (`jnp` integer `x % 0 = 0`, verified on jax 0.11.1),
                        `jnp.take(data, idx, mode='wrap')`, `sp' = sp + B` (`% ip` when cyclic).
* `queueSize`         = `Queue.size` (`ip - sp` as a signed number, `ip` when cyclic).
* `uniformSampleInternal` = `UniformSamplingQueue.sample_internal` with the drawn indices passed
                        in as data (`jax.random.randint(minval=sp, maxval=ip)` is not modelled);
                        the state only changes its key.  The class has **no** `check_can_sample`.
* `checkCanInsert`, `queueCanSample` = the host-side guards that mutate the python attribute
                        `self._size` (`Buf.host`).  The counter lives in the buffer *object*; the
                        model threads it through a linear history.
* `Buf.insert/sample` = `ReplayBuffer.insert/sample` (guard with `shards = 1`, then internal).
* `ShBuf.insert/sample/size` = `PmapWrapper` / `PjitWrapper` (identical logic): guard with
                        `shards = D` on `k // D`, `reshape(-1, D)` (TypeError when `D ∤ k` — *after*
                        the guard already updated `_size`), `swapaxes` = deal record `j` to shard
                        `j % D`, map `insert_internal`; sample = map `sample_internal`, then
                        `swapaxes` + `reshape` = interleave; size = sum (`psum` / `jnp.sum`).
-/
namespace Brax.C17

structure Core (α : Type) where
  data : List α
  ip : Nat
  sp : Nat
deriving DecidableEq, Repr

/-- `QueueBase.init`: zero-filled storage, both positions 0 -/
def Core.init {α : Type} (cap : Nat) (z : α) : Core α := ⟨List.replicate cap z, 0, 0⟩

/-- `jnp.roll(l, shift, axis=0)`: `out[i] = l[(i - shift) mod n]` -/
def jroll {α : Type} (l : List α) (shift : Int) : List α :=
  let n := l.length
  let s := (shift % (n : Int)).toNat
  l.drop (n - s) ++ l.take (n - s)

/-- `lax.dynamic_update_slice_in_dim(data, upd, start, axis=0)` for `|upd| ≤ |data|`: the start
index is clamped to `[0, |data| - |upd|]` -/
def dynUpdate {α : Type} (data upd : List α) (start : Int) : List α :=
  let p := (max 0 (min start ((data.length : Int) - (upd.length : Int)))).toNat
  data.take p ++ upd ++ data.drop (p + upd.length)

/-- `QueueBase.insert_internal` (for `|upd| ≤ cap`; larger updates are a trace-time `TypeError`
of `dynamic_update_slice`, never reached behind the host guard) -/
def insertInternal {α : Type} (s : Core α) (upd : List α) : Core α :=
  let cap : Int := s.data.length
  let k : Int := upd.length
  let roll : Int := min 0 (cap - (s.ip : Int) - k)
  let data := if roll ≠ 0 then jroll s.data roll else s.data
  let position : Int := (s.ip : Int) + roll
  let data := dynUpdate data upd position
  let position := (position + k) % (cap + 1)
  let sp : Int := max 0 ((s.sp : Int) + roll)
  { data := data, ip := position.toNat, sp := sp.toNat }

/-- `jnp` integer remainder: `a % 0 = 0` -/
def jmod (a b : Nat) : Nat := if b = 0 then 0 else a % b

/-- `jnp.take(data, idx, axis=0, mode='wrap')` for non-negative indices -/
def takeWrap {α : Type} (data : List α) (idx : List Nat) : List α :=
  idx.filterMap fun i => data[i % data.length]?

/-- `Queue.sample_internal` -/
def queueSampleInternal {α : Type} (B : Nat) (cyclic : Bool) (s : Core α) : Core α × List α :=
  let idx := (List.range B).map fun i => jmod (i + s.sp) s.ip
  let batch := takeWrap s.data idx
  let sp := s.sp + B
  let sp := if cyclic then jmod sp s.ip else sp
  ({ s with sp := sp }, batch)

/-- `Queue.size` -/
def queueSize {α : Type} (cyclic : Bool) (s : Core α) : Int :=
  if cyclic then (s.ip : Int) else (s.ip : Int) - (s.sp : Int)

/-- `UniformSamplingQueue.sample_internal`, the drawn indices given -/
def uniformSampleInternal {α : Type} (s : Core α) (idx : List Nat) : Core α × List α :=
  (s, takeWrap s.data idx)

/-- `QueueBase.check_can_insert` on the host counter: `none` = `ValueError` -/
def checkCanInsert (cap host insertSize : Nat) : Option Nat :=
  if cap < insertSize then none else some (min cap (host + insertSize))

/-- `Queue.check_can_sample` on the host counter: `none` = `ValueError` -/
def queueCanSample (B : Nat) (cyclic : Bool) (host : Nat) : Option Nat :=
  if host < B then none else some (if cyclic then host else host - B)

/-- one buffer class: what differs between `Queue` and `UniformSamplingQueue` -/
structure Kind (α ι : Type) where
  cap : Nat
  sample : Core α → ι → Core α × List α
  canSample : Nat → Option Nat
  size : Core α → Int

def queueKind {α : Type} (cap B : Nat) (cyclic : Bool) : Kind α Unit where
  cap := cap
  sample := fun c _ => queueSampleInternal B cyclic c
  canSample := queueCanSample B cyclic
  size := queueSize cyclic

/-- `UniformSamplingQueue`: `check_can_sample` is the base-class `pass`; `size` is `QueueBase.size` -/
def uniformKind {α : Type} (cap : Nat) : Kind α (List Nat) where
  cap := cap
  sample := uniformSampleInternal
  canSample := some
  size := fun c => (c.ip : Int) - (c.sp : Int)

/-! ## `ReplayBuffer.insert` / `sample` (no wrapper) -/

structure Buf (α : Type) where
  core : Core α
  host : Nat
deriving DecidableEq, Repr

def Buf.init {α : Type} (cap : Nat) (z : α) : Buf α := ⟨Core.init cap z, 0⟩

def Buf.insert {α ι : Type} (K : Kind α ι) (b : Buf α) (xs : List α) : Outcome × Buf α :=
  match checkCanInsert K.cap b.host xs.length with
  | none => (.refuseInsert, b)
  | some h => (.ok, ⟨insertInternal b.core xs, h⟩)

def Buf.sample {α ι : Type} (K : Kind α ι) (b : Buf α) (aux : ι) : Outcome × Buf α × List α :=
  match K.canSample b.host with
  | none => (.refuseSample, b, [])
  | some h => (.ok, ⟨(K.sample b.core aux).1, h⟩, (K.sample b.core aux).2)

def Buf.step {α ι : Type} (K : Kind α ι) (b : Buf α) : Op α ι → Obs α × Buf α
  | .ins xs =>
    let r := b.insert K xs
    (⟨r.1, [], K.size r.2.core⟩, r.2)
  | .smp aux =>
    let r := b.sample K aux
    (⟨r.1, r.2.2, K.size r.2.1.core⟩, r.2.1)

def Buf.run {α ι : Type} (K : Kind α ι) : Buf α → List (Op α ι) → List (Obs α) × Buf α
  | b, [] => ([], b)
  | b, op :: ops =>
    ((b.step K op).1 :: (Buf.run K (b.step K op).2 ops).1, (Buf.run K (b.step K op).2 ops).2)

/-! ## `PmapWrapper` / `PjitWrapper` -/

/-- records of a batch that go to shard `d`: `reshape(-1, D)` then `swapaxes(0, 1)` gives
`shard d, slot i = xs[i * D + d]` -/
def dealAt {α : Type} (D d : Nat) (xs : List α) : List α :=
  (List.range (xs.length / D)).filterMap fun i => xs[i * D + d]?

def deal {α : Type} (D : Nat) (xs : List α) : List (List α) :=
  (List.range D).map fun d => dealAt D d xs

/-- `swapaxes(0, 1)` then `reshape(-1)` of per-shard batches: `out[i * D + d] = rows[d][i]` -/
def interleave {α : Type} (rows : List (List α)) : List α :=
  let B := match rows with
    | [] => 0
    | r :: _ => r.length
  (List.range (B * rows.length)).filterMap fun j =>
    (rows[j % rows.length]?).bind fun r => r[j / rows.length]?

structure ShBuf (α : Type) where
  shards : List (Core α)
  host : Nat
deriving DecidableEq, Repr

def ShBuf.init {α : Type} (cap D : Nat) (z : α) : ShBuf α := ⟨List.replicate D (Core.init cap z), 0⟩

def ShBuf.size {α ι : Type} (K : Kind α ι) (b : ShBuf α) : Int := (b.shards.map K.size).sum

def ShBuf.insert {α ι : Type} (K : Kind α ι) (b : ShBuf α) (xs : List α) : Outcome × ShBuf α :=
  let D := b.shards.length
  match checkCanInsert K.cap b.host (xs.length / D) with
  | none => (.refuseInsert, b)
  | some h =>
    -- wart: `_size` has already been updated when `reshape(-1, D)` raises
    if xs.length % D ≠ 0 then (.reshapeError, { b with host := h })
    else (.ok, ⟨List.zipWith insertInternal b.shards (deal D xs), h⟩)

def ShBuf.sample {α ι : Type} (K : Kind α ι) (b : ShBuf α) (aux : Nat → ι) :
    Outcome × ShBuf α × List α :=
  match K.canSample b.host with
  | none => (.refuseSample, b, [])
  | some h =>
    let rs := List.zipWith (fun c d => K.sample c (aux d)) b.shards (List.range b.shards.length)
    (.ok, ⟨rs.map (·.1), h⟩, interleave (rs.map (·.2)))

def ShBuf.step {α ι : Type} (K : Kind α ι) (b : ShBuf α) : Op α (Nat → ι) → Obs α × ShBuf α
  | .ins xs =>
    let r := b.insert K xs
    (⟨r.1, [], r.2.size K⟩, r.2)
  | .smp aux =>
    let r := b.sample K aux
    (⟨r.1, r.2.2, r.2.1.size K⟩, r.2.1)

def ShBuf.run {α ι : Type} (K : Kind α ι) :
    ShBuf α → List (Op α (Nat → ι)) → List (Obs α) × ShBuf α
  | b, [] => ([], b)
  | b, op :: ops =>
    ((b.step K op).1 :: (ShBuf.run K (b.step K op).2 ops).1, (ShBuf.run K (b.step K op).2 ops).2)

/-- the operation shard `d` sees of a wrapper-level operation -/
def projOp {α ι : Type} (D d : Nat) : Op α (Nat → ι) → Op α ι
  | .ins xs => .ins (dealAt D d xs)
  | .smp aux => .smp (aux d)

/-! ## reference machine for the wrappers: `D` independent guarded buffers

Every buffer has its own storage **and its own host counter**; shard `d` is handed `projOp D d op`.
The wrapper-level observation is assembled from the per-shard observations: the (common) outcome,
the interleaved batches, the sum of the sizes.  `Props/C17.sharded_eq_product` states that
`PmapWrapper`/`PjitWrapper` (one shared counter, `k // D`, reshape/swapaxes) behave exactly so. -/

def prodStep {α ι : Type} (K : Kind α ι) (D : Nat) (bs : List (Buf α)) (op : Op α (Nat → ι)) :
    List (Obs α × Buf α) :=
  List.zipWith (fun b d => b.step K (projOp D d op)) bs (List.range D)

def combineObs {α : Type} (rs : List (Obs α)) : Obs α :=
  ⟨match rs with
    | [] => .ok
    | r :: _ => r.outcome,
   interleave (rs.map (·.out)), (rs.map (·.size)).sum⟩

def prodRun {α ι : Type} (K : Kind α ι) (D : Nat) :
    List (Buf α) → List (Op α (Nat → ι)) → List (Obs α) × List (Buf α)
  | bs, [] => ([], bs)
  | bs, op :: ops =>
    (combineObs ((prodStep K D bs op).map (·.1)) ::
       (prodRun K D ((prodStep K D bs op).map (·.2)) ops).1,
     (prodRun K D ((prodStep K D bs op).map (·.2)) ops).2)

end Brax.C17
