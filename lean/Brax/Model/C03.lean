import Brax.Model.Dual
import Brax.Model.Kinematics
/-!
# C03 — lifting a `Sys Float` and a state to dual numbers (constants get zero tangent)
-/
namespace Brax.C03
open Brax

def c (x : Float) : Dual Float := ⟨x, 0⟩
def v3 (v : V3 Float) : V3 (Dual Float) := ⟨c v.x, c v.y, c v.z⟩
def q4 (q : Q4 Float) : Q4 (Dual Float) := ⟨c q.w, c q.x, c q.y, c q.z⟩
def tf (t : Tf Float) : Tf (Dual Float) := ⟨v3 t.pos, q4 t.rot⟩
def m3 (m : M3 Float) : M3 (Dual Float) := ⟨v3 m.r0, v3 m.r1, v3 m.r2⟩
def linkP (l : LinkP Float) : LinkP (Dual Float) :=
  ⟨tf l.tf, tf l.joint, ⟨tf l.inertia.tf, m3 l.inertia.i, c l.inertia.mass⟩, c l.invweight,
   c l.cStiffness, c l.cVelDamping, c l.cLimitStiffness, c l.cAngDamping⟩
def dofP (d : DofP Float) : DofP (Dual Float) :=
  ⟨⟨v3 d.motion.ang, v3 d.motion.vel⟩, c d.armature, c d.stiffness, c d.damping,
   d.lo.map c, d.hi.map c, c d.invweight⟩
def actP (a : ActP Float) : ActP (Dual Float) :=
  ⟨a.qId, a.qdId, a.ctrlLo.map c, a.ctrlHi.map c, a.forceLo.map c, a.forceHi.map c,
   c a.gain, c a.gear, c a.biasQ, c a.biasQd⟩
def sys (s : Sys Float) : Sys (Dual Float) :=
  { types := s.types, parents := s.parents, links := s.links.map linkP, dofs := s.dofs.map dofP,
    hasLimit := s.hasLimit, acts := s.acts.map actP, gravity := v3 s.gravity, dt := c s.dt,
    velDamping := c s.velDamping, angDamping := c s.angDamping, baumgarteErp := c s.baumgarteErp,
    springMassScale := c s.springMassScale, springInertiaScale := c s.springInertiaScale,
    jointScaleAng := c s.jointScaleAng, jointScalePos := c s.jointScalePos,
    collideScale := c s.collideScale }

/-- pair primal and tangent lists -/
def duals (x t : List Float) : List (Dual Float) := List.zipWith (fun a b => ⟨a, b⟩) x t

def tangents3 (v : V3 (Dual Float)) : List Float := [v.x.du, v.y.du, v.z.du]
def tangents4 (q : Q4 (Dual Float)) : List Float := [q.w.du, q.x.du, q.y.du, q.z.du]
def primals3 (v : V3 (Dual Float)) : List Float := [v.x.re, v.y.re, v.z.re]
def primals4 (q : Q4 (Dual Float)) : List Float := [q.w.re, q.x.re, q.y.re, q.z.re]

end Brax.C03
