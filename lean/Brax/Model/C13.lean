import Brax.Scalar
import Brax.Model.Math
/-!
# C13 — executable model of `brax/io/mjcf.py : _fuse_bodies / _offset / _transform_do`

No Mathlib.  Written over raw operator classes: runs at `Rat` in the driver, is instantiated
with an ordered field in `Brax/Props/C13.lean`.

The XML tree is reduced to what `_fuse_bodies` looks at:

* `body`   — tag `body`, optional `pos` / `quat` attributes, children;
* `leaf`   — tags `geom`, `site`, `camera`: placed either by optional `pos` / `quat` or by a
             `fromto` attribute (two end points; a `quat` next to it is carried untouched);
* `joint`  — tags `joint` / `freejoint` (what `child.find('joint')`, `child.find('freejoint')` see);
* `other`  — every other tag (`mujoco`, `worldbody`, `option`, `inertial`, `light`, …): never
             offset by the code (the `TODO` in `_fuse_bodies`), but recursed into.

What is *not* in the model (modelled, not verified): `ElementTree` parsing / printing,
`np.fromstring`, and the `'%f'` six-decimal printing of the numbers `_offset` writes back.
-/
set_option linter.unusedSectionVars false
namespace Brax.C13
open Brax

inductive Kind where
  | geom | site | camera
deriving DecidableEq, Repr

/-- how a `geom`/`site`/`camera` is placed -/
inductive Place (α : Type) where
  /-- by optional `pos` and `quat` attributes -/
  | pq (pos : Option (V3 α)) (quat : Option (Q4 α))
  /-- by a `fromto` attribute (`quat`, if written, is read by `_offset` but never changed) -/
  | fromto (a b : V3 α) (quat : Option (Q4 α))
deriving Repr, DecidableEq

inductive Elem (α : Type) where
  | body (name : String) (pos : Option (V3 α)) (quat : Option (Q4 α)) (children : List (Elem α))
  | leaf (kind : Kind) (name : String) (pl : Place α)
  | joint (free : Bool) (name : String)
  | other (tag : String) (children : List (Elem α))
deriving Repr

section structure_only
variable {α : Type}

def isJoint : Elem α → Bool
  | .joint _ _ => true
  | _ => false

/-- `child.find('joint') is not None or child.find('freejoint') is not None` -/
def hasJoint (cs : List (Elem α)) : Bool := cs.any isJoint

/-- `child.tag == 'body'` and no joint: the bodies `_fuse_bodies` removes -/
def isJointlessBody : Elem α → Bool
  | .body _ _ _ cs => !hasJoint cs
  | _ => false

end structure_only

section model
variable {α : Type} [Zero α] [One α] [Add α] [Sub α] [Mul α] [Neg α]

/-- `elem.attrib.get('pos', '0 0 0')` -/
def posD (p : Option (V3 α)) : V3 α := p.getD V3.zero
/-- `elem.attrib.get('quat', '1 0 0 0')` -/
def quatD (q : Option (Q4 α)) : Q4 α := q.getD Q4.one

/-- `mjcf._transform_do` (`math.rotate_np`, `math.quat_mul_np` are `Brax.rotate`, `Brax.quatMul`
by the bridge lemmas `C09.bridge_rotateNp`, `C09.bridge_quatMulNp`) -/
def transformDo (ppos : V3 α) (pquat : Q4 α) (pos : V3 α) (quat : Q4 α) : V3 α × Q4 α :=
  (ppos + rotate pos pquat, quatMul pquat quat)

/-- `_offset` on the placement attributes -/
def offsetPlace (ppos : V3 α) (pquat : Q4 α) : Place α → Place α
  | .pq pos quat =>
      let r := transformDo ppos pquat (posD pos) (quatD quat)
      .pq (some r.1) (some r.2)
  | .fromto a b quat =>
      -- both end points go through `_transform_do` with the *parent* pose; the element's own
      -- quat only enters the discarded second component
      .fromto (transformDo ppos pquat a (quatD quat)).1 (transformDo ppos pquat b (quatD quat)).1 quat

/-- `_offset(grandchild, cpos, cquat)` together with the tag test
`grandchild.tag in ('body', 'geom', 'site', 'camera')` -/
def offset (ppos : V3 α) (pquat : Q4 α) : Elem α → Elem α
  | .body n pos quat cs =>
      let r := transformDo ppos pquat (posD pos) (quatD quat)
      .body n (some r.1) (some r.2) cs
  | .leaf k n pl => .leaf k n (offsetPlace ppos pquat pl)
  | e => e

/-- the grandchildren a removed body hands to its parent, offset iff the guard `g` holds -/
def promote (g : V3 α → Q4 α → Bool) : Elem α → List (Elem α)
  | .body _ pos quat cs =>
      cs.map fun x => if g (posD pos) (quatD quat) then offset (posD pos) (quatD quat) x else x
  | _ => []

/-- the loop body of `_fuse_bodies` after the recursive calls: jointless body children are
removed (`elem.remove(child)`), their children are appended at the end (`elem.append`) -/
def merge (g : V3 α → Q4 α → Bool) (cs : List (Elem α)) : List (Elem α) :=
  cs.filter (fun c => !isJointlessBody c) ++ (cs.filter isJointlessBody).flatMap (promote g)

mutual
/-- `_fuse_bodies` with the offset guard as a parameter -/
def fuseWith (g : V3 α → Q4 α → Bool) : Elem α → Elem α
  | .body n p q cs => .body n p q (merge g (fuseListWith g cs))
  | .other t cs => .other t (merge g (fuseListWith g cs))
  | .leaf k n pl => .leaf k n pl
  | .joint f n => .joint f n
/-- `_fuse_bodies(child)` for every child (the first statement of the loop) -/
def fuseListWith (g : V3 α → Q4 α → Bool) : List (Elem α) → List (Elem α)
  | [] => []
  | c :: cs => fuseWith g c :: fuseListWith g cs
end

end model

section guards
variable {α : Type} [Zero α] [One α] [LT α] [DecidableLT α]

/-- `(v != 0).any()` -/
def anyNonzero (v : V3 α) : Bool := !eqZero v.x || !eqZero v.y || !eqZero v.z

/-- `(q != [1, 0, 0, 0]).any()` -/
def quatNotOne (q : Q4 α) : Bool := !eqR q.w 1 || !eqZero q.x || !eqZero q.y || !eqZero q.z

/-- **the guard of the pinned tree** (`brax/io/mjcf.py:94`): `(cpos != 0).any()` — it looks at
`cpos` only; a jointless body that carries just a rotation is fused without rotating its
contents (defect D5). -/
def guardPinned (cpos : V3 α) (_cquat : Q4 α) : Bool := anyNonzero cpos

/-- the guard of the candidate patch (`notes/candidate-fixes.diff`):
`(cpos != 0).any() or (cquat != [1, 0, 0, 0]).any()` -/
def guardFixed (cpos : V3 α) (cquat : Q4 α) : Bool := anyNonzero cpos || quatNotOne cquat

end guards

section entry
variable {α : Type} [Zero α] [One α] [Add α] [Sub α] [Mul α] [Neg α] [LT α] [DecidableLT α]

/-- `_fuse_bodies` as it is in the pinned tree -/
def fuse (e : Elem α) : Elem α := fuseWith guardPinned e
/-- `_fuse_bodies` with the candidate patch for D5 applied -/
def fuseFixed (e : Elem α) : Elem α := fuseWith guardFixed e

end entry

/-! ## measurements used by the driver (input distribution) -/
section stats
variable {α : Type} [Zero α] [One α] [Add α] [Sub α] [Mul α] [Neg α] [LT α] [DecidableLT α]

mutual
/-- number of jointless bodies below the root -/
def countJointless : Elem α → Nat
  | .body _ _ _ cs => countJointlessL cs
  | .other _ cs => countJointlessL cs
  | _ => 0
def countJointlessL : List (Elem α) → Nat
  | [] => 0
  | c :: cs => (if isJointlessBody c then 1 else 0) + countJointless c + countJointlessL cs
end

mutual
/-- number of jointless bodies below the root with `pos` zero/absent and a non-identity `quat` -/
def countRotOnly : Elem α → Nat
  | .body _ _ _ cs => countRotOnlyL cs
  | .other _ cs => countRotOnlyL cs
  | _ => 0
def countRotOnlyL : List (Elem α) → Nat
  | [] => 0
  | c :: cs =>
    (match c with
     | .body _ p q gs => if !hasJoint gs && !anyNonzero (posD p) && quatNotOne (quatD q) then 1 else 0
     | _ => 0) + countRotOnly c + countRotOnlyL cs
end

end stats

end Brax.C13
