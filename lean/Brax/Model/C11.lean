import Brax.Scalar
/-!
# C11 — model of `brax/actuator.py: to_tau` and of the actuator part of `brax/io/mjcf.py: load_model`

No Mathlib.  Everything is written over raw operator classes, so it runs at `Rat` in the driver
and is instantiated with a linear ordered field in `Brax/Props/C11.lean`.

* `Mj.Actuator`, `Mj.Model` : the fields of a compiled `mujoco.MjModel` the loader reads
  (they are the *input* of the loader; the MuJoCo reference rule over the same fields is
  `Brax/Spec/C11.lean`).
* `Act`                     : one row of `brax.base.Actuator`.  Range bounds are `Option α`:
  `none` is the infinite bound (`-inf` for a lower, `+inf` for an upper bound) the loader writes
  for an unlimited actuator.
* `Act.ofMj`                : `load_model`, lines "create actuators".
* `Act.toTau`               : `actuator.to_tau`.
-/
namespace Brax

namespace Mj

/-- per-actuator fields of `MjModel` read by `load_model` -/
structure Actuator (α : Type) where
  /-- `actuator_trntype == mjTRN_JOINT` -/
  trnJoint : Bool
  /-- `actuator_trnid[:, 0]` : joint id -/
  trnid : Nat
  /-- `actuator_gainprm[:, 0]` (gaintype fixed) -/
  gainprm0 : α
  /-- `actuator_biastype` : 0 none, 1 affine -/
  biastype : Nat
  biasprm0 : α
  biasprm1 : α
  biasprm2 : α
  /-- `actuator_gear[:, 0]` -/
  gear0 : α
  /-- `actuator_ctrllimited == 1` -/
  ctrllimited : Bool
  ctrlLo : α
  ctrlHi : α
  /-- `actuator_forcelimited == 1` -/
  forcelimited : Bool
  forceLo : α
  forceHi : α

/-- the part of a compiled `MjModel` the actuator code depends on -/
structure Model (α : Type) where
  nq : Nat
  nv : Nat
  /-- `jnt_type` : 0 free, 1 ball, 2 slide, 3 hinge -/
  jntType : List Nat
  jntQposadr : List Nat
  jntDofadr : List Nat
  acts : List (Actuator α)

variable {α : Type}

/-- `jnt_qposadr[trnid]` (numpy indexing raises when out of range: guarded by `Model.WF`) -/
def Model.qposadr (m : Model α) (a : Actuator α) : Nat := m.jntQposadr.getD a.trnid 0
/-- `jnt_dofadr[trnid]` -/
def Model.dofadr (m : Model α) (a : Actuator α) : Nat := m.jntDofadr.getD a.trnid 0

/-- What the MuJoCo compiler guarantees for a motor / position / velocity (or bias-free-constant
general) actuator with joint transmission on a hinge or slide joint; the property quantifies over
such models.  Checked by the driver on every correspondence input. -/
def Actuator.WF [Zero α] [LT α] [DecidableLT α] (m : Model α) (a : Actuator α) : Prop :=
  a.trnJoint = true ∧ a.trnid < m.jntType.length ∧
  (m.jntType.getD a.trnid 0 = 2 ∨ m.jntType.getD a.trnid 0 = 3) ∧
  m.qposadr a < m.nq ∧ m.dofadr a < m.nv ∧ a.biastype ≤ 1 ∧
  eqZero a.biasprm0 = true ∧
  (a.ctrllimited = true → ¬ a.ctrlHi < a.ctrlLo) ∧
  (a.forcelimited = true → ¬ a.forceHi < a.forceLo)

instance [Zero α] [LT α] [DecidableLT α] (m : Model α) (a : Actuator α) : Decidable (a.WF m) := by
  unfold Actuator.WF; infer_instance

def Model.WF [Zero α] [LT α] [DecidableLT α] (m : Model α) : Prop :=
  m.jntQposadr.length = m.jntType.length ∧ m.jntDofadr.length = m.jntType.length ∧
  ∀ a ∈ m.acts, a.WF m

instance [Zero α] [LT α] [DecidableLT α] (m : Model α) : Decidable m.WF := by
  unfold Model.WF; infer_instance

end Mj

/-- `jp.clip(x, lo, hi) = minimum(hi, maximum(lo, x))` where a bound may be infinite
(`none`: `-inf` as lower, `+inf` as upper bound).  Same order of comparisons as `Brax.clip`. -/
def clipO {α : Type} [LT α] [DecidableLT α] (x : α) (lo hi : Option α) : α :=
  let y := match lo with
    | none => x
    | some l => if x < l then l else x
  match hi with
  | none => y
  | some h => if h < y then h else y

/-- one row of `brax.base.Actuator` -/
structure Act (α : Type) where
  qId : Nat
  qdId : Nat
  /-- `ctrl_range[:, 0]`, `none` = `-inf` -/
  ctrlLo : Option α
  /-- `ctrl_range[:, 1]`, `none` = `+inf` -/
  ctrlHi : Option α
  forceLo : Option α
  forceHi : Option α
  gain : α
  gear : α
  biasQ : α
  biasQd : α

namespace Act
variable {α : Type}

/-! ## loader (`mjcf.load_model`, "create actuators") -/

/-- `range[~(limited == 1), :] = [-inf, inf]` -/
def range (limited : Bool) (lo hi : α) : Option α × Option α :=
  if limited then (some lo, some hi) else (none, none)

/-- one actuator row.  `bias_q = biasprm[:, 1] * (biastype != 0)` (bool × float), the constant
term `biasprm[:, 0]` is not read at all. -/
def ofMjActuator [Zero α] (m : Mj.Model α) (a : Mj.Actuator α) : Act α where
  qId := m.qposadr a
  qdId := m.dofadr a
  ctrlLo := (range a.ctrllimited a.ctrlLo a.ctrlHi).1
  ctrlHi := (range a.ctrllimited a.ctrlLo a.ctrlHi).2
  forceLo := (range a.forcelimited a.forceLo a.forceHi).1
  forceHi := (range a.forcelimited a.forceLo a.forceHi).2
  gain := a.gainprm0
  gear := a.gear0
  biasQ := if a.biastype ≠ 0 then a.biasprm1 else 0
  biasQd := if a.biastype ≠ 0 then a.biasprm2 else 0

/-- the actuator table: rows masked by `act_mask = (trntype == mjTRN_JOINT)` -/
def ofMj [Zero α] (m : Mj.Model α) : List (Act α) :=
  (m.acts.filter (·.trnJoint)).map (ofMjActuator m)

/-! ## `to_tau` -/

/-- `x[i]` of jax for a constant non-negative index: out-of-range indices are clamped to the
last element (verified on jax 0.11; the loader only produces in-range indices) -/
def gather [Zero α] (xs : List α) (i : Nat) : α := xs.getD (min i (xs.length - 1)) 0

/-- `jp.zeros(n)` -/
def zeros [Zero α] (n : Nat) : List α := List.replicate n 0

/-- `tau.at[i].add(f)` for one index: dropped when `i ≥ len(tau)` -/
def addAt [Add α] : List α → Nat → α → List α
  | [], _, _ => []
  | x :: xs, 0, f => (x + f) :: xs
  | x :: xs, i + 1, f => x :: addAt xs i f

/-- `tau.at[ids].add(fs)` : scatter-add, duplicates accumulate -/
def scatterAll [Add α] : List α → List Nat → List α → List α
  | tau, i :: is, f :: fs => scatterAll (addAt tau i f) is fs
  | tau, _, _ => tau

/-- actuator force before the gear is applied to the output:
```
act   = jp.clip(act, ctrl_range[:, 0], ctrl_range[:, 1])
bias  = gear * (q * bias_q + qd * bias_qd)
force = jp.clip(gain * act + bias, force_range[:, 0], force_range[:, 1])
```
`q`, `qd` are the already gathered `q[q_id]`, `qd[qd_id]`. -/
def force [Add α] [Mul α] [LT α] [DecidableLT α] (a : Act α) (u q qd : α) : α :=
  let c := clipO u a.ctrlLo a.ctrlHi
  let bias := a.gear * (q * a.biasQ + qd * a.biasQd)
  clipO (a.gain * c + bias) a.forceLo a.forceHi

/-- `force *= gear` : what actuator `a` adds to `tau[a.qdId]` -/
def out [Zero α] [Add α] [Mul α] [LT α] [DecidableLT α] (a : Act α) (q qd : List α) (u : α) : α :=
  a.force u (gather q a.qId) (gather qd a.qdId) * a.gear

/-- `actuator.to_tau(sys, act, q, qd)` with `nv = sys.qd_size()`, `acts = sys.actuator`
(`sys.act_size() = len(acts)` for every model whose actuators all have joint transmission).
`u` must have one entry per actuator (the real code fails to broadcast otherwise; the driver
rejects such input). -/
def toTau [Zero α] [Add α] [Mul α] [LT α] [DecidableLT α]
    (nv : Nat) (acts : List (Act α)) (u q qd : List α) : List α :=
  if acts.length = 0 then zeros nv
  else scatterAll (zeros nv) (acts.map (·.qdId)) (List.zipWith (fun a uk => a.out q qd uk) acts u)

end Act
end Brax
