import Brax.Scalar
/-!
# C19 — executable model of `compute_gae` (brax/training/agents/ppo/losses.py)

One batch member (`[T]` slices of the `[T, B]` arrays) is a quadruple of lists
`truncation termination rewards values` plus the scalar `bootstrap_value`.  The model follows
the source (and its jaxpr) line by line, with the same association of the products:

```
truncation_mask = 1 - truncation
values_t_plus_1 = concatenate([values[1:], [bootstrap_value]])
deltas          = (rewards + discount * (1 - termination) * values_t_plus_1 - values) * truncation_mask
scan (reverse)  : acc = delta + discount * (1 - termination) * truncation_mask * lambda_ * acc   (acc₀ = 0)
vs              = vs_minus_v_xs + values
vs_t_plus_1     = concatenate([vs[1:], [bootstrap_value]])
advantages      = (rewards + discount * (1 - termination) * vs_t_plus_1 - values) * truncation_mask
```

`stop_gradient` is the identity on values (the "no gradient" clause is tied in the harness).
Every operation of the source is elementwise along the batch axis (the scan carry included), so
the `[T, B]` function is `gae` mapped over the batch members (`gaeBatch`).

The model is total: on lists of unequal length `zipWith` truncates where jax would raise a shape
error.  The theorems assume `WF T …` (all four lists have length `T`, which is what the `[T, B]`
shape says) and the driver rejects anything else with `bad-args`.

No Mathlib.
-/
namespace Brax.C19

section
variable {α : Type} [Zero α] [One α] [Add α] [Sub α] [Mul α]

/-- `jnp.concatenate([x[1:], jnp.expand_dims(b, 0)], axis=0)` for one batch member. -/
def shiftIn (xs : List α) (b : α) : List α := xs.tail ++ [b]

/-- `(rewards + discount * (1 - termination) * next - values) * truncation_mask`, in the order of
the jaxpr: `n = discount * (1 - termination); o = n * next; p = rewards + o; q = p - values;
r = q * truncation_mask`. -/
def tdErr (disc : α) (term rew next val mask : List α) : List α :=
  List.zipWith (· * ·)
    (List.zipWith (· - ·)
      (List.zipWith (· + ·) rew
        (List.zipWith (· * ·) ((term.map fun te => 1 - te).map fun x => disc * x) next))
      val)
    mask

/-- `jax.lax.scan(compute_vs_minus_v_xs, (lambda_, acc₀), (truncation_mask, deltas, termination),
reverse=True)`: returns the final carry and the stacked outputs.  The step is
`acc = delta + discount * (1 - termination) * truncation_mask * lambda_ * acc`. -/
def scanRev (lam disc acc0 : α) : List α → List α → List α → α × List α
  | m :: ms, d :: ds, te :: tes =>
      let r := scanRev lam disc acc0 ms ds tes
      let acc := d + disc * (1 - te) * m * lam * r.1
      (acc, acc :: r.2)
  | _, _, _ => (acc0, [])

/-- `compute_gae` for one batch member: `(vs, advantages)`. -/
def gae (lam disc : α) (trunc term rew val : List α) (boot : α) : List α × List α :=
  let mask := trunc.map fun tr => 1 - tr
  let deltas := tdErr disc term rew (shiftIn val boot) val mask
  let accs := (scanRev lam disc 0 mask deltas term).2
  let vs := List.zipWith (· + ·) accs val
  let adv := tdErr disc term rew (shiftIn vs boot) val mask
  (vs, adv)

end

/-- the `[T]` shape condition of one batch member -/
def WF {α : Type} (T : Nat) (trunc term rew val : List α) : Prop :=
  trunc.length = T ∧ term.length = T ∧ rew.length = T ∧ val.length = T

instance {α : Type} (T : Nat) (trunc term rew val : List α) : Decidable (WF T trunc term rew val) := by
  unfold WF; infer_instance

/-- one batch member of the inputs of `compute_gae` -/
structure Traj (α : Type) where
  trunc : List α
  term : List α
  rew : List α
  val : List α
  boot : α

section
variable {α : Type} [Zero α] [One α] [Add α] [Sub α] [Mul α]

def Traj.gae (lam disc : α) (x : Traj α) : List α × List α :=
  C19.gae lam disc x.trunc x.term x.rew x.val x.boot

/-- the `[T, B]` function: every operation of the source is elementwise along the batch axis -/
def gaeBatch (lam disc : α) (xs : List (Traj α)) : List (List α × List α) :=
  xs.map (Traj.gae lam disc)

end
end Brax.C19
