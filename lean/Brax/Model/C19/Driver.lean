import Brax.Model.C19
import Brax.Spec.C19
import Brax.Model.Wire
/-!
# C19 — line-protocol step of the driver (exact rationals)

```
C19.gae  T B lam disc  trunc[T*B] term[T*B] rew[T*B] val[T*B] boot[B]     model  (Model/C19.lean)
C19.spec T B lam disc  …same…                                             defining sum (Spec/C19.lean)
```
Arrays are time-major as in brax (`x[t, b]` at position `t*B + b`).  Answer: `vs[T*B] adv[T*B]`,
time-major.  Anything else: `bad-op` / `bad-args`.
-/
namespace Brax.C19

/-- `n` rows of width `B` from a flat row-major list -/
def rowsOf {α : Type} (B : Nat) : Nat → List α → List (List α)
  | 0, _ => []
  | n + 1, xs => xs.take B :: rowsOf B n (xs.drop B)

/-- column `b` of a list of rows (rows are validated to have width `B > b` by the caller) -/
def column {α : Type} (rows : List (List α)) (b : Nat) : List α := rows.filterMap (·[b]?)

def parseCase (ts : List String) : Option (Nat × Nat × Rat × Rat × List (Traj Rat)) := do
  let (tb, ts) ← takeVals (α := Nat) 2 ts
  let T := tb.getD 0 0
  let B := tb.getD 1 0
  let (ld, ts) ← takeVals (α := Rat) 2 ts
  let lam ← ld[0]?
  let disc ← ld[1]?
  let (tr, ts) ← takeVals (α := Rat) (T * B) ts
  let (te, ts) ← takeVals (α := Rat) (T * B) ts
  let (rw, ts) ← takeVals (α := Rat) (T * B) ts
  let (vl, ts) ← takeVals (α := Rat) (T * B) ts
  let (bo, ts) ← takeVals (α := Rat) B ts
  if !ts.isEmpty then none
  let trR := rowsOf B T tr
  let teR := rowsOf B T te
  let rwR := rowsOf B T rw
  let vlR := rowsOf B T vl
  let members ← (List.range B).mapM fun b => do
    let boot ← bo[b]?
    let x : Traj Rat := ⟨column trR b, column teR b, column rwR b, column vlR b, boot⟩
    if decide (WF T x.trunc x.term x.rew x.val) then some x else none
  pure (T, B, lam, disc, members)

def renderOut (T : Nat) (outs : List (List Rat × List Rat)) : String :=
  if outs.all (fun o => o.1.length == T && o.2.length == T) then
    let vs := (List.range T).flatMap fun t => column (outs.map (·.1)) t
    let adv := (List.range T).flatMap fun t => column (outs.map (·.2)) t
    renderVals (vs ++ adv)
  else "bad-args"

def driverStep (line : String) : String :=
  match tokens line with
  | "C19.gae" :: ts =>
    match parseCase ts with
    | some (T, _, lam, disc, xs) => renderOut T (gaeBatch lam disc xs)
    | none => "bad-args"
  | "C19.spec" :: ts =>
    match parseCase ts with
    | some (T, _, lam, disc, xs) =>
      renderOut T (xs.map fun x => Spec.gae lam disc x.trunc x.term x.rew x.val x.boot)
    | none => "bad-args"
  | _ => "bad-op"

end Brax.C19
