import Brax.Model.Spring
/-!
# Model of the positional (PBD) pipeline:
`brax/positional/{base,joints,collisions,integrator,pipeline}.py`

Reusable model file (no Mathlib; raw operator classes).  Transcription of the code as it is.

* `State`, `State.WF` — `positional.base.State`;
* `damp`, `jointForces`, `accelerationUpdate` — `joints.acceleration_update`: the joint-frame force is
  `Σ tau_k·motion_k − damping·jd`; its assembly is verbatim `Spring.assemble`;
* `Axis3`, `sphericalize`, `limitAngle`, `threeDofJointUpdate` — `joints._sphericalize` (every link
  padded to three axes) and `joints._three_dof_joint_update` (joint-frame displacement `d_j`);
* `DTf` — a *delta* transform (`Transform` used additively: position delta + quaternion delta);
* `translationUpdate`, `rotationUpdate` — `joints._translation_update`, `joints._rotation_update`;
* `positionAssemble` — the **assembly** part of `joints.position_update` for an arbitrary per-link
  world displacement `d_w` (child gets `+p·mass_inv_c`, parent `−p·mass_inv_p` through
  `segment_sum`; a world parent has `mass_inv_p = 0` and its row is dropped);
  `positionUpdate = positionAssemble ∘ (rotate by a_p) ∘ threeDofJointUpdate`;
* `integrateXdd`, `projectXd`, `integrateXdv` — `integrator.integrate_xdd/project_xd/integrate_xdv`;
* `translate`, `resolvePosition`, `velImpulse`, `resolveVelocity` — `collisions.resolve_position`,
  `collisions.resolve_velocity`, contacts passed in as data;
* `init`, `step` — `pipeline.init`, `pipeline.step` (`kinematics.inverse` and `contact.get` are
  parameters, `sys.enable_fluid` is taken to be false).

**Defects of the pinned tree and how they are modelled** (they belong to C06; see
`notes/C04.md` for what changes when the fixes land):

* D3 — FIXED in `/repo` (commit ce5b080) and in this model: `resolvePosition` with no contact pair
  (`cs = []`, python `contact is None`) renormalises the quaternions that `positionUpdate` has just
  changed additively; before the fix it returned `state.x_i` unchanged;
* D4 — FIXED in `/repo` (commit 0130879) and in this model: `sphericalize` freezes the unused axes
  of a 1- or 2-dof link at `(0, 0)` also when `dof.limit is None` (`hasLimit = false`); before the
  fix that branch padded them with `(-inf, inf)`.
-/
set_option linter.unusedSectionVars false
namespace Brax
namespace Positional
open MC

/-- `brax.positional.base.State` (without `contact`) -/
structure State (α : Type) where
  q : List α
  qd : List α
  x : List (Tf α)
  xd : List (Motion α)
  x_i : List (Tf α)
  xd_i : List (Motion α)
  j : List (Tf α)
  jd : List (Motion α)
  a_p : List (Tf α)
  a_c : List (Tf α)
  mass : List α

/-- shape guard -/
def State.WF {α : Type} (s : Sys α) (st : State α) : Bool :=
  let n := s.numLinks
  st.q.length == s.nq && st.qd.length == s.nv
  && st.x.length == n && st.xd.length == n && st.x_i.length == n && st.xd_i.length == n
  && st.j.length == n && st.jd.length == n && st.a_p.length == n && st.a_c.length == n
  && st.mass.length == n

/-- a transform used additively (`state.x_i + dp_c + dp_p`, `Transform * scale`) -/
structure DTf (α : Type) where
  pos : V3 α
  rot : Q4 α
deriving Repr

section dtf
variable {α : Type} [Zero α] [Add α] [Mul α]
instance instZeroDTf : Zero (DTf α) := ⟨⟨0, 0⟩⟩
instance instAddDTf : Add (DTf α) := ⟨fun a b => ⟨a.pos + b.pos, a.rot + b.rot⟩⟩
instance instInhDTf : Inhabited (DTf α) := ⟨0⟩
/-- `Transform * s` -/
def DTf.smul (s : α) (d : DTf α) : DTf α :=
  ⟨⟨d.pos.x * s, d.pos.y * s, d.pos.z * s⟩, ⟨d.rot.w * s, d.rot.x * s, d.rot.y * s, d.rot.z * s⟩⟩
/-- `x_i + d` -/
def addDelta (t : Tf α) (d : DTf α) : Tf α := ⟨t.pos + d.pos, t.rot + d.rot⟩
end dtf

/-! ## acceleration level -/
section accel
variable {α : Type} [Zero α] [One α] [Add α] [Sub α] [Mul α] [Neg α]

/-- `_damp(link, jd, dof, tau)` of `joints.acceleration_update`:
```
vel = sum(tau_k · motion_k.vel); ang = sum(tau_k · motion_k.ang)
ang -= constraint_ang_damping · jd.ang; vel -= constraint_vel_damping · jd.vel
``` -/
def damp (lk : LinkP α) (jd : Motion α) (dofs : List (DofP α)) (tau : List α) : Force α :=
  let vel := sumV (List.zipWith (fun t d => V3.smul t d.motion.vel) tau dofs)
  let ang := sumV (List.zipWith (fun t d => V3.smul t d.motion.ang) tau dofs)
  ⟨ang - V3.smul lk.cAngDamping jd.ang, vel - V3.smul lk.cVelDamping jd.vel⟩

/-- `jf = scan.link_types(sys, j_fn, 'lldd', 'l', link, jd, dof, tau)` -/
def jointForces (s : Sys α) (jd : List (Motion α)) (tau : List α) : List (Force α) :=
  let ins := Kin.linkSlices s.types ([] : List α) tau s.dofs
  tab s.numLinks fun i =>
    match ins[i]? with
    | some l =>
      match l.typ with
      | .free => ⟨0, 0⟩
      | _ => damp (nth s.links i) (nth jd i) l.dofs l.qd
    | none => ⟨0, 0⟩

/-- `joints.acceleration_update(sys, state, tau)` -/
def accelerationUpdate (s : Sys α) (st : State α) (tau : List α) : List (Force α) :=
  Spring.assemble s.parents st.a_p st.a_c st.x_i (jointForces s st.jd tau)

end accel

/-! ## position level: joint displacement in the joint frame -/
section jointUpdate
variable {α : Type} [Zero α] [One α] [Add α] [Sub α] [Mul α] [Neg α] [Div α]
  [LT α] [DecidableLT α] [LE α] [DecidableLE α] [OfScientific α] [HasSqrt α] [HasTrig α]

/-- one of the three axes of a sphericalized link: limit (an infinite bound is `none`) and motion -/
structure Axis3 (α : Type) where
  lo : Option α
  hi : Option α
  motion : Motion α

/-- `_sphericalize(sys, j)` for one link: three padded axes and the joint frame.
`pad_free`: limits `(-inf, inf)`, motion and frame `eye(3)`, parity 1.
`pad_x_dof`: the link's own dofs (limits `dof.limit`, or `(-inf, inf)` when `dof.limit is None`),
then `3 - x` zero motions frozen at the limits `(0, 0)` in both cases (this is the code after the
`fix:` commit 0130879 for defect D4; before it the `None` branch padded with `(-inf, inf)`). -/
def sphericalize (hasLimit : Bool) (l : Kin.LinkIn α) : List (Axis3 α) × JointFrame α :=
  match l.typ with
  | .free =>
    ([⟨none, none, ⟨⟨1, 0, 0⟩, ⟨1, 0, 0⟩⟩⟩, ⟨none, none, ⟨⟨0, 1, 0⟩, ⟨0, 1, 0⟩⟩⟩,
      ⟨none, none, ⟨⟨0, 0, 1⟩, ⟨0, 0, 1⟩⟩⟩], ⟨eye, eye, 1⟩)
  | _ =>
    let own : List (Axis3 α) := l.dofs.map fun d =>
      if hasLimit then ⟨d.lo, d.hi, d.motion⟩ else ⟨none, none, d.motion⟩
    let padAxis : Axis3 α := ⟨some 0, some 0, ⟨0, 0⟩⟩
    let fr := match linkToJointFrame (l.dofs.map (·.motion)) with
      | some f => f
      | none => ⟨eye, eye, 1⟩   -- excluded by `Sys.WF` (1–3 dofs)
    (own ++ List.replicate (3 - own.length) padAxis, fr)

/-- `limit_angle(n, n_1, n_2, motion, limit, ang_limit)` of `_three_dof_joint_update`; the
`padded_ang_limit` (`(0,0)` on prismatic axes) is computed here -/
def limitAngle (xpos : V3 α) (n n1 n2 : V3 α) (a : Axis3 α) : V3 α × V3 α :=
  let active := v3Any a.motion.vel
  let alo : Option α := if active then some 0 else a.lo
  let ahi : Option α := if active then some 0 else a.hi
  let ph := clipO (signedAngle n n1 n2) alo ahi
  let fixrot := quatRotAxis n ph
  let n1' := rotate n1 fixrot
  let dq := V3.cross n1' n2
  let xp := V3.dot a.motion.vel xpos
  let dx := xp - clipO xp a.lo a.hi
  (dq, maskV active (V3.smul dx a.motion.vel))

/-- `_three_dof_joint_update(x, limit, motion, joint_frame, parity)`: `(dx, dq)`.
(`if limit:` tests a non-empty tuple and is always true.) -/
def threeDofJointUpdate (x : Tf α) (axes : List (Axis3 α)) (fr : JointFrame α) : V3 α × V3 α :=
  let aa := axisAngleAng x fr.ang fr.parity
  let c0 := aa.axis.r0
  let c1 := aa.axis.r1
  let c2 := aa.axis.r2
  let p0 := fr.ang.r0
  let p1 := fr.ang.r1
  let lon := aa.lineOfNodes
  let d0 := V3.dot p0 c0
  let d1 := V3.dot p0 c1
  let a1 := normalize3 (V3.smul d0 c0 + V3.smul d1 c1)
  let a2n := normalize3 (V3.cross a1 p0)
  -- `sign(dot(axis_p[0], axis_c[2])) * parity` (`axis_c[2]` carries the parity, the angle it is
  -- compared with does not: `fix:` commit f5f04c1, defect D7)
  let sg := signv (V3.dot p0 c2) * fr.parity
  let limitAxes : List (V3 α) := [p0, V3.smul sg (-a2n), c2]
  let ref1 : List (V3 α) := [p1, p0, lon]
  let ref2 : List (V3 α) := [lon, a1, c1]
  let res := (List.range 3).map fun k =>
    limitAngle x.pos (nth limitAxes k) (nth ref1 k) (nth ref2 k)
      (axes.getD k ⟨none, none, ⟨0, 0⟩⟩)
  -- positional constraints; remove components along free prismatic axes (coordinate-wise mask)
  let anyX := axes.any fun a => !(eqZero a.motion.vel.x)
  let anyY := axes.any fun a => !(eqZero a.motion.vel.y)
  let anyZ := axes.any fun a => !(eqZero a.motion.vel.z)
  let dx0 : V3 α := -x.pos
  let dx : V3 α := ⟨maskS (!anyX) dx0.x, maskS (!anyY) dx0.y, maskS (!anyZ) dx0.z⟩
  let dq := V3.smul (-1) (sumV (res.map (·.1)))
  (dx - sumV (res.map (·.2)), dq)

end jointUpdate

/-! ## position level: PBD updates and their assembly -/
section pbd
variable {α : Type} [Zero α] [One α] [Add α] [Sub α] [Mul α] [Neg α] [Div α]
  [LT α] [DecidableLT α] [LE α] [DecidableLE α] [OfScientific α] [HasSqrt α]

/-- `s · vec_quat_mul(v, q)` -/
def halfVq (s : α) (v : V3 α) (q : Q4 α) : Q4 α := Q4.smul s (vecQuatMul v q)

/-- `_translation_update(pos_p, xi_p, i_inv_p, mass_inv_p, pos_c, xi_c, i_inv_c, mass_inv_c, dx)`:
`(parent delta, child delta)` -/
def translationUpdate (a_p xi_p : Tf α) (iInvP : M3 α) (massInvP : α) (a_c xi_c : Tf α)
    (iInvC : M3 α) (massInvC : α) (dx : V3 α) : DTf α × DTf α :=
  let pp := a_p.pos - xi_p.pos
  let pc := a_c.pos - xi_c.pos
  let n := normalize3 dx
  let c := safeNorm3 dx
  let cr1 := V3.cross pp n
  let cr2 := V3.cross pc n
  let w1 := massInvP + V3.dot cr1 (M3.mulVec iInvP cr1)
  let w2 := massInvC + V3.dot cr2 (M3.mulVec iInvC cr2)
  let dlambda := -c / (w1 + w2 + 1e-6)
  let p := V3.smul dlambda n
  let rotP := halfVq (-0.5) (M3.mulVec iInvP (V3.cross pp p)) xi_p.rot
  let rotC := halfVq 0.5 (M3.mulVec iInvC (V3.cross pc p)) xi_c.rot
  (⟨V3.smul massInvP (-p), rotP⟩, ⟨V3.smul massInvC p, rotC⟩)

/-- `_rotation_update(xi_p, i_inv_p, xi_c, i_inv_c, dq)` -/
def rotationUpdate (xi_p : Tf α) (iInvP : M3 α) (xi_c : Tf α) (iInvC : M3 α) (dq : V3 α) :
    DTf α × DTf α :=
  let n := normalize3 dq
  let th := safeNorm3 dq
  let w1 := V3.dot n (M3.mulVec iInvP n)
  let w2 := V3.dot n (M3.mulVec iInvC n)
  let dlambda := -th / (w1 + w2 + 1e-6)
  let p := V3.smul (-dlambda) n
  (⟨0, halfVq (-0.5) (M3.mulVec iInvP p) xi_p.rot⟩, ⟨0, halfVq 0.5 (M3.mulVec iInvC p) xi_c.rot⟩)

/-- the tail of `joints.position_update` for an arbitrary per-link world displacement
`dw[i] = (d_w.pos, d_w.rot)`:
```
xi_p = x_i.concatenate(Transform.zero((1,))).take(p_idx)
i_inv_p = i_inv[p_idx] * (p_idx > -1);  mass_inv_p = mass_inv[p_idx] * (p_idx > -1)
dp_p_pos, dp_c_pos = vmap(_translation_update)(a_p, xi_p, …, a_c, x_i, …, -d_w.pos)
dp_p_ang, dp_c_ang = vmap(_rotation_update)(xi_p, i_inv_p, x_i, i_inv, d_w.rot)
dp_c = dp_c_pos * joint_scale_pos + dp_c_ang * joint_scale_ang   (same for dp_p)
dp_p = segment_sum(dp_p, p_idx, num_links)
return x_i + dp_c + dp_p
``` -/
def positionAssemble (parents : List Int) (scalePos scaleAng : α) (a_p a_c x_i : List (Tf α))
    (iInv : List (M3 α)) (massInv : List α) (dw : List (V3 α × V3 α)) : List (Tf α) :=
  let n := parents.length
  let upd := fun i =>
    let p := parents.getD i (-1)
    let inb := decide (-1 < p)
    let xiP := Kin.takeParent x_i default p
    let iInvP := maskM inb (takeWrap iInv p)
    let massInvP := maskS inb (massInv.getD (p % (massInv.length : Int)).toNat 0)
    let d := nth dw i
    let t := translationUpdate (nth a_p i) xiP iInvP massInvP (nth a_c i) (nth x_i i) (nth iInv i)
      (nthS massInv i) (-d.1)
    let r := rotationUpdate xiP iInvP (nth x_i i) (nth iInv i) d.2
    (DTf.smul scalePos t.1 + DTf.smul scaleAng r.1, DTf.smul scalePos t.2 + DTf.smul scaleAng r.2)
  let dpP := segmentSum (tab n fun i => (upd i).1) parents n
  tab n fun i => addDelta (addDelta (nth x_i i) (upd i).2) (nth dpP i)

end pbd

section posUpdate
variable {α : Type} [Zero α] [One α] [Add α] [Sub α] [Mul α] [Neg α] [Div α]
  [LT α] [DecidableLT α] [LE α] [DecidableLE α] [OfScientific α] [HasSqrt α] [HasTrig α] [HasPow α]

/-- `1 / (sys.link.inertia.mass ** (1 - sys.spring_mass_scale))` -/
def massInv (s : Sys α) : List α := (effMass s).map fun m => 1 / m

/-- the per-link world displacement of `joints.position_update`:
`d_j = _three_dof_joint_update(j, *_sphericalize(sys, j))`, zeroed for free links, rotated by
`a_p.rot` -/
def jointDisplacements (s : Sys α) (j a_p : List (Tf α)) : List (V3 α × V3 α) :=
  let ins := Kin.linkSlices s.types ([] : List α) [] s.dofs
  tab s.numLinks fun i =>
    match ins[i]? with
    | some l =>
      let sp := sphericalize s.hasLimit l
      let dj := threeDofJointUpdate (nth j i) sp.1 sp.2
      let notFree := l.typ != .free
      let dj : V3 α × V3 α := (maskV notFree dj.1, maskV notFree dj.2)
      (rotate dj.1 (nth a_p i).rot, rotate dj.2 (nth a_p i).rot)
    | none => (0, 0)

/-- `joints.position_update(sys, state)` -/
def positionUpdate (s : Sys α) (st : State α) : List (Tf α) :=
  let w := Kin.worldToJoint s st.x st.xd
  let j := w.map (·.1)
  let a_p := w.map (·.2.2.1)
  let a_c := w.map (·.2.2.2)
  positionAssemble s.parents s.jointScalePos s.jointScaleAng a_p a_c st.x_i
    (Com.invInertia s st.x) (massInv s) (jointDisplacements s j a_p)

end posUpdate

/-! ## integrator -/
section integrate
variable {α : Type} [Zero α] [One α] [Add α] [Sub α] [Mul α] [Neg α] [Div α]
  [LT α] [DecidableLT α] [LE α] [DecidableLE α] [OfScientific α] [HasSqrt α] [HasExp α]

/-- `integrator.integrate_xdv(sys, xd, xdv)` -/
def integrateXdv (s : Sys α) (xd xdv : List (Motion α)) : List (Motion α) :=
  let dv := HasExp.exp (s.velDamping * s.dt)
  let da := HasExp.exp (s.angDamping * s.dt)
  tab s.numLinks fun i =>
    ⟨V3.smul da (nth xd i).ang + (nth xdv i).ang, V3.smul dv (nth xd i).vel + (nth xdv i).vel⟩

/-- one link of `integrator.integrate_xdd` -/
def integrateXddLink (s : Sys α) (x : Tf α) (xd xdd : Motion α) : Tf α × Motion α :=
  let dv := HasExp.exp (s.velDamping * s.dt)
  let da := HasExp.exp (s.angDamping * s.dt)
  let xd1 : Motion α := ⟨xd.ang + V3.smul s.dt xdd.ang, xd.vel + V3.smul s.dt xdd.vel⟩
  let xd2 : Motion α := ⟨V3.smul da xd1.ang, V3.smul dv xd1.vel⟩
  let aq := angToQuat xd2.ang
  let h : α := 0.5
  let raq : Q4 α := ⟨aq.w * h * s.dt, aq.x * h * s.dt, aq.y * h * s.dt, aq.z * h * s.dt⟩
  (⟨x.pos + V3.smul s.dt xd2.vel, normalize4 (x.rot + quatMul raq x.rot)⟩, xd2)

/-- `integrator.integrate_xdd(sys, x, xd, xdd)` -/
def integrateXdd (s : Sys α) (x : List (Tf α)) (xd xdd : List (Motion α)) :
    List (Tf α) × List (Motion α) :=
  let r := fun i => integrateXddLink s (nth x i) (nth xd i) (nth xdd i)
  (tab s.numLinks fun i => (r i).1, tab s.numLinks fun i => (r i).2)

/-- `integrator.project_xd(sys, x, x_prev)`:
```
vel = (x.pos - x_prev.pos) / dt
dq = relative_quat(x_prev.rot, x.rot);  ang = 2 · dq[1:] / dt · where(dq[0] >= 0, 1, -1)
``` -/
def projectXd (s : Sys α) (x xPrev : List (Tf α)) : List (Motion α) :=
  tab s.numLinks fun i =>
    let a := nth x i
    let b := nth xPrev i
    let d := a.pos - b.pos
    let dq := relativeQuat b.rot a.rot
    let two : α := 2.0
    let sc : α := if 0 ≤ dq.w then 1 else -1
    ⟨⟨sc * (two * dq.x / s.dt), sc * (two * dq.y / s.dt), sc * (two * dq.z / s.dt)⟩,
     ⟨d.x / s.dt, d.y / s.dt, d.z / s.dt⟩⟩

end integrate

/-! ## collisions -/
section collide
variable {α : Type} [Zero α] [One α] [Add α] [Sub α] [Mul α] [Neg α] [Div α]
  [LT α] [DecidableLT α] [LE α] [DecidableLE α] [OfScientific α] [HasSqrt α] [HasF32 α]

/-- `jp.where(jp.isnan(x), 0.0, x)` (never NaN at an ordered field) -/
def nanToZero (x : α) : α := if x ≤ x then x else 0
def nanToZeroD (d : DTf α) : DTf α :=
  ⟨⟨nanToZero d.pos.x, nanToZero d.pos.y, nanToZero d.pos.z⟩,
   ⟨nanToZero d.rot.w, nanToZero d.rot.x, nanToZero d.rot.y, nanToZero d.rot.z⟩⟩

/-- `translate(contact)` of `collisions.resolve_position`: `(dp_p, dp_c, dlambda·coll_mask)` -/
def translate (collideScale : α) (x_i xPrev : List (Tf α)) (invInertia : List (M3 α))
    (invMass : List α) (c : Contact α) : DTf α × DTf α × α :=
  let in1 := decide (-1 < c.link1)
  let in2 := decide (-1 < c.link2)
  let x1 := Kin.takeParent x_i default c.link1
  let x2 := Kin.takeParent x_i default c.link2
  let xp1 := Kin.takeParent xPrev default c.link1
  let xp2 := Kin.takeParent xPrev default c.link2
  let n := -c.normal
  let dist := c.dist
  let two : α := 2.0
  let half := V3.smul dist n
  let half : V3 α := ⟨half.x / two, half.y / two, half.z / two⟩
  let posP := c.pos + half - x1.pos
  let posC := c.pos - half - x2.pos
  let ii1 := maskM in1 (takeWrap invInertia c.link1)
  let ii2 := maskM in2 (takeWrap invInertia c.link2)
  let mi1 := maskS in1 (invMass.getD (c.link1 % (invMass.length : Int)).toNat 0)
  let mi2 := maskS in2 (invMass.getD (c.link2 % (invMass.length : Int)).toNat 0)
  -- only spherical inertia effects
  let cr1 := V3.cross posP n
  let cr2 := V3.cross posC n
  let w1 := mi1 + V3.dot cr1 (M3.mulVec ii1 cr1)
  let w2 := mi2 + V3.dot cr2 (M3.mulVec ii2 cr2)
  let dlambda := -dist / (w1 + w2 + 1e-6)
  let collMask := decide (dist < 0)
  let p := maskV collMask (V3.smul dlambda n)
  let dpPPos := V3.smul mi1 p
  let dpCPos := V3.smul mi2 (-p)
  let dpPRot := vecQuatMul (M3.mulVec ii1 (V3.cross posP p)) x1.rot
  let dpCRot := Q4.smul (-1) (vecQuatMul (M3.mulVec ii2 (V3.cross posC p)) x2.rot)
  -- static friction
  let r1 := rotate (c.pos - x1.pos) (quatInv x1.rot)
  let r2 := rotate (c.pos - x2.pos) (quatInv x2.rot)
  let p1bar := xp1.pos + rotate r1 xp1.rot
  let p2bar := xp2.pos + rotate r2 xp2.rot
  let deltap := (c.pos - p1bar) - (c.pos - p2bar)
  let deltapT := deltap - V3.smul (V3.dot deltap n) n
  let posP := c.pos - x1.pos
  let posC := c.pos - x2.pos
  let ct := safeNorm3 deltapT
  let dn : α := ct + 1e-6
  let nt : V3 α := ⟨deltapT.x / dn, deltapT.y / dn, deltapT.z / dn⟩
  let cr1 := V3.cross posP nt
  let cr2 := V3.cross posC nt
  let w1 := mi1 + V3.dot cr1 (M3.mulVec ii1 cr1)
  let w2 := mi2 + V3.dot cr2 (M3.mulVec ii2 cr2)
  let dlambdat := -ct / (w1 + w2)
  let staticMask := decide (absv dlambdat < absv dlambda)
  let p := maskV (staticMask && collMask) (V3.smul dlambdat nt)
  let dpPPos := dpPPos + V3.smul mi1 p
  let dpPRot := dpPRot + halfVq 0.5 (M3.mulVec ii1 (V3.cross posP p)) x1.rot
  let dpCPos := dpCPos - V3.smul mi2 p
  let dpCRot := dpCRot + Q4.smul (-1) (halfVq 0.5 (M3.mulVec ii2 (V3.cross posC p)) x2.rot)
  (DTf.smul collideScale ⟨dpPPos, dpPRot⟩, DTf.smul collideScale ⟨dpCPos, dpCRot⟩,
   maskS collMask dlambda)

/-- the tail of `collisions.resolve_position` for arbitrary per-contact deltas `(dp_p, dp_c)`:
```
dp = vstack(dp_p, dp_c);  dp = where(isnan(dp), 0, dp);  link_idx = concatenate(contact.link_idx)
dp *= link_idx > -1;  dp = segment_sum(dp, link_idx, num_links)
x_i = state.x_i + dp;  x_i.rot = normalize(x_i.rot)
``` -/
def positionSpread (n : Nat) (x_i : List (Tf α)) (cs : List (Contact α))
    (dps : List (DTf α × DTf α)) : List (Tf α) :=
  let ids := cs.map (·.link1) ++ cs.map (·.link2)
  let dp := dps.map (·.1) ++ dps.map (·.2)
  let dp := List.zipWith (fun (d : DTf α) (id : Int) =>
    if -1 < id then nanToZeroD d else (0 : DTf α)) dp ids
  let seg := segmentSum dp ids n
  tab n fun i =>
    let t := addDelta (nth x_i i) (nth seg i)
    ⟨t.pos, normalize4 t.rot⟩

/-- `collisions.resolve_position(sys, state, x_i_prev, contact)`: `(x_i, dlambda)`;
`cs = []` is `contact is None`: the early return renormalises the rotations
(`rot = vmap(math.normalize)(state.x_i.rot)[0]`; the code after the `fix:` commit ce5b080 for
defect D3 — before it the early return handed `state.x_i` back unchanged) -/
def resolvePosition (s : Sys α) (x_i xPrev : List (Tf α)) (invInertia : List (M3 α))
    (invMass : List α) (cs : List (Contact α)) : List (Tf α) × List α :=
  if cs.isEmpty then (x_i.map fun t => ⟨t.pos, normalize4 t.rot⟩, [0]) else
  let tr := cs.map (translate s.collideScale x_i xPrev invInertia invMass)
  (positionSpread s.numLinks x_i cs (tr.map fun t => (t.1, t.2.1)), tr.map (·.2.2))

/-- `impulse(contact, dlambda)` of `collisions.resolve_velocity`: impulse on the first link and the
`penetrating` flag -/
def velImpulse (s : Sys α) (x_i : List (Tf α)) (xd_i xdPrev : List (Motion α))
    (invInertia : List (M3 α)) (invMass : List α) (c : Contact α) (dlambda : α) : Force α × Bool :=
  let in1 := decide (-1 < c.link1)
  let in2 := decide (-1 < c.link2)
  let x1 := Kin.takeParent x_i default c.link1
  let x2 := Kin.takeParent x_i default c.link2
  let xd1 := Kin.takeParent xd_i default c.link1
  let xd2 := Kin.takeParent xd_i default c.link2
  let xq1 := Kin.takeParent xdPrev default c.link1
  let xq2 := Kin.takeParent xdPrev default c.link2
  let ii1 := maskM in1 (takeWrap invInertia c.link1)
  let ii2 := maskM in2 (takeWrap invInertia c.link2)
  let mi1 := maskS in1 (invMass.getD (c.link1 % (invMass.length : Int)).toNat 0)
  let mi2 := maskS in2 (invMass.getD (c.link2 % (invMass.length : Int)).toNat 0)
  let n := -c.normal
  let rp1 := c.pos - x1.pos
  let rp2 := c.pos - x2.pos
  let relVel := xd1.vel + V3.cross xd1.ang rp1 - (xd2.vel + V3.cross xd2.ang rp2)
  let vN := V3.dot relVel n
  let vT := relVel - V3.smul vN n
  let vTDir := normalize3 vT
  let vTNorm := safeNorm3 vT
  let dvel := V3.smul (minv (c.friction * absv dlambda / s.dt) vTNorm) (-vTDir)
  let angw1 := V3.cross rp1 vTDir
  let angw2 := V3.cross rp2 vTDir
  let w1 := mi1 + V3.dot angw1 (M3.mulVec ii1 angw1)
  let w2 := mi2 + V3.dot angw2 (M3.mulVec ii2 angw2)
  let dd : α := w1 + w2 + 1e-6
  let pDyn : V3 α := ⟨dvel.x / dd, dvel.y / dd, dvel.z / dd⟩
  -- restitution
  let relVelPrev := (xq1.vel + V3.cross xq1.ang rp1) - (xq2.vel + V3.cross xq2.ang rp2)
  let vNPrev := V3.dot relVelPrev n
  let dvRest := V3.smul (-vN - minv (c.elasticity * vNPrev) 0) n
  let posP := c.pos - x1.pos
  let posC := c.pos + V3.smul c.dist c.normal - x2.pos
  let cc := safeNorm3 dvRest
  let dn : α := cc + 1e-6
  let nr : V3 α := ⟨dvRest.x / dn, dvRest.y / dn, dvRest.z / dn⟩
  let cr1 := V3.cross posP nr
  let cr2 := V3.cross posC nr
  let w1 := mi1 + V3.dot cr1 (M3.mulVec ii1 cr1)
  let w2 := mi2 + V3.dot cr2 (M3.mulVec ii2 cr2)
  let dlambdaRest := cc / (w1 + w2 + 1e-6)
  let penetrating := decide (c.dist < 0)
  let sinking := decide (vNPrev ≤ 0)
  (⟨0, maskV penetrating (maskV sinking (V3.smul dlambdaRest nr) + pDyn)⟩, penetrating)

/-- `collisions.resolve_velocity(sys, state, xd_i_prev, contact, dlambda)` -/
def resolveVelocity (s : Sys α) (x_i : List (Tf α)) (xd_i xdPrev : List (Motion α))
    (invInertia : List (M3 α)) (invMass : List α) (cs : List (Contact α)) (dlambda : List α) :
    List (Motion α) :=
  let n := s.numLinks
  if cs.isEmpty then tab n fun _ => ⟨0, 0⟩ else
  let pc := List.zipWith (velImpulse s x_i xd_i xdPrev invInertia invMass) cs dlambda
  let xp := Spring.spreadImpulses n (fun id => Kin.takeParent x_i default id) cs (pc.map (·.1))
    (pc.map fun p => if p.2 then 1 else 0)
  tab n fun i =>
    let f := nth xp i
    ⟨M3.mulVec (nth invInertia i) f.ang, V3.smul (nthS invMass i) f.vel⟩

end collide

/-! ## pipeline -/
section pipeline
variable {α : Type} [Zero α] [One α] [Add α] [Sub α] [Mul α] [Neg α] [Div α]
  [LT α] [DecidableLT α] [LE α] [DecidableLE α] [OfScientific α]
  [HasSqrt α] [HasTrig α] [HasExp α] [HasPow α] [HasF32 α]

/-- `xdd_i = Motion.create(vel=gravity) + Motion(ang=inv_inertia @ xf_i.ang, vel=(1/mass)·xf_i.vel)` -/
def acceleration (s : Sys α) (iInv : List (M3 α)) (mass : List α) (xf_i : List (Force α)) :
    List (Motion α) :=
  tab s.numLinks fun i =>
    let f := nth xf_i i
    ⟨(0 : V3 α) + M3.mulVec (nth iInv i) f.ang, s.gravity + V3.smul (1 / nthS mass i) f.vel⟩

/-- `pipeline.init(sys, q, qd)` -/
def init (s : Sys α) (q qd : List α) : State α :=
  let f := Kin.forward s q qd
  let x := f.map (·.1)
  let xd := f.map (·.2)
  let w := Kin.worldToJoint s x xd
  let c := Com.fromWorld s x xd
  { q := q, qd := qd, x := x, xd := xd, x_i := c.1, xd_i := c.2,
    j := w.map (·.1), jd := w.map (·.2.1), a_p := w.map (·.2.2.1), a_c := w.map (·.2.2.2),
    mass := effMass s }

/-- `pipeline.step(sys, state, act)`.  `inv` is `kinematics.inverse(sys, ·, ·)`, `contactFn` is
`contact.get(sys, ·)` (called once, on the link transforms after the joint position update). -/
def step (inv : List (Tf α) → List (Motion α) → List α × List α)
    (contactFn : List (Tf α) → List (Contact α)) (s : Sys α) (st : State α) (act : List α) :
    State α :=
  let xiPrev := st.x_i
  -- calculate acceleration level updates
  let tau := toTau s act st.q st.qd
  let xf_i := accelerationUpdate s st tau
  let xdd_i := acceleration s (Com.invInertia s st.x) st.mass xf_i
  -- semi-implicit euler: apply acceleration update before resolving collisions
  let xi1 := integrateXdd s st.x_i st.xd_i xdd_i
  let xw1 := Com.toWorld s xi1.1 xi1.2
  let st1 := { st with x := xw1.1, xd := xw1.2, x_i := xi1.1, xd_i := xi1.2 }
  -- perform position level joint updates
  let xi2 := positionUpdate s st1
  let xw2 := Com.toWorld s xi2 xi1.2
  -- apply position level collision updates
  let cs := contactFn xw2.1
  let iInv2 := Com.invInertia s xw2.1
  let rp := resolvePosition s xi2 xiPrev iInv2 (massInv s) cs
  let xi3 := rp.1
  let xdPrev := xi1.2
  let xd3 := projectXd s xi3 xiPrev
  let xw3 := Com.toWorld s xi3 xd3
  -- apply velocity level collision updates
  let xdv := resolveVelocity s xi3 xd3 xdPrev (Com.invInertia s xw3.1) (massInv s) cs rp.2
  let xd4 := integrateXdv s xd3 xdv
  let xw4 := Com.toWorld s xi3 xd4
  let w := Kin.worldToJoint s xw4.1 xw4.2
  let j := w.map (·.1)
  let jd := w.map (·.2.1)
  let qq := inv j jd
  { q := qq.1, qd := qq.2, x := xw4.1, xd := xw4.2, x_i := xi3, xd_i := xd4,
    j := j, jd := jd, a_p := w.map (·.2.2.1), a_c := w.map (·.2.2.2), mass := st.mass }

end pipeline

end Positional
end Brax
