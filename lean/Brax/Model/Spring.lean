import Brax.Model.Com
/-!
# Model of the spring pipeline: `brax/spring/{base,joints,collisions,integrator,pipeline}.py`

Reusable model file (no Mathlib; raw operator classes).  Transcription of the code as it is.

* `State`, `State.WF` — `spring.base.State` (struct of per-link lists) and its shape guard;
* `oneDof`, `twoDof`, `threeDof`, `jointForce`, `jointForces` — `joints._one_dof/_two_dof/
  _three_dof/_free` and the `scan.link_types(sys, j_fn, 'llldd', 'l', …)` that produces the
  joint-frame force `jf` of every link (Layer B stage 1: the regrouping is modelled as the per-link
  slicing it implements, `Kin.linkSlices`);
* `assemble` — the **assembly** part of `joints.resolve` (and, verbatim, of
  `positional.joints.acceleration_update`): `jf` enters as a *value*, is rotated to the world by the
  parent anchor, moved to the child's centre of mass, and the opposite force is moved to the
  parent's centre of mass and accumulated with `segment_sum` over the parent indices (the world
  parent `-1` is dropped); `resolve = assemble ∘ jointForces`;
* `integrateLink`, `integrate` — `integrator.integrate` (damping `exp(damping·dt)` through
  `HasExp`, quaternion integration, normalisation by the plain `jp.linalg.norm`);
* `impulse`, `spreadImpulses`, `collide` — `collisions.resolve` with the contacts passed in as data;
  `spreadImpulses` is the shared tail (`(p, -p)` to the two links, lever arm, `segment_sum`,
  averaging by `num_contacts + 1e-8`) that `positional.collisions.resolve_velocity` repeats;
* `init`, `step` — `pipeline.init`, `pipeline.step`; `kinematics.inverse` (`inv`) and
  `contact.get` (`contactFn`) are parameters (C08 models the former, C10 the latter;
  `sys.enable_fluid` is taken to be false).

Warts reproduced on purpose: the root's parent-side lever arm is computed against the *last* link
(`x_i.take(-1)` wraps) before being dropped; `_two_dof` uses `constraint_limit_stiffness` for the
plane-alignment torque; the sign convention `exp(+vel_damping·dt)`; the contact counter is
`float32` (`HasF32`); `collisions.resolve` gathers the inverse inertia with `i_inv.take(link_idx)`
on the flattened array, i.e. uses one *scalar* per link (`flatInv`).
-/
set_option linter.unusedSectionVars false
namespace Brax
namespace Spring
open MC

/-- `brax.spring.base.State` (without `contact`, which only `debug=True` fills) -/
structure State (α : Type) where
  q : List α
  qd : List α
  x : List (Tf α)
  xd : List (Motion α)
  x_i : List (Tf α)
  xd_i : List (Motion α)
  j : List (Tf α)
  jd : List (Motion α)
  a_p : List (Tf α)
  a_c : List (Tf α)
  i_inv : List (M3 α)
  mass : List α

/-- shape guard: every per-link array has one row per link, `q`/`qd` have `nq`/`nv` entries -/
def State.WF {α : Type} (s : Sys α) (st : State α) : Bool :=
  let n := s.numLinks
  st.q.length == s.nq && st.qd.length == s.nv
  && st.x.length == n && st.xd.length == n && st.x_i.length == n && st.xd_i.length == n
  && st.j.length == n && st.jd.length == n && st.a_p.length == n && st.a_c.length == n
  && st.i_inv.length == n && st.mass.length == n

/-! ## assembly: joint-frame force → per-link world force at the centre of mass -/
section assemble
variable {α : Type} [Zero α] [One α] [Add α] [Sub α] [Mul α] [Neg α]

/-- `xf = Transform.create(rot=a_p.rot).do(jf)`: the joint-frame force in world orientation -/
def worldForce (a_p : Tf α) (jf : Force α) : Force α := Tf.doForce (tfRot a_p.rot) jf

/-- the tail of `joints.resolve`, for an arbitrary per-link joint-frame force `jf`:
```
xf = Transform.create(rot=state.a_p.rot).vmap().do(jf)
fc = Transform.create(pos=state.a_c.pos - state.x_i.pos).vmap().do(xf)
x_i_parent = state.x_i.take(parent_idx)
fp = Transform.create(pos=state.a_p.pos - x_i_parent.pos).vmap().do(xf)
fp = segment_sum(fp, parent_idx, num_links)
xf_i = fc - fp
``` -/
def assemble (parents : List Int) (a_p a_c x_i : List (Tf α)) (jf : List (Force α)) :
    List (Force α) :=
  let n := parents.length
  let xf := fun i => worldForce (nth a_p i) (nth jf i)
  let fc := fun i => Tf.doForce (tfPos ((nth a_c i).pos - (nth x_i i).pos)) (xf i)
  let fp := tab n fun i =>
    Tf.doForce (tfPos ((nth a_p i).pos - (takeWrap x_i (parents.getD i (-1))).pos)) (xf i)
  let fpSeg := segmentSum fp parents n
  tab n fun i => fc i - nth fpSeg i

end assemble

/-! ## the per-type joint forces -/
section joints
variable {α : Type} [Zero α] [One α] [Add α] [Sub α] [Mul α] [Neg α] [Div α]
  [LT α] [DecidableLT α] [LE α] [DecidableLE α] [OfScientific α] [HasSqrt α] [HasTrig α]

/-- `d = where(x < lo, x - lo, 0); d = where(x > hi, x - hi, d)`; an infinite bound is `none` -/
def limDelta (x : α) (lo hi : Option α) : α :=
  let d := match lo with
    | some l => if x < l then x - l else 0
    | none => 0
  match hi with
  | some h => if h < x then x - h else d
  | none => d

/-- `joints._one_dof(link, j, jd, dof, tau)` -/
def oneDof (hasLimit : Bool) (lk : LinkP α) (j : Tf α) (jd : Motion α) (d : DofP α) (tau : α) :
    Force α :=
  let fr := frame1 d.motion
  let fv0 := fr.vel.r0
  let fa0 := fr.ang.r0
  let fa1 := fr.ang.r1
  let isT := v3Any d.motion.vel
  let isR := v3Any d.motion.ang
  -- push the link to zero offset
  let vel := V3.smul lk.cStiffness (-j.pos)
  -- if prismatic, don't pin along free axis
  let vel := vel - maskV isT (V3.smul (V3.dot fv0 vel) fv0)
  -- add in force
  let vel := vel + maskV isT (V3.smul tau fv0)
  -- linear damp
  let damp := V3.smul lk.cVelDamping (-jd.vel)
  let vel := vel + (damp - maskV isT (V3.smul (V3.dot fv0 damp) fv0))
  let axisCx := rotate fa0 j.rot
  let axisCy := rotate fa1 j.rot
  let psi := (axisAngleAng j fr.ang fr.parity).psi
  -- torque to align to axis
  let ang := V3.smul (-1 * lk.cStiffness) (V3.cross fa0 axisCx)
  -- remove second free rotational dof if prismatic and not revolute
  let ang := ang - maskV (isT && !isR) (V3.smul lk.cStiffness (V3.cross fa1 axisCy))
  -- add in force
  let ang := ang + maskV isR (V3.smul tau fa0)
  -- angular damp
  let ang := ang - V3.smul lk.cAngDamping jd.ang
  -- stay within angle limit
  if hasLimit then
    let dang := limDelta psi d.lo d.hi
    let ang := ang - maskV (!isT) (V3.smul (lk.cLimitStiffness * dang) fa0)
    let xp := V3.dot j.pos fv0
    let dvel := limDelta xp d.lo d.hi
    let vel := vel - maskV isT (V3.smul (lk.cLimitStiffness * dvel) fv0)
    ⟨ang, vel⟩
  else ⟨ang, vel⟩

/-- `joints._two_dof(link, j, jd, dof, tau)` -/
def twoDof (hasLimit : Bool) (lk : LinkP α) (j : Tf α) (jd : Motion α) (d0 d1 : DofP α)
    (t0 t1 : α) : Force α :=
  let m0 := d0.motion
  let m1 := d1.motion
  let isT := v3Any m0.vel || v3Any m1.vel
  let isU := v3Any m0.ang || v3Any m1.ang
  let fr := frame2 m0 m1
  -- push the link to zero offset, linear damp
  let vel := V3.smul lk.cStiffness (-j.pos)
  let vel := vel + V3.smul lk.cVelDamping (-jd.vel)
  -- remove components of vel along prismatic axes
  let vel := vel - maskV isT (V3.smul (V3.dot vel m0.vel) m0.vel + V3.smul (V3.dot vel m1.vel) m1.vel)
  -- torque the bodies to align to a joint plane
  let aa := axisAngleAng j fr.ang fr.parity
  let axis1 := fr.ang.r0
  let axis2 := aa.axis.r1
  let proj := axis2 - V3.smul (V3.dot axis2 axis1) axis1
  let pn := safeNorm3 proj
  let proj : V3 α := ⟨proj.x / pn, proj.y / pn, proj.z / pn⟩
  let axisCx := rotate fr.ang.r0 j.rot
  let axisCy := rotate fr.ang.r1 j.rot
  let cand := if v3Any m0.ang then fr.ang.r0 else fr.ang.r1
  let tq2 := if v3Any m0.ang then axisCx else axisCy
  let proj := if isT then cand else proj
  let tq2 := if isT then tq2 else axis2
  let ang := V3.smul (-1 * lk.cLimitStiffness) (V3.cross proj tq2)
  -- add in force
  let angAxis0 := maskV (v3Any m0.ang) axis1
  let angAxis1 := maskV (v3Any m1.ang) axis2
  let ang := ang + (V3.smul t0 angAxis0 + V3.smul t1 angAxis1)
  let vel := vel + (V3.smul t0 m0.vel + V3.smul t1 m1.vel)
  -- if no rotational dofs, pin rotational axes
  let axisCz := rotate fr.ang.r2 j.rot
  let ang := ang - maskV (isT && !isU) (V3.smul lk.cStiffness (V3.cross fr.ang.r2 axisCz))
  -- torque the bodies to stay within angle limits
  let av : V3 α × V3 α :=
    if hasLimit then
      let dang0 := limDelta aa.psi d0.lo d0.hi
      let dang1 := limDelta aa.theta d1.lo d1.hi
      let ang := ang - maskV isU (V3.smul lk.cLimitStiffness
        (V3.smul dang0 angAxis0 + V3.smul dang1 angAxis1))
      let dvel0 := limDelta (V3.dot j.pos m0.vel) d0.lo d0.hi
      let dvel1 := limDelta (V3.dot j.pos m1.vel) d1.lo d1.hi
      let vel := vel - maskV isT (V3.smul lk.cLimitStiffness
        (V3.smul dvel0 m0.vel + V3.smul dvel1 m1.vel))
      (ang, vel)
    else (ang, vel)
  -- damp the angular motion
  ⟨av.1 - V3.smul lk.cAngDamping jd.ang, av.2⟩

/-- `joints._three_dof(link, j, jd, dof, tau)` -/
def threeDof (hasLimit : Bool) (lk : LinkP α) (j : Tf α) (jd : Motion α) (d0 d1 d2 : DofP α)
    (t0 t1 t2 : α) : Force α :=
  let m0 := d0.motion
  let m1 := d1.motion
  let m2 := d2.motion
  let isT := v3Any m0.vel || v3Any m1.vel || v3Any m2.vel
  let isR := v3Any m0.ang || v3Any m1.ang || v3Any m2.ang
  -- push the link to zero offset, linear damp
  let vel := V3.smul lk.cStiffness (-j.pos)
  let vel := vel + V3.smul lk.cVelDamping (-jd.vel)
  -- remove vel components along prismatic axes
  let vel := vel - maskV isT (V3.smul (V3.dot m0.vel vel) m0.vel + V3.smul (V3.dot m1.vel vel) m1.vel
    + V3.smul (V3.dot m2.vel vel) m2.vel)
  -- damp the angular motion
  let ang := V3.smul (-1 * lk.cAngDamping) jd.ang
  -- add in force
  let fr := frame3 m0 m1 m2
  let aa := axisAngleAng j fr.ang fr.parity
  let angAxis0 := maskV (v3Any m0.ang) fr.ang.r0
  let angAxis1 := maskV (v3Any m1.ang) aa.axis.r1
  let angAxis2 := maskV (v3Any m2.ang) aa.axis.r2
  let ang := ang + (V3.smul t0 angAxis0 + V3.smul t1 angAxis1 + V3.smul t2 angAxis2)
  let vel := vel + (V3.smul t0 m0.vel + V3.smul t1 m1.vel + V3.smul t2 m2.vel)
  -- if angular components, add constraint torque to align to axis
  let sAng := m0.ang + m1.ang + m2.ang
  let sRot := rotate m0.ang j.rot + rotate m1.ang j.rot + rotate m2.ang j.rot
  let ang := ang + maskV (isT && isR) (V3.smul (-1 * lk.cStiffness) (V3.cross sAng sRot))
  -- torque the bodies to stay within angle limits
  if hasLimit then
    let dang0 := limDelta aa.psi d0.lo d0.hi
    let dang1 := limDelta aa.theta d1.lo d1.hi
    let dang2 := limDelta aa.phi d2.lo d2.hi
    let ang := ang - V3.smul lk.cLimitStiffness
      (V3.smul dang0 angAxis0 + V3.smul dang1 angAxis1 + V3.smul dang2 angAxis2)
    let dvel0 := limDelta (V3.dot m0.vel j.pos) d0.lo d0.hi
    let dvel1 := limDelta (V3.dot m1.vel j.pos) d1.lo d1.hi
    let dvel2 := limDelta (V3.dot m2.vel j.pos) d2.lo d2.hi
    let vel := vel - maskV isT (V3.smul lk.cLimitStiffness
      (V3.smul dvel0 m0.vel + V3.smul dvel1 m1.vel + V3.smul dvel2 m2.vel))
    ⟨ang, vel⟩
  else ⟨ang, vel⟩

/-- `j_fn_map[typ]` applied to one link; `l.qd` carries the link's slice of `tau`.  The last case
(slice widths not matching the link type) is excluded by `Sys.WF`. -/
def jointForce (hasLimit : Bool) (lk : LinkP α) (j : Tf α) (jd : Motion α) (l : Kin.LinkIn α) :
    Force α :=
  match l.typ, l.dofs, l.qd with
  | .free, _, _ => ⟨0, 0⟩
  | .one, [d], [t] => oneDof hasLimit lk j jd d t
  | .two, [d0, d1], [t0, t1] => twoDof hasLimit lk j jd d0 d1 t0 t1
  | .three, [d0, d1, d2], [t0, t1, t2] => threeDof hasLimit lk j jd d0 d1 d2 t0 t1 t2
  | _, _, _ => ⟨0, 0⟩

/-- `jf = scan.link_types(sys, j_fn, 'llldd', 'l', link, j, jd, dof, tau)` -/
def jointForces (s : Sys α) (j : List (Tf α)) (jd : List (Motion α)) (tau : List α) :
    List (Force α) :=
  let ins := Kin.linkSlices s.types ([] : List α) tau s.dofs
  tab s.numLinks fun i =>
    match ins[i]? with
    | some l => jointForce s.hasLimit (nth s.links i) (nth j i) (nth jd i) l
    | none => ⟨0, 0⟩

/-- `joints.resolve(sys, state, tau)` -/
def resolve (s : Sys α) (st : State α) (tau : List α) : List (Force α) :=
  assemble s.parents st.a_p st.a_c st.x_i (jointForces s st.j st.jd tau)

end joints

/-! ## integrator -/
section integrate
variable {α : Type} [Zero α] [One α] [Add α] [Sub α] [Mul α] [Neg α] [Div α]
  [OfScientific α] [HasSqrt α] [HasExp α]

/-- `op(x_i, xd_i, xdv_i)` of `integrator.integrate`:
```
xd_i = Motion(vel=exp(vel_damping·dt)·xd_i.vel, ang=exp(ang_damping·dt)·xd_i.ang) + xdv_i
rot_at_ang_quat = ang_to_quat(xd_i.ang) · 0.5 · dt
rot = x_i.rot + quat_mul(rot_at_ang_quat, x_i.rot)
x_i = Transform(pos=x_i.pos + xd_i.vel·dt, rot=rot / jp.linalg.norm(rot))
``` -/
def integrateLink (s : Sys α) (x_i : Tf α) (xd_i xdv_i : Motion α) : Tf α × Motion α :=
  let dv := HasExp.exp (s.velDamping * s.dt)
  let da := HasExp.exp (s.angDamping * s.dt)
  let xd : Motion α := ⟨V3.smul da xd_i.ang + xdv_i.ang, V3.smul dv xd_i.vel + xdv_i.vel⟩
  let aq := angToQuat xd.ang
  let h : α := 0.5
  let raq : Q4 α := ⟨aq.w * h * s.dt, aq.x * h * s.dt, aq.y * h * s.dt, aq.z * h * s.dt⟩
  let rot := x_i.rot + quatMul raq x_i.rot
  let nrm := HasSqrt.sqrt (rot.w * rot.w + rot.x * rot.x + rot.y * rot.y + rot.z * rot.z)
  (⟨x_i.pos + V3.smul s.dt xd.vel, ⟨rot.w / nrm, rot.x / nrm, rot.y / nrm, rot.z / nrm⟩⟩, xd)

/-- `integrator.integrate(sys, x_i, xd_i, xdv_i)` -/
def integrate (s : Sys α) (x_i : List (Tf α)) (xd_i xdv_i : List (Motion α)) :
    List (Tf α) × List (Motion α) :=
  let n := s.numLinks
  let r := fun i => integrateLink s (nth x_i i) (nth xd_i i) (nth xdv_i i)
  (tab n fun i => (r i).1, tab n fun i => (r i).2)

end integrate

/-! ## collisions -/
section spread
variable {α : Type} [Zero α] [One α] [Add α] [Sub α] [Mul α] [Neg α] [Div α]
  [OfScientific α] [HasF32 α]

/-- the shared tail of `spring.collisions.resolve` and `positional.collisions.resolve_velocity`,
for an arbitrary impulse `ps[k]` and counter `isC[k]` per contact:
```
p = concatenate((p, -p));  pos = tile(c.pos, 2);  link_idx = concatenate(c.link_idx)
xp_i = Transform.create(pos=pos - x_i.take(link_idx).pos).vmap().do(p)
xp_i = segment_sum(xp_i, link_idx, num_links)
num_contacts = segment_sum(tile(is_contact, 2), link_idx, num_links)
xp_i = xp_i / (num_contacts.reshape((-1, 1)) + 1e-8)
```
`xiAt` is the pipeline's lookup `x_i.take(link_idx)` (it differs between the pipelines only for
the world index, whose row is dropped by `segment_sum`). -/
def spreadImpulses (n : Nat) (xiAt : Int → Tf α) (cs : List (Contact α)) (ps : List (Force α))
    (isC : List α) : List (Force α) :=
  let ids := cs.map (·.link1) ++ cs.map (·.link2)
  let p2 := ps ++ ps.map fun p => -p
  let pos2 := cs.map (·.pos) ++ cs.map (·.pos)
  let moved := List.zipWith (fun (ip : Int × V3 α) p => Tf.doForce (tfPos (ip.2 - (xiAt ip.1).pos)) p)
    (ids.zip pos2) p2
  let xp := segmentSum moved ids n
  let cnt := segmentSum (isC ++ isC) ids n
  tab n fun i =>
    let d := HasF32.f32 (nthS cnt i + 1e-8)
    let f := nth xp i
    ⟨⟨f.ang.x / d, f.ang.y / d, f.ang.z / d⟩, ⟨f.vel.x / d, f.vel.y / d, f.vel.z / d⟩⟩

end spread

section collide
variable {α : Type} [Zero α] [One α] [Add α] [Sub α] [Mul α] [Neg α] [Div α]
  [LT α] [DecidableLT α] [LE α] [DecidableLE α] [OfScientific α] [HasSqrt α] [HasF32 α]

/-- `state.i_inv.ravel()` -/
def flatInv (ms : List (M3 α)) : List α :=
  ms.flatMap fun m => [m.r0.x, m.r0.y, m.r0.z, m.r1.x, m.r1.y, m.r1.z, m.r2.x, m.r2.y, m.r2.z]

/-- `impulse(c, link_idx, x_i, xd_i, i_inv, i_mass)` of `collisions.resolve`: the impulse on the
first link and the `apply_n` flag -/
def impulse (s : Sys α) (st : State α) (c : Contact α) : Force α × Bool :=
  let in1 := decide (-1 < c.link1)
  let in2 := decide (-1 < c.link2)
  let x1 := takeWrap st.x_i c.link1
  let x2 := takeWrap st.x_i c.link2
  let xd1 := takeWrap st.xd_i c.link1
  let xd2 := takeWrap st.xd_i c.link2
  -- `state.i_inv.take(link_idx)` has no `axis`: it indexes the FLATTENED (n·9) array, so the
  -- "inverse inertia" of link `l` is the scalar `i_inv.ravel()[l]` (entry `l` of link 0's matrix
  -- for `l < 9`), as in the code
  let flat := flatInv st.i_inv
  let iInv1 := maskS in1 (flat.getD (c.link1 % (flat.length : Int)).toNat 0)
  let iInv2 := maskS in2 (flat.getD (c.link2 % (flat.length : Int)).toNat 0)
  let iMass1 := maskS in1 (1 / st.mass.getD (c.link1 % (st.mass.length : Int)).toNat 0)
  let iMass2 := maskS in2 (1 / st.mass.getD (c.link2 % (st.mass.length : Int)).toNat 0)
  let relPos1 := c.pos - x1.pos
  let relPos2 := c.pos - x2.pos
  let relVel1 := maskV in1 (xd1.vel + V3.cross xd1.ang relPos1)
  let relVel2 := maskV in2 (xd2.vel + V3.cross xd2.ang relPos2)
  let contactVel := relVel1 - relVel2
  let nn := -c.normal
  let normalVel := V3.dot nn contactVel
  let t1 := V3.smul iInv1 (V3.cross relPos1 nn)
  let t2 := V3.smul iInv2 (V3.cross relPos2 nn)
  let ang := V3.dot nn (V3.cross t1 relPos1 + V3.cross t2 relPos2)
  let baumgarteVel := s.baumgarteErp / s.dt * c.dist
  let imp := (-1 * (1 + c.elasticity) * normalVel - baumgarteVel) / (iMass1 + iMass2 + ang)
  let impVec := V3.smul imp nn
  -- drag due to friction acting parallel to the surface contact
  let velD := contactVel + V3.smul normalVel c.normal
  let nd := safeNorm3 velD
  let dd : α := 1e-6 + nd
  let dirD : V3 α := ⟨velD.x / dd, velD.y / dd, velD.z / dd⟩
  let u1 := V3.smul iInv1 (V3.cross relPos1 dirD)
  let u2 := V3.smul iInv2 (V3.cross relPos2 dirD)
  let angD := V3.dot dirD (V3.cross u1 relPos1 + V3.cross u2 relPos2)
  let impD := nd / (iMass1 + iMass2 + angD)
  -- drag magnitude cannot exceed max friction
  let impD := minv impD (c.friction * imp)
  let impDVec := V3.smul (-1 * impD) dirD
  -- apply collision if penetrating, approaching, and oriented correctly
  let applyN := decide (c.dist < 0) && decide (normalVel < 0) && decide (0 < imp)
  -- apply drag if moving laterally above threshold
  let applyD := applyN && decide ((1e-3 : α) < nd)
  (⟨0, maskV applyN impVec + maskV applyD impDVec⟩, applyN)

/-- `collisions.resolve(sys, state)` with `c = contact.get(sys, state.x)` passed in
(`[]` = `None`: no contact pair in the model) -/
def collide (s : Sys α) (st : State α) (cs : List (Contact α)) : List (Motion α) :=
  let n := s.numLinks
  if cs.isEmpty then tab n fun _ => ⟨0, 0⟩ else
  let pc := cs.map (impulse s st)
  let xp := spreadImpulses n (takeWrap st.x_i) cs (pc.map (·.1))
    (pc.map fun p => if p.2 then 1 else 0)
  -- convert impulse to delta-velocity
  tab n fun i =>
    let f := nth xp i
    let m := nthS st.mass i
    ⟨M3.mulVec (nth st.i_inv i) f.ang, ⟨f.vel.x / m, f.vel.y / m, f.vel.z / m⟩⟩

end collide

/-! ## pipeline -/
section pipeline
variable {α : Type} [Zero α] [One α] [Add α] [Sub α] [Mul α] [Neg α] [Div α]
  [LT α] [DecidableLT α] [LE α] [DecidableLE α] [OfScientific α]
  [HasSqrt α] [HasTrig α] [HasExp α] [HasPow α] [HasF32 α]

/-- the acceleration-level update of `pipeline.step`:
```
xdd_i = Motion.create(vel=sys.gravity)
xdd_i += Motion(ang=i_inv @ xf_i.ang, vel=xf_i.vel / mass)
xd_i = xd_i + xdd_i * dt
``` -/
def accelerate (s : Sys α) (i_inv : List (M3 α)) (mass : List α) (xd_i : List (Motion α))
    (xf_i : List (Force α)) : List (Motion α) :=
  tab s.numLinks fun i =>
    let f := nth xf_i i
    let m := nthS mass i
    let xdd : Motion α :=
      ⟨(0 : V3 α) + M3.mulVec (nth i_inv i) f.ang,
       s.gravity + ⟨f.vel.x / m, f.vel.y / m, f.vel.z / m⟩⟩
    nth xd_i i + ⟨V3.smul s.dt xdd.ang, V3.smul s.dt xdd.vel⟩

/-- `pipeline.init(sys, q, qd)` -/
def init (s : Sys α) (q qd : List α) : State α :=
  let f := Kin.forward s q qd
  let x := f.map (·.1)
  let xd := f.map (·.2)
  let w := Kin.worldToJoint s x xd
  let c := Com.fromWorld s x xd
  { q := q, qd := qd, x := x, xd := xd, x_i := c.1, xd_i := c.2,
    j := w.map (·.1), jd := w.map (·.2.1), a_p := w.map (·.2.2.1), a_c := w.map (·.2.2.2),
    i_inv := Com.invInertia s x, mass := effMass s }

/-- `pipeline.step(sys, state, act)`.  `inv` is `kinematics.inverse(sys, ·, ·)`, `contactFn` is
`contact.get(sys, ·)`. -/
def step (inv : List (Tf α) → List (Motion α) → List α × List α)
    (contactFn : List (Tf α) → List (Contact α)) (s : Sys α) (st : State α) (act : List α) :
    State α :=
  let st := { st with i_inv := Com.invInertia s st.x }
  -- calculate acceleration and delta-velocity terms
  let tau := toTau s act st.q st.qd
  let xf_i := resolve s st tau
  -- semi-implicit euler: apply acceleration update before resolving collisions
  let st := { st with xd_i := accelerate s st.i_inv st.mass st.xd_i xf_i }
  let xdv_i := collide s st (contactFn st.x)
  -- now integrate and update position/velocity-level terms
  let xi := integrate s st.x_i st.xd_i xdv_i
  let xw := Com.toWorld s xi.1 xi.2
  let w := Kin.worldToJoint s xw.1 xw.2
  let j := w.map (·.1)
  let jd := w.map (·.2.1)
  let qq := inv j jd
  { st with q := qq.1, qd := qq.2, x := xw.1, xd := xw.2, x_i := xi.1, xd_i := xi.2,
            j := j, jd := jd, a_p := w.map (·.2.2.1), a_c := w.map (·.2.2.2) }

end pipeline

end Spring
end Brax
