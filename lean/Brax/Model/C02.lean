import Brax.Model.Kinematics
/-!
# C02 — model of the generalized pipeline's dynamics terms

`brax/generalized/dynamics.py` (`transform_com`, `inverse`, `_passive`, `forward`),
`brax/generalized/mass.py` (`matrix`), `brax/generalized/integrator.py` (`integrate`),
`brax/actuator.py` (`to_tau`, over the platform's `ActP`) and the constraint-free
`brax/generalized/pipeline.py` (`init`, `step`).  No Mathlib; raw operator classes.

Conventions
* Per-link arrays are `List`s in link order.  Per-dof arrays are kept **nested**:
  `List (List _)`, one inner list per link holding that link's dofs (this is the grouping
  `scan.link_types` / `Kin.linkSlices` produce); the flat per-dof array of the code is the
  `flatten` of it.
* `scan.tree` root→leaves is `Kin.scanFwd`; leaves→root with an *additive* carry
  (`crb += crb_child`, `cfrc += cfrc_child`) is `revAcc`: for `i = n-1 … 0`,
  `acc[parent i] += acc[i]` (Layer B stage 1: the scans are modelled as the recursion they
  implement, tied to the code by the correspondence).
* the linear solve `jax.scipy.linalg.solve(mx, eye)` followed by `mx_inv @ f` is a parameter
  `solve : matrix → vector → vector` (DESIGN.md 3, external calls); `gaussSolve` is the exact
  instance the driver uses.

**Defect D2** (fixed in `/repo` by the coordinator) lived in exactly one definition, `cdofWorld`.
-/
set_option linter.unusedSectionVars false
namespace Brax.Gd
open Brax Kin

/-- `[f 0, …, f (n-1)]` -/
def tab {β : Type} (n : Nat) (f : Nat → β) : List β := (List.range n).map f

/-! ## Layer B: reverse accumulation and ancestors -/

/-- one step of the leaves→root accumulation: `acc[parent] ← add acc[parent] acc[i]` -/
def revStep {β : Type} (add : β → β → β) (acc : List β) (ip : Nat × Int) : List β :=
  if ip.2 < 0 then acc else
  match acc[ip.1]? with
  | some v => acc.modify ip.2.toNat (fun x => add x v)
  | none => acc

/-- `scan.tree(sys, f, 'l', args, reverse=True)` for `f(child_sum, a) = a + child_sum`:
the recursion `r i = a i + Σ_{c | parent c = i} r c`, computed for `i = n-1 … 0` -/
def revAcc {β : Type} (add : β → β → β) (parents : List Int) (args : List β) : List β :=
  ((List.range parents.length).zip parents).reverse.foldl (revStep add) args

/-- the links visited by `j = i; while j > -1: …; j = link_parents[j]` (fuel-bounded; `i+1`
steps suffice when parents precede children) -/
def ancsFuel (ps : List Int) : Nat → Nat → List Nat
  | 0, _ => []
  | f + 1, i => i :: (let p := ps.getD i (-1); if p < 0 then [] else ancsFuel ps f p.toNat)

/-- ancestors-or-self of link `i`, nearest first -/
def ancs (ps : List Int) (i : Nat) : List Nat := ancsFuel ps (i + 1) i

/-- `root_fn`: index of the root of the tree containing each link -/
def rootIdx (parents : List Int) : List Nat :=
  scanFwd (fun (par : Option Nat) (i : Nat) => match par with | none => i | some r => r)
    parents (List.range parents.length)

/-- `jax.ops.segment_sum(vals, ids, n)[k]` -/
def segSum {β : Type} (zero : β) (add : β → β → β) (vals : List β) (ids : List Nat) (k : Nat) : β :=
  ((vals.zip ids).filter (fun p => p.2 == k)).foldr (fun p acc => add p.1 acc) zero

/-! ## polynomial stages -/
section ring
variable {α : Type} [Zero α] [One α] [Add α] [Sub α] [Mul α] [Neg α]

/-- `motion * c` (`Base.__mul__`: every leaf times `c`) -/
def mulr (m : Motion α) (c : α) : Motion α :=
  ⟨⟨m.ang.x * c, m.ang.y * c, m.ang.z * c⟩, ⟨m.vel.x * c, m.vel.y * c, m.vel.z * c⟩⟩

/-- sum of a list of motions -/
def sumM : List (Motion α) → Motion α
  | [] => Motion.zero
  | m :: ms => m + sumM ms

/-- `Inertia.__add__`: leafwise (the unused `transform.rot` leaf is added too) -/
def inertiaAdd (a b : Inertia α) : Inertia α :=
  ⟨⟨a.tf.pos + b.tf.pos, Q4.add a.tf.rot b.tf.rot⟩, M3.add a.i b.i, a.mass + b.mass⟩

/-- the state fields `transform_com` writes (per link; per link and dof) -/
structure ComState (α : Type) where
  rootCom : List (V3 α)
  cinr : List (Inertia α)
  cdof : List (List (Motion α))
  cd : List (Motion α)
  cdofd : List (List (Motion α))

/-- **D2 — the one definition that changed with the `fix:` commit.**
```
rot = j.take(sys.dof_link()).rot
ang = vmap(rotate)(cdof.ang, rot)
is_free = [t == 'f' for t in link_types][dof_link]
vel = where(is_free, cdof.vel, vmap(rotate)(cdof.vel, rot))
```
(the pinned tree rotated `ang` only and left `vel` in the joint frame). -/
def cdofWorld (isFree : Bool) (rot : Q4 α) (m : Motion α) : Motion α :=
  ⟨rotate m.ang rot, if isFree then m.vel else rotate m.vel rot⟩

/-- `cd_fn`: `cd = cd[parent] + Σ_{dofs of the link} cdof·qd` (roots: parent = 0) -/
def cdStep (par : Option (Motion α)) (u : List (Motion α)) : Motion α :=
  par.getD Motion.zero + sumM u

/-- `cdofd_fn` for a 1/2/3-dof link: `cds[0] = cd[parent]`, `cds[i+1] = cds[i] + cdof_qd[i]`,
`cdofd[i] = cds[i] × cdof[i]` -/
def cdofdStack : Motion α → List (Motion α × Motion α) → List (Motion α)
  | _, [] => []
  | cd, (c, cq) :: rest => Motion.crossM cd c :: cdofdStack (cd + cq) rest

/-- `cdofd_fn` for one link (`cdof`, `cdof_qd` are the link's dof rows) -/
def cdofdLink (typ : LinkType) (cdP : Motion α) (cdof cdofQd : List (Motion α)) : List (Motion α) :=
  match typ with
  | .free =>
    -- cd = Σ of the three translational rows; rows 0..2 of the result are zeroed
    let cd := sumM (cdofQd.take 3)
    (cdof.zip (List.range cdof.length)).map fun ci =>
      if ci.2 < 3 then Motion.zero else Motion.crossM cd ci.1
  | _ => cdofdStack cdP (cdof.zip cdofQd)

/-! ### `mass.matrix` (composite rigid body) -/

/-- `crb = scan.tree(sys, crb_fn, 'l', cinr, reverse=True)` -/
def crb (parents : List Int) (cinr : List (Inertia α)) : List (Inertia α) :=
  revAcc inertiaAdd parents cinr

/-- `mx[i, j] = cdof_j · (crb[dof_link i] * cdof_i)` -/
def mxRaw (crbI : Inertia α) (ci cj : Motion α) : α := Motion.dotF cj (Inertia.mul crbI ci)

/-- entry of the final matrix at row dof `(l, r)` (link `l`, `r`-th dof of it) and column dof
`(a, s)`:  the raw product is masked to pairs whose column link is an ancestor-or-self of the
row link, the lower triangle (`a < l`, or `a = l ∧ s ≤ r`) is kept and mirrored, the armature is
added on the diagonal. -/
def massEntry (parents : List Int) (crbs : List (Inertia α)) (cdof : List (List (Motion α)))
    (arm : List (List α)) (l r a s : Nat) : α :=
  let c := fun (l r : Nat) => (cdof.getD l []).getD r Motion.zero
  let low := fun (l r a s : Nat) =>
    if (ancs parents l).contains a then mxRaw (crbs.getD l ⟨Tf.id, M3.zero, 0⟩) (c l r) (c a s) else 0
  let off := if a < l ∨ (a = l ∧ s ≤ r) then low l r a s else low a s l r
  if a = l ∧ s = r then off + (arm.getD l []).getD r 0 else off

/-- `mass.matrix`, flat `(qd_size, qd_size)` -/
def massMatrix (parents : List Int) (cinr : List (Inertia α)) (cdof : List (List (Motion α)))
    (arm : List (List α)) : List (List α) :=
  let crbs := crb parents cinr
  let idx := (List.range cdof.length).flatMap fun l =>
    (List.range (cdof.getD l []).length).map fun r => (l, r)
  idx.map fun lr => idx.map fun as => massEntry parents crbs cdof arm lr.1 lr.2 as.1 as.2

/-! ### `dynamics.inverse` (recursive Newton–Euler) -/

/-- `cdd_fn`: roots start from `Motion(ang = 0, vel = −gravity)`; `cdd = cdd[parent] + Σ cdofd·qd` -/
def cddStep (gravity : V3 α) (par : Option (Motion α)) (u : List (Motion α)) : Motion α :=
  par.getD ⟨V3.zero, -gravity⟩ + sumM u

/-- `frc`: `cinr·cdd + cd ×* (cinr·cd)` -/
def linkFrc (cinr : Inertia α) (cdd cd : Motion α) : Force α :=
  Inertia.mul cinr cdd + Motion.crossF cd (Inertia.mul cinr cd)

/-- `dynamics.inverse`: bias force per dof (nested) -/
def inverse (parents : List Int) (gravity : V3 α) (st : ComState α) (qd : List (List α)) :
    List (List α) :=
  let u := List.zipWith (fun cs qs => List.zipWith mulr cs qs) st.cdofd qd
  let cdd := scanFwd (cddStep gravity) parents u
  let flat := List.zipWith (fun (ic : Inertia α × Motion α) (cd : Motion α) => linkFrc ic.1 ic.2 cd)
    (st.cinr.zip cdd) st.cd
  let cfrc := revAcc Force.add parents flat
  List.zipWith (fun cs (f : Force α) => cs.map fun c => Motion.dotF c f) st.cdof cfrc

/-! ### `_passive`, `forward` -/

/-- `_passive` for one link: `-q·stiffness` on 1/2/3-dof links, `0` on free links, then
`- damping·qd` on every dof -/
def passiveLink (l : LinkIn α) : List α :=
  let spring : List α := match l.typ with
    | .free => l.dofs.map fun _ => 0
    | _ => List.zipWith (fun q (d : DofP α) => -q * d.stiffness) l.q l.dofs
  List.zipWith (fun f (dq : DofP α × α) => f - dq.1.damping * dq.2) spring (l.dofs.zip l.qd)

/-- `dynamics.forward`: `qf_smooth = passive − bias + tau` -/
def forward (passive bias tau : List α) : List α :=
  List.zipWith (fun pb t => pb + t) (List.zipWith (fun p b => p - b) passive bias) tau

/-! ### dense linear algebra used to state the contract of the linear solve -/

/-- `a · b` -/
def dot (a b : List α) : α := (List.zipWith (· * ·) a b).foldr (· + ·) 0
/-- `m @ v` -/
def matVec (m : List (List α)) (v : List α) : List α := m.map fun r => dot r v

end ring

/-! ## `actuator.to_tau` over the platform's `ActP` (the actuator property itself is C11) -/
section act
variable {α : Type} [Zero α] [Add α] [Mul α] [LT α] [DecidableLT α]

/-- `jp.clip(x, lo, hi)` with possibly infinite bounds -/
def clipO (x : α) (lo hi : Option α) : α :=
  let y := match lo with | none => x | some l => if x < l then l else x
  match hi with | none => y | some h => if h < y then h else y

/-- `x[i]` of jax for a static in-range index (out of range clamps) -/
def gather (xs : List α) (i : Nat) : α := xs.getD (min i (xs.length - 1)) 0

def addAt : List α → Nat → α → List α
  | [], _, _ => []
  | x :: xs, 0, f => (x + f) :: xs
  | x :: xs, i + 1, f => x :: addAt xs i f

/-- `actuator.to_tau` -/
def toTau (nv : Nat) (acts : List (ActP α)) (u q qd : List α) : List α :=
  (acts.zip u).foldl (fun tau (au : ActP α × α) =>
    let a := au.1
    let c := clipO au.2 a.ctrlLo a.ctrlHi
    let bias := a.gear * (gather q a.qId * a.biasQ + gather qd a.qdId * a.biasQd)
    let force := clipO (a.gain * c + bias) a.forceLo a.forceHi
    addAt tau a.qdId (force * a.gear)) (List.replicate nv 0)
end act

/-! ## stages with division / roots -/
section field
variable {α : Type} [Zero α] [One α] [Add α] [Sub α] [Mul α] [Neg α] [Div α]

/-- per-tree centre of mass, one copy per link:
`segment_sum(mass·x_i.pos, root)[root] / segment_sum(mass, root)[root]` -/
def rootCom (parents : List Int) (mass : List α) (xi : List (Tf α)) : List (V3 α) :=
  let root := rootIdx parents
  let mx := List.zipWith (fun m (t : Tf α) => V3.smul m t.pos) mass xi
  root.map fun r =>
    let sx := segSum V3.zero V3.add mx root r
    let sm := segSum 0 (· + ·) mass root r
    ⟨sx.x / sm, sx.y / sm, sx.z / sm⟩

/-- `cinr = x_i.replace(pos = x_i.pos − root_com).do(link.inertia)` -/
def cinrLink (xi : Tf α) (com : V3 α) (it : Inertia α) : Inertia α :=
  Tf.doInertia ⟨xi.pos - com, xi.rot⟩ it

/-! ### exact linear solve for the driver: Gauss–Jordan with first-nonzero pivoting -/

def rowSub (a b : List α) (c : α) : List α := List.zipWith (fun x y => x - c * y) a b

end field

section gauss
variable {α : Type} [Zero α] [One α] [Add α] [Sub α] [Mul α] [Neg α] [Div α] [LT α] [DecidableLT α]

/-- Gauss–Jordan on the augmented rows; `k` = column being eliminated, pivot = the remaining
row with the largest `|entry|` in column `k` (rows `done` are already pivoted) -/
def gaussLoop : Nat → Nat → List (List α) → List (List α) → List (List α)
  | 0, _, done, _ => done
  | fuel + 1, k, done, rest =>
    match rest with
    | [] => done
    | r0 :: rs =>
      -- choose the pivot row
      let pick := rs.foldl (fun (best : List α × List (List α)) r =>
        if absv (best.1.getD k 0) < absv (r.getD k 0) then (r, best.1 :: best.2) else (best.1, r :: best.2))
        (r0, [])
      let p := pick.1
      let others := pick.2
      let pk := p.getD k 0
      let pn := p.map (· / pk)
      let elim := fun (r : List α) => rowSub r pn (r.getD k 0)
      gaussLoop fuel (k + 1) (done.map elim ++ [pn]) (others.map elim)

/-- solution `y` of `m y = b` (exact over a field when `m` is invertible) -/
def gaussSolve (m : List (List α)) (b : List α) : List α :=
  let n := m.length
  let aug := List.zipWith (fun row bi => row ++ [bi]) m b
  (gaussLoop n 0 [] aug).map fun r => r.getD n 0

end gauss

section real
variable {α : Type} [Zero α] [One α] [Add α] [Sub α] [Mul α] [Neg α] [Div α]
  [LT α] [DecidableLT α] [LE α] [DecidableLE α] [OfScientific α] [HasSqrt α] [HasTrig α]

/-! ### `transform_com` -/

/-- `cdof_fn` for a 1/2/3-dof link: `jds[i] = j.inv_do(jd[i])`, `j = j.do(j_i)` with
`j_i = Transform(rot = normalize(quat_rot_axis(ang_i, q_i)), pos = vel_i·q_i)` -/
def cdofStack : List (DofP α × α) → Tf α → List (Motion α)
  | [], _ => []
  | dq :: rest, j =>
    Tf.invDoMotion j dq.1.motion :: cdofStack rest (Tf.doTf j (jcalcDof dq.1 dq.2 0).1)

/-- `cdof_fn` for one link -/
def cdofLocal (l : LinkIn α) : List (Motion α) :=
  match l.typ with
  | .free => l.dofs.map (·.motion)
  | _ => cdofStack (l.dofs.zip l.q) Tf.id

/-- `parent_idx`: a free link is its own "parent" -/
def parentIdx (types : List LinkType) (parents : List Int) : List Int :=
  (types.zip (parents.zip (List.range parents.length))).map fun tpi =>
    if tpi.1 == .free then (tpi.2.2 : Int) else tpi.2.1

/-- `j = parent.do(link.transform).do(link.joint)`: world frame of each link's joint -/
def jointFrames (s : Sys α) (x : List (Tf α)) : List (Tf α) :=
  (s.links.zip (parentIdx s.types s.parents)).map fun lp =>
    Tf.doTf (Tf.doTf (takeParent x Tf.id lp.2) lp.1.tf) lp.1.joint

/-- the `cdof` rows of one link: local stack push (`cdof_fn`), rotation into the world frame by
the joint frame `j` (`cdofWorld`), shift to the tree's centre of mass
(`off = Transform.create(pos = root_com − j.pos)`, `off.do(cdof)`) -/
def cdofLink (l : LinkIn α) (j : Tf α) (com : V3 α) : List (Motion α) :=
  (cdofLocal l).map fun m =>
    Tf.doMotion ⟨com - j.pos, Q4.one⟩ (cdofWorld (l.typ == .free) j.rot m)

/-- `dynamics.transform_com(sys, state)` given the link world transforms `x` -/
def transformCom (s : Sys α) (x : List (Tf α)) (q qd : List α) : ComState α :=
  let ins := linkSlices s.types q qd s.dofs
  let xi := List.zipWith (fun (t : Tf α) (lk : LinkP α) => Tf.doTf t lk.inertia.tf) x s.links
  let com := rootCom s.parents (s.links.map (·.inertia.mass)) xi
  let cinr := List.zipWith (fun (tc : Tf α × V3 α) (lk : LinkP α) => cinrLink tc.1 tc.2 lk.inertia)
    (xi.zip com) s.links
  let j := jointFrames s x
  -- dof axes: local stack push, world rotation, shift to the tree's centre of mass
  let cdof := List.zipWith (fun (l : LinkIn α) (jc : Tf α × V3 α) => cdofLink l jc.1 jc.2) ins (j.zip com)
  let cdofQd := List.zipWith (fun cs (l : LinkIn α) => List.zipWith mulr cs l.qd) cdof ins
  let cd := scanFwd cdStep s.parents cdofQd
  let pidx := parentIdx s.types s.parents
  let cdofd := List.zipWith (fun (lp : LinkIn α × Int) (cc : List (Motion α) × List (Motion α)) =>
      cdofdLink lp.1.typ (takeParent cd Motion.zero lp.2) cc.1 cc.2)
    (ins.zip pidx) (cdof.zip cdofQd)
  ⟨com, cinr, cdof, cd, cdofd⟩

/-! ### `integrator.integrate` -/

/-- `_integrate_q_free` -/
def integrateQFree (dt : α) (q qd : List α) : List α :=
  match q, qd with
  | [p0, p1, p2, r0, r1, r2, r3], [v0, v1, v2, w0, w1, w2] =>
    let angNorm := HasSqrt.sqrt (w0 * w0 + w1 * w1 + w2 * w2) + 1e-8
    let axis : V3 α := ⟨w0 / angNorm, w1 / angNorm, w2 / angNorm⟩
    let angle := dt * angNorm
    let rot := quatMul ⟨r0, r1, r2, r3⟩ (quatRotAxis axis angle)
    let n := HasSqrt.sqrt (rot.w * rot.w + rot.x * rot.x + rot.y * rot.y + rot.z * rot.z)
    [p0 + v0 * dt, p1 + v1 * dt, p2 + v2 * dt, rot.w / n, rot.x / n, rot.y / n, rot.z / n]
  | _, _ => q

/-- `q_fn` for one link (`l.qd` already holds the **new** velocities) -/
def integrateQLink (dt : α) (l : LinkIn α) : List α :=
  match l.typ with
  | .free => integrateQFree dt l.q l.qd
  | _ => List.zipWith (fun q qd => q + qd * dt) l.q l.qd

/-- `mx = mass_mx + diag(damping)·dt` -/
def dampedMatrix (m : List (List α)) (damping : List α) (dt : α) : List (List α) :=
  (m.zip (List.range m.length)).map fun ri =>
    (ri.1.zip (List.range ri.1.length)).map fun xj =>
      if xj.2 = ri.2 then xj.1 + damping.getD ri.2 0 * dt else xj.1

/-- `integrator.integrate` with `matrix_inv_iterations = 0`; returns `(q', qd', qdd)` -/
def integrate (solve : List (List α) → List α → List α) (s : Sys α) (massMx : List (List α))
    (q qd qfSmooth qfConstraint : List α) : List α × List α × List α :=
  let mx := dampedMatrix massMx (s.dofs.map (·.damping)) s.dt
  let qdd := solve mx (List.zipWith (· + ·) qfSmooth qfConstraint)
  let qd' := List.zipWith (fun v a => v + a * s.dt) qd qdd
  let q' := ((linkSlices s.types q qd' s.dofs).map (integrateQLink s.dt)).flatten
  (q', qd', qdd)

/-! ### `pipeline.init` / `pipeline.step` without constraints -/

/-- what `pipeline.init` computes besides kinematics: the CoM-frame terms and the mass matrix -/
structure DynState (α : Type) where
  com : ComState α
  massMx : List (List α)

def nested (s : Sys α) (q qd : List α) : List (LinkIn α) := linkSlices s.types q qd s.dofs

def dynInit (s : Sys α) (q qd : List α) : DynState α :=
  let x := (Kin.forward s q qd).map (·.1)
  let com := transformCom s x q qd
  let ins := nested s q qd
  ⟨com, massMatrix s.parents com.cinr com.cdof (ins.map fun l => l.dofs.map (·.armature))⟩

/-- bias force `dynamics.inverse`, flat -/
def biasFlat (s : Sys α) (st : DynState α) (q qd : List α) : List α :=
  (inverse s.parents s.gravity st.com ((nested s q qd).map (·.qd))).flatten

/-- `_passive`, flat -/
def passiveFlat (s : Sys α) (q qd : List α) : List α :=
  ((nested s q qd).map passiveLink).flatten

/-- `qf_smooth = dynamics.forward(sys, state, to_tau(sys, act, q, qd))` -/
def qfSmooth (s : Sys α) (st : DynState α) (q qd act : List α) : List α :=
  forward (passiveFlat s q qd) (biasFlat s st q qd) (toTau s.nv s.acts act q qd)

/-- `pipeline.step` when `constraint.force` returns `qfc` (zero when no contact candidate and no
limit row is active); returns the new `(q, qd, qdd)` and the refreshed dynamics terms -/
def step (solve : List (List α) → List α → List α) (s : Sys α) (st : DynState α)
    (q qd act qfc : List α) : (List α × List α × List α) × DynState α :=
  let f := qfSmooth s st q qd act
  let r := integrate solve s st.massMx q qd f qfc
  (r, dynInit s r.1 r.2.1)

end real
end Brax.Gd
