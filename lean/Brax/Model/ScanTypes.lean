import Brax.Model.Kinematics
/-!
# Layer B stage 2: a faithful model of `scan.link_types`

`scan.link_types` does not slice `q`/`qd`/dofs link by link: it groups the links by type (types in
order of first appearance), gathers for every type the *flat index lists* of its links' `q`, `qd`
ranges (`typ_order_idxs[order]['q'].extend(range(q_idx, q_idx + Q_WIDTHS[t]))`), takes those
indices out of the flat inputs, calls `f(typ, …)` once per type (the callers reshape the flat
batch to rows of the type's width and `vmap` a per-link function over the rows), concatenates the
per-type outputs and finally reorders them through the output kind's index list
(`_take(y, [order.index(i) for i in range(len(order))])`).  `scanLinkTypesCoded` transcribes that;
`scanLinkTypesCoded_eq` (`Lemmas/ScanTypes.lean`) shows it equals the per-link slicing
`Kin.linkSlices` all theorems are stated with.  No Mathlib.
-/
namespace Brax.Kin

/-- `typ_order = sorted(set(link_types), key=link_types.find)`: distinct types, first appearance first -/
def typOrder : List LinkType → List LinkType
  | [] => []
  | t :: ts => t :: (typOrder ts).filter fun u => decide (u ≠ t)

/-- the running offset (`q_idx` / `qd_idx`) before each link, for the width table `w` -/
def offsets (w : LinkType → Nat) : List LinkType → Nat → List Nat
  | [], _ => []
  | t :: ts, o => o :: offsets w ts (o + w t)

/-- `typ_order_idxs[order]['l']`: the links of type `t`, increasing -/
def typLinks (ts : List LinkType) (t : LinkType) : List Nat :=
  (List.range ts.length).filter fun i => decide (ts[i]? = some t)

/-- `typ_order_idxs[order][kind]`: the flat indices of kind `w` of the links of type `t` -/
def typIdxs (w : LinkType → Nat) (ts : List LinkType) (t : LinkType) : List Nat :=
  ((typLinks ts t).map fun i => List.range' ((offsets w ts 0).getD i 0) (w t)).flatten

/-- `_take(a, idxs)` on a flat array -/
def takeIdx {β : Type} (xs : List β) (d : β) (idxs : List Nat) : List β := idxs.map fun i => xs.getD i d

/-- `x.reshape((-1, w))` of a flat batch holding `n` rows -/
def rowsOf {β : Type} (w n : Nat) (xs : List β) : List (List β) :=
  (List.range n).map fun k => slice xs (k * w) w

/-- the batch `f(typ, q, qd, dofs)` sees for type `t`, reshaped to one `LinkIn` per link of the type -/
def typBatch {α : Type} (ts : List LinkType) (q qd : List α) (ds : List (DofP α)) (dq : α) (dd : DofP α)
    (t : LinkType) : List (LinkIn α) :=
  let n := (typLinks ts t).length
  let qs := rowsOf t.qWidth n (takeIdx q dq (typIdxs LinkType.qWidth ts t))
  let qds := rowsOf t.qdWidth n (takeIdx qd dq (typIdxs LinkType.qdWidth ts t))
  let dss := rowsOf t.qdWidth n (takeIdx ds dd (typIdxs LinkType.qdWidth ts t))
  (List.range n).map fun k => ⟨t, qs.getD k [], qds.getD k [], dss.getD k []⟩

/-- `scan.link_types(sys, f, 'qdd', out, q, qd, dofs)`, as coded, for a caller that maps the per-link
function `g` over the rows of each type's batch; `wo` is the width table of the output kind
(`'l'`: 1, `'q'`: `Q_WIDTHS`, `'d'`: `QD_WIDTHS`) -/
def scanLinkTypesCoded {α β : Type} (g : LinkIn α → List β) (wo : LinkType → Nat) (ts : List LinkType)
    (q qd : List α) (ds : List (DofP α)) (dq : α) (dd : DofP α) (dy : β) : List β :=
  let order := typOrder ts
  let ys := (order.map fun t => ((typBatch ts q qd ds dq dd t).map g).flatten).flatten    -- jp.concatenate
  let oidx := (order.map fun t => typIdxs wo ts t).flatten                                -- sum([t[ot] …], [])
  (List.range oidx.length).map fun i => ys.getD (oidx.idxOf i) dy                          -- put back in order

end Brax.Kin
