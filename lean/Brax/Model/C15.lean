import Brax.Scalar
/-!
# C15 — model of the episode / auto-reset / evaluation wrappers and of `acting`

Code mirrored (pinned tree): `brax/envs/wrappers/training.py` (`wrap`, `VmapWrapper`,
`EpisodeWrapper`, `AutoResetWrapper`, `EvalWrapper`), `brax/training/acting.py`
(`actor_step`, `generate_unroll`, `Evaluator`), `brax/envs/base.py` (`State`).

* The inner environment is **any** pair of functions `reset`/`step` on a `State` record
  (`St`): nothing is assumed about it here.  Its own `info` entries travel in `St.info`; the
  keys owned by the wrappers (`steps`, `truncation`, `first_pipeline_state`, `first_obs`,
  `eval_metrics`) are the extra fields of `EpSt`, `ArSt`, `EvSt`.  (Modelling assumption, listed
  in the trusted base: the inner `step` neither reads nor changes the wrapper-owned keys.)
* scalars (`reward`, `done`, `steps`, `truncation`, `active_episodes` …) are floats in the
  code; here one scalar type `R` given by raw operator classes, so the model runs at `Rat`
  in the driver and is instantiated with any linearly ordered ring in the theorems.
* `jp.where(c, x, y)` with a float `c` selects `x` where `c ≠ 0`.
* the first half of the file is one batch member; the second half (`B…`) is the code as it
  is written, over arrays with a leading batch axis (lists), including the `done` mask
  reshaped to `[B,1,…]` and broadcast over the trailing observation axis.
No Mathlib.
-/
namespace Brax.C15

/-- `brax.envs.base.State` of one batch member.  `metrics`: the values of the environment's
own metrics dict in key order (the key set is fixed, as `jax.tree.map` demands). -/
structure St (P O X R : Type) where
  ps : P
  obs : O
  reward : R
  done : R
  metrics : List R
  info : X

/-- an inner environment: any `reset`, any `step` -/
structure Env (K P O X R A : Type) where
  reset : K → St P O X R
  step : St P O X R → A → St P O X R

variable {K P O X R A : Type}

/-- `jp.where(c, x, y)` for a float (or bool) condition: non-zero selects `x` -/
def whereNZ [Zero R] [DecidableEq R] {α : Type} (c : R) (x y : α) : α := if c = 0 then y else x

/-- `jp.sum(rewards, axis=0)` for one member -/
def sumList [Zero R] [Add R] (rs : List R) : R := rs.foldl (· + ·) 0

/-! ## EpisodeWrapper -/

/-- state seen by `EpisodeWrapper`: the inner state plus `info['steps']`, `info['truncation']` -/
structure EpSt (P O X R : Type) where
  st : St P O X R
  steps : R
  truncation : R

/-- `EpisodeWrapper.reset` -/
def epReset [Zero R] (env : Env K P O X R A) (k : K) : EpSt P O X R :=
  ⟨env.reset k, 0, 0⟩

/-- `jax.lax.scan(f, state, (), action_repeat)` with `f = (env.step(state, action), nstate.reward)`:
final carry and the stacked rewards -/
def scanRepeat (env : Env K P O X R A) (a : A) : Nat → St P O X R → St P O X R × List R
  | 0, s => (s, [])
  | n + 1, s =>
    ((scanRepeat env a n (env.step s a)).1,
     (env.step s a).reward :: (scanRepeat env a n (env.step s a)).2)

/-- `EpisodeWrapper.step` (episode_length `L`, action_repeat `r`) -/
def epStep [Zero R] [One R] [Add R] [Sub R] [NatCast R] [LE R] [DecidableLE R]
    (env : Env K P O X R A) (L r : Nat) (s : EpSt P O X R) (a : A) : EpSt P O X R :=
  let sc := scanRepeat env a r s.st
  let st : St P O X R := { sc.1 with reward := sumList sc.2 }
  let steps := s.steps + (r : R)
  let done := if (L : R) ≤ steps then 1 else st.done
  let truncation := if (L : R) ≤ steps then 1 - st.done else 0
  ⟨{ st with done := done }, steps, truncation⟩

/-! ## AutoResetWrapper -/

/-- state seen by `AutoResetWrapper`: plus `info['first_pipeline_state']`, `info['first_obs']` -/
structure ArSt (P O X R : Type) where
  ep : EpSt P O X R
  firstPs : P
  firstObs : O

namespace ArSt
variable (s : ArSt P O X R)
abbrev ps := s.ep.st.ps
abbrev obs := s.ep.st.obs
abbrev reward := s.ep.st.reward
abbrev done := s.ep.st.done
abbrev metrics := s.ep.st.metrics
abbrev steps := s.ep.steps
abbrev truncation := s.ep.truncation
end ArSt

/-- `AutoResetWrapper.reset` -/
def arReset [Zero R] (env : Env K P O X R A) (k : K) : ArSt P O X R :=
  let s := epReset env k
  ⟨s, s.st.ps, s.st.obs⟩

/-- what `AutoResetWrapper.step` hands to `EpisodeWrapper.step`: `steps` zeroed where the
incoming state is done, `done` zeroed -/
def arPre [Zero R] [DecidableEq R] (s : ArSt P O X R) : EpSt P O X R :=
  { s.ep with steps := whereNZ s.ep.st.done 0 s.ep.steps, st := { s.ep.st with done := 0 } }

/-- `AutoResetWrapper.step` (on top of `EpisodeWrapper`, as `wrap` stacks them) -/
def arStep [Zero R] [One R] [Add R] [Sub R] [NatCast R] [LE R] [DecidableLE R] [DecidableEq R]
    (env : Env K P O X R A) (L r : Nat) (s : ArSt P O X R) (a : A) : ArSt P O X R :=
  let n := epStep env L r (arPre s) a
  let ps := whereNZ n.st.done s.firstPs n.st.ps
  let obs := whereNZ n.st.done s.firstObs n.st.obs
  ⟨{ n with st := { n.st with ps := ps, obs := obs } }, s.firstPs, s.firstObs⟩

/-- `training.wrap(env, L, r)`: reset, then the given actions -/
def run [Zero R] [One R] [Add R] [Sub R] [NatCast R] [LE R] [DecidableLE R] [DecidableEq R]
    (env : Env K P O X R A) (L r : Nat) (k : K) (as : List A) : ArSt P O X R :=
  as.foldl (arStep env L r) (arReset env k)

/-! ## EvalWrapper -/

/-- state seen by `EvalWrapper`: plus `metrics['reward']` and `info['eval_metrics']`
(`episode_metrics` = the `reward` entry and the environment's own entries) -/
structure EvSt (P O X R : Type) where
  ar : ArSt P O X R
  mReward : R
  emReward : R
  emMetrics : List R
  active : R
  episodeSteps : R

/-- `EvalWrapper.reset` -/
def evReset [Zero R] [One R] (env : Env K P O X R A) (k : K) : EvSt P O X R :=
  let s := arReset env k
  ⟨s, s.reward, 0, s.metrics.map (fun _ => 0), 1, 0⟩

/-- `EvalWrapper.step` -/
def evStep [Zero R] [One R] [Add R] [Sub R] [Mul R] [NatCast R] [LE R] [DecidableLE R]
    [DecidableEq R] (env : Env K P O X R A) (L r : Nat) (s : EvSt P O X R) (a : A) :
    EvSt P O X R :=
  let n := arStep env L r s.ar a
  ⟨n, n.reward,
   s.emReward + n.reward * s.active,
   List.zipWith (fun x y => x + y * s.active) s.emMetrics n.metrics,
   s.active * (1 - n.done),
   whereNZ s.active n.steps s.episodeSteps⟩

/-! ## acting.actor_step / generate_unroll / Evaluator -/

/-- `brax.training.types.Transition` (`extras['state_extras']['truncation']`) -/
structure Transition (O A R : Type) where
  observation : O
  action : A
  reward : R
  discount : R
  nextObservation : O
  truncation : R

/-- what `actor_step` reads from an environment state -/
structure View (S O R : Type) where
  obs : S → O
  reward : S → R
  done : S → R
  truncation : S → R

variable {S Ky : Type}

/-- `actor_step(env, env_state, policy, key, extra_fields=('truncation',))` -/
def actorStep [One R] [Sub R] (v : View S O R) (step : S → A → S) (π : O → Ky → A) (s : S)
    (key : Ky) : S × Transition O A R :=
  let a := π (v.obs s) key
  let n := step s a
  (n, ⟨v.obs s, a, v.reward n, 1 - v.done n, v.obs n, v.truncation n⟩)

/-- `generate_unroll`: `current_key, next_key = split(current_key)`; the policy gets the first
half, the carry keeps the second -/
def unroll [One R] [Sub R] (v : View S O R) (step : S → A → S) (π : O → Ky → A)
    (split : Ky → Ky × Ky) : Nat → S → Ky → S × List (Transition O A R)
  | 0, s, _ => (s, [])
  | n + 1, s, key =>
    let ks := split key
    let st := actorStep v step π s ks.1
    let rest := unroll v step π split n st.1 ks.2
    (rest.1, st.2 :: rest.2)

def arView : View (ArSt P O X R) O R := ⟨ArSt.obs, ArSt.reward, ArSt.done, ArSt.truncation⟩
def evView : View (EvSt P O X R) O R :=
  ⟨fun s => s.ar.obs, fun s => s.ar.reward, fun s => s.ar.done, fun s => s.ar.truncation⟩

/-- `Evaluator._generate_eval_unroll` for one member: reset, then `L // r` policy steps -/
def evalRun [Zero R] [One R] [Add R] [Sub R] [Mul R] [NatCast R] [LE R] [DecidableLE R]
    [DecidableEq R] (env : Env K P O X R A) (L r : Nat) (π : O → Ky → A)
    (split : Ky → Ky × Ky) (k : K) (key : Ky) : EvSt P O X R :=
  (unroll evView (evStep env L r) π split (L / r) (evReset env k) key).1

/-! ## the code as written: arrays with a leading batch axis -/

/-- element-wise ternary operation on arrays with the same leading axis -/
def zw3 {α β γ δ : Type} (f : α → β → γ → δ) : List α → List β → List γ → List δ
  | x :: xs, y :: ys, z :: zs => f x y z :: zw3 f xs ys zs
  | _, _, _ => []

/-- `jp.where(c, x, y)` on arrays of the same shape (leading axis) -/
def where3 {α : Type} (c : List Bool) (x y : List α) : List α :=
  zw3 (fun c x y => if c then x else y) c x y

/-- non-zero test of a float mask -/
def nz [Zero R] [DecidableEq R] (d : R) : Bool := decide (d ≠ 0)

/-- batched `State` (struct of arrays; observation `[B, n]`) -/
structure BSt (P X R : Type) where
  ps : List P
  obs : List (List R)
  reward : List R
  done : List R
  metrics : List (List R)
  info : List X

/-- slices along the batch axis (what `jax.vmap` feeds to the member function) -/
def membersAux : List P → List (List R) → List R → List R → List (List R) → List X →
    List (St P (List R) X R)
  | p :: ps, o :: os, w :: ws, d :: ds, m :: ms, x :: xs =>
    ⟨p, o, w, d, m, x⟩ :: membersAux ps os ws ds ms xs
  | _, _, _, _, _, _ => []

def BSt.members (b : BSt P X R) : List (St P (List R) X R) :=
  membersAux b.ps b.obs b.reward b.done b.metrics b.info

/-- stacking of the member results (what `jax.vmap` returns) -/
def BSt.stack (l : List (St P (List R) X R)) : BSt P X R :=
  ⟨l.map (·.ps), l.map (·.obs), l.map (·.reward), l.map (·.done), l.map (·.metrics),
   l.map (·.info)⟩

abbrev BEnv (K P X R A : Type) := Env K P (List R) X R A

/-- `VmapWrapper.reset` -/
def vmapReset (env : BEnv K P X R A) (rng : List K) : BSt P X R := BSt.stack (rng.map env.reset)

/-- `VmapWrapper.step` -/
def vmapStep (env : BEnv K P X R A) (s : BSt P X R) (as : List A) : BSt P X R :=
  BSt.stack (List.zipWith env.step s.members as)

structure BEpSt (P X R : Type) where
  st : BSt P X R
  steps : List R
  truncation : List R

/-- `EpisodeWrapper.reset` on a batch: `jp.zeros(rng.shape[:-1])` -/
def bEpReset [Zero R] (env : BEnv K P X R A) (rng : List K) : BEpSt P X R :=
  ⟨vmapReset env rng, List.replicate rng.length 0, List.replicate rng.length 0⟩

/-- the scan of `EpisodeWrapper.step` on a batch: final carry and the `[r, B]` reward rows -/
def bScanRepeat (env : BEnv K P X R A) (as : List A) : Nat → BSt P X R → BSt P X R × List (List R)
  | 0, s => (s, [])
  | n + 1, s =>
    ((bScanRepeat env as n (vmapStep env s as)).1,
     (vmapStep env s as).reward :: (bScanRepeat env as n (vmapStep env s as)).2)

/-- `jp.sum(rewards, axis=0)` of `[r, B]` rows -/
def sumAxis0 [Zero R] [Add R] (B : Nat) (rows : List (List R)) : List R :=
  rows.foldl (List.zipWith (· + ·)) (List.replicate B 0)

/-- `EpisodeWrapper.step` on a batch -/
def bEpStep [Zero R] [One R] [Add R] [Sub R] [NatCast R] [LE R] [DecidableLE R]
    (env : BEnv K P X R A) (L r : Nat) (s : BEpSt P X R) (as : List A) : BEpSt P X R :=
  let sc := bScanRepeat env as r s.st
  let st : BSt P X R := { sc.1 with reward := sumAxis0 s.st.reward.length sc.2 }
  let steps := s.steps.map (· + (r : R))
  let one := st.done.map (fun _ => (1 : R))
  let zero := st.done.map (fun _ => (0 : R))
  let c := steps.map (fun x => decide ((L : R) ≤ x))
  let done := where3 c one st.done
  let truncation := where3 c (st.done.map (1 - ·)) zero
  ⟨{ st with done := done }, steps, truncation⟩

structure BArSt (P X R : Type) where
  ep : BEpSt P X R
  firstPs : List P
  firstObs : List (List R)

/-- `AutoResetWrapper.reset` on a batch -/
def bArReset [Zero R] (env : BEnv K P X R A) (rng : List K) : BArSt P X R :=
  let s := bEpReset env rng
  ⟨s, s.st.ps, s.st.obs⟩

/-- `where_done(x, y)` for a `[B, n]` leaf: `done` reshaped to `[B, 1]`, broadcast along the
trailing axis to the shape of `x`, then an element-wise `where` on the `[B, n]` arrays -/
def whereDoneRows {α : Type} (c : List Bool) (x y : List (List α)) : List (List α) :=
  let mask := List.zipWith (fun ci (xi : List α) => List.replicate xi.length ci) c x
  zw3 where3 mask x y

/-- `AutoResetWrapper.step` on a batch -/
def bArStep [Zero R] [One R] [Add R] [Sub R] [NatCast R] [LE R] [DecidableLE R] [DecidableEq R]
    (env : BEnv K P X R A) (L r : Nat) (s : BArSt P X R) (as : List A) : BArSt P X R :=
  let d0 := s.ep.st.done.map nz
  let steps := where3 d0 (s.ep.steps.map (fun _ => (0 : R))) s.ep.steps
  let pre : BEpSt P X R :=
    { s.ep with steps := steps, st := { s.ep.st with done := s.ep.st.done.map (fun _ => 0) } }
  let n := bEpStep env L r pre as
  let d := n.st.done.map nz
  let ps := where3 d s.firstPs n.st.ps
  let obs := whereDoneRows d s.firstObs n.st.obs
  ⟨{ n with st := { n.st with ps := ps, obs := obs } }, s.firstPs, s.firstObs⟩

structure BEvSt (P X R : Type) where
  ar : BArSt P X R
  mReward : List R
  emReward : List R
  emMetrics : List (List R)
  active : List R
  episodeSteps : List R

/-- `EvalWrapper.reset` on a batch -/
def bEvReset [Zero R] [One R] (env : BEnv K P X R A) (rng : List K) : BEvSt P X R :=
  let s := bArReset env rng
  ⟨s, s.ep.st.reward, s.ep.st.reward.map (fun _ => 0),
   s.ep.st.metrics.map (fun m => m.map (fun _ => 0)),
   s.ep.st.reward.map (fun _ => 1), s.ep.st.reward.map (fun _ => 0)⟩

/-- `EvalWrapper.step` on a batch (`metrics` kept member-major) -/
def bEvStep [Zero R] [One R] [Add R] [Sub R] [Mul R] [NatCast R] [LE R] [DecidableLE R]
    [DecidableEq R] (env : BEnv K P X R A) (L r : Nat) (s : BEvSt P X R) (as : List A) :
    BEvSt P X R :=
  let n := bArStep env L r s.ar as
  ⟨n, n.ep.st.reward,
   zw3 (fun e w act => e + w * act) s.emReward n.ep.st.reward s.active,
   zw3 (fun act (em m : List R) => List.zipWith (fun x y => x + y * act) em m)
     s.active s.emMetrics n.ep.st.metrics,
   List.zipWith (fun act d => act * (1 - d)) s.active n.ep.st.done,
   where3 (s.active.map nz) n.ep.steps s.episodeSteps⟩

/-- batched `wrap(env, L, r)`: reset with the key array, then the `[T, B]` actions -/
def bRun [Zero R] [One R] [Add R] [Sub R] [NatCast R] [LE R] [DecidableLE R] [DecidableEq R]
    (env : BEnv K P X R A) (L r : Nat) (rng : List K) (hist : List (List A)) : BArSt P X R :=
  hist.foldl (bArStep env L r) (bArReset env rng)

/-- batched `EvalWrapper(wrap(env, L, r))` -/
def bEvRun [Zero R] [One R] [Add R] [Sub R] [Mul R] [NatCast R] [LE R] [DecidableLE R]
    [DecidableEq R] (env : BEnv K P X R A) (L r : Nat) (rng : List K) (hist : List (List A)) :
    BEvSt P X R :=
  hist.foldl (bEvStep env L r) (bEvReset env rng)

/-! ## `actor_step` / `generate_unroll` on a batch -/

/-- batched `Transition` (leading axis = batch member) -/
structure BTransition (R A : Type) where
  observation : List (List R)
  action : List A
  reward : List R
  discount : List R
  nextObservation : List (List R)
  truncation : List R

/-- what `actor_step` reads from a batched environment state -/
structure BView (S R : Type) where
  obs : S → List (List R)
  reward : S → List R
  done : S → List R
  truncation : S → List R

/-- `actor_step` on a batch: one policy call on the `[B, n]` observations, `1 - done`
element-wise -/
def bActorStep [One R] [Sub R] (v : BView S R) (step : S → List A → S)
    (pol : List (List R) → Ky → List A) (s : S) (key : Ky) : S × BTransition R A :=
  let a := pol (v.obs s) key
  let n := step s a
  (n, ⟨v.obs s, a, v.reward n, (v.done n).map (1 - ·), v.obs n, v.truncation n⟩)

/-- `generate_unroll` on a batch -/
def bUnroll [One R] [Sub R] (v : BView S R) (step : S → List A → S)
    (pol : List (List R) → Ky → List A) (split : Ky → Ky × Ky) :
    Nat → S → Ky → S × List (BTransition R A)
  | 0, s, _ => (s, [])
  | n + 1, s, key =>
    let ks := split key
    let st := bActorStep v step pol s ks.1
    let rest := bUnroll v step pol split n st.1 ks.2
    (rest.1, st.2 :: rest.2)

def bArView : BView (BArSt P X R) R :=
  ⟨fun s => s.ep.st.obs, fun s => s.ep.st.reward, fun s => s.ep.st.done, fun s => s.ep.truncation⟩
def bEvView : BView (BEvSt P X R) R :=
  ⟨fun s => s.ar.ep.st.obs, fun s => s.ar.ep.st.reward, fun s => s.ar.ep.st.done,
   fun s => s.ar.ep.truncation⟩

/-- `Evaluator._generate_eval_unroll`: batched reset, then `L // r` policy steps -/
def bEvalRun [Zero R] [One R] [Add R] [Sub R] [Mul R] [NatCast R] [LE R] [DecidableLE R]
    [DecidableEq R] (env : BEnv K P X R A) (L r : Nat) (pol : List (List R) → Ky → List A)
    (split : Ky → Ky × Ky) (rng : List K) (key : Ky) : BEvSt P X R :=
  (bUnroll bEvView (bEvStep env L r) pol split (L / r) (bEvReset env rng) key).1

end Brax.C15

namespace Brax.C15

/-! ## the scripted environment used by the driver, the harness and the non-vacuity examples

Termination schedule and rewards are data (`Script`, carried by the reset key, as the Python
twin `harness/corr_C15.py:Scripted` decodes them from the bits of the `rng` argument).  The
schedule is indexed either by a counter in the pipeline state (`localIdx`, restored by
`AutoResetWrapper`, so every episode replays) or by a counter in `info` (never restored, so
the termination pattern over the whole history is arbitrary). -/

structure Script (R : Type) where
  localIdx : Bool
  c : R
  acc0 : R
  b0 : R
  b1 : R
  firstN : Nat
  aw : R
  kill : R
  dones : List R
  rewards : List R

structure SPs (R : Type) where
  t : Nat
  acc : R

structure SInfo (R : Type) where
  g : Nat
  sc : Script R

variable {R : Type}

def scriptedReset [Zero R] (sc : Script R) : St (SPs R) (List R) (SInfo R) R :=
  ⟨⟨0, sc.acc0⟩, [0, sc.acc0, sc.c], 0, 0, [0, 0, 0], ⟨0, sc⟩⟩

def scriptedStep [Zero R] [One R] [Add R] [Mul R] [NatCast R] [DecidableEq R]
    (s : St (SPs R) (List R) (SInfo R) R) (a : R) : St (SPs R) (List R) (SInfo R) R :=
  let sc := s.info.sc
  let g := s.info.g
  let idx := if sc.localIdx then s.ps.t else g
  let done : R := if sc.dones.getD idx 0 ≠ 0 ∨ a = sc.kill then 1 else 0
  let reward := sc.rewards.getD idx 0 + sc.aw * a
  let t := s.ps.t + 1
  let acc := s.ps.acc + a
  let first := decide (g < sc.firstN)
  ⟨⟨t, acc⟩, [(t : R), acc, s.obs.getD 2 0], reward, done,
   [if first then sc.b0 else 0, if first then sc.b1 else 0, acc], ⟨g + 1, sc⟩⟩

def scripted [Zero R] [One R] [Add R] [Mul R] [NatCast R] [DecidableEq R] :
    Env (Script R) (SPs R) (List R) (SInfo R) R R :=
  ⟨scriptedReset, scriptedStep⟩

end Brax.C15
