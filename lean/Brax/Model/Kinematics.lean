import Brax.Model.Sys
/-!
# Model of `brax/kinematics.py` (forward, world_to_joint) and Layer B (stage 1)

Layer B stage 1 (DESIGN.md 5, "Shared layers"): `scan.link_types` is modelled as the per-link
slicing of `q`/`qd`/dofs it implements (`linkSlices`), `scan.tree` as the parent-indexed
recursion it implements (`scanFwd`); both are tied to the real `scan` functions by the exact
correspondence of C01/C05.  Everything else is a transcription of the per-link lambdas.
-/
namespace Brax

/-- `math.quat_rot_axis` -/
def quatRotAxis {α : Type} [One α] [Add α] [Mul α] [Div α] [HasTrig α] (axis : V3 α) (angle : α) :
    Q4 α :=
  let h := angle / (1 + 1)
  let s := HasTrig.sin h
  ⟨HasTrig.cos h, axis.x * s, axis.y * s, axis.z * s⟩

namespace Kin

/-- `xs[start : start+len]` -/
def slice {β : Type} (xs : List β) (start len : Nat) : List β := (xs.drop start).take len

/-- per-link inputs: what `scan.link_types(sys, f, 'qdd', …, q, qd, sys.dof.motion)` hands to
`f` for one link -/
structure LinkIn (α : Type) where
  typ : LinkType
  q : List α
  qd : List α
  dofs : List (DofP α)

/-- Layer B: split `q`, `qd` and the dof list by the running `Q_WIDTHS`/`QD_WIDTHS` offsets -/
def linkSlices {α : Type} : List LinkType → List α → List α → List (DofP α) → List (LinkIn α)
  | [], _, _, _ => []
  | t :: ts, q, qd, ds =>
    ⟨t, q.take t.qWidth, qd.take t.qdWidth, ds.take t.qdWidth⟩
      :: linkSlices ts (q.drop t.qWidth) (qd.drop t.qdWidth) (ds.drop t.qdWidth)

/-- Layer B: `scan.tree(sys, f, …)` (root to leaves) as the recursion it implements:
`r i = f (r (parent i)) (arg i)`, roots get `none`.  Links are visited in index order; a parent
index that is not an earlier link is treated as "no parent" (never happens for `Sys.WF`). -/
def scanFwd {β γ : Type} (f : Option β → γ → β) (parents : List Int) (args : List γ) : List β :=
  let step := fun (acc : List β) (pa : Int × γ) =>
    let par : Option β := if pa.1 < 0 then none else acc[pa.1.toNat]?
    acc ++ [f par pa.2]
  (parents.zip args).foldl step []

/-- depth of every link (roots 0), as `depth_fn` of `scan.tree` -/
def depths (parents : List Int) : List Nat :=
  scanFwd (fun (par : Option Nat) (_ : Unit) => match par with | none => 0 | some d => d + 1)
    parents (parents.map fun _ => ())

/-- Layer B: `scan.tree(sys, f, …, reverse=True)` (leaves to root) as the recursion it
implements: `r i = h (carry i) (arg i)` where `carry i` is the sum of `r c` over the children
`c` of `i` (zero for a childless link), **except** that links of the deepest level receive
`none` (the python `y is None` on the first processed level). -/
def scanRev {β γ : Type} [Zero β] [Add β] (h : Option β → γ → β) (parents : List Int)
    (args : List γ) : List β :=
  let n := parents.length
  let ds := depths parents
  let maxD := ds.foldl max 0
  let step := fun (x : Nat × Int × γ) (st : List β × List β) =>
    let carry : Option β := if ds.getD x.1 0 = maxD then none else some (st.1.getD x.1 0)
    let r := h carry x.2.2
    let sums' := if x.2.1 < 0 then st.1 else st.1.modify x.2.1.toNat (· + r)
    (sums', r :: st.2)
  (((List.range n).zip (parents.zip args)).foldr step (List.replicate n 0, [])).2

section real
variable {α : Type} [Zero α] [One α] [Add α] [Sub α] [Mul α] [Neg α] [Div α]
  [LT α] [DecidableLT α] [LE α] [DecidableLE α] [OfScientific α] [HasSqrt α] [HasTrig α]

/-- one dof of a non-free link: `(Transform(pos = vel·q, rot = normalize(quat_rot_axis(ang,q))),
motion·qd)` -/
def jcalcDof (d : DofP α) (q qd : α) : Tf α × Motion α :=
  (⟨⟨d.motion.vel.x * q, d.motion.vel.y * q, d.motion.vel.z * q⟩,
    normalize4 (quatRotAxis d.motion.ang q)⟩,
   ⟨⟨d.motion.ang.x * qd, d.motion.ang.y * qd, d.motion.ang.z * qd⟩,
    ⟨d.motion.vel.x * qd, d.motion.vel.y * qd, d.motion.vel.z * qd⟩⟩)

/-- accumulate one more dof of a stack (the body of the python `for i in range(1, num_dofs)`) -/
def jcalcAcc (acc : Tf α × Motion α) (ji : Tf α × Motion α) : Tf α × Motion α :=
  (Tf.doTf acc.1 ji.1,
   acc.2 + ⟨rotate ji.2.ang ji.1.rot, rotate (ji.2.vel + V3.cross ji.1.pos ji.2.ang) ji.1.rot⟩)

/-- `jcalc` for one link -/
def jcalc (l : LinkIn α) : Tf α × Motion α :=
  match l.typ with
  | .free =>
    match l.q, l.qd with
    | [p0, p1, p2, r0, r1, r2, r3], [v0, v1, v2, w0, w1, w2] =>
      (⟨⟨p0, p1, p2⟩, ⟨r0, r1, r2, r3⟩⟩, ⟨⟨w0, w1, w2⟩, ⟨v0, v1, v2⟩⟩)
    | _, _ => (Tf.id, Motion.zero)
  | _ =>
    match (l.dofs.zip (l.q.zip l.qd)).map (fun d => jcalcDof d.1 d.2.1 d.2.2) with
    | [] => (Tf.id, Motion.zero)
    | j0 :: rest => rest.foldl jcalcAcc j0

/-- joint position offset and link transform:
`j.pos += joint.pos − rotate(joint.pos, j.rot)`; `j = link.transform.do(j)` -/
def placeJoint (lk : LinkP α) (j : Tf α) : Tf α :=
  let anchor := Tf.doTf ⟨V3.zero, j.rot⟩ lk.joint
  Tf.doTf lk.tf ⟨j.pos + lk.joint.pos - anchor.pos, j.rot⟩

/-- `world` of `kinematics.forward` -/
def world (parent : Option (Tf α × Motion α)) (jj : Tf α × Motion α) : Tf α × Motion α :=
  match parent with
  | none => (jj.1, ⟨rotate jj.2.ang jj.1.rot, jj.2.vel⟩)
  | some (xp, xdp) =>
    let x := Tf.doTf xp jj.1
    let vel := xdp.vel + V3.cross xdp.ang (x.pos - xp.pos) + rotate jj.2.vel xp.rot
    let ang := xdp.ang + rotate jj.2.ang x.rot
    (x, ⟨ang, vel⟩)

/-- `kinematics.forward(sys, q, qd)`: world transform and motion of every link -/
def forward (s : Sys α) (q qd : List α) : List (Tf α × Motion α) :=
  let ins := linkSlices s.types q qd s.dofs
  let jj := (s.links.zip ins).map (fun li =>
    let jjd := jcalc li.2
    -- joint-frame linear velocity is moved from the link frame to the parent frame
    (placeJoint li.1 jjd.1, (⟨jjd.2.ang, rotate jjd.2.vel li.1.tf.rot⟩ : Motion α)))
  (scanFwd world s.parents jj).map (fun x => (⟨x.1.pos, normalize4 x.1.rot⟩, x.2))

end real

section w2j
variable {α : Type} [Zero α] [One α] [Add α] [Sub α] [Mul α] [Neg α]

/-- parent lookup `x.concatenate(zero).take(parent_idx)`: index −1 (and, by `mode='wrap'`,
any index ≡ −1 mod (n+1)) reads the appended identity -/
def takeParent {β : Type} (xs : List β) (dflt : β) (p : Int) : β :=
  let n : Int := xs.length + 1
  let i := (p % n).toNat
  (xs ++ [dflt]).getD i dflt

/-- `kinematics.world_to_joint`: returns `(j, jd, a_p, a_c)` per link -/
def worldToJoint (s : Sys α) (x : List (Tf α)) (xd : List (Motion α)) :
    List (Tf α × Motion α × Tf α × Tf α) :=
  (List.range s.links.length).filterMap fun i => do
    let lk ← s.links[i]?
    let xi ← x[i]?
    let xdi ← xd[i]?
    let p := s.parents.getD i (-1)
    let xp := takeParent x Tf.id p
    let xdp := takeParent xd Motion.zero p
    let a_p := Tf.doTf (Tf.doTf xp lk.tf) lk.joint
    let a_c := Tf.doTf xi lk.joint
    let j := Tf.toLocal a_c a_p
    let xd_wj := Tf.doMotion ⟨xp.pos - a_p.pos, Q4.one⟩ xdp
    let xdj : Motion α := ⟨xdi.ang - xd_wj.ang, xdi.vel - xd_wj.vel⟩
    let jd : Motion α := ⟨invRotate xdj.ang a_p.rot, invRotate xdj.vel a_p.rot⟩
    pure (j, jd, a_p, a_c)

end w2j
end Kin
end Brax
