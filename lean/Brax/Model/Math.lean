import Brax.Scalar
/-!
# Hand model of `brax/math.py` and the spatial types of `brax/base.py` (Layer A)

Written over raw operator classes; no Mathlib.  `Brax/Gen/*.lean` is generated from the
source on every run and `Brax/Props/C09.lean` proves `Gen.f = Model.f` (bridge lemmas),
which is what ties this hand model to `/repo`.
-/
set_option linter.unusedSectionVars false
namespace Brax

structure V3 (α : Type) where
  x : α
  y : α
  z : α
deriving Repr, BEq, DecidableEq

structure Q4 (α : Type) where
  w : α
  x : α
  y : α
  z : α
deriving Repr, BEq, DecidableEq

/-- 3x3 matrix by rows -/
structure M3 (α : Type) where
  r0 : V3 α
  r1 : V3 α
  r2 : V3 α
deriving Repr, BEq, DecidableEq

section ring
variable {α : Type} [Zero α] [One α] [Add α] [Sub α] [Mul α] [Neg α]

namespace V3
def zero : V3 α := ⟨0, 0, 0⟩
def add (a b : V3 α) : V3 α := ⟨a.x + b.x, a.y + b.y, a.z + b.z⟩
def sub (a b : V3 α) : V3 α := ⟨a.x - b.x, a.y - b.y, a.z - b.z⟩
def neg (a : V3 α) : V3 α := ⟨-a.x, -a.y, -a.z⟩
def smul (s : α) (a : V3 α) : V3 α := ⟨s * a.x, s * a.y, s * a.z⟩
def dot (a b : V3 α) : α := a.x * b.x + a.y * b.y + a.z * b.z
/-- `jp.cross` -/
def cross (a b : V3 α) : V3 α :=
  ⟨a.y * b.z - a.z * b.y, a.z * b.x - a.x * b.z, a.x * b.y - a.y * b.x⟩
def normSq (a : V3 α) : α := dot a a
instance : Add (V3 α) := ⟨add⟩
instance : Sub (V3 α) := ⟨sub⟩
instance : Neg (V3 α) := ⟨neg⟩
@[simp] theorem add_def (a b : V3 α) : a + b = ⟨a.x + b.x, a.y + b.y, a.z + b.z⟩ := rfl
@[simp] theorem sub_def (a b : V3 α) : a - b = ⟨a.x - b.x, a.y - b.y, a.z - b.z⟩ := rfl
@[simp] theorem neg_def (a : V3 α) : -a = ⟨-a.x, -a.y, -a.z⟩ := rfl
end V3

namespace Q4
def one : Q4 α := ⟨1, 0, 0, 0⟩
def vec (q : Q4 α) : V3 α := ⟨q.x, q.y, q.z⟩
def normSq (q : Q4 α) : α := q.w * q.w + q.x * q.x + q.y * q.y + q.z * q.z
def smul (s : α) (q : Q4 α) : Q4 α := ⟨s * q.w, s * q.x, s * q.y, s * q.z⟩
def add (a b : Q4 α) : Q4 α := ⟨a.w + b.w, a.x + b.x, a.y + b.y, a.z + b.z⟩
end Q4

/-- `math.quat_mul` -/
def quatMul (u v : Q4 α) : Q4 α :=
  ⟨u.w * v.w - u.x * v.x - u.y * v.y - u.z * v.z,
   u.w * v.x + u.x * v.w + u.y * v.z - u.z * v.y,
   u.w * v.y - u.x * v.z + u.y * v.w + u.z * v.x,
   u.w * v.z + u.x * v.y - u.y * v.x + u.z * v.w⟩

/-- `math.quat_inv` (conjugate) -/
def quatInv (q : Q4 α) : Q4 α := ⟨q.w, -q.x, -q.y, -q.z⟩

/-- `math.rotate`:  `2 (u·v) u + (s² − u·u) v + 2 s (u × v)` -/
def rotate (v : V3 α) (q : Q4 α) : V3 α :=
  let s := q.w
  let u := q.vec
  let two : α := 1 + 1
  let d := two * V3.dot u v
  let c := s * s - V3.dot u u
  let k := two * s
  let cr := V3.cross u v
  ⟨d * u.x + c * v.x + k * cr.x, d * u.y + c * v.y + k * cr.y, d * u.z + c * v.z + k * cr.z⟩

/-- `math.inv_rotate` -/
def invRotate (v : V3 α) (q : Q4 α) : V3 α := rotate v (quatInv q)

/-- `math.ang_to_quat` -/
def angToQuat (a : V3 α) : Q4 α := ⟨0, a.x, a.y, a.z⟩

/-- `math.vec_quat_mul` -/
def vecQuatMul (u : V3 α) (v : Q4 α) : Q4 α :=
  ⟨-u.x * v.x - u.y * v.y - u.z * v.z,
   u.x * v.w + u.y * v.z - u.z * v.y,
   -u.x * v.z + u.y * v.w + u.z * v.x,
   u.x * v.y - u.y * v.x + u.z * v.w⟩

/-- `math.quat_mul_ang` (`jp.dot(ang, mat)`) -/
def quatMulAng (q : Q4 α) (a : V3 α) : Q4 α :=
  ⟨a.x * (-q.y) + a.y * (-q.z) + a.z * (-q.w),
   a.x * q.x + a.y * q.w + a.z * (-q.z),
   a.x * (-q.w) + a.y * q.x + a.z * q.y,
   a.x * q.z + a.y * (-q.y) + a.z * q.x⟩

/-- `math.relative_quat` -/
def relativeQuat (q1 q2 : Q4 α) : Q4 α := quatMul q2 (quatInv q1)

namespace M3
def mulVec (m : M3 α) (v : V3 α) : V3 α := ⟨V3.dot m.r0 v, V3.dot m.r1 v, V3.dot m.r2 v⟩
def transpose (m : M3 α) : M3 α :=
  ⟨⟨m.r0.x, m.r1.x, m.r2.x⟩, ⟨m.r0.y, m.r1.y, m.r2.y⟩, ⟨m.r0.z, m.r1.z, m.r2.z⟩⟩
def col0 (m : M3 α) : V3 α := ⟨m.r0.x, m.r1.x, m.r2.x⟩
def col1 (m : M3 α) : V3 α := ⟨m.r0.y, m.r1.y, m.r2.y⟩
def col2 (m : M3 α) : V3 α := ⟨m.r0.z, m.r1.z, m.r2.z⟩
def mul (a b : M3 α) : M3 α :=
  ⟨⟨V3.dot a.r0 b.col0, V3.dot a.r0 b.col1, V3.dot a.r0 b.col2⟩,
   ⟨V3.dot a.r1 b.col0, V3.dot a.r1 b.col1, V3.dot a.r1 b.col2⟩,
   ⟨V3.dot a.r2 b.col0, V3.dot a.r2 b.col1, V3.dot a.r2 b.col2⟩⟩
def add (a b : M3 α) : M3 α := ⟨a.r0 + b.r0, a.r1 + b.r1, a.r2 + b.r2⟩
def smul (s : α) (a : M3 α) : M3 α := ⟨V3.smul s a.r0, V3.smul s a.r1, V3.smul s a.r2⟩
def one : M3 α := ⟨⟨1, 0, 0⟩, ⟨0, 1, 0⟩, ⟨0, 0, 1⟩⟩
def zero : M3 α := ⟨V3.zero, V3.zero, V3.zero⟩
def det (m : M3 α) : α :=
  m.r0.x * (m.r1.y * m.r2.z - m.r1.z * m.r2.y)
  - m.r0.y * (m.r1.x * m.r2.z - m.r1.z * m.r2.x)
  + m.r0.z * (m.r1.x * m.r2.y - m.r1.y * m.r2.x)
end M3

/-! ## Spatial types (`brax/base.py`) -/

/-- `base.Transform` -/
structure Tf (α : Type) where
  pos : V3 α
  rot : Q4 α
deriving Repr, BEq, DecidableEq

/-- `base.Motion` -/
structure Motion (α : Type) where
  ang : V3 α
  vel : V3 α
deriving Repr, BEq, DecidableEq

/-- `base.Force` -/
structure Force (α : Type) where
  ang : V3 α
  vel : V3 α
deriving Repr, BEq, DecidableEq

/-- `base.Inertia`: `transform`, `i`, `mass` -/
structure Inertia (α : Type) where
  tf : Tf α
  i : M3 α
  mass : α
deriving Repr, BEq, DecidableEq

namespace Tf
def id : Tf α := ⟨V3.zero, Q4.one⟩
/-- `Transform.do(Transform)` -/
def doTf (self t : Tf α) : Tf α := ⟨self.pos + rotate t.pos self.rot, quatMul self.rot t.rot⟩
/-- `Transform.do(Motion)` -/
def doMotion (self : Tf α) (m : Motion α) : Motion α :=
  let rt := quatInv self.rot
  ⟨rotate m.ang rt, rotate (m.vel - V3.cross self.pos m.ang) rt⟩
/-- `Transform.inv_do(Motion)` -/
def invDoMotion (self : Tf α) (m : Motion α) : Motion α :=
  let ang := rotate m.ang self.rot
  ⟨ang, rotate m.vel self.rot + V3.cross self.pos ang⟩
/-- `Transform.do(Force)` -/
def doForce (self : Tf α) (f : Force α) : Force α :=
  let vel := rotate f.vel self.rot
  ⟨rotate f.ang self.rot + V3.cross self.pos vel, vel⟩
/-- `Transform.to_local` -/
def toLocal (self t : Tf α) : Tf α :=
  ⟨rotate (self.pos - t.pos) (quatInv t.rot), quatMul (quatInv t.rot) self.rot⟩
end Tf

namespace Motion
def zero : Motion α := ⟨V3.zero, V3.zero⟩
def add (a b : Motion α) : Motion α := ⟨a.ang + b.ang, a.vel + b.vel⟩
def smul (s : α) (a : Motion α) : Motion α := ⟨V3.smul s a.ang, V3.smul s a.vel⟩
/-- `Motion.dot` -/
def dotF (m : Motion α) (f : Force α) : α := V3.dot m.vel f.vel + V3.dot m.ang f.ang
def dotM (m : Motion α) (f : Motion α) : α := V3.dot m.vel f.vel + V3.dot m.ang f.ang
/-- `self.cross(Motion)` -/
def crossM (self m : Motion α) : Motion α :=
  ⟨V3.cross self.ang m.ang, V3.cross self.ang m.vel + V3.cross self.vel m.ang⟩
/-- `self.cross(Force)` -/
def crossF (self : Motion α) (f : Force α) : Force α :=
  ⟨V3.cross self.ang f.ang + V3.cross self.vel f.vel, V3.cross self.ang f.vel⟩
instance : Add (Motion α) := ⟨add⟩
@[simp] theorem add_def (a b : Motion α) : a + b = ⟨a.ang + b.ang, a.vel + b.vel⟩ := rfl
end Motion

namespace Force
def zero : Force α := ⟨V3.zero, V3.zero⟩
def add (a b : Force α) : Force α := ⟨a.ang + b.ang, a.vel + b.vel⟩
def sub (a b : Force α) : Force α := ⟨a.ang - b.ang, a.vel - b.vel⟩
def neg (a : Force α) : Force α := ⟨-a.ang, -a.vel⟩
def smul (s : α) (a : Force α) : Force α := ⟨V3.smul s a.ang, V3.smul s a.vel⟩
instance : Add (Force α) := ⟨add⟩
instance : Sub (Force α) := ⟨sub⟩
instance : Neg (Force α) := ⟨neg⟩
@[simp] theorem add_def (a b : Force α) : a + b = ⟨a.ang + b.ang, a.vel + b.vel⟩ := rfl
@[simp] theorem sub_def (a b : Force α) : a - b = ⟨a.ang - b.ang, a.vel - b.vel⟩ := rfl
@[simp] theorem neg_def (a : Force α) : -a = ⟨-a.ang, -a.vel⟩ := rfl
end Force

/-- `Inertia.mul` -/
def Inertia.mul (it : Inertia α) (m : Motion α) : Force α :=
  ⟨M3.mulVec it.i m.ang + V3.cross it.tf.pos m.vel,
   V3.smul it.mass m.vel - V3.cross it.tf.pos m.ang⟩

end ring

section field
variable {α : Type} [Zero α] [One α] [Add α] [Sub α] [Mul α] [Neg α] [Div α]

/-- `math.quat_to_3x3` -/
def quatTo3x3 (q : Q4 α) : M3 α :=
  let d := q.w * q.w + q.x * q.x + q.y * q.y + q.z * q.z
  let s := (1 + 1) / d
  let xs := q.x * s; let ys := q.y * s; let zs := q.z * s
  let wx := q.w * xs; let wy := q.w * ys; let wz := q.w * zs
  let xx := q.x * xs; let xy := q.x * ys; let xz := q.x * zs
  let yy := q.y * ys; let yz := q.y * zs; let zz := q.z * zs
  ⟨⟨1 - (yy + zz), xy - wz, xz + wy⟩,
   ⟨xy + wz, 1 - (xx + zz), yz - wx⟩,
   ⟨xz - wy, yz + wx, 1 - (xx + yy)⟩⟩

/-- `Transform.do(Inertia)`:  `i' = R i Rᵀ + h hᵀ m`, `transform' = (pos·m, rot)` -/
def Tf.doInertia (self : Tf α) (it : Inertia α) : Inertia α :=
  let p := self.pos
  -- h = cross(pos, -eye(3)): rows are  p × (−e_k) … as computed by jp.cross broadcasting
  let h : M3 α := ⟨V3.cross p ⟨-1, 0, 0⟩, V3.cross p ⟨0, -1, 0⟩, V3.cross p ⟨0, 0, -1⟩⟩
  let r := quatTo3x3 self.rot
  let i := M3.add (M3.mul (M3.mul r it.i) r.transpose) (M3.smul it.mass (M3.mul h h.transpose))
  ⟨⟨V3.smul it.mass p, self.rot⟩, i, it.mass⟩

end field

section real
variable {α : Type} [Zero α] [One α] [Add α] [Sub α] [Mul α] [Neg α] [Div α]
  [LT α] [DecidableLT α] [LE α] [DecidableLE α] [OfScientific α] [HasSqrt α]

/-- `jp.allclose(x, 0.0)` on a list of components: all `|x_i| ≤ 1e-8` -/
def allClose0 (xs : List α) : Bool := xs.all fun x => decide (absv x ≤ (1e-8 : α))

/-- `math.safe_norm` on a list of components -/
def safeNormL (xs : List α) : α :=
  let z := allClose0 xs
  let ys := if z then xs.map (· + 1) else xs
  let n := HasSqrt.sqrt (ys.foldl (fun acc y => acc + y * y) 0)
  if z then 0 else n

def safeNorm3 (v : V3 α) : α := safeNormL [v.x, v.y, v.z]
def safeNorm4 (q : Q4 α) : α := safeNormL [q.w, q.x, q.y, q.z]

/-- `math.normalize(x)[0]` for a 3-vector -/
def normalize3 (v : V3 α) : V3 α :=
  let n := safeNorm3 v
  let d := if eqZero n then n + 1e-6 else n
  ⟨v.x / d, v.y / d, v.z / d⟩

/-- `math.normalize(x)[0]` for a quaternion -/
def normalize4 (q : Q4 α) : Q4 α :=
  let n := safeNorm4 q
  let d := if eqZero n then n + 1e-6 else n
  ⟨q.w / d, q.x / d, q.y / d, q.z / d⟩

end real

end Brax
