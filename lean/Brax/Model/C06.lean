import Brax.Model.Positional
/-!
# C06 — model of `brax/generalized/constraint.py` (+ the one definition that isolates defect D3)

The spring and positional pipelines are modelled by C04's reusable files
(`Brax/Model/{Com,Spring,Positional}.lean`: `Spring.limDelta/oneDof/twoDof/threeDof/impulse/collide/
integrateLink`, `Positional.sphericalize/limitAngle/threeDofJointUpdate/translate/positionSpread/
resolvePosition/velImpulse/resolveVelocity/integrateXddLink`).  This file adds what C06 needs beyond
them — the constraint rows and the constraint force of the generalized pipeline:

* `SolverParams`, `impAref`        — `_imp_aref(params, pos, vel)`
* `limitIdx`                       — `sys.q_idx('123')` zipped with `sys.qd_idx('123')`
* `limitRow`, `jacLimit`           — `jac_limit(sys, state)`  (`(jac, diag, aref)`, in that order)
* `chain`, `ancestorMask`, `dofLink`, `pointJacobian` — `point_jacobian(sys, com, cdof, pos, link_idx)`
  (Layer B stage 1: the reverse `scan.tree` that builds the link mask is modelled as the
  recursion it implements: `mask l = (l == idx) ∨ ⋁_{children c} mask c`, i.e. `l` lies on the path
  from `idx` to its root)
* `GContact`, `contactDirs`, `contactRows`, `jacContact` — `jac_contact` with the contacts passed in as
  data (`contact.get` → `mjx.collision` is external, DESIGN.md 3)
* `jacobian`                       — `jacobian(sys, state)`: contact rows, then limit rows
* `force`                          — `force(sys, state)` with `jaxopt.ProjectedGradient(...).run(0).params`
  as the **parameter** `solver a b` (trusted: returns some `x ≥ 0`); includes the early
  `zeros(qd_size)` return when there is no row
* `noContactReturn`                — what `positional.collisions.resolve_position` returns for
  `contact is None`: `state.x_i` with renormalised rotations (since the `fix:` commit ce5b080 for
  defect D3); `noContactReturnPinned` is the pinned tree's version (`state.x_i` unchanged), the one
  definition that changed with the fix.

No Mathlib.  Raw operator classes; runs at `Rat` (with a `HasPow Rat` for natural exponents supplied
by the driver) and `Float`.
-/
set_option linter.unusedSectionVars false
namespace Brax
namespace C06
open MC

/-- `params` of `_imp_aref`: `timeconst, dampratio, dmin, dmax, width, mid, power`
(= `solref ++ solimp`) -/
structure SolverParams (α : Type) where
  timeconst : α
  dampratio : α
  dmin : α
  dmax : α
  width : α
  mid : α
  power : α
deriving Repr

instance {α : Type} [Zero α] : Inhabited (SolverParams α) := ⟨⟨0, 0, 0, 0, 0, 0, 0⟩⟩

/-- `row @ v` -/
def dotL {α : Type} [Zero α] [Add α] [Mul α] (r v : List α) : α := (List.zipWith (· * ·) r v).sum

section impAref
variable {α : Type} [Zero α] [One α] [Add α] [Sub α] [Mul α] [Neg α] [Div α]
  [LT α] [DecidableLT α] [LE α] [DecidableLE α] [OfScientific α] [HasPow α]

/-- `_imp_aref(params, pos, vel)`: `(imp, aref)`
```
imp_x = abs(pos) / width
imp_a = (1.0 / power(mid, power - 1)) * power(imp_x, power)
imp_b = 1 - (1.0 / power(1 - mid, power - 1)) * power(1 - imp_x, power)
imp_y = where(imp_x < mid, imp_a, imp_b)
imp = clip(dmin + imp_y * (dmax - dmin), dmin, dmax);  imp = where(imp_x > 1.0, dmax, imp)
b = 2 / (dmax * timeconst);  k = 1 / (dmax * dmax * timeconst * timeconst * dampratio * dampratio)
stiffness, damping = params[:2]
b = where(damping <= 0, -damping / dmax, b);  k = where(stiffness <= 0, -stiffness / (dmax * dmax), k)
aref = -b * vel - k * imp * pos
``` -/
def impAref (p : SolverParams α) (pos vel : α) : α × α :=
  let impX := absv pos / p.width
  let impA := (1 / HasPow.pow p.mid (p.power - 1)) * HasPow.pow impX p.power
  let impB := 1 - (1 / HasPow.pow (1 - p.mid) (p.power - 1)) * HasPow.pow (1 - impX) p.power
  let impY := if impX < p.mid then impA else impB
  let imp := p.dmin + impY * (p.dmax - p.dmin)
  let imp := clip imp p.dmin p.dmax
  let imp := if 1 < impX then p.dmax else imp
  let b := 2.0 / (p.dmax * p.timeconst)
  let k := 1 / (p.dmax * p.dmax * p.timeconst * p.timeconst * p.dampratio * p.dampratio)
  -- `stiffness, damping = params[:2]`: the same two numbers read as (negative) stiffness/damping
  let b := if p.dampratio ≤ 0 then -p.dampratio / p.dmax else b
  let k := if p.timeconst ≤ 0 then -p.timeconst / (p.dmax * p.dmax) else k
  (imp, -b * vel - k * imp * pos)

end impAref

/-! ## `jac_limit` -/

/-- `zip(sys.q_idx('123'), sys.qd_idx('123'))`: the `(q, qd)` index of every dof of a non-free
link, in link order (non-free links have equal `q` and `qd` widths) -/
def limitIdxFrom : List LinkType → Nat → Nat → List (Nat × Nat)
  | [], _, _ => []
  | t :: ts, q, qd =>
    (if t == .free then [] else (List.range t.qdWidth).map fun d => (q + d, qd + d))
      ++ limitIdxFrom ts (q + t.qWidth) (qd + t.qdWidth)

def limitIdx (ts : List LinkType) : List (Nat × Nat) := limitIdxFrom ts 0 0

section limit
variable {α : Type} [Zero α] [One α] [Add α] [Sub α] [Mul α] [Neg α] [Div α]
  [LT α] [DecidableLT α] [LE α] [DecidableLE α] [OfScientific α] [HasPow α]

/-- `jp.minimum` on values that may be `+inf` (`none`) -/
def minE : Option α → Option α → Option α
  | some a, some b => some (minv a b)
  | some a, none => some a
  | none, b => b

/-- `<` on values that may be `+inf` (`none`): `inf < x` is false, `x < inf` is true for finite `x` -/
def ltE : Option α → Option α → Bool
  | some a, some b => decide (a < b)
  | some _, none => true
  | none, _ => false

/-- `pos_min = q - limit[0]` (`+inf` for `limit[0] = -inf`), `pos_max = limit[1] - q` -/
def posMin (q : α) (lo : Option α) : Option α := lo.map fun l => q - l
def posMax (q : α) (hi : Option α) : Option α := hi.map fun h => h - q

/-- `pos = minimum(minimum(pos_min, pos_max), 0)` -/
def limitPos (q : α) (lo hi : Option α) : α :=
  match minE (posMin q lo) (posMax q hi) with
  | some m => minv m 0
  | none => 0

/-- `side = ((pos_min < pos_max) * 2 - 1) * (pos < 0)` -/
def limitSide (q : α) (lo hi : Option α) : α :=
  ((if ltE (posMin q lo) (posMax q hi) then (1 : α) else 0) * 2.0 - 1)
    * (if limitPos q lo hi < 0 then 1 else 0)

/-- one row of `jac_limit` for the dof with `q` index `qi` and `qd` index `di`:
`(jac row, diag, aref)`
```
jac = eye(qd_size)[di] * side
imp, aref = _imp_aref(params[di], pos, jac @ qd)
diag = invweight[di] * (pos < 0) * (1 - imp) / (imp + 1e-8)
aref = aref * (pos < 0)
``` -/
def limitRow (nv : Nat) (d : DofP α) (p : SolverParams α) (di : Nat) (q : α) (qd : List α) :
    List α × α × α :=
  let pos := limitPos q d.lo d.hi
  let side := limitSide q d.lo d.hi
  let row := tab nv fun j => (if j = di then (1 : α) else 0) * side
  let ia := impAref p pos (dotL row qd)
  let act : α := if pos < 0 then 1 else 0
  (row, d.invweight * act * (1 - ia.1) / (ia.1 + 1e-8), ia.2 * act)

/-- `jac_limit(sys, state)`: `(jac, diag, aref)`; no row at all when `sys.dof.limit is None` -/
def jacLimit (s : Sys α) (sp : List (SolverParams α)) (q qd : List α) :
    List (List α) × List α × List α :=
  if !s.hasLimit then ([], [], []) else
  let rows := (limitIdx s.types).map fun ix =>
    limitRow s.nv (s.dofs.getD ix.2 ⟨⟨0, 0⟩, 0, 0, 0, none, none, 0⟩) (nth sp ix.2) ix.2 (nthS q ix.1) qd
  (rows.map (·.1), rows.map (·.2.1), rows.map (·.2.2))

end limit

/-! ## `point_jacobian` and `jac_contact` -/

/-- the links on the path from `i` up to its root (`fuel` bounds the walk; `Sys.WF` makes
`parent i < i`, so `numLinks + 1` steps always suffice) -/
def chain (parents : List Int) : Nat → Int → List Nat
  | 0, _ => []
  | fuel + 1, i => if i < 0 then [] else i.toNat :: chain parents fuel (parents.getD i.toNat (-1))

/-- the mask built by the reverse `scan.tree` of `point_jacobian`: `mask l` iff link `l` is
`link_idx` or one of its ancestors (`link_idx = -1`, the world: nobody) -/
def ancestorMask (parents : List Int) (idx : Int) : List Bool :=
  let c := chain parents (parents.length + 1) idx
  tab parents.length fun l => c.contains l

/-- `sys.dof_link()`: the link of every dof -/
def dofLink (ts : List LinkType) : List Nat :=
  (ts.zip (List.range ts.length)).flatMap fun ti => List.replicate ti.1.qdWidth ti.2

section contact
variable {α : Type} [Zero α] [One α] [Add α] [Sub α] [Mul α] [Neg α]

/-- `point_jacobian(sys, com, cdof, pos, link_idx)`
```
cdof = cdof * take(mask, sys.dof_link())
off = Transform.create(pos=pos - com[link_idx])
return off.vmap(in_axes=(None, 0)).do(cdof)
``` -/
def pointJacobian (s : Sys α) (com : List (V3 α)) (cdof : List (Motion α)) (pos : V3 α) (idx : Int) :
    List (Motion α) :=
  let mask := ancestorMask s.parents idx
  let dl := dofLink s.types
  let off := tfPos (pos - takeWrap com idx)
  tab s.nv fun j =>
    let m := nth cdof j
    let b := mask.getD (dl.getD j 0) false
    Tf.doMotion off ⟨maskV b m.ang, maskV b m.vel⟩

end contact

/-- one row of `brax.base.Contact` as `jac_contact` reads it -/
structure GContact (α : Type) where
  link1 : Int
  link2 : Int
  dist : α
  pos : V3 α
  /-- `frame[0]` (normal), `frame[1]`, `frame[2]` -/
  frame : M3 α
  /-- `friction[0]` -/
  friction : α
  /-- `concatenate([solref, solimp])` -/
  params : SolverParams α
deriving Repr

section jacContact
variable {α : Type} [Zero α] [One α] [Add α] [Sub α] [Mul α] [Neg α] [Div α]
  [LT α] [DecidableLT α] [LE α] [DecidableLE α] [OfScientific α] [HasPow α]

/-- the four pyramid directions, in the order of the python loops
```
for d in -c.frame[1:]:
  for f in [-c.friction[0], c.friction[0]]:
    … d * f + c.frame[0]
``` -/
def contactDirs (c : GContact α) : List (V3 α) :=
  let n := c.frame.r0
  let mk := fun (d : V3 α) (f : α) => (⟨d.x * f + n.x, d.y * f + n.y, d.z * f + n.z⟩ : V3 α)
  [mk (-c.frame.r1) (-c.friction), mk (-c.frame.r1) c.friction,
   mk (-c.frame.r2) (-c.friction), mk (-c.frame.r2) c.friction]

/-- `row_fn(c)` of `jac_contact`, given `diff = b.vel - a.vel` (one 3-vector per dof):
four rows `(jac, diag, aref)`, all multiplied by `(c.dist < 0)`
```
jac = stack([diff @ dir for dir in dirs]);  pos = tile(c.dist, 4)
imp, aref = _imp_aref(concatenate([c.solref, c.solimp]), pos, jac @ qd)
t = invweight[link_a] * (link_a > -1) + invweight[link_b]
diag = tile(t + friction² * t, 4);  diag *= 2 * friction² * (1 - imp) / (imp + 1e-8)
return tree_map(lambda x: x * (c.dist < 0), (jac, diag, aref))
``` -/
def contactRows (linkInvw : List α) (qd : List α) (diff : List (V3 α)) (c : GContact α) :
    List (List α × α × α) :=
  let act : α := if c.dist < 0 then 1 else 0
  let ta := maskS (decide (-1 < c.link1)) (linkInvw.getD (c.link1 % (linkInvw.length : Int)).toNat 0)
  let t := ta + linkInvw.getD (c.link2 % (linkInvw.length : Int)).toNat 0
  (contactDirs c).map fun dir =>
    let row := diff.map fun dj => V3.dot dj dir
    let ia := impAref c.params c.dist (dotL row qd)
    let dg := (t + c.friction * c.friction * t) * (2.0 * c.friction * c.friction * (1 - ia.1) / (ia.1 + 1e-8))
    (row.map (· * act), dg * act, ia.2 * act)

/-- `jac_contact(sys, state)` with `c = contact.get(sys, state.x)` passed in (`[]` = `None`) -/
def jacContact (s : Sys α) (com : List (V3 α)) (cdof : List (Motion α)) (qd : List α)
    (cs : List (GContact α)) : List (List α) × List α × List α :=
  let rows := cs.flatMap fun c =>
    let a := pointJacobian s com cdof c.pos c.link1
    let b := pointJacobian s com cdof c.pos c.link2
    let diff := tab s.nv fun j => (nth b j).vel - (nth a j).vel
    contactRows (s.links.map (·.invweight)) qd diff c
  (rows.map (·.1), rows.map (·.2.1), rows.map (·.2.2))

/-- `jacobian(sys, state)`: `(con_jac, con_diag, con_aref)` — contact rows first, then limit rows -/
def jacobian (s : Sys α) (sp : List (SolverParams α)) (com : List (V3 α)) (cdof : List (Motion α))
    (q qd : List α) (cs : List (GContact α)) : List (List α) × List α × List α :=
  let c := jacContact s com cdof qd cs
  let l := jacLimit s sp q qd
  (c.1 ++ l.1, c.2.1 ++ l.2.1, c.2.2 ++ l.2.2)

end jacContact

/-! ## `force` -/
section force
variable {α : Type} [Zero α] [Add α] [Sub α] [Mul α]

/-- `jac.T @ x`: entry `j` is `Σ_k jac[k][j] * x[k]` -/
def jacTx (nv : Nat) (jac : List (List α)) (x : List α) : List α :=
  tab nv fun j => (List.zipWith (fun (r : List α) xk => r.getD j 0 * xk) jac x).sum

/-- `row @ m` for a matrix given by rows -/
def vecMat (nv : Nat) (r : List α) (m : List (List α)) : List α :=
  tab nv fun j => (List.zipWith (fun ri (mr : List α) => ri * mr.getD j 0) r m).sum

/-- the `A` matrix and `b` vector handed to the solver:
`a = J M⁻¹ Jᵀ + diag(con_diag)`, `b = J M⁻¹ qf_smooth − con_aref` -/
def forceAb (nv : Nat) (jac : List (List α)) (diag aref : List α) (minv : List (List α))
    (qfs : List α) : List (List α) × List α :=
  let jm := jac.map fun r => vecMat nv r minv
  let k := jac.length
  (tab k fun i => tab k fun l =>
      dotL (jm.getD i []) (jac.getD l []) + (if i = l then diag.getD i 0 else 0),
   tab k fun i => dotL (jm.getD i []) qfs - aref.getD i 0)

/-- `force(sys, state)`.  `solver a b` stands for
`jaxopt.ProjectedGradient(objective, projection_non_negative, …).run(zeros_like(b)).params` with
`objective(x) = Σ ½ (a x + b)²` — an external call, modelled as a parameter.
```
if state.con_jac.shape[0] == 0: return jp.zeros(sys.qd_size())
…
qf_constraint = state.con_jac.T @ pg.run(jp.zeros_like(b)).params
``` -/
def force (solver : List (List α) → List α → List α) (nv : Nat) (jac : List (List α))
    (diag aref : List α) (minv : List (List α)) (qfs : List α) : List α :=
  if jac.isEmpty then List.replicate nv 0 else
  let ab := forceAb nv jac diag aref minv qfs
  jacTx nv jac (solver ab.1 ab.2)

end force

/-! ## defect D3, isolated -/

/-- what `positional.collisions.resolve_position` returns as `x_i` when `contact is None`
(the model has no contact pair).  Since the `fix:` commit ce5b080 (defect D3) the early return
renormalises the quaternions that `joints.position_update` has just changed additively, exactly
as the normal path does:
```
if contact is None:
  rot = jax.vmap(math.normalize)(state.x_i.rot)[0]
  return state.x_i.replace(rot=rot), jp.zeros((1,))
```
Before the fix this was `state.x_i` unchanged (`noContactReturnPinned`), which is the one
definition that differed. -/
def noContactReturn {α : Type} [Zero α] [One α] [Add α] [Mul α] [Neg α] [Div α]
    [LT α] [DecidableLT α] [LE α] [DecidableLE α] [OfScientific α] [HasSqrt α]
    (x_i : List (Tf α)) : List (Tf α) :=
  x_i.map fun t => ⟨t.pos, normalize4 t.rot⟩

/-- the pinned tree's early return (before ce5b080): `state.x_i` as it is; kept for the witness
theorem that documents defect D3 -/
def noContactReturnPinned {α : Type} (x_i : List (Tf α)) : List (Tf α) := x_i

end C06
end Brax
