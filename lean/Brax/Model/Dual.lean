import Brax.Scalar
/-!
# Dual numbers `a + bε` (ε² = 0): the models' own forward-mode derivative

Every executable model is written over the raw operator classes, so instantiating the scalar type
with `Dual Float` yields the tangent that JAX's `jvp` computes for the *same* program.  The opaque
functions are lifted by their derivative; `acos`/`asin` are lifted by brax's **custom JVP rules**
(`math.safe_arccos`, `math.safe_arcsin`: the derivative is evaluated at `clip(x, −1+1e-7, 1−1e-7)`),
because that is what the code differentiates with.  Comparisons look at the primal part only
(as `jp.where` does).  No Mathlib.
-/
namespace Brax

structure Dual (α : Type) where
  re : α
  du : α
deriving Repr, BEq

namespace Dual
variable {α : Type}

instance [Zero α] : Zero (Dual α) := ⟨⟨0, 0⟩⟩
instance [Zero α] [One α] : One (Dual α) := ⟨⟨1, 0⟩⟩
instance [Add α] : Add (Dual α) := ⟨fun a b => ⟨a.re + b.re, a.du + b.du⟩⟩
instance [Sub α] : Sub (Dual α) := ⟨fun a b => ⟨a.re - b.re, a.du - b.du⟩⟩
instance [Neg α] : Neg (Dual α) := ⟨fun a => ⟨-a.re, -a.du⟩⟩
instance [Add α] [Mul α] : Mul (Dual α) := ⟨fun a b => ⟨a.re * b.re, a.re * b.du + a.du * b.re⟩⟩
instance [Sub α] [Mul α] [Div α] : Div (Dual α) :=
  ⟨fun a b => ⟨a.re / b.re, (a.du * b.re - a.re * b.du) / (b.re * b.re)⟩⟩
instance [LT α] : LT (Dual α) := ⟨fun a b => a.re < b.re⟩
instance [LE α] : LE (Dual α) := ⟨fun a b => a.re ≤ b.re⟩
instance [LT α] [DecidableLT α] : DecidableLT (Dual α) := fun a b => inferInstanceAs (Decidable (a.re < b.re))
instance [LE α] [DecidableLE α] : DecidableLE (Dual α) := fun a b => inferInstanceAs (Decidable (a.re ≤ b.re))
instance [Zero α] [OfScientific α] : OfScientific (Dual α) :=
  ⟨fun m s e => ⟨OfScientific.ofScientific m s e, 0⟩⟩

/-- `sqrt`: derivative `du / (2 sqrt re)` (infinite at 0 — exactly what `safe_norm` guards) -/
instance [One α] [Add α] [Mul α] [Div α] [HasSqrt α] : HasSqrt (Dual α) :=
  ⟨fun a => let s := HasSqrt.sqrt a.re; ⟨s, a.du / ((1 + 1) * s)⟩⟩

/-- the clipped derivative argument of `safe_arccos` / `safe_arcsin` -/
def safeClip [One α] [Add α] [Sub α] [Neg α] [LT α] [DecidableLT α] [OfScientific α] (x : α) : α :=
  clip x (-(1 : α) + (1e-7 : α)) ((1 : α) - (1e-7 : α))

instance [One α] [Add α] [Sub α] [Mul α] [Neg α] [Div α] [LT α] [DecidableLT α] [OfScientific α]
    [HasSqrt α] [HasTrig α] : HasTrig (Dual α) where
  sin a := ⟨HasTrig.sin a.re, HasTrig.cos a.re * a.du⟩
  cos a := ⟨HasTrig.cos a.re, -(HasTrig.sin a.re * a.du)⟩
  -- d atan2(y, x) = (x dy − y dx) / (x² + y²)
  atan2 y x := ⟨HasTrig.atan2 y.re x.re, (x.re * y.du - y.re * x.du) / (x.re * x.re + y.re * y.re)⟩
  -- brax's custom rules
  asin a := ⟨HasTrig.asin a.re, a.du / HasSqrt.sqrt ((1 : α) - safeClip a.re * safeClip a.re)⟩
  acos a := ⟨HasTrig.acos a.re, -a.du / HasSqrt.sqrt ((1 : α) - safeClip a.re * safeClip a.re)⟩

instance [One α] [Sub α] [Mul α] [Div α] [HasExp α] : HasExp (Dual α) where
  exp a := ⟨HasExp.exp a.re, HasExp.exp a.re * a.du⟩
  log a := ⟨HasExp.log a.re, a.du / a.re⟩
  tanh a := let t := HasExp.tanh a.re; ⟨t, ((1 : α) - t * t) * a.du⟩

end Dual
end Brax
