import Brax.Model.Kinematics
/-!
# Layer B stage 2: faithful models of `scan.tree` (root to leaves, and leaves to root)

`scan.tree` does not recurse link by link: it groups the links by depth, calls the (vmapped)
function once per level, re-indexes the carry of the previous level through `parent_map`
(`_take(y, parent_map)`), concatenates the per-level outputs and finally reorders them to link
order (`_take(y, [order.index(i) …])`).  `scanTreeLevels` transcribes exactly that; the theorem
`scanTreeLevels_eq_scanFwd` (`Lemmas/ScanLevels.lean`) shows it computes the per-link recursion
`Kin.scanFwd` for every forest whose parents precede their children.  No Mathlib.
-/
namespace Brax.Kin

/-- `depth_idxs[d]['l']`: the links of depth `d`, in increasing index order -/
def levelIdxs (ds : List Nat) (d : Nat) : List Nat :=
  (List.range ds.length).filter fun i => ds.getD i 0 == d

/-- one level of the python loop: `(idxs of the previous level, its y)` ↦ `y` of this level -/
def levelStep {β γ : Type} (f : Option β → γ → β) (parents : List Int) (args : List γ) (dflt : γ)
    (dfltY : β) (prev : Option (List Nat × List β)) (idxs : List Nat) : List β :=
  let ins := idxs.map fun i => args.getD i dflt                       -- _take(a, depth_idxs[depth]['l'])
  match prev with
  | none => ins.map (f none)                                           -- y is None on the first level
  | some (pidxs, py) =>
    let parentMap := idxs.map fun i => pidxs.idxOf (parents.getD i (-1)).toNat
    let yPar := parentMap.map fun k => py.getD k dfltY                 -- _take(y, parent_map)
    List.zipWith (fun yp a => f (some yp) a) yPar ins

/-- all levels in order: returns the list of per-level outputs -/
def levelLoop {β γ : Type} (f : Option β → γ → β) (parents : List Int) (args : List γ) (dflt : γ)
    (dfltY : β) (ds : List Nat) : List Nat → Option (List Nat × List β) → List (List β)
  | [], _ => []
  | d :: rest, prev =>
    let idxs := levelIdxs ds d
    let y := levelStep f parents args dflt dfltY prev idxs
    y :: levelLoop f parents args dflt dfltY ds rest (some (idxs, y))

/-- `scan.tree(sys, f, 'l…', *args)` root to leaves, as coded -/
def scanTreeLevels {β γ : Type} (f : Option β → γ → β) (parents : List Int) (args : List γ) (dflt : γ)
    (dfltY : β) : List β :=
  let ds := depths parents
  let nLevels := if ds.isEmpty then 0 else ds.foldl max 0 + 1
  let lv := List.range nLevels
  let ys := (levelLoop f parents args dflt dfltY ds lv none).flatten   -- jp.concatenate(ys)
  let order := (lv.map (levelIdxs ds)).flatten                          -- sum([d['l'] for d in depth_idxs], [])
  (List.range parents.length).map fun i => ys.getD (order.idxOf i) dfltY  -- put back in link order

/-! ## leaves to root (`reverse=True`) -/

/-- `jp.zeros(b).at[p].add(x)`: entry `k` accumulates the `x[j]` with `p[j] = k`, in order -/
def indexSum {β : Type} (zero : β) (add : β → β → β) (b : Nat) (p : List Nat) (x : List β) : List β :=
  (List.range b).map fun k => ((p.zip x).filter fun e => e.1 == k).foldl (fun acc e => add acc e.2) zero

/-- one level of the reverse loop: `(idxs of the level below, its y)` ↦ `y` of this level -/
def levelStepRev {β γ : Type} (f : Option β → γ → β) (parents : List Int) (args : List γ) (dflt : γ)
    (zero : β) (add : β → β → β) (next : Option (List Nat × List β)) (idxs : List Nat) : List β :=
  let ins := idxs.map fun i => args.getD i dflt                       -- _take(a, depth_idxs[depth]['l'])
  match next with
  | none => ins.map (f none)                                           -- y is None on the deepest level
  | some (cidxs, cy) =>
    -- parent_map = [link_idxs.index(p) for p in parent_idxs]
    let parentMap := cidxs.map fun c => idxs.idxOf (parents.getD c (-1)).toNat
    let ySum := indexSum zero add idxs.length parentMap cy             -- index_sum
    List.zipWith (fun s a => f (some s) a) ySum ins

/-- the levels, deepest first; every `y` is inserted at the front of `ys` -/
def levelLoopRev {β γ : Type} (f : Option β → γ → β) (parents : List Int) (args : List γ) (dflt : γ)
    (zero : β) (add : β → β → β) (ds : List Nat) : List Nat → Option (List Nat × List β) → List (List β)
  | [], _ => []
  | d :: rest, next =>
    let idxs := levelIdxs ds d
    let y := levelStepRev f parents args dflt zero add next idxs
    levelLoopRev f parents args dflt zero add ds rest (some (idxs, y)) ++ [y]

/-- `scan.tree(sys, f, 'l…', *args, reverse=True)`, as coded -/
def scanTreeLevelsRev {β γ : Type} (f : Option β → γ → β) (parents : List Int) (args : List γ) (dflt : γ)
    (zero : β) (add : β → β → β) : List β :=
  let ds := depths parents
  let nLevels := if ds.isEmpty then 0 else ds.foldl max 0 + 1
  let lv := List.range nLevels
  let ys := (levelLoopRev f parents args dflt zero add ds lv.reverse none).flatten
  let order := (lv.map (levelIdxs ds)).flatten
  (List.range parents.length).map fun i => ys.getD (order.idxOf i) zero

end Brax.Kin

namespace Brax.Gd
/-- the carry functions of the reverse scans in brax (`crb_fn`, `cfrc_fn`): `if child is not None: body += child` -/
def addF {M : Type} (add : M → M → M) : Option M → M → M :=
  fun c a => match c with | none => a | some s => add a s
end Brax.Gd
