import Brax.Model.Math
/-!
# C16 — common pieces of the bundled-environment models (`brax/envs/*.py`)

No Mathlib.  Everything is written over raw operator classes so that it runs at `Float` in
the driver and is instantiated with a linear ordered field in `Brax/Props/C16.lean`.

An environment is modelled as a function of the **pipeline state** (`q, qd, x, xd` of
`brax.base.State`; nothing contact related is read by any bundled environment):

* `obs`     : `_get_obs`
* `reset`   : what `reset` returns *given the pipeline state produced by `pipeline_init`*
              (the random draw of `q, qd` and the physics are not part of this model)
* `step`    : what `step` returns given the pipeline state before the step (`s0`), after the
              step (`s`), the action and (for environments that never terminate) the incoming
              `done` flag, which those environments pass through unchanged.

`Out.metrics` lists the metrics that `step` writes, in the order documented beside each `step`.
-/
set_option linter.unusedSectionVars false
namespace Brax.C16
open Brax

/-- the fields of `brax.base.State` read by the bundled environments -/
structure PState (α : Type) where
  q : List α
  qd : List α
  x : List (Tf α)
  xd : List (Motion α)

/-- the fields of `brax.envs.base.State` an environment writes -/
structure Out (α : Type) where
  obs : List α
  reward : α
  done : α
  metrics : List α

variable {α : Type} [Zero α] [One α] [Add α] [Sub α] [Mul α] [Neg α] [Div α]
  [LT α] [DecidableLT α] [OfScientific α]

/-- static indexing `xs[i]` (the drivers and theorems guard `i < length`) -/
def idx (xs : List α) (i : Nat) : α := xs.getD i 0

/-- `x[i]` of the link transforms -/
def link (s : PState α) (i : Nat) : Tf α := s.x.getD i Tf.id

/-- `xd[i]` of the link motions -/
def linkVel (s : PState α) (i : Nat) : Motion α := s.xd.getD i Motion.zero

/-- `x.pos[i]` -/
def linkPos (s : PState α) (i : Nat) : V3 α := (link s i).pos

/-- bool → float (`1.0 - is_healthy`, `healthy_reward * is_healthy`) -/
def b2f (b : Bool) : α := if b then 1 else 0

/-- `jp.sum(jp.square(a))` -/
def sumSq (a : List α) : α := (a.map fun x => x * x).sum

/-- `jp.clip(v, -10, 10)` applied to a vector -/
def clip10 (v : List α) : List α := v.map fun x => clip x (-10.0) 10.0

def V3.toList (v : V3 α) : List α := [v.x, v.y, v.z]

/-! ## ranges with infinite ends (`none` = −∞ as a lower, +∞ as an upper bound) -/

/-- `lo < x` -/
def gtLo : Option α → α → Bool
  | none, _ => true
  | some l, x => decide (l < x)
/-- `x < hi` -/
def ltHi : α → Option α → Bool
  | _, none => true
  | x, some h => decide (x < h)
/-- `x < lo` -/
def ltLo : α → Option α → Bool
  | _, none => false
  | x, some l => decide (x < l)
/-- `x > hi` -/
def gtHi : α → Option α → Bool
  | _, none => false
  | x, some h => decide (h < x)
/-- `lo < x` and `x < hi` -/
def inOpen (lo hi : Option α) (x : α) : Bool := gtLo lo x && ltHi x hi

/-! ## action rescaling (`inverted_pendulum`, `pusher`, `humanoid`, `humanoidstandup`)

```
action_min = self.sys.actuator.ctrl_range[:, 0]
action_max = self.sys.actuator.ctrl_range[:, 1]
action = (action + 1) * (action_max - action_min) * 0.5 + action_min
``` -/
def scaleAct (a lo hi : α) : α := (a + 1) * (hi - lo) * 0.5 + lo

def scaleAction (act : List α) (rng : List (α × α)) : List α :=
  List.zipWith (fun a r => scaleAct a r.1 r.2) act rng

/-- `reward, done, zero = jp.zeros(3)` and a metrics dict of `n` zeros -/
def resetOut (obs : List α) (nMetrics : Nat) : Out α := ⟨obs, 0, 0, List.replicate nMetrics 0⟩

end Brax.C16
