import Brax.Model.C16.Common
/-!
# C16 — `humanoid`, `humanoidstandup`

Both share `_com` and the observation layout.  Two inputs are *parameters* of this model:

* `inertia` — the per-link `Inertia` the environment's `_com` works with: `sys.link.inertia`
  on the generalized backend; on spring/positional its diagonal and mass raised to the power
  `1 - spring_inertia_scale` / `1 - spring_mass_scale` (a static function of `sys`).
* `qfrc` — `actuator.to_tau(sys, action, q, qd)` (`Act.toTau` of C11).
-/
set_option linter.unusedSectionVars false
namespace Brax.C16
open Brax

variable {α : Type} [Zero α] [One α] [Add α] [Sub α] [Mul α] [Neg α] [Div α]
  [LT α] [DecidableLT α] [LE α] [DecidableLE α] [OfScientific α] [HasSqrt α]

namespace Com

def inertiaAt (inertia : List (Inertia α)) (k : Nat) : Inertia α :=
  inertia.getD k ⟨Tf.id, M3.zero, 0⟩

/-- `mass_sum = jp.sum(inertia.mass)` -/
def massSum (inertia : List (Inertia α)) : α := (inertia.map (·.mass)).sum

/-- `x_i = x.vmap().do(inertia.transform)` at link `k` -/
def xI (inertia : List (Inertia α)) (s : PState α) (k : Nat) : Tf α :=
  Tf.doTf (link s k) (inertiaAt inertia k).tf

/-- `com = jp.sum(vmap(multiply)(mass, x_i.pos), axis=0) / mass_sum` -/
def com (inertia : List (Inertia α)) (s : PState α) : V3 α :=
  let tot := (List.range inertia.length).foldl
    (fun acc k => acc + V3.smul (inertiaAt inertia k).mass (xI inertia s k).pos) V3.zero
  let m := massSum inertia
  ⟨tot.x / m, tot.y / m, tot.z / m⟩

/-- one row of `com_inertia = hstack([cinr.i.reshape(n, 9), mass[:, None]])`,
`cinr = x_i.replace(pos=x_i.pos - com).vmap().do(inertia)` -/
def inertiaRow (inertia : List (Inertia α)) (s : PState α) (c : V3 α) (k : Nat) : List α :=
  let xi := xI inertia s k
  let it := inertiaAt inertia k
  let ci := (Tf.doInertia ⟨xi.pos - c, xi.rot⟩ it).i
  [ci.r0.x, ci.r0.y, ci.r0.z, ci.r1.x, ci.r1.y, ci.r1.z, ci.r2.x, ci.r2.y, ci.r2.z, it.mass]

/-- one row of `com_velocity = hstack([mass[:, None] * xd_i.vel / mass_sum, xd_i.ang])`,
`xd_i = Transform.create(pos=x_i.pos - x.pos).vmap().do(xd)` -/
def velRow (inertia : List (Inertia α)) (s : PState α) (k : Nat) : List α :=
  let xi := xI inertia s k
  let it := inertiaAt inertia k
  let m := Tf.doMotion ⟨xi.pos - linkPos s k, Q4.one⟩ (linkVel s k)
  let ms := massSum inertia
  [it.mass * m.vel.x / ms, it.mass * m.vel.y / ms, it.mass * m.vel.z / ms, m.ang.x, m.ang.y, m.ang.z]

/-- the observation of both humanoid environments: `[position, velocity, com_inertia.ravel(),
com_velocity.ravel(), qfrc_actuator]`; one inertia/velocity row per link of `sys` -/
def obs (inertia : List (Inertia α)) (position : List α) (s : PState α) (qfrc : List α) : List α :=
  let c := com inertia s
  position ++ s.qd ++ (List.range inertia.length).flatMap (inertiaRow inertia s c)
    ++ (List.range inertia.length).flatMap (velRow inertia s) ++ qfrc

end Com

/-! ## `envs/humanoid.py` -/
namespace Humanoid

structure Cfg (α : Type) where
  fwdW : α
  ctrlW : α
  healthyR : α
  terminate : Bool
  zLo : Option α
  zHi : Option α
  exclude : Bool
  dt : α
  inertia : List (Inertia α)
  ctrlRange : List (α × α)

/-- `_get_obs(pipeline_state, action)`; `qfrc = actuator.to_tau(sys, action, q, qd)` -/
def obs (c : Cfg α) (s : PState α) (qfrc : List α) : List α :=
  Com.obs c.inertia (if c.exclude then s.q.drop 2 else s.q) s qfrc

/-- `nb` = number of links, `qfrc` has one entry per dof -/
def obsSize (c : Cfg α) (nq nv nb : Nat) : Nat :=
  (if c.exclude then nq - 2 else nq) + nv + 10 * nb + 6 * nb + nv

/-- `reset` (its `qfrc` is `to_tau` of the zero action) zeroes 9 metrics -/
def reset (c : Cfg α) (s : PState α) (qfrc : List α) : Out α := resetOut (obs c s qfrc) 9

/-- the action sent to the physics and used by the control cost and by `to_tau` -/
def action (c : Cfg α) (act : List α) : List α := scaleAction act c.ctrlRange

def isHealthy (c : Cfg α) (s : PState α) : α :=
  let z := (linkPos s 0).z
  if gtHi z c.zHi then 0 else if ltLo z c.zLo then 0 else 1

/-- `velocity = (com_after - com_before) / dt` -/
def velocity (c : Cfg α) (s0 s : PState α) : V3 α :=
  let d := Com.com c.inertia s - Com.com c.inertia s0
  ⟨d.x / c.dt, d.y / c.dt, d.z / c.dt⟩

def forwardReward (c : Cfg α) (s0 s : PState α) : α := c.fwdW * (velocity c s0 s).x
def healthyReward (c : Cfg α) (s : PState α) : α :=
  if c.terminate then c.healthyR else c.healthyR * isHealthy c s
def ctrlCost (c : Cfg α) (act : List α) : α := c.ctrlW * sumSq (action c act)

/-- `step`; metrics `[forward_reward, reward_linvel, reward_quadctrl, reward_alive, x_position,
y_position, distance_from_origin, x_velocity, y_velocity]`
(`distance_from_origin = jp.linalg.norm(com_after)`) -/
def step (c : Cfg α) (s0 s : PState α) (act qfrc : List α) : Out α :=
  let v := velocity c s0 s
  let cm := Com.com c.inertia s
  ⟨obs c s qfrc, forwardReward c s0 s + healthyReward c s - ctrlCost c act,
   if c.terminate then 1 - isHealthy c s else 0,
   [forwardReward c s0 s, forwardReward c s0 s, -ctrlCost c act, healthyReward c s, cm.x, cm.y,
    HasSqrt.sqrt (V3.normSq cm), v.x, v.y]⟩

end Humanoid

/-! ## `envs/humanoidstandup.py` -/
namespace HumanoidStandup

structure Cfg (α : Type) where
  dt : α
  inertia : List (Inertia α)
  ctrlRange : List (α × α)

/-- `_get_obs`: `position = q[2:]` always -/
def obs (c : Cfg α) (s : PState α) (qfrc : List α) : List α :=
  Com.obs c.inertia (s.q.drop 2) s qfrc

def obsSize (nq nv nb : Nat) : Nat := (nq - 2) + nv + 10 * nb + 6 * nb + nv

def reset (c : Cfg α) (s : PState α) (qfrc : List α) : Out α := resetOut (obs c s qfrc) 2

def action (c : Cfg α) (act : List α) : List α := scaleAction act c.ctrlRange

/-- `uph_cost = (x.pos[0, 2] - 0) / dt` -/
def uphCost (c : Cfg α) (s : PState α) : α := ((linkPos s 0).z - 0) / c.dt
/-- `quad_ctrl_cost = 0.01 * jp.sum(jp.square(action))` of the rescaled action -/
def quadCtrlCost (c : Cfg α) (act : List α) : α := 0.01 * sumSq (action c act)

/-- `step`; `reward = uph_cost + 1 - quad_ctrl_cost`; metrics `[reward_linup, reward_quadctrl]`;
`done` passed through -/
def step (c : Cfg α) (s : PState α) (act qfrc : List α) (done0 : α) : Out α :=
  ⟨obs c s qfrc, uphCost c s + 1 - quadCtrlCost c act, done0, [uphCost c s, -quadCtrlCost c act]⟩

end HumanoidStandup

end Brax.C16
