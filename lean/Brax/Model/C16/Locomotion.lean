import Brax.Model.C16.Common
/-!
# C16 — `ant`, `halfcheetah`, `hopper`, `walker2d`, `swimmer`
-/
set_option linter.unusedSectionVars false
namespace Brax.C16
open Brax

variable {α : Type} [Zero α] [One α] [Add α] [Sub α] [Mul α] [Neg α] [Div α]
  [LT α] [DecidableLT α] [LE α] [DecidableLE α] [OfScientific α] [HasSqrt α]

/-! ## `envs/ant.py` -/
namespace Ant

structure Cfg (α : Type) where
  ctrlW : α
  healthyR : α
  terminate : Bool
  zLo : Option α
  zHi : Option α
  exclude : Bool
  /-- `self.dt = sys.opt.timestep * n_frames` -/
  dt : α

/-- `_get_obs`: `concatenate([q[2:] if exclude else q] + [qd])` -/
def obs (c : Cfg α) (s : PState α) : List α := (if c.exclude then s.q.drop 2 else s.q) ++ s.qd

def obsSize (c : Cfg α) (nq nv : Nat) : Nat := (if c.exclude then nq - 2 else nq) + nv

/-- `reset` zeroes 10 metrics -/
def reset (c : Cfg α) (s : PState α) : Out α := resetOut (obs c s) 10

/-- `is_healthy = where(z < min_z, 0.0, 1.0); is_healthy = where(z > max_z, 0.0, is_healthy)` -/
def isHealthy (c : Cfg α) (s : PState α) : α :=
  let z := (linkPos s 0).z
  if gtHi z c.zHi then 0 else if ltLo z c.zLo then 0 else 1

/-- `velocity = (x.pos[0] - x0.pos[0]) / dt` -/
def velocity (c : Cfg α) (s0 s : PState α) : V3 α :=
  let d := linkPos s 0 - linkPos s0 0
  ⟨d.x / c.dt, d.y / c.dt, d.z / c.dt⟩

def healthyReward (c : Cfg α) (s : PState α) : α :=
  if c.terminate then c.healthyR else c.healthyR * isHealthy c s

def ctrlCost (c : Cfg α) (act : List α) : α := c.ctrlW * sumSq act

/-- `contact_cost = 0.0` (`use_contact_forces` raises `NotImplementedError`) -/
def contactCost : α := 0

/-- `step`; metrics `[reward_forward, reward_survive, reward_ctrl, reward_contact, x_position,
y_position, distance_from_origin, x_velocity, y_velocity, forward_reward]` -/
def step (c : Cfg α) (s0 s : PState α) (act : List α) : Out α :=
  let v := velocity c s0 s
  let fwd := v.x
  let hr := healthyReward c s
  let p := linkPos s 0
  ⟨obs c s, fwd + hr - ctrlCost c act - contactCost,
   if c.terminate then 1 - isHealthy c s else 0,
   [fwd, hr, -ctrlCost c act, -contactCost, p.x, p.y, safeNorm3 p, v.x, v.y, fwd]⟩

end Ant

/-! ## `envs/half_cheetah.py` -/
namespace HalfCheetah

structure Cfg (α : Type) where
  fwdW : α
  ctrlW : α
  exclude : Bool
  dt : α

/-- `_get_obs`: `concatenate((q[1:] if exclude else q, qd))` -/
def obs (c : Cfg α) (s : PState α) : List α := (if c.exclude then s.q.drop 1 else s.q) ++ s.qd

def obsSize (c : Cfg α) (nq nv : Nat) : Nat := (if c.exclude then nq - 1 else nq) + nv

def reset (c : Cfg α) (s : PState α) : Out α := resetOut (obs c s) 4

def xVelocity (c : Cfg α) (s0 s : PState α) : α := ((linkPos s 0).x - (linkPos s0 0).x) / c.dt
def forwardReward (c : Cfg α) (s0 s : PState α) : α := c.fwdW * xVelocity c s0 s
def ctrlCost (c : Cfg α) (act : List α) : α := c.ctrlW * sumSq act

/-- `step`; metrics `[x_position, x_velocity, reward_run, reward_ctrl]`; `done` passed through -/
def step (c : Cfg α) (s0 s : PState α) (act : List α) (done0 : α) : Out α :=
  ⟨obs c s, forwardReward c s0 s - ctrlCost c act, done0,
   [(linkPos s 0).x, xVelocity c s0 s, forwardReward c s0 s, -ctrlCost c act]⟩

end HalfCheetah

/-! ## `envs/hopper.py` -/
namespace Hopper

structure Cfg (α : Type) where
  fwdW : α
  ctrlW : α
  healthyR : α
  terminate : Bool
  stateLo : Option α
  stateHi : Option α
  zLo : Option α
  zHi : Option α
  angLo : Option α
  angHi : Option α
  exclude : Bool
  dt : α

/-- `_get_obs`: `position = q.at[1].set(x.pos[0, 2])`, `velocity = clip(qd, -10, 10)`,
`position[1:]` when excluding -/
def obs (c : Cfg α) (s : PState α) : List α :=
  let position := s.q.set 1 (linkPos s 0).z
  (if c.exclude then position.drop 1 else position) ++ clip10 s.qd

def obsSize (c : Cfg α) (nq nv : Nat) : Nat := (if c.exclude then nq - 1 else nq) + nv

def reset (c : Cfg α) (s : PState α) : Out α := resetOut (obs c s) 5

/-- ```
state_vec = concatenate([q[2:], qd])
is_healthy = all(min_state < state_vec & state_vec < max_state)
is_healthy &= min_z < z & z < max_z
is_healthy &= min_angle < angle & angle < max_angle       # z = x.pos[0, 2], angle = q[2]
``` -/
def isHealthy (c : Cfg α) (s : PState α) : Bool :=
  ((s.q.drop 2 ++ s.qd).all (inOpen c.stateLo c.stateHi))
    && inOpen c.zLo c.zHi (linkPos s 0).z && inOpen c.angLo c.angHi (idx s.q 2)

def xVelocity (c : Cfg α) (s0 s : PState α) : α := ((linkPos s 0).x - (linkPos s0 0).x) / c.dt
def forwardReward (c : Cfg α) (s0 s : PState α) : α := c.fwdW * xVelocity c s0 s
def healthyReward (c : Cfg α) (s : PState α) : α :=
  if c.terminate then c.healthyR else c.healthyR * b2f (isHealthy c s)
def ctrlCost (c : Cfg α) (act : List α) : α := c.ctrlW * sumSq act

/-- `step`; metrics `[reward_forward, reward_ctrl, reward_healthy, x_position, x_velocity]` -/
def step (c : Cfg α) (s0 s : PState α) (act : List α) : Out α :=
  ⟨obs c s, forwardReward c s0 s + healthyReward c s - ctrlCost c act,
   if c.terminate then 1 - b2f (isHealthy c s) else 0,
   [forwardReward c s0 s, -ctrlCost c act, healthyReward c s, (linkPos s 0).x, xVelocity c s0 s]⟩

end Hopper

/-! ## `envs/walker2d.py` -/
namespace Walker2d

structure Cfg (α : Type) where
  fwdW : α
  ctrlW : α
  healthyR : α
  terminate : Bool
  zLo : Option α
  zHi : Option α
  angLo : Option α
  angHi : Option α
  exclude : Bool
  dt : α

/-- `_get_obs`: as hopper -/
def obs (c : Cfg α) (s : PState α) : List α :=
  let position := s.q.set 1 (linkPos s 0).z
  (if c.exclude then position.drop 1 else position) ++ clip10 s.qd

def obsSize (c : Cfg α) (nq nv : Nat) : Nat := (if c.exclude then nq - 1 else nq) + nv

def reset (c : Cfg α) (s : PState α) : Out α := resetOut (obs c s) 5

/-- `(z > min_z) & (z < max_z) * (angle > min_angle) & (angle < max_angle)`; python parses this
as `(z > min_z) & ((z < max_z) * (angle > min_angle)) & (angle < max_angle)`, and `*` of two
booleans is their conjunction -/
def isHealthy (c : Cfg α) (s : PState α) : Bool :=
  let z := (linkPos s 0).z
  let angle := idx s.q 2
  (gtLo c.zLo z && (ltHi z c.zHi && gtLo c.angLo angle)) && ltHi angle c.angHi

def xVelocity (c : Cfg α) (s0 s : PState α) : α := ((linkPos s 0).x - (linkPos s0 0).x) / c.dt
def forwardReward (c : Cfg α) (s0 s : PState α) : α := c.fwdW * xVelocity c s0 s
def healthyReward (c : Cfg α) (s : PState α) : α :=
  if c.terminate then c.healthyR else c.healthyR * b2f (isHealthy c s)
def ctrlCost (c : Cfg α) (act : List α) : α := c.ctrlW * sumSq act

/-- `step`; metrics `[reward_forward, reward_ctrl, reward_healthy, x_position, x_velocity]` -/
def step (c : Cfg α) (s0 s : PState α) (act : List α) : Out α :=
  ⟨obs c s, forwardReward c s0 s + healthyReward c s - ctrlCost c act,
   if c.terminate then 1 - b2f (isHealthy c s) else 0,
   [forwardReward c s0 s, -ctrlCost c act, healthyReward c s, (linkPos s 0).x, xVelocity c s0 s]⟩

end Walker2d

/-! ## `envs/swimmer.py` -/
namespace Swimmer

structure Cfg (α : Type) where
  fwdW : α
  ctrlW : α
  exclude : Bool
  dt : α

/-- `_get_obs`: `concatenate((q[2:] if exclude else q, qd))` -/
def obs (c : Cfg α) (s : PState α) : List α := (if c.exclude then s.q.drop 2 else s.q) ++ s.qd

def obsSize (c : Cfg α) (nq nv : Nat) : Nat := (if c.exclude then nq - 2 else nq) + nv

/-- 8 metrics are zeroed by `reset` (`forward_reward` is never written again) -/
def reset (c : Cfg α) (s : PState α) : Out α := resetOut (obs c s) 8

/-- velocities come from the generalized coordinates: `(q[0] - q0[0]) / dt` -/
def xVelocity (c : Cfg α) (s0 s : PState α) : α := (idx s.q 0 - idx s0.q 0) / c.dt
def yVelocity (c : Cfg α) (s0 s : PState α) : α := (idx s.q 1 - idx s0.q 1) / c.dt
def forwardReward (c : Cfg α) (s0 s : PState α) : α := c.fwdW * xVelocity c s0 s
def ctrlCost (c : Cfg α) (act : List α) : α := c.ctrlW * sumSq act

/-- `step`; metrics `[reward_fwd, reward_ctrl, x_position, y_position, distance_from_origin,
x_velocity, y_velocity]`; `distance_from_origin = jp.linalg.norm(q[:2])`; `done` passed through -/
def step (c : Cfg α) (s0 s : PState α) (act : List α) (done0 : α) : Out α :=
  let x := idx s.q 0
  let y := idx s.q 1
  ⟨obs c s, forwardReward c s0 s - ctrlCost c act, done0,
   [forwardReward c s0 s, -ctrlCost c act, x, y, HasSqrt.sqrt (x * x + y * y),
    xVelocity c s0 s, yVelocity c s0 s]⟩

end Swimmer

end Brax.C16
