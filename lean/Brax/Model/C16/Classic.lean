import Brax.Model.C16.Common
/-!
# C16 — `inverted_pendulum`, `inverted_double_pendulum`, `reacher`, `pusher`
-/
set_option linter.unusedSectionVars false
namespace Brax.C16
open Brax

variable {α : Type} [Zero α] [One α] [Add α] [Sub α] [Mul α] [Neg α] [Div α]
  [LT α] [DecidableLT α] [LE α] [DecidableLE α] [OfScientific α] [HasSqrt α] [HasTrig α]

/-! ## `envs/inverted_pendulum.py` -/
namespace InvertedPendulum

/-- `_get_obs`: `concatenate([q, qd])` -/
def obs (s : PState α) : List α := s.q ++ s.qd

def obsSize (nq nv : Nat) : Nat := nq + nv

/-- `reset`: `reward, done = jp.zeros(2)`, `metrics = {}` -/
def reset (s : PState α) : Out α := resetOut (obs s) 0

/-- `done = jp.where(jp.abs(obs[1]) > 0.2, 1.0, 0.0)` -/
def done (o : List α) : α := if (0.2 : α) < absv (idx o 1) then 1 else 0

/-- the action sent to the physics: rescaled from `[-1, 1]` to `actuator.ctrl_range` -/
def action (ctrlRange : List (α × α)) (act : List α) : List α := scaleAction act ctrlRange

/-- `step` (the action only enters the physics): `reward = 1.0`, no metrics -/
def step (s : PState α) : Out α := ⟨obs s, 1, done (obs s), []⟩

end InvertedPendulum

/-! ## `envs/inverted_double_pendulum.py` -/
namespace InvertedDoublePendulum

/-- `_get_obs`: `[q[:1], sin(q[1:]), cos(q[1:]), clip(qd, -10, 10)]` -/
def obs (s : PState α) : List α :=
  s.q.take 1 ++ (s.q.drop 1).map HasTrig.sin ++ (s.q.drop 1).map HasTrig.cos ++ clip10 s.qd

def obsSize (nq nv : Nat) : Nat := min 1 nq + (nq - 1) + (nq - 1) + nv

def reset (s : PState α) : Out α := resetOut (obs s) 0

/-- `tip = Transform.create(pos=[0, 0, 0.6]).do(x.take(2))`: note the order — the constant
transform acts on the link transform, so the tip is the link origin shifted by 0.6 along the
WORLD z axis (as the code does, not the pole tip of the rotated link). `take` wraps. -/
def tip (s : PState α) : V3 α :=
  (Tf.doTf ⟨⟨0, 0, 0.6⟩, Q4.one⟩ (link s (2 % s.x.length))).pos

/-- `dist_penalty = 0.01 * x**2 + (y - 2)**2` with `x, _, y = tip.pos` -/
def distPenalty (s : PState α) : α :=
  let t := tip s
  0.01 * (t.x * t.x) + (t.z - 2.0) * (t.z - 2.0)

/-- `v1, v2 = qd[1:]`; `vel_penalty = 1e-3 * v1**2 + 5e-3 * v2**2` -/
def velPenalty (s : PState α) : α :=
  let v1 := idx s.qd 1
  let v2 := idx s.qd 2
  1e-3 * (v1 * v1) + 5e-3 * (v2 * v2)

def aliveBonus : α := 10.0

/-- `done = jp.where(y <= 1, 1, 0)` -/
def done (s : PState α) : α := if (tip s).z ≤ 1 then 1 else 0

/-- `reward = alive_bonus - dist_penalty - vel_penalty`, no metrics -/
def step (s : PState α) : Out α :=
  ⟨obs s, aliveBonus - distPenalty s - velPenalty s, done s, []⟩

end InvertedDoublePendulum

/-! ## `envs/reacher.py` -/
namespace Reacher

/-- arm length constant of `_get_obs` -/
def armTip : V3 α := ⟨0.11, 0, 0⟩

/-- `x.take(1).do(Transform.create(pos=[0.11, 0, 0])).pos` -/
def tipPos (s : PState α) : V3 α :=
  (Tf.doTf (link s (1 % s.x.length)) ⟨armTip, Q4.one⟩).pos

/-- `Transform.create(pos=[0.11, 0, 0]).do(xd.take(1)).vel` -/
def tipVel (s : PState α) : V3 α :=
  (Tf.doMotion ⟨armTip, Q4.one⟩ (linkVel s (1 % s.xd.length))).vel

/-- `_get_obs`: `[cos(theta), sin(theta), q[2:], tip_vel[:2], tip_pos - target_pos]`,
`theta = q[:2]`, `target_pos = x.pos[2]` -/
def obs (s : PState α) : List α :=
  let theta := s.q.take 2
  let tv := tipVel s
  theta.map HasTrig.cos ++ theta.map HasTrig.sin ++ s.q.drop 2 ++ [tv.x, tv.y]
    ++ V3.toList (tipPos s - linkPos s 2)

def obsSize (nq : Nat) : Nat := min 2 nq + min 2 nq + (nq - 2) + 2 + 3

/-- metrics of `reset`: `reward_dist, reward_ctrl` -/
def reset (s : PState α) : Out α := resetOut (obs s) 2

/-- `reward_dist = -safe_norm(obs[-3:])` -/
def rewardDist (o : List α) : α := -safeNormL (o.drop (o.length - 3))

/-- `reward_ctrl = -jp.square(action).sum()` -/
def rewardCtrl (act : List α) : α := -sumSq act

/-- `step`; metrics `[reward_dist, reward_ctrl]`; `done` is not written (passed through) -/
def step (s : PState α) (act : List α) (done0 : α) : Out α :=
  let o := obs s
  ⟨o, rewardDist o + rewardCtrl act, done0, [rewardDist o, rewardCtrl act]⟩

end Reacher

/-! ## `envs/pusher.py` -/
namespace Pusher

/-- static data the environment reads from `sys`: `link.inertia.transform.pos`, the three link
indices found by name, and `actuator.ctrl_range` -/
structure Cfg (α : Type) where
  ipos : List (V3 α)
  tips : Nat
  object : Nat
  goal : Nat
  ctrlRange : List (α × α)

/-- `x.vmap().do(Transform.create(pos=inertia.transform.pos)).pos[i]` -/
def comPos (c : Cfg α) (s : PState α) (i : Nat) : V3 α :=
  (Tf.doTf (link s i) ⟨c.ipos.getD i V3.zero, Q4.one⟩).pos

/-- `_get_obs`: `[q[:7], qd[:7], x_i.pos[tips], x_i.pos[object], x_i.pos[goal]]` -/
def obs (c : Cfg α) (s : PState α) : List α :=
  s.q.take 7 ++ s.qd.take 7 ++ V3.toList (comPos c s c.tips) ++ V3.toList (comPos c s c.object)
    ++ V3.toList (comPos c s c.goal)

def obsSize (nq nv : Nat) : Nat := min 7 nq + min 7 nv + 9

/-- metrics of `reset`: `reward_dist, reward_ctrl, reward_near` -/
def reset (c : Cfg α) (s : PState α) : Out α := resetOut (obs c s) 3

/-- the action sent to the physics, and used by the control cost -/
def action (c : Cfg α) (act : List α) : List α := scaleAction act c.ctrlRange

/-- `reward_near = -safe_norm(x_i.pos[object] - x_i.pos[tips])` — of the state BEFORE the step -/
def rewardNear (c : Cfg α) (s0 : PState α) : α :=
  -safeNorm3 (comPos c s0 c.object - comPos c s0 c.tips)
/-- `reward_dist = -safe_norm(x_i.pos[object] - x_i.pos[goal])` — of the state BEFORE the step -/
def rewardDist (c : Cfg α) (s0 : PState α) : α :=
  -safeNorm3 (comPos c s0 c.object - comPos c s0 c.goal)
/-- `reward_ctrl = -jp.square(action).sum()` of the RESCALED action -/
def rewardCtrl (c : Cfg α) (act : List α) : α := -sumSq (action c act)

/-- `step`; `reward = reward_dist + 0.1 * reward_ctrl + 0.5 * reward_near`;
metrics `[reward_near, reward_dist, reward_ctrl]`; `done` passed through -/
def step (c : Cfg α) (s0 s : PState α) (act : List α) (done0 : α) : Out α :=
  ⟨obs c s, rewardDist c s0 + 0.1 * rewardCtrl c act + 0.5 * rewardNear c s0, done0,
   [rewardNear c s0, rewardDist c s0, rewardCtrl c act]⟩

end Pusher

end Brax.C16
