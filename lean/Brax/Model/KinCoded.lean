import Brax.Model.ScanLevels
import Brax.Model.ScanTypes
/-!
# `kinematics.forward` with both scans as coded

`Kin.forward` (Model/Kinematics.lean) is written with the per-link slicing `linkSlices` and the per-link
recursion `scanFwd`.  `forwardCoded` is the same function with `scan.link_types` and `scan.tree` replaced
by their faithful transcriptions (`scanLinkTypesCoded`, `scanTreeLevels`); `Props/C01.forwardCoded_eq_forward`
shows the two agree, so the C01 theorems hold of the function *including* the grouping, gathering,
concatenation and reordering code of `brax/scan.py`.  No Mathlib.
-/
namespace Brax.Kin

section
variable {α : Type} [Zero α] [One α] [Add α] [Sub α] [Mul α] [Neg α] [Div α]
  [LT α] [DecidableLT α] [LE α] [DecidableLE α] [OfScientific α] [HasSqrt α] [HasTrig α]

/-- `kinematics.forward(sys, q, qd)` with `scan.link_types(sys, jcalc, 'qdd', 'l', …)` and
`scan.tree(sys, world, 'll', j, jd)` as coded -/
def forwardCoded (s : Sys α) (q qd : List α) (dq : α) (dd : DofP α) : List (Tf α × Motion α) :=
  let d : Tf α × Motion α := (Tf.id, Motion.zero)
  let jc := scanLinkTypesCoded (fun l => [jcalc l]) (fun _ => 1) s.types q qd s.dofs dq dd d
  let jj := (s.links.zip jc).map (fun lj =>
    (placeJoint lj.1 lj.2.1, (⟨lj.2.2.ang, rotate lj.2.2.vel lj.1.tf.rot⟩ : Motion α)))
  (scanTreeLevels world s.parents jj d d).map (fun x => (⟨x.1.pos, normalize4 x.1.rot⟩, x.2))

end
end Brax.Kin
