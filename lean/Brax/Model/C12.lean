import Brax.Model.Wire
/-!
# C12 — the generalized pipeline specialised to a one-dof spring (harmonic oscillator family)

A single slide dof with joint stiffness `k`, joint damping `d`, link mass + armature `m`, no
gravity component along the axis, no actuator, no contact: `generalized.pipeline.step` reduces to

```
qf_smooth = −k·q − d·v                      (dynamics.forward: passive force; bias = 0)
v' = v + dt · qf_smooth / (m + dt·d)         (integrator.integrate: implicit joint damping)
q' = q + dt · v'                             (_integrate_q_axis with the NEW velocity)
```
The harness runs the real pipeline on such models and compares whole trajectories with `oscIter`.
-/
namespace Brax.C12

section
variable {α : Type} [Add α] [Sub α] [Mul α] [Neg α] [Div α]

/-- one step of the generalized pipeline for the one-dof spring -/
def oscStep (m k d dt : α) (s : α × α) : α × α :=
  let qf := -(k * s.1) - d * s.2
  let v' := s.2 + dt * (qf / (m + dt * d))
  (s.1 + dt * v', v')

def oscIter (m k d dt : α) : Nat → α × α → α × α
  | 0, s => s
  | n + 1, s => oscIter m k d dt n (oscStep m k d dt s)

/-- mechanical energy `½ m v² + ½ k q²` (written as `(m v² + k q²)/2`) -/
def energy2 (m k : α) (s : α × α) : α := m * (s.2 * s.2) + k * (s.1 * s.1)

/-- twice the modified energy `m v² + k q² − dt·k·q·v`, exactly conserved by the undamped step -/
def modEnergy2 (m k dt : α) (s : α × α) : α := m * (s.2 * s.2) + k * (s.1 * s.1) - dt * k * (s.1 * s.2)

end

/-! ## n-dof generalisation: constant mass matrix, linear joint springs

For a tree of slide joints (any axes, any topology) the joint-space mass matrix `M` is constant, the
bias force vanishes without gravity, and with joint stiffness `K = diag k` one step of the pipeline is
```
qf_smooth = −K q ;  v' = v + dt · M⁻¹ qf_smooth ;  q' = q + dt · v'
```
i.e. `linStep A` with `A q = M⁻¹ (K q)`, polymorphic in the vector type (lists of floats in the driver,
any module over a field in the theorems). -/
section Lin
variable {α V : Type} [Add V] [Neg V] [SMul α V]

def linStep (A : V → V) (dt : α) (s : V × V) : V × V :=
  let v' := s.2 + dt • (-(A s.1))
  (s.1 + dt • v', v')

def linIter (A : V → V) (dt : α) : Nat → V × V → V × V
  | 0, s => s
  | n + 1, s => linIter A dt n (linStep A dt s)

end Lin

open Brax in
/-- driver: `osc <m> <k> <d> <dt> <q> <v> <n>` → the n+1 states, Float -/
def driverStep (line : String) : String :=
  match tokens line with
  | ["osc", m, k, d, dt, q, v, n] =>
    match (Wire.parse m : Option Float), (Wire.parse k : Option Float), (Wire.parse d : Option Float),
          (Wire.parse dt : Option Float), (Wire.parse q : Option Float), (Wire.parse v : Option Float),
          n.toNat? with
    | some m, some k, some d, some dt, some q, some v, some n =>
      let states := (List.range (n + 1)).map fun i => oscIter m k d dt i (q, v)
      renderVals (states.flatMap fun s => [s.1, s.2])
    | _, _, _, _, _, _, _ => "bad-args"
  | _ => "bad-op"

end Brax.C12
