import Brax.Model.Math
import Brax.Model.Wire
/-!
# C10 — model of `brax/contact.py: get`

brax's own part of contact detection:

* `localToGlobal`  : the vmapped lambda `pos1 + rotate(pos2, quat1)`,
                     `quat_to_3x3(quat_mul(quat1, quat2))`
* `geomWorld`      : `x = x.concatenate(Transform.zero((1,)))`, `x.pos[geom_bodyid − 1]`,
                     `x.rot[geom_bodyid − 1]` (index −1 reads the appended identity), then
                     `local_to_global`
* `get`            : calls the external `mjx.collision` (a **parameter** here: a function from the
                     geom world poses to candidate rows), then adds
                     `elasticity = (e[geom1] + e[geom2]) * 0.5` and
                     `link_idx = (geom_bodyid[geom1] − 1, geom_bodyid[geom2] − 1)`;
                     returns `none` when there is no candidate (`d.ncon == 0`).

The second part (`namespace Mjx`) is a *transcription of the external library*
`mujoco/mjx/_src/collision_primitive.py` + `math.py` for plane/sphere/capsule pairs, including
its `+1e-6` regularisers.  It is not brax code and nothing is proved about it; the driver uses it
(i) as the `collision` parameter so that the whole of `contact.get` can be compared at 1e-9 and
(ii) to measure how far mjx is from the closed forms of `Spec/C10.lean`.

No Mathlib.
-/
set_option linter.unusedSectionVars false
namespace Brax.C10

/-- the per-geom fields of `System` (an `mjx.Model`) read by `contact.get` -/
structure Geom (α : Type) where
  /-- `geom_bodyid` (0 = world body) -/
  bodyid : Nat
  /-- `geom_type` (`mjtGeom`: 0 plane, 2 sphere, 3 capsule) -/
  typ : Nat
  /-- `geom_size` -/
  size : V3 α
  /-- `geom_pos`: position in the body frame -/
  pos : V3 α
  /-- `geom_quat`: orientation in the body frame -/
  quat : Q4 α
deriving Repr

structure Scene (α : Type) where
  geoms : List (Geom α)
  /-- `sys.elasticity` (one entry per geom, built by `mjcf._get_custom`) -/
  elasticity : List α
deriving Repr

/-- integer-array indexing `a[i]` of `jax.numpy` on an axis of length `n`: negative indices
count from the end, what is still out of range is clamped -/
def jnpIndex (n : Nat) (i : Int) : Nat :=
  let j : Int := if i < 0 then i + n else i
  if j < 0 then 0 else if (n : Int) ≤ j then n - 1 else j.toNat

/-- `xs[i]` with `jnpIndex`; the default is never read for a non-empty list -/
def readIdx {β : Type} (xs : List β) (dflt : β) (i : Int) : β := xs.getD (jnpIndex xs.length i) dflt

/-- one row of `d.contact` as `mjx.collision` returns it (fields the property observes) -/
structure MjxRow (α : Type) where
  geom1 : Nat
  geom2 : Nat
  dist : α
  pos : V3 α
  /-- `frame[0]`, the contact normal -/
  normal : V3 α
deriving Repr

/-- one row of `brax.base.Contact` -/
structure Contact (α : Type) where
  row : MjxRow α
  link1 : Int
  link2 : Int
  elasticity : α
deriving Repr

section ring
variable {α : Type} [Zero α] [One α] [Add α] [Sub α] [Mul α] [Neg α] [Div α]

/-- the vmapped `local_to_global(pos1, quat1, pos2, quat2)` -/
def localToGlobal (pos1 : V3 α) (quat1 : Q4 α) (pos2 : V3 α) (quat2 : Q4 α) : V3 α × M3 α :=
  (pos1 + rotate pos2 quat1, quatTo3x3 (quatMul quat1 quat2))

/-- the link transform a geom is attached to: `x.concatenate(Transform.zero((1,)))[bodyid − 1]` -/
def geomLink (x : List (Tf α)) (g : Geom α) : Tf α :=
  readIdx (x ++ [Tf.id]) Tf.id ((g.bodyid : Int) - 1)

/-- `geom_xpos, geom_xmat` of one geom -/
def geomWorld (x : List (Tf α)) (g : Geom α) : V3 α × M3 α :=
  let xl := geomLink x g
  localToGlobal xl.pos xl.rot g.pos g.quat

/-- `link_idx` entry of a geom id: `jp.array(sys.geom_bodyid)[g] − 1` -/
def linkOf (sc : Scene α) (g : Nat) : Int :=
  let body : Nat := readIdx (sc.geoms.map (·.bodyid)) 0 (g : Int)
  (body : Int) - 1

end ring

section get
variable {α : Type} [Zero α] [One α] [Add α] [Sub α] [Mul α] [Neg α] [Div α] [OfScientific α]

/-- `(sys.elasticity[g1] + sys.elasticity[g2]) * 0.5` -/
def pairElasticity (sc : Scene α) (g1 g2 : Nat) : α :=
  (readIdx sc.elasticity 0 (g1 : Int) + readIdx sc.elasticity 0 (g2 : Int)) * 0.5

/-- `contact.get(sys, x)`; `collision` stands for `mjx.collision` (external) -/
def get (sc : Scene α) (x : List (Tf α))
    (collision : List (V3 α × M3 α) → List (MjxRow α)) : Option (List (Contact α)) :=
  let rows := collision (sc.geoms.map (geomWorld x))
  if rows.isEmpty then none
  else some (rows.map fun c =>
    ⟨c, linkOf sc c.geom1, linkOf sc c.geom2, pairElasticity sc c.geom1 c.geom2⟩)

end get

/-! ## transcription of the external `mujoco.mjx` primitives (not brax code, nothing proved) -/
namespace Mjx
section real
variable {α : Type} [Zero α] [One α] [Add α] [Sub α] [Mul α] [Neg α] [Div α]
  [LT α] [DecidableLT α] [LE α] [DecidableLE α] [OfScientific α] [HasSqrt α]

/-- `math.normalize_with_norm` = `(x / (n + 1e-6·(n == 0)), n)` with `n = math.norm x` -/
def normalizeWithNorm (v : V3 α) : V3 α × α := (normalize3 v, safeNorm3 v)

/-- row 0 of `math.make_frame(a)` -/
def frame0 (a : V3 α) : V3 α := normalize3 a

/-- `_plane_sphere` -/
def planeSphere' (n p c : V3 α) (r : α) : α × V3 α :=
  let dist := V3.dot (c - p) n - r
  (dist, c - V3.smul (r + 0.5 * dist) n)

/-- `_sphere_sphere` -/
def sphereSphere' (p1 : V3 α) (r1 : α) (p2 : V3 α) (r2 : α) : α × V3 α × V3 α :=
  let nd := normalizeWithNorm (p2 - p1)
  let n := if eqZero nd.2 then ⟨1, 0, 0⟩ else nd.1
  let dist := nd.2 - (r1 + r2)
  (dist, p1 + V3.smul (r1 + dist * 0.5) n, n)

/-- `math.closest_segment_point` -/
def closestSegmentPoint (a b pt : V3 α) : V3 α :=
  let ab := b - a
  let t := V3.dot (pt - a) ab / (V3.dot ab ab + 1e-6)
  a + V3.smul (clip t 0 1) ab

/-- `math.closest_segment_to_segment_points` -/
def closestSegmentToSegmentPoints (a0 a1 b0 b1 : V3 α) : V3 α × V3 α :=
  let da := normalizeWithNorm (a1 - a0)
  let db := normalizeWithNorm (b1 - b0)
  let dirA := da.1
  let dirB := db.1
  let halfA := da.2 * 0.5
  let halfB := db.2 * 0.5
  let aMid := a0 + V3.smul halfA dirA
  let bMid := b0 + V3.smul halfB dirB
  let trans := aMid - bMid
  let dab := V3.dot dirA dirB
  let dat := V3.dot dirA trans
  let dbt := V3.dot dirB trans
  let denom := 1 - dab * dab
  let origTa := (-dat + dab * dbt) / (denom + 1e-6)
  let origTb := dbt + origTa * dab
  let tA := clip origTa (-halfA) halfA
  let tB := clip origTb (-halfB) halfB
  let bestA := aMid + V3.smul tA dirA
  let bestB := bMid + V3.smul tB dirB
  let newA := closestSegmentPoint a0 a1 bestB
  let d1 := V3.dot (bestB - newA) (bestB - newA)
  let newB := closestSegmentPoint b0 b1 bestA
  let d2 := V3.dot (bestA - newB) (bestA - newB)
  if d1 < d2 then (newA, bestB) else (bestA, newB)

/-- candidates `(dist, pos, frame[0])` of one geom pair, by `_COLLISION_FUNC[(type1, type2)]`;
`none` for a type pair outside plane/sphere/capsule -/
def pairRows (t1 : Nat) (s1 : V3 α) (w1 : V3 α × M3 α) (t2 : Nat) (s2 : V3 α) (w2 : V3 α × M3 α) :
    Option (List (α × V3 α × V3 α)) :=
  match t1, t2 with
  | 0, 2 =>      -- plane_sphere
    let n := w1.2.col2
    let dp := planeSphere' n w1.1 w2.1 s2.x
    some [(dp.1, dp.2, frame0 n)]
  | 0, 3 =>      -- plane_capsule: frame = [n, b, n × b]
    let n := w1.2.col2
    let seg := V3.smul s2.y w2.2.col2
    let c1 := planeSphere' n w1.1 (w2.1 + seg) s2.x
    let c2 := planeSphere' n w1.1 (w2.1 - seg) s2.x
    some [(c1.1, c1.2, n), (c2.1, c2.2, n)]
  | 2, 2 =>      -- sphere_sphere
    let r := sphereSphere' w1.1 s1.x w2.1 s2.x
    some [(r.1, r.2.1, frame0 r.2.2)]
  | 2, 3 =>      -- sphere_capsule
    let seg := V3.smul s2.y w2.2.col2
    let pt := closestSegmentPoint (w2.1 - seg) (w2.1 + seg) w1.1
    let r := sphereSphere' w1.1 s1.x pt s2.x
    some [(r.1, r.2.1, frame0 r.2.2)]
  | 3, 3 =>      -- capsule_capsule
    let seg1 := V3.smul s1.y w1.2.col2
    let seg2 := V3.smul s2.y w2.2.col2
    let pq := closestSegmentToSegmentPoints (w1.1 - seg1) (w1.1 + seg1) (w2.1 - seg2) (w2.1 + seg2)
    let r := sphereSphere' pq.1 s1.x pq.2 s2.x
    some [(r.1, r.2.1, frame0 r.2.2)]
  | _, _ => none

/-- `mjx.collision` restricted to the given (ordered) geom pairs: rows in pair order, a
two-contact function (`plane_capsule`) contributes two consecutive rows.  The pair list itself
(`collision_driver.geom_pairs`, a function of the model only) is data. -/
def collision (geoms : List (Geom α)) (pairs : List (Nat × Nat)) (world : List (V3 α × M3 α)) :
    List (MjxRow α) :=
  pairs.flatMap fun p =>
    match geoms[p.1]?, geoms[p.2]?, world[p.1]?, world[p.2]? with
    | some g1, some g2, some w1, some w2 =>
      match pairRows g1.typ g1.size w1 g2.typ g2.size w2 with
      | some rows => rows.map fun r => ⟨p.1, p.2, r.1, r.2.1, r.2.2⟩
      | none => []
    | _, _, _, _ => []

end real
end Mjx

end Brax.C10
