import Brax.Model.Wire
/-!
# C14 — model of `brax.io.mjcf.validate_model`, the structural part of `load_model`,
# the `init` guard of the three native pipelines and the index helpers of `base.System`

No Mathlib.  Everything is a small total function over `List`, `Int`, `Nat`, `Rat`.

Conventions
* numbers of the `MjModel` travel exactly: integers as `Int`, doubles as the exact `Rat` they
  denote (`±inf` of `jnt_range` as `none`);
* python exceptions are `Except Err`: `NotImplementedError`, `RuntimeError`, and `other`
  (`IndexError`, `KeyError`, `ValueError` of numpy/dict operations inside `validate_model`);
* `itertools.groupby` is `groupRuns` (maximal runs of *consecutive* equal keys);
* every check is a function `MjFeatures → Except Err Unit`; `validate` runs them in the order of
  the source and returns the first error (`firstErr`).
-/
namespace Brax.C14

/-- the error *kind* raised by the code (messages are not modelled) -/
inductive Err where
  | notImplemented   -- NotImplementedError
  | runtime          -- RuntimeError
  | other            -- IndexError / KeyError / ValueError from numpy or dict operations
  deriving DecidableEq, Repr

instance : DecidableEq (Except Err Unit)
  | .ok (), .ok () => isTrue rfl
  | .error a, .error b => if h : a = b then isTrue (by rw [h]) else isFalse (by intro h'; cases h'; exact h rfl)
  | .ok (), .error _ => isFalse (by intro h; cases h)
  | .error _, .ok () => isFalse (by intro h; cases h)

/-- exactly the `MjModel` fields read by `validate_model` and by the structural part of
`load_model` -/
structure MjFeatures where
  -- mj.opt
  integrator : Int
  cone : Int
  wind : List Rat
  impratio : Rat
  -- geoms (ngeom rows)
  geomFluid : List (List Rat)
  geomSolmix : List Rat
  geomPriority : List Int
  geomType : List Int
  geomSize : List (Rat × Rat × Rat)
  geomContype : List Int
  geomConaffinity : List Int
  -- actuators (nu rows)
  actBiastype : List Int
  actGaintype : List Int
  actTrntype : List Int
  actTrnid : List Int                       -- actuator_trnid[:, 0]
  -- joints (njnt rows)
  jntType : List Int
  jntBodyid : List Int
  jntPos : List (Rat × Rat × Rat)
  jntLimited : List Bool                    -- jnt_limited == 1
  jntRange : List (Option Rat × Option Rat) -- none = ±inf
  jntStiffness : List Rat
  jntQposadr : List Int
  jntDofadr : List Int
  qpos0 : List Rat
  -- sizes, bodies (nbody rows)
  nq : Nat
  nv : Nat
  bodyParentid : List Int
  deriving Repr

/-! ## helpers -/

/-- `raise e` when `bad` -/
def failIf (bad : Bool) (e : Err) : Except Err Unit := if bad then .error e else .ok ()

/-- sequential execution: the first error wins -/
def firstErr : List (Except Err Unit) → Except Err Unit
  | [] => .ok ()
  | .ok () :: rest => firstErr rest
  | .error e :: _ => .error e

/-- `itertools.groupby(zip(keys, vals), key=fst)`: maximal runs of consecutive equal keys -/
def groupRuns {α : Type} : List (Int × α) → List (Int × List α)
  | [] => []
  | (k, a) :: rest =>
    match groupRuns rest with
    | [] => [(k, [a])]
    | (k', g) :: gs => if k = k' then (k, a :: g) :: gs else (k, [a]) :: (k', g) :: gs

/-- `q_width = {0: 7, 1: 4, 2: 1, 3: 1}` of `validate_model` (0 outside the keys; the KeyError is
modelled by `validJntType`) -/
def jntQWidth (j : Int) : Nat := if j = 0 then 7 else if j = 1 then 4 else if j = 2 ∨ j = 3 then 1 else 0
/-- dof width of a MuJoCo joint type -/
def jntQdWidth (j : Int) : Nat := if j = 0 then 6 else if j = 1 then 3 else if j = 2 ∨ j = 3 then 1 else 0
def validJntType (j : Int) : Bool := j == 0 || j == 1 || j == 2 || j == 3

/-- `np.concatenate([[j != 0] * q_width[j] for j in mj.jnt_type])` -/
def nonFreeMask (jntType : List Int) : List Bool :=
  (jntType.map fun j => List.replicate (jntQWidth j) (j != 0)).flatten

/-- the double nearest to the literal `0.001` (`(0.001).as_integer_ratio()`) -/
def cylThreshold : Rat := (1152921504606847 : Rat) / (1152921504606846976 : Rat)

/-- `int(mj.geom_contype[i]) | int(mj.geom_conaffinity[i]) << 32` on python ints (since the fix
132d4d7; before it both operands were `numpy.int32` and the shift by the full width gave 0).
`shl32Int32 x = x << 32`.  For the bit masks of a compiled model (`MaskBits`: `0 ≤ contype < 2³¹`,
`0 ≤ conaffinity`) the bitwise or of the two disjoint halves is their sum. -/
def shl32Int32 (x : Int) : Int := x * 4294967296
def collisionMask (contype conaffinity : Int) : Int := contype + shl32Int32 conaffinity

/-! ## `validate_model`, branch by branch in source order -/

def chkIntegrator (m : MjFeatures) := failIf (m.integrator != 0) .notImplemented
def chkCone (m : MjFeatures) := failIf (m.cone != 0) .notImplemented
/-- `(mj.geom_fluid != 0).any()` -/
def chkFluid (m : MjFeatures) := failIf (m.geomFluid.any fun row => row.any (· != 0)) .notImplemented
/-- `mj.opt.wind.any()` -/
def chkWind (m : MjFeatures) := failIf (m.wind.any (· != 0)) .notImplemented
def chkImpratio (m : MjFeatures) := failIf (m.impratio != 1) .notImplemented
/-- `any(i not in [0, 1] for i in mj.actuator_biastype)` -/
def chkBias (m : MjFeatures) := failIf (m.actBiastype.any fun i => !(i == 0 || i == 1)) .notImplemented
/-- `any(i != 0 for i in mj.actuator_gaintype)` -/
def chkGain (m : MjFeatures) := failIf (m.actGaintype.any (· != 0)) .notImplemented
/-- `not (mj.actuator_trntype == 0).all()` -/
def chkTrn (m : MjFeatures) := failIf (!(m.actTrntype.all (· == 0))) .notImplemented
/-- `(mj.geom_solmix[0] != mj.geom_solmix).any()`; `geom_solmix[0]` is an IndexError without geoms -/
def chkSolmix (m : MjFeatures) : Except Err Unit :=
  match m.geomSolmix with
  | [] => .error .other
  | s0 :: _ => failIf (m.geomSolmix.any (s0 != ·)) .notImplemented
def chkPriority (m : MjFeatures) : Except Err Unit :=
  match m.geomPriority with
  | [] => .error .other
  | p0 :: _ => failIf (m.geomPriority.any (p0 != ·)) .notImplemented
/-- `non_free = np.concatenate(...)` (ValueError without joints, KeyError for an unknown joint
type), `mj.qpos0[non_free]` (IndexError when the mask length differs), `.any()` -/
def chkRef (m : MjFeatures) : Except Err Unit :=
  if m.jntType.isEmpty then .error .other
  else if !(m.jntType.all validJntType) then .error .other
  else if (nonFreeMask m.jntType).length != m.qpos0.length then .error .other
  else failIf (((nonFreeMask m.jntType).zip m.qpos0).any fun bx => bx.1 && bx.2 != 0) .notImplemented
/-- `position == position[0]).all()` for one group -/
def anchorsDiffer (ps : List (Rat × Rat × Rat)) : Bool :=
  match ps with
  | [] => false
  | p0 :: _ => ps.any (· != p0)
def chkAnchors (m : MjFeatures) :=
  failIf ((groupRuns (m.jntBodyid.zip m.jntPos)).any fun g => anchorsDiffer g.2) .runtime
/-- `jnt_range[~(mj.jnt_limited == 1), :] = [-inf, inf]` -/
def effRange (limited : Bool) (r : Option Rat × Option Rat) : Option Rat × Option Rat :=
  if limited then r else (none, none)
/-- one iteration of the dof loop; the limit is the masked one -/
def chkDof (typ : Int) (limit : Option Rat × Option Rat) (stiffness : Rat) : Except Err Unit :=
  if typ = 0 then failIf (decide (stiffness > 0)) .runtime
  else if typ = 1 then failIf (limit.1.isSome || limit.2.isSome) .runtime   -- np.any(~np.isinf(limit))
  else if typ = 2 ∨ typ = 3 then .ok ()
  else .error .runtime
/-- the rows `zip(mj.jnt_type, jnt_range, mj.jnt_stiffness)` with the masked range -/
def dofRows (m : MjFeatures) : List (Int × (Option Rat × Option Rat) × Rat) :=
  m.jntType.zip (((m.jntLimited.zip m.jntRange).map fun lr => effRange lr.1 lr.2).zip m.jntStiffness)
def chkDofs (m : MjFeatures) := firstErr ((dofRows m).map fun r => chkDof r.1 r.2.1 r.2.2)
/-- one group of the joint-stack loop -/
def chkStack (typs : List Int) : Except Err Unit :=
  if typs = [0] then .ok ()
  else if 0 ∈ typs then .error .runtime
  else if 1 ∈ typs then .error .notImplemented
  else .ok ()
def chkStacks (m : MjFeatures) :=
  firstErr ((groupRuns (m.jntBodyid.zip m.jntType)).map fun g => chkStack g.2)
/-- `typ == 5 and halflength > 0.001 and mask > 0` -/
def badCylinder (typ : Int) (size : Rat × Rat × Rat) (contype conaffinity : Int) : Bool :=
  typ == 5 && decide (size.2.1 > cylThreshold) && decide (collisionMask contype conaffinity > 0)
/-- rows `(geom_type[i], geom_size[i], geom_contype[i], geom_conaffinity[i])` -/
def geomRows (m : MjFeatures) : List (Int × (Rat × Rat × Rat) × Int × Int) :=
  m.geomType.zip (m.geomSize.zip (m.geomContype.zip m.geomConaffinity))
def chkCylinders (m : MjFeatures) :=
  failIf ((geomRows m).any fun r => badCylinder r.1 r.2.1 r.2.2.1 r.2.2.2) .notImplemented

/-- the checks of `validate_model` in source order -/
def checks (m : MjFeatures) : List (Except Err Unit) :=
  [chkIntegrator m, chkCone m, chkFluid m, chkWind m, chkImpratio m,
   chkBias m, chkGain m, chkTrn m, chkSolmix m, chkPriority m,
   chkRef m, chkAnchors m, chkDofs m, chkStacks m, chkCylinders m]

/-- `mjcf.validate_model` -/
def validate (m : MjFeatures) : Except Err Unit := firstErr (checks m)

/-! ## the `init` guard of the three pipelines -/

inductive Pipeline where
  | generalized | spring | positional
  deriving DecidableEq, Repr

/-- whether `brax/<p>/pipeline.py:init` starts with
`if sys.mj_model is not None: mjcf.validate_model(sys.mj_model)` (transcribed per pipeline) -/
def initCallsValidate : Pipeline → Bool
  | .generalized => true
  | .spring => true
  | .positional => true

/-- `pipeline.init(sys, q, qd)`: the guard, then the rest of `init` (`body`, abstract) -/
def init {σ : Type} (p : Pipeline) (mjModel : Option MjFeatures) (body : Except Err σ) : Except Err σ :=
  match mjModel with
  | some m => if initCallsValidate p then (validate m >>= fun _ => body) else body
  | none => body

/-! ## `load_model`, structural part -/

/-- link type of one joint group; `none` is the `continue` of an invalid stack -/
def linkTypeOf (typs : List Int) : Option (List Char) :=
  if typs = [0] then some ['f']
  else if 0 ∈ typs ∨ 1 ∈ typs then none
  else some (Nat.repr typs.length).toList          -- str(len(typs))

/-- joint types grouped per body -/
def jointGroups (m : MjFeatures) : List (Int × List Int) := groupRuns (m.jntBodyid.zip m.jntType)

/-- `link_types` (a python string, here its characters) -/
def linkTypes (m : MjFeatures) : List Char := ((jointGroups m).filterMap fun g => linkTypeOf g.2).flatten

/-- `tuple(mj.body_parentid - 1)[1:]` -/
def linkParents (m : MjFeatures) : List Int := (m.bodyParentid.map (· - 1)).drop 1

/-- `adr[trnid]` for the actuators with joint transmission (`trnid.astype(uint32)`: a negative id
becomes huge, i.e. an IndexError like any id ≥ njnt) -/
def actIds (m : MjFeatures) (adr : List Int) : Option (List Int) :=
  ((m.actTrntype.zip m.actTrnid).filter (·.1 == 0)).mapM fun ti =>
    if ti.2 < 0 then none else adr[ti.2.toNat]?

structure LoadOut where
  linkTypes : List Char
  linkParents : List Int
  actQId : List Int
  actQdId : List Int
  initQ : List Rat            -- no `init_qpos` custom numeric: `mj.qpos0`
  deriving Repr, DecidableEq

/-- `none`: `load_model` raises (IndexError in the actuator index lookup) -/
def loadStructure (m : MjFeatures) : Option LoadOut := do
  let q ← actIds m m.jntQposadr
  let qd ← actIds m m.jntDofadr
  pure { linkTypes := linkTypes m, linkParents := linkParents m, actQId := q, actQdId := qd, initQ := m.qpos0 }

/-! ## `base.System` size / index helpers -/

/-- `Q_WIDTHS` / `QD_WIDTHS` (0 outside the keys; the KeyError is modelled by `validLinkType`) -/
def qWidth (c : Char) : Nat := if c = 'f' then 7 else if c = '1' then 1 else if c = '2' then 2 else if c = '3' then 3 else 0
def qdWidth (c : Char) : Nat := if c = 'f' then 6 else if c = '1' then 1 else if c = '2' then 2 else if c = '3' then 3 else 0
def validLinkType (c : Char) : Bool := c == 'f' || c == '1' || c == '2' || c == '3'

/-- `dof_link()` with the enumerate counter starting at `i` -/
def dofLinkFrom (i : Nat) : List Char → List Nat
  | [] => []
  | t :: ts => List.replicate (qdWidth t) i ++ dofLinkFrom (i + 1) ts
/-- `dof_ranges()` with `beg` -/
def dofRangesFrom (beg : Nat) : List Char → List (List Nat)
  | [] => []
  | t :: ts => List.range' beg (qdWidth t) :: dofRangesFrom (beg + qdWidth t) ts
/-- `q_idx(sel)` / `qd_idx(sel)` with the running `idx` -/
def idxFrom (width : Char → Nat) (sel : List Char) (idx : Nat) : List Char → List Nat
  | [] => []
  | t :: ts => (if t ∈ sel then List.range' idx (width t) else []) ++ idxFrom width sel (idx + width t) ts

/-- python tuple indexing (negative indices wrap once) -/
def pyGet (p : List Int) (i : Int) : Option Int :=
  if 0 ≤ i then p[i.toNat]? else if -(p.length : Int) ≤ i then p[((p.length : Int) + i).toNat]? else none
/-- `depth_fn = lambda i: p[i] + 1 and 1 + depth_fn(p[i])`; `none`: IndexError / RecursionError -/
def depthFn (p : List Int) : Nat → Int → Option Nat
  | 0, _ => none
  | fuel + 1, i => do
      let pi ← pyGet p i
      if pi + 1 = 0 then pure 0 else do
        let d ← depthFn p fuel pi
        pure (1 + d)
/-- `depth_count` loop: position of each link among the earlier links of the same depth -/
def depthIdxGo (seen : List Nat) : List Nat → List Nat
  | [] => []
  | d :: ds => seen.count d :: depthIdxGo (d :: seen) ds

/-- KeyError guard shared by the helpers -/
def typesOk (ts : List Char) : Bool := ts.all validLinkType

def dofLink (ts : List Char) : Option (List Nat) := if typesOk ts then some (dofLinkFrom 0 ts) else none
def dofRanges (ts : List Char) : Option (List (List Nat)) := if typesOk ts then some (dofRangesFrom 0 ts) else none
def qIdx (ts sel : List Char) : Option (List Nat) := if typesOk ts then some (idxFrom qWidth sel 0 ts) else none
def qdIdx (ts sel : List Char) : Option (List Nat) := if typesOk ts then some (idxFrom qdWidth sel 0 ts) else none
/-- `dof_link(depth=True)` -/
def dofLinkDepth (ts : List Char) (ps : List Int) : Option (List Nat) := do
  let dl ← dofLink ts
  let ds ← (List.range ts.length).mapM fun (i : Nat) => depthFn ps (ps.length + 1) (i : Int)
  let li := depthIdxGo [] ds
  dl.mapM fun i => li[i]?

/-! ## shape invariants of a compiled `MjModel` -/

def prefixSum (ws : List Nat) (k : Nat) : Nat := (ws.take k).sum

/-- per-joint arrays have `njnt` rows -/
def JntShapes (m : MjFeatures) : Prop :=
  m.jntBodyid.length = m.jntType.length ∧ m.jntPos.length = m.jntType.length ∧
  m.jntLimited.length = m.jntType.length ∧ m.jntRange.length = m.jntType.length ∧
  m.jntStiffness.length = m.jntType.length ∧ m.jntQposadr.length = m.jntType.length ∧
  m.jntDofadr.length = m.jntType.length
/-- per-geom arrays have `ngeom` rows -/
def GeomShapes (m : MjFeatures) : Prop :=
  m.geomFluid.length = m.geomType.length ∧ m.geomSolmix.length = m.geomType.length ∧
  m.geomPriority.length = m.geomType.length ∧ m.geomSize.length = m.geomType.length ∧
  m.geomContype.length = m.geomType.length ∧ m.geomConaffinity.length = m.geomType.length
/-- per-actuator arrays have `nu` rows -/
def ActShapes (m : MjFeatures) : Prop :=
  m.actBiastype.length = m.actTrntype.length ∧ m.actGaintype.length = m.actTrntype.length ∧
  m.actTrnid.length = m.actTrntype.length
/-- MuJoCo lists the joints body by body, bodies in increasing id -/
def JntSorted (m : MjFeatures) : Prop := m.jntBodyid.Pairwise (· ≤ ·)
/-- joint types are MuJoCo's four; address arrays are the prefix sums of the joint widths; `nq`,
`nv` are the totals -/
def AdrOk (m : MjFeatures) : Prop :=
  (∀ j ∈ m.jntType, validJntType j = true) ∧
  m.jntQposadr = (List.range m.jntType.length).map (fun k => (prefixSum (m.jntType.map jntQWidth) k : Int)) ∧
  m.jntDofadr = (List.range m.jntType.length).map (fun k => (prefixSum (m.jntType.map jntQdWidth) k : Int)) ∧
  m.nq = (m.jntType.map jntQWidth).sum ∧ m.nv = (m.jntType.map jntQdWidth).sum ∧
  m.qpos0.length = m.nq
/-- MuJoCo's body order: the world is body 0 and its own parent, every other body's parent has a
smaller id -/
def BodyOrder (m : MjFeatures) : Prop :=
  m.bodyParentid.head? = some 0 ∧
  ∀ b, (h : b < m.bodyParentid.length) → 1 ≤ b → 0 ≤ m.bodyParentid[b] ∧ m.bodyParentid[b] < (b : Int)
/-- after `_fuse_bodies` every non-world body carries a joint, and joints sit on non-world bodies -/
def BodiesJointed (m : MjFeatures) : Prop :=
  (∀ b ∈ m.jntBodyid, 1 ≤ b ∧ b < (m.bodyParentid.length : Int)) ∧
  ∀ b ∈ List.range' 1 (m.bodyParentid.length - 1), (b : Int) ∈ m.jntBodyid
/-- collision bit masks are non-negative int32 values (so `contype | conaffinity << 32` is the sum) -/
def MaskBits (m : MjFeatures) : Prop :=
  (∀ c ∈ m.geomContype, 0 ≤ c ∧ c < 2147483648) ∧ (∀ c ∈ m.geomConaffinity, 0 ≤ c ∧ c < 2147483648)
/-- a joint transmission names a joint -/
def ActOk (m : MjFeatures) : Prop :=
  ∀ ti ∈ m.actTrntype.zip m.actTrnid, ti.1 = 0 → 0 ≤ ti.2 ∧ ti.2 < (m.jntType.length : Int)

/-- shape invariants of a compiled `MjModel` (assumptions about MuJoCo and `_fuse_bodies`;
checked by the driver on every correspondence input) -/
def WF (m : MjFeatures) : Prop :=
  JntShapes m ∧ GeomShapes m ∧ ActShapes m ∧ JntSorted m ∧ AdrOk m ∧ BodyOrder m ∧
  BodiesJointed m ∧ ActOk m ∧ MaskBits m

instance (m : MjFeatures) : Decidable (JntShapes m) := by unfold JntShapes; infer_instance
instance (m : MjFeatures) : Decidable (GeomShapes m) := by unfold GeomShapes; infer_instance
instance (m : MjFeatures) : Decidable (ActShapes m) := by unfold ActShapes; infer_instance
instance (m : MjFeatures) : Decidable (JntSorted m) := by unfold JntSorted; infer_instance
instance (m : MjFeatures) : Decidable (AdrOk m) := by unfold AdrOk; infer_instance
instance (m : MjFeatures) : Decidable (BodyOrder m) := by unfold BodyOrder; infer_instance
instance (m : MjFeatures) : Decidable (BodiesJointed m) := by unfold BodiesJointed; infer_instance
instance (m : MjFeatures) : Decidable (ActOk m) := by unfold ActOk; infer_instance
instance (m : MjFeatures) : Decidable (MaskBits m) := by unfold MaskBits; infer_instance
instance (m : MjFeatures) : Decidable (WF m) := by unfold WF; infer_instance

end Brax.C14
