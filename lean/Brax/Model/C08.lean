import Brax.Model.Kinematics
/-!
# Model of `kinematics.inverse` (and the per-link bodies of `forward` / `world_to_joint`)

Transcription of `brax/kinematics.py`:

* `Inv.orthogonals`, `Inv.signedAngle` — `math.orthogonals`, `math.signed_angle` (hand versions);
* `Inv.linkToJointFrame` — `link_to_joint_frame`, all branches (1-dof frames completed by
  `orthogonals` or replaced by `eye(3)` for a zero axis, 2-dof, 3-dof, the rp / pr / rpp / prp / ppr
  logic, `is_both`, parity);
* `Inv.axisAngleAng` — `axis_angle_ang` (line of nodes; psi / theta / phi);
* `Inv.xDof`, `Inv.free`, `Inv.inverseLink`, `Inv.inverse` — `kinematics.inverse`, the per-link
  lambdas and the `scan.link_types(sys, q_fn, 'llld', 'qd', …)` regrouping (Layer B stage 1: modelled
  as the per-link slicing it implements, `Kin.linkSlices`);
* `Inv.w2jLink` — the per-link body of `Kin.worldToJoint` (`Inv.worldToJoint_eq` in the Props file
  shows that `Kin.worldToJoint` is exactly the map of this body over the links);
* `Inv.fwdLink` — what `Kin.forward` returns at one link given the scanned value of its parent;
* `Inv.stepTail` — the last lines of `spring.pipeline.step` / `positional.pipeline.step`:
  `j, jd, a_p, a_c = world_to_joint(sys, x, xd); q, qd = inverse(sys, j, jd)`.

No Mathlib.  Everything runs at `Float` in `Driver/C08.lean`.
-/
namespace Brax
namespace Inv

section real
variable {α : Type} [Zero α] [One α] [Add α] [Sub α] [Mul α] [Neg α] [Div α]
  [LT α] [DecidableLT α] [LE α] [DecidableLE α] [OfScientific α] [HasSqrt α] [HasTrig α]

/-- `v.any()` for a float 3-vector: some component is non-zero -/
def v3Any (v : V3 α) : Bool := !(eqZero v.x) || !(eqZero v.y) || !(eqZero v.z)

/-- `jp.sign` -/
def signv (x : α) : α := if x < 0 then -1 else if 0 < x then 1 else 0

/-- `math.orthogonals(a)`: `(b, cross(a, b))` -/
def orthogonals (a : V3 α) : V3 α × V3 α :=
  let useY : Bool := decide (-(0.5 : α) < a.y) && decide (a.y < (0.5 : α))
  let e : V3 α := if useY then ⟨0, 1, 0⟩ else ⟨0, 0, 1⟩
  let d := V3.dot a e
  let b0 : V3 α := ⟨e.x - a.x * d, e.y - a.y * d, e.z - a.z * d⟩
  let n := normalize3 b0
  -- `normalize(b)[0] * jp.any(a)`
  let b : V3 α := if v3Any a then n else V3.zero
  (b, V3.cross a b)

/-- `math.signed_angle(axis, ref_p, ref_c)` -/
def signedAngle (axis refP refC : V3 α) : α :=
  HasTrig.atan2 (V3.dot (V3.cross refP refC) axis) (V3.dot refP refC)

/-- `jp.eye(3)` -/
def eye : M3 α := ⟨⟨1, 0, 0⟩, ⟨0, 1, 0⟩, ⟨0, 0, 1⟩⟩

/-- `link_to_joint_frame(motion)`: `(ang_frame, vel_frame, parity)`; frames by rows.
`none` = the `AssertionError` for 0 or more than 3 dofs. -/
def linkToJointFrame (ms : List (Motion α)) : Option (M3 α × M3 α × α) :=
  match ms with
  | [m0] =>
    let oa := orthogonals m0.ang
    let angF : M3 α := if v3Any m0.ang then ⟨m0.ang, oa.1, oa.2⟩ else eye
    let ov := orthogonals m0.vel
    let velF : M3 α := if v3Any m0.vel then ⟨m0.vel, ov.1, ov.2⟩ else eye
    some (angF, velF, 1)
  | [m0, m1] =>
    let oa0 := orthogonals m0.ang; let oa1 := orthogonals m1.ang
    let ov0 := orthogonals m0.vel; let ov1 := orthogonals m1.vel
    let isTrans : Bool := v3Any m0.vel || v3Any m1.vel
    let ang : M3 α := if isTrans then eye else ⟨m0.ang, m1.ang, V3.cross m0.ang m1.ang⟩
    let vel : M3 α := if isTrans then ⟨m0.vel, m1.vel, V3.cross m0.vel m1.vel⟩ else eye
    -- rp / pr
    let r1 := if v3Any m0.ang then m0.ang else oa1.2
    let r2 := if v3Any m1.ang then m1.ang else oa0.1
    let r3 := V3.cross r1 r2
    let p1 := if v3Any m0.vel then m0.vel else ov1.2
    let p2 := if v3Any m1.vel then m1.vel else ov0.1
    let p3 := V3.cross p1 p2
    let isBoth : Bool := (v3Any m0.ang || v3Any m1.ang) && (v3Any m0.vel || v3Any m1.vel)
    some (if isBoth then ⟨r1, r2, r3⟩ else ang, if isBoth then ⟨p1, p2, p3⟩ else vel, 1)
  | [m0, m1, m2] =>
    let oa0 := orthogonals m0.ang; let oa1 := orthogonals m1.ang; let oa2 := orthogonals m2.ang
    let ov0 := orthogonals m0.vel; let ov1 := orthogonals m1.vel
    let ang : M3 α := ⟨m0.ang, m1.ang, V3.cross m0.ang m1.ang⟩
    let vel : M3 α := ⟨m0.vel, m1.vel, V3.cross m0.vel m1.vel⟩
    let parity := V3.dot (V3.cross m0.ang m1.ang) m2.ang
    -- rpp, prp, ppr
    let r1 := if v3Any m0.ang then m0.ang else (if v3Any m1.ang then oa1.2 else oa2.1)
    let r2 := if v3Any m1.ang then m1.ang else (if v3Any m0.ang then oa0.1 else oa2.2)
    let r3 := V3.cross r1 r2
    let p1 := if v3Any m0.vel then m0.vel else ov1.2
    let p2 := if v3Any m1.vel then m1.vel else ov0.1
    let p3 := V3.cross p1 p2
    let isBoth : Bool := (v3Any m0.ang || v3Any m1.ang || v3Any m2.ang)
      && (v3Any m0.vel || v3Any m1.vel || v3Any m2.vel)
    some (if isBoth then ⟨r1, r2, r3⟩ else ang, if isBoth then ⟨p1, p2, p3⟩ else vel,
          if isBoth then 1 else parity)
  | _ => none

/-- the three Euler angles of `axis_angle_ang` -/
structure Angles (α : Type) where
  psi : α
  theta : α
  phi : α

/-- `axis_angle_ang(j, joint_motion, parity)`: `(axis, angle)`; `frame` = `joint_motion.ang` by rows -/
def axisAngleAng (j : Tf α) (frame : M3 α) (parity : α) : M3 α × Angles α :=
  let c0 := rotate frame.r0 j.rot
  let c1 := rotate frame.r1 j.rot
  let c2 := rotate frame.r2 j.rot
  let lon := normalize3 (V3.cross c2 frame.r0)
  let psi := signedAngle frame.r0 frame.r1 lon
  let d0 := V3.dot frame.r0 c0
  let d1 := V3.dot frame.r0 c1
  let a1 : V3 α := normalize3 ⟨d0 * c0.x + d1 * c1.x, d0 * c0.y + d1 * c1.y, d0 * c0.z + d1 * c1.z⟩
  let ab := V3.dot a1 frame.r0
  let theta := HasTrig.acos (clip ab (-1) 1) * signv (V3.dot frame.r0 c2)
  let ycn : V3 α := ⟨-c2.x * parity, -c2.y * parity, -c2.z * parity⟩
  let phi := signedAngle ycn c1 lon
  (⟨c0, c1, ⟨c2.x * parity, c2.y * parity, c2.z * parity⟩⟩, ⟨psi, theta, phi⟩)

/-- `free(x, xd)` of `kinematics.inverse` -/
def free (x : Tf α) (xd : Motion α) : List α × List α :=
  let ang := invRotate xd.ang x.rot
  ([x.pos.x, x.pos.y, x.pos.z, x.rot.w, x.rot.x, x.rot.y, x.rot.z],
   [xd.vel.x, xd.vel.y, xd.vel.z, ang.x, ang.y, ang.z])

/-- `x_dof(j, jd, parent_idx, motion, x)` of `kinematics.inverse` (`x` = number of dofs of the link) -/
def xDof (j : Tf α) (jd : Motion α) (parent : Int) (ms : List (Motion α)) : Option (List α × List α) :=
  match linkToJointFrame ms with
  | none => none
  | some (angF, _, parity) =>
    let jRot : Q4 α := if parent == -1 then j.rot else ⟨1, 0, 0, 0⟩
    let jdAng := invRotate jd.ang jRot
    let (axis, ang) := axisAngleAng j angF parity
    let angles := [ang.psi, ang.theta, ang.phi]
    let angleVels := [V3.dot axis.r0 jdAng, V3.dot axis.r1 jdAng, V3.dot axis.r2 jdAng]
    -- `axis_slide_vel`
    let slides := ms.map fun m => V3.dot m.vel j.pos
    let slideVels := ms.map fun m => V3.dot m.vel jd.vel
    -- `jp.where(motion.ang.any(axis=1), angles[:x], slides[:x])`
    let pick := fun (m : Motion α) (as : α × α) => if v3Any m.ang then as.1 else as.2
    some (List.zipWith pick ms (angles.zip slides), List.zipWith pick ms (angleVels.zip slideVels))

/-- `q_fn` for one link -/
def inverseLink (typ : LinkType) (j : Tf α) (jd : Motion α) (parent : Int) (ms : List (Motion α)) :
    Option (List α × List α) :=
  match typ with
  | .free => some (free j jd)
  | t => if ms.length = t.qdWidth then xDof j jd parent ms else none

/-- `kinematics.inverse(sys, j, jd)`: `(q, qd)` -/
def inverse (s : Sys α) (j : List (Tf α)) (jd : List (Motion α)) : Option (List α × List α) :=
  if j.length ≠ s.types.length ∨ jd.length ≠ s.types.length ∨ s.parents.length ≠ s.types.length
  then none else
  let ins := Kin.linkSlices s.types ([] : List α) [] s.dofs
  let per := (ins.zip (s.parents.zip (j.zip jd))).mapM fun a =>
    inverseLink a.1.typ a.2.2.1 a.2.2.2 a.2.1 (a.1.dofs.map (·.motion))
  per.map fun l => (l.flatMap (·.1), l.flatMap (·.2))

/-- what `Kin.forward` returns at one link, given the scanned value of its parent (`none` for a
root): `jcalc`, anchor offset, link transform, `world`, final quaternion normalisation -/
def fwdLink (parent : Option (Tf α × Motion α)) (lk : LinkP α) (l : Kin.LinkIn α) : Tf α × Motion α :=
  let jjd := Kin.jcalc l
  let r := Kin.world parent (Kin.placeJoint lk jjd.1, (⟨jjd.2.ang, rotate jjd.2.vel lk.tf.rot⟩ : Motion α))
  (⟨r.1.pos, normalize4 r.1.rot⟩, r.2)

end real

section w2j
variable {α : Type} [Zero α] [One α] [Add α] [Sub α] [Mul α] [Neg α]

/-- the per-link body of `Kin.worldToJoint` (`kinematics.world_to_joint`): `(j, jd, a_p, a_c)` from
the parent's world transform/motion (`Tf.id`, `Motion.zero` for a root) and the link's own -/
def w2jLink (lk : LinkP α) (xp : Tf α) (xdp : Motion α) (xi : Tf α) (xdi : Motion α) :
    Tf α × Motion α × Tf α × Tf α :=
  let a_p := Tf.doTf (Tf.doTf xp lk.tf) lk.joint
  let a_c := Tf.doTf xi lk.joint
  let j := Tf.toLocal a_c a_p
  let xd_wj := Tf.doMotion ⟨xp.pos - a_p.pos, Q4.one⟩ xdp
  let xdj : Motion α := ⟨xdi.ang - xd_wj.ang, xdi.vel - xd_wj.vel⟩
  let jd : Motion α := ⟨invRotate xdj.ang a_p.rot, invRotate xdj.vel a_p.rot⟩
  (j, jd, a_p, a_c)

end w2j

section step
variable {α : Type} [Zero α] [One α] [Add α] [Sub α] [Mul α] [Neg α] [Div α]
  [LT α] [DecidableLT α] [LE α] [DecidableLE α] [OfScientific α] [HasSqrt α] [HasTrig α]

/-- what `spring.pipeline.step` and `positional.pipeline.step` report besides `x, xd` -/
structure Reported (α : Type) where
  q : List α
  qd : List α
  j : List (Tf α)
  jd : List (Motion α)
  a_p : List (Tf α)
  a_c : List (Tf α)

/-- the last lines of both maximal-coordinate `step` functions:
`j, jd, a_p, a_c = kinematics.world_to_joint(sys, x, xd); q, qd = kinematics.inverse(sys, j, jd)` -/
def stepTail (s : Sys α) (x : List (Tf α)) (xd : List (Motion α)) : Option (Reported α) :=
  let w := Kin.worldToJoint s x xd
  let j := w.map (·.1)
  let jd := w.map (·.2.1)
  (inverse s j jd).map fun qq => ⟨qq.1, qq.2, j, jd, w.map (·.2.2.1), w.map (·.2.2.2)⟩

end step

end Inv
end Brax
