/-!
# Scalar classes for the executable models

Models are written over raw operator classes (`Add`, `Mul`, …) so that the very same
definition runs at `Rat` (exact), `Float` (IEEE double) and `Int`, and can be instantiated
with any `CommRing`/`Field`/`ℝ` in proof files (where `ring`, `field_simp` … see the
field's own operators).  Opaque real functions come in through the tiny classes below.
This file imports nothing.
-/
namespace Brax

class HasSqrt (α : Type) where
  sqrt : α → α

class HasTrig (α : Type) where
  sin : α → α
  cos : α → α
  atan2 : α → α → α
  asin : α → α
  acos : α → α

class HasExp (α : Type) where
  exp : α → α
  log : α → α
  tanh : α → α

instance : HasSqrt Float := ⟨Float.sqrt⟩
instance : HasTrig Float := ⟨Float.sin, Float.cos, Float.atan2, Float.asin, Float.acos⟩
instance : HasExp Float := ⟨Float.exp, Float.log, Float.tanh⟩

/-- absolute value from order and negation (as `jp.abs`) -/
def absv {α : Type} [Zero α] [Neg α] [LT α] [DecidableLT α] (x : α) : α :=
  if x < 0 then -x else x

/-- `jp.clip(x, lo, hi) = minimum(maximum(x, lo), hi)` -/
def clip {α : Type} [LT α] [DecidableLT α] (x lo hi : α) : α :=
  let y := if x < lo then lo else x
  if hi < y then hi else y

def maxv {α : Type} [LT α] [DecidableLT α] (x y : α) : α := if x < y then y else x
def minv {α : Type} [LT α] [DecidableLT α] (x y : α) : α := if y < x then y else x

/-- `x == 0.0` expressed with the order only (so that it runs at `Float`, which has no
`DecidableEq`, and means `x = 0` in any linear order) -/
def eqZero {α : Type} [Zero α] [LT α] [DecidableLT α] (x : α) : Bool :=
  !(decide (x < 0)) && !(decide (0 < x))

/-- `a == b` on reals expressed with the order only -/
def eqR {α : Type} [LT α] [DecidableLT α] (a b : α) : Bool :=
  !(decide (a < b)) && !(decide (b < a))

end Brax
