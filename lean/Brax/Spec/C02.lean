import Brax.Spec.MjKinematics
import Brax.Model.C02
/-!
# Spec for C02: MuJoCo's smooth dynamics, stated sequentially per body / joint / dof

Written from the reference engine's documented algorithms (`engine_core_smooth.c`,
`engine_passive.c`, `engine_forward.c`), independently of brax's code.  Only Layer-B helpers are
shared with the model (`Kin.scanFwd`, `Kin.linkSlices`, `Gd.revAcc` = the literal backward loop
`for i = nbody-1 … 1: x[parent i] += x[i]`).  Every stage is validated against the real `MjData`
fields by the second correspondence leg (`harness/corr_C02.py`, op `mjdyn`).

```
mj_kinematics   xpos/xquat per body; per joint (before it is applied): xanchor, xaxis;
                xipos = xpos + R(xquat) ipos,  ximat = R(xquat · iquat)
mj_comPos       subtree_com (backward accumulation of mass·xipos, divided by the subtree mass);
                everything below is expressed about  c = subtree_com[root body]:
                cinert = R I Rᵀ + m(|o|² 1 − o oᵀ),  m·o,  m       with o = xipos − c
                cdof   hinge [axis ; axis × (c − anchor)],  slide [0 ; axis],
                       free  [0 ; e_k] (k<3),  [R e_k ; R e_k × (c − xpos)]
mj_crb          crb = cinert; backward accumulation;  M[i,j] = cdof_j · (crb[body i] cdof_i)
                for j in the dof-parent chain of i, mirrored; + armature on the diagonal
mj_comVel       cvel = cvel[parent]; per dof in order: cdof_dot = cvel × cdof; cvel += cdof·qvel
                (free joint: the three translational cdof_dot are 0 and are added first)
mj_rne          cacc[world] = −gravity; cacc = cacc[parent] + Σ cdof_dot·qvel;
                cfrc = cinert·cacc + cvel ×* (cinert·cvel); backward accumulation;
                qfrc_bias[i] = cdof_i · cfrc[body i]
mj_passive      −stiffness·q (hinge/slide; `<freejoint/>` has no spring) − damping·qvel
actuation       force = clip(gain·clip(ctrl) + biasprm1·(gear·q) + biasprm2·(gear·qvel)); qfrc += gear·force
mj_Euler        (M + h·diag(damping)) qacc = qfrc_smooth (+ constraint);  qvel += h·qacc;
                hinge/slide q += h·qvel;  free: pos += h·v, quat ← normalize(quat · rot(ω/|ω|, h|ω|))
```
Motions are `[ang ; lin]` (MuJoCo's order), forces likewise.
-/
set_option linter.unusedSectionVars false
namespace Brax.MjD
open Brax Kin

/-- composite/com-frame inertia, MuJoCo's 10 numbers: inertia about the com-frame origin,
`h = m·offset`, mass -/
structure CInert (α : Type) where
  i : M3 α
  h : V3 α
  mass : α

/-- a joint as `mj_kinematics` leaves it: kind, `xanchor`, `xaxis` -/
structure JointW (α : Type) where
  hinge : Bool
  anchor : V3 α
  axis : V3 α

section ring
variable {α : Type} [Zero α] [One α] [Add α] [Sub α] [Mul α] [Neg α]

def CInert.add (a b : CInert α) : CInert α := ⟨M3.add a.i b.i, a.h + b.h, a.mass + b.mass⟩

/-- `mju_mulInertVec` -/
def CInert.mul (c : CInert α) (v : Motion α) : Force α :=
  ⟨M3.mulVec c.i v.ang + V3.cross c.h v.vel, V3.smul c.mass v.vel - V3.cross c.h v.ang⟩

def scaleM (m : Motion α) (c : α) : Motion α := ⟨V3.smul c m.ang, V3.smul c m.vel⟩

/-- `mju_dofCom` with an offset (hinge, rotational free dofs) -/
def dofComRot (axis offset : V3 α) : Motion α := ⟨axis, V3.cross axis offset⟩
/-- `mju_dofCom` without offset (slide, translational free dofs) -/
def dofComLin (axis : V3 α) : Motion α := ⟨V3.zero, axis⟩

/-- `mj_comVel` for the dofs of one body: returns the `cdof_dot` rows and the body's `cvel` -/
def comVelBody (typ : LinkType) (cvelP : Motion α) (cdof : List (Motion α)) (qd : List α) :
    List (Motion α) × Motion α :=
  match typ with
  | .free =>
    match cdof, qd with
    | [c0, c1, c2, c3, c4, c5], [v0, v1, v2, v3, v4, v5] =>
      let cvel1 := cvelP + scaleM c0 v0 + scaleM c1 v1 + scaleM c2 v2
      ([Motion.zero, Motion.zero, Motion.zero,
        Motion.crossM cvel1 c3, Motion.crossM cvel1 c4, Motion.crossM cvel1 c5],
       cvel1 + scaleM c3 v3 + scaleM c4 v4 + scaleM c5 v5)
    | _, _ => ([], cvelP)
  | _ =>
    (cdof.zip qd).foldl (fun (st : List (Motion α) × Motion α) cq =>
      (st.1 ++ [Motion.crossM st.2 cq.1], st.2 + scaleM cq.1 cq.2)) ([], cvelP)

/-- body index of every dof (`dof_bodyid`, bodies numbered like the links) -/
def dofBody (types : List LinkType) : List Nat :=
  (types.zip (List.range types.length)).flatMap fun ti => List.replicate ti.1.qdWidth ti.2

/-- address of the first dof of every body (`body_dofadr`) -/
def dofAdr (types : List LinkType) : List Nat := Sys.qdStarts types

/-- `dof_parentid`: the previous dof of the same body, else the last dof of the parent body,
else −1 -/
def dofParent (types : List LinkType) (parents : List Int) : List Int :=
  let adr := dofAdr types
  (types.zip (parents.zip (List.range types.length))).flatMap fun tpi =>
    let start := adr.getD tpi.2.2 0
    (List.range tpi.1.qdWidth).map fun k =>
      if k = 0 then
        (if tpi.2.1 < 0 then (-1 : Int)
         else ((adr.getD tpi.2.1.toNat 0 + (types.getD tpi.2.1.toNat .one).qdWidth : Nat) : Int) - 1)
      else ((start + k : Nat) : Int) - 1

/-- the dofs visited by `j = i; while j ≥ 0: …; j = dof_parentid[j]` -/
def dofChain (dp : List Int) : Nat → Nat → List Nat
  | 0, _ => []
  | f + 1, i => i :: (let p := dp.getD i (-1); if p < 0 then [] else dofChain dp f p.toNat)

/-- `mj_crb` + armature, dense: `M[i,j] = cdof_j · (crb[body i] · cdof_i)` for `j` in the chain
of `i`, symmetric -/
def fullM (types : List LinkType) (parents : List Int) (crb : List (CInert α)) (cdof : List (Motion α))
    (arm : List α) : List (List α) :=
  let nv := cdof.length
  let db := dofBody types
  let dp := dofParent types parents
  let lower := fun (i j : Nat) =>
    if (dofChain dp (i + 1) i).contains j then
      Motion.dotF (cdof.getD j Motion.zero)
        (CInert.mul (crb.getD (db.getD i 0) ⟨M3.zero, V3.zero, 0⟩) (cdof.getD i Motion.zero))
    else 0
  Gd.tab nv fun i => Gd.tab nv fun j =>
    let v := if j ≤ i then lower i j else lower j i
    if i = j then v + arm.getD i 0 else v

/-- `mj_rne` with `flg_acc = 0` -/
def rne (parents : List Int) (gravity : V3 α) (cinert : List (CInert α))
    (cvel : List (Motion α)) (cdof cdofDot : List (List (Motion α))) (qd : List (List α)) : List α :=
  let cacc := scanFwd (fun (par : Option (Motion α)) (u : List (Motion α × α)) =>
      u.foldl (fun acc cq => acc + scaleM cq.1 cq.2) (par.getD ⟨V3.zero, -gravity⟩))
    parents (List.zipWith List.zip cdofDot qd)
  let cfrcBody := List.zipWith (fun (ia : CInert α × Motion α) (v : Motion α) =>
      CInert.mul ia.1 ia.2 + Motion.crossF v (CInert.mul ia.1 v)) (cinert.zip cacc) cvel
  let cfrc := Gd.revAcc Force.add parents cfrcBody
  (List.zipWith (fun (cs : List (Motion α)) (f : Force α) => cs.map fun c => Motion.dotF c f) cdof cfrc).flatten

/-- `mj_passive`: springs (hinge/slide) and dampers -/
def passive (l : LinkIn α) : List α :=
  match l.typ with
  | .free => (l.dofs.zip l.qd).map fun dv => -(dv.1.damping * dv.2)
  | _ => (l.dofs.zip (l.q.zip l.qd)).map fun dqq =>
      -(dqq.1.stiffness * dqq.2.1) + -(dqq.1.damping * dqq.2.2)

end ring

section act
variable {α : Type} [Zero α] [Add α] [Mul α] [LT α] [DecidableLT α]

def clampO (x : α) (lo hi : Option α) : α :=
  let y := match lo with | none => x | some l => if x < l then l else x
  match hi with | none => y | some h => if h < y then h else y

/-- `qfrc_actuator`: joint transmission, `moment = gear` -/
def actuation (nv : Nat) (acts : List (ActP α)) (ctrl q qd : List α) : List α :=
  Gd.tab nv fun d =>
    ((acts.zip ctrl).filter fun au => au.1.qdId == d).foldl (fun acc au =>
      let a := au.1
      let u := clampO au.2 a.ctrlLo a.ctrlHi
      let length := a.gear * q.getD a.qId 0
      let velocity := a.gear * qd.getD a.qdId 0
      let force := clampO (a.gain * u + (a.biasQ * length + a.biasQd * velocity)) a.forceLo a.forceHi
      acc + a.gear * force) 0
end act

section real
variable {α : Type} [Zero α] [One α] [Add α] [Sub α] [Mul α] [Neg α] [Div α]
  [LT α] [DecidableLT α] [LE α] [DecidableLE α] [OfScientific α] [HasSqrt α] [HasTrig α]

/-- one joint of the loop of `mj_kinematics`: record `xanchor`/`xaxis` in the running frame,
then apply the joint -/
def jointStep (anchor : V3 α) (st : Tf α × List (JointW α)) (dq : DofP α × α) : Tf α × List (JointW α) :=
  let isH := Mj.v3IsZero dq.1.motion.vel
  let axisL := if isH then dq.1.motion.ang else dq.1.motion.vel
  (Mj.applyJoint anchor st.1 dq,
   st.2 ++ [⟨isH, st.1.pos + rotate anchor st.1.rot, rotate axisL st.1.rot⟩])

/-- pose of one body and its joints' world anchors/axes -/
def bodyKin (parent : Option (Tf α)) (lk : LinkP α) (l : LinkIn α) : Tf α × List (JointW α) :=
  let start : Tf α := match parent with
    | none => lk.tf
    | some p => ⟨p.pos + rotate lk.tf.pos p.rot, quatMul p.rot lk.tf.rot⟩
  match l.typ with
  | .free =>
    let pq : Tf α := match l.q with
      | [p0, p1, p2, r0, r1, r2, r3] => ⟨⟨p0, p1, p2⟩, normalize4 ⟨r0, r1, r2, r3⟩⟩
      | _ => start
    (⟨pq.pos, normalize4 pq.rot⟩, [])
  | _ =>
    let r := (l.dofs.zip l.q).foldl (jointStep lk.joint.pos) (start, [])
    (⟨r.1.pos, normalize4 r.1.rot⟩, r.2)

/-- `mju_inertCom`: inertia `it.i` given in the frame `quat`, moved to the point at `−o` -/
def inertCom (quat : Q4 α) (it : M3 α) (mass : α) (o : V3 α) : CInert α :=
  let r := quatTo3x3 quat
  let rot := M3.mul (M3.mul r it) r.transpose
  let d := V3.dot o o
  let par : M3 α := ⟨⟨mass * (d - o.x * o.x), mass * (-(o.x * o.y)), mass * (-(o.x * o.z))⟩,
                     ⟨mass * (-(o.y * o.x)), mass * (d - o.y * o.y), mass * (-(o.y * o.z))⟩,
                     ⟨mass * (-(o.z * o.x)), mass * (-(o.z * o.y)), mass * (d - o.z * o.z)⟩⟩
  ⟨M3.add rot par, V3.smul mass o, mass⟩

/-- everything `mj_fwdPosition` / `mj_fwdVelocity` leave in `MjData` that C02 observes -/
structure Data (α : Type) where
  xpose : List (Tf α)
  rootCom : List (V3 α)
  cinert : List (CInert α)
  crb : List (CInert α)
  cdof : List (List (Motion α))
  cvel : List (Motion α)
  cdofDot : List (List (Motion α))
  fullM : List (List α)
  qfrcBias : List α
  qfrcPassive : List α
  qfrcActuator : List α
  qfrcSmooth : List α

/-- cdof of a hinge/slide joint about the point `c` -/
def jointCdof (c : V3 α) (j : JointW α) : Motion α :=
  if j.hinge then dofComRot j.axis (c - j.anchor) else dofComLin j.axis

/-- cdof rows of one body -/
def cdofBody (l : LinkIn α) (pose : Tf α) (joints : List (JointW α)) (c : V3 α) : List (Motion α) :=
  match l.typ with
  | .free =>
    let e : List (V3 α) := [⟨1, 0, 0⟩, ⟨0, 1, 0⟩, ⟨0, 0, 1⟩]
    e.map dofComLin ++ e.map fun ek => dofComRot (rotate ek pose.rot) (c - pose.pos)
  | _ => joints.map (jointCdof c)

def forwardData (s : Sys α) (q qd ctrl : List α) : Data α :=
  let ins := linkSlices s.types q qd s.dofs
  -- mj_kinematics
  let kin := scanFwd (fun (par : Option (Tf α × List (JointW α))) (a : LinkP α × LinkIn α) =>
      bodyKin (par.map Prod.fst) a.1 a.2) s.parents (s.links.zip ins)
  let xpose := kin.map Prod.fst
  let xipos := List.zipWith (fun (x : Tf α) (lk : LinkP α) => x.pos + rotate lk.inertia.tf.pos x.rot) xpose s.links
  let xiquat := List.zipWith (fun (x : Tf α) (lk : LinkP α) => quatMul x.rot lk.inertia.tf.rot) xpose s.links
  -- mj_comPos
  let mass := s.links.map (·.inertia.mass)
  let sub := Gd.revAcc V3.add s.parents (List.zipWith V3.smul mass xipos)
  let subMass := Gd.revAcc (· + ·) s.parents mass
  let subCom := List.zipWith (fun (v : V3 α) m => (⟨v.x / m, v.y / m, v.z / m⟩ : V3 α)) sub subMass
  let rootCom := scanFwd (fun (par : Option (V3 α)) (c : V3 α) => par.getD c) s.parents subCom
  let cinert := List.zipWith (fun (pq : V3 α × Q4 α) (lc : LinkP α × V3 α) =>
      inertCom pq.2 lc.1.inertia.i lc.1.inertia.mass (pq.1 - lc.2)) (xipos.zip xiquat) (s.links.zip rootCom)
  let cdof := List.zipWith (fun (lk : LinkIn α × (Tf α × List (JointW α))) (c : V3 α) =>
      cdofBody lk.1 lk.2.1 lk.2.2 c) (ins.zip kin) rootCom
  -- mj_crb
  let crb := Gd.revAcc CInert.add s.parents cinert
  let fm := fullM s.types s.parents crb cdof.flatten (s.dofs.map (·.armature))
  -- mj_comVel
  let cv := scanFwd (fun (par : Option (List (Motion α) × Motion α)) (a : LinkIn α × List (Motion α)) =>
      comVelBody a.1.typ ((par.map Prod.snd).getD Motion.zero) a.2 a.1.qd) s.parents (ins.zip cdof)
  let cvel := cv.map Prod.snd
  let cdofDot := cv.map Prod.fst
  -- mj_rne, mj_passive, actuation
  let bias := rne s.parents s.gravity cinert cvel cdof cdofDot (ins.map (·.qd))
  let pas := (ins.map passive).flatten
  let act := actuation s.nv s.acts ctrl q qd
  let smooth := List.zipWith (· + ·) (List.zipWith (· - ·) pas bias) act
  ⟨xpose, rootCom, cinert, crb, cdof, cvel, cdofDot, fm, bias, pas, act, smooth⟩

/-- `mj_integratePos` for a free joint: `pos += h·v`; `quat ← normalize(quat · rot(ω/|ω|, h|ω|))`
(no rotation when `ω = 0`) -/
def integrateFree (h : α) (q qd : List α) : List α :=
  match q, qd with
  | [p0, p1, p2, r0, r1, r2, r3], [v0, v1, v2, w0, w1, w2] =>
    let n := HasSqrt.sqrt (w0 * w0 + w1 * w1 + w2 * w2)
    let rot : Q4 α := if eqZero n then ⟨r0, r1, r2, r3⟩
      else quatMul ⟨r0, r1, r2, r3⟩ (quatRotAxis ⟨w0 / n, w1 / n, w2 / n⟩ (h * n))
    let rn := normalize4 rot
    [p0 + h * v0, p1 + h * v1, p2 + h * v2, rn.w, rn.x, rn.y, rn.z]
  | _, _ => q

/-- `mj_Euler` with implicit joint damping and no active constraint:
`(M + h·diag(damping)) qacc = qfrc_smooth + qfrc_constraint` -/
def eulerStep (solve : List (List α) → List α → List α) (s : Sys α) (d : Data α)
    (q qd qfc : List α) : List α × List α :=
  let damp := s.dofs.map (·.damping)
  let mhb := Gd.tab d.fullM.length fun i => Gd.tab d.fullM.length fun j =>
    let m := (d.fullM.getD i []).getD j 0
    if i = j then m + s.dt * damp.getD i 0 else m
  let qacc := solve mhb (List.zipWith (· + ·) d.qfrcSmooth qfc)
  let qd' := List.zipWith (fun v a => v + s.dt * a) qd qacc
  let q' := ((linkSlices s.types q qd' s.dofs).map fun l =>
    match l.typ with
    | .free => integrateFree s.dt l.q l.qd
    | _ => List.zipWith (fun x v => x + s.dt * v) l.q l.qd).flatten
  (q', qd')

end real
end Brax.MjD
