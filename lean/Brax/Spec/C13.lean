import Brax.Model.C13
/-!
# C13 — Spec: pose of every named element relative to its nearest jointed ancestor

This is what the property observes, independent of `_fuse_bodies`: MuJoCo places a body /
geom / site / camera by composing the static frames of its ancestors.  Between an element and
its nearest *jointed* ancestor body (or the world) these frames do not depend on the joint
coordinates, so the pose of the element relative to that ancestor — together with the
ancestor it hangs on — determines its world pose for **every** `q`, and the composite mass,
centre of mass and inertia of each moving body.

MuJoCo **normalises** every `quat` attribute when it compiles the model.  A frame `(p, q)`
therefore acts on a point by `p + R(q/|q|) v = p + rotate v q / |q|²` (`rotN`; no square root
needed), and its orientation is the ray of `q`.  Orientations are kept as the raw product of
quaternions: equal raw products give equal normalised orientations.

No Mathlib.  Needs `Div` (the model of the code does not).
-/
set_option linter.unusedSectionVars false
namespace Brax.C13
open Brax

/-- what is observed of an element: a frame (`pos`, orientation quaternion up to positive
scale), or — for `fromto` elements — the two end points -/
inductive Pose (α : Type) where
  | frame (t : Tf α)
  | segment (a b : V3 α)
deriving Repr, DecidableEq

/-- body (jointed), geom, site or camera -/
inductive EKind where
  | body | geom | site | camera
deriving Repr, DecidableEq

def Kind.toE : Kind → EKind
  | .geom => .geom
  | .site => .site
  | .camera => .camera

/-- one observed element: the jointed body it is rigidly attached to (`""` = world), its kind
and name, and its pose relative to that body's frame -/
structure Entry (α : Type) where
  anchor : String
  kind : EKind
  name : String
  pose : Pose α
deriving Repr, DecidableEq

section spec
variable {α : Type} [Zero α] [One α] [Add α] [Sub α] [Mul α] [Neg α] [Div α]

/-- rotation by the *normalised* quaternion: `rotate v q / |q|²` -/
def rotN (v : V3 α) (q : Q4 α) : V3 α := V3.smul (1 / Q4.normSq q) (rotate v q)

/-- a frame acting on a point (MuJoCo semantics: normalised quaternion) -/
def Tf.act (f : Tf α) (v : V3 α) : V3 α := f.pos + rotN v f.rot

/-- composition of frames (MuJoCo semantics) -/
def Tf.comp (f l : Tf α) : Tf α := ⟨Tf.act f l.pos, quatMul f.rot l.rot⟩

/-- the frame written on an element (`pos`, `quat` attributes with MJCF defaults) -/
def localTf (p : Option (V3 α)) (q : Option (Q4 α)) : Tf α := ⟨posD p, quatD q⟩

/-- pose of a `geom`/`site`/`camera` inside the frame `f` -/
def placePose (f : Tf α) : Place α → Pose α
  | .pq p q => .frame (Tf.comp f (localTf p q))
  | .fromto a b _ => .segment (Tf.act f a) (Tf.act f b)

mutual
/-- observed elements of the subtree `e`, which sits in the frame `f` relative to the jointed
body `anchor` -/
def entries (anchor : String) (f : Tf α) : Elem α → List (Entry α)
  | .body n p q cs =>
      if hasJoint cs then
        -- a jointed body: observed itself; its contents hang on *it*, in its own frame
        ⟨anchor, .body, n, .frame (Tf.comp f (localTf p q))⟩ :: entriesL n Tf.id cs
      else
        -- a jointless body: welded to `anchor`; only moves the frame
        entriesL anchor (Tf.comp f (localTf p q)) cs
  | .leaf k n pl => [⟨anchor, k.toE, n, placePose f pl⟩]
  | .joint _ _ => []
  | .other _ cs => entriesL anchor f cs
def entriesL (anchor : String) (f : Tf α) : List (Elem α) → List (Entry α)
  | [] => []
  | c :: cs => entries anchor f c ++ entriesL anchor f cs
end

/-- all observed elements of a document (root in the world frame) -/
def docEntries (d : Elem α) : List (Entry α) := entries "" Tf.id d

end spec

section lookup
variable {α : Type}

/-- all poses recorded for the element `kind`/`name` (a singleton when names are unique) -/
def relPoses (es : List (Entry α)) (kind : EKind) (name : String) : List (String × Pose α) :=
  (es.filter fun en => en.kind = kind ∧ en.name = name).map fun en => (en.anchor, en.pose)

end lookup

section rel
variable {α : Type} [Zero α] [One α] [Add α] [Sub α] [Mul α] [Neg α] [Div α]

/-- `relPose d kind name`: the jointed body the element hangs on and its pose relative to it -/
def relPose (d : Elem α) (kind : EKind) (name : String) : Option (String × Pose α) :=
  (relPoses (docEntries d) kind name).head?

end rel

/-! ## names (no arithmetic) -/

mutual
/-- kind and name of every geom, site, camera and jointed body of the subtree -/
def names {α : Type} : Elem α → List (EKind × String)
  | .body n _ _ cs => if hasJoint cs then (.body, n) :: namesL cs else namesL cs
  | .leaf k n _ => [(k.toE, n)]
  | .joint _ _ => []
  | .other _ cs => namesL cs
def namesL {α : Type} : List (Elem α) → List (EKind × String)
  | [] => []
  | c :: cs => names c ++ namesL cs
end

mutual
/-- no jointless body anywhere below the root -/
def jointlessFree {α : Type} : Elem α → Bool
  | .body _ _ _ cs => jointlessFreeL cs
  | .other _ cs => jointlessFreeL cs
  | _ => true
def jointlessFreeL {α : Type} : List (Elem α) → Bool
  | [] => true
  | c :: cs => !isJointlessBody c && jointlessFree c && jointlessFreeL cs
end

/-! ## hypotheses of the preservation theorem (the documents it quantifies over) -/

def isOther {α : Type} : Elem α → Bool
  | .other _ _ => true
  | _ => false

section good
variable {α : Type} [Zero α] [One α] [Add α] [Mul α]

/-- what the guard must guarantee when it is *false* (no offset applied): the removed body's
frame is the identity.  For `guardFixed` this always holds; for `guardPinned` it says
"`pos` zero ⇒ `quat` is the identity" — the case it excludes is defect D5. -/
def GuardOK (g : V3 α → Q4 α → Bool) (cpos : V3 α) (cquat : Q4 α) : Prop :=
  g cpos cquat = false → cpos = V3.zero ∧ cquat = Q4.one

/-- a jointless body that `_fuse_bodies` removes correctly:
* its `quat` is a **unit** quaternion (the code composes with the raw attribute, MuJoCo normalises);
* the guard is sound for it (`GuardOK`);
* it holds only `body`/`geom`/`site`/`camera` (/`joint`) elements — the code offsets no other tag. -/
def Fusable (g : V3 α → Q4 α → Bool) : Elem α → Prop
  | .body _ p q cs =>
      Q4.normSq (quatD q) = 1 ∧ GuardOK g (posD p) (quatD q) ∧ ∀ c ∈ cs, isOther c = false
  | _ => True

mutual
/-- every jointless body below the root is `Fusable` -/
def Good (g : V3 α → Q4 α → Bool) : Elem α → Prop
  | .body _ _ _ cs => GoodL g cs
  | .other _ cs => GoodL g cs
  | _ => True
def GoodL (g : V3 α → Q4 α → Bool) : List (Elem α) → Prop
  | [] => True
  | c :: cs => (isJointlessBody c = true → Fusable g c) ∧ Good g c ∧ GoodL g cs
end

end good

end Brax.C13
