import Brax.Model.C14
/-!
# C14 — "none of the unsupported features", as an explicit decidable predicate

`Clean m` is the property's notion of a supported model, stated feature by feature on the
`MjModel` data (not in terms of the checks of `validate_model`).  `Props/C14.lean` proves
`validate m = .ok () ↔ Clean m`.
-/
namespace Brax.C14

/-- no ellipsoid-fluid coefficient on any geom -/
def FluidClean (m : MjFeatures) : Prop := ∀ row ∈ m.geomFluid, ∀ x ∈ row, x = 0
/-- no wind -/
def WindClean (m : MjFeatures) : Prop := ∀ x ∈ m.wind, x = 0
/-- actuators: bias none/affine, fixed gain, joint transmission -/
def ActClean (m : MjFeatures) : Prop :=
  (∀ b ∈ m.actBiastype, b = 0 ∨ b = 1) ∧ (∀ g ∈ m.actGaintype, g = 0) ∧ (∀ t ∈ m.actTrntype, t = 0)
/-- at least one geom (the code indexes element 0) and one common solmix / priority -/
def SolverClean (m : MjFeatures) : Prop :=
  (m.geomSolmix ≠ [] ∧ ∀ s ∈ m.geomSolmix, some s = m.geomSolmix.head?) ∧
  (m.geomPriority ≠ [] ∧ ∀ p ∈ m.geomPriority, some p = m.geomPriority.head?)
/-- at least one joint, known joint types, `qpos0` fits, and no reference offset on a non-free
coordinate -/
def RefClean (m : MjFeatures) : Prop :=
  m.jntType ≠ [] ∧ (∀ j ∈ m.jntType, validJntType j = true) ∧
  (nonFreeMask m.jntType).length = m.qpos0.length ∧
  ∀ bx ∈ (nonFreeMask m.jntType).zip m.qpos0, bx.1 = true → bx.2 = 0
/-- all joints of one body share one anchor -/
def AnchorsClean (m : MjFeatures) : Prop :=
  ∀ g ∈ groupRuns (m.jntBodyid.zip m.jntPos), ∀ p ∈ g.2, some p = g.2.head?
/-- free joints without stiffness, ball joints without range, known joint types -/
def DofsClean (m : MjFeatures) : Prop :=
  ∀ r ∈ dofRows m, (r.1 = 0 → ¬ r.2.2 > 0) ∧ (r.1 = 1 → r.2.1.1 = none ∧ r.2.1.2 = none) ∧
    (r.1 = 0 ∨ r.1 = 1 ∨ r.1 = 2 ∨ r.1 = 3)
/-- a body carries one free joint or only hinge/slide joints (no stacked free joint, no ball) -/
def StacksClean (m : MjFeatures) : Prop :=
  ∀ g ∈ groupRuns (m.jntBodyid.zip m.jntType), g.2 = [0] ∨ (0 ∉ g.2 ∧ 1 ∉ g.2)
/-- no cylinder that is long and has a positive collision mask (`contype | conaffinity << 32`) -/
def CylindersClean (m : MjFeatures) : Prop :=
  ∀ r ∈ geomRows m, ¬ (r.1 = 5 ∧ r.2.1.2.1 > cylThreshold ∧ collisionMask r.2.2.1 r.2.2.2 > 0)

/-- none of the unsupported features -/
def Clean (m : MjFeatures) : Prop :=
  m.integrator = 0 ∧ m.cone = 0 ∧ FluidClean m ∧ WindClean m ∧ m.impratio = 1 ∧ ActClean m ∧
  SolverClean m ∧ RefClean m ∧ AnchorsClean m ∧ DofsClean m ∧ StacksClean m ∧ CylindersClean m

instance (m : MjFeatures) : Decidable (FluidClean m) := by unfold FluidClean; infer_instance
instance (m : MjFeatures) : Decidable (WindClean m) := by unfold WindClean; infer_instance
instance (m : MjFeatures) : Decidable (ActClean m) := by unfold ActClean; infer_instance
instance (m : MjFeatures) : Decidable (SolverClean m) := by unfold SolverClean; infer_instance
instance (m : MjFeatures) : Decidable (RefClean m) := by unfold RefClean; infer_instance
instance (m : MjFeatures) : Decidable (AnchorsClean m) := by unfold AnchorsClean; infer_instance
instance (m : MjFeatures) : Decidable (DofsClean m) := by unfold DofsClean; infer_instance
instance (m : MjFeatures) : Decidable (StacksClean m) := by unfold StacksClean; infer_instance
instance (m : MjFeatures) : Decidable (CylindersClean m) := by unfold CylindersClean; infer_instance
instance (m : MjFeatures) : Decidable (Clean m) := by unfold Clean; infer_instance

/-- at most three joints on a body (`Q_WIDTHS` knows '1', '2', '3') -/
def MaxStack3 (m : MjFeatures) : Prop := ∀ g ∈ jointGroups m, g.2.length ≤ 3
instance (m : MjFeatures) : Decidable (MaxStack3 m) := by unfold MaxStack3; infer_instance

/-- the link type the property expects for a body: 'f' for one free joint, otherwise the number
of its (hinge/slide) joints -/
def specLinkType (typs : List Int) : Char :=
  if typs = [0] then 'f' else if typs.length = 1 then '1' else if typs.length = 2 then '2' else '3'

/-- the property's own reading of "colliding long cylinder": either collision bitmask is set -/
def CollidingLongCylinder (m : MjFeatures) : Prop :=
  ∃ r ∈ geomRows m, r.1 = 5 ∧ r.2.1.2.1 > cylThreshold ∧ (r.2.2.1 ≠ 0 ∨ r.2.2.2 ≠ 0)
instance (m : MjFeatures) : Decidable (CollidingLongCylinder m) := by
  unfold CollidingLongCylinder; infer_instance

/-! ## concrete models used as witnesses / non-vacuity examples -/

/-- a clean forest: world; body 1 free; body 2 (child of 1) with two hinges at one anchor; body 3
(world child) with a slide; plane, sphere, capsule and a long but collision-free cylinder; a motor
on joint 1 and a position servo (affine bias) on joint 3 -/
def exClean : MjFeatures where
  integrator := 0
  cone := 0
  wind := [0, 0, 0]
  impratio := 1
  geomFluid := List.replicate 4 (List.replicate 12 0)
  geomSolmix := [1, 1, 1, 1]
  geomPriority := [0, 0, 0, 0]
  geomType := [0, 2, 3, 5]
  geomSize := [(5, 5, 1/10), (1/10, 0, 0), (1/20, 1/5, 0), (1/10, 1/5, 0)]
  geomContype := [1, 1, 1, 0]
  geomConaffinity := [1, 1, 1, 0]
  actBiastype := [0, 1]
  actGaintype := [0, 0]
  actTrntype := [0, 0]
  actTrnid := [1, 3]
  jntType := [0, 3, 3, 2]
  jntBodyid := [1, 2, 2, 3]
  jntPos := [(0, 0, 0), (1/10, 0, 0), (1/10, 0, 0), (0, 0, 0)]
  jntLimited := [false, true, false, false]
  jntRange := [(some 0, some 0), (some (-1), some 1), (some 0, some 0), (some 0, some 0)]
  jntStiffness := [0, 2, 0, 0]
  jntQposadr := [0, 7, 8, 9]
  jntDofadr := [0, 6, 7, 8]
  qpos0 := [0, 0, 0, 1, 0, 0, 0, 0, 0, 0]
  nq := 10
  nv := 9
  bodyParentid := [0, 0, 1, 0]

/-- `exClean` whose long cylinder has `contype = 0, conaffinity = 1`: it collides with every geom
whose contype has bit 0 (the plane, the sphere, the capsule).  Before the fix 132d4d7 the code
accepted it (int32 `conaffinity << 32` was 0); now it is rejected. -/
def exCylinder : MjFeatures := { exClean with geomConaffinity := [1, 1, 1, 1] }

end Brax.C14
