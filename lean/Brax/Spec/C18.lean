import Brax.Model.C18
/-!
# C18 — spec: population statistics of all (weighted) data seen

`d` is the concatenation of every batch presented so far, one `(weight, value)` pair per
sample and feature.  No recursion over batches, no running quantities.
-/
namespace Brax.C18.Spec
open Brax Brax.C18

variable {α : Type} [Zero α] [Add α] [Sub α] [Mul α] [Div α]

/-- total weight `Σ w` -/
def count (d : List (α × α)) : α := sumL (d.map fun p => p.1)
/-- weighted population mean `Σ w x / Σ w` -/
def mean (d : List (α × α)) : α := sumL (d.map fun p => p.1 * p.2) / count d
/-- weighted sum of squared deviations from the population mean `Σ w (x − mean)²` -/
def sv (d : List (α × α)) : α := sumL (d.map fun p => p.1 * ((p.2 - mean d) * (p.2 - mean d)))
/-- population variance `Σ w (x − mean)² / Σ w` -/
def var (d : List (α × α)) : α := sv d / count d

def acc (d : List (α × α)) : Acc α := ⟨count d, mean d, sv d⟩

end Brax.C18.Spec
