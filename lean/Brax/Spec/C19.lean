import Brax.Scalar
/-!
# C19 — executable specification: the defining sum of generalized advantage estimation

For one trajectory `(trunc_t, term_t, r_t, v_t)_{t<T}` with bootstrap value `v_T`:

```
c_j   = γ λ (1 − term_j) (1 − trunc_j)                     accumulation factor across step j
δ_k   = (r_k + γ (1 − term_k) v_{k+1} − v_k) (1 − trunc_k)  TD error (bootstrap suppressed by termination,
                                                            nothing at a truncated step)
vs_t − v_t = Σ_{k=t}^{T−1} (Π_{j=t}^{k−1} c_j) δ_k
adv_t = (r_t + γ (1 − term_t) vs_{t+1} − v_t) (1 − trunc_t)      with vs_T = v_T = bootstrap
```

Written as explicit sums of explicit products (cubic time, no recursion on an accumulator), so
that it shares nothing with the reverse scan of the implementation.  No Mathlib.
-/
namespace Brax.C19.Spec

section
variable {α : Type} [Zero α] [One α] [Add α] [Sub α] [Mul α]

def sumL : List α → α
  | [] => 0
  | x :: xs => x + sumL xs

def prodL : List α → α
  | [] => 1
  | x :: xs => x * prodL xs

/-- `c = γ λ (1 − term) (1 − trunc)` -/
def coef (lam disc tr te : α) : α := disc * lam * (1 - te) * (1 - tr)

def coefs (lam disc : α) (trunc term : List α) : List α := List.zipWith (coef lam disc) trunc term

/-- `δ = (r + γ (1 − term) v' − v) (1 − trunc)` where `v'` is the next value -/
def delta (disc tr te r v vnext : α) : α := (r + disc * (1 - te) * vnext - v) * (1 - tr)

/-- TD errors against the sequence `next` shifted by one step: at step `t` the "next" quantity is
`next_{t+1}`, and the bootstrap value `b` at the last step. -/
def tdNext (disc : α) : List α → List α → List α → List α → List α → α → List α
  | tr :: trs, te :: tes, r :: rs, v :: vs, _ :: ns, b =>
      delta disc tr te r v (match ns with | [] => b | n' :: _ => n') :: tdNext disc trs tes rs vs ns b
  | _, _, _, _, _, _ => []

/-- `δ_k` for every `k` (next quantity = the values themselves) -/
def deltas (disc : α) (trunc term rew val : List α) (b : α) : List α :=
  tdNext disc trunc term rew val val b

/-- `Σ_i (Π_{j<i} cs_j) · ds_i`: the defining sum started at the head of the two lists -/
def gaeSum (cs ds : List α) : α :=
  sumL (List.zipWith (fun i d => prodL (cs.take i) * d) (List.range ds.length) ds)

/-- `vs_t − v_t` for every `t`: the defining sum started at `t` -/
def vsMinusV (cs ds : List α) : List α :=
  (List.range ds.length).map fun t => gaeSum (cs.drop t) (ds.drop t)

def vs (lam disc : α) (trunc term rew val : List α) (b : α) : List α :=
  List.zipWith (· + ·) (vsMinusV (coefs lam disc trunc term) (deltas disc trunc term rew val b)) val

def adv (lam disc : α) (trunc term rew val : List α) (b : α) : List α :=
  tdNext disc trunc term rew val (vs lam disc trunc term rew val b) b

/-- the specification of `compute_gae` for one batch member -/
def gae (lam disc : α) (trunc term rew val : List α) (b : α) : List α × List α :=
  (vs lam disc trunc term rew val b, adv lam disc trunc term rew val b)

end
end Brax.C19.Spec
