import Brax.Model.Math
/-!
# C10 — Spec: closed-form signed distance, normal and contact point of primitive pairs

What property C10 says the *reported* contact must be, independently of how `mujoco.mjx`
computes it.  Shapes live in the world frame:

* plane   `(p, n)`           : a point of the plane and its unit normal; the solid is the half
                               space `{q | n·(q − p) ≤ 0}`
* sphere  `(c, r)`
* capsule `(c, a, h, r)`     : centre, unit axis, half-length, radius (the segment
                               `c − h·a … c + h·a` swept by a ball of radius `r`)

Conventions (determined on the real `contact.get`, see `notes/C10.md`):

* the **first** geom of a candidate is the one with the smaller MuJoCo geom type
  (plane 0 < sphere 2 < capsule 3), ties by geom id, so the pair kinds are plane–sphere,
  plane–capsule, sphere–sphere, sphere–capsule, capsule–capsule;
* the **normal** (`frame[0]`) is the unit vector from the first geom to the second
  (plane normal; `(c₂ − c₁)/‖c₂ − c₁‖` between the closest centres);
* **dist** is the signed gap along the normal (negative = penetration depth);
* **pos** is the midpoint between the two nearest surface points;
* plane–capsule reports *two* candidates: the end sphere at `c + h·a` first, `c − h·a` second.

Written over raw operator classes (+ `HasSqrt`): runs at `Float` in `Driver/C10.lean`, is
instantiated at ℝ in `Props/C10.lean`.  No Mathlib.
-/
set_option linter.unusedSectionVars false
namespace Brax.C10
namespace Spec

/-- one contact candidate as the property observes it -/
structure Cand (α : Type) where
  dist : α
  pos : V3 α
  n : V3 α
deriving Repr

section real
variable {α : Type} [Zero α] [One α] [Add α] [Sub α] [Mul α] [Neg α] [Div α]
  [LT α] [DecidableLT α] [HasSqrt α]

/-- Euclidean norm -/
def norm3 (v : V3 α) : α := HasSqrt.sqrt (V3.dot v v)

/-- `d / ‖d‖`; for `d = 0` (coincident centres, no geometric normal) the convention is `e_x` -/
def unitOr (d : V3 α) : V3 α :=
  let n := norm3 d
  if eqZero n then ⟨1, 0, 0⟩ else ⟨d.x / n, d.y / n, d.z / n⟩

/-- plane (first) – sphere (second): `dist = n·(c − p) − r`, normal = plane normal,
`pos` halfway between the lowest point of the sphere `c − r n` and its foot on the plane -/
def planeSphere (p n c : V3 α) (r : α) : Cand α :=
  let dist := V3.dot n (c - p) - r
  ⟨dist, c - V3.smul (r + dist / (1 + 1)) n, n⟩

/-- sphere – sphere: `dist = ‖c₂ − c₁‖ − r₁ − r₂`, normal from the first centre to the second,
`pos` halfway between the surface points `c₁ + r₁ n` and `c₂ − r₂ n` -/
def sphereSphere (c1 : V3 α) (r1 : α) (c2 : V3 α) (r2 : α) : Cand α :=
  let d := c2 - c1
  let n := unitOr d
  let dist := norm3 d - r1 - r2
  ⟨dist, c1 + V3.smul (r1 + dist / (1 + 1)) n, n⟩

/-- plane – capsule: the two end spheres, `c + h a` first -/
def planeCapsule (p n c a : V3 α) (h r : α) : List (Cand α) :=
  let seg := V3.smul h a
  [planeSphere p n (c + seg) r, planeSphere p n (c - seg) r]

/-- closest point of the segment `a…b` to `q`: clamped projection parameter -/
def segParam (a b q : V3 α) : α :=
  let ab := b - a
  clip (V3.dot (q - a) ab / V3.dot ab ab) 0 1

def closestOnSeg (a b q : V3 α) : V3 α := a + V3.smul (segParam a b q) (b - a)

/-- sphere – capsule: sphere against the ball centred at the closest point of the capsule's
segment -/
def sphereCapsule (c : V3 α) (r : α) (cc ca : V3 α) (ch cr : α) : Cand α :=
  let seg := V3.smul ch ca
  sphereSphere c r (closestOnSeg (cc - seg) (cc + seg) c) cr

/-- clamped closest-point parameters `(s, t)` of two segments `p₁…q₁`, `p₂…q₂`
(sequential clamping: clamp `s` of the line–line optimum, take the optimal `t` for it; if that
leaves `[0,1]` clamp `t` and re-optimise `s`).  Non-degenerate segments are assumed. -/
def segSegParams (p1 q1 p2 q2 : V3 α) : α × α :=
  let d1 := q1 - p1
  let d2 := q2 - p2
  let r := p1 - p2
  let a := V3.dot d1 d1
  let e := V3.dot d2 d2
  let f := V3.dot d2 r
  let c := V3.dot d1 r
  let b := V3.dot d1 d2
  let den := a * e - b * b
  let s0 := if 0 < den then clip ((b * f - c * e) / den) 0 1 else 0
  let t0 := (b * s0 + f) / e
  if t0 < 0 then (clip (-c / a) 0 1, 0)
  else if 1 < t0 then (clip ((b - c) / a) 0 1, 1)
  else (s0, t0)

def segSegClosest (p1 q1 p2 q2 : V3 α) : V3 α × V3 α :=
  let st := segSegParams p1 q1 p2 q2
  (p1 + V3.smul st.1 (q1 - p1), p2 + V3.smul st.2 (q2 - p2))

/-- capsule – capsule: balls at the closest points of the two segments -/
def capsuleCapsule (c1 a1 : V3 α) (h1 r1 : α) (c2 a2 : V3 α) (h2 r2 : α) : Cand α :=
  let s1 := V3.smul h1 a1
  let s2 := V3.smul h2 a2
  let pq := segSegClosest (c1 - s1) (c1 + s1) (c2 - s2) (c2 + s2)
  sphereSphere pq.1 r1 pq.2 r2

/-! ## shapes and dispatch -/

inductive Shape (α : Type) where
  | plane (p n : V3 α)
  | sphere (c : V3 α) (r : α)
  | capsule (c a : V3 α) (h r : α)
deriving Repr

/-- candidates of an (ordered) pair; pairs the property does not speak about give `[]` -/
def collide : Shape α → Shape α → List (Cand α)
  | .plane p n, .sphere c r => [planeSphere p n c r]
  | .plane p n, .capsule c a h r => planeCapsule p n c a h r
  | .sphere c1 r1, .sphere c2 r2 => [sphereSphere c1 r1 c2 r2]
  | .sphere c r, .capsule cc ca ch cr => [sphereCapsule c r cc ca ch cr]
  | .capsule c1 a1 h1 r1, .capsule c2 a2 h2 r2 => [capsuleCapsule c1 a1 h1 r1 c2 a2 h2 r2]
  | _, _ => []

/-- world shape of a geom from its MuJoCo type (0 plane, 2 sphere, 3 capsule), `geom_size`,
world position and world rotation matrix: normal / axis = third column of the matrix,
radius = `size[0]`, half-length = `size[1]` -/
def toShape (typ : Nat) (size pos : V3 α) (mat : M3 α) : Option (Shape α) :=
  match typ with
  | 0 => some (.plane pos mat.col2)
  | 2 => some (.sphere pos size.x)
  | 3 => some (.capsule pos mat.col2 size.y size.x)
  | _ => none

/-- a common rigid motion `g` (translation `g.pos`, rotation by `g.rot`) applied to a shape -/
def Shape.move (g : Tf α) : Shape α → Shape α
  | .plane p n => .plane (g.pos + rotate p g.rot) (rotate n g.rot)
  | .sphere c r => .sphere (g.pos + rotate c g.rot) r
  | .capsule c a h r => .capsule (g.pos + rotate c g.rot) (rotate a g.rot) h r

/-- … and to a candidate: the distance is unchanged, the point moves, the normal rotates -/
def Cand.move (g : Tf α) (k : Cand α) : Cand α :=
  ⟨k.dist, g.pos + rotate k.pos g.rot, rotate k.n g.rot⟩

end real
end Spec
end Brax.C10
