import Brax.Model.C15
/-!
# C15 — what the property talks about (executable, no Mathlib)

* `iter`       : the inner environment after `n` sub-steps with a held action
* `runC/count` : position of a wrapped step inside its episode ("number of wrapped steps since
                 the last done"), read off the `done` flags of the history
* `trace`, `takeThrough`, `firstEp` : the wrapped steps of a history; its first episode
* `unrollStates`, `Chained` : the states visited by `generate_unroll`; chained transitions
* `Chunk`, `specSteps`, `episodeLog` : the **episode log** — from the bare stream of inner
  sub-steps (reward, done), cut into wrapped steps of `r` sub-steps, the list of episodes (each
  the list of its sub-step rewards) and what every wrapped step has to report.
-/
namespace Brax.C15
variable {K P O X R A : Type}

/-- inner state after `n` sub-steps with the action held -/
def iter (env : Env K P O X R A) (a : A) : Nat → St P O X R → St P O X R
  | 0, s => s
  | n + 1, s => iter env a n (env.step s a)

section run
variable [Zero R] [One R] [Add R] [Sub R] [NatCast R] [LE R] [DecidableLE R] [DecidableEq R]

/-- the inner state on which the sub-steps of the next wrapped step start -/
abbrev ArSt.inner (s : ArSt P O X R) : St P O X R := (arPre s).st

/-- wrapped step with the ghost counter "wrapped steps taken in the current episode" -/
def stepC (env : Env K P O X R A) (L r : Nat) (p : ArSt P O X R × Nat) (a : A) :
    ArSt P O X R × Nat :=
  (arStep env L r p.1 a, (if p.1.done = 0 then p.2 else 0) + 1)

def runC (env : Env K P O X R A) (L r : Nat) (k : K) (as : List A) : ArSt P O X R × Nat :=
  as.foldl (stepC env L r) (arReset env k, 0)

/-- position (1-based) of the last wrapped step of the history inside its episode -/
def count (env : Env K P O X R A) (L r : Nat) (k : K) (as : List A) : Nat := (runC env L r k as).2

/-- wrapped states after every step of a history, starting from `s` -/
def traceFrom (env : Env K P O X R A) (L r : Nat) : ArSt P O X R → List A → List (ArSt P O X R)
  | _, [] => []
  | s, a :: as => arStep env L r s a :: traceFrom env L r (arStep env L r s a) as

def trace (env : Env K P O X R A) (L r : Nat) (k : K) (as : List A) : List (ArSt P O X R) :=
  traceFrom env L r (arReset env k) as

/-- `EvalWrapper(wrap(env))`: reset, then the given actions -/
def evRun [Mul R] (env : Env K P O X R A) (L r : Nat) (k : K) (as : List A) : EvSt P O X R :=
  as.foldl (evStep env L r) (evReset env k)

end run

/-- the prefix up to and including the first element satisfying `p` -/
def takeThrough {α : Type} (p : α → Bool) : List α → List α
  | [] => []
  | x :: xs => if p x then [x] else x :: takeThrough p xs

/-- the wrapped steps of the first episode: up to and including the first done -/
def firstEp [Zero R] [DecidableEq R] (tr : List (ArSt P O X R)) : List (ArSt P O X R) :=
  takeThrough (fun s => decide (s.done ≠ 0)) tr

/-- what the wrapped environment shows to an observer -/
structure Out (P O R : Type) where
  ps : P
  obs : O
  reward : R
  done : R
  metrics : List R
  steps : R
  truncation : R

def ArSt.out (s : ArSt P O X R) : Out P O R :=
  ⟨s.ps, s.obs, s.reward, s.done, s.metrics, s.steps, s.truncation⟩

/-- the environment is a function of `(pipeline_state, obs)` and the action, as the bundled
environments are (they never read `info`, `metrics`, `reward`, `done`) -/
def Markov (env : Env K P O X R A) : Prop :=
  ∀ (s s' : St P O X R) (a : A), s.ps = s'.ps → s.obs = s'.obs →
    (env.step s a).ps = (env.step s' a).ps ∧ (env.step s a).obs = (env.step s' a).obs ∧
    (env.step s a).reward = (env.step s' a).reward ∧ (env.step s a).done = (env.step s' a).done ∧
    (env.step s a).metrics = (env.step s' a).metrics

/-! ## unroll -/
variable {S Ky : Type}

/-- the states `s₀ … sₙ` visited by `unroll` -/
def unrollStates (v : View S O R) (step : S → A → S) (π : O → Ky → A) (split : Ky → Ky × Ky) :
    Nat → S → Ky → List S
  | 0, s, _ => [s]
  | n + 1, s, key =>
    s :: unrollStates v step π split n (step s (π (v.obs s) (split key).1)) (split key).2

/-- consecutive transitions chain observation to next observation -/
def Chained : List (Transition O A R) → Prop
  | t₁ :: t₂ :: rest => t₂.observation = t₁.nextObservation ∧ Chained (t₂ :: rest)
  | _ => True

/-! ## batches -/

/-- stacking member states of the wrappers into the batched layout -/
def BEpSt.stack (l : List (EpSt P (List R) X R)) : BEpSt P X R :=
  ⟨BSt.stack (l.map (·.st)), l.map (·.steps), l.map (·.truncation)⟩

def BArSt.stack (l : List (ArSt P (List R) X R)) : BArSt P X R :=
  ⟨BEpSt.stack (l.map (·.ep)), l.map (·.firstPs), l.map (·.firstObs)⟩

def BEvSt.stack (l : List (EvSt P (List R) X R)) : BEvSt P X R :=
  ⟨BArSt.stack (l.map (·.ar)), l.map (·.mReward), l.map (·.emReward), l.map (·.emMetrics),
   l.map (·.active), l.map (·.episodeSteps)⟩

/-- stacking member transitions into the batched layout -/
def BTransition.stack (l : List (Transition (List R) A R)) : BTransition R A :=
  ⟨l.map (·.observation), l.map (·.action), l.map (·.reward), l.map (·.discount),
   l.map (·.nextObservation), l.map (·.truncation)⟩

section batches
variable [Zero R] [One R] [Add R] [Sub R] [NatCast R] [LE R] [DecidableLE R] [DecidableEq R]

/-- every member run on its own: the single-member model mapped over the batch -/
def memberRuns (env : BEnv K P X R A) (L r : Nat) (ks : List K) (hist : List (List A)) :
    List (ArSt P (List R) X R) :=
  hist.foldl (fun l as => List.zipWith (arStep env L r) l as) (ks.map (arReset env))

def memberEvRuns [Mul R] (env : BEnv K P X R A) (L r : Nat) (ks : List K) (hist : List (List A)) :
    List (EvSt P (List R) X R) :=
  hist.foldl (fun l as => List.zipWith (evStep env L r) l as) (ks.map (evReset env))

end batches

/-! ## episode log -/

/-- one wrapped step as the inner environment produced it: the `(reward, done)` of its sub-steps -/
abbrev Chunk (R : Type) := List (R × R)

/-- `done` of the last sub-step of a chunk -/
def Chunk.lastDone [Zero R] (c : Chunk R) : R := (c.getLast?.map (·.2)).getD 0

/-- what one wrapped step has to report -/
structure StepOut (R : Type) where
  reward : R
  steps : Nat
  done : R
  truncation : R

/-- what a wrapped state reports, as scalars -/
def ArSt.report (s : ArSt P O X R) : R × R × R × R := (s.reward, s.steps, s.done, s.truncation)
def StepOut.toR [NatCast R] (o : StepOut R) : R × R × R × R :=
  (o.reward, (o.steps : R), o.done, o.truncation)

section log
variable [Zero R] [One R] [Add R] [Sub R] [DecidableEq R]

/-- expected report of every wrapped step; `k` = wrapped steps already taken in the current
episode.  A step ends the episode when its **last** sub-step terminated or when the episode
has reached `L` sub-steps. -/
def specSteps (L r : Nat) : Nat → List (Chunk R) → List (StepOut R)
  | _, [] => []
  | k, c :: cs =>
    let cut := decide (L ≤ (k + 1) * r)
    let d : R := if cut then 1 else c.lastDone
    ⟨sumList (c.map (·.1)), (k + 1) * r, d, if cut then 1 - c.lastDone else 0⟩ ::
      specSteps L r (if d = 0 then k + 1 else 0) cs

/-- the episode log: list of episodes, each the list of its sub-step rewards (the last
episode may be unfinished).  `k`, `cur`: wrapped steps and rewards of the episode under way. -/
def episodeLogAux (L r : Nat) : Nat → List R → List (Chunk R) → List (List R)
  | _, cur, [] => if cur.isEmpty then [] else [cur]
  | k, cur, c :: cs =>
    let cur' := cur ++ c.map (·.1)
    if L ≤ (k + 1) * r ∨ c.lastDone ≠ 0 then cur' :: episodeLogAux L r 0 [] cs
    else episodeLogAux L r (k + 1) cur' cs

def episodeLog (L r : Nat) (cs : List (Chunk R)) : List (List R) := episodeLogAux L r 0 [] cs

/-- the sub-step rewards grouped into episodes by *observed* done flags (one per wrapped step) -/
def splitByDone : List R → List R → List (Chunk R) → List (List R)
  | cur, d :: ds, c :: cs =>
    if d = 0 then splitByDone (cur ++ c.map (·.1)) ds cs
    else (cur ++ c.map (·.1)) :: splitByDone [] ds cs
  | cur, _, _ => if cur.isEmpty then [] else [cur]

end log

/-- the chunk the inner environment produces from state `s` under a held action -/
def chunkOf (env : Env K P O X R A) (a : A) (r : Nat) (s : St P O X R) : Chunk R :=
  (List.range r).map fun i => ((iter env a (i + 1) s).reward, (iter env a (i + 1) s).done)

section chunks
variable [Zero R] [One R] [Add R] [Sub R] [NatCast R] [LE R] [DecidableLE R] [DecidableEq R]

/-- the chunks executed along a history -/
def chunksFrom (env : Env K P O X R A) (L r : Nat) : ArSt P O X R → List A → List (Chunk R)
  | _, [] => []
  | s, a :: as => chunkOf env a r s.inner :: chunksFrom env L r (arStep env L r s a) as

end chunks

end Brax.C15
