import Brax.Model.Kinematics
/-!
# Spec: MuJoCo's forward kinematics (`mj_kinematics`), stated sequentially per body

Written from the reference engine's documented algorithm, independently of brax's code:

```
for each body (parents first):
  (pos, quat) ← parent ∘ (body_pos, body_quat)                 -- world parent: the body pose itself
  for each joint of the body, in order:
    free : pos ← qpos[0:3];  quat ← normalize(qpos[3:7])
    hinge: anchor ← pos + R(quat) jnt_pos;  quat ← quat · axisangle(jnt_axis, q)
           pos ← anchor − R(quat) jnt_pos
    slide: pos ← pos + R(quat) jnt_axis · q
  quat ← normalize(quat)
```
The second correspondence leg (harness) validates this file against the real
`mujoco.mj_forward` (`xpos`, `xquat`).  Joint kinds are read off the brax dof: a dof with
`motion.vel = 0` is a hinge about `motion.ang`, one with `motion.ang = 0` a slide along
`motion.vel` (that is how `mjcf.load_model` encodes them).
-/
namespace Brax.Mj
open Brax

section
variable {α : Type} [Zero α] [One α] [Add α] [Sub α] [Mul α] [Neg α] [Div α]
  [LT α] [DecidableLT α] [LE α] [DecidableLE α] [OfScientific α] [HasSqrt α] [HasTrig α]

def v3IsZero (v : V3 α) : Bool := eqZero v.x && eqZero v.y && eqZero v.z

/-- one hinge or slide joint applied to the running body pose -/
def applyJoint (anchor : V3 α) (pq : Tf α) (dq : DofP α × α) : Tf α :=
  let d := dq.1
  let q := dq.2
  if v3IsZero d.motion.vel then
    -- hinge about `motion.ang`
    let anchorW := pq.pos + rotate anchor pq.rot
    let quat := quatMul pq.rot (quatRotAxis d.motion.ang q)
    ⟨anchorW - rotate anchor quat, quat⟩
  else
    -- slide along `motion.vel`
    ⟨pq.pos + rotate ⟨d.motion.vel.x * q, d.motion.vel.y * q, d.motion.vel.z * q⟩ pq.rot, pq.rot⟩

/-- pose of one body given its parent's pose -/
def bodyPose (parent : Option (Tf α)) (lk : LinkP α) (l : Kin.LinkIn α) : Tf α :=
  let start : Tf α := match parent with
    | none => lk.tf
    | some p => ⟨p.pos + rotate lk.tf.pos p.rot, quatMul p.rot lk.tf.rot⟩
  let pq : Tf α := match l.typ with
    | .free => match l.q with
      | [p0, p1, p2, r0, r1, r2, r3] => ⟨⟨p0, p1, p2⟩, normalize4 ⟨r0, r1, r2, r3⟩⟩
      | _ => start
    | _ => (l.dofs.zip l.q).foldl (applyJoint lk.joint.pos) start
  ⟨pq.pos, normalize4 pq.rot⟩

/-- `xpos`, `xquat` of every non-world body -/
def kinematics (s : Sys α) (q : List α) : List (Tf α) :=
  let ins := Kin.linkSlices s.types q (q.map fun _ => 0) s.dofs
  Kin.scanFwd (fun par (a : LinkP α × Kin.LinkIn α) => bodyPose par a.1 a.2) s.parents
    (s.links.zip ins)

end
end Brax.Mj

/-! ## velocities (`mj_comVel` / `mj_objectVelocity` of the body frame origin, world axes)

Rigid-body velocity recursion, per body:
`ω = ω_p + Σ_hinges axis_w·q̇ (+ R·q̇_ang for a free joint)`,
`v = v_p + ω_p × (pos − pos_p) + Σ_slides axis_w·q̇ + Σ_hinges (axis_w·q̇) × (pos − anchor_w)`
(`v = q̇_lin` for a free joint), where `axis_w`, `anchor_w` are taken in the running frame at the
time the joint is applied, `pos` is the final body origin. -/
namespace Brax.Mj
open Brax

section
variable {α : Type} [Zero α] [One α] [Add α] [Sub α] [Mul α] [Neg α] [Div α]
  [LT α] [DecidableLT α] [LE α] [DecidableLE α] [OfScientific α] [HasSqrt α] [HasTrig α]

/-- running state of the joint loop: pose, angular velocity so far, slide contribution so far,
and the list of (anchor_w, axis_w·q̇) of the hinges seen -/
structure JointAcc (α : Type) where
  pose : Tf α
  ang : V3 α
  lin : V3 α
  hinges : List (V3 α × V3 α)

def applyJointVel (anchor : V3 α) (st : JointAcc α) (dqq : DofP α × α × α) : JointAcc α :=
  let d := dqq.1
  let q := dqq.2.1
  let qd := dqq.2.2
  let pose' := applyJoint anchor st.pose (d, q)
  if v3IsZero d.motion.vel then
    let axisW := rotate d.motion.ang st.pose.rot
    let w : V3 α := ⟨axisW.x * qd, axisW.y * qd, axisW.z * qd⟩
    ⟨pose', st.ang + w, st.lin, st.hinges ++ [(st.pose.pos + rotate anchor st.pose.rot, w)]⟩
  else
    let axisW := rotate d.motion.vel st.pose.rot
    ⟨pose', st.ang, st.lin + ⟨axisW.x * qd, axisW.y * qd, axisW.z * qd⟩, st.hinges⟩

/-- pose and velocity of one body given its parent's -/
def bodyPoseVel (parent : Option (Tf α × Motion α)) (lk : LinkP α) (l : Kin.LinkIn α) :
    Tf α × Motion α :=
  let pose := bodyPose (parent.map Prod.fst) lk l
  match l.typ with
  | .free =>
    match l.qd with
    | [v0, v1, v2, w0, w1, w2] => (pose, ⟨rotate ⟨w0, w1, w2⟩ pose.rot, ⟨v0, v1, v2⟩⟩)
    | _ => (pose, Motion.zero)
  | _ =>
    let start : Tf α := match parent with
      | none => lk.tf
      | some p => ⟨p.1.pos + rotate lk.tf.pos p.1.rot, quatMul p.1.rot lk.tf.rot⟩
    let st := (l.dofs.zip (l.q.zip l.qd)).foldl (applyJointVel lk.joint.pos)
      ⟨start, V3.zero, V3.zero, []⟩
    let base : Motion α := match parent with
      | none => Motion.zero
      | some p => ⟨p.2.ang, p.2.vel + V3.cross p.2.ang (pose.pos - p.1.pos)⟩
    let hingeLin := st.hinges.foldl (fun acc h => acc + V3.cross h.2 (pose.pos - h.1)) V3.zero
    (pose, ⟨base.ang + st.ang, base.vel + st.lin + hingeLin⟩)

/-- world pose and velocity (`xpos`, `xquat`, object velocity of the body frame) of every body -/
def kinematicsVel (s : Sys α) (q qd : List α) : List (Tf α × Motion α) :=
  let ins := Kin.linkSlices s.types q qd s.dofs
  Kin.scanFwd (fun par (a : LinkP α × Kin.LinkIn α) => bodyPoseVel par a.1 a.2) s.parents
    (s.links.zip ins)

end
end Brax.Mj
