import Brax.Model.Kinematics
/-!
# Spec: MuJoCo's forward kinematics (`mj_kinematics`), stated sequentially per body

Written from the reference engine's documented algorithm, independently of brax's code:

```
for each body (parents first):
  (pos, quat) ← parent ∘ (body_pos, body_quat)                 -- world parent: the body pose itself
  for each joint of the body, in order:
    free : pos ← qpos[0:3];  quat ← normalize(qpos[3:7])
    hinge: anchor ← pos + R(quat) jnt_pos;  quat ← quat · axisangle(jnt_axis, q)
           pos ← anchor − R(quat) jnt_pos
    slide: pos ← pos + R(quat) jnt_axis · q
  quat ← normalize(quat)
```
The second correspondence leg (harness) validates this file against the real
`mujoco.mj_forward` (`xpos`, `xquat`).  Joint kinds are read off the brax dof: a dof with
`motion.vel = 0` is a hinge about `motion.ang`, one with `motion.ang = 0` a slide along
`motion.vel` (that is how `mjcf.load_model` encodes them).
-/
namespace Brax.Mj
open Brax

section
variable {α : Type} [Zero α] [One α] [Add α] [Sub α] [Mul α] [Neg α] [Div α]
  [LT α] [DecidableLT α] [LE α] [DecidableLE α] [OfScientific α] [HasSqrt α] [HasTrig α]

def v3IsZero (v : V3 α) : Bool := eqZero v.x && eqZero v.y && eqZero v.z

/-- one hinge or slide joint applied to the running body pose -/
def applyJoint (anchor : V3 α) (pq : Tf α) (dq : DofP α × α) : Tf α :=
  let d := dq.1
  let q := dq.2
  if v3IsZero d.motion.vel then
    -- hinge about `motion.ang`
    let anchorW := pq.pos + rotate anchor pq.rot
    let quat := quatMul pq.rot (quatRotAxis d.motion.ang q)
    ⟨anchorW - rotate anchor quat, quat⟩
  else
    -- slide along `motion.vel`
    ⟨pq.pos + rotate ⟨d.motion.vel.x * q, d.motion.vel.y * q, d.motion.vel.z * q⟩ pq.rot, pq.rot⟩

/-- pose of one body given its parent's pose -/
def bodyPose (parent : Option (Tf α)) (lk : LinkP α) (l : Kin.LinkIn α) : Tf α :=
  let start : Tf α := match parent with
    | none => lk.tf
    | some p => ⟨p.pos + rotate lk.tf.pos p.rot, quatMul p.rot lk.tf.rot⟩
  let pq : Tf α := match l.typ with
    | .free => match l.q with
      | [p0, p1, p2, r0, r1, r2, r3] => ⟨⟨p0, p1, p2⟩, normalize4 ⟨r0, r1, r2, r3⟩⟩
      | _ => start
    | _ => (l.dofs.zip l.q).foldl (applyJoint lk.joint.pos) start
  ⟨pq.pos, normalize4 pq.rot⟩

/-- `xpos`, `xquat` of every non-world body -/
def kinematics (s : Sys α) (q : List α) : List (Tf α) :=
  let ins := Kin.linkSlices s.types q (q.map fun _ => 0) s.dofs
  Kin.scanFwd (fun par (a : LinkP α × Kin.LinkIn α) => bodyPose par a.1 a.2) s.parents
    (s.links.zip ins)

end
end Brax.Mj
