/-!
# C17 — abstract specification of a bounded FIFO replay queue (no Mathlib, imports nothing)

This file fixes the *observable vocabulary* of a replay buffer (operations, outcomes,
observations) and the simplest executable statement of what property C17 asks for:

* `held`  : the most recent `≤ cap` inserted records, oldest first;
* `cur`   : a read cursor into `held` (number of held records already handed out);
* insert  : append, then drop the oldest records that no longer fit (the cursor moves with them);
* sample  : non-cyclic — hand out the `B` oldest unsampled held records, refuse when fewer than
            `B` are left; cyclic — hand out `held[(cur+i) mod |held|]`, refuse when fewer than
            `B` records are held at all;
* size    : number of records still available (`|held| - cur`, resp. `|held|` in cyclic mode).

Nothing here mentions storage arrays, rolling, positions modulo `cap+1` or a host counter.
-/
namespace Brax.C17

/-- result class of one buffer operation (`ValueError` of the host-side guards, `TypeError` of
the wrappers' `reshape(-1, D)`) -/
inductive Outcome where
  | ok
  | refuseInsert
  | refuseSample
  | reshapeError
deriving DecidableEq, Repr, Inhabited

/-- one operation of a history; `ι` is the auxiliary input of a sample (nothing for the plain
queue, the drawn indices for the uniform queue, one of these per shard for the wrappers) -/
inductive Op (α ι : Type) where
  | ins (xs : List α)
  | smp (aux : ι)

/-- what a caller observes of one operation: outcome, the returned batch (empty unless a sample
succeeded) and the value of `size` afterwards -/
structure Obs (α : Type) where
  outcome : Outcome
  out : List α
  size : Int
deriving DecidableEq, Repr

/-- the last `min n |l|` elements of `l`, in order -/
def lastN {α : Type} (n : Nat) (l : List α) : List α := l.drop (l.length - n)

/-- all records of the accepted inserts of a history (`k ≤ cap`), in insertion order -/
def inserted {α ι : Type} (cap : Nat) : List (Op α ι) → List α
  | [] => []
  | .ins xs :: ops => (if xs.length ≤ cap then xs else []) ++ inserted cap ops
  | .smp _ :: ops => inserted cap ops

structure Fifo (α : Type) where
  held : List α
  cur : Nat
deriving DecidableEq, Repr

def Fifo.empty {α : Type} : Fifo α := ⟨[], 0⟩

/-- number of records a sample may still hand out -/
def Fifo.avail {α : Type} (cyclic : Bool) (f : Fifo α) : Nat :=
  if cyclic then f.held.length else f.held.length - f.cur

/-- insert a batch: refused when it is larger than the capacity -/
def Fifo.insert {α : Type} (cap : Nat) (f : Fifo α) (xs : List α) : Option (Fifo α) :=
  if cap < xs.length then none
  else
    let all := f.held ++ xs
    let over := all.length - cap
    some { held := all.drop over, cur := f.cur - over }

/-- sample a batch of `B` records: refused when fewer than `B` are available -/
def Fifo.sample {α : Type} (B : Nat) (cyclic : Bool) (f : Fifo α) : Option (Fifo α × List α) :=
  if f.avail cyclic < B then none
  else if cyclic then
    some ({ f with cur := (f.cur + B) % f.held.length },
          (List.range B).filterMap fun i => f.held[(f.cur + i) % f.held.length]?)
  else
    some ({ f with cur := f.cur + B }, (f.held.drop f.cur).take B)

def Fifo.step {α : Type} (cap B : Nat) (cyclic : Bool) (f : Fifo α) : Op α Unit → Obs α × Fifo α
  | .ins xs =>
    match f.insert cap xs with
    | none => (⟨.refuseInsert, [], f.avail cyclic⟩, f)
    | some f' => (⟨.ok, [], f'.avail cyclic⟩, f')
  | .smp _ =>
    match f.sample B cyclic with
    | none => (⟨.refuseSample, [], f.avail cyclic⟩, f)
    | some (f', out) => (⟨.ok, out, f'.avail cyclic⟩, f')

def Fifo.run {α : Type} (cap B : Nat) (cyclic : Bool) :
    Fifo α → List (Op α Unit) → List (Obs α) × Fifo α
  | f, [] => ([], f)
  | f, op :: ops =>
    ((f.step cap B cyclic op).1 :: (Fifo.run cap B cyclic (f.step cap B cyclic op).2 ops).1,
     (Fifo.run cap B cyclic (f.step cap B cyclic op).2 ops).2)

end Brax.C17
