import Brax.Model.C11
/-!
# C11 — spec: MuJoCo's actuator force for joint transmissions (`engine_forward.c: mj_fwdActuation`,
`engine_core_smooth.c: mj_transmission`)

Only the *data types* `Mj.Actuator`, `Mj.Model` are shared with the model file; nothing of
`Act.toTau` / `Act.ofMj` is used here.  For an actuator with `trntype = mjTRN_JOINT` on a hinge or
slide joint `j`, `gaintype = fixed`, `biastype ∈ {none, affine}`, no activation state:

```
length   = gear[0] * qpos[jnt_qposadr[j]]                 moment = gear[0] * e_{jnt_dofadr[j]}
velocity = moment · qvel = gear[0] * qvel[jnt_dofadr[j]]
ctrl     = ctrllimited ? mju_clip(ctrl, ctrlrange) : ctrl
force    = gainprm[0] * ctrl + (biastype == affine ? biasprm[0] + biasprm[1]*length + biasprm[2]*velocity : 0)
force    = forcelimited ? mju_clip(force, forcerange) : force
qfrc_actuator = momentᵀ · force          (no joint-level `actuatorfrcrange`, no gravcomp routing)
```
-/
namespace Brax.Mj
variable {α : Type}

/-- `mju_clip(x, min, max)` -/
def clipMj [LT α] [DecidableLT α] (x lo hi : α) : α :=
  if x < lo then lo else if hi < x then hi else x

/-- scalar actuator force given transmission length and velocity -/
def Actuator.force [Zero α] [Add α] [Mul α] [LT α] [DecidableLT α]
    (a : Actuator α) (ctrl len vel : α) : α :=
  let c := if a.ctrllimited then clipMj ctrl a.ctrlLo a.ctrlHi else ctrl
  let bias := if a.biastype = 0 then 0 else a.biasprm0 + a.biasprm1 * len + a.biasprm2 * vel
  let f := a.gainprm0 * c + bias
  if a.forcelimited then clipMj f a.forceLo a.forceHi else f

/-- `d->actuator_force` -/
def actuatorForce [Zero α] [Add α] [Mul α] [LT α] [DecidableLT α]
    (m : Model α) (ctrl qpos qvel : List α) : List α :=
  List.zipWith
    (fun a c => a.force c (a.gear0 * qpos.getD (m.qposadr a) 0) (a.gear0 * qvel.getD (m.dofadr a) 0))
    m.acts ctrl

/-- `d->qfrc_actuator[i] = Σ_k moment[k][i] * actuator_force[k]`, `moment[k] = gear_k e_{dofadr k}` -/
def qfrcActuator [Zero α] [Add α] [Mul α] [LT α] [DecidableLT α]
    (m : Model α) (ctrl qpos qvel : List α) : List α :=
  let fs := actuatorForce m ctrl qpos qvel
  (List.range m.nv).map fun i =>
    ((m.acts.zip fs).map fun p => if m.dofadr p.1 = i then p.1.gear0 * p.2 else 0).sum

end Brax.Mj
