import Brax.Model.C16
/-!
# C16 — the documented contract of the bundled environments, as propositions

What the class docstrings of `brax/envs/*.py` ("Episode Termination", "Observation Space") promise,
stated independently of how the code computes it.  No Mathlib.
`none` as a range end is the infinite end (`healthy_z_range = (0.7, inf)` of hopper).
-/
namespace Brax.C16
open Brax

variable {α : Type}

/-- `x` lies strictly inside `(lo, hi)` -/
def InOpen [LT α] (lo hi : Option α) (x : α) : Prop :=
  (∀ l, lo = some l → l < x) ∧ (∀ h, hi = some h → x < h)

/-- `x` lies inside `[lo, hi]` -/
def InClosed [LE α] (lo hi : Option α) (x : α) : Prop :=
  (∀ l, lo = some l → l ≤ x) ∧ (∀ h, hi = some h → x ≤ h)

/-- hopper: "all of `q[2:]`, `qd` inside `healthy_state_range`, the torso height inside
`healthy_z_range`, the torso angle `q[2]` inside `healthy_angle_range`" (all strict) -/
def Hopper.Healthy [Zero α] [One α] [LT α] (c : Hopper.Cfg α) (s : PState α) : Prop :=
  (∀ v ∈ s.q.drop 2 ++ s.qd, InOpen c.stateLo c.stateHi v)
    ∧ InOpen c.zLo c.zHi (linkPos s 0).z ∧ InOpen c.angLo c.angHi (idx s.q 2)

/-- walker2d: torso height inside `healthy_z_range` and torso angle inside `healthy_angle_range`
(strict) -/
def Walker2d.Healthy [Zero α] [One α] [LT α] (c : Walker2d.Cfg α) (s : PState α) : Prop :=
  InOpen c.zLo c.zHi (linkPos s 0).z ∧ InOpen c.angLo c.angHi (idx s.q 2)

/-- ant: torso height inside the closed `healthy_z_range` -/
def Ant.Healthy [Zero α] [One α] [LE α] (c : Ant.Cfg α) (s : PState α) : Prop :=
  InClosed c.zLo c.zHi (linkPos s 0).z

/-- humanoid: torso height inside the closed `healthy_z_range` -/
def Humanoid.Healthy [Zero α] [One α] [LE α] (c : Humanoid.Cfg α) (s : PState α) : Prop :=
  InClosed c.zLo c.zHi (linkPos s 0).z

/-- what every `reset` returns besides the observation: `done = 0`, `reward = 0`, `n` zero metrics -/
def ResetSpec [Zero α] (o : Out α) (obs : List α) (n : Nat) : Prop :=
  o.done = 0 ∧ o.reward = 0 ∧ o.obs = obs ∧ o.metrics.length = n ∧ ∀ m ∈ o.metrics, m = 0

end Brax.C16
