import Brax.Lemmas.Real
import Mathlib.Tactic.Ring
import Mathlib.Tactic.Linarith
import Mathlib.Tactic.FieldSimp
import Mathlib.Tactic.LinearCombination
import Mathlib.Tactic.NormNum
/-!
# C09 — real-analysis and pivoting lemmas behind the law theorems of `Props/C09.lean`

Nothing here mentions `Gen.*`: `atan2`/`asin` facts at the ℝ instances of `Brax/Lemmas/Real.lean`, the `allclose` guard
on three components, and the pivoted-LU determinant `luDet3` *in the shape `jp.linalg.det` traces to* (this shape comes
from jax, not from the brax source) with the proof that it is the Leibniz determinant in every pivoting branch.
-/
namespace Brax.C09
open Brax

/-- `atan2 (r sin θ) (r cos θ) = θ` for `r > 0`, `θ ∈ (−π, π]` (`atan2 y x = arg (x + y i)`) -/
theorem atan2_scaled (r θ : ℝ) (hr : 0 < r) (hθ : θ ∈ Set.Ioc (-Real.pi) Real.pi) :
    (HasTrig.atan2 (r * Real.sin θ) (r * Real.cos θ) : ℝ) = θ := by
  show Complex.arg ⟨r * Real.cos θ, r * Real.sin θ⟩ = θ
  have h : (⟨r * Real.cos θ, r * Real.sin θ⟩ : ℂ)
      = (r : ℂ) * (Complex.cos (θ : ℂ) + Complex.sin (θ : ℂ) * Complex.I) := by
    apply Complex.ext
    · simp [← Complex.ofReal_cos, ← Complex.ofReal_sin]
    · simp [← Complex.ofReal_cos, ← Complex.ofReal_sin]
  rw [h]
  exact Complex.arg_mul_cos_add_sin_mul_I hr hθ

/-- `arcsin (clip (sin Y) (−1) 1) = Y` on `[−π/2, π/2]`, with `clip` spelled as the jaxpr spells it -/
theorem asin_clip_sin (T Y : ℝ) (hT : T = Real.sin Y) (hY1 : -(Real.pi / 2) ≤ Y) (hY2 : Y ≤ Real.pi / 2) :
    (HasTrig.asin (if (decide (1 < (if decide ((-1 : ℝ) < T) then T else -1))) then 1
        else (if decide ((-1 : ℝ) < T) then T else -1)) : ℝ) = Y := by
  subst hT
  show Real.arcsin _ = Y
  have h1 := Real.neg_one_le_sin Y
  have h2 := Real.sin_le_one Y
  by_cases h : (-1 : ℝ) < Real.sin Y
  · have h3 : ¬ (1 < Real.sin Y) := not_lt.mpr h2
    simp only [h, decide_true, if_true, h3, decide_false, Bool.false_eq_true, if_false]
    exact Real.arcsin_sin hY1 hY2
  · have h4 : Real.sin Y = -1 := le_antisymm (not_lt.mp h) h1
    have h3 : ¬ ((1 : ℝ) < -1) := by norm_num
    simp only [h, decide_false, Bool.false_eq_true, if_false, h3]
    rw [← h4]
    exact Real.arcsin_sin hY1 hY2

/-- three components, one of which is not tiny, are not `allclose` to 0 -/
theorem allclose3_false (p q r : ℝ) (h : (1e-15 : ℝ) < p * p + q * q + r * r) :
    ((decide (absv p ≤ (1e-8 : ℝ)) && decide (absv q ≤ (1e-8 : ℝ))) && decide (absv r ≤ (1e-8 : ℝ))) = false := by
  rw [Bool.eq_false_iff]
  intro hc
  simp only [Bool.and_eq_true, decide_eq_true_eq, absv_eq_abs] at hc
  obtain ⟨⟨hp, hq⟩, hr⟩ := hc
  have hp2 : p * p ≤ 1e-8 * 1e-8 := by
    rw [← abs_mul_abs_self p]; exact mul_le_mul hp hp (abs_nonneg _) (by norm_num)
  have hq2 : q * q ≤ 1e-8 * 1e-8 := by
    rw [← abs_mul_abs_self q]; exact mul_le_mul hq hq (abs_nonneg _) (by norm_num)
  have hr2 : r * r ≤ 1e-8 * 1e-8 := by
    rw [← abs_mul_abs_self r]; exact mul_le_mul hr hr (abs_nonneg _) (by norm_num)
  norm_num at hp2 hq2 hr2 h
  linarith

/-- partial pivoting: if the entry of largest modulus of a column is 0, the column is 0 -/
theorem colmax3_zero (x y z : ℝ)
    (h : eqR (if decide (absv (if decide (absv x < absv y) then y else x) < absv z) then z
          else (if decide (absv x < absv y) then y else x)) 0 = true) : x = 0 ∧ y = 0 ∧ z = 0 := by
  rw [eqR_iff] at h
  simp only [absv_eq_abs, decide_eq_true_eq] at h
  have hx := abs_nonneg x; have hy := abs_nonneg y; have hz := abs_nonneg z
  split_ifs at h <;> subst h <;> simp only [abs_zero] at * <;> refine ⟨?_, ?_, ?_⟩ <;>
    first | rfl | trivial | (exfalso; linarith) | (apply abs_eq_zero.mp; linarith)

theorem colmax2_zero (x y : ℝ)
    (h : eqR (if decide (absv x < absv y) then y else x) 0 = true) : x = 0 ∧ y = 0 := by
  rw [eqR_iff] at h
  simp only [absv_eq_abs, decide_eq_true_eq] at h
  have hx := abs_nonneg x; have hy := abs_nonneg y
  split_ifs at h <;> subst h <;> simp only [abs_zero] at * <;> refine ⟨?_, ?_⟩ <;>
    first | rfl | trivial | (exfalso; linarith) | (apply abs_eq_zero.mp; linarith)

/-- second elimination stage of the pivoted LU determinant that `jp.linalg.det` traces to, on the 2×2 block
`[[A, C], [B, D]]` with accumulated sign `s` and first pivot `p` -/
noncomputable def lu2 (s p A B C D : ℝ) : ℝ :=
  let t13 : Bool := (decide ((absv A) < (absv B)))
  let t16 : ℝ := (if t13 then B else A)
  let t21 : Bool := (eqR t16 0)
  ((((if t13 then (-s) else s) * p) * t16) * ((if t13 then C else D) - ((if t21 then 0 else ((if t13 then A else B) / (if t21 then 1 else t16))) * (if t13 then D else C))))

theorem lu2_eq (s p A B C D : ℝ) : lu2 s p A B C D = s * p * (A * D - B * C) := by
  unfold lu2
  by_cases h21 : eqR (if decide (absv A < absv B) then B else A) 0 = true
  · obtain ⟨hA, hB⟩ := colmax2_zero A B h21
    subst hA hB
    simp
  · have hne : (if decide (absv A < absv B) then B else A) ≠ 0 := fun hc => h21 ((eqR_iff _ _).mpr hc)
    simp only [h21, Bool.false_eq_true, if_false]
    by_cases h13 : absv A < absv B
    · simp only [h13, decide_true, if_true] at hne ⊢
      field_simp
      try ring
    · simp only [h13, decide_false, Bool.false_eq_true, if_false] at hne ⊢
      field_simp
      try ring

/-- the pivoted LU determinant of a 3×3 matrix, exactly as `jp.linalg.det` is traced inside `inv_3x3` -/
noncomputable def luDet3 (m00 m01 m02 m10 m11 m12 m20 m21 m22 : ℝ) : ℝ :=
  let t1 : Bool := (decide ((absv m00) < (absv m10)))
  let t2 : ℝ := (if t1 then m10 else m00)
  let t3 : Bool := (decide ((absv t2) < (absv m20)))
  let t4 : ℝ := (if t3 then m20 else t2)
  let t5 : Bool := (eqR t4 0)
  let t6 : ℝ := (if t5 then 1 else t4)
  let t7 : ℝ := (if t5 then 0 else ((if t1 then m00 else m10) / t6))
  let t8 : ℝ := (if t1 then m11 else m01)
  let t9 : ℝ := (if t3 then m21 else t8)
  let t10 : ℝ := ((if t1 then m01 else m11) - (t7 * t9))
  let t11 : ℝ := (if t5 then 0 else ((if t3 then t2 else m20) / t6))
  let t12 : ℝ := ((if t3 then t8 else m21) - (t11 * t9))
  let t14 : ℝ := (if t1 then (-1) else 1)
  let t15 : ℝ := (if t3 then (-t14) else t14)
  let t17 : ℝ := (if t1 then m12 else m02)
  let t18 : ℝ := (if t3 then m22 else t17)
  let t19 : ℝ := ((if t1 then m02 else m12) - (t7 * t18))
  let t20 : ℝ := ((if t3 then t17 else m22) - (t11 * t18))
  lu2 t15 t4 t10 t12 t19 t20

theorem luDet3_eq (m00 m01 m02 m10 m11 m12 m20 m21 m22 : ℝ) :
    luDet3 m00 m01 m02 m10 m11 m12 m20 m21 m22
      = m00 * (m11 * m22 - m12 * m21) - m01 * (m10 * m22 - m12 * m20) + m02 * (m10 * m21 - m11 * m20) := by
  unfold luDet3
  simp only [lu2_eq]
  by_cases h5 : eqR (if decide (absv (if decide (absv m00 < absv m10) then m10 else m00) < absv m20) then m20
          else (if decide (absv m00 < absv m10) then m10 else m00)) 0 = true
  · obtain ⟨h0, h1, h2⟩ := colmax3_zero m00 m10 m20 h5
    subst h0 h1 h2
    simp
  · have hne : (if decide (absv (if decide (absv m00 < absv m10) then m10 else m00) < absv m20) then m20
          else (if decide (absv m00 < absv m10) then m10 else m00)) ≠ 0 := fun hc => h5 ((eqR_iff _ _).mpr hc)
    simp only [h5, Bool.false_eq_true, if_false]
    by_cases h1 : absv m00 < absv m10
    · simp only [h1, decide_true, if_true] at hne ⊢
      by_cases h3 : absv m10 < absv m20
      · simp only [h3, decide_true, if_true] at hne ⊢
        field_simp; ring
      · simp only [h3, decide_false, Bool.false_eq_true, if_false] at hne ⊢
        field_simp; ring
    · simp only [h1, decide_false, Bool.false_eq_true, if_false] at hne ⊢
      by_cases h3 : absv m00 < absv m20
      · simp only [h3, decide_true, if_true] at hne ⊢
        field_simp; ring
      · simp only [h3, decide_false, Bool.false_eq_true, if_false] at hne ⊢
        field_simp; ring

/-- `cos`/`sin` of `atan2 y x` when `x² + y² = r²`, `r > 0` -/
theorem cos_sin_atan2 (yv xv r : ℝ) (hr : 0 < r) (h : xv * xv + yv * yv = r * r) :
    Real.cos (HasTrig.atan2 yv xv : ℝ) = xv / r ∧ Real.sin (HasTrig.atan2 yv xv : ℝ) = yv / r := by
  show Real.cos (Complex.arg ⟨xv, yv⟩) = xv / r ∧ Real.sin (Complex.arg ⟨xv, yv⟩) = yv / r
  have hn : ‖(⟨xv, yv⟩ : ℂ)‖ = r := by
    have h2 : ‖(⟨xv, yv⟩ : ℂ)‖ ^ 2 = r ^ 2 := by
      rw [Complex.sq_norm, Complex.normSq_apply]; simp only; rw [h]; ring
    exact (sq_eq_sq₀ (norm_nonneg _) hr.le).mp h2
  have hz : (⟨xv, yv⟩ : ℂ) ≠ 0 := by
    intro hc; rw [hc, norm_zero] at hn; linarith
  constructor
  · rw [Complex.cos_arg hz, hn]
  · rw [Complex.sin_arg, hn]

/-- inside the clip, `safe_arcsin ∘ clip` is `arcsin` -/
theorem asin_clip_id (T : ℝ) (h1 : -1 < T) (h2 : T < 1) :
    (HasTrig.asin (if (decide (1 < (if decide ((-1 : ℝ) < T) then T else -1))) then 1
        else (if decide ((-1 : ℝ) < T) then T else -1)) : ℝ) = Real.arcsin T := by
  have h3 : ¬ (1 < T) := not_lt.mpr h2.le
  simp only [h1, decide_true, if_true, h3, decide_false, Bool.false_eq_true, if_false]
  rfl

/-- a sum of four squares vanishes only if every term does -/
theorem four_sq_zero (a b c d : ℝ) (h : a * a + b * b + c * c + d * d = 0) : a = 0 ∧ b = 0 ∧ c = 0 ∧ d = 0 := by
  have h1 := mul_self_nonneg a; have h2 := mul_self_nonneg b; have h3 := mul_self_nonneg c; have h4 := mul_self_nonneg d
  exact ⟨mul_self_eq_zero.mp (by linarith), mul_self_eq_zero.mp (by linarith), mul_self_eq_zero.mp (by linarith),
    mul_self_eq_zero.mp (by linarith)⟩


end Brax.C09
