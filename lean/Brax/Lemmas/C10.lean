import Brax.Model.C10
import Brax.Spec.C10
import Brax.Lemmas.Algebra
import Brax.Lemmas.Real
import Mathlib.Tactic.Ring
import Mathlib.Tactic.Linarith
import Mathlib.Tactic.Positivity
import Mathlib.Tactic.FieldSimp
import Mathlib.Tactic.LinearCombination
/-!
# C10 — helper lemmas: Euclidean norm of `V3 ℝ`, rigid motions of points and vectors, indexing
-/
set_option linter.unusedSectionVars false
set_option linter.unusedSimpArgs false
set_option linter.unusedVariables false
namespace Brax.C10
open Brax

/-! ## indexing -/

theorem jnpIndex_neg_one (n : Nat) : jnpIndex (n + 1) (-1) = n := by
  simp only [jnpIndex]
  have h1 : ((-1 : Int) < 0) := by omega
  simp only [h1, if_true]
  have h2 : ¬ ((-1 : Int) + ((n + 1 : Nat) : Int) < 0) := by omega
  have h3 : ¬ (((n + 1 : Nat) : Int) ≤ (-1 : Int) + ((n + 1 : Nat) : Int)) := by omega
  simp only [h2, h3, if_false]
  omega

theorem jnpIndex_nat {n i : Nat} (h : i < n) : jnpIndex n (i : Int) = i := by
  simp only [jnpIndex]
  have h1 : ¬ ((i : Int) < 0) := by omega
  have h3 : ¬ ((n : Int) ≤ (i : Int)) := by omega
  simp only [h1, h3, if_false]
  omega

theorem jnpIndex_lt {n : Nat} (hn : 0 < n) (i : Int) : jnpIndex n i < n := by
  simp only [jnpIndex]
  split_ifs <;> omega

theorem readIdx_nat {β : Type} (xs : List β) (d : β) {i : Nat} (h : i < xs.length) :
    readIdx xs d (i : Int) = xs[i] := by
  simp only [readIdx, jnpIndex_nat h, List.getD_eq_getElem?_getD, List.getElem?_eq_getElem h,
    Option.getD_some]

theorem readIdx_append_neg_one {β : Type} (xs : List β) (d : β) :
    readIdx (xs ++ [d]) d (-1) = d := by
  simp only [readIdx, List.length_append, List.length_singleton, jnpIndex_neg_one,
    List.getD_eq_getElem?_getD]
  simp

theorem readIdx_append_nat {β : Type} (xs : List β) (d : β) {i : Nat} (h : i < xs.length) :
    readIdx (xs ++ [d]) d (i : Int) = xs[i] := by
  have h' : i < (xs ++ [d]).length := by simp; omega
  rw [readIdx_nat _ _ h']
  exact List.getElem_append_left h

/-! ## vectors over a commutative ring -/
section ring
variable {R : Type} [CommRing R]

/-- a rigid motion applied to a point -/
def mv (g : Tf R) (p : V3 R) : V3 R := g.pos + rotate p g.rot

theorem mv_def (g : Tf R) (p : V3 R) : g.pos + rotate p g.rot = mv g p := rfl

theorem mv_sub (g : Tf R) (a b : V3 R) : mv g a - mv g b = rotate (a - b) g.rot := by
  rw [rotate_sub]; simp only [mv, V3.add_def, V3.sub_def]; congr 1 <;> ring

theorem mv_add_vec (g : Tf R) (a v : V3 R) : mv g a + rotate v g.rot = mv g (a + v) := by
  simp only [mv]; rw [rotate_add]; simp only [V3.add_def]; congr 1 <;> ring

theorem mv_sub_vec (g : Tf R) (a v : V3 R) : mv g a - rotate v g.rot = mv g (a - v) := by
  simp only [mv]; rw [rotate_sub]; simp only [V3.add_def, V3.sub_def]; congr 1 <;> ring

theorem mv_doTf (g h : Tf R) (p : V3 R) : mv (Tf.doTf g h) p = mv g (mv h p) := by
  simp only [mv, Tf.doTf]; rw [rotate_quatMul, rotate_add]; simp only [V3.add_def]; congr 1 <;> ring

theorem mv_id (p : V3 R) : mv (Tf.id : Tf R) p = p := by
  simp only [mv, Tf.id, rotate_one, V3.zero_add']

theorem dot_comm (u v : V3 R) : V3.dot u v = V3.dot v u := by simp only [V3.dot]; ring

theorem dot_smul_right (s : R) (u v : V3 R) : V3.dot u (V3.smul s v) = s * V3.dot u v := by
  simp only [V3.dot, V3.smul]; ring

theorem dot_smul_left (s : R) (u v : V3 R) : V3.dot (V3.smul s u) v = s * V3.dot u v := by
  simp only [V3.dot, V3.smul]; ring

theorem dot_add_right (u v w : V3 R) : V3.dot u (v + w) = V3.dot u v + V3.dot u w := by
  simp only [V3.dot, V3.add_def]; ring

theorem dot_sub_right (u v w : V3 R) : V3.dot u (v - w) = V3.dot u v - V3.dot u w := by
  simp only [V3.dot, V3.sub_def]; ring

theorem mulVec_ez (m : M3 R) : M3.mulVec m ⟨0, 0, 1⟩ = m.col2 := by
  simp only [M3.mulVec, M3.col2, V3.dot]; congr 1 <;> ring

end ring

/-! ## Euclidean norm over ℝ -/
section real
open Spec

theorem norm3_def (v : V3 ℝ) : norm3 v = Real.sqrt (V3.dot v v) := rfl

theorem dot_self_nonneg (v : V3 ℝ) : 0 ≤ V3.dot v v := by
  simp only [V3.dot]; nlinarith [mul_self_nonneg v.x, mul_self_nonneg v.y, mul_self_nonneg v.z]

theorem norm3_nonneg (v : V3 ℝ) : 0 ≤ norm3 v := Real.sqrt_nonneg _

theorem norm3_mul_self (v : V3 ℝ) : norm3 v * norm3 v = V3.dot v v :=
  Real.mul_self_sqrt (dot_self_nonneg v)

theorem dot_self_eq_zero {v : V3 ℝ} (h : V3.dot v v = 0) : v = V3.zero := by
  simp only [V3.dot] at h
  have hx : v.x = 0 := by nlinarith [mul_self_nonneg v.x, mul_self_nonneg v.y, mul_self_nonneg v.z]
  have hy : v.y = 0 := by nlinarith [mul_self_nonneg v.x, mul_self_nonneg v.y, mul_self_nonneg v.z]
  have hz : v.z = 0 := by nlinarith [mul_self_nonneg v.x, mul_self_nonneg v.y, mul_self_nonneg v.z]
  cases v; simp_all [V3.zero]

theorem norm3_eq_zero_iff (v : V3 ℝ) : norm3 v = 0 ↔ v = V3.zero := by
  constructor
  · intro h
    apply dot_self_eq_zero
    rw [← norm3_mul_self, h, mul_zero]
  · rintro rfl
    simp [norm3_def, V3.dot, V3.zero]

theorem sub_eq_zero_iff (a b : V3 ℝ) : a - b = V3.zero ↔ a = b := by
  cases a; cases b
  simp only [V3.sub_def, V3.zero, V3.mk.injEq, sub_eq_zero]

theorem norm3_pos_of_ne {a b : V3 ℝ} (h : a ≠ b) : 0 < norm3 (b - a) := by
  rcases (norm3_nonneg (b - a)).lt_or_eq with h' | h'
  · exact h'
  · exfalso
    have := (norm3_eq_zero_iff _).mp h'.symm
    exact h ((sub_eq_zero_iff _ _).mp this).symm

theorem norm3_rotate (v : V3 ℝ) {q : Q4 ℝ} (hu : q.IsUnit) : norm3 (rotate v q) = norm3 v := by
  rw [norm3_def, norm3_def, rotate_dot_unit _ _ hu]

theorem norm3_neg (v : V3 ℝ) : norm3 (-v) = norm3 v := by
  rw [norm3_def, norm3_def]; congr 1; simp only [V3.dot, V3.neg_def]; ring

theorem norm3_sub_comm (a b : V3 ℝ) : norm3 (a - b) = norm3 (b - a) := by
  rw [norm3_def, norm3_def]; congr 1; simp only [V3.dot, V3.sub_def]; ring

theorem norm3_smul (s : ℝ) (v : V3 ℝ) : norm3 (V3.smul s v) = |s| * norm3 v := by
  rw [norm3_def, norm3_def]
  have : V3.dot (V3.smul s v) (V3.smul s v) = s ^ 2 * V3.dot v v := by
    simp only [V3.dot, V3.smul]; ring
  rw [this, Real.sqrt_mul (sq_nonneg s), Real.sqrt_sq_eq_abs]

/-- Cauchy–Schwarz -/
theorem dot_le_norm_mul (u v : V3 ℝ) : V3.dot u v ≤ norm3 u * norm3 v := by
  have hl : V3.dot u v ^ 2 ≤ V3.dot u u * V3.dot v v := by
    simp only [V3.dot]
    nlinarith [sq_nonneg (u.x * v.y - u.y * v.x), sq_nonneg (u.x * v.z - u.z * v.x),
      sq_nonneg (u.y * v.z - u.z * v.y)]
  have := Real.abs_le_sqrt hl
  rw [Real.sqrt_mul (dot_self_nonneg u)] at this
  exact le_trans (le_abs_self _) this

theorem neg_norm_mul_le_dot (u v : V3 ℝ) : -(norm3 u * norm3 v) ≤ V3.dot u v := by
  have := dot_le_norm_mul (-u) v
  rw [norm3_neg] at this
  have h2 : V3.dot (-u) v = -V3.dot u v := by simp only [V3.dot, V3.neg_def]; ring
  linarith

/-- triangle inequality -/
theorem norm3_add_le (u v : V3 ℝ) : norm3 (u + v) ≤ norm3 u + norm3 v := by
  have h0 : 0 ≤ norm3 u + norm3 v := add_nonneg (norm3_nonneg u) (norm3_nonneg v)
  have hsq : V3.dot (u + v) (u + v) ≤ (norm3 u + norm3 v) ^ 2 := by
    have e : V3.dot (u + v) (u + v) = V3.dot u u + 2 * V3.dot u v + V3.dot v v := by
      simp only [V3.dot, V3.add_def]; ring
    have := dot_le_norm_mul u v
    nlinarith [norm3_mul_self u, norm3_mul_self v]
  calc norm3 (u + v) = Real.sqrt (V3.dot (u + v) (u + v)) := rfl
    _ ≤ Real.sqrt ((norm3 u + norm3 v) ^ 2) := Real.sqrt_le_sqrt hsq
    _ = norm3 u + norm3 v := Real.sqrt_sq h0

theorem norm3_sub_le (a b c : V3 ℝ) : norm3 (a - c) ≤ norm3 (a - b) + norm3 (b - c) := by
  have e : a - c = (a - b) + (b - c) := by
    simp only [V3.add_def, V3.sub_def]; congr 1 <;> ring
  rw [e]; exact norm3_add_le _ _

/-- away from zero `unitOr d = d / ‖d‖` -/
theorem unitOr_eq_smul {d : V3 ℝ} (h : d ≠ V3.zero) : unitOr d = V3.smul (1 / norm3 d) d := by
  have hn : norm3 d ≠ 0 := fun h0 => h ((norm3_eq_zero_iff d).mp h0)
  have e : eqZero (norm3 d) = false := by
    rw [Bool.eq_false_iff]; intro hc; exact hn ((eqZero_iff _).mp hc)
  simp only [unitOr, e, Bool.false_eq_true, if_false, V3.smul]
  congr 1 <;> ring

theorem unitOr_zero : unitOr (V3.zero : V3 ℝ) = ⟨1, 0, 0⟩ := by
  have e : eqZero (norm3 (V3.zero : V3 ℝ)) = true := by
    rw [eqZero_iff]; exact (norm3_eq_zero_iff _).mpr rfl
  simp only [unitOr, e, if_true]

/-- `‖d‖ · unitOr d = d` -/
theorem norm_smul_unitOr {d : V3 ℝ} (h : d ≠ V3.zero) : V3.smul (norm3 d) (unitOr d) = d := by
  have hn : norm3 d ≠ 0 := fun h0 => h ((norm3_eq_zero_iff d).mp h0)
  rw [unitOr_eq_smul h]
  cases d
  simp only [V3.smul]
  congr 1 <;> field_simp

/-- the normal is a unit vector -/
theorem norm3_unitOr (d : V3 ℝ) : norm3 (unitOr d) = 1 := by
  by_cases h : d = V3.zero
  · subst h; rw [unitOr_zero]; simp [norm3_def, V3.dot]
  · have hn : norm3 d ≠ 0 := fun h0 => h ((norm3_eq_zero_iff d).mp h0)
    have hp : 0 < norm3 d := lt_of_le_of_ne (norm3_nonneg d) (Ne.symm hn)
    rw [unitOr_eq_smul h, norm3_smul, abs_of_pos (by positivity)]
    field_simp

theorem unitOr_rotate {d : V3 ℝ} (h : d ≠ V3.zero) {q : Q4 ℝ} (hu : q.IsUnit) :
    unitOr (rotate d q) = rotate (unitOr d) q := by
  have h' : rotate d q ≠ V3.zero := by
    intro h0
    apply h
    apply (norm3_eq_zero_iff d).mp
    rw [← norm3_rotate d hu, h0]; exact (norm3_eq_zero_iff _).mpr rfl
  rw [unitOr_eq_smul h, unitOr_eq_smul h', norm3_rotate d hu, rotate_smul]

theorem unitOr_neg {d : V3 ℝ} (h : d ≠ V3.zero) : unitOr (-d) = -unitOr d := by
  have h' : -d ≠ V3.zero := by
    intro h0; apply h
    cases d; simp only [V3.neg_def, V3.zero, V3.mk.injEq, neg_eq_zero] at h0 ⊢; exact h0
  rw [unitOr_eq_smul h, unitOr_eq_smul h', norm3_neg]
  simp only [V3.smul, V3.neg_def]; congr 1 <;> ring

/-! ## closest points of two segments: the scalar problem -/

/-- the scalar algorithm of `segSegParams` -/
noncomputable def ssp (a b c e f : ℝ) : ℝ × ℝ :=
  let den := a * e - b * b
  let s0 := if 0 < den then clip ((b * f - c * e) / den) 0 1 else 0
  let t0 := (b * s0 + f) / e
  if t0 < 0 then (clip (-c / a) 0 1, 0)
  else if 1 < t0 then (clip ((b - c) / a) 0 1, 1)
  else (s0, t0)

theorem segSegParams_eq_ssp (p1 q1 p2 q2 : V3 ℝ) :
    segSegParams p1 q1 p2 q2
      = ssp (V3.dot (q1 - p1) (q1 - p1)) (V3.dot (q1 - p1) (q2 - p2)) (V3.dot (q1 - p1) (p1 - p2))
          (V3.dot (q2 - p2) (q2 - p2)) (V3.dot (q2 - p2) (p1 - p2)) := rfl

/-- squared distance of the points with parameters `s`, `t`, minus `r·r` -/
def F (a b c e f s t : ℝ) : ℝ := 2 * s * c - 2 * t * f + s ^ 2 * a - 2 * s * t * b + t ^ 2 * e

theorem F_expand (a b c e f s t s' t' : ℝ) :
    F a b c e f s t - F a b c e f s' t'
      = 2 * (c + a * s' - b * t') * (s - s') + 2 * (e * t' - b * s' - f) * (t - t')
        + (a * (s - s') ^ 2 - 2 * b * (s - s') * (t - t') + e * (t - t') ^ 2) := by
  simp only [F]; ring

theorem Q_nonneg (a b e : ℝ) (ha : 0 < a) (hcs : b * b ≤ a * e) (x y : ℝ) :
    0 ≤ a * x ^ 2 - 2 * b * x * y + e * y ^ 2 := by
  have h : 0 ≤ a * (a * x ^ 2 - 2 * b * x * y + e * y ^ 2) := by
    have : a * (a * x ^ 2 - 2 * b * x * y + e * y ^ 2) = (a * x - b * y) ^ 2 + (a * e - b * b) * y ^ 2 := by ring
    rw [this]
    exact add_nonneg (sq_nonneg _) (mul_nonneg (sub_nonneg.mpr hcs) (sq_nonneg _))
  exact nonneg_of_mul_nonneg_right h ha |> fun h' => h'

/-- variational characterisation of the clamp -/
theorem clip_var (u s : ℝ) (hs0 : 0 ≤ s) (hs1 : s ≤ 1) : 0 ≤ (s - clip u 0 1) * (clip u 0 1 - u) := by
  rw [clip_eq]
  rcases le_total u 0 with h | h
  · rw [max_eq_right h, min_eq_left zero_le_one]; nlinarith
  · rw [max_eq_left h]
    rcases le_total u 1 with h1 | h1
    · rw [min_eq_left h1]; simp
    · rw [min_eq_right h1]; nlinarith

theorem clip_mem (u : ℝ) : 0 ≤ clip u 0 1 ∧ clip u 0 1 ≤ 1 := by
  rw [clip_eq]; exact ⟨le_min (le_max_right _ _) zero_le_one, min_le_right _ _⟩

theorem ssp_optimal (a b c e f : ℝ) (ha : 0 < a) (he : 0 < e) (hcs : b * b ≤ a * e)
    (hpar : a * e - b * b = 0 → c * e - b * f = 0)
    (s t : ℝ) (hs0 : 0 ≤ s) (hs1 : s ≤ 1) (ht0 : 0 ≤ t) (ht1 : t ≤ 1) :
    F a b c e f (ssp a b c e f).1 (ssp a b c e f).2 ≤ F a b c e f s t := by
  -- s0 and its variational inequality on the reduced function
  set den := a * e - b * b with hden
  have hden0 : 0 ≤ den := sub_nonneg.mpr hcs
  set s0 := (if 0 < den then clip ((b * f - c * e) / den) 0 1 else 0) with hs0def
  have hs0m : 0 ≤ s0 ∧ s0 ≤ 1 := by
    rw [hs0def]; split_ifs
    · exact clip_mem _
    · exact ⟨le_refl _, zero_le_one⟩
  -- (den * s0 - (b f - c e)) * (s' - s0) ≥ 0 for all s' in [0,1]
  have hvar0 : ∀ s' : ℝ, 0 ≤ s' → s' ≤ 1 → 0 ≤ (s' - s0) * (den * s0 - (b * f - c * e)) := by
    intro s' h0 h1
    rw [hs0def]
    split_ifs with hd
    · have := clip_var ((b * f - c * e) / den) s' h0 h1
      have e1 : den * clip ((b * f - c * e) / den) 0 1 - (b * f - c * e)
          = den * (clip ((b * f - c * e) / den) 0 1 - (b * f - c * e) / den) := by
        field_simp
      rw [e1]
      nlinarith [mul_nonneg (le_of_lt hd) this]
    · have hz : den = 0 := le_antisymm (not_lt.mp hd) hden0
      have := hpar hz
      rw [hz]; nlinarith
  set t0 := (b * s0 + f) / e with ht0def
  have ht0e : t0 * e = b * s0 + f := by rw [ht0def]; field_simp
  have hQ := Q_nonneg a b e ha hcs
  show F a b c e f (ssp a b c e f).1 (ssp a b c e f).2 ≤ F a b c e f s t
  have hssp : ssp a b c e f = if t0 < 0 then (clip (-c / a) 0 1, 0)
      else if 1 < t0 then (clip ((b - c) / a) 0 1, 1) else (s0, t0) := rfl
  rw [hssp]
  split_ifs with hA hB
  · -- t0 < 0: t* = 0, s* = clip (-c/a)
    set s1 := clip (-c / a) 0 1 with hs1def
    have hs1m := clip_mem (-c / a)
    have hv1 := clip_var (-c / a) s hs0 hs1
    have hv1' := clip_var (-c / a) s0 hs0m.1 hs0m.2
    rw [← hs1def] at hs1m hv1 hv1'
    have ca : -c / a * a = -c := by field_simp
    have hphi0 : b * s0 + f < 0 := by nlinarith
    -- key: b * s1 + f ≤ 0
    have hkey : b * s1 + f ≤ 0 := by
      by_contra hcon
      have hcon := not_le.mp hcon
      have h1 := hvar0 s1 hs1m.1 hs1m.2
      -- (2): (c + a s1)(s0 - s1) ≥ 0
      have h2 : 0 ≤ (s0 - s1) * (a * s1 + c) := by nlinarith [mul_nonneg (le_of_lt ha) hv1']
      nlinarith [mul_pos ha he, sq_nonneg (s1 - s0), sq_nonneg (b * (s1 - s0))]
    have hgs : 0 ≤ (c + a * s1 - b * 0) * (s - s1) := by nlinarith [mul_nonneg (le_of_lt ha) hv1]
    have hgt : 0 ≤ (e * 0 - b * s1 - f) * (t - 0) := by nlinarith
    have := F_expand a b c e f s t s1 0
    have := hQ (s - s1) (t - 0)
    simp only
    linarith
  · -- 1 < t0: t* = 1, s* = clip ((b-c)/a)
    set s1 := clip ((b - c) / a) 0 1 with hs1def
    have hs1m := clip_mem ((b - c) / a)
    have hv1 := clip_var ((b - c) / a) s hs0 hs1
    have hv1' := clip_var ((b - c) / a) s0 hs0m.1 hs0m.2
    rw [← hs1def] at hs1m hv1 hv1'
    have ca : (b - c) / a * a = b - c := by field_simp
    have hphi0 : e < b * s0 + f := by nlinarith
    have hkey : e ≤ b * s1 + f := by
      by_contra hcon
      have hcon := not_le.mp hcon
      have h1 := hvar0 s1 hs1m.1 hs1m.2
      have h2 : 0 ≤ (s0 - s1) * (a * s1 + c - b) := by nlinarith [mul_nonneg (le_of_lt ha) hv1']
      nlinarith [mul_pos ha he, sq_nonneg (s1 - s0), sq_nonneg (b * (s1 - s0))]
    have hgs : 0 ≤ (c + a * s1 - b * 1) * (s - s1) := by nlinarith [mul_nonneg (le_of_lt ha) hv1]
    have hgt : 0 ≤ (e * 1 - b * s1 - f) * (t - 1) := by nlinarith
    have := F_expand a b c e f s t s1 1
    have := hQ (s - s1) (t - 1)
    simp only
    linarith
  · -- interior in t
    have hgt : e * t0 - b * s0 - f = 0 := by linarith
    have hgs : 0 ≤ (c + a * s0 - b * t0) * (s - s0) := by
      have h1 := hvar0 s hs0 hs1
      have : (c + a * s0 - b * t0) * e = den * s0 - (b * f - c * e) := by
        rw [hden]; linear_combination (-b) * ht0e
      have h3 : 0 ≤ ((c + a * s0 - b * t0) * (s - s0)) * e := by nlinarith
      exact nonneg_of_mul_nonneg_left h3 he
    have := F_expand a b c e f s t s0 t0
    have := hQ (s - s0) (t - t0)
    simp only
    rw [hgt] at *
    nlinarith

theorem dot_sq_le (u v : V3 ℝ) : V3.dot u v * V3.dot u v ≤ V3.dot u u * V3.dot v v := by
  simp only [V3.dot]
  nlinarith [sq_nonneg (u.x * v.y - u.y * v.x), sq_nonneg (u.x * v.z - u.z * v.x),
    sq_nonneg (u.y * v.z - u.z * v.y)]

/-- equality in Cauchy–Schwarz: parallel directions see every vector `r` proportionally -/
theorem dot_parallel (d1 d2 r : V3 ℝ)
    (h : V3.dot d1 d1 * V3.dot d2 d2 - V3.dot d1 d2 * V3.dot d1 d2 = 0) :
    V3.dot d1 r * V3.dot d2 d2 - V3.dot d1 d2 * V3.dot d2 r = 0 := by
  have hw : V3.dot (V3.smul (V3.dot d2 d2) d1 - V3.smul (V3.dot d1 d2) d2)
      (V3.smul (V3.dot d2 d2) d1 - V3.smul (V3.dot d1 d2) d2) = 0 := by
    have : V3.dot (V3.smul (V3.dot d2 d2) d1 - V3.smul (V3.dot d1 d2) d2)
        (V3.smul (V3.dot d2 d2) d1 - V3.smul (V3.dot d1 d2) d2)
        = V3.dot d2 d2 * (V3.dot d1 d1 * V3.dot d2 d2 - V3.dot d1 d2 * V3.dot d1 d2) := by
      simp only [V3.dot, V3.smul, V3.sub_def]; ring
    rw [this, h, mul_zero]
  have hz := dot_self_eq_zero hw
  have : V3.dot (V3.smul (V3.dot d2 d2) d1 - V3.smul (V3.dot d1 d2) d2) r = 0 := by
    rw [hz]; simp [V3.dot, V3.zero]
  rw [← this]
  simp only [V3.dot, V3.smul, V3.sub_def]; ring

theorem ssp_mem (a b c e f : ℝ) :
    (0 ≤ (ssp a b c e f).1 ∧ (ssp a b c e f).1 ≤ 1) ∧ (0 ≤ (ssp a b c e f).2 ∧ (ssp a b c e f).2 ≤ 1) := by
  simp only [ssp]
  split_ifs with h1 h2 h3 h4 h5
  all_goals
    first
    | exact ⟨clip_mem _, le_refl _, zero_le_one⟩
    | exact ⟨clip_mem _, zero_le_one, le_refl _⟩
    | exact ⟨clip_mem _, not_lt.mp h2, not_lt.mp h3⟩
    | exact ⟨⟨le_refl _, zero_le_one⟩, not_lt.mp h4, not_lt.mp h5⟩


end real
end Brax.C10
