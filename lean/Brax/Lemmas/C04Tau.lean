import Brax.Lemmas.C04Init
/-!
# C04 rest clause: "no actuator force" as `to_tau = 0` instead of `acts = []`

The state- and system-level rest theorems of `C04Rest` / `C04Init` ask `s.acts = []` (`Quiet`).  The
proofs use it only to rewrite the torque `MC.toTau s act st.q st.qd` the steps evaluate to zero.
Here the same theorems are restated with that exact hypothesis (`…_tau`; the proofs are the original
ones with one `rw` changed), and `toTau_zero_of_forces` / `toTau_zero_ctrl` discharge it: every
actuator force vanishes; zero control inside the control range, zero bias (a pure motor) and a force
range containing 0.
-/
set_option linter.unusedSectionVars false
set_option linter.unusedSimpArgs false
set_option linter.unusedVariables false
namespace Brax.C04T
open Brax MC Kin C04L C04I

/-! ## when `actuator.to_tau` vanishes -/
section tau
variable {K : Type} [Field K] [LinearOrder K] [IsStrictOrderedRing K]

theorem mem_zipWith_zip {A B C : Type} (f : A → B → C) :
    ∀ (l : List A) (l' : List B) (x : C), x ∈ List.zipWith f l l' → ∃ p ∈ l.zip l', x = f p.1 p.2
  | [], _, x, h => by simp at h
  | _ :: _, [], x, h => by simp at h
  | a :: l, b :: l', x, h => by
    simp only [List.zipWith_cons_cons, List.mem_cons] at h
    rcases h with rfl | h
    · exact ⟨(a, b), by simp, rfl⟩
    · obtain ⟨p, hp, hx⟩ := mem_zipWith_zip f l l' x h
      exact ⟨p, by simp [hp], hx⟩

/-- **no actuator force**: when the force of every (actuator, control) pair vanishes, `to_tau` is the
zero vector (the system may have actuators) -/
theorem toTau_zero_of_forces (s : Sys K) (act q qd : List K)
    (h : ∀ au ∈ s.acts.zip act, actForce au.1 au.2 (nthS q au.1.qId) (nthS qd au.1.qdId) = 0) :
    toTau s act q qd = List.replicate s.nv 0 := by
  unfold toTau
  split_ifs with h0
  · rfl
  · simp only []
    unfold segmentSum tab
    rw [List.eq_replicate_iff]
    refine ⟨by simp, ?_⟩
    intro b hb
    simp only [List.mem_map, List.mem_range] at hb
    obtain ⟨k, _, rfl⟩ := hb
    refine segAt_zero _ k ?_
    intro p hp
    obtain ⟨au, hau, hx⟩ := mem_zipWith_zip _ _ _ _ (List.of_mem_zip hp).1
    rw [hx]
    exact h au hau

theorem clipO_zero (lo hi : Option K) (hlo : ∀ l, lo = some l → l ≤ 0) (hhi : ∀ h, hi = some h → 0 ≤ h) :
    clipO (0 : K) lo hi = 0 := by
  unfold clipO
  cases lo with
  | none =>
    cases hi with
    | none => rfl
    | some h => simp only; rw [if_neg (not_lt.mpr (hhi h rfl))]
  | some l =>
    have hl := hlo l rfl
    simp only [if_neg (not_lt.mpr hl)]
    cases hi with
    | none => rfl
    | some h => simp only; rw [if_neg (not_lt.mpr (hhi h rfl))]

/-- an actuator that is a pure motor -- no position/velocity bias -- whose control range and force
range contain 0 -/
structure ZeroAt0 (a : ActP K) : Prop where
  hbq : a.biasQ = 0
  hbqd : a.biasQd = 0
  hcl : ∀ l, a.ctrlLo = some l → l ≤ 0
  hch : ∀ h, a.ctrlHi = some h → 0 ≤ h
  hfl : ∀ l, a.forceLo = some l → l ≤ 0
  hfh : ∀ h, a.forceHi = some h → 0 ≤ h

/-- zero control on such an actuator: the force vanishes (whatever `q`, `qd`) -/
theorem actForce_zero_ctrl (a : ActP K) (q qd : K) (h : ZeroAt0 a) : actForce a 0 q qd = 0 := by
  unfold actForce
  simp only []
  rw [clipO_zero _ _ h.hcl h.hch, h.hbq, h.hbqd]
  simp only [mul_zero, add_zero]
  rw [clipO_zero _ _ h.hfl h.hfh, zero_mul]

/-- **zero control, zero bias ⇒ zero torque** -/
theorem toTau_zero_ctrl (s : Sys K) (act q qd : List K) (hact : ∀ u ∈ act, u = 0)
    (hacts : ∀ a ∈ s.acts, ZeroAt0 a) : toTau s act q qd = List.replicate s.nv 0 := by
  apply toTau_zero_of_forces
  intro au hau
  have h1 := List.of_mem_zip hau
  rw [hact au.2 h1.2]
  exact actForce_zero_ctrl _ _ _ (hacts au.1 h1.1)

/-- the old hypothesis is a special case -/
theorem toTau_zero_of_noacts (s : Sys K) (act q qd : List K) (h : s.acts = []) :
    toTau s act q qd = List.replicate s.nv 0 :=
  toTau_zero_of_forces s act q qd (by simp [h])

end tau

/-! ## state level -/
section state
variable {K : Type} [Field K] [LinearOrder K] [IsStrictOrderedRing K]
  [HasSqrt K] [HasTrig K] [HasExp K] [HasPow K] [HasF32 K]

/-- `C04L.spring_rest_of_zero_jointForces` with `Quiet s` (which asks `s.acts = []`) replaced by what
the proof uses: no gravity, `sqrt 1 = 1`, one parent per link, and **the actuator torque the step
evaluates is zero** (`htau`).  Same proof. -/
theorem spring_rest_of_zero_tau (inv : List (Tf K) → List (Motion K) → List K × List K)
    (cf : List (Tf K) → List (Contact K)) (s : Sys K) (st : Spring.State K) (act : List K)
    (hc : SpringConsistent inv s st) (hg : s.gravity = 0) (hsqrt : HasSqrt.sqrt (1 : K) = 1)
    (hpar : s.parents.length = s.numLinks)
    (htau : toTau s act st.q st.qd = List.replicate s.nv 0)
    (hrest : ∀ i, i < s.numLinks → nth st.xd i = ⟨0, 0⟩)
    (hunit : ∀ i, i < s.numLinks → Q4.normSq (nth st.x i).rot = 1)
    (hcf : cf st.x = [])
    (hjf : ∀ i, i < s.numLinks →
      nth (Spring.jointForces s st.j st.jd (List.replicate s.nv 0)) i = ⟨0, 0⟩) :
    Spring.step inv cf s st act = st := by
  -- the centre-of-mass fields
  have hxi : st.x_i = tab s.numLinks fun i => Tf.doTf (nth st.x i) (tfPos (nth s.links i).inertia.tf.pos) := by
    have := hc.hcom; simp only [Com.fromWorld] at this; exact (Prod.mk.inj this).1.symm
  have hxdi : st.xd_i = tab s.numLinks fun _ => (⟨0, 0⟩ : Motion K) := by
    have := hc.hcom; simp only [Com.fromWorld] at this
    rw [← (Prod.mk.inj this).2]
    apply tab_congr
    intro i hi
    simp only [hrest i hi, doMotion_zero]
  -- forces vanish
  have hxf : ∀ i, i < s.numLinks →
      nth (Spring.resolve s { st with i_inv := Com.invInertia s st.x }
        (toTau s act st.q st.qd)) i = ⟨0, 0⟩ := by
    intro i hi
    unfold Spring.resolve
    rw [htau]
    exact assemble_zero _ _ _ _ _ (by rw [hpar]; exact hjf) (by rw [hpar]; exact hi)
  have hacc : Spring.accelerate s (Com.invInertia s st.x) st.mass st.xd_i
      (Spring.resolve s { st with i_inv := Com.invInertia s st.x } (toTau s act st.q st.qd))
      = st.xd_i := by
    conv_rhs => rw [hxdi]
    unfold Spring.accelerate
    apply tab_congr
    intro i hi
    rw [hxf i hi, hxdi, nth_tab _ hi, hg]
    simp only [mulVec_zero, v3_zero_add, v3_zero_x, v3_zero_y, v3_zero_z, zero_div, smul_zero',
      smul_zero_lit, Motion.add_def, v3_add_zero]
    rfl
  have hcol : Spring.collide s { st with i_inv := Com.invInertia s st.x, xd_i := st.xd_i } [] =
      tab s.numLinks fun _ => (⟨0, 0⟩ : Motion K) := by
    simp [Spring.collide]
  have hint : Spring.integrate s st.x_i st.xd_i (tab s.numLinks fun _ => (⟨0, 0⟩ : Motion K))
      = (st.x_i, st.xd_i) := by
    unfold Spring.integrate
    simp only []
    have hrow : ∀ i, i < s.numLinks →
        Spring.integrateLink s (nth st.x_i i) (nth st.xd_i i)
          (nth (tab s.numLinks fun _ => (⟨0, 0⟩ : Motion K)) i) = (nth st.x_i i, ⟨0, 0⟩) := by
      intro i hi
      rw [nth_tab _ hi]
      have : nth st.xd_i i = ⟨0, 0⟩ := by rw [hxdi, nth_tab _ hi]
      rw [this]
      apply integrateLink_rest s _ hsqrt
      rw [hxi, nth_tab _ hi]
      simp only [Tf.doTf, tfPos, quatMul_one]
      exact hunit i hi
    congr 1
    · conv_rhs => rw [eq_tab_of_length (show st.x_i.length = s.numLinks by rw [hxi, tab_length])]
      apply tab_congr; intro i hi; rw [hrow i hi]
    · conv_rhs => rw [hxdi]
      apply tab_congr; intro i hi; rw [hrow i hi]
  have htw : Com.toWorld s st.x_i st.xd_i = (st.x, st.xd) := by
    unfold Com.toWorld
    simp only []
    congr 1
    · conv_rhs => rw [eq_tab_of_length hc.hx]
      apply tab_congr; intro i hi
      rw [hxi, nth_tab _ hi, toWorld_fromWorld_pos]
    · conv_rhs => rw [eq_tab_of_length hc.hxd]
      apply tab_congr; intro i hi
      rw [hxdi, nth_tab _ hi, doMotion_zero, hrest i hi]
  -- put the step together
  unfold Spring.step
  simp only [hacc, hcf, hcol, hint, htw, hc.hj, hc.hjd, hc.hap, hc.hac, hc.hinv]
  cases st
  simp only [Spring.State.mk.injEq, true_and, and_true]
  exact hc.hiinv.symm

/-- `C04L.positional_rest_of_zero_displacements` with `Quiet s` replaced by `hg`, `hsqrt`, `hpar` and
**zero actuator torque** `htau`.  Same proof. -/
theorem positional_rest_of_zero_tau
    (inv : List (Tf K) → List (Motion K) → List K × List K)
    (cf : List (Tf K) → List (Contact K)) (s : Sys K) (st : Positional.State K) (act : List K)
    (hc : PosConsistent inv s st) (hg : s.gravity = 0) (hsqrt : HasSqrt.sqrt (1 : K) = 1)
    (hpar : s.parents.length = s.numLinks)
    (htau : toTau s act st.q st.qd = List.replicate s.nv 0) (hdt : s.dt ≠ 0)
    (hrest : ∀ i, i < s.numLinks → nth st.xd i = ⟨0, 0⟩)
    (hunit : ∀ i, i < s.numLinks → Q4.normSq (nth st.x i).rot = 1)
    (hcf : ∀ x, cf x = [])
    (hjf : ∀ i, i < s.numLinks →
      nth (Positional.jointForces s st.jd (List.replicate s.nv 0)) i = ⟨0, 0⟩)
    (hdisp : ∀ i, i < s.numLinks → nth (Positional.jointDisplacements s st.j st.a_p) i = (0, 0)) :
    Positional.step inv cf s st act = st := by
  have hxi : st.x_i = tab s.numLinks fun i => Tf.doTf (nth st.x i) (tfPos (nth s.links i).inertia.tf.pos) := by
    have := hc.hcom; simp only [Com.fromWorld] at this; exact (Prod.mk.inj this).1.symm
  have hxdi : st.xd_i = tab s.numLinks fun _ => (⟨0, 0⟩ : Motion K) := by
    have := hc.hcom; simp only [Com.fromWorld] at this
    rw [← (Prod.mk.inj this).2]
    apply tab_congr
    intro i hi
    simp only [hrest i hi, doMotion_zero]
  have hxilen : st.x_i.length = s.numLinks := by rw [hxi, tab_length]
  have hxiunit : ∀ i, i < s.numLinks → Q4.normSq (nth st.x_i i).rot = 1 := by
    intro i hi
    rw [hxi, nth_tab _ hi]
    simp only [Tf.doTf, tfPos, quatMul_one]
    exact hunit i hi
  -- acceleration level
  have hxf : ∀ i, i < s.numLinks →
      nth (Positional.accelerationUpdate s st (toTau s act st.q st.qd)) i = ⟨0, 0⟩ := by
    intro i hi
    unfold Positional.accelerationUpdate
    rw [htau]
    exact assemble_zero _ _ _ _ _ (by rw [hpar]; exact hjf) (by rw [hpar]; exact hi)
  have hxdd : Positional.acceleration s (Com.invInertia s st.x) st.mass
      (Positional.accelerationUpdate s st (toTau s act st.q st.qd))
      = tab s.numLinks fun _ => (⟨0, 0⟩ : Motion K) := by
    unfold Positional.acceleration
    apply tab_congr
    intro i hi
    rw [hxf i hi, hg]
    simp only [mulVec_zero, smul_zero', v3_zero_add]
  have hint : Positional.integrateXdd s st.x_i st.xd_i (tab s.numLinks fun _ => (⟨0, 0⟩ : Motion K))
      = (st.x_i, st.xd_i) := by
    unfold Positional.integrateXdd
    simp only []
    have hrow : ∀ i, i < s.numLinks →
        Positional.integrateXddLink s (nth st.x_i i) (nth st.xd_i i)
          (nth (tab s.numLinks fun _ => (⟨0, 0⟩ : Motion K)) i) = (nth st.x_i i, ⟨0, 0⟩) := by
      intro i hi
      rw [nth_tab _ hi]
      have : nth st.xd_i i = ⟨0, 0⟩ := by rw [hxdi, nth_tab _ hi]
      rw [this]
      exact integrateXddLink_rest s _ hsqrt (hxiunit i hi)
    congr 1
    · conv_rhs => rw [eq_tab_of_length hxilen]
      apply tab_congr; intro i hi; rw [hrow i hi]
    · conv_rhs => rw [hxdi]
      apply tab_congr; intro i hi; rw [hrow i hi]
  have htw : Com.toWorld s st.x_i st.xd_i = (st.x, st.xd) := by
    unfold Com.toWorld
    simp only []
    congr 1
    · conv_rhs => rw [eq_tab_of_length hc.hx]
      apply tab_congr; intro i hi
      rw [hxi, nth_tab _ hi, toWorld_fromWorld_pos]
    · conv_rhs => rw [eq_tab_of_length hc.hxd]
      apply tab_congr; intro i hi
      rw [hxdi, nth_tab _ hi, doMotion_zero, hrest i hi]
  -- position level
  have hst1 : ({ st with x := st.x, xd := st.xd, x_i := st.x_i, xd_i := st.xd_i } : Positional.State K) = st := by
    cases st; rfl
  have hpu : Positional.positionUpdate s st = st.x_i := by
    unfold Positional.positionUpdate
    simp only [hc.hj, hc.hap, hc.hac]
    exact positionAssemble_zero _ _ _ _ _ _ _ _ _ (by rw [hxilen, hpar]) (by rw [hpar]; exact hdisp)
  have hproj : Positional.projectXd s st.x_i st.x_i = st.xd_i := by
    conv_rhs => rw [hxdi]
    unfold Positional.projectXd
    apply tab_congr
    intro i _
    obtain ⟨⟨p1, p2, p3⟩, ⟨w, a, b, c⟩⟩ := nth st.x_i i
    simp only [V3.sub_def, sub_self, zero_div, relativeQuat, quatMul, quatInv]
    have e1 : w * -a + a * w + b * -c - c * -b = 0 := by ring
    have e2 : w * -b - a * -c + b * w + c * -a = 0 := by ring
    have e3 : w * -c + a * -b - b * -a + c * w = 0 := by ring
    simp only [e1, e2, e3, mul_zero, zero_div, v3_zero_x, v3_zero_y, v3_zero_z]
    rfl
  have hxdv : Positional.integrateXdv s st.xd_i (tab s.numLinks fun _ => (⟨0, 0⟩ : Motion K)) = st.xd_i := by
    conv_rhs => rw [hxdi]
    unfold Positional.integrateXdv
    apply tab_congr
    intro i hi
    rw [hxdi, nth_tab _ hi]
    simp only [smul_zero', v3_add_zero]
  have hnorm : st.x_i.map (fun t => (⟨t.pos, normalize4 t.rot⟩ : Tf K)) = st.x_i := by
    conv_rhs => rw [← List.map_id st.x_i]
    apply List.map_congr_left
    intro t ht
    obtain ⟨i, hi, rfl⟩ := List.mem_iff_getElem.mp ht
    have hu := hxiunit i (by rw [← hxilen]; exact hi)
    have hnth : nth st.x_i i = st.x_i[i] := by
      simp only [nth, List.getD_eq_getElem?_getD, List.getElem?_eq_getElem hi]; rfl
    rw [hnth] at hu
    rw [normalize4_unit' _ hsqrt hu]
    rfl
  -- put the step together
  unfold Positional.step
  simp only [hxdd, hint, htw, hst1, hpu, hcf, Positional.resolvePosition, Positional.resolveVelocity,
    List.isEmpty_nil, if_true, hnorm, hproj, hxdv, hc.hj, hc.hjd, hc.hap, hc.hac, hc.hinv]

end state

/-! ## system level: the state `pipeline.init(sys, q, 0)` -/

/-- `C04I.spring_init_rest` with `s.acts = []` weakened to zero actuator torque at `(q, 0)` -/
theorem spring_init_rest_tau (inv : List (Tf ℝ) → List (Motion ℝ) → List ℝ × List ℝ)
    (cf : List (Tf ℝ) → List (Contact ℝ)) (s : Sys ℝ) (q act : List ℝ) (h : InitOK s q)
    (hg : s.gravity = 0) (htau : toTau s act q (List.replicate s.nv 0) = List.replicate s.nv 0) (hcf : cf (initX s q) = [])
    (hinv : inv ((worldToJoint s (initX s q) (initXd s q)).map (·.1))
        ((worldToJoint s (initX s q) (initXd s q)).map (·.2.1)) = (q, List.replicate s.nv 0)) :
    Spring.step inv cf s (Spring.init s q (List.replicate s.nv 0)) act
      = Spring.init s q (List.replicate s.nv 0) := by
  have hFlen := forward_length' s q h.tree h.unitJ
  obtain ⟨hWlen, hW⟩ := w2j_rest s q h.tree h.unitJ
  apply spring_rest_of_zero_tau inv cf s _ act
  · exact ⟨by rw [init_x]; simp [initX, hFlen, Sys.numLinks],
      by rw [init_xd]; simp [initXd, hFlen, Sys.numLinks], rfl, rfl, rfl, rfl, rfl, hinv, rfl⟩
  · exact hg
  · exact Real.sqrt_one
  · exact h.tree.hpar
  · exact htau
  · intro i hi; rw [init_xd]; exact (init_pose_rest s q h i hi).2
  · intro i hi; rw [init_x]; exact (init_pose_rest s q h i hi).1
  · exact hcf
  · intro i hi
    obtain ⟨l, a_p, a_c, hl, hw⟩ := hW i hi
    have hj : nth (Spring.init s q (List.replicate s.nv 0)).j i = (jcalc l).1 :=
      nth_map_of_getElem? _ _ i _ hw
    have hjd : nth (Spring.init s q (List.replicate s.nv 0)).jd i = zM :=
      nth_map_of_getElem? _ _ i _ hw
    unfold Spring.jointForces
    rw [nth_tab _ hi, hj, hjd]
    cases hl' : (linkSlices s.types ([] : List ℝ) (List.replicate s.nv 0) s.dofs)[i]? with
    | none => rfl
    | some l' =>
      obtain ⟨h1, h2, h3⟩ := linkSlices_same s.types q [] _ s.dofs i l l' hl hl'
      exact jointForce_restKind _ _ l l' (h.kind l (List.mem_of_getElem? hl)) h1 h3 h2
        (slices_qd_zero _ _ _ _ l (List.mem_of_getElem? hl))

/-- `C04I.positional_init_rest_of` with `s.acts = []` weakened to zero actuator torque at `(q, 0)` -/
theorem positional_init_rest_of_tau (inv : List (Tf ℝ) → List (Motion ℝ) → List ℝ × List ℝ)
    (cf : List (Tf ℝ) → List (Contact ℝ)) (s : Sys ℝ) (q act : List ℝ) (h : InitOK s q)
    (hpos : ∀ l ∈ ins s q, PosZero s.hasLimit l)
    (hg : s.gravity = 0) (htau : toTau s act q (List.replicate s.nv 0) = List.replicate s.nv 0) (hdt : s.dt ≠ 0) (hcf : ∀ x, cf x = [])
    (hinv : inv ((worldToJoint s (initX s q) (initXd s q)).map (·.1))
        ((worldToJoint s (initX s q) (initXd s q)).map (·.2.1)) = (q, List.replicate s.nv 0)) :
    Positional.step inv cf s (Positional.init s q (List.replicate s.nv 0)) act
      = Positional.init s q (List.replicate s.nv 0) := by
  have hFlen := forward_length' s q h.tree h.unitJ
  obtain ⟨hWlen, hW⟩ := w2j_rest s q h.tree h.unitJ
  have hjd : ∀ i, i < s.numLinks →
      nth (Positional.init s q (List.replicate s.nv 0)).jd i = ⟨⟨0, 0, 0⟩, ⟨0, 0, 0⟩⟩ := by
    intro i hi
    obtain ⟨l, a_p, a_c, hl, hw⟩ := hW i hi
    exact nth_map_of_getElem? _ _ i _ hw
  apply positional_rest_of_zero_tau inv cf s _ act
  · exact ⟨by rw [pinit_x]; simp [initX, hFlen, Sys.numLinks],
      by rw [pinit_xd]; simp [initXd, hFlen, Sys.numLinks], rfl, rfl, rfl, rfl, rfl, hinv⟩
  · exact hg
  · exact Real.sqrt_one
  · exact h.tree.hpar
  · exact htau
  · exact hdt
  · intro i hi; rw [pinit_xd]; exact (init_pose_rest s q h i hi).2
  · intro i hi; rw [pinit_x]; exact (init_pose_rest s q h i hi).1
  · exact hcf
  · intro i hi; exact posJointForces_zero s _ hjd hi
  · intro i hi
    obtain ⟨l, a_p, a_c, hl, hw⟩ := hW i hi
    have hj : nth (Positional.init s q (List.replicate s.nv 0)).j i = (jcalc l).1 :=
      nth_map_of_getElem? _ _ i _ hw
    unfold Positional.jointDisplacements
    rw [nth_tab _ hi]
    cases hl' : (linkSlices s.types ([] : List ℝ) [] s.dofs)[i]? with
    | none => rfl
    | some l' =>
      obtain ⟨h1, h3⟩ := linkSlices_same' s.types q [] _ [] s.dofs i l l' hl hl'
      simp only
      rcases hpos l (List.mem_of_getElem? hl) with hf | hz
      · have hb : (LinkType.free != LinkType.free) = false := rfl
        simp only [h1, hf, hb, maskV_false, Inv.rotate_zero]
        rfl
      · rw [hj, hz l' h1 h3]
        simp only [maskV_zero_lit, Inv.rotate_zero]
        rfl

theorem spring_init_rest_inverse_tau (cf : List (Tf ℝ) → List (Contact ℝ)) (s : Sys ℝ) (q act : List ℝ)
    (h : InitOK s q) (hq : q.length = s.nq) (hg : s.gravity = 0)
    (htau : toTau s act q (List.replicate s.nv 0) = List.replicate s.nv 0)
    (hcf : cf (initX s q) = []) :
    Spring.step (invModel s) cf s (Spring.init s q (List.replicate s.nv 0)) act
      = Spring.init s q (List.replicate s.nv 0) :=
  spring_init_rest_tau (invModel s) cf s q act h hg htau hcf (by
    unfold invModel; rw [inverse_init s q h hq]; rfl)

theorem positional_init_rest_tau (inv : List (Tf ℝ) → List (Motion ℝ) → List ℝ × List ℝ)
    (cf : List (Tf ℝ) → List (Contact ℝ)) (s : Sys ℝ) (q act : List ℝ) (h : InitOK s q)
    (hmid : ∀ l ∈ ins s q, StackMid l)
    (hg : s.gravity = 0) (htau : toTau s act q (List.replicate s.nv 0) = List.replicate s.nv 0)
    (hdt : s.dt ≠ 0) (hcf : ∀ x, cf x = [])
    (hinv : inv ((worldToJoint s (initX s q) (initXd s q)).map (·.1))
        ((worldToJoint s (initX s q) (initXd s q)).map (·.2.1)) = (q, List.replicate s.nv 0)) :
    Positional.step inv cf s (Positional.init s q (List.replicate s.nv 0)) act
      = Positional.init s q (List.replicate s.nv 0) :=
  positional_init_rest_of_tau inv cf s q act h
    (fun l hl => posZero_restKind s.hasLimit l (h.kind l hl) (hmid l hl)) hg htau hdt hcf hinv

theorem positional_init_rest_inverse_tau (cf : List (Tf ℝ) → List (Contact ℝ)) (s : Sys ℝ)
    (q act : List ℝ) (h : InitOK s q) (hmid : ∀ l ∈ ins s q, StackMid l) (hq : q.length = s.nq)
    (hg : s.gravity = 0) (htau : toTau s act q (List.replicate s.nv 0) = List.replicate s.nv 0)
    (hdt : s.dt ≠ 0) (hcf : ∀ x, cf x = []) :
    Positional.step (invModel s) cf s (Positional.init s q (List.replicate s.nv 0)) act
      = Positional.init s q (List.replicate s.nv 0) :=
  positional_init_rest_tau (invModel s) cf s q act h hmid hg htau hdt hcf (by
    unfold invModel; rw [inverse_init s q h hq]; rfl)

end Brax.C04T
