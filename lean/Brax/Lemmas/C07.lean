import Brax.Model.C07
import Brax.Lemmas.C15
/-!
# C07 — helper lemmas (lists, `zw3`, nested arrays)
-/
set_option linter.unusedSectionVars false
set_option linter.unusedVariables false
namespace Brax.C07
open Brax.C15 (zw3 where3 whereDoneRows)

/-! ## lists -/

theorem zipWith_map_self {α β γ : Type} (f : β → α → γ) (g : α → β) (l : List α) :
    List.zipWith f (l.map g) l = l.map fun x => f (g x) x := by
  induction l with
  | nil => rfl
  | cons x xs ih => simp only [List.map_cons, List.zipWith_cons_cons, ih]

theorem zipWith_self_map {α β γ : Type} (f : α → β → γ) (g : α → β) (l : List α) :
    List.zipWith f l (l.map g) = l.map fun x => f x (g x) := by
  induction l with
  | nil => rfl
  | cons x xs ih => simp only [List.map_cons, List.zipWith_cons_cons, ih]

theorem zipWith_map_map' {ι α β γ : Type} (f : α → β → γ) (g₁ : ι → α) (g₂ : ι → β) (l : List ι) :
    List.zipWith f (l.map g₁) (l.map g₂) = l.map fun x => f (g₁ x) (g₂ x) := by
  induction l with
  | nil => rfl
  | cons x xs ih => simp only [List.map_cons, List.zipWith_cons_cons, ih]

theorem zw3_getElem? {α β γ δ : Type} (f : α → β → γ → δ) (a : List α) (b : List β) (c : List γ)
    (i : Nat) :
    (zw3 f a b c)[i]? = (match a[i]?, b[i]?, c[i]? with
      | some x, some y, some z => some (f x y z)
      | _, _, _ => none) := by
  induction a generalizing b c i with
  | nil => simp [zw3]
  | cons x xs ih =>
    cases b with
    | nil => simp [zw3]
    | cons y ys =>
      cases c with
      | nil =>
        simp only [zw3, List.getElem?_nil]
        split <;> simp_all
      | cons z zs =>
        cases i with
        | zero => simp [zw3]
        | succ j => simp only [zw3, List.getElem?_cons_succ, ih]

/-! ## nested arrays -/

theorem allRel_length {α β : Type} {p : α → β → Prop} :
    ∀ {x : List α} {y : List β}, AllRel p x y → x.length = y.length
  | [], [], _ => rfl
  | _ :: _, _ :: _, h => by simp only [List.length_cons, allRel_length h.2]
  | [], _ :: _, h => h.elim
  | _ :: _, [], h => h.elim

theorem allRel_getElem? {α β : Type} {p : α → β → Prop} :
    ∀ {x : List α} {y : List β}, AllRel p x y → ∀ (i : Nat) (a : α) (b : β),
      x[i]? = some a → y[i]? = some b → p a b
  | [], [], _, i, a, b, ha, _ => by simp at ha
  | x :: xs, y :: ys, h, 0, a, b, ha, hb => by
    simp only [List.getElem?_cons_zero, Option.some.injEq] at ha hb
    subst ha; subst hb; exact h.1
  | x :: xs, y :: ys, h, i + 1, a, b, ha, hb => by
    simp only [List.getElem?_cons_succ] at ha hb
    exact allRel_getElem? h.2 i a b ha hb
  | [], _ :: _, h, _, _, _, _, _ => h.elim
  | _ :: _, [], h, _, _, _, _, _ => h.elim

/-- a mask that is one flag reshaped to `[1, …, 1]`, broadcast against `x` and used in an
element-wise `where` on arrays of equal shape, selects all of `x` or all of `y` -/
theorem whereT_single {α : Type} : ∀ (k : Nat) (b : Bool) (x y : Tensor α k), SameShape k x y →
    whereT k (bcastLike k (single k b) x) x y = if b then x else y
  | 0, b, x, y, _ => rfl
  | k + 1, b, x, y, h => by
    show zw3 (whereT k) (List.map (bcastLike k (single k b)) x) x y = if b then x else y
    have key : ∀ (x y : List (Tensor α k)), AllRel (SameShape k) x y →
        zw3 (whereT k) (List.map (bcastLike k (single k b)) x) x y = if b then x else y := by
      intro x
      induction x with
      | nil =>
        intro y hy
        cases y with
        | nil => cases b <;> rfl
        | cons _ _ => exact hy.elim
      | cons x0 xs ih =>
        intro y hy
        cases y with
        | nil => exact hy.elim
        | cons y0 ys =>
          simp only [List.map_cons, zw3, whereT_single k b x0 y0 hy.1, ih ys hy.2]
          cases b <;> rfl
    exact key x y h

/-- at the leading axis a `[B, 1, …, 1]` mask goes together with the `B` members of `x` -/
theorem bcastLike_lead {α : Type} (k : Nat) (d : List Bool) (x : List (Tensor α k))
    (hd : d.length = x.length) :
    bcastLike (α := α) (k + 1) (d.map (single k)) x
      = List.zipWith (bcastLike k) (d.map (single k)) x := by
  match d, x, hd with
  | [], x, _ => rfl
  | [d0], [x0], _ => rfl
  | d0 :: d1 :: ds, x, _ => rfl

theorem zw3_whereT_rows {α : Type} (k : Nat) : ∀ (d : List Bool) (x y : List (Tensor α k)),
    AllRel (SameShape k) x y →
    zw3 (whereT k) (List.zipWith (bcastLike k) (d.map (single k)) x) x y = selectMember d x y
  | [], x, y, _ => by simp [selectMember, zw3]
  | d0 :: ds, [], y, _ => by simp [selectMember, zw3]
  | d0 :: ds, x0 :: xs, [], h => h.elim
  | d0 :: ds, x0 :: xs, y0 :: ys, h => by
    simp only [List.map_cons, List.zipWith_cons_cons, zw3, selectMember,
      whereT_single k d0 x0 y0 h.1]
    congr 1
    exact zw3_whereT_rows k ds xs ys h.2

/-! ## C15's `[B, n]` broadcast is the rank-1 case -/

theorem where3_eq_whereT1 {α : Type} (c : List Bool) (x y : List α) :
    where3 c x y = whereT (α := α) 1 c x y := rfl

theorem bcastLike_row {α : Type} (b : Bool) (xi : List α) :
    bcastLike (α := α) 1 (single 1 b) xi = List.replicate xi.length b := by
  show List.map (bcastLike (α := α) 0 b) xi = _
  induction xi with
  | nil => rfl
  | cons a as ih => simp only [List.map_cons, List.length_cons, List.replicate_succ, ih]; rfl

end Brax.C07
