import Brax.Model.C06Solver
import Brax.Lemmas.C06
/-!
# C06 (deepening) — lemmas about the solver model `Brax/Model/C06Solver.lean`

* `pgSolve_nonneg`  : every entry of `pgSolve a b maxiter tol eps maxls` is `≥ 0` — for every `a`, `b` (any shapes),
  iteration bound, tolerance, `eps`, line-search bound, and ANY interpretation of `sqrt`: whatever the line search and
  the stopping rule decide, the returned point is either the initial point `zeros` or the output of `relu`.
* `pgSolve_length`  : the result has one entry per row (`b.length`).
* `pgSolve_zero_of_grad_nonneg` : if the gradient of the objective at `0` (`= aᵀ(a·0 + b)`) is `≥ 0` componentwise the
  solver returns exactly `0` (every iterate and every velocity is `0`; the stepsize stays positive); corollaries
  `pgSolve_zero_of_b_zero` (`b = 0`) and `grad_zero_eq` (the gradient at `0` is `b @ a` when `a` has `b.length` rows).

Over an arbitrary ordered field `K`.
-/
set_option linter.unusedSectionVars false
set_option linter.unusedSimpArgs false
set_option linter.unusedVariables false
namespace Brax.C06L
open Brax MC C04L C06

section solver
variable {K : Type} [Field K] [LinearOrder K] [IsStrictOrderedRing K] [HasSqrt K]

/-- entrywise `≥ 0` -/
def NonnegL (l : List K) : Prop := ∀ v ∈ l, 0 ≤ v

/-! ## nonnegativity -/

theorem relu_nonneg (x : K) : 0 ≤ relu x := by
  unfold relu maxv
  split
  · exact le_refl 0
  · rename_i h; exact not_lt.mp h

theorem relu_of_nonpos {x : K} (h : x ≤ 0) : relu x = 0 := by
  unfold relu maxv
  split
  · rfl
  · rename_i h'; exact le_antisymm h (not_lt.mp h')

theorem proxGrad_nonneg (x g : List K) (s : K) : NonnegL (proxGrad x g s) := by
  intro v hv
  unfold proxGrad at hv
  obtain ⟨u, _, rfl⟩ := List.mem_map.mp hv
  exact relu_nonneg u

theorem lsLoop_nonneg (a : List (List K)) (b y : List K) (fy : K) (g : List K) (eps : K) (fuel : Nat)
    (p : List K × K) (hp : NonnegL p.1) : NonnegL (lsLoop a b y fy g eps fuel p).1 := by
  induction fuel generalizing p with
  | zero => exact hp
  | succ n ih =>
    unfold lsLoop
    split
    · exact ih _ (proxGrad_nonneg _ _ _)
    · exact hp

theorem lineSearch_nonneg (a : List (List K)) (b y : List K) (fy : K) (g : List K) (eps : K)
    (maxls : Nat) (s : K) : NonnegL (lineSearch a b y fy g eps maxls s).1 :=
  lsLoop_nonneg a b y fy g eps maxls _ (proxGrad_nonneg _ _ _)

theorem update_x_nonneg (a : List (List K)) (b : List K) (eps : K) (maxls : Nat) (st : PGState K) :
    NonnegL (update a b eps maxls st).x :=
  lineSearch_nonneg a b _ _ _ eps maxls _

theorem iterate_x_nonneg (a : List (List K)) (b : List K) (tol eps : K) (maxls fuel : Nat)
    (st : PGState K) (h : NonnegL st.x) : NonnegL (iterate a b tol eps maxls fuel st).x := by
  induction fuel generalizing st with
  | zero => exact h
  | succ n ih =>
    unfold iterate
    split
    · exact ih _ (update_x_nonneg a b eps maxls st)
    · exact h

theorem initState_x_nonneg (b : List K) : NonnegL (initState b).x := by
  intro v hv
  exact le_of_eq (List.mem_replicate.mp hv).2.symm

/-- **the solver returns `x ≥ 0`** -/
theorem pgSolve_nonneg (a : List (List K)) (b : List K) (maxiter : Nat) (tol eps : K) (maxls : Nat) :
    ∀ v ∈ pgSolve a b maxiter tol eps maxls, 0 ≤ v := by
  unfold pgSolve pgRun
  split
  · exact initState_x_nonneg b
  · exact iterate_x_nonneg a b tol eps maxls _ _ (update_x_nonneg a b eps maxls _)

/-! ## length -/

theorem vecMat_length (n : Nat) (r : List K) (m : List (List K)) : (vecMat n r m).length = n := by
  unfold vecMat; exact tab_length n _

theorem grad_length (a : List (List K)) (b x : List K) : (grad a b x).length = b.length :=
  vecMat_length _ _ _

theorem proxGrad_length (x g : List K) (s : K) :
    (proxGrad x g s).length = min x.length g.length := by
  unfold proxGrad; simp

theorem lsLoop_length (a : List (List K)) (b y : List K) (fy : K) (g : List K) (eps : K) (fuel n : Nat)
    (p : List K × K) (hy : y.length = n) (hg : g.length = n) (hp : p.1.length = n) :
    (lsLoop a b y fy g eps fuel p).1.length = n := by
  induction fuel generalizing p with
  | zero => exact hp
  | succ k ih =>
    unfold lsLoop
    split
    · apply ih
      unfold lsBody
      simp only [proxGrad_length, hy, hg, Nat.min_self]
    · exact hp

/-- shape invariant of the solver state: `params` and `velocity` have one entry per row -/
def Shaped (n : Nat) (st : PGState K) : Prop := st.x.length = n ∧ st.velocity.length = n

theorem update_shaped (a : List (List K)) (b : List K) (eps : K) (maxls : Nat) (st : PGState K)
    (h : Shaped b.length st) : Shaped b.length (update a b eps maxls st) := by
  obtain ⟨hx, hy⟩ := h
  have hx' : (update a b eps maxls st).x.length = b.length := by
    unfold update lineSearch
    exact lsLoop_length a b _ _ _ eps maxls b.length _ hy (grad_length a b _)
      (by simp only [proxGrad_length, hy, grad_length, Nat.min_self])
  refine ⟨hx', ?_⟩
  have e : (update a b eps maxls st).velocity.length
      = min (update a b eps maxls st).x.length
          (min (update a b eps maxls st).x.length st.x.length) := by
    unfold update vsub
    simp only [List.length_zipWith]
  rw [e, hx', hx, Nat.min_self, Nat.min_self]

theorem iterate_shaped (a : List (List K)) (b : List K) (tol eps : K) (maxls fuel : Nat)
    (st : PGState K) (h : Shaped b.length st) :
    Shaped b.length (iterate a b tol eps maxls fuel st) := by
  induction fuel generalizing st with
  | zero => exact h
  | succ n ih =>
    unfold iterate
    split
    · exact ih _ (update_shaped a b eps maxls st h)
    · exact h

theorem initState_shaped (b : List K) : Shaped b.length (initState b) := by
  unfold Shaped initState; simp

/-- one multiplier per constraint row -/
theorem pgSolve_length (a : List (List K)) (b : List K) (maxiter : Nat) (tol eps : K) (maxls : Nat) :
    (pgSolve a b maxiter tol eps maxls).length = b.length := by
  unfold pgSolve pgRun
  split
  · exact (initState_shaped b).1
  · exact (iterate_shaped a b tol eps maxls _ _
      (update_shaped a b eps maxls _ (initState_shaped b))).1

/-! ## the solver returns exactly `0` when the gradient at `0` points outwards -/

theorem proxGrad_zero (g : List K) (s : K) (hg : NonnegL g) (hs : 0 ≤ s) :
    proxGrad (List.replicate g.length 0) g s = List.replicate g.length 0 := by
  unfold proxGrad
  induction g with
  | nil => rfl
  | cons x g ih =>
    have hx : 0 ≤ x := hg x (by simp)
    have h1 : relu (0 + -s * x) = 0 := by
      apply relu_of_nonpos
      have : 0 ≤ s * x := mul_nonneg hs hx
      linarith
    simp only [List.length_cons, List.replicate_succ, List.zipWith_cons_cons, List.map_cons, h1]
    rw [ih (fun v hv => hg v (List.mem_cons_of_mem _ hv))]

theorem vsub_self_zero (n : Nat) :
    vsub (List.replicate n (0 : K)) (List.replicate n 0) = List.replicate n 0 := by
  unfold vsub
  induction n with
  | zero => rfl
  | succ k ih => simp only [List.replicate_succ, List.zipWith_cons_cons, sub_zero, ih]

theorem axpy_zero (n : Nat) (c : K) :
    List.zipWith (fun xi di => xi + c * di) (List.replicate n (0 : K)) (List.replicate n 0)
      = List.replicate n 0 := by
  induction n with
  | zero => rfl
  | succ k ih => simp only [List.replicate_succ, List.zipWith_cons_cons, mul_zero, add_zero, ih]

theorem nextStepsize_pos {s : K} (hs : 0 < s) : 0 < nextStepsize s := by
  unfold nextStepsize
  split
  · norm_num
  · exact div_pos hs (by norm_num)

/-- invariant of the line search started at `y = 0` with an outward gradient: the candidate stays `0`
and the stepsize stays positive (whatever the sufficient-decrease test says) -/
theorem lsLoop_zero (a : List (List K)) (b : List K) (fy : K) (g : List K) (eps : K) (fuel : Nat)
    (p : List K × K) (hg : NonnegL g) (hp1 : p.1 = List.replicate g.length 0) (hp2 : 0 < p.2) :
    (lsLoop a b (List.replicate g.length 0) fy g eps fuel p).1 = List.replicate g.length 0
    ∧ 0 < (lsLoop a b (List.replicate g.length 0) fy g eps fuel p).2 := by
  induction fuel generalizing p with
  | zero => exact ⟨hp1, hp2⟩
  | succ n ih =>
    unfold lsLoop
    split
    · have hs : 0 < p.2 * 0.5 := mul_pos hp2 (by norm_num)
      exact ih _ (proxGrad_zero g _ hg (le_of_lt hs)) hs
    · exact ⟨hp1, hp2⟩

/-- the state in which nothing has moved: `params = velocity = 0`, positive stepsize -/
def AtZero (n : Nat) (st : PGState K) : Prop :=
  st.x = List.replicate n 0 ∧ st.velocity = List.replicate n 0 ∧ 0 < st.stepsize

theorem update_atZero (a : List (List K)) (b : List K) (eps : K) (maxls : Nat) (st : PGState K)
    (hg : NonnegL (grad a b (List.replicate b.length 0))) (h : AtZero b.length st) :
    AtZero b.length (update a b eps maxls st) := by
  obtain ⟨hx, hy, hs⟩ := h
  have hlen : (grad a b (List.replicate b.length 0)).length = b.length := grad_length a b _
  have hls := lsLoop_zero a b (objective a b (List.replicate b.length 0))
    (grad a b (List.replicate b.length 0)) eps maxls
    (proxGrad (List.replicate b.length 0) (grad a b (List.replicate b.length 0)) st.stepsize,
      st.stepsize) hg
    (by
      have := proxGrad_zero (grad a b (List.replicate b.length 0)) st.stepsize hg (le_of_lt hs)
      rw [hlen] at this
      simpa [hlen] using this)
    hs
  rw [hlen] at hls
  have hx' : (update a b eps maxls st).x = List.replicate b.length 0 := by
    unfold update lineSearch
    rw [hy]
    exact hls.1
  have hs' : 0 < (update a b eps maxls st).stepsize := by
    unfold update lineSearch
    rw [hy]
    exact nextStepsize_pos hls.2
  refine ⟨hx', ?_, hs'⟩
  have e : (update a b eps maxls st).velocity
      = List.zipWith (fun xi di => xi + ((st.t - 1) / (0.5 * (1 + HasSqrt.sqrt (1 + 4.0 * (st.t * st.t))))) * di)
          (update a b eps maxls st).x (vsub (update a b eps maxls st).x st.x) := by
    unfold update
    rfl
  rw [e, hx', hx, vsub_self_zero, axpy_zero]

theorem iterate_atZero (a : List (List K)) (b : List K) (tol eps : K) (maxls fuel : Nat)
    (st : PGState K) (hg : NonnegL (grad a b (List.replicate b.length 0)))
    (h : AtZero b.length st) : AtZero b.length (iterate a b tol eps maxls fuel st) := by
  induction fuel generalizing st with
  | zero => exact h
  | succ n ih =>
    unfold iterate
    split
    · exact ih _ (update_atZero a b eps maxls st hg h)
    · exact h

theorem initState_atZero (b : List K) : AtZero b.length (initState b) := by
  refine ⟨rfl, rfl, ?_⟩
  show (0 : K) < 1.0
  norm_num

/-- **inactive ⇒ zero multipliers.**  When the gradient of the objective at the initial point `0` is
componentwise `≥ 0` (moving into the feasible set `x ≥ 0` cannot decrease the objective to first
order) the solver returns exactly `0` — for every iteration bound, tolerance, `eps`, line-search
bound. -/
theorem pgSolve_zero_of_grad_nonneg (a : List (List K)) (b : List K) (maxiter : Nat) (tol eps : K)
    (maxls : Nat) (hg : ∀ v ∈ grad a b (List.replicate b.length 0), 0 ≤ v) :
    pgSolve a b maxiter tol eps maxls = List.replicate b.length 0 := by
  unfold pgSolve pgRun
  split
  · rfl
  · exact (iterate_atZero a b tol eps maxls _ _ hg
      (update_atZero a b eps maxls _ hg (initState_atZero b))).1

/-! ## what the gradient at `0` is -/

theorem sum_zipWith_zero_right {β γ : Type} (f : β → γ → K) (l : List β) (x : List γ)
    (h : ∀ c ∈ x, ∀ b, f b c = 0) : (List.zipWith f l x).sum = 0 := by
  induction l generalizing x with
  | nil => simp
  | cons b l ih =>
    cases x with
    | nil => simp
    | cons c x =>
      simp only [List.zipWith_cons_cons, List.sum_cons]
      rw [h c (by simp) b, ih x (fun c' hc' => h c' (List.mem_cons_of_mem _ hc')), add_zero]

theorem dotL_zeros (r : List K) (n : Nat) : dotL r (List.replicate n 0) = 0 := by
  unfold dotL
  apply sum_zipWith_zero_right
  intro c hc b
  rw [(List.mem_replicate.mp hc).2, mul_zero]

/-- `a @ 0 + b = b` when `a` has (at least) one row per entry of `b` -/
theorem residual_zero (a : List (List K)) (b : List K) (n : Nat) (h : b.length ≤ a.length) :
    C06.residual a b (List.replicate n 0) = b := by
  unfold C06.residual
  induction a generalizing b with
  | nil =>
    cases b with
    | nil => rfl
    | cons x b => simp at h
  | cons r a ih =>
    cases b with
    | nil => simp
    | cons x b =>
      have hb : b.length ≤ a.length := by simpa using h
      have := ih b hb
      simp only [dotL_zeros] at this
      simp only [List.map_cons, List.zipWith_cons_cons, dotL_zeros, zero_add, this]

/-- the hypothesis of `pgSolve_zero_of_grad_nonneg` in matrix form: the gradient at `0` is `b @ a = aᵀ b` -/
theorem grad_zero_eq (a : List (List K)) (b : List K) (h : b.length ≤ a.length) :
    grad a b (List.replicate b.length 0) = vecMat b.length b a := by
  unfold grad
  rw [residual_zero a b _ h]

theorem allZero_zipWith_add (l1 l2 : List K) (h1 : ∀ e ∈ l1, e = 0) (h2 : ∀ e ∈ l2, e = 0) :
    ∀ e ∈ List.zipWith (· + ·) l1 l2, e = 0 := by
  induction l1 generalizing l2 with
  | nil => simp
  | cons x l1 ih =>
    cases l2 with
    | nil => simp
    | cons y l2 =>
      intro e he
      simp only [List.zipWith_cons_cons, List.mem_cons] at he
      rcases he with rfl | he
      · rw [h1 x (by simp), h2 y (by simp), add_zero]
      · exact ih l2 (fun e he => h1 e (List.mem_cons_of_mem _ he))
          (fun e he => h2 e (List.mem_cons_of_mem _ he)) e he

/-- `b = 0` (any shape of `a`): the gradient at `0` vanishes -/
theorem grad_zero_of_b_zero (a : List (List K)) (b : List K) (hb : ∀ e ∈ b, e = 0) :
    ∀ v ∈ grad a b (List.replicate b.length 0), v = 0 := by
  have hr : ∀ e ∈ C06.residual a b (List.replicate b.length 0), e = 0 := by
    unfold C06.residual
    apply allZero_zipWith_add _ _ _ hb
    intro e he
    obtain ⟨r, _, rfl⟩ := List.mem_map.mp he
    exact dotL_zeros r _
  intro v hv
  unfold grad vecMat tab at hv
  obtain ⟨j, _, rfl⟩ := List.mem_map.mp hv
  apply sum_zipWith_zero
  intro ri hri c
  rw [hr ri hri, zero_mul]

/-- `b = 0` ⇒ the solver returns `0` -/
theorem pgSolve_zero_of_b_zero (a : List (List K)) (b : List K) (maxiter : Nat) (tol eps : K)
    (maxls : Nat) (hb : ∀ e ∈ b, e = 0) :
    pgSolve a b maxiter tol eps maxls = List.replicate b.length 0 :=
  pgSolve_zero_of_grad_nonneg a b maxiter tol eps maxls
    (fun v hv => le_of_eq (grad_zero_of_b_zero a b hb v hv).symm)

/-! ## `b = 0` for inactive rows of `constraint.force` -/

theorem dotL_allZero_left (r v : List K) (h : ∀ e ∈ r, e = 0) : dotL r v = 0 := by
  unfold dotL
  apply sum_zipWith_zero
  intro e he c
  rw [h e he, zero_mul]

theorem vecMat_allZero (n : Nat) (r : List K) (m : List (List K)) (h : ∀ e ∈ r, e = 0) :
    ∀ e ∈ vecMat n r m, e = 0 := by
  intro e he
  unfold vecMat tab at he
  obtain ⟨j, _, rfl⟩ := List.mem_map.mp he
  apply sum_zipWith_zero
  intro ri hri c
  rw [h ri hri, zero_mul]

/-- the `b` that `force` hands to the solver vanishes when every jacobian row and every `aref` is zero -/
theorem forceAb_b_zero (nv : Nat) (jac : List (List K)) (diag aref : List K) (minv : List (List K))
    (qfs : List K) (hj : ∀ row ∈ jac, ∀ e ∈ row, e = 0) (ha : ∀ e ∈ aref, e = 0) :
    ∀ e ∈ (forceAb nv jac diag aref minv qfs).2, e = 0 := by
  intro e he
  unfold forceAb tab at he
  simp only at he
  obtain ⟨i, _, rfl⟩ := List.mem_map.mp he
  have h1 : ∀ e ∈ (jac.map fun r => vecMat nv r minv).getD i [], e = 0 := by
    intro e he
    rw [List.getD_eq_getElem?_getD] at he
    cases hi : (jac.map fun r => vecMat nv r minv)[i]? with
    | none => rw [hi] at he; simp at he
    | some row =>
      rw [hi] at he
      have hm := List.mem_of_getElem? hi
      obtain ⟨r, hr, rfl⟩ := List.mem_map.mp hm
      exact vecMat_allZero nv r minv (hj r hr) e he
  rw [dotL_allZero_left _ _ h1, getD_zero_of_all_zero aref i ha, sub_zero]

end solver
end Brax.C06L
