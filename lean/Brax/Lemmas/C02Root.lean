import Brax.Lemmas.C02Compose
/-!
# C02 helper lemmas: per-tree centre of mass — `segment_sum` over the root index (brax) equals the
backward subtree accumulation read at the root body (MuJoCo)
-/
set_option linter.unusedSectionVars false
set_option linter.unusedSimpArgs false
namespace Brax.Gd
open Brax Kin

/-! ## `segSum` over an abstract commutative monoid `(M, add, z)` -/
section seg
variable {M : Type} (add : M → M → M) (z : M)

structure CMon : Prop where
  assoc : ∀ a b c, add (add a b) c = add a (add b c)
  comm : ∀ a b, add a b = add b a
  zero : ∀ a, add a z = a

variable {add z}

theorem CMon.zero_left (h : CMon add z) (a : M) : add z a = a := by rw [h.comm, h.zero]

theorem foldr_add_init (h : CMon add z) (l : List (M × Nat)) (b : M) :
    l.foldr (fun p acc => add p.1 acc) b = add (l.foldr (fun p acc => add p.1 acc) z) b := by
  induction l with
  | nil => simp only [List.foldr]; rw [h.zero_left]
  | cons x l ih => simp only [List.foldr]; rw [ih, h.assoc]

/-- appending one (value, id) pair -/
theorem segSum_snoc (h : CMon add z) (vals : List M) (ids : List Nat) (v : M) (i k : Nat)
    (hlen : vals.length = ids.length) :
    segSum z add (vals ++ [v]) (ids ++ [i]) k
      = add (segSum z add vals ids k) (if i = k then v else z) := by
  unfold segSum
  rw [List.zip_append hlen, List.filter_append, List.foldr_append]
  by_cases hik : i = k
  · subst hik
    simp only [List.zip_cons_cons, List.zip_nil_right, List.filter_cons, beq_self_eq_true, if_true,
      List.filter_nil, List.foldr]
    rw [foldr_add_init h, h.zero]
  · have hb : (i == k) = false := by rw [beq_eq_false_iff_ne]; exact hik
    simp only [List.zip_cons_cons, List.zip_nil_right, List.filter_cons, hb, Bool.false_eq_true,
      if_false, List.filter_nil, List.foldr, hik]
    rw [h.zero]

/-- no id matches -/
theorem segSum_none (vals : List M) (ids : List Nat) (k : Nat) (hne : ∀ i ∈ ids, i ≠ k) :
    segSum z add vals ids k = z := by
  unfold segSum
  have : (vals.zip ids).filter (fun p => p.2 == k) = [] := by
    rw [List.filter_eq_nil_iff]
    intro p hp
    have := hne p.2 (List.of_mem_zip hp).2
    simp [this]
  rw [this]; rfl

/-- adding `v` to entry `p` -/
theorem segSum_modify (h : CMon add z) : ∀ (vals : List M) (ids : List Nat) (p : Nat) (v : M) (k : Nat),
    p < vals.length → vals.length = ids.length →
    segSum z add (vals.modify p (fun x => add x v)) ids k
      = add (segSum z add vals ids k) (if ids.getD p 0 = k then v else z)
  | [], _, _, _, _, hp, _ => by simp at hp
  | _ :: _, [], _, _, _, _, hlen => by simp at hlen
  | x :: vals, i :: ids, 0, v, k, _, _ => by
    unfold segSum
    simp only [List.modify_zero_cons, List.zip_cons_cons, List.filter_cons, List.getD_cons_zero]
    by_cases hik : i = k
    · subst hik
      simp only [beq_self_eq_true, if_true, List.foldr]
      rw [h.assoc, h.comm v, ← h.assoc]
    · have hb : (i == k) = false := by rw [beq_eq_false_iff_ne]; exact hik
      simp only [hb, Bool.false_eq_true, if_false, hik]
      rw [h.zero]
  | x :: vals, i :: ids, p + 1, v, k, hp, hlen => by
    have ih := segSum_modify h vals ids p v k (by simpa using hp) (by simpa using hlen)
    unfold segSum at ih ⊢
    simp only [List.modify_succ_cons, List.zip_cons_cons, List.filter_cons, List.getD_cons_succ]
    by_cases hik : i = k
    · subst hik
      simp only [beq_self_eq_true, if_true, List.foldr] at ih ⊢
      rw [ih, h.assoc]
    · have hb : (i == k) = false := by rw [beq_eq_false_iff_ne]; exact hik
      simp only [hb, Bool.false_eq_true, if_false]
      exact ih

end seg

/-! ## the root index, peeled from the last link -/
section root

theorem scanFwd_snoc {β γ : Type} (f : Option β → γ → β) (ps : List Int) (as : List γ) (p : Int) (a : γ)
    (h : ps.length = as.length) :
    scanFwd f (ps ++ [p]) (as ++ [a]) = scanFwd f ps as ++ [f (parentOf (scanFwd f ps as) p) a] := by
  rw [scanFwd_eq, scanFwd_eq, List.zip_append h, List.foldl_append]
  rfl

theorem rootIdx_snoc (ps : List Int) (p : Int) (hp : p < (ps.length : Int)) :
    rootIdx (ps ++ [p])
      = rootIdx ps ++ [if p < 0 then ps.length else (rootIdx ps).getD p.toNat 0] := by
  unfold rootIdx
  rw [List.length_append, List.length_singleton, List.range_succ, scanFwd_snoc _ _ _ _ _ (by simp)]
  congr 2
  unfold parentOf
  by_cases hneg : p < 0
  · simp [hneg]
  · simp only [hneg, if_false]
    have hlt : p.toNat < (scanFwd (fun (par : Option Nat) (i : Nat) => match par with | none => i | some r => r)
        ps (List.range ps.length)).length := by rw [scanFwd_length]; simp; omega
    generalize scanFwd (fun (par : Option Nat) (i : Nat) => match par with | none => i | some r => r)
        ps (List.range ps.length) = l at hlt ⊢
    rw [List.getD_eq_getElem?_getD]
    cases hl : l[p.toNat]? with
    | none => rw [List.getElem?_eq_none_iff] at hl; omega
    | some r => rfl

theorem rootIdx_lt (n : Nat) : ∀ (ps : List Int), ps.length = n → PWF ps →
    ∀ i ∈ rootIdx ps, i < ps.length := by
  induction n with
  | zero =>
    intro ps hps _ i hi
    have : ps = [] := List.eq_nil_of_length_eq_zero hps
    subst this
    simp [rootIdx, scanFwd] at hi
  | succ n ih =>
    intro ps hps hwf i hi
    obtain ⟨ps', p, rfl, hps'⟩ := exists_snoc ps hps
    have hp := hwf.last
    rw [rootIdx_snoc ps' p hp] at hi
    rw [List.length_append, List.length_singleton]
    rcases List.mem_append.mp hi with hi | hi
    · have := ih ps' hps' hwf.prefix i hi; omega
    · simp only [List.mem_singleton] at hi
      by_cases hneg : p < 0
      · rw [if_pos hneg] at hi; omega
      · rw [if_neg hneg] at hi
        have hlt : p.toNat < (rootIdx ps').length := by rw [rootIdx_length]; omega
        have hm : (rootIdx ps').getD p.toNat 0 ∈ rootIdx ps' := by
          rw [List.getD_eq_getElem?_getD, List.getElem?_eq_getElem hlt]; exact List.getElem_mem hlt
        have := ih ps' hps' hwf.prefix _ hm
        rw [hi]; omega

/-- **the backward accumulation read at a root is the `segment_sum` over the root index** -/
theorem revAcc_root {M : Type} {add : M → M → M} {z : M} (h : CMon add z) (n : Nat) :
    ∀ (ps : List Int) (a : List M), ps.length = n → a.length = n → PWF ps →
    ∀ r, r < n → ps.getD r (-1) < 0 →
    (revAcc add ps a).getD r z = segSum z add a (rootIdx ps) r := by
  induction n with
  | zero => intro ps a _ _ _ r hr; omega
  | succ n ih =>
    intro ps a hps ha hwf r hr hroot
    obtain ⟨ps', p, rfl, hps'⟩ := exists_snoc ps hps
    obtain ⟨a', v, rfl, ha'⟩ := exists_snoc a ha
    have hwf' := hwf.prefix
    have hp : p < (n : Int) := by have := hwf.last; rwa [hps'] at this
    set a'' : List M := if p < 0 then a' else a'.modify p.toNat (fun x => add x v) with ha''def
    have ha''len : a''.length = n := by rw [ha''def]; split <;> simp [ha']
    have hrev : revAcc add (ps' ++ [p]) (a' ++ [v]) = revAcc add ps' a'' ++ [v] :=
      revAcc_snoc add ps' a' p v (by rw [hps', ha']) hwf' (by rw [ha']; exact hp)
    have hrlen : (revAcc add ps' a'').length = n := by rw [revAcc_length, ha''len]
    have hrootlen : (rootIdx ps').length = n := by rw [rootIdx_length, hps']
    rw [hrev, rootIdx_snoc ps' p (by rw [hps']; exact hp)]
    rw [segSum_snoc h a' (rootIdx ps') v _ r (by rw [ha', hrootlen])]
    by_cases hrn : r = n
    · -- the last link is itself a root
      subst hrn
      have hpn : p < 0 := by
        have := hroot
        rw [← hps', getD_snoc_last ps' p (-1)] at this
        exact this
      rw [← hrlen, getD_snoc_last, hrlen]
      rw [if_pos hpn, hps', if_pos rfl]
      rw [segSum_none a' (rootIdx ps') r
        (fun i hi => by have := rootIdx_lt r ps' hps' hwf' i hi; omega)]
      rw [h.zero_left]
    · have hr' : r < n := by omega
      have hroot' : ps'.getD r (-1) < 0 := by
        rwa [getD_append_left' ps' [p] (-1) r (by omega)] at hroot
      rw [getD_append_left' _ [v] z r (by omega)]
      rw [ih ps' a'' hps' ha''len hwf' r hr' hroot']
      by_cases hneg : p < 0
      · have : a'' = a' := by rw [ha''def, if_pos hneg]
        rw [this, if_pos hneg, hps', if_neg (fun e => hrn e.symm), h.zero]
      · have ha''eq : a'' = a'.modify p.toNat (fun x => add x v) := by rw [ha''def, if_neg hneg]
        rw [ha''eq, if_neg hneg]
        rw [segSum_modify h a' (rootIdx ps') p.toNat v r (by omega) (by rw [ha', hrootlen])]

/-- the root of every link is a root link -/
theorem rootIdx_isRoot (n : Nat) : ∀ (ps : List Int), ps.length = n → PWF ps →
    ∀ r ∈ rootIdx ps, ps.getD r (-1) < 0 := by
  induction n with
  | zero =>
    intro ps hps _ r hr
    have : ps = [] := List.eq_nil_of_length_eq_zero hps
    subst this
    simp [rootIdx, scanFwd] at hr
  | succ n ih =>
    intro ps hps hwf r hr
    obtain ⟨ps', p, rfl, hps'⟩ := exists_snoc ps hps
    have hp := hwf.last
    rw [rootIdx_snoc ps' p hp] at hr
    have hprev : ∀ r ∈ rootIdx ps', (ps' ++ [p]).getD r (-1) < 0 := by
      intro r hr
      have hlt := rootIdx_lt n ps' hps' hwf.prefix r hr
      rw [getD_append_left' ps' [p] (-1) r hlt]
      exact ih ps' hps' hwf.prefix r hr
    rcases List.mem_append.mp hr with hr | hr
    · exact hprev r hr
    · simp only [List.mem_singleton] at hr
      by_cases hneg : p < 0
      · rw [if_pos hneg] at hr
        rw [hr, getD_snoc_last]; exact hneg
      · rw [if_neg hneg] at hr
        have hlt : p.toNat < (rootIdx ps').length := by rw [rootIdx_length]; omega
        have hm : (rootIdx ps').getD p.toNat 0 ∈ rootIdx ps' := by
          rw [List.getD_eq_getElem?_getD, List.getElem?_eq_getElem hlt]; exact List.getElem_mem hlt
        rw [hr]; exact hprev _ hm

/-- copying the root's value down the tree = reading the value at the root index -/
theorem scan_root_value {γ : Type} (d : γ) (n : Nat) : ∀ (ps : List Int) (cs : List γ),
    ps.length = n → cs.length = n → PWF ps →
    scanFwd (fun (par : Option γ) (c : γ) => par.getD c) ps cs
      = (rootIdx ps).map fun r => cs.getD r d := by
  induction n with
  | zero =>
    intro ps cs hps hcs _
    have h1 : ps = [] := List.eq_nil_of_length_eq_zero hps
    have h2 : cs = [] := List.eq_nil_of_length_eq_zero hcs
    subst h1; subst h2; rfl
  | succ n ih =>
    intro ps cs hps hcs hwf
    obtain ⟨ps', p, rfl, hps'⟩ := exists_snoc ps hps
    obtain ⟨cs', c, rfl, hcs'⟩ := exists_snoc cs hcs
    have hp : p < (n : Int) := by have := hwf.last; rwa [hps'] at this
    rw [scanFwd_snoc _ _ _ _ _ (by rw [hps', hcs']), rootIdx_snoc ps' p (by rw [hps']; exact hp),
      List.map_append, ih ps' cs' hps' hcs' hwf.prefix]
    have hmap : (rootIdx ps').map (fun r => cs'.getD r d)
        = (rootIdx ps').map (fun r => (cs' ++ [c]).getD r d) := by
      apply List.map_congr_left
      intro r hr
      have hlt := rootIdx_lt n ps' hps' hwf.prefix r hr
      rw [getD_append_left' cs' [c] d r (by omega)]
    rw [← hmap]
    congr 1
    simp only [List.map_cons, List.map_nil]
    congr 1
    unfold parentOf
    by_cases hneg : p < 0
    · rw [if_pos hneg, if_pos hneg, hps', ← hcs', getD_snoc_last]; rfl
    · rw [if_neg hneg, if_neg hneg]
      have hlt : p.toNat < (rootIdx ps').length := by rw [rootIdx_length]; omega
      rw [List.getElem?_map, List.getElem?_eq_getElem hlt]
      simp only [Option.map_some, Option.getD_some]
      have hg : (rootIdx ps').getD p.toNat 0 = (rootIdx ps')[p.toNat] := by
        rw [List.getD_eq_getElem?_getD, List.getElem?_eq_getElem hlt]; rfl
      rw [hg]
      have hlt' := rootIdx_lt n ps' hps' hwf.prefix _ (List.getElem_mem hlt)
      rw [getD_append_left' cs' [c] d _ (by omega)]

end root

/-! ## the per-tree centre of mass -/
section com

theorem cmon_real : CMon (fun (a b : ℝ) => a + b) 0 :=
  ⟨fun a b c => add_assoc a b c, fun a b => add_comm a b, fun a => add_zero a⟩

theorem cmon_v3 : CMon (V3.add : V3 ℝ → V3 ℝ → V3 ℝ) V3.zero :=
  ⟨fun a b c => V3.add_assoc' a b c, fun a b => V3.add_comm' a b, fun a => V3.add_zero' a⟩

/-- **`root_com`: brax's `segment_sum` over the root index equals MuJoCo's
`subtree_com[body_rootid]`** (backward accumulation of `m·xipos` and of the masses, divided, read
at the root body) — for every forest -/
theorem rootCom_eq_spec (ps : List Int) (mass : List ℝ) (pos : List (V3 ℝ)) (n : Nat)
    (hps : ps.length = n) (hmass : mass.length = n) (hpos : pos.length = n) (hwf : PWF ps) :
    (rootIdx ps).map (fun r =>
        (⟨(segSum V3.zero V3.add (List.zipWith V3.smul mass pos) (rootIdx ps) r).x
            / segSum 0 (· + ·) mass (rootIdx ps) r,
          (segSum V3.zero V3.add (List.zipWith V3.smul mass pos) (rootIdx ps) r).y
            / segSum 0 (· + ·) mass (rootIdx ps) r,
          (segSum V3.zero V3.add (List.zipWith V3.smul mass pos) (rootIdx ps) r).z
            / segSum 0 (· + ·) mass (rootIdx ps) r⟩ : V3 ℝ))
      = scanFwd (fun (par : Option (V3 ℝ)) (c : V3 ℝ) => par.getD c) ps
          (List.zipWith (fun (v : V3 ℝ) m => (⟨v.x / m, v.y / m, v.z / m⟩ : V3 ℝ))
            (revAcc V3.add ps (List.zipWith V3.smul mass pos)) (revAcc (· + ·) ps mass)) := by
  have hmx : (List.zipWith V3.smul mass pos).length = n := by simp [hmass, hpos]
  have hsub : (revAcc V3.add ps (List.zipWith V3.smul mass pos)).length = n := by rw [revAcc_length, hmx]
  have hsm : (revAcc (fun (a b : ℝ) => a + b) ps mass).length = n := by rw [revAcc_length, hmass]
  rw [scan_root_value V3.zero n ps _ hps (by simp [hsub, hsm]) hwf]
  apply List.map_congr_left
  intro r hr
  have hrn : r < n := by have := rootIdx_lt n ps hps hwf r hr; omega
  have hroot := rootIdx_isRoot n ps hps hwf r hr
  rw [getD_zipWith _ _ _ V3.zero r (by omega) (by omega)]
  have e1 := revAcc_root cmon_v3 n ps (List.zipWith V3.smul mass pos) hps hmx hwf r hrn hroot
  have e2 := revAcc_root cmon_real n ps mass hps hmass hwf r hrn hroot
  rw [List.getD_eq_getElem?_getD, List.getElem?_eq_getElem (by omega)] at e1 e2
  simp only [Option.getD_some] at e1 e2
  rw [e1, e2]

theorem zipWith_smul_pos : ∀ (mass : List ℝ) (x : List (Tf ℝ)) (lks : List (LinkP ℝ)),
    List.zipWith (fun m (t : Tf ℝ) => V3.smul m t.pos) mass
        (List.zipWith (fun (t : Tf ℝ) (lk : LinkP ℝ) => Tf.doTf t lk.inertia.tf) x lks)
      = List.zipWith V3.smul mass
          (List.zipWith (fun (x : Tf ℝ) (lk : LinkP ℝ) => x.pos + rotate lk.inertia.tf.pos x.rot) x lks)
  | [], _, _ => by simp
  | _ :: _, [], _ => by simp
  | _ :: _, _ :: _, [] => by simp
  | m :: mass, t :: x, lk :: lks => by
    simp only [List.zipWith_cons_cons]
    rw [zipWith_smul_pos mass x lks]
    rfl

/-- a free link is a root with six dof rows (the shape `cd_eq` / `cdofd_eq_sys` need), from `LinkOK` -/
theorem cdOK_of_linkOK (ps : List Int) (lks : List (LinkP ℝ)) (ins : List (LinkIn ℝ))
    (kin : List (Tf ℝ × List (MjD.JointW ℝ))) (coms : List (V3 ℝ)) (n : Nat)
    (hlks : lks.length = n) (hins : ins.length = n)
    (hok : ∀ y ∈ ps.zip (lks.zip ins), KinPos.LinkOK y.1 y.2.1 y.2.2) :
    ∀ y ∈ ps.zip (ins.zip (List.zipWith (fun (lk : LinkIn ℝ × (Tf ℝ × List (MjD.JointW ℝ))) (c : V3 ℝ) =>
        MjD.cdofBody lk.1 lk.2.1 lk.2.2 c) (ins.zip kin) coms)), CdOK y.1 y.2.1 y.2.2 := by
  intro y hy hf
  rw [List.mem_iff_getElem] at hy
  obtain ⟨i, hi, rfl⟩ := hy
  simp only [List.getElem_zip, List.getElem_zipWith] at hf ⊢
  have hi' : i < ps.length ∧ i < ins.length := by
    simp only [List.length_zip, List.length_zipWith] at hi; omega
  have hmem : (ps[i], lks[i]'(by omega), ins[i]) ∈ ps.zip (lks.zip ins) := by
    rw [List.mem_iff_getElem]
    exact ⟨i, by simp; omega, by simp⟩
  have hlk := hok _ hmem
  obtain ⟨hp, _, _, hqd, _⟩ := hlk.free hf
  refine ⟨hp, ?_, hqd⟩
  unfold MjD.cdofBody
  rw [hf]
  simp

end com
end Brax.Gd
