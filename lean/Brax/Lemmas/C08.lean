import Brax.Model.C08
import Brax.Lemmas.Real
import Mathlib.Tactic.Ring
import Mathlib.Tactic.FieldSimp
import Mathlib.Tactic.LinearCombination
import Mathlib.Tactic.Linarith
import Mathlib.Tactic.Positivity
import Mathlib.Tactic.NormNum
/-!
# Helper lemmas for C08 (round trip joint ↔ world coordinates)

Vector / quaternion algebra on the hand model (ring identities, valid in every commutative
ring), the behaviour of `normalize3/normalize4`, `orthogonals` and `quatRotAxis` over ℝ.
-/
set_option linter.unusedSectionVars false
set_option linter.unusedSimpArgs false
set_option linter.unusedVariables false
namespace Brax.Inv
open Brax

section CommRing
variable {R : Type} [CommRing R]

/-! ## vectors -/

@[ext] theorem V3.ext' {a b : V3 R} (hx : a.x = b.x) (hy : a.y = b.y) (hz : a.z = b.z) : a = b := by
  cases a; cases b; simp_all

theorem cross_cross_left (a b : V3 R) :
    V3.cross (V3.cross a b) a = V3.smul (V3.dot a a) b - V3.smul (V3.dot a b) a := by
  simp only [V3.cross, V3.smul, V3.dot, V3.sub_def]; congr 1 <;> ring

theorem cross_cross_right (a b : V3 R) :
    V3.cross b (V3.cross a b) = V3.smul (V3.dot b b) a - V3.smul (V3.dot a b) b := by
  simp only [V3.cross, V3.smul, V3.dot, V3.sub_def]; congr 1 <;> ring

theorem dot_cross_self_left (a b : V3 R) : V3.dot a (V3.cross a b) = 0 := by
  simp only [V3.cross, V3.dot]; ring
theorem dot_cross_self_right (a b : V3 R) : V3.dot b (V3.cross a b) = 0 := by
  simp only [V3.cross, V3.dot]; ring
theorem dot_comm (a b : V3 R) : V3.dot a b = V3.dot b a := by
  simp only [V3.dot]; ring
/-- Lagrange: `|a × b|² = |a|²|b|² − (a·b)²` -/
theorem cross_normSq (a b : V3 R) :
    V3.dot (V3.cross a b) (V3.cross a b) = V3.dot a a * V3.dot b b - V3.dot a b * V3.dot a b := by
  simp only [V3.cross, V3.dot]; ring

/-! ## rotation -/

theorem rotate_quatMul (v : V3 R) (p q : Q4 R) :
    rotate v (quatMul p q) = rotate (rotate v q) p := by
  simp only [rotate, quatMul, V3.dot, V3.cross, Q4.vec]; congr 1 <;> ring

theorem rotate_one (v : V3 R) : rotate v ⟨1, 0, 0, 0⟩ = v := by
  simp only [rotate, V3.dot, V3.cross, Q4.vec]; cases v; congr 1 <;> ring

theorem rotate_add (u v : V3 R) (q : Q4 R) : rotate (u + v) q = rotate u q + rotate v q := by
  simp only [rotate, V3.add_def, V3.dot, V3.cross, Q4.vec]; congr 1 <;> ring

theorem rotate_sub (u v : V3 R) (q : Q4 R) : rotate (u - v) q = rotate u q - rotate v q := by
  simp only [rotate, V3.sub_def, V3.dot, V3.cross, Q4.vec]; congr 1 <;> ring

theorem rotate_smul (s : R) (v : V3 R) (q : Q4 R) : rotate (V3.smul s v) q = V3.smul s (rotate v q) := by
  simp only [rotate, V3.smul, V3.dot, V3.cross, Q4.vec]; congr 1 <;> ring

theorem rotate_zero (q : Q4 R) : rotate (⟨0, 0, 0⟩ : V3 R) q = ⟨0, 0, 0⟩ := by
  simp only [rotate, V3.dot, V3.cross, Q4.vec]; congr 1 <;> ring

/-- `invRotate (rotate v q) q = |q|⁴ v` -/
theorem invRotate_rotate (v : V3 R) (q : Q4 R) :
    invRotate (rotate v q) q = V3.smul (Q4.normSq q * Q4.normSq q) v := by
  simp only [invRotate, rotate, quatInv, V3.smul, Q4.normSq, V3.dot, V3.cross, Q4.vec]
  congr 1 <;> ring

theorem rotate_invRotate (v : V3 R) (q : Q4 R) :
    rotate (invRotate v q) q = V3.smul (Q4.normSq q * Q4.normSq q) v := by
  simp only [invRotate, rotate, quatInv, V3.smul, Q4.normSq, V3.dot, V3.cross, Q4.vec]
  congr 1 <;> ring

theorem invRotate_rotate_unit (v : V3 R) (q : Q4 R) (h : Q4.normSq q = 1) :
    invRotate (rotate v q) q = v := by
  rw [invRotate_rotate, h]; simp only [V3.smul]; cases v; congr 1 <;> ring

theorem invRotate_one (v : V3 R) : invRotate v ⟨1, 0, 0, 0⟩ = v := by
  simp only [invRotate, rotate, quatInv, V3.dot, V3.cross, Q4.vec]; cases v; congr 1 <;> ring

theorem invRotate_quatMul (v : V3 R) (p q : Q4 R) :
    invRotate v (quatMul p q) = invRotate (invRotate v p) q := by
  simp only [invRotate, rotate, quatMul, quatInv, V3.dot, V3.cross, Q4.vec]; congr 1 <;> ring

theorem normSq_quatMul (p q : Q4 R) : Q4.normSq (quatMul p q) = Q4.normSq p * Q4.normSq q := by
  simp only [quatMul, Q4.normSq]; ring

theorem rotate_dot (u v : V3 R) (q : Q4 R) :
    V3.dot (rotate u q) (rotate v q) = Q4.normSq q * Q4.normSq q * V3.dot u v := by
  simp only [rotate, V3.dot, V3.cross, Q4.vec, Q4.normSq]; ring

/-! ## transforms -/

theorem doTf_assoc (a b c : Tf R) : Tf.doTf (Tf.doTf a b) c = Tf.doTf a (Tf.doTf b c) := by
  simp only [Tf.doTf, rotate, quatMul, V3.dot, V3.cross, Q4.vec, V3.add_def]
  congr 1 <;> congr 1 <;> ring

theorem doTf_id_left (t : Tf R) : Tf.doTf Tf.id t = t := by
  obtain ⟨⟨_, _, _⟩, ⟨_, _, _, _⟩⟩ := t
  simp only [Tf.doTf, Tf.id, V3.zero, Q4.one, rotate, quatMul, V3.dot, V3.cross, Q4.vec, V3.add_def]
  congr 1 <;> congr 1 <;> ring

/-- `to_local` of two transforms moved by the same `T`: the common frame cancels (up to `|T|`) -/
theorem toLocal_doTf_doTf (T A B : Tf R) :
    Tf.toLocal (Tf.doTf T A) (Tf.doTf T B)
      = ⟨V3.smul (Q4.normSq T.rot * Q4.normSq T.rot) (Tf.toLocal A B).pos,
         Q4.smul (Q4.normSq T.rot) (Tf.toLocal A B).rot⟩ := by
  simp only [Tf.toLocal, Tf.doTf, rotate, quatMul, quatInv, V3.dot, V3.cross, Q4.vec, V3.add_def,
    V3.sub_def, V3.smul, Q4.smul, Q4.normSq]
  congr 1 <;> congr 1 <;> ring

theorem toLocal_doTf_doTf_unit (T A B : Tf R) (h : Q4.normSq T.rot = 1) :
    Tf.toLocal (Tf.doTf T A) (Tf.doTf T B) = Tf.toLocal A B := by
  rw [toLocal_doTf_doTf, h]
  generalize Tf.toLocal A B = t
  obtain ⟨⟨_, _, _⟩, ⟨_, _, _, _⟩⟩ := t
  simp only [V3.smul, Q4.smul]; congr 1 <;> congr 1 <;> ring

end CommRing
end Brax.Inv
