import Brax.Model.C08
import Brax.Lemmas.Real
import Mathlib.Analysis.SpecialFunctions.Trigonometric.Bounds
import Mathlib.Tactic.Ring
import Mathlib.Tactic.FieldSimp
import Mathlib.Tactic.LinearCombination
import Mathlib.Tactic.Linarith
import Mathlib.Tactic.Positivity
import Mathlib.Tactic.NormNum
/-!
# Helper lemmas for C08 (round trip joint ↔ world coordinates)

Vector / quaternion algebra on the hand model (ring identities, valid in every commutative
ring), the behaviour of `normalize3/normalize4`, `orthogonals` and `quatRotAxis` over ℝ.
-/
set_option linter.unusedSectionVars false
set_option linter.unusedSimpArgs false
set_option linter.unusedVariables false
namespace Brax.Inv
open Brax

section CommRing
variable {R : Type} [CommRing R]

/-! ## vectors -/

@[ext] theorem V3.ext' {a b : V3 R} (hx : a.x = b.x) (hy : a.y = b.y) (hz : a.z = b.z) : a = b := by
  cases a; cases b; simp_all

theorem cross_cross_left (a b : V3 R) :
    V3.cross (V3.cross a b) a = V3.smul (V3.dot a a) b - V3.smul (V3.dot a b) a := by
  simp only [V3.cross, V3.smul, V3.dot, V3.sub_def]; congr 1 <;> ring

theorem cross_cross_right (a b : V3 R) :
    V3.cross b (V3.cross a b) = V3.smul (V3.dot b b) a - V3.smul (V3.dot a b) b := by
  simp only [V3.cross, V3.smul, V3.dot, V3.sub_def]; congr 1 <;> ring

theorem dot_cross_self_left (a b : V3 R) : V3.dot a (V3.cross a b) = 0 := by
  simp only [V3.cross, V3.dot]; ring
theorem dot_cross_self_right (a b : V3 R) : V3.dot b (V3.cross a b) = 0 := by
  simp only [V3.cross, V3.dot]; ring
theorem dot_comm (a b : V3 R) : V3.dot a b = V3.dot b a := by
  simp only [V3.dot]; ring
/-- Lagrange: `|a × b|² = |a|²|b|² − (a·b)²` -/
theorem cross_normSq (a b : V3 R) :
    V3.dot (V3.cross a b) (V3.cross a b) = V3.dot a a * V3.dot b b - V3.dot a b * V3.dot a b := by
  simp only [V3.cross, V3.dot]; ring

/-! ## rotation -/

theorem rotate_quatMul (v : V3 R) (p q : Q4 R) :
    rotate v (quatMul p q) = rotate (rotate v q) p := by
  simp only [rotate, quatMul, V3.dot, V3.cross, Q4.vec]; congr 1 <;> ring

theorem rotate_one (v : V3 R) : rotate v ⟨1, 0, 0, 0⟩ = v := by
  simp only [rotate, V3.dot, V3.cross, Q4.vec]; cases v; congr 1 <;> ring

theorem rotate_add (u v : V3 R) (q : Q4 R) : rotate (u + v) q = rotate u q + rotate v q := by
  simp only [rotate, V3.add_def, V3.dot, V3.cross, Q4.vec]; congr 1 <;> ring

theorem rotate_sub (u v : V3 R) (q : Q4 R) : rotate (u - v) q = rotate u q - rotate v q := by
  simp only [rotate, V3.sub_def, V3.dot, V3.cross, Q4.vec]; congr 1 <;> ring

theorem rotate_smul (s : R) (v : V3 R) (q : Q4 R) : rotate (V3.smul s v) q = V3.smul s (rotate v q) := by
  simp only [rotate, V3.smul, V3.dot, V3.cross, Q4.vec]; congr 1 <;> ring

theorem rotate_zero (q : Q4 R) : rotate (⟨0, 0, 0⟩ : V3 R) q = ⟨0, 0, 0⟩ := by
  simp only [rotate, V3.dot, V3.cross, Q4.vec]; congr 1 <;> ring

/-- `invRotate (rotate v q) q = |q|⁴ v` -/
theorem invRotate_rotate (v : V3 R) (q : Q4 R) :
    invRotate (rotate v q) q = V3.smul (Q4.normSq q * Q4.normSq q) v := by
  simp only [invRotate, rotate, quatInv, V3.smul, Q4.normSq, V3.dot, V3.cross, Q4.vec]
  congr 1 <;> ring

theorem rotate_invRotate (v : V3 R) (q : Q4 R) :
    rotate (invRotate v q) q = V3.smul (Q4.normSq q * Q4.normSq q) v := by
  simp only [invRotate, rotate, quatInv, V3.smul, Q4.normSq, V3.dot, V3.cross, Q4.vec]
  congr 1 <;> ring

theorem invRotate_rotate_unit (v : V3 R) (q : Q4 R) (h : Q4.normSq q = 1) :
    invRotate (rotate v q) q = v := by
  rw [invRotate_rotate, h]; simp only [V3.smul]; cases v; congr 1 <;> ring

theorem invRotate_one (v : V3 R) : invRotate v ⟨1, 0, 0, 0⟩ = v := by
  simp only [invRotate, rotate, quatInv, V3.dot, V3.cross, Q4.vec]; cases v; congr 1 <;> ring

theorem invRotate_quatMul (v : V3 R) (p q : Q4 R) :
    invRotate v (quatMul p q) = invRotate (invRotate v p) q := by
  simp only [invRotate, rotate, quatMul, quatInv, V3.dot, V3.cross, Q4.vec]; congr 1 <;> ring

theorem normSq_quatMul (p q : Q4 R) : Q4.normSq (quatMul p q) = Q4.normSq p * Q4.normSq q := by
  simp only [quatMul, Q4.normSq]; ring

theorem rotate_dot (u v : V3 R) (q : Q4 R) :
    V3.dot (rotate u q) (rotate v q) = Q4.normSq q * Q4.normSq q * V3.dot u v := by
  simp only [rotate, V3.dot, V3.cross, Q4.vec, Q4.normSq]; ring

/-! ## transforms -/

theorem doTf_assoc (a b c : Tf R) : Tf.doTf (Tf.doTf a b) c = Tf.doTf a (Tf.doTf b c) := by
  simp only [Tf.doTf, rotate, quatMul, V3.dot, V3.cross, Q4.vec, V3.add_def]
  congr 1 <;> congr 1 <;> ring

theorem doTf_id_left (t : Tf R) : Tf.doTf Tf.id t = t := by
  obtain ⟨⟨_, _, _⟩, ⟨_, _, _, _⟩⟩ := t
  simp only [Tf.doTf, Tf.id, V3.zero, Q4.one, rotate, quatMul, V3.dot, V3.cross, Q4.vec, V3.add_def]
  congr 1 <;> congr 1 <;> ring

/-- `to_local` of two transforms moved by the same `T`: the common frame cancels (up to `|T|`) -/
theorem toLocal_doTf_doTf (T A B : Tf R) :
    Tf.toLocal (Tf.doTf T A) (Tf.doTf T B)
      = ⟨V3.smul (Q4.normSq T.rot * Q4.normSq T.rot) (Tf.toLocal A B).pos,
         Q4.smul (Q4.normSq T.rot) (Tf.toLocal A B).rot⟩ := by
  simp only [Tf.toLocal, Tf.doTf, rotate, quatMul, quatInv, V3.dot, V3.cross, Q4.vec, V3.add_def,
    V3.sub_def, V3.smul, Q4.smul, Q4.normSq]
  congr 1 <;> congr 1 <;> ring

theorem toLocal_doTf_doTf_unit (T A B : Tf R) (h : Q4.normSq T.rot = 1) :
    Tf.toLocal (Tf.doTf T A) (Tf.doTf T B) = Tf.toLocal A B := by
  rw [toLocal_doTf_doTf, h]
  generalize Tf.toLocal A B = t
  obtain ⟨⟨_, _, _⟩, ⟨_, _, _, _⟩⟩ := t
  simp only [V3.smul, Q4.smul]; congr 1 <;> congr 1 <;> ring

theorem quatMul_assoc (a b c : Q4 R) : quatMul (quatMul a b) c = quatMul a (quatMul b c) := by
  simp only [quatMul]; congr 1 <;> ring

/-! ## `forward` then `world_to_joint` for one link -/

/-- `placeJoint` = link transform after the anchor-corrected joint transform -/
theorem placeJoint_eq (lk : LinkP R) (j : Tf R) :
    Kin.placeJoint lk j
      = Tf.doTf lk.tf ⟨j.pos + lk.joint.pos - rotate lk.joint.pos j.rot, j.rot⟩ := by
  simp only [Kin.placeJoint, Tf.doTf, V3.zero, V3.add_def, V3.sub_def, zero_add]

/-- the anchor correction is exactly undone by composing with the joint offset:
`(j.pos + a − R(j.rot) a, j.rot) ∘ (a, r) = (j.pos + a, j.rot·r)` -/
theorem anchor_doTf_joint (j joint : Tf R) :
    Tf.doTf ⟨j.pos + joint.pos - rotate joint.pos j.rot, j.rot⟩ joint
      = ⟨j.pos + joint.pos, quatMul j.rot joint.rot⟩ := by
  simp only [Tf.doTf, V3.add_def, V3.sub_def]; congr 2 <;> ring

theorem toLocal_anchor (p a : V3 R) (r jr : Q4 R) :
    Tf.toLocal ⟨p + a, quatMul r jr⟩ ⟨a, jr⟩
      = ⟨invRotate p jr, quatMul (quatInv jr) (quatMul r jr)⟩ := by
  simp only [Tf.toLocal, invRotate, V3.add_def, V3.sub_def]; congr 3 <;> ring

/-- `a_c` of a link placed by `forward` under the parent transform `xp` -/
theorem a_c_eq (lk : LinkP R) (xp j : Tf R) :
    Tf.doTf (Tf.doTf xp (Kin.placeJoint lk j)) lk.joint
      = Tf.doTf (Tf.doTf xp lk.tf) ⟨j.pos + lk.joint.pos, quatMul j.rot lk.joint.rot⟩ := by
  rw [placeJoint_eq, ← doTf_assoc xp, doTf_assoc (Tf.doTf xp lk.tf), anchor_doTf_joint]

/-- joint transform recovered by `world_to_joint` from a link placed by `forward` -/
theorem w2jLink_placed_j (lk : LinkP R) (xp j : Tf R) (xdp xdi : Motion R)
    (hxp : Q4.normSq xp.rot = 1) (hlk : Q4.normSq lk.tf.rot = 1) :
    (w2jLink lk xp xdp (Tf.doTf xp (Kin.placeJoint lk j)) xdi).1
      = ⟨invRotate j.pos lk.joint.rot,
         quatMul (quatInv lk.joint.rot) (quatMul j.rot lk.joint.rot)⟩ := by
  have hT : Q4.normSq (Tf.doTf xp lk.tf).rot = 1 := by
    simp only [Tf.doTf]; rw [normSq_quatMul, hxp, hlk]; ring
  simp only [w2jLink]
  rw [a_c_eq]
  have := toLocal_doTf_doTf_unit (Tf.doTf xp lk.tf)
    ⟨j.pos + lk.joint.pos, quatMul j.rot lk.joint.rot⟩ lk.joint hT
  rw [this]
  exact toLocal_anchor j.pos lk.joint.pos j.rot lk.joint.rot

/-- rotation part of the placed link and of the parent anchor -/
theorem placed_rot (lk : LinkP R) (xp j : Tf R) :
    (Tf.doTf xp (Kin.placeJoint lk j)).rot = quatMul (quatMul xp.rot lk.tf.rot) j.rot := by
  simp only [Kin.placeJoint, Tf.doTf]; rw [quatMul_assoc]

theorem invRotate_rotate_anchor (w : V3 R) (T jrot jr : Q4 R) (hT : Q4.normSq T = 1) :
    invRotate (rotate w (quatMul T jrot)) (quatMul T jr) = invRotate (rotate w jrot) jr := by
  rw [rotate_quatMul, invRotate_quatMul, invRotate_rotate_unit _ _ hT]

theorem rotate_scale (a : V3 R) (s : R) (q : Q4 R) :
    rotate ⟨a.x * s, a.y * s, a.z * s⟩ q
      = ⟨(rotate a q).x * s, (rotate a q).y * s, (rotate a q).z * s⟩ := by
  simp only [rotate, V3.dot, V3.cross, Q4.vec]; congr 1 <;> ring

theorem invRotate_scale (a : V3 R) (s : R) (q : Q4 R) :
    invRotate ⟨a.x * s, a.y * s, a.z * s⟩ q
      = ⟨(invRotate a q).x * s, (invRotate a q).y * s, (invRotate a q).z * s⟩ := by
  simp only [invRotate]; exact rotate_scale a s (quatInv q)

/-- a root link is a child of the identity frame at rest -/
theorem world_none_eq (jj : Tf R × Motion R) :
    Kin.world none jj = Kin.world (some (Tf.id, Motion.zero)) jj := by
  obtain ⟨⟨⟨px, py, pz⟩, ⟨rw, rx, ry, rz⟩⟩, ⟨⟨ax, ay, az⟩, ⟨vx, vy, vz⟩⟩⟩ := jj
  simp only [Kin.world, Tf.doTf, Tf.id, Motion.zero, V3.zero, Q4.one, rotate, quatMul, V3.dot,
    V3.cross, Q4.vec, V3.add_def, V3.sub_def]
  congr 1
  · congr 1 <;> congr 1 <;> ring
  · congr 1 <;> congr 1 <;> ring

theorem doMotion_one_ang (p : V3 R) (m : Motion R) :
    (Tf.doMotion ⟨p, Q4.one⟩ m).ang = m.ang := by
  simp only [Tf.doMotion, Q4.one, quatInv, neg_zero]; exact rotate_one _

theorem doMotion_one_vel (p : V3 R) (m : Motion R) :
    (Tf.doMotion ⟨p, Q4.one⟩ m).vel = m.vel - V3.cross p m.ang := by
  simp only [Tf.doMotion, Q4.one, quatInv, neg_zero]; exact rotate_one _

theorem v3_add_sub_cancel (a r : V3 R) : a + r - a = r := by
  cases a; cases r; simp only [V3.add_def, V3.sub_def]; congr 1 <;> ring

theorem v3_rest_cancel (v u w p : V3 R) :
    v + V3.cross ⟨0, 0, 0⟩ u + w - (v - V3.cross p ⟨0, 0, 0⟩) = w := by
  cases v; cases u; cases w; cases p
  simp only [V3.cross, V3.add_def, V3.sub_def]; congr 1 <;> ring

/-- angular part of `jd` recovered by `world_to_joint` from a link placed by `forward` -/
theorem w2jLink_world_ang (lk : LinkP R) (xp j : Tf R) (xdp jd : Motion R)
    (hxp : Q4.normSq xp.rot = 1) (hlk : Q4.normSq lk.tf.rot = 1) :
    (w2jLink lk xp xdp (Kin.world (some (xp, xdp)) (Kin.placeJoint lk j, jd)).1
        (Kin.world (some (xp, xdp)) (Kin.placeJoint lk j, jd)).2).2.1.ang
      = invRotate (rotate jd.ang j.rot) lk.joint.rot := by
  have hT : Q4.normSq (quatMul xp.rot lk.tf.rot) = 1 := by rw [normSq_quatMul, hxp, hlk]; ring
  simp only [w2jLink, Kin.world, doMotion_one_ang]
  rw [placed_rot]
  rw [v3_add_sub_cancel]
  simp only [Tf.doTf]
  exact invRotate_rotate_anchor jd.ang _ j.rot lk.joint.rot hT

/-- linear part of `jd` recovered by `world_to_joint` when the parent does not rotate
(`jdv` is the joint-frame linear velocity *before* `forward` moves it to the parent frame) -/
theorem w2jLink_world_vel (lk : LinkP R) (xp j : Tf R) (xdp : Motion R) (jda jdv : V3 R)
    (hxp : Q4.normSq xp.rot = 1) (hlk : Q4.normSq lk.tf.rot = 1) (hrest : xdp.ang = ⟨0, 0, 0⟩) :
    (w2jLink lk xp xdp
        (Kin.world (some (xp, xdp)) (Kin.placeJoint lk j, ⟨jda, rotate jdv lk.tf.rot⟩)).1
        (Kin.world (some (xp, xdp)) (Kin.placeJoint lk j, ⟨jda, rotate jdv lk.tf.rot⟩)).2).2.1.vel
      = invRotate jdv lk.joint.rot := by
  have hT : Q4.normSq (quatMul xp.rot lk.tf.rot) = 1 := by rw [normSq_quatMul, hxp, hlk]; ring
  simp only [w2jLink, Kin.world, doMotion_one_vel, hrest]
  rw [v3_rest_cancel, ← rotate_quatMul]
  simp only [Tf.doTf]
  rw [invRotate_quatMul, invRotate_rotate_unit _ _ hT]

end CommRing

/-! ## ℝ: normalisation -/
section Real

/-- the parent frame and motion `world_to_joint` reads for a link: those of the parent link, or
the appended identity / zero motion (`x.concatenate(zero).take(-1)`) for a root -/
def parentOr (parent : Option (Tf ℝ × Motion ℝ)) : Tf ℝ × Motion ℝ := parent.getD (Tf.id, Motion.zero)

/-- a joint transform seen from a joint frame turned by `jr` (`link.joint.rot`; the MJCF loader
always writes the identity there) -/
def conjJoint (jr : Q4 ℝ) (j : Tf ℝ) : Tf ℝ :=
  ⟨invRotate j.pos jr, quatMul (quatInv jr) (quatMul j.rot jr)⟩

theorem conjJoint_one (j : Tf ℝ) : conjJoint ⟨1, 0, 0, 0⟩ j = j := by
  obtain ⟨⟨_, _, _⟩, ⟨_, _, _, _⟩⟩ := j
  simp only [conjJoint, invRotate, rotate, quatMul, quatInv, V3.dot, V3.cross, Q4.vec]
  congr 1 <;> congr 1 <;> ring

theorem sq_le_of_abs_le {x e : ℝ} (h : |x| ≤ e) : x * x ≤ e * e := by
  have h0 := abs_nonneg x
  have := mul_le_mul h h h0 (le_trans h0 h)
  rwa [abs_mul_abs_self] at this

/-- a vector whose squared length exceeds `3e-16` is not `allclose` to zero -/
theorem allClose0_3_false (x y z : ℝ) (h : 1e-15 < x * x + y * y + z * z) :
    allClose0 [x, y, z] = false := by
  rw [Bool.eq_false_iff]; intro hc
  simp only [allClose0, List.all_cons, List.all_nil, Bool.and_true, Bool.and_eq_true,
    decide_eq_true_eq, absv_eq_abs] at hc
  obtain ⟨h1, h2, h3⟩ := hc
  have := sq_le_of_abs_le h1; have := sq_le_of_abs_le h2; have := sq_le_of_abs_le h3
  norm_num at *; linarith

theorem allClose0_4_false (w x y z : ℝ) (h : 1e-15 < w * w + x * x + y * y + z * z) :
    allClose0 [w, x, y, z] = false := by
  rw [Bool.eq_false_iff]; intro hc
  simp only [allClose0, List.all_cons, List.all_nil, Bool.and_true, Bool.and_eq_true,
    decide_eq_true_eq, absv_eq_abs] at hc
  obtain ⟨h0, h1, h2, h3⟩ := hc
  have := sq_le_of_abs_le h0
  have := sq_le_of_abs_le h1; have := sq_le_of_abs_le h2; have := sq_le_of_abs_le h3
  norm_num at *; linarith

/-- `normalize` of a vector that is not `allclose` to zero divides by its Euclidean norm -/
theorem normalize3_eq (v : V3 ℝ) (h : 1e-15 < V3.dot v v) :
    normalize3 v = ⟨v.x / Real.sqrt (V3.dot v v), v.y / Real.sqrt (V3.dot v v),
                    v.z / Real.sqrt (V3.dot v v)⟩ := by
  have hz := allClose0_3_false v.x v.y v.z (by simpa [V3.dot] using h)
  have hpos : 0 < Real.sqrt (V3.dot v v) := Real.sqrt_pos.mpr (lt_trans (by norm_num) h)
  have hs : safeNorm3 v = Real.sqrt (V3.dot v v) := by
    simp only [safeNorm3, safeNormL, hz, Bool.false_eq_true, if_false, List.foldl_cons,
      List.foldl_nil, HasSqrt.sqrt, V3.dot, zero_add]
  have hne : eqZero (Real.sqrt (V3.dot v v)) = false := by
    rw [Bool.eq_false_iff, Ne, eqZero_iff]; exact ne_of_gt hpos
  simp only [normalize3, hs, hne, Bool.false_eq_true, if_false]

theorem normalize3_unit (v : V3 ℝ) (h : V3.dot v v = 1) : normalize3 v = v := by
  rw [normalize3_eq v (by rw [h]; norm_num), h, Real.sqrt_one]
  cases v; simp

theorem normalize4_eq (q : Q4 ℝ) (h : 1e-15 < Q4.normSq q) :
    normalize4 q = ⟨q.w / Real.sqrt (Q4.normSq q), q.x / Real.sqrt (Q4.normSq q),
                    q.y / Real.sqrt (Q4.normSq q), q.z / Real.sqrt (Q4.normSq q)⟩ := by
  have hz := allClose0_4_false q.w q.x q.y q.z (by simpa [Q4.normSq] using h)
  have hpos : 0 < Real.sqrt (Q4.normSq q) := Real.sqrt_pos.mpr (lt_trans (by norm_num) h)
  have hs : safeNorm4 q = Real.sqrt (Q4.normSq q) := by
    simp only [safeNorm4, safeNormL, hz, Bool.false_eq_true, if_false, List.foldl_cons,
      List.foldl_nil, HasSqrt.sqrt, Q4.normSq, zero_add]
  have hne : eqZero (Real.sqrt (Q4.normSq q)) = false := by
    rw [Bool.eq_false_iff, Ne, eqZero_iff]; exact ne_of_gt hpos
  simp only [normalize4, hs, hne, Bool.false_eq_true, if_false]

theorem normalize4_unit (q : Q4 ℝ) (h : Q4.normSq q = 1) : normalize4 q = q := by
  rw [normalize4_eq q (by rw [h]; norm_num), h, Real.sqrt_one]
  cases q; simp

/-- the normalised quaternion is a unit quaternion -/
theorem normalize4_normSq (q : Q4 ℝ) (h : 1e-15 < Q4.normSq q) :
    Q4.normSq (normalize4 q) = 1 := by
  have hp : 0 < Q4.normSq q := lt_trans (by norm_num) h
  rw [normalize4_eq q h]
  have hs := Real.mul_self_sqrt (le_of_lt hp)
  have hne : Real.sqrt (Q4.normSq q) ≠ 0 := ne_of_gt (Real.sqrt_pos.mpr hp)
  generalize Real.sqrt (Q4.normSq q) = n at hs hne
  simp only [Q4.normSq] at hs ⊢
  have : q.w / n * (q.w / n) + q.x / n * (q.x / n) + q.y / n * (q.y / n) + q.z / n * (q.z / n)
      = (q.w * q.w + q.x * q.x + q.y * q.y + q.z * q.z) / (n * n) := by
    field_simp
  rw [this, ← hs]; exact div_self (mul_ne_zero hne hne)

/-! ## ℝ: `orthogonals` -/

theorem v3Any_of_ne (a : V3 ℝ) (h : V3.dot a a ≠ 0) : v3Any a = true := by
  by_contra hc
  simp only [v3Any, Bool.or_eq_true, Bool.not_eq_true', not_or, Bool.not_eq_false, eqZero_iff] at hc
  obtain ⟨⟨h1, h2⟩, h3⟩ := hc
  apply h; simp only [V3.dot, h1, h2, h3]; ring

theorem v3Any_zero : v3Any (⟨0, 0, 0⟩ : V3 ℝ) = false := by
  simp [v3Any, eqZero_iff]

/-- Gram–Schmidt step of `orthogonals`: for unit `a`, `e` not too parallel, the normalised
`e − a (a·e)` is a unit vector orthogonal to `a` -/
theorem orth_core (a e : V3 ℝ) (ha : V3.dot a a = 1) (he : V3.dot e e = 1)
    (hd : V3.dot a e * V3.dot a e ≤ 3 / 4) :
    let b := normalize3 (⟨e.x - a.x * V3.dot a e, e.y - a.y * V3.dot a e, e.z - a.z * V3.dot a e⟩ : V3 ℝ)
    V3.dot b b = 1 ∧ V3.dot a b = 0 := by
  intro b
  set d := V3.dot a e with hdd
  set b0 : V3 ℝ := ⟨e.x - a.x * d, e.y - a.y * d, e.z - a.z * d⟩ with hb0
  have hm : V3.dot b0 b0 = 1 - d * d := by
    simp only [V3.dot] at ha he hdd ⊢
    simp only [hb0]
    linear_combination (d * d) * ha + he + 2 * d * hdd
  have hab0 : V3.dot a b0 = 0 := by
    simp only [V3.dot] at ha he hdd ⊢
    simp only [hb0]
    linear_combination (-d) * ha - hdd
  have hlow : (1e-15 : ℝ) < V3.dot b0 b0 := by rw [hm]; norm_num; linarith
  have hp : 0 < V3.dot b0 b0 := lt_trans (by norm_num) hlow
  have hb : b = ⟨b0.x / Real.sqrt (V3.dot b0 b0), b0.y / Real.sqrt (V3.dot b0 b0),
                 b0.z / Real.sqrt (V3.dot b0 b0)⟩ := normalize3_eq b0 hlow
  have hs := Real.mul_self_sqrt (le_of_lt hp)
  have hne : Real.sqrt (V3.dot b0 b0) ≠ 0 := ne_of_gt (Real.sqrt_pos.mpr hp)
  generalize Real.sqrt (V3.dot b0 b0) = n at hs hne hb
  rw [hb]
  constructor
  · have : V3.dot (⟨b0.x / n, b0.y / n, b0.z / n⟩ : V3 ℝ) ⟨b0.x / n, b0.y / n, b0.z / n⟩
        = V3.dot b0 b0 / (n * n) := by
      simp only [V3.dot]; field_simp
    rw [this, ← hs]; exact div_self (mul_ne_zero hne hne)
  · have : V3.dot a (⟨b0.x / n, b0.y / n, b0.z / n⟩ : V3 ℝ) = V3.dot a b0 / n := by
      simp only [V3.dot]; field_simp
    rw [this, hab0, zero_div]

/-- `orthogonals a` of a unit vector: a unit vector `b ⟂ a` and `a × b` -/
theorem orthogonals_spec (a : V3 ℝ) (ha : V3.dot a a = 1) :
    V3.dot (orthogonals a).1 (orthogonals a).1 = 1 ∧ V3.dot a (orthogonals a).1 = 0
      ∧ (orthogonals a).2 = V3.cross a (orthogonals a).1 := by
  have hany : v3Any a = true := v3Any_of_ne a (by rw [ha]; norm_num)
  refine ⟨?_, ?_, rfl⟩
  all_goals
    simp only [orthogonals, hany, if_true]
    by_cases hy : (-(0.5 : ℝ) < a.y) ∧ (a.y < 0.5)
    · have hb : (decide (-(0.5 : ℝ) < a.y) && decide (a.y < 0.5)) = true := by simp [hy.1, hy.2]
      simp only [hb, if_true]
      have := orth_core a ⟨0, 1, 0⟩ ha (by simp [V3.dot]) (by
        simp only [V3.dot]; norm_num at hy ⊢; nlinarith [hy.1, hy.2])
      first | exact this.1 | exact this.2
    · have hb : (decide (-(0.5 : ℝ) < a.y) && decide (a.y < 0.5)) = false := by
        simp only [Bool.and_eq_false_iff, decide_eq_false_iff_not]; tauto
      simp only [hb, Bool.false_eq_true, if_false]
      have := orth_core a ⟨0, 0, 1⟩ ha (by simp [V3.dot]) (by
        simp only [V3.dot] at ha ⊢; norm_num at hy ⊢
        rcases le_or_gt a.y (-(1/2)) with h | h
        · nlinarith [mul_self_nonneg a.x]
        · have := hy h; nlinarith [mul_self_nonneg a.x])
      first | exact this.1 | exact this.2

/-! ## ℝ: rotation about an axis -/

theorem quatRotAxis_normSq (a : V3 ℝ) (θ : ℝ) (ha : V3.dot a a = 1) :
    Q4.normSq (quatRotAxis a θ) = 1 := by
  simp only [V3.dot] at ha
  simp only [quatRotAxis, Q4.normSq, HasTrig.sin, HasTrig.cos]
  have := Real.sin_sq_add_cos_sq (θ / (1 + 1))
  linear_combination (Real.sin (θ / (1 + 1)) ^ 2) * ha + this

/-- Rodrigues' formula for `quat_rot_axis` (unit axis) -/
theorem rotate_quatRotAxis (a v : V3 ℝ) (θ : ℝ) (ha : V3.dot a a = 1) :
    rotate v (quatRotAxis a θ)
      = ⟨Real.cos θ * v.x + Real.sin θ * (V3.cross a v).x + (1 - Real.cos θ) * V3.dot a v * a.x,
         Real.cos θ * v.y + Real.sin θ * (V3.cross a v).y + (1 - Real.cos θ) * V3.dot a v * a.y,
         Real.cos θ * v.z + Real.sin θ * (V3.cross a v).z + (1 - Real.cos θ) * V3.dot a v * a.z⟩ := by
  have h1 : (1 + 1 : ℝ) = 2 := by norm_num
  have hc : Real.cos θ = Real.cos (θ / 2) ^ 2 - Real.sin (θ / 2) ^ 2 := by
    have := Real.cos_sq' (θ / 2)
    have h2 := Real.cos_two_mul (θ / 2)
    rw [show 2 * (θ / 2) = θ by ring] at h2
    rw [h2, this]; ring
  have hs : Real.sin θ = 2 * Real.sin (θ / 2) * Real.cos (θ / 2) := by
    have h2 := Real.sin_two_mul (θ / 2)
    rw [show 2 * (θ / 2) = θ by ring] at h2
    exact h2
  have hcs := Real.sin_sq_add_cos_sq (θ / 2)
  simp only [quatRotAxis, HasTrig.sin, HasTrig.cos, h1]
  rw [hc, hs]
  generalize Real.cos (θ / 2) = c at *
  generalize Real.sin (θ / 2) = s at *
  simp only [V3.dot] at ha
  simp only [rotate, V3.dot, V3.cross, Q4.vec]
  congr 1
  · linear_combination ((a.x * v.x + a.y * v.y + a.z * v.z) * a.x) * hcs - (s * s * v.x) * ha
  · linear_combination ((a.x * v.x + a.y * v.y + a.z * v.z) * a.y) * hcs - (s * s * v.y) * ha
  · linear_combination ((a.x * v.x + a.y * v.y + a.z * v.z) * a.z) * hcs - (s * s * v.z) * ha

/-- the axis is fixed -/
theorem rotate_axis (a : V3 ℝ) (θ : ℝ) (ha : V3.dot a a = 1) : rotate a (quatRotAxis a θ) = a := by
  rw [rotate_quatRotAxis a a θ ha, ha]
  simp only [V3.cross]
  cases a; congr 1 <;> ring

theorem invRotate_axis (a : V3 ℝ) (θ : ℝ) (ha : V3.dot a a = 1) :
    invRotate a (quatRotAxis a θ) = a := by
  have := invRotate_rotate_unit a (quatRotAxis a θ) (quatRotAxis_normSq a θ ha)
  rwa [rotate_axis a θ ha] at this

/-- a vector orthogonal to the axis turns in the plane spanned by itself and `a × b` -/
theorem rotate_perp (a b : V3 ℝ) (θ : ℝ) (ha : V3.dot a a = 1) (hab : V3.dot a b = 0) :
    rotate b (quatRotAxis a θ)
      = ⟨Real.cos θ * b.x + Real.sin θ * (V3.cross a b).x,
         Real.cos θ * b.y + Real.sin θ * (V3.cross a b).y,
         Real.cos θ * b.z + Real.sin θ * (V3.cross a b).z⟩ := by
  rw [rotate_quatRotAxis a b θ ha, hab]; congr 1 <;> ring

/-- `a × b` turns towards `−b` -/
theorem rotate_perp_cross (a b : V3 ℝ) (θ : ℝ) (ha : V3.dot a a = 1) (hab : V3.dot a b = 0) :
    rotate (V3.cross a b) (quatRotAxis a θ)
      = ⟨Real.cos θ * (V3.cross a b).x - Real.sin θ * b.x,
         Real.cos θ * (V3.cross a b).y - Real.sin θ * b.y,
         Real.cos θ * (V3.cross a b).z - Real.sin θ * b.z⟩ := by
  rw [rotate_quatRotAxis a (V3.cross a b) θ ha, dot_cross_self_left]
  simp only [V3.dot] at ha hab
  simp only [V3.cross]
  congr 1
  · linear_combination (Real.sin θ * a.x) * hab - (Real.sin θ * b.x) * ha
  · linear_combination (Real.sin θ * a.y) * hab - (Real.sin θ * b.y) * ha
  · linear_combination (Real.sin θ * a.z) * hab - (Real.sin θ * b.z) * ha

/-! ## ℝ: `atan2`, and what `axis_angle_ang` computes for a single hinge -/

theorem atan2_sin_cos (q : ℝ) (h1 : -Real.pi < q) (h2 : q ≤ Real.pi) :
    HasTrig.atan2 (Real.sin q) (Real.cos q) = q := by
  have := Complex.arg_cos_add_sin_mul_I (θ := q) ⟨h1, h2⟩
  simp only [HasTrig.atan2]
  convert this using 2
  apply Complex.ext <;> simp [Complex.cos_ofReal_re, Complex.sin_ofReal_re, Complex.cos_ofReal_im, Complex.sin_ofReal_im]

/-- line of nodes of a frame `(a, b, a × b)` turned by `q` about `a`: `cos q · b + sin q · a×b` -/
theorem hinge_lon (a b : V3 ℝ) (q : ℝ) (ha : V3.dot a a = 1) (hb : V3.dot b b = 1)
    (hab : V3.dot a b = 0) :
    normalize3 (V3.cross (rotate (V3.cross a b) (quatRotAxis a q)) a)
      = ⟨Real.cos q * b.x + Real.sin q * (V3.cross a b).x,
         Real.cos q * b.y + Real.sin q * (V3.cross a b).y,
         Real.cos q * b.z + Real.sin q * (V3.cross a b).z⟩ := by
  have hraw : V3.cross (rotate (V3.cross a b) (quatRotAxis a q)) a
      = ⟨Real.cos q * b.x + Real.sin q * (V3.cross a b).x,
         Real.cos q * b.y + Real.sin q * (V3.cross a b).y,
         Real.cos q * b.z + Real.sin q * (V3.cross a b).z⟩ := by
    rw [rotate_perp_cross a b q ha hab]
    simp only [V3.dot] at ha hab
    simp only [V3.cross]
    congr 1
    · linear_combination (Real.cos q * b.x) * ha - (Real.cos q * a.x) * hab
    · linear_combination (Real.cos q * b.y) * ha - (Real.cos q * a.y) * hab
    · linear_combination (Real.cos q * b.z) * ha - (Real.cos q * a.z) * hab
  rw [hraw]
  apply normalize3_unit
  have hcs := Real.sin_sq_add_cos_sq q
  simp only [V3.dot] at ha hb hab
  simp only [V3.dot, V3.cross]
  linear_combination hcs + (Real.cos q ^ 2) * hb
    + (Real.sin q ^ 2) * ((b.x * b.x + b.y * b.y + b.z * b.z) * ha + hb
        - (a.x * b.x + a.y * b.y + a.z * b.z) * hab)

/-- `psi` of `axis_angle_ang` for a frame `(a, b, a × b)` turned by `q ∈ (−π, π]` about its first
axis is `q` itself, and the first child axis is `a` -/
theorem hinge_psi (a b p : V3 ℝ) (q par : ℝ) (ha : V3.dot a a = 1) (hb : V3.dot b b = 1)
    (hab : V3.dot a b = 0) (h1 : -Real.pi < q) (h2 : q ≤ Real.pi) :
    (axisAngleAng ⟨p, quatRotAxis a q⟩ ⟨a, b, V3.cross a b⟩ par).2.psi = q
      ∧ (axisAngleAng ⟨p, quatRotAxis a q⟩ ⟨a, b, V3.cross a b⟩ par).1.r0 = a := by
  constructor
  · simp only [axisAngleAng]
    rw [hinge_lon a b q ha hb hab]
    simp only [signedAngle]
    have hy : V3.dot (V3.cross b ⟨Real.cos q * b.x + Real.sin q * (V3.cross a b).x,
        Real.cos q * b.y + Real.sin q * (V3.cross a b).y,
        Real.cos q * b.z + Real.sin q * (V3.cross a b).z⟩) a = Real.sin q := by
      simp only [V3.dot] at ha hb hab
      simp only [V3.dot, V3.cross]
      linear_combination (Real.sin q * (b.x * b.x + b.y * b.y + b.z * b.z)) * ha + Real.sin q * hb
        - (Real.sin q * (a.x * b.x + a.y * b.y + a.z * b.z)) * hab
    have hx : V3.dot b ⟨Real.cos q * b.x + Real.sin q * (V3.cross a b).x,
        Real.cos q * b.y + Real.sin q * (V3.cross a b).y,
        Real.cos q * b.z + Real.sin q * (V3.cross a b).z⟩ = Real.cos q := by
      simp only [V3.dot] at hb
      simp only [V3.dot, V3.cross]
      linear_combination Real.cos q * hb
    rw [hy, hx]
    exact atan2_sin_cos q h1 h2
  · simp only [axisAngleAng]
    exact rotate_axis a q ha

/-- `x_dof` on a single hinge about the unit axis `a`, the joint being turned by `q ∈ (−π, π]`:
the coordinate is `q`, the velocity the projection of the (un-rotated) angular velocity on `a` -/
theorem xDof_one_hinge (a p : V3 ℝ) (q : ℝ) (jd : Motion ℝ) (pidx : Int)
    (ha : V3.dot a a = 1) (h1 : -Real.pi < q) (h2 : q ≤ Real.pi) :
    xDof ⟨p, quatRotAxis a q⟩ jd pidx [⟨a, ⟨0, 0, 0⟩⟩]
      = some ([q], [V3.dot a (invRotate jd.ang
          (if pidx == -1 then quatRotAxis a q else ⟨1, 0, 0, 0⟩))]) := by
  have hany : v3Any a = true := v3Any_of_ne a (by rw [ha]; norm_num)
  obtain ⟨hb, hab, hc⟩ := orthogonals_spec a ha
  have hps := hinge_psi a (orthogonals a).1 p q 1 ha hb hab h1 h2
  simp only [xDof, linkToJointFrame, hany, if_true, hc]
  rcases hr : axisAngleAng ⟨p, quatRotAxis a q⟩ ⟨a, (orthogonals a).1, V3.cross a (orthogonals a).1⟩ 1
    with ⟨axis, ang⟩
  rw [hr] at hps
  simp only at hps
  simp only [List.zip_cons_cons, List.zip_nil_right, List.zipWith_cons_cons, List.zipWith_nil_right,
    List.map_cons, List.map_nil, hany, if_true, hps.1, hps.2]

/-- `jcalc` of a single hinge about a unit axis -/
theorem jcalc_one_hinge (d : DofP ℝ) (q qd : ℝ) (ha : V3.dot d.motion.ang d.motion.ang = 1)
    (hv : d.motion.vel = ⟨0, 0, 0⟩) :
    Kin.jcalc ⟨.one, [q], [qd], [d]⟩
      = (⟨⟨0 * q, 0 * q, 0 * q⟩, quatRotAxis d.motion.ang q⟩,
         ⟨⟨d.motion.ang.x * qd, d.motion.ang.y * qd, d.motion.ang.z * qd⟩, ⟨0 * qd, 0 * qd, 0 * qd⟩⟩) := by
  simp only [Kin.jcalc, List.zip_cons_cons, List.zip_nil_right, List.map_cons, List.map_nil,
    List.foldl_nil, Kin.jcalcDof, hv, normalize4_unit _ (quatRotAxis_normSq d.motion.ang q ha)]

/-! ## ℝ: slide joints -/

theorem cos_half_ge (q : ℝ) (hq : |q| ≤ 2) : 1 / 2 ≤ Real.cos (q / (1 + 1)) := by
  have h := Real.one_sub_sq_div_two_le_cos (x := q / (1 + 1))
  have h2 : (q / (1 + 1)) ^ 2 ≤ 1 := by
    have := sq_le_of_abs_le hq
    nlinarith
  linarith

/-- a slide dof contributes the identity rotation while `|q| ≤ 2` -/
theorem slide_rot (q : ℝ) (hq : |q| ≤ 2) :
    normalize4 (quatRotAxis (⟨0, 0, 0⟩ : V3 ℝ) q) = ⟨1, 0, 0, 0⟩ := by
  have hc := cos_half_ge q hq
  have hn : Q4.normSq (quatRotAxis (⟨0, 0, 0⟩ : V3 ℝ) q) = Real.cos (q / (1 + 1)) * Real.cos (q / (1 + 1)) := by
    simp only [quatRotAxis, Q4.normSq, HasTrig.cos]; ring
  rw [normalize4_eq _ (by rw [hn]; nlinarith), hn, Real.sqrt_mul_self (by linarith)]
  simp only [quatRotAxis, HasTrig.cos, zero_mul, zero_div]
  congr 1
  exact div_self (by linarith)

theorem jcalc_slides3 (d0 d1 d2 : DofP ℝ) (e0 e1 e2 : V3 ℝ) (q0 q1 q2 qd0 qd1 qd2 : ℝ)
    (h0 : d0.motion = ⟨⟨0, 0, 0⟩, e0⟩) (h1 : d1.motion = ⟨⟨0, 0, 0⟩, e1⟩) (h2 : d2.motion = ⟨⟨0, 0, 0⟩, e2⟩)
    (hq0 : |q0| ≤ 2) (hq1 : |q1| ≤ 2) (hq2 : |q2| ≤ 2) :
    Kin.jcalc ⟨.three, [q0, q1, q2], [qd0, qd1, qd2], [d0, d1, d2]⟩
      = (⟨⟨e0.x * q0 + e1.x * q1 + e2.x * q2, e0.y * q0 + e1.y * q1 + e2.y * q2,
            e0.z * q0 + e1.z * q1 + e2.z * q2⟩, ⟨1, 0, 0, 0⟩⟩,
         ⟨⟨0, 0, 0⟩, ⟨e0.x * qd0 + e1.x * qd1 + e2.x * qd2, e0.y * qd0 + e1.y * qd1 + e2.y * qd2,
            e0.z * qd0 + e1.z * qd1 + e2.z * qd2⟩⟩) := by
  simp only [Kin.jcalc, List.zip_cons_cons, List.zip_nil_right, List.map_cons, List.map_nil,
    List.foldl_cons, List.foldl_nil, Kin.jcalcDof, Kin.jcalcAcc, h0, h1, h2, slide_rot _ hq0,
    slide_rot _ hq1, slide_rot _ hq2]
  simp only [Tf.doTf, rotate, quatMul, V3.dot, V3.cross, Q4.vec, V3.add_def, Motion.add_def]
  congr 1 <;> congr 1 <;> congr 1 <;> ring


theorem linkToJointFrame_isSome (ms : List (Motion ℝ)) (h1 : 1 ≤ ms.length) (h3 : ms.length ≤ 3) :
    ∃ F, linkToJointFrame ms = some F := by
  match ms, h1, h3 with
  | [_], _, _ => exact ⟨_, rfl⟩
  | [_, _], _, _ => exact ⟨_, rfl⟩
  | [_, _, _], _, _ => exact ⟨_, rfl⟩
  | _ :: _ :: _ :: _ :: _, _, h => exact absurd h (by simp)
  | [], h, _ => exact absurd h (by simp)

/-- the `where(motion.ang.any(axis=1), angles, slides)` mask picks the slide value for every dof
whose rotational axis is zero -/
theorem pick_slides (ms : List (Motion ℝ)) (as : List ℝ) (f : Motion ℝ → ℝ)
    (hz : ∀ m ∈ ms, m.ang = ⟨0, 0, 0⟩) (hl : ms.length ≤ as.length) :
    List.zipWith (fun (m : Motion ℝ) (p : ℝ × ℝ) => if v3Any m.ang then p.1 else p.2) ms
      (as.zip (ms.map f)) = ms.map f := by
  induction ms generalizing as with
  | nil => simp
  | cons m ms ih =>
    cases as with
    | nil => simp at hl
    | cons a as =>
      simp only [List.map_cons, List.zip_cons_cons, List.zipWith_cons_cons]
      rw [hz m (by simp), v3Any_zero]
      simp only [Bool.false_eq_true, if_false]
      rw [ih as (fun m' hm' => hz m' (by simp [hm'])) (by simpa using hl)]

/-- `x_dof` on a stack of 1–3 slide joints: coordinates and velocities are the projections of the
joint-frame position / linear velocity on the slide axes -/
theorem xDof_slides (j : Tf ℝ) (jd : Motion ℝ) (pidx : Int) (ms : List (Motion ℝ))
    (hz : ∀ m ∈ ms, m.ang = ⟨0, 0, 0⟩) (h1 : 1 ≤ ms.length) (h3 : ms.length ≤ 3) :
    xDof j jd pidx ms
      = some (ms.map fun m => V3.dot m.vel j.pos, ms.map fun m => V3.dot m.vel jd.vel) := by
  obtain ⟨⟨angF, velF, par⟩, hF⟩ := linkToJointFrame_isSome ms h1 h3
  simp only [xDof, hF]
  rw [pick_slides ms _ _ hz (by simpa using h3), pick_slides ms _ _ hz (by simpa using h3)]

theorem jcalc_slides2 (d0 d1 : DofP ℝ) (e0 e1 : V3 ℝ) (q0 q1 qd0 qd1 : ℝ)
    (h0 : d0.motion = ⟨⟨0, 0, 0⟩, e0⟩) (h1 : d1.motion = ⟨⟨0, 0, 0⟩, e1⟩)
    (hq0 : |q0| ≤ 2) (hq1 : |q1| ≤ 2) :
    Kin.jcalc ⟨.two, [q0, q1], [qd0, qd1], [d0, d1]⟩
      = (⟨⟨e0.x * q0 + e1.x * q1, e0.y * q0 + e1.y * q1, e0.z * q0 + e1.z * q1⟩, ⟨1, 0, 0, 0⟩⟩,
         ⟨⟨0, 0, 0⟩, ⟨e0.x * qd0 + e1.x * qd1, e0.y * qd0 + e1.y * qd1, e0.z * qd0 + e1.z * qd1⟩⟩) := by
  simp only [Kin.jcalc, List.zip_cons_cons, List.zip_nil_right, List.map_cons, List.map_nil,
    List.foldl_cons, List.foldl_nil, Kin.jcalcDof, Kin.jcalcAcc, h0, h1, slide_rot _ hq0,
    slide_rot _ hq1]
  simp only [Tf.doTf, rotate, quatMul, V3.dot, V3.cross, Q4.vec, V3.add_def, Motion.add_def]
  congr 1 <;> congr 1 <;> congr 1 <;> ring

theorem jcalc_slides1 (d0 : DofP ℝ) (e0 : V3 ℝ) (q0 qd0 : ℝ)
    (h0 : d0.motion = ⟨⟨0, 0, 0⟩, e0⟩) (hq0 : |q0| ≤ 2) :
    Kin.jcalc ⟨.one, [q0], [qd0], [d0]⟩
      = (⟨⟨e0.x * q0, e0.y * q0, e0.z * q0⟩, ⟨1, 0, 0, 0⟩⟩,
         ⟨⟨0, 0, 0⟩, ⟨e0.x * qd0, e0.y * qd0, e0.z * qd0⟩⟩) := by
  simp only [Kin.jcalc, List.zip_cons_cons, List.zip_nil_right, List.map_cons, List.map_nil,
    List.foldl_nil, Kin.jcalcDof, h0, slide_rot _ hq0, zero_mul]

/-! ## ℝ: hinge followed by a slide in one stack (known finding K2) -/

/-- `jcalc` of a hinge (unit axis `a`) followed by a slide (axis `e`) in one stack -/
theorem jcalc_hinge_slide (dh ds : DofP ℝ) (a e : V3 ℝ) (q0 q1 qd0 qd1 : ℝ)
    (hh : dh.motion = ⟨a, ⟨0, 0, 0⟩⟩) (hs : ds.motion = ⟨⟨0, 0, 0⟩, e⟩)
    (ha : V3.dot a a = 1) (hq1 : |q1| ≤ 2) :
    (Kin.jcalc ⟨.two, [q0, q1], [qd0, qd1], [dh, ds]⟩).1
      = ⟨rotate ⟨e.x * q1, e.y * q1, e.z * q1⟩ (quatRotAxis a q0), quatRotAxis a q0⟩ := by
  simp only [Kin.jcalc, List.zip_cons_cons, List.zip_nil_right, List.map_cons, List.map_nil,
    List.foldl_cons, List.foldl_nil, Kin.jcalcDof, Kin.jcalcAcc, hh, hs, slide_rot _ hq1,
    normalize4_unit _ (quatRotAxis_normSq a q0 ha)]
  simp only [Tf.doTf, V3.add_def, zero_mul, zero_add]
  congr 1
  generalize quatRotAxis a q0 = r
  obtain ⟨_, _, _, _⟩ := r
  simp only [quatMul]; congr 1 <;> ring

/-- the slide coordinate `x_dof` reports for a (hinge, slide) stack is the projection of `j.pos` on
the slide axis -/
theorem xDof_hinge_slide_q1 (j : Tf ℝ) (jd : Motion ℝ) (pidx : Int) (a e : V3 ℝ) (qq qd' : List ℝ)
    (h : xDof j jd pidx [⟨a, ⟨0, 0, 0⟩⟩, ⟨⟨0, 0, 0⟩, e⟩] = some (qq, qd')) :
    qq[1]? = some (V3.dot e j.pos) := by
  simp only [xDof, linkToJointFrame, Option.some.injEq, Prod.mk.injEq] at h
  rw [← h.1]
  simp only [List.zip_cons_cons, List.zip_nil_right, List.zipWith_cons_cons, List.zipWith_nil_right,
    List.map_cons, List.map_nil, v3Any_zero, Bool.false_eq_true, if_false]
  rfl

/-! ## ℝ: slides followed by one hinge (`theta` and `phi` of `axis_angle_ang`) -/

theorem cross_unit_normSq (a b : V3 ℝ) (ha : V3.dot a a = 1) (hb : V3.dot b b = 1)
    (hab : V3.dot a b = 0) : V3.dot (V3.cross a b) (V3.cross a b) = 1 := by
  rw [cross_normSq, ha, hb, hab]; ring

theorem cross_b_cross (a b : V3 ℝ) (hb : V3.dot b b = 1) (hab : V3.dot a b = 0) :
    V3.cross b (V3.cross a b) = a := by
  rw [cross_cross_right, hb, hab]; cases a; cases b; simp [V3.smul]

theorem cross_cross_a (a b : V3 ℝ) (ha : V3.dot a a = 1) (hab : V3.dot a b = 0) :
    V3.cross (V3.cross a b) a = b := by
  rw [cross_cross_left, ha, hab]; cases a; cases b; simp [V3.smul]

/-- frame `(b, a×b, a)` turned by `q` about its third axis `a`: `phi = q`, third child axis `a` -/
theorem hinge_phi (a b p : V3 ℝ) (q : ℝ) (ha : V3.dot a a = 1) (hb : V3.dot b b = 1)
    (hab : V3.dot a b = 0) (h1 : -Real.pi < q) (h2 : q ≤ Real.pi) :
    (axisAngleAng ⟨p, quatRotAxis a q⟩ ⟨b, V3.cross a b, a⟩ 1).2.phi = q
      ∧ (axisAngleAng ⟨p, quatRotAxis a q⟩ ⟨b, V3.cross a b, a⟩ 1).1.r2 = a := by
  have hcc := cross_unit_normSq a b ha hb hab
  constructor
  · simp only [axisAngleAng]
    rw [rotate_axis a q ha, normalize3_unit _ hcc, rotate_perp_cross a b q ha hab]
    simp only [signedAngle]
    have hy : V3.dot (V3.cross ⟨Real.cos q * (V3.cross a b).x - Real.sin q * b.x,
        Real.cos q * (V3.cross a b).y - Real.sin q * b.y,
        Real.cos q * (V3.cross a b).z - Real.sin q * b.z⟩ (V3.cross a b))
        ⟨-a.x * 1, -a.y * 1, -a.z * 1⟩ = Real.sin q := by
      simp only [V3.dot] at ha hb hab
      simp only [V3.dot, V3.cross]
      linear_combination (Real.sin q * (b.x * b.x + b.y * b.y + b.z * b.z)) * ha + Real.sin q * hb
        - (Real.sin q * (a.x * b.x + a.y * b.y + a.z * b.z)) * hab
    have hx : V3.dot ⟨Real.cos q * (V3.cross a b).x - Real.sin q * b.x,
        Real.cos q * (V3.cross a b).y - Real.sin q * b.y,
        Real.cos q * (V3.cross a b).z - Real.sin q * b.z⟩ (V3.cross a b) = Real.cos q := by
      have hbc : V3.dot b (V3.cross a b) = 0 := dot_cross_self_right a b
      simp only [V3.dot] at hcc hbc ⊢
      linear_combination Real.cos q * hcc - Real.sin q * hbc
    rw [hy, hx]
    exact atan2_sin_cos q h1 h2
  · simp only [axisAngleAng]
    rw [rotate_axis a q ha]; cases a; simp

theorem normalize3_pos_scale (u : V3 ℝ) (k : ℝ) (hu : V3.dot u u = 1) (hk : 1e-7 < k) :
    normalize3 ⟨k * u.x, k * u.y, k * u.z⟩ = u := by
  have hkp : 0 < k := lt_trans (by norm_num) hk
  have hd : V3.dot (⟨k * u.x, k * u.y, k * u.z⟩ : V3 ℝ) ⟨k * u.x, k * u.y, k * u.z⟩ = k * k := by
    simp only [V3.dot] at hu ⊢; linear_combination (k * k) * hu
  rw [normalize3_eq _ (by rw [hd]; nlinarith), hd, Real.sqrt_mul_self (le_of_lt hkp)]
  cases u; simp only; congr 1 <;> field_simp

theorem arccos_cos_abs (q : ℝ) (h : |q| ≤ Real.pi) : Real.arccos (Real.cos q) = |q| := by
  rw [← Real.cos_abs q]; exact Real.arccos_cos (abs_nonneg q) h

theorem abs_mul_signv_sin (q : ℝ) (h : |q| < Real.pi) : |q| * signv (Real.sin q) = q := by
  rcases lt_trichotomy q 0 with hq | hq | hq
  · have hs : Real.sin q < 0 := by
      have : -Real.pi < q := by have := abs_lt.mp h; linarith
      exact Real.sin_neg_of_neg_of_neg_pi_lt hq this
    simp only [signv, hs, if_true, abs_of_neg hq]; ring
  · subst hq; simp [signv]
  · have hs : 0 < Real.sin q := Real.sin_pos_of_pos_of_lt_pi hq (by have := abs_lt.mp h; linarith)
    have hn : ¬ Real.sin q < 0 := not_lt.mpr (le_of_lt hs)
    simp only [signv, hn, hs, if_false, if_true, abs_of_pos hq]; ring

theorem cos_ge_of_abs_le (q : ℝ) (hq : |q| ≤ 6 / 5) : 7 / 25 ≤ Real.cos q := by
  have h := Real.one_sub_sq_div_two_le_cos (x := q)
  have h2 := sq_le_of_abs_le hq
  nlinarith

/-- frame `(a×b, a, b)` turned by `q` (`|q| ≤ 1.2`) about its second axis `a`: `theta = q`, second
child axis `a` -/
theorem hinge_theta (a b p : V3 ℝ) (q : ℝ) (ha : V3.dot a a = 1) (hb : V3.dot b b = 1)
    (hab : V3.dot a b = 0) (hq : |q| ≤ 6 / 5) :
    (axisAngleAng ⟨p, quatRotAxis a q⟩ ⟨V3.cross a b, a, b⟩ 1).2.theta = q
      ∧ (axisAngleAng ⟨p, quatRotAxis a q⟩ ⟨V3.cross a b, a, b⟩ 1).1.r1 = a := by
  have hcc := cross_unit_normSq a b ha hb hab
  have hac : V3.dot a (V3.cross a b) = 0 := dot_cross_self_left a b
  have hbc : V3.dot b (V3.cross a b) = 0 := dot_cross_self_right a b
  have hcos := cos_ge_of_abs_le q hq
  have hpi : |q| < Real.pi := lt_of_le_of_lt hq (by linarith [Real.two_le_pi])
  constructor
  · simp only [axisAngleAng]
    rw [rotate_axis a q ha, rotate_perp_cross a b q ha hab, rotate_perp a b q ha hab]
    -- the projected first axis is `cos q` times the turned first axis
    set c0 : V3 ℝ := ⟨Real.cos q * (V3.cross a b).x - Real.sin q * b.x,
        Real.cos q * (V3.cross a b).y - Real.sin q * b.y,
        Real.cos q * (V3.cross a b).z - Real.sin q * b.z⟩ with hc0
    have hd0 : V3.dot (V3.cross a b) c0 = Real.cos q := by
      simp only [V3.dot] at hcc hbc ⊢
      simp only [hc0]
      linear_combination Real.cos q * hcc - Real.sin q * hbc
    have hd1 : V3.dot (V3.cross a b) a = 0 := by rw [dot_comm]; exact hac
    have hc0u : V3.dot c0 c0 = 1 := by
      have hcs := Real.sin_sq_add_cos_sq q
      simp only [V3.dot] at hcc hbc hb ⊢
      simp only [hc0]
      linear_combination hcs + (Real.cos q ^ 2) * hcc + (Real.sin q ^ 2) * hb
        - (2 * Real.sin q * Real.cos q) * hbc
    rw [hd0, hd1]
    have hraw : (⟨Real.cos q * c0.x + 0 * a.x, Real.cos q * c0.y + 0 * a.y,
        Real.cos q * c0.z + 0 * a.z⟩ : V3 ℝ) = ⟨Real.cos q * c0.x, Real.cos q * c0.y, Real.cos q * c0.z⟩ := by
      congr 1 <;> ring
    rw [hraw, normalize3_pos_scale c0 _ hc0u (by norm_num; linarith)]
    rw [dot_comm c0, hd0]
    have hs : V3.dot (V3.cross a b) ⟨Real.cos q * b.x + Real.sin q * (V3.cross a b).x,
        Real.cos q * b.y + Real.sin q * (V3.cross a b).y,
        Real.cos q * b.z + Real.sin q * (V3.cross a b).z⟩ = Real.sin q := by
      simp only [V3.dot] at hcc hbc ⊢
      linear_combination Real.sin q * hcc + Real.cos q * hbc
    rw [hs]
    have hclip : clip (Real.cos q) (-1) 1 = Real.cos q := by
      rw [clip_eq, max_eq_left (Real.neg_one_le_cos q), min_eq_left (Real.cos_le_one q)]
    rw [hclip]
    show Real.arccos (Real.cos q) * signv (Real.sin q) = q
    rw [arccos_cos_abs q (le_of_lt hpi)]
    exact abs_mul_signv_sin q hpi
  · simp only [axisAngleAng]
    exact rotate_axis a q ha

/-- `x_dof` on a (slide along `e`, hinge about unit `a`) stack whose joint transform is turned by
`q` about `a` -/
theorem xDof_slide_hinge (a e p : V3 ℝ) (q : ℝ) (jd : Motion ℝ) (pidx : Int)
    (ha : V3.dot a a = 1) (he : V3.dot e e ≠ 0) (hq : |q| ≤ 6 / 5) :
    xDof ⟨p, quatRotAxis a q⟩ jd pidx [⟨⟨0, 0, 0⟩, e⟩, ⟨a, ⟨0, 0, 0⟩⟩]
      = some ([V3.dot e p, q], [V3.dot e jd.vel, V3.dot a (invRotate jd.ang
          (if pidx == -1 then quatRotAxis a q else ⟨1, 0, 0, 0⟩))]) := by
  have hany : v3Any a = true := v3Any_of_ne a (by rw [ha]; norm_num)
  have hanye : v3Any e = true := v3Any_of_ne e he
  obtain ⟨hb, hab, hc⟩ := orthogonals_spec a ha
  have hth := hinge_theta a (orthogonals a).1 p q ha hb hab hq
  simp only [xDof, linkToJointFrame, hany, hanye, v3Any_zero, hc, Bool.or_false, Bool.false_or,
    Bool.and_self, Bool.true_or, Bool.or_true, if_true, Bool.false_eq_true, if_false,
    cross_cross_a a _ ha hab]
  simp only [List.zip_cons_cons, List.zip_nil_right, List.zipWith_cons_cons, List.zipWith_nil_right,
    List.map_cons, List.map_nil, hany, v3Any_zero, if_true, Bool.false_eq_true, if_false, hth.1, hth.2]

/-- `x_dof` on a (slide `e0`, slide `e1`, hinge about unit `a`) stack turned by `q` about `a` -/
theorem xDof_slide_slide_hinge (a e0 e1 p : V3 ℝ) (q : ℝ) (jd : Motion ℝ) (pidx : Int)
    (ha : V3.dot a a = 1) (he0 : V3.dot e0 e0 ≠ 0) (h1 : -Real.pi < q) (h2 : q ≤ Real.pi) :
    xDof ⟨p, quatRotAxis a q⟩ jd pidx [⟨⟨0, 0, 0⟩, e0⟩, ⟨⟨0, 0, 0⟩, e1⟩, ⟨a, ⟨0, 0, 0⟩⟩]
      = some ([V3.dot e0 p, V3.dot e1 p, q],
              [V3.dot e0 jd.vel, V3.dot e1 jd.vel, V3.dot a (invRotate jd.ang
                (if pidx == -1 then quatRotAxis a q else ⟨1, 0, 0, 0⟩))]) := by
  have hany : v3Any a = true := v3Any_of_ne a (by rw [ha]; norm_num)
  have hanye : v3Any e0 = true := v3Any_of_ne e0 he0
  obtain ⟨hb, hab, hc⟩ := orthogonals_spec a ha
  have hph := hinge_phi a (orthogonals a).1 p q ha hb hab h1 h2
  simp only [xDof, linkToJointFrame, hany, hanye, v3Any_zero, hc, Bool.or_false, Bool.false_or,
    Bool.and_self, Bool.true_or, Bool.or_true, if_true, Bool.false_eq_true, if_false,
    cross_b_cross a _ hb hab]
  simp only [List.zip_cons_cons, List.zip_nil_right, List.zipWith_cons_cons, List.zipWith_nil_right,
    List.map_cons, List.map_nil, hany, v3Any_zero, if_true, Bool.false_eq_true, if_false, hph.1, hph.2]

theorem quatMul_one_left (r : Q4 ℝ) : quatMul ⟨1, 0, 0, 0⟩ r = r := by
  obtain ⟨_, _, _, _⟩ := r; simp only [quatMul]; congr 1 <;> ring

theorem rotate_zero_vec (r : Q4 ℝ) (s t : ℝ) (a : V3 ℝ) :
    rotate (⟨0 * s, 0 * s, 0 * s⟩ + V3.cross ⟨0 * t, 0 * t, 0 * t⟩ a) r = ⟨0, 0, 0⟩ := by
  simp only [rotate, V3.dot, V3.cross, Q4.vec, V3.add_def]; congr 1 <;> ring

theorem jcalc_slide_hinge (ds dh : DofP ℝ) (a e : V3 ℝ) (q0 q1 qd0 qd1 : ℝ)
    (hs : ds.motion = ⟨⟨0, 0, 0⟩, e⟩) (hh : dh.motion = ⟨a, ⟨0, 0, 0⟩⟩)
    (ha : V3.dot a a = 1) (hq0 : |q0| ≤ 2) :
    Kin.jcalc ⟨.two, [q0, q1], [qd0, qd1], [ds, dh]⟩
      = (⟨⟨e.x * q0, e.y * q0, e.z * q0⟩, quatRotAxis a q1⟩,
         ⟨⟨a.x * qd1, a.y * qd1, a.z * qd1⟩, ⟨e.x * qd0, e.y * qd0, e.z * qd0⟩⟩) := by
  simp only [Kin.jcalc, List.zip_cons_cons, List.zip_nil_right, List.map_cons, List.map_nil,
    List.foldl_cons, List.foldl_nil, Kin.jcalcDof, Kin.jcalcAcc, hh, hs, slide_rot _ hq0,
    normalize4_unit _ (quatRotAxis_normSq a q1 ha)]
  rw [rotate_zero_vec, rotate_scale, rotate_axis a q1 ha]
  simp only [Tf.doTf, quatMul_one_left, Motion.add_def, V3.add_def]
  rw [rotate_one]
  simp only [zero_mul, zero_add, add_zero]

theorem jcalc_slide_slide_hinge (d0 d1 dh : DofP ℝ) (a e0 e1 : V3 ℝ) (q0 q1 q2 qd0 qd1 qd2 : ℝ)
    (h0 : d0.motion = ⟨⟨0, 0, 0⟩, e0⟩) (h1 : d1.motion = ⟨⟨0, 0, 0⟩, e1⟩)
    (hh : dh.motion = ⟨a, ⟨0, 0, 0⟩⟩) (ha : V3.dot a a = 1) (hq0 : |q0| ≤ 2) (hq1 : |q1| ≤ 2) :
    Kin.jcalc ⟨.three, [q0, q1, q2], [qd0, qd1, qd2], [d0, d1, dh]⟩
      = (⟨⟨e0.x * q0 + e1.x * q1, e0.y * q0 + e1.y * q1, e0.z * q0 + e1.z * q1⟩, quatRotAxis a q2⟩,
         ⟨⟨a.x * qd2, a.y * qd2, a.z * qd2⟩,
          ⟨e0.x * qd0 + e1.x * qd1, e0.y * qd0 + e1.y * qd1, e0.z * qd0 + e1.z * qd1⟩⟩) := by
  simp only [Kin.jcalc, List.zip_cons_cons, List.zip_nil_right, List.map_cons, List.map_nil,
    List.foldl_cons, List.foldl_nil, Kin.jcalcDof, Kin.jcalcAcc, hh, h0, h1, slide_rot _ hq0,
    slide_rot _ hq1, normalize4_unit _ (quatRotAxis_normSq a q2 ha)]
  rw [rotate_zero_vec, rotate_scale, rotate_axis a q2 ha]
  simp only [Tf.doTf, quatMul_one_left, Motion.add_def, V3.add_def]
  simp only [rotate_one]
  simp only [zero_mul, zero_add, add_zero, V3.cross, mul_zero, sub_self]

theorem hinge_vel_aux (a : V3 ℝ) (qd : ℝ) (ha : V3.dot a a = 1) (r : Q4 ℝ)
    (hr : invRotate a r = a) :
    V3.dot a (invRotate ⟨a.x * qd, a.y * qd, a.z * qd⟩ r) = qd := by
  rw [invRotate_scale, hr]
  simp only [V3.dot] at ha ⊢
  linear_combination qd * ha


/-! ## ℝ: coordinates in an orthonormal right-handed frame `(a0, a1, a0 × a1)` -/

/-- the vector with coordinates `p` in the frame `(a0, a1, a0 × a1)` -/
def L (a0 a1 p : V3 ℝ) : V3 ℝ :=
  ⟨p.x * a0.x + p.y * a1.x + p.z * (V3.cross a0 a1).x,
   p.x * a0.y + p.y * a1.y + p.z * (V3.cross a0 a1).y,
   p.x * a0.z + p.y * a1.z + p.z * (V3.cross a0 a1).z⟩

section frame
variable (a0 a1 : V3 ℝ) (h00 : V3.dot a0 a0 = 1) (h11 : V3.dot a1 a1 = 1) (h01 : V3.dot a0 a1 = 0)

theorem L_e0 : L a0 a1 ⟨1, 0, 0⟩ = a0 := by cases a0; simp [L]
theorem L_e1 : L a0 a1 ⟨0, 1, 0⟩ = a1 := by cases a1; simp [L]
theorem L_e2 : L a0 a1 ⟨0, 0, 1⟩ = V3.cross a0 a1 := by simp [L]

theorem L_lin (α β : ℝ) (p q : V3 ℝ) :
    L a0 a1 ⟨α * p.x + β * q.x, α * p.y + β * q.y, α * p.z + β * q.z⟩
      = ⟨α * (L a0 a1 p).x + β * (L a0 a1 q).x, α * (L a0 a1 p).y + β * (L a0 a1 q).y,
         α * (L a0 a1 p).z + β * (L a0 a1 q).z⟩ := by
  simp only [L]; congr 1 <;> ring

include h00 h11 h01 in
theorem L_dot (p q : V3 ℝ) : V3.dot (L a0 a1 p) (L a0 a1 q) = V3.dot p q := by
  simp only [V3.dot] at h00 h11 h01
  simp only [L, V3.dot, V3.cross]
  linear_combination (p.x * q.x) * h00 + (p.y * q.y) * h11
    + (p.z * q.z) * ((a1.x * a1.x + a1.y * a1.y + a1.z * a1.z) * h00 + h11
        - (a0.x * a1.x + a0.y * a1.y + a0.z * a1.z) * h01)
    + (p.x * q.y + p.y * q.x) * h01

include h00 h11 h01 in
theorem L_cross (p q : V3 ℝ) : V3.cross (L a0 a1 p) (L a0 a1 q) = L a0 a1 (V3.cross p q) := by
  simp only [V3.dot] at h00 h11 h01
  simp only [L, V3.cross]
  congr 1
  · linear_combination (p.x * q.z - p.z * q.x) * (a0.x * h01 - a1.x * h00)
      + (p.y * q.z - p.z * q.y) * (a0.x * h11 - a1.x * h01)
  · linear_combination (p.x * q.z - p.z * q.x) * (a0.y * h01 - a1.y * h00)
      + (p.y * q.z - p.z * q.y) * (a0.y * h11 - a1.y * h01)
  · linear_combination (p.x * q.z - p.z * q.x) * (a0.z * h01 - a1.z * h00)
      + (p.y * q.z - p.z * q.y) * (a0.z * h11 - a1.z * h01)

/-- rotation about the first frame axis acts on coordinates as `Rx(θ)` -/
noncomputable def rx (θ : ℝ) (p : V3 ℝ) : V3 ℝ :=
  ⟨p.x, Real.cos θ * p.y - Real.sin θ * p.z, Real.sin θ * p.y + Real.cos θ * p.z⟩
noncomputable def ry (θ : ℝ) (p : V3 ℝ) : V3 ℝ :=
  ⟨Real.cos θ * p.x + Real.sin θ * p.z, p.y, -(Real.sin θ * p.x) + Real.cos θ * p.z⟩
/-- rotation about `σ·(a0 × a1)`, `σ = ±1` -/
noncomputable def rz (σ θ : ℝ) (p : V3 ℝ) : V3 ℝ :=
  ⟨Real.cos θ * p.x - σ * Real.sin θ * p.y, σ * Real.sin θ * p.x + Real.cos θ * p.y, p.z⟩

include h00 h11 h01 in
theorem rotate_L_x (θ : ℝ) (p : V3 ℝ) :
    rotate (L a0 a1 p) (quatRotAxis a0 θ) = L a0 a1 (rx θ p) := by
  rw [rotate_quatRotAxis a0 (L a0 a1 p) θ h00]
  have hc : V3.cross a0 (L a0 a1 p) = L a0 a1 (V3.cross ⟨1, 0, 0⟩ p) := by
    rw [← L_cross a0 a1 h00 h11 h01, L_e0]
  have hd : V3.dot a0 (L a0 a1 p) = p.x := by
    have := L_dot a0 a1 h00 h11 h01 ⟨1, 0, 0⟩ p
    rw [L_e0] at this; rw [this]; simp [V3.dot]
  rw [hc, hd]
  simp only [L, rx, V3.cross]
  congr 1 <;> ring

include h00 h11 h01 in
theorem rotate_L_y (θ : ℝ) (p : V3 ℝ) :
    rotate (L a0 a1 p) (quatRotAxis a1 θ) = L a0 a1 (ry θ p) := by
  rw [rotate_quatRotAxis a1 (L a0 a1 p) θ h11]
  have hc : V3.cross a1 (L a0 a1 p) = L a0 a1 (V3.cross ⟨0, 1, 0⟩ p) := by
    rw [← L_cross a0 a1 h00 h11 h01, L_e1]
  have hd : V3.dot a1 (L a0 a1 p) = p.y := by
    have := L_dot a0 a1 h00 h11 h01 ⟨0, 1, 0⟩ p
    rw [L_e1] at this; rw [this]; simp [V3.dot]
  rw [hc, hd]
  simp only [L, ry, V3.cross]
  congr 1 <;> ring

include h00 h11 h01 in
theorem L_normSq_cross : V3.dot (V3.cross a0 a1) (V3.cross a0 a1) = 1 :=
  cross_unit_normSq a0 a1 h00 h11 h01

include h00 h11 h01 in
theorem rotate_L_z (σ θ : ℝ) (hσ : σ * σ = 1) (p : V3 ℝ) :
    rotate (L a0 a1 p) (quatRotAxis (L a0 a1 ⟨0, 0, σ⟩) θ) = L a0 a1 (rz σ θ p) := by
  have hu : V3.dot (L a0 a1 ⟨0, 0, σ⟩) (L a0 a1 ⟨0, 0, σ⟩) = 1 := by
    rw [L_dot a0 a1 h00 h11 h01]; simp [V3.dot, hσ]
  rw [rotate_quatRotAxis _ (L a0 a1 p) θ hu, L_cross a0 a1 h00 h11 h01, L_dot a0 a1 h00 h11 h01]
  simp only [L, rz, V3.cross, V3.dot]
  congr 1
  · linear_combination ((1 - Real.cos θ) * p.z * (a0.y * a1.z - a0.z * a1.y)) * hσ
  · linear_combination ((1 - Real.cos θ) * p.z * (a0.z * a1.x - a0.x * a1.z)) * hσ
  · linear_combination ((1 - Real.cos θ) * p.z * (a0.x * a1.y - a0.y * a1.x)) * hσ

theorem L_scale (k : ℝ) (u : V3 ℝ) :
    L a0 a1 ⟨k * u.x, k * u.y, k * u.z⟩
      = ⟨k * (L a0 a1 u).x, k * (L a0 a1 u).y, k * (L a0 a1 u).z⟩ := by
  simp only [L]; congr 1 <;> ring

include h00 h11 h01 in
theorem dot_a0_L (p : V3 ℝ) : V3.dot a0 (L a0 a1 p) = p.x := by
  have := L_dot a0 a1 h00 h11 h01 ⟨1, 0, 0⟩ p
  rw [L_e0] at this; rw [this]; simp [V3.dot]

include h00 h11 h01 in
theorem dot_a1_L (p : V3 ℝ) : V3.dot a1 (L a0 a1 p) = p.y := by
  have := L_dot a0 a1 h00 h11 h01 ⟨0, 1, 0⟩ p
  rw [L_e1] at this; rw [this]; simp [V3.dot]

include h00 h11 h01 in
theorem cross_L_a0 (p : V3 ℝ) : V3.cross (L a0 a1 p) a0 = L a0 a1 ⟨0, p.z, -p.y⟩ := by
  have := L_cross a0 a1 h00 h11 h01 p ⟨1, 0, 0⟩
  rw [L_e0] at this; rw [this]; congr 1; simp [V3.cross]

include h00 h11 h01 in
theorem cross_a1_L (p : V3 ℝ) : V3.cross a1 (L a0 a1 p) = L a0 a1 ⟨p.z, 0, -p.x⟩ := by
  have := L_cross a0 a1 h00 h11 h01 ⟨0, 1, 0⟩ p
  rw [L_e1] at this; rw [this]; congr 1; simp [V3.cross]

include h00 h11 h01 in
/-- normalising `k·u` (coordinates, `u` unit, `k > 0`) gives `u` -/
theorem normalize3_L_scale (k : ℝ) (u : V3 ℝ) (hu : V3.dot u u = 1) (hk : 1e-7 < k) :
    normalize3 (L a0 a1 ⟨k * u.x, k * u.y, k * u.z⟩) = L a0 a1 u := by
  rw [L_scale]
  exact normalize3_pos_scale (L a0 a1 u) k (by rw [L_dot a0 a1 h00 h11 h01, hu]) hk

include h00 h11 h01 in
/-- the three child axes of the frame under `R(a0,q0)·R(a1,q1)` in coordinates -/
theorem child_hh (q0 q1 : ℝ) (e : V3 ℝ) :
    rotate (L a0 a1 e) (quatMul (quatRotAxis a0 q0) (quatRotAxis a1 q1))
      = L a0 a1 (rx q0 (ry q1 e)) := by
  rw [rotate_quatMul, rotate_L_y a0 a1 h00 h11 h01, rotate_L_x a0 a1 h00 h11 h01]

include h00 h11 h01 in
/-- `psi` and `theta` of `axis_angle_ang` for the frame `(a0, a1, a0×a1)` under `R(a0,q0)·R(a1,q1)` -/
theorem hinge2_angles (p : V3 ℝ) (q0 q1 par : ℝ) (hq0 : -Real.pi < q0) (hq0' : q0 ≤ Real.pi)
    (hq1 : |q1| ≤ 6 / 5) :
    (axisAngleAng ⟨p, quatMul (quatRotAxis a0 q0) (quatRotAxis a1 q1)⟩
        ⟨a0, a1, V3.cross a0 a1⟩ par).2.psi = q0
    ∧ (axisAngleAng ⟨p, quatMul (quatRotAxis a0 q0) (quatRotAxis a1 q1)⟩
        ⟨a0, a1, V3.cross a0 a1⟩ par).2.theta = q1 := by
  have hcos := cos_ge_of_abs_le q1 hq1
  have hpi : |q1| < Real.pi := lt_of_le_of_lt hq1 (by linarith [Real.two_le_pi])
  have hcs0 := Real.sin_sq_add_cos_sq q0
  have hcs1 := Real.sin_sq_add_cos_sq q1
  have hc0 := child_hh a0 a1 h00 h11 h01 q0 q1 ⟨1, 0, 0⟩
  have hc1 := child_hh a0 a1 h00 h11 h01 q0 q1 ⟨0, 1, 0⟩
  have hc2 := child_hh a0 a1 h00 h11 h01 q0 q1 ⟨0, 0, 1⟩
  rw [L_e0] at hc0; rw [L_e1] at hc1; rw [L_e2] at hc2
  -- line of nodes
  have hlon : normalize3 (V3.cross (L a0 a1 (rx q0 (ry q1 ⟨0, 0, 1⟩))) a0)
      = L a0 a1 ⟨0, Real.cos q0, Real.sin q0⟩ := by
    rw [cross_L_a0 a0 a1 h00 h11 h01]
    have : (⟨0, (rx q0 (ry q1 ⟨0, 0, 1⟩)).z, -(rx q0 (ry q1 ⟨0, 0, 1⟩)).y⟩ : V3 ℝ)
        = ⟨Real.cos q1 * 0, Real.cos q1 * Real.cos q0, Real.cos q1 * Real.sin q0⟩ := by
      simp only [rx, ry]; congr 1 <;> ring
    rw [this]
    exact normalize3_L_scale a0 a1 h00 h11 h01 (Real.cos q1) ⟨0, Real.cos q0, Real.sin q0⟩
      (by simp only [V3.dot]; linear_combination hcs0) (by norm_num; linarith)
  constructor
  · simp only [axisAngleAng]
    rw [hc2, hlon]
    simp only [signedAngle]
    rw [cross_a1_L a0 a1 h00 h11 h01, dot_comm _ a0, dot_a0_L a0 a1 h00 h11 h01,
      dot_a1_L a0 a1 h00 h11 h01]
    exact atan2_sin_cos q0 hq0 hq0'
  · simp only [axisAngleAng]
    rw [hc0, hc1, hc2, dot_a0_L a0 a1 h00 h11 h01, dot_a0_L a0 a1 h00 h11 h01,
      dot_a0_L a0 a1 h00 h11 h01]
    have hk0x : (rx q0 (ry q1 ⟨1, 0, 0⟩)).x = Real.cos q1 := by simp [rx, ry]
    have hk1x : (rx q0 (ry q1 ⟨0, 1, 0⟩)).x = 0 := by simp [rx, ry]
    have hk2x : (rx q0 (ry q1 ⟨0, 0, 1⟩)).x = Real.sin q1 := by simp [rx, ry]
    rw [hk0x, hk1x, hk2x]
    have hraw : (⟨Real.cos q1 * (L a0 a1 (rx q0 (ry q1 ⟨1, 0, 0⟩))).x + 0 * (L a0 a1 (rx q0 (ry q1 ⟨0, 1, 0⟩))).x,
        Real.cos q1 * (L a0 a1 (rx q0 (ry q1 ⟨1, 0, 0⟩))).y + 0 * (L a0 a1 (rx q0 (ry q1 ⟨0, 1, 0⟩))).y,
        Real.cos q1 * (L a0 a1 (rx q0 (ry q1 ⟨1, 0, 0⟩))).z + 0 * (L a0 a1 (rx q0 (ry q1 ⟨0, 1, 0⟩))).z⟩ : V3 ℝ)
        = ⟨Real.cos q1 * (L a0 a1 (rx q0 (ry q1 ⟨1, 0, 0⟩))).x,
           Real.cos q1 * (L a0 a1 (rx q0 (ry q1 ⟨1, 0, 0⟩))).y,
           Real.cos q1 * (L a0 a1 (rx q0 (ry q1 ⟨1, 0, 0⟩))).z⟩ := by
      congr 1 <;> ring
    have hunit : V3.dot (L a0 a1 (rx q0 (ry q1 ⟨1, 0, 0⟩))) (L a0 a1 (rx q0 (ry q1 ⟨1, 0, 0⟩))) = 1 := by
      rw [L_dot a0 a1 h00 h11 h01]; simp only [rx, ry, V3.dot]
      linear_combination hcs1 + (Real.sin q1 ^ 2) * hcs0
    rw [hraw, normalize3_pos_scale _ _ hunit (by norm_num; linarith), dot_comm _ a0,
      dot_a0_L a0 a1 h00 h11 h01, hk0x]
    have hclip : clip (Real.cos q1) (-1) 1 = Real.cos q1 := by
      rw [clip_eq, max_eq_left (Real.neg_one_le_cos q1), min_eq_left (Real.cos_le_one q1)]
    rw [hclip]
    show Real.arccos (Real.cos q1) * signv (Real.sin q1) = q1
    rw [arccos_cos_abs q1 (le_of_lt hpi)]
    exact abs_mul_signv_sin q1 hpi

include h00 h11 h01 in
/-- `x_dof` on two stacked hinges with orthonormal axes: the coordinates are `(q0, q1)` -/
theorem xDof_two_hinges (p : V3 ℝ) (q0 q1 : ℝ) (jd : Motion ℝ) (pidx : Int)
    (hq0 : -Real.pi < q0) (hq0' : q0 ≤ Real.pi) (hq1 : |q1| ≤ 6 / 5) :
    ∃ qd', xDof ⟨p, quatMul (quatRotAxis a0 q0) (quatRotAxis a1 q1)⟩ jd pidx
        [⟨a0, ⟨0, 0, 0⟩⟩, ⟨a1, ⟨0, 0, 0⟩⟩] = some ([q0, q1], qd') := by
  have hany0 : v3Any a0 = true := v3Any_of_ne a0 (by rw [h00]; norm_num)
  have hany1 : v3Any a1 = true := v3Any_of_ne a1 (by rw [h11]; norm_num)
  have hang := hinge2_angles a0 a1 h00 h11 h01 p q0 q1 1 hq0 hq0' hq1
  simp only [xDof, linkToJointFrame, hany0, hany1, v3Any_zero, Bool.or_false, Bool.or_self,
    Bool.and_false, Bool.false_eq_true, if_false, if_true]
  simp only [List.zip_cons_cons, List.zip_nil_right, List.zipWith_cons_cons, List.zipWith_nil_right,
    List.map_cons, List.map_nil, hany0, hany1, if_true, hang.1, hang.2]
  exact ⟨_, rfl⟩

include h00 h11 h01 in
theorem child_hhh (σ q0 q1 q2 : ℝ) (hσ : σ * σ = 1) (e : V3 ℝ) :
    rotate (L a0 a1 e) (quatMul (quatMul (quatRotAxis a0 q0) (quatRotAxis a1 q1))
        (quatRotAxis (L a0 a1 ⟨0, 0, σ⟩) q2))
      = L a0 a1 (rx q0 (ry q1 (rz σ q2 e))) := by
  rw [rotate_quatMul, rotate_L_z a0 a1 h00 h11 h01 σ q2 hσ, child_hh a0 a1 h00 h11 h01]

include h00 h11 h01 in
/-- `psi`, `theta`, `phi` of `axis_angle_ang` for the frame `(a0, a1, a0×a1)` with parity `σ = ±1`
under `R(a0,q0)·R(a1,q1)·R(σ a0×a1, q2)` -/
theorem hinge3_angles (p : V3 ℝ) (σ q0 q1 q2 : ℝ) (hσ : σ * σ = 1)
    (hq0 : -Real.pi < q0) (hq0' : q0 ≤ Real.pi) (hq1 : |q1| ≤ 6 / 5)
    (hq2 : -Real.pi < q2) (hq2' : q2 ≤ Real.pi) :
    let r := axisAngleAng ⟨p, quatMul (quatMul (quatRotAxis a0 q0) (quatRotAxis a1 q1))
        (quatRotAxis (L a0 a1 ⟨0, 0, σ⟩) q2)⟩ ⟨a0, a1, V3.cross a0 a1⟩ σ
    r.2.psi = q0 ∧ r.2.theta = q1 ∧ r.2.phi = q2 := by
  intro r
  have hcos := cos_ge_of_abs_le q1 hq1
  have hpi : |q1| < Real.pi := lt_of_le_of_lt hq1 (by linarith [Real.two_le_pi])
  have hcs0 := Real.sin_sq_add_cos_sq q0
  have hcs1 := Real.sin_sq_add_cos_sq q1
  have hcs2 := Real.sin_sq_add_cos_sq q2
  have hc0 := child_hhh a0 a1 h00 h11 h01 σ q0 q1 q2 hσ ⟨1, 0, 0⟩
  have hc1 := child_hhh a0 a1 h00 h11 h01 σ q0 q1 q2 hσ ⟨0, 1, 0⟩
  have hc2 := child_hhh a0 a1 h00 h11 h01 σ q0 q1 q2 hσ ⟨0, 0, 1⟩
  rw [L_e0] at hc0; rw [L_e1] at hc1; rw [L_e2] at hc2
  have hK2 : rx q0 (ry q1 (rz σ q2 ⟨0, 0, 1⟩)) = rx q0 (ry q1 ⟨0, 0, 1⟩) := by simp [rz]
  rw [hK2] at hc2
  -- line of nodes (as for two hinges)
  have hlon : normalize3 (V3.cross (L a0 a1 (rx q0 (ry q1 ⟨0, 0, 1⟩))) a0)
      = L a0 a1 ⟨0, Real.cos q0, Real.sin q0⟩ := by
    rw [cross_L_a0 a0 a1 h00 h11 h01]
    have : (⟨0, (rx q0 (ry q1 ⟨0, 0, 1⟩)).z, -(rx q0 (ry q1 ⟨0, 0, 1⟩)).y⟩ : V3 ℝ)
        = ⟨Real.cos q1 * 0, Real.cos q1 * Real.cos q0, Real.cos q1 * Real.sin q0⟩ := by
      simp only [rx, ry]; congr 1 <;> ring
    rw [this]
    exact normalize3_L_scale a0 a1 h00 h11 h01 (Real.cos q1) ⟨0, Real.cos q0, Real.sin q0⟩
      (by simp only [V3.dot]; linear_combination hcs0) (by norm_num; linarith)
  refine ⟨?_, ?_, ?_⟩
  · simp only [r, axisAngleAng]
    rw [hc2, hlon]
    simp only [signedAngle]
    rw [cross_a1_L a0 a1 h00 h11 h01, dot_comm _ a0, dot_a0_L a0 a1 h00 h11 h01,
      dot_a1_L a0 a1 h00 h11 h01]
    exact atan2_sin_cos q0 hq0 hq0'
  · simp only [r, axisAngleAng]
    rw [hc0, hc1, hc2, dot_a0_L a0 a1 h00 h11 h01, dot_a0_L a0 a1 h00 h11 h01,
      dot_a0_L a0 a1 h00 h11 h01]
    -- the projected first axis is `cos q1` times the first child axis of the two-hinge frame
    have hraw : (⟨(rx q0 (ry q1 (rz σ q2 ⟨1, 0, 0⟩))).x * (L a0 a1 (rx q0 (ry q1 (rz σ q2 ⟨1, 0, 0⟩)))).x
          + (rx q0 (ry q1 (rz σ q2 ⟨0, 1, 0⟩))).x * (L a0 a1 (rx q0 (ry q1 (rz σ q2 ⟨0, 1, 0⟩)))).x,
        (rx q0 (ry q1 (rz σ q2 ⟨1, 0, 0⟩))).x * (L a0 a1 (rx q0 (ry q1 (rz σ q2 ⟨1, 0, 0⟩)))).y
          + (rx q0 (ry q1 (rz σ q2 ⟨0, 1, 0⟩))).x * (L a0 a1 (rx q0 (ry q1 (rz σ q2 ⟨0, 1, 0⟩)))).y,
        (rx q0 (ry q1 (rz σ q2 ⟨1, 0, 0⟩))).x * (L a0 a1 (rx q0 (ry q1 (rz σ q2 ⟨1, 0, 0⟩)))).z
          + (rx q0 (ry q1 (rz σ q2 ⟨0, 1, 0⟩))).x * (L a0 a1 (rx q0 (ry q1 (rz σ q2 ⟨0, 1, 0⟩)))).z⟩ : V3 ℝ)
        = L a0 a1 ⟨Real.cos q1 * (rx q0 (ry q1 ⟨1, 0, 0⟩)).x, Real.cos q1 * (rx q0 (ry q1 ⟨1, 0, 0⟩)).y,
            Real.cos q1 * (rx q0 (ry q1 ⟨1, 0, 0⟩)).z⟩ := by
      rw [← L_lin]
      congr 1
      simp only [rx, ry, rz]
      congr 1
      · linear_combination (Real.cos q1 ^ 2) * ((Real.sin q2 ^ 2) * hσ + hcs2)
      · linear_combination (Real.cos q1 * Real.sin q0 * Real.sin q1) * ((Real.sin q2 ^ 2) * hσ + hcs2)
      · linear_combination (-(Real.cos q1 * Real.cos q0 * Real.sin q1)) * ((Real.sin q2 ^ 2) * hσ + hcs2)
    have hunit : V3.dot (rx q0 (ry q1 ⟨1, 0, 0⟩)) (rx q0 (ry q1 ⟨1, 0, 0⟩)) = 1 := by
      simp only [rx, ry, V3.dot]
      linear_combination hcs1 + (Real.sin q1 ^ 2) * hcs0
    rw [hraw, normalize3_L_scale a0 a1 h00 h11 h01 _ _ hunit (by norm_num; linarith), dot_comm _ a0,
      dot_a0_L a0 a1 h00 h11 h01]
    have hk0x : (rx q0 (ry q1 ⟨1, 0, 0⟩)).x = Real.cos q1 := by simp [rx, ry]
    have hk2x : (rx q0 (ry q1 ⟨0, 0, 1⟩)).x = Real.sin q1 := by simp [rx, ry]
    rw [hk0x, hk2x]
    have hclip : clip (Real.cos q1) (-1) 1 = Real.cos q1 := by
      rw [clip_eq, max_eq_left (Real.neg_one_le_cos q1), min_eq_left (Real.cos_le_one q1)]
    rw [hclip]
    show Real.arccos (Real.cos q1) * signv (Real.sin q1) = q1
    rw [arccos_cos_abs q1 (le_of_lt hpi)]
    exact abs_mul_signv_sin q1 hpi
  · simp only [r, axisAngleAng]
    rw [hc1, hc2, hlon]
    simp only [signedAngle]
    have hycn : (⟨-(L a0 a1 (rx q0 (ry q1 ⟨0, 0, 1⟩))).x * σ, -(L a0 a1 (rx q0 (ry q1 ⟨0, 0, 1⟩))).y * σ,
        -(L a0 a1 (rx q0 (ry q1 ⟨0, 0, 1⟩))).z * σ⟩ : V3 ℝ)
        = L a0 a1 ⟨(-σ) * (rx q0 (ry q1 ⟨0, 0, 1⟩)).x, (-σ) * (rx q0 (ry q1 ⟨0, 0, 1⟩)).y,
            (-σ) * (rx q0 (ry q1 ⟨0, 0, 1⟩)).z⟩ := by
      rw [L_scale]; congr 1 <;> ring
    rw [hycn, L_cross a0 a1 h00 h11 h01, L_dot a0 a1 h00 h11 h01, L_dot a0 a1 h00 h11 h01]
    have hy : V3.dot (V3.cross (rx q0 (ry q1 (rz σ q2 ⟨0, 1, 0⟩))) ⟨0, Real.cos q0, Real.sin q0⟩)
        ⟨(-σ) * (rx q0 (ry q1 ⟨0, 0, 1⟩)).x, (-σ) * (rx q0 (ry q1 ⟨0, 0, 1⟩)).y,
          (-σ) * (rx q0 (ry q1 ⟨0, 0, 1⟩)).z⟩ = Real.sin q2 := by
      simp only [rx, ry, rz, V3.dot, V3.cross]
      linear_combination Real.sin q2 * ((Real.sin q0 ^ 2 + Real.cos q0 ^ 2)
        * (Real.sin q1 ^ 2 + Real.cos q1 ^ 2) * hσ + (Real.sin q1 ^ 2 + Real.cos q1 ^ 2) * hcs0 + hcs1)
    have hx : V3.dot (rx q0 (ry q1 (rz σ q2 ⟨0, 1, 0⟩))) ⟨0, Real.cos q0, Real.sin q0⟩ = Real.cos q2 := by
      simp only [rx, ry, rz, V3.dot]
      linear_combination Real.cos q2 * hcs0
    rw [hy, hx]
    exact atan2_sin_cos q2 hq2 hq2'

include h00 h11 h01 in
/-- `x_dof` on three stacked hinges with orthonormal axes of either handedness (`a2 = σ·a0×a1`) -/
theorem xDof_three_hinges (p : V3 ℝ) (σ q0 q1 q2 : ℝ) (hσ : σ * σ = 1) (jd : Motion ℝ) (pidx : Int)
    (hq0 : -Real.pi < q0) (hq0' : q0 ≤ Real.pi) (hq1 : |q1| ≤ 6 / 5)
    (hq2 : -Real.pi < q2) (hq2' : q2 ≤ Real.pi) :
    ∃ qd', xDof ⟨p, quatMul (quatMul (quatRotAxis a0 q0) (quatRotAxis a1 q1))
          (quatRotAxis (L a0 a1 ⟨0, 0, σ⟩) q2)⟩ jd pidx
        [⟨a0, ⟨0, 0, 0⟩⟩, ⟨a1, ⟨0, 0, 0⟩⟩, ⟨L a0 a1 ⟨0, 0, σ⟩, ⟨0, 0, 0⟩⟩] = some ([q0, q1, q2], qd') := by
  have hany0 : v3Any a0 = true := v3Any_of_ne a0 (by rw [h00]; norm_num)
  have hany1 : v3Any a1 = true := v3Any_of_ne a1 (by rw [h11]; norm_num)
  have hany2 : v3Any (L a0 a1 ⟨0, 0, σ⟩) = true := v3Any_of_ne _ (by
    rw [L_dot a0 a1 h00 h11 h01]; simp [V3.dot, hσ])
  have hpar : V3.dot (V3.cross a0 a1) (L a0 a1 ⟨0, 0, σ⟩) = σ := by
    rw [← L_e2 a0 a1, L_dot a0 a1 h00 h11 h01]; simp [V3.dot]
  have hang := hinge3_angles a0 a1 h00 h11 h01 p σ q0 q1 q2 hσ hq0 hq0' hq1 hq2 hq2'
  simp only at hang
  simp only [xDof, linkToJointFrame, hany0, hany1, hany2, v3Any_zero, Bool.or_false, Bool.or_self,
    Bool.and_false, Bool.false_eq_true, if_false, if_true, hpar]
  simp only [List.zip_cons_cons, List.zip_nil_right, List.zipWith_cons_cons, List.zipWith_nil_right,
    List.map_cons, List.map_nil, hany0, hany1, hany2, if_true, hang.1, hang.2.1, hang.2.2]
  exact ⟨_, rfl⟩

end frame

theorem jcalc_two_hinges (d0 d1 : DofP ℝ) (a0 a1 : V3 ℝ) (q0 q1 qd0 qd1 : ℝ)
    (hd0 : d0.motion = ⟨a0, ⟨0, 0, 0⟩⟩) (hd1 : d1.motion = ⟨a1, ⟨0, 0, 0⟩⟩)
    (h00 : V3.dot a0 a0 = 1) (h11 : V3.dot a1 a1 = 1) :
    (Kin.jcalc ⟨.two, [q0, q1], [qd0, qd1], [d0, d1]⟩).1
      = ⟨⟨0, 0, 0⟩, quatMul (quatRotAxis a0 q0) (quatRotAxis a1 q1)⟩ := by
  simp only [Kin.jcalc, List.zip_cons_cons, List.zip_nil_right, List.map_cons, List.map_nil,
    List.foldl_cons, List.foldl_nil, Kin.jcalcDof, Kin.jcalcAcc, hd0, hd1,
    normalize4_unit _ (quatRotAxis_normSq a0 q0 h00), normalize4_unit _ (quatRotAxis_normSq a1 q1 h11)]
  simp only [Tf.doTf, zero_mul, V3.add_def, zero_add]
  rw [rotate_zero]

theorem jcalc_three_hinges (d0 d1 d2 : DofP ℝ) (a0 a1 a2 : V3 ℝ) (q0 q1 q2 qd0 qd1 qd2 : ℝ)
    (hd0 : d0.motion = ⟨a0, ⟨0, 0, 0⟩⟩) (hd1 : d1.motion = ⟨a1, ⟨0, 0, 0⟩⟩)
    (hd2 : d2.motion = ⟨a2, ⟨0, 0, 0⟩⟩)
    (h00 : V3.dot a0 a0 = 1) (h11 : V3.dot a1 a1 = 1) (h22 : V3.dot a2 a2 = 1) :
    (Kin.jcalc ⟨.three, [q0, q1, q2], [qd0, qd1, qd2], [d0, d1, d2]⟩).1
      = ⟨⟨0, 0, 0⟩, quatMul (quatMul (quatRotAxis a0 q0) (quatRotAxis a1 q1)) (quatRotAxis a2 q2)⟩ := by
  simp only [Kin.jcalc, List.zip_cons_cons, List.zip_nil_right, List.map_cons, List.map_nil,
    List.foldl_cons, List.foldl_nil, Kin.jcalcDof, Kin.jcalcAcc, hd0, hd1, hd2,
    normalize4_unit _ (quatRotAxis_normSq a0 q0 h00), normalize4_unit _ (quatRotAxis_normSq a1 q1 h11),
    normalize4_unit _ (quatRotAxis_normSq a2 q2 h22)]
  simp only [Tf.doTf, zero_mul, V3.add_def, zero_add]
  rw [rotate_zero, rotate_zero]
  simp only [add_zero]

/-! ## concrete data for the non-vacuity examples -/

/-- a link with an offset, a rotated frame (unit quaternion `(3/5, 0, 4/5, 0)`) and an anchor away
from the link origin -/
noncomputable def exLk : LinkP ℝ :=
  { tf := ⟨⟨1, 2, 3⟩, ⟨3 / 5, 0, 4 / 5, 0⟩⟩, joint := ⟨⟨1 / 2, 0, -1 / 3⟩, ⟨1, 0, 0, 0⟩⟩,
    inertia := ⟨⟨⟨0, 0, 0⟩, ⟨1, 0, 0, 0⟩⟩, ⟨⟨1, 0, 0⟩, ⟨0, 1, 0⟩, ⟨0, 0, 1⟩⟩, 1⟩,
    invweight := 1, cStiffness := 0, cVelDamping := 0, cLimitStiffness := 0, cAngDamping := 0 }

/-- a parent link turned by the unit quaternion `(0, 1, 0, 0)`, translating and rotating -/
noncomputable def exParent : Tf ℝ × Motion ℝ := (⟨⟨-1, 0, 2⟩, ⟨0, 1, 0, 0⟩⟩, ⟨⟨1, -2, 1 / 2⟩, ⟨3, 0, 1⟩⟩)

noncomputable def exDof (ang vel : V3 ℝ) : DofP ℝ :=
  { motion := ⟨ang, vel⟩, armature := 0, stiffness := 0, damping := 0, lo := none, hi := none,
    invweight := 1 }

end Real
end Brax.Inv
