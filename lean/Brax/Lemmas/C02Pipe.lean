import Brax.Lemmas.C02Inertia
/-!
# C02 helper lemmas: shapes and element-wise facts of what `pipeline.init` computes
(so that the hypotheses of the mass-matrix theorems are discharged for the actual pipeline)
-/
set_option linter.unusedSectionVars false
set_option linter.unusedSimpArgs false
namespace Brax.Gd
open Brax Kin

section symm
variable {K : Type} [Field K]

/-- moving a symmetric inertia with `Transform.do` keeps it symmetric -/
theorem cinrLink_symm (xi : Tf K) (com : V3 K) (it : Inertia K) (h : SymmI it) :
    SymmI (cinrLink xi com it) := by
  obtain ⟨h1, h2, h3⟩ := h
  unfold SymmI cinrLink Tf.doInertia
  simp only
  generalize quatTo3x3 xi.rot = Rm
  obtain ⟨⟨r00, r01, r02⟩, ⟨r10, r11, r12⟩, ⟨r20, r21, r22⟩⟩ := Rm
  simp only [M3.add, M3.smul, M3.mul, M3.transpose, M3.col0, M3.col1, M3.col2, V3.cross, V3.dot,
    V3.smul, V3.add_def, V3.sub_def]
  refine ⟨?_, ?_, ?_⟩
  · linear_combination (r00 * r11 - r01 * r10) * h1 + (r00 * r12 - r02 * r10) * h2
      + (r01 * r12 - r02 * r11) * h3
  · linear_combination (r00 * r21 - r01 * r20) * h1 + (r00 * r22 - r02 * r20) * h2
      + (r01 * r22 - r02 * r21) * h3
  · linear_combination (r10 * r21 - r11 * r20) * h1 + (r10 * r22 - r12 * r20) * h2
      + (r11 * r22 - r12 * r21) * h3

end symm

/-! ## shapes -/
section shapes
variable {α : Type}

theorem cdofStack_length [Zero α] [One α] [Add α] [Sub α] [Mul α] [Neg α] [Div α]
    [LT α] [DecidableLT α] [LE α] [DecidableLE α] [OfScientific α] [HasSqrt α] [HasTrig α] :
    ∀ (dqs : List (DofP α × α)) (J : Tf α), (cdofStack dqs J).length = dqs.length
  | [], _ => rfl
  | _ :: rest, J => by simp [cdofStack, cdofStack_length rest]

theorem linkSlices_dofs_mem : ∀ (ts : List LinkType) (q qd : List α) (ds : List (DofP α)),
    ∀ l ∈ linkSlices ts q qd ds, ∀ d ∈ l.dofs, d ∈ ds
  | [], _, _, _, l, h, _, _ => by simp [linkSlices] at h
  | t :: ts, q, qd, ds, l, h, d, hd => by
    simp only [linkSlices, List.mem_cons] at h
    rcases h with rfl | h
    · exact List.mem_of_mem_take hd
    · exact List.mem_of_mem_drop (linkSlices_dofs_mem ts _ _ _ l h d hd)

theorem getD_zipWith {β γ δ : Type} (f : β → γ → δ) (as : List β) (bs : List γ) (d : δ) (i : Nat)
    (ha : i < as.length) (hb : i < bs.length) :
    (List.zipWith f as bs).getD i d = f as[i] bs[i] := by
  rw [List.getD_eq_getElem?_getD, List.getElem?_zipWith, List.getElem?_eq_getElem ha,
    List.getElem?_eq_getElem hb]
  rfl

end shapes

section pipe

theorem rootIdx_length (ps : List Int) : (rootIdx ps).length = ps.length := by
  unfold rootIdx; rw [scanFwd_length]; simp

theorem rootCom_length (ps : List Int) (mass : List ℝ) (xi : List (Tf ℝ)) :
    (rootCom ps mass xi).length = ps.length := by
  unfold rootCom; simp [rootIdx_length]

theorem parentIdx_length (ts : List LinkType) (ps : List Int) (h : ps.length = ts.length) :
    (parentIdx ts ps).length = ts.length := by
  unfold parentIdx; simp [h]

theorem jointFrames_length (s : Sys ℝ) (x : List (Tf ℝ)) (hps : s.parents.length = s.types.length)
    (hlk : s.links.length = s.types.length) : (jointFrames s x).length = s.types.length := by
  unfold jointFrames; simp [parentIdx_length _ _ hps, hlk]

theorem forward_length (s : Sys ℝ) (q qd : List ℝ) (hps : s.parents.length = s.types.length)
    (hlk : s.links.length = s.types.length) : (Kin.forward s q qd).length = s.types.length := by
  unfold Kin.forward
  simp only [List.length_map]
  rw [scanFwd_length]
  simp [linkSlices_length, hps, hlk]

/-- shapes of what `transform_com` returns -/
theorem transformCom_lengths (s : Sys ℝ) (x : List (Tf ℝ)) (q qd : List ℝ)
    (hx : x.length = s.types.length) (hps : s.parents.length = s.types.length)
    (hlk : s.links.length = s.types.length) :
    (transformCom s x q qd).cinr.length = s.types.length
      ∧ (transformCom s x q qd).cdof.length = s.types.length := by
  unfold transformCom
  simp only
  constructor
  · simp [rootCom_length, hx, hps, hlk]
  · simp [rootCom_length, linkSlices_length, jointFrames_length s x hps hlk, hps]

/-- every `cinr` entry is a link inertia moved by `cinrLink` -/
theorem transformCom_cinr_mem (s : Sys ℝ) (x : List (Tf ℝ)) (q qd : List ℝ) :
    ∀ I ∈ (transformCom s x q qd).cinr, ∃ xi com, ∃ lk ∈ s.links, I = cinrLink xi com lk.inertia := by
  intro I hI
  unfold transformCom at hI
  simp only at hI
  obtain ⟨tc, _, lk, hlk, rfl⟩ := mem_zipWith _ _ _ _ hI
  exact ⟨tc.1, tc.2, lk, hlk, rfl⟩

theorem ke_dI (v : Motion ℝ) : ke (dI : Inertia ℝ) v = 0 := by
  simp only [ke, bil, dI, Motion.dotF, Inertia.mul, M3.mulVec, M3.zero, V3.zero, Tf.id, V3.dot, V3.cross,
    V3.smul, V3.add_def, V3.sub_def]
  ring

/-- the `cdof` rows of link `l` are at most as many as its dofs -/
theorem cdofLink_length_le (l : LinkIn ℝ) (j : Tf ℝ) (c : V3 ℝ) :
    (cdofLink l j c).length ≤ l.dofs.length := by
  unfold cdofLink cdofLocal
  cases l.typ
  · simp
  all_goals simp [cdofStack_length]

end pipe
end Brax.Gd
