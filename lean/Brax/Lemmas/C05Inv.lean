import Brax.Lemmas.C05PermPos
import Brax.Lemmas.C08Forest
/-!
# C05 — the hypotheses on the abstract `kinematics.inverse` discharged with its model

The whole-step theorems of `Props/C05.lean` take `kinematics.inverse` as a parameter `inv` and assume
`InvLocal`, `InvSplit`, `InvLen` about it.  Here these are proved for the model `Inv.inverse`
(`Model/C08.lean`), used through `C04I.invModel s = (Inv.inverse s · ·).getD ([], [])`.

**The literal hypotheses are false of `invModel`** (not of the code): `InvLocal` and `InvSplit` quantify over
joint arrays of *any* length, and `Inv.inverse` answers `none` (the model of "shapes do not match")
when `j`/`jd` do not have one row per link — so e.g. `invModel s [] [] = ([], [])` although `[]`
"agrees with" a full `j'` on every row that exists.  (`Props/C05Inv.lean`, `invModel_not_invLocal`,
`invModel_not_invSplit`.)  The pipelines only ever call `inv` on arrays with one row per link.  So:

* `invT s` — the same per-link computation without the shape guard (row `i` is computed from
  `nth j i`, `nth jd i`).  `invModel_eq_invT`: on a well-formed system and arrays with one row per link
  `invModel s = invT s`.
* `invT_invLocal`, `invT_invSplit`, `invT_invLen`: the three hypotheses hold **literally** for `invT`.
* `steps_congr`, `psteps_congr`, `trajClear_congr`: a trajectory only evaluates `inv` on arrays with one
  row per link, so trajectories with `invModel s` and with `invT s` coincide.

`InvLocal` additionally needs `ActsOnJoints s`: every actuator reads/drives a coordinate of a link that
is not a free joint (the `q`/`qd` slice of a free root *is* its pose, which the rigid transform changes).
-/
set_option linter.unusedSectionVars false
set_option linter.unusedSimpArgs false
set_option linter.unusedVariables false
namespace Brax.C05Inv
open Brax MC C04L C05L C05P C05Perm C04I

local instance : Inhabited LinkType := ⟨.one⟩
local instance : Inhabited (Kin.LinkIn ℝ) := ⟨⟨.one, [], [], []⟩⟩

/-! ## the per-link body of `kinematics.inverse`, totalised -/

/-- `q_fn` of one link (`Inv.inverseLink`); `([], [])` stands for the `AssertionError` of
`link_to_joint_frame`, which `linkInv_len` shows unreachable when the link has as many dofs as its type -/
noncomputable def linkInv (a : Kin.LinkIn ℝ × Int × Tf ℝ × Motion ℝ) : List ℝ × List ℝ :=
  (Inv.inverseLink a.1.typ a.2.2.1 a.2.2.2 a.2.1 (a.1.dofs.map (·.motion))).getD ([], [])

theorem xDof_len (j : Tf ℝ) (jd : Motion ℝ) (p : Int) (ms : List (Motion ℝ))
    (h1 : 1 ≤ ms.length) (h3 : ms.length ≤ 3) :
    ∃ r, Inv.xDof j jd p ms = some r ∧ r.1.length = ms.length ∧ r.2.length = ms.length := by
  match ms, h1, h3 with
  | [m0], _, _ => exact ⟨_, rfl, rfl, rfl⟩
  | [m0, m1], _, _ => exact ⟨_, rfl, rfl, rfl⟩
  | [m0, m1, m2], _, _ => exact ⟨_, rfl, rfl, rfl⟩

theorem inverseLink_len (t : LinkType) (j : Tf ℝ) (jd : Motion ℝ) (p : Int) (ms : List (Motion ℝ))
    (h : ms.length = t.qdWidth) :
    ∃ r, Inv.inverseLink t j jd p ms = some r ∧ r.1.length = t.qWidth ∧ r.2.length = t.qdWidth := by
  cases t with
  | free => exact ⟨_, rfl, rfl, rfl⟩
  | one =>
    simp only [Inv.inverseLink, h, if_true]
    obtain ⟨r, hr, h1, h2⟩ := xDof_len j jd p ms (by rw [h]; decide) (by rw [h]; decide)
    exact ⟨r, hr, by rw [h1, h]; rfl, by rw [h2, h]⟩
  | two =>
    simp only [Inv.inverseLink, h, if_true]
    obtain ⟨r, hr, h1, h2⟩ := xDof_len j jd p ms (by rw [h]; decide) (by rw [h]; decide)
    exact ⟨r, hr, by rw [h1, h]; rfl, by rw [h2, h]⟩
  | three =>
    simp only [Inv.inverseLink, h, if_true]
    obtain ⟨r, hr, h1, h2⟩ := xDof_len j jd p ms (by rw [h]; decide) (by rw [h]; decide)
    exact ⟨r, hr, by rw [h1, h]; rfl, by rw [h2, h]⟩

/-- a link with as many dofs as its type asks for: `q_fn` succeeds, and returns `Q_WIDTHS[typ]`
positions and `QD_WIDTHS[typ]` velocities -/
theorem linkInv_spec (a : Kin.LinkIn ℝ × Int × Tf ℝ × Motion ℝ) (h : a.1.dofs.length = a.1.typ.qdWidth) :
    Inv.inverseLink a.1.typ a.2.2.1 a.2.2.2 a.2.1 (a.1.dofs.map (·.motion)) = some (linkInv a)
    ∧ (linkInv a).1.length = a.1.typ.qWidth ∧ (linkInv a).2.length = a.1.typ.qdWidth := by
  obtain ⟨r, hr, h1, h2⟩ := inverseLink_len a.1.typ a.2.2.1 a.2.2.2 a.2.1 (a.1.dofs.map (·.motion))
    (by rw [List.length_map]; exact h)
  unfold linkInv
  rw [hr]
  exact ⟨rfl, h1, h2⟩

/-- `q_fn` reads the parent index only through the test `parent_idx == -1` -/
theorem linkInv_parent (l : Kin.LinkIn ℝ) (p p' : Int) (x : Tf ℝ) (y : Motion ℝ)
    (h : (p == -1) = (p' == -1)) : linkInv (l, p, x, y) = linkInv (l, p', x, y) := by
  unfold linkInv Inv.inverseLink Inv.xDof
  simp only [h]

/-! ## `kinematics.inverse` without the shape guard -/

/-- the rows `scan.link_types` hands to `q_fn`: link `i` gets its type and dofs, its parent index, and
row `i` of `j`, `jd` -/
noncomputable def invRow (s : Sys ℝ) (j : List (Tf ℝ)) (jd : List (Motion ℝ)) (i : Nat) :
    Kin.LinkIn ℝ × Int × Tf ℝ × Motion ℝ :=
  (nth (Kin.linkSlices s.types ([] : List ℝ) [] s.dofs) i, parentOf s.parents i, nth j i, nth jd i)

/-- **`kinematics.inverse`, row by row, without the shape guard** -/
noncomputable def invT (s : Sys ℝ) (j : List (Tf ℝ)) (jd : List (Motion ℝ)) : List ℝ × List ℝ :=
  ((tab s.numLinks fun i => (linkInv (invRow s j jd i)).1).flatten,
   (tab s.numLinks fun i => (linkInv (invRow s j jd i)).2).flatten)

theorem mapM_eq_map {β γ : Type} (f : β → Option γ) (g : β → γ) (l : List β)
    (h : ∀ a ∈ l, f a = some (g a)) : l.mapM f = some (l.map g) := by
  induction l with
  | nil => rfl
  | cons a l ih =>
    simp [List.mapM_cons, h a (by simp), ih (fun x hx => h x (by simp [hx]))]

theorem nth_zip {β γ : Type} [Inhabited β] [Inhabited γ] (a : List β) (b : List γ) {i : Nat}
    (ha : i < a.length) (hb : i < b.length) : nth (a.zip b) i = (nth a i, nth b i) := by
  simp [nth, List.getD_eq_getElem?_getD, List.getElem?_eq_getElem, ha, hb]

theorem nth_mem {β : Type} [Inhabited β] (a : List β) {i : Nat} (h : i < a.length) : nth a i ∈ a := by
  simp only [nth, List.getD_eq_getElem?_getD, List.getElem?_eq_getElem h, Option.getD_some]
  exact List.getElem_mem h

theorem parentOf_eq_nth (ps : List Int) {i : Nat} (h : i < ps.length) : parentOf ps i = nth ps i := by
  simp [parentOf, nth, List.getD_eq_getElem?_getD, List.getElem?_eq_getElem h]

/-- the slices of a system with `nv` dofs: slice `i` has the type of link `i` and as many dofs as that
type asks for -/
theorem slice_ok (s : Sys ℝ) (hd : s.dofs.length = s.nv) {i : Nat} (hi : i < s.numLinks) :
    (nth (Kin.linkSlices s.types ([] : List ℝ) [] s.dofs) i).typ = nth s.types i
    ∧ (nth (Kin.linkSlices s.types ([] : List ℝ) [] s.dofs) i).dofs.length
        = (nth s.types i).qdWidth := by
  have hlen : i < (Kin.linkSlices s.types ([] : List ℝ) [] s.dofs).length := by
    rw [Kin.linkSlices_length]; exact hi
  have ht : (nth (Kin.linkSlices s.types ([] : List ℝ) [] s.dofs) i).typ = nth s.types i := by
    have := Kin.linkSlices_typ s.types ([] : List ℝ) [] s.dofs
    conv_rhs => rw [← this]
    rw [nth_map_lt _ _ hlen]
  refine ⟨ht, ?_⟩
  rw [← ht]
  exact C08F.linkSlices_dofs_width s.types [] [] s.dofs hd _ (nth_mem _ hlen)

/-- **on a well-formed system and joint arrays with one row per link, the model of
`kinematics.inverse` is the row-by-row function `invT`** (in particular it does not fail) -/
theorem invModel_eq_invT (s : Sys ℝ) (hp : s.parents.length = s.numLinks) (hd : s.dofs.length = s.nv)
    (j : List (Tf ℝ)) (jd : List (Motion ℝ)) (hj : j.length = s.numLinks) (hjd : jd.length = s.numLinks) :
    invModel s j jd = invT s j jd := by
  have hins : (Kin.linkSlices s.types ([] : List ℝ) [] s.dofs).length = s.numLinks :=
    Kin.linkSlices_length _ _ _ _
  have hrows : (Kin.linkSlices s.types ([] : List ℝ) [] s.dofs).zip (s.parents.zip (j.zip jd))
      = tab s.numLinks (invRow s j jd) := by
    have hz : (s.parents.zip (j.zip jd)).length = s.numLinks := by simp [hp, hj, hjd]
    conv_lhs => rw [eq_tab_of_length hins]
    rw [zip_tab _ _ hz]
    apply tab_congr
    intro i hi
    rw [nth_zip _ _ (by omega) (by simp [hj, hjd]; omega), nth_zip _ _ (by omega) (by omega),
      ← parentOf_eq_nth _ (by omega)]
    rfl
  unfold invModel Inv.inverse
  rw [if_neg (by simp [hj, hjd, hp, Sys.numLinks])]
  simp only [hrows]
  rw [mapM_eq_map _ linkInv]
  · simp only [Option.map_some, Option.getD_some, invT, List.flatMap_def, tab_map]
  · intro a ha
    simp only [tab, List.mem_map, List.mem_range] at ha
    obtain ⟨i, hi, rfl⟩ := ha
    exact (linkInv_spec (invRow s j jd i) (by
      show (nth (Kin.linkSlices s.types ([] : List ℝ) [] s.dofs) i).dofs.length
        = (nth (Kin.linkSlices s.types ([] : List ℝ) [] s.dofs) i).typ.qdWidth
      rw [(slice_ok s hd hi).1, (slice_ok s hd hi).2])).1

/-! ## `InvLen` -/

theorem sum_tab_map_types (w : LinkType → Nat) (ts : List LinkType) :
    (tab ts.length fun i => w (nth ts i)).sum = (ts.map w).sum := by
  conv_rhs => rw [eq_tab_of_length (rfl : ts.length = ts.length), tab_map]

/-- the lengths of the rows of `invT` are the widths of the link types -/
theorem invT_row_lens (s : Sys ℝ) (hd : s.dofs.length = s.nv) (j : List (Tf ℝ)) (jd : List (Motion ℝ)) :
    (tab s.numLinks fun i => (linkInv (invRow s j jd i)).1).map List.length = s.types.map LinkType.qWidth
    ∧ (tab s.numLinks fun i => (linkInv (invRow s j jd i)).2).map List.length
        = s.types.map LinkType.qdWidth := by
  have key : ∀ i, i < s.numLinks →
      (linkInv (invRow s j jd i)).1.length = (nth s.types i).qWidth
      ∧ (linkInv (invRow s j jd i)).2.length = (nth s.types i).qdWidth := by
    intro i hi
    have h := linkInv_spec (invRow s j jd i) (by
      show (nth (Kin.linkSlices s.types ([] : List ℝ) [] s.dofs) i).dofs.length
        = (nth (Kin.linkSlices s.types ([] : List ℝ) [] s.dofs) i).typ.qdWidth
      rw [(slice_ok s hd hi).1, (slice_ok s hd hi).2])
    have ht : (invRow s j jd i).1.typ = nth s.types i := (slice_ok s hd hi).1
    rw [← ht]
    exact h.2
  constructor
  · conv_rhs => rw [eq_tab_of_length (rfl : s.types.length = s.types.length), tab_map]
    rw [tab_map]
    exact tab_congr fun i hi => (key i hi).1
  · conv_rhs => rw [eq_tab_of_length (rfl : s.types.length = s.types.length), tab_map]
    rw [tab_map]
    exact tab_congr fun i hi => (key i hi).2

/-- **`InvLen` holds for `invT`** (for arrays of any length) -/
theorem invT_len (s : Sys ℝ) (hd : s.dofs.length = s.nv) (j : List (Tf ℝ)) (jd : List (Motion ℝ)) :
    (invT s j jd).1.length = s.nq ∧ (invT s j jd).2.length = s.nv := by
  obtain ⟨h1, h2⟩ := invT_row_lens s hd j jd
  simp only [invT, List.length_flatten, h1, h2]
  exact ⟨rfl, rfl⟩

theorem invT_invLen (s : Sys ℝ) (hd : s.dofs.length = s.nv) : InvLen s (invT s) :=
  fun j jd _ _ => invT_len s hd j jd

/-! ## flat indices -/

/-- start of link `i`'s block in a flat array with block widths `w` (`scan.link_types` running offset) -/
def off (w : LinkType → Nat) (ts : List LinkType) (i : Nat) : Nat := ((ts.take i).map w).sum

/-- entry `r` of block `i` of a concatenation -/
theorem nthS_flatten (R : List (List ℝ)) (i r : Nat) (hr : r < (R.getD i []).length) :
    nthS R.flatten (((R.take i).map List.length).sum + r) = nthS (R.getD i []) r := by
  induction R generalizing i with
  | nil => simp at hr
  | cons x R ih =>
    cases i with
    | zero =>
      simp only [List.getD_cons_zero] at hr ⊢
      simp only [List.take_zero, List.map_nil, List.sum_nil, Nat.zero_add, List.flatten_cons]
      exact getD_append_left' x _ 0 hr
    | succ i =>
      simp only [List.getD_cons_succ] at hr ⊢
      simp only [List.take_succ_cons, List.map_cons, List.sum_cons, List.flatten_cons]
      rw [show x.length + ((R.take i).map List.length).sum + r
        = (((R.take i).map List.length).sum + r) + x.length by omega]
      rw [show nthS (x ++ R.flatten) ((((R.take i).map List.length).sum + r) + x.length)
        = nthS R.flatten (((R.take i).map List.length).sum + r) from getD_append_right' x _ 0 _ rfl]
      exact ih i hr

/-- **the flat `q` of `invT`, entry by entry**: entry `r` of link `i`'s block is entry `r` of `q_fn` of
row `i` -/
theorem invT_q_at (s : Sys ℝ) (hd : s.dofs.length = s.nv) (j : List (Tf ℝ)) (jd : List (Motion ℝ))
    {i r : Nat} (hi : i < s.numLinks) (hr : r < (nth s.types i).qWidth) :
    nthS (invT s j jd).1 (off LinkType.qWidth s.types i + r) = nthS (linkInv (invRow s j jd i)).1 r := by
  set R := tab s.numLinks fun i => (linkInv (invRow s j jd i)).1 with hR
  have hlens := (invT_row_lens s hd j jd).1
  rw [← hR] at hlens
  have hget : R.getD i [] = (linkInv (invRow s j jd i)).1 := by
    exact nth_tab (fun i => (linkInv (invRow s j jd i)).1) hi
  have hlen : (R.getD i []).length = (nth s.types i).qWidth := by
    have h1 : (R.map List.length).getD i 0 = (s.types.map LinkType.qWidth).getD i 0 := by rw [hlens]
    have hiR : i < R.length := by rw [hR, tab_length]; exact hi
    have hiT : i < s.types.length := hi
    simp only [List.getD_eq_getElem?_getD, List.getElem?_map, List.getElem?_eq_getElem hiR,
      List.getElem?_eq_getElem hiT, Option.map_some, Option.getD_some] at h1
    simp only [List.getD_eq_getElem?_getD, List.getElem?_eq_getElem hiR, Option.getD_some, nth,
      List.getElem?_eq_getElem hiT]
    exact h1
  have hoff : off LinkType.qWidth s.types i = ((R.take i).map List.length).sum := by
    rw [off, List.map_take, List.map_take, hlens]
  show nthS R.flatten _ = _
  rw [hoff, nthS_flatten R i r (by rw [hlen]; exact hr), hget]

theorem invT_qd_at (s : Sys ℝ) (hd : s.dofs.length = s.nv) (j : List (Tf ℝ)) (jd : List (Motion ℝ))
    {i r : Nat} (hi : i < s.numLinks) (hr : r < (nth s.types i).qdWidth) :
    nthS (invT s j jd).2 (off LinkType.qdWidth s.types i + r) = nthS (linkInv (invRow s j jd i)).2 r := by
  set R := tab s.numLinks fun i => (linkInv (invRow s j jd i)).2 with hR
  have hlens := (invT_row_lens s hd j jd).2
  rw [← hR] at hlens
  have hget : R.getD i [] = (linkInv (invRow s j jd i)).2 := by
    exact nth_tab (fun i => (linkInv (invRow s j jd i)).2) hi
  have hlen : (R.getD i []).length = (nth s.types i).qdWidth := by
    have h1 : (R.map List.length).getD i 0 = (s.types.map LinkType.qdWidth).getD i 0 := by rw [hlens]
    have hiR : i < R.length := by rw [hR, tab_length]; exact hi
    have hiT : i < s.types.length := hi
    simp only [List.getD_eq_getElem?_getD, List.getElem?_map, List.getElem?_eq_getElem hiR,
      List.getElem?_eq_getElem hiT, Option.map_some, Option.getD_some] at h1
    simp only [List.getD_eq_getElem?_getD, List.getElem?_eq_getElem hiR, Option.getD_some, nth,
      List.getElem?_eq_getElem hiT]
    exact h1
  have hoff : off LinkType.qdWidth s.types i = ((R.take i).map List.length).sum := by
    rw [off, List.map_take, List.map_take, hlens]
  show nthS R.flatten _ = _
  rw [hoff, nthS_flatten R i r (by rw [hlen]; exact hr), hget]

/-! ## `InvLocal` -/

/-- **every actuator reads and drives a coordinate of a link that is not a free joint**: its `q_id` lies in
the `q` block of such a link and its `qd_id` in the `qd` block of such a link.  (brax actuators drive
hinge/slide dofs.  An actuator on a coordinate of a free root reads the root's *pose*, which a rigid
transform of the scene changes — for such a system moving the scene is not a symmetry.) -/
def ActsOnJoints (s : Sys ℝ) : Prop :=
  ∀ a ∈ s.acts,
    (∃ i r, i < s.numLinks ∧ nth s.types i ≠ .free ∧ r < (nth s.types i).qWidth
      ∧ a.qId = off LinkType.qWidth s.types i + r)
    ∧ (∃ i r, i < s.numLinks ∧ nth s.types i ≠ .free ∧ r < (nth s.types i).qdWidth
      ∧ a.qdId = off LinkType.qdWidth s.types i + r)

theorem nonroot_of_nonfree {s : Sys ℝ} (hfr : FreeRooted s) {i : Nat} (hi : i < s.numLinks)
    (h : nth s.types i ≠ .free) : ¬ parentOf s.parents i < 0 := by
  intro hneg
  have hp := (hfr.hpar i hi).1
  have := hfr.hroot i hi (by omega)
  apply h
  simp [nth, List.getD_eq_getElem?_getD, this]

/-- **`InvLocal` holds literally for `invT`**: the coordinates an actuator reads are computed from the
`(j, jd)` rows of non-root links only -/
theorem invT_invLocal (s : Sys ℝ) (hfr : FreeRooted s) (hd : s.dofs.length = s.nv)
    (hacts : ActsOnJoints s) : InvLocal s (invT s) := by
  intro j j' jd jd' hrows a ha
  obtain ⟨⟨i, r, hi, hnf, hr, hq⟩, ⟨i', r', hi', hnf', hr', hqd⟩⟩ := hacts a ha
  have hrow : ∀ k, k < s.numLinks → nth s.types k ≠ .free → invRow s j' jd' k = invRow s j jd k := by
    intro k hk hnfk
    obtain ⟨h1, h2⟩ := hrows k hk (nonroot_of_nonfree hfr hk hnfk)
    simp only [invRow, h1, h2]
  constructor
  · rw [hq, invT_q_at s hd j' jd' hi hr, invT_q_at s hd j jd hi hr, hrow i hi hnf]
  · rw [hqd, invT_qd_at s hd j' jd' hi' hr', invT_qd_at s hd j jd hi' hr', hrow i' hi' hnf']

/-! ## `InvSplit` -/

theorem shift_isRoot (p : Int) (n : Nat) :
    ((if p < 0 then p else p + (n : Int)) == -1) = (p == -1) := by
  by_cases h : p < 0
  · simp [h]
  · simp only [h, if_false]
    have h1 : ¬ (p + (n : Int) = -1) := by omega
    have h2 : ¬ (p = -1) := by omega
    simp [h1, h2]

/-- **`InvSplit` holds literally for `invT`**: `kinematics.inverse` of a disjoint union, applied to
concatenated joint arrays, is the concatenation of the two inverses -/
theorem invT_invSplit (s1 s2 : Sys ℝ) (hp1 : s1.parents.length = s1.numLinks)
    (hd1 : s1.dofs.length = s1.nv) :
    InvSplit s1.numLinks (invT (unionSys s1 s2)) (invT s1) (invT s2) := by
  intro j1 j2 jd1 jd2 hj1 hjd1
  have hins : Kin.linkSlices (unionSys s1 s2).types ([] : List ℝ) [] (unionSys s1 s2).dofs
      = Kin.linkSlices s1.types [] [] s1.dofs ++ Kin.linkSlices s2.types [] [] s2.dofs :=
    linkSlices_nil_nil_append s1.types s2.types s1.dofs s2.dofs hd1
  have hins1 : (Kin.linkSlices s1.types ([] : List ℝ) [] s1.dofs).length = s1.numLinks :=
    Kin.linkSlices_length _ _ _ _
  have hL : ∀ i, i < s1.numLinks →
      linkInv (invRow (unionSys s1 s2) (j1 ++ j2) (jd1 ++ jd2) i) = linkInv (invRow s1 j1 jd1 i) := by
    intro i hi
    simp only [invRow, hins]
    rw [show nth (Kin.linkSlices s1.types ([] : List ℝ) [] s1.dofs
          ++ Kin.linkSlices s2.types [] [] s2.dofs) i = nth (Kin.linkSlices s1.types [] [] s1.dofs) i
        from getD_append_left' _ _ _ (by omega),
      show nth (j1 ++ j2) i = nth j1 i from getD_append_left' _ _ _ (by omega),
      show nth (jd1 ++ jd2) i = nth jd1 i from getD_append_left' _ _ _ (by omega)]
    rw [show parentOf (unionSys s1 s2).parents i = parentOf s1.parents i
      from parentOf_union_left _ _ (by omega)]
  have hR : ∀ i, linkInv (invRow (unionSys s1 s2) (j1 ++ j2) (jd1 ++ jd2) (i + s1.numLinks))
      = linkInv (invRow s2 j2 jd2 i) := by
    intro i
    simp only [invRow, hins]
    rw [show nth (Kin.linkSlices s1.types ([] : List ℝ) [] s1.dofs
          ++ Kin.linkSlices s2.types [] [] s2.dofs) (i + s1.numLinks)
          = nth (Kin.linkSlices s2.types [] [] s2.dofs) i from getD_append_right' _ _ _ _ hins1,
      show nth (j1 ++ j2) (i + s1.numLinks) = nth j2 i from getD_append_right' _ _ _ _ hj1,
      show nth (jd1 ++ jd2) (i + s1.numLinks) = nth jd2 i from getD_append_right' _ _ _ _ hjd1]
    rw [show parentOf (unionSys s1 s2).parents (i + s1.numLinks)
        = if parentOf s2.parents i < 0 then parentOf s2.parents i
          else parentOf s2.parents i + (s1.numLinks : Int) from parentOf_union_right _ _ _ hp1]
    exact linkInv_parent _ _ _ _ _ (shift_isRoot _ _)
  have e1 : (tab s1.numLinks fun i => (linkInv (invRow (unionSys s1 s2) (j1 ++ j2) (jd1 ++ jd2) i)).1)
      = tab s1.numLinks fun i => (linkInv (invRow s1 j1 jd1 i)).1 :=
    tab_congr fun i hi => by rw [hL i hi]
  have e2 : (tab s1.numLinks fun i => (linkInv (invRow (unionSys s1 s2) (j1 ++ j2) (jd1 ++ jd2) i)).2)
      = tab s1.numLinks fun i => (linkInv (invRow s1 j1 jd1 i)).2 :=
    tab_congr fun i hi => by rw [hL i hi]
  have e3 : (tab s2.numLinks fun i =>
        (linkInv (invRow (unionSys s1 s2) (j1 ++ j2) (jd1 ++ jd2) (i + s1.numLinks))).1)
      = tab s2.numLinks fun i => (linkInv (invRow s2 j2 jd2 i)).1 :=
    tab_congr fun i _ => by rw [hR i]
  have e4 : (tab s2.numLinks fun i =>
        (linkInv (invRow (unionSys s1 s2) (j1 ++ j2) (jd1 ++ jd2) (i + s1.numLinks))).2)
      = tab s2.numLinks fun i => (linkInv (invRow s2 j2 jd2 i)).2 :=
    tab_congr fun i _ => by rw [hR i]
  simp only [invT, unionSys_numLinks, tab_add, List.flatten_append, e1, e2, e3, e4]

/-! ## trajectories evaluate `inv` only on arrays with one row per link -/

/-- two `inv`s that agree on arrays with one row per link give the same contact-free spring step -/
theorem step_congr (inv inv' : List (Tf ℝ) → List (Motion ℝ) → List ℝ × List ℝ) (s : Sys ℝ)
    (hlinks : s.links.length = s.numLinks)
    (h : ∀ j jd, j.length = s.numLinks → jd.length = s.numLinks → inv j jd = inv' j jd)
    (st : Spring.State ℝ) (act : List ℝ) :
    Spring.step inv (fun _ => []) s st act = Spring.step inv' (fun _ => []) s st act := by
  have hL := step_lens inv s st act hlinks
  have hj : ((stepW s st act).map (·.1)).length = s.numLinks := hL.j
  have hjd : ((stepW s st act).map (·.2.1)).length = s.numLinks := hL.jd
  rw [step_nil_eq, step_nil_eq, h _ _ hj hjd]

theorem steps_congr (inv inv' : List (Tf ℝ) → List (Motion ℝ) → List ℝ × List ℝ) (s : Sys ℝ)
    (hlinks : s.links.length = s.numLinks)
    (h : ∀ j jd, j.length = s.numLinks → jd.length = s.numLinks → inv j jd = inv' j jd)
    (acts : List (List ℝ)) (st : Spring.State ℝ) : steps inv s st acts = steps inv' s st acts := by
  induction acts generalizing st with
  | nil => rfl
  | cons a as ih =>
    simp only [steps, List.foldl_cons]
    rw [step_congr inv inv' s hlinks h st a]
    exact ih _

/-- the same for the positional step -/
theorem pstep_congr (inv inv' : List (Tf ℝ) → List (Motion ℝ) → List ℝ × List ℝ) (s : Sys ℝ)
    (hlinks : s.links.length = s.numLinks) (hp : s.parents.length = s.numLinks)
    (h : ∀ j jd, j.length = s.numLinks → jd.length = s.numLinks → inv j jd = inv' j jd)
    (st : Positional.State ℝ) (act : List ℝ) :
    Positional.step inv (fun _ => []) s st act = Positional.step inv' (fun _ => []) s st act := by
  have hL := pstep_lens inv s st act hlinks hp
  have hj : ((pW4 s st act).map (·.1)).length = s.numLinks := by
    have := hL.j; rw [pstep_nil_eq] at this; exact this
  have hjd : ((pW4 s st act).map (·.2.1)).length = s.numLinks := by
    have := hL.jd; rw [pstep_nil_eq] at this; exact this
  rw [pstep_nil_eq, pstep_nil_eq, h _ _ hj hjd]

theorem psteps_congr (inv inv' : List (Tf ℝ) → List (Motion ℝ) → List ℝ × List ℝ) (s : Sys ℝ)
    (hlinks : s.links.length = s.numLinks) (hp : s.parents.length = s.numLinks)
    (h : ∀ j jd, j.length = s.numLinks → jd.length = s.numLinks → inv j jd = inv' j jd)
    (acts : List (List ℝ)) (st : Positional.State ℝ) : psteps inv s st acts = psteps inv' s st acts := by
  induction acts generalizing st with
  | nil => rfl
  | cons a as ih =>
    simp only [psteps, List.foldl_cons]
    rw [pstep_congr inv inv' s hlinks hp h st a]
    exact ih _

theorem trajClear_congr (inv inv' : List (Tf ℝ) → List (Motion ℝ) → List ℝ × List ℝ) (s : Sys ℝ)
    (hlinks : s.links.length = s.numLinks) (hp : s.parents.length = s.numLinks)
    (h : ∀ j jd, j.length = s.numLinks → jd.length = s.numLinks → inv j jd = inv' j jd)
    (acts : List (List ℝ)) (st : Positional.State ℝ) :
    TrajClear inv s st acts → TrajClear inv' s st acts := by
  induction acts generalizing st with
  | nil => intro _; trivial
  | cons a as ih =>
    intro hc
    refine ⟨hc.1, ?_⟩
    rw [← pstep_congr inv inv' s hlinks hp h st a]
    exact ih _ hc.2

/-! ## the model of `kinematics.inverse` does not read gravity; well-formedness of a union -/

theorem invModel_gSys (g : Tf ℝ) (s : Sys ℝ) : invModel (gSys g s) = invModel s := rfl

/-- on a well-formed system the model agrees with `invT` wherever a trajectory evaluates it -/
theorem invModel_agrees {s : Sys ℝ} (h : WFParts s) :
    ∀ j jd, j.length = s.numLinks → jd.length = s.numLinks → invModel s j jd = invT s j jd :=
  fun j jd hj hjd => invModel_eq_invT s h.plen h.dlen j jd hj hjd

theorem union_lens {s1 s2 : Sys ℝ} (h1 : WFParts s1) (h2 : WFParts s2) :
    (unionSys s1 s2).parents.length = (unionSys s1 s2).numLinks
    ∧ (unionSys s1 s2).links.length = (unionSys s1 s2).numLinks
    ∧ (unionSys s1 s2).dofs.length = (unionSys s1 s2).nv := by
  refine ⟨?_, ?_, ?_⟩
  · rw [unionSys_numLinks]
    simp [unionSys, Kin.shiftParents, h1.plen, h2.plen]
  · rw [unionSys_numLinks]
    simp [unionSys, h1.llen, h2.llen]
  · rw [unionSys_nv]
    simp [unionSys, h1.dlen, h2.dlen]

theorem invModel_union_agrees {s1 s2 : Sys ℝ} (h1 : WFParts s1) (h2 : WFParts s2) :
    ∀ j jd, j.length = (unionSys s1 s2).numLinks → jd.length = (unionSys s1 s2).numLinks →
      invModel (unionSys s1 s2) j jd = invT (unionSys s1 s2) j jd :=
  fun j jd hj hjd => invModel_eq_invT _ (union_lens h1 h2).1 (union_lens h1 h2).2.2 j jd hj hjd

/-! ## `UnitRot` of the initial state -/

open Kin KinPos KinVel KinEquiv in
/-- under `LinkOK` the link rotations that `kinematics.forward` returns are unit quaternions -/
theorem forward_rot_unit (s : Sys ℝ) (q qd : List ℝ)
    (hok : ∀ x ∈ s.parents.zip (s.links.zip (linkSlices s.types q qd s.dofs)), LinkOK x.1 x.2.1 x.2.2) :
    ∀ t ∈ (Kin.forward s q qd).map (·.1), t.rot.IsUnit := by
  intro t ht
  rw [forward_eq_forwardIns] at ht
  unfold forwardIns at ht
  simp only [List.map_map, List.mem_map, Function.comp] at ht
  obtain ⟨x, hx, rfl⟩ := ht
  have hu := forwardRaw_unit s.parents _ hok x hx
  show (normalize4 x.1.rot).IsUnit
  rw [normalize4_unit hu]; exact hu

open Kin KinPos KinVel KinEquiv in
/-- **`UnitRot` holds for `positional.pipeline.init`** under the hypotheses `forward_equivariant` already
has: `com.from_world` composes the link pose with a pure translation
(`Transform.create(pos=inertia.transform.pos)`), so `x_i.rot = x.rot`, a unit quaternion by `LinkOK` -/
theorem unitRot_init (s : Sys ℝ) (q qd : List ℝ) (hlinks : s.links.length = s.numLinks)
    (hp : s.parents.length = s.numLinks)
    (hok : ∀ x ∈ s.parents.zip (s.links.zip (linkSlices s.types q qd s.dofs)), LinkOK x.1 x.2.1 x.2.2) :
    UnitRot s (Positional.init s q qd) := by
  intro i hi
  have hF := forward_length s q qd hlinks hp
  have hx : i < ((Kin.forward s q qd).map (·.1)).length := by simp [hF]; exact hi
  have hu := forward_rot_unit s q qd hok _ (nth_mem _ hx)
  simp only [Positional.init, Com.fromWorld]
  rw [nth_tab _ hi]
  exact Q4.IsUnit.mul hu Q4.isUnit_one

/-! ## `ActAgree` of the initial coordinates from the per-link transformation of the slices -/

theorem nthS_take {l : List ℝ} {w r : Nat} (h : r < w) : nthS (l.take w) r = nthS l r := by
  simp [nthS, List.getD_eq_getElem?_getD, List.getElem?_take, h]

theorem nthS_drop (l : List ℝ) (w k : Nat) : nthS (l.drop w) k = nthS l (w + k) := by
  simp [nthS, List.getD_eq_getElem?_getD, List.getElem?_drop]

/-- entry `r` of link `i`'s `q` slice is entry `off + r` of the flat `q` (no length hypothesis: both sides read
`0` beyond the end) -/
theorem slices_q_at (ts : List LinkType) (q qd : List ℝ) (ds : List (DofP ℝ)) (i r : Nat)
    (hi : i < ts.length) (hr : r < (nth ts i).qWidth) :
    nthS (nth (Kin.linkSlices ts q qd ds) i).q r = nthS q (off LinkType.qWidth ts i + r) := by
  induction ts generalizing q qd ds i with
  | nil => simp at hi
  | cons t ts ih =>
    cases i with
    | zero =>
      have hr' : r < t.qWidth := hr
      show nthS (q.take t.qWidth) r = _
      rw [nthS_take hr']
      simp [off]
    | succ i =>
      have hr' : r < (nth ts i).qWidth := hr
      show nthS (nth (Kin.linkSlices ts (q.drop t.qWidth) (qd.drop t.qdWidth) (ds.drop t.qdWidth)) i).q r = _
      rw [ih _ _ _ i (by simpa using hi) hr', nthS_drop]
      congr 1
      simp [off, Nat.add_assoc]

theorem slices_qd_at (ts : List LinkType) (q qd : List ℝ) (ds : List (DofP ℝ)) (i r : Nat)
    (hi : i < ts.length) (hr : r < (nth ts i).qdWidth) :
    nthS (nth (Kin.linkSlices ts q qd ds) i).qd r = nthS qd (off LinkType.qdWidth ts i + r) := by
  induction ts generalizing q qd ds i with
  | nil => simp at hi
  | cons t ts ih =>
    cases i with
    | zero =>
      have hr' : r < t.qdWidth := hr
      show nthS (qd.take t.qdWidth) r = _
      rw [nthS_take hr']
      simp [off]
    | succ i =>
      have hr' : r < (nth ts i).qdWidth := hr
      show nthS (nth (Kin.linkSlices ts (q.drop t.qWidth) (qd.drop t.qdWidth) (ds.drop t.qdWidth)) i).qd r = _
      rw [ih _ _ _ i (by simpa using hi) hr', nthS_drop]
      congr 1
      simp [off, Nat.add_assoc]

open KinEquiv in
/-- **`ActAgree` of the initial coordinates is not an independent hypothesis**: if the per-link slices of
`(q', qd')` are the `xformIn g`-transforms of those of `(q, qd)` (the hypothesis `hq` of the `init` theorems)
and actuators act on non-free links, the actuated coordinates agree — `xformIn` changes free links only -/
theorem actAgree_of_slices (g : Tf ℝ) (s : Sys ℝ) (hacts : ActsOnJoints s) (q qd q' qd' : List ℝ)
    (hq : Kin.linkSlices s.types q' qd' s.dofs = (Kin.linkSlices s.types q qd s.dofs).map (xformIn g)) :
    ActAgree s q qd q' qd' := by
  have key : ∀ i, i < s.numLinks → nth s.types i ≠ .free →
      nth (Kin.linkSlices s.types q' qd' s.dofs) i = nth (Kin.linkSlices s.types q qd s.dofs) i := by
    intro i hi hnf
    have hlen : i < (Kin.linkSlices s.types q qd s.dofs).length := by
      rw [Kin.linkSlices_length]; exact hi
    have ht : (nth (Kin.linkSlices s.types q qd s.dofs) i).typ = nth s.types i := by
      have := Kin.linkSlices_typ s.types q qd s.dofs
      conv_rhs => rw [← this]
      rw [nth_map_lt _ _ hlen]
    rw [hq, nth_map_lt _ _ hlen, xformIn_nonfree g _ (by rw [ht]; exact hnf)]
  intro a ha
  obtain ⟨⟨i, r, hi, hnf, hr, hqi⟩, ⟨i', r', hi', hnf', hr', hqdi⟩⟩ := hacts a ha
  constructor
  · rw [hqi, ← slices_q_at s.types q' qd' s.dofs i r hi hr, ← slices_q_at s.types q qd s.dofs i r hi hr,
      key i hi hnf]
  · rw [hqdi, ← slices_qd_at s.types q' qd' s.dofs i' r' hi' hr',
      ← slices_qd_at s.types q qd s.dofs i' r' hi' hr', key i' hi' hnf']

end Brax.C05Inv
