import Brax.Lemmas.C02Root
import Brax.Lemmas.ScanLevels
/-!
# Layer B stage 2, leaves → root: the level-grouped `scan.tree(reverse=True)` computes the backward
accumulation `revAcc` (for the additive carry functions brax uses — `crb_fn`, `cfrc_fn`)

Both algorithms satisfy the recursion `R i = a i + Σ_{c | parent c = i} R c`, which has a unique
solution when parents precede their children; the two sums run over the children in different
orders, so `add` has to be a commutative monoid.
-/
set_option linter.unusedSectionVars false
set_option linter.unusedSimpArgs false
namespace Brax.Gd
open Brax Kin

section
variable {M : Type} {add : M → M → M} {z : M}

/-- `Σ_{c<n} g c` -/
def csum (add : M → M → M) (z : M) : Nat → (Nat → M) → M
  | 0, _ => z
  | n + 1, g => add (csum add z n g) (g n)

theorem csum_congr {n : Nat} {g g' : Nat → M} (h : ∀ c, c < n → g c = g' c) :
    csum add z n g = csum add z n g' := by
  induction n with
  | zero => rfl
  | succ n ih =>
    simp only [csum]
    rw [ih (fun c hc => h c (by omega)), h n (by omega)]

theorem csum_zero (h : CMon add z) (n : Nat) : csum add z n (fun _ => z) = z := by
  induction n with
  | zero => rfl
  | succ n ih => simp only [csum, ih, h.zero]

theorem foldl_add_init (h : CMon add z) {ι : Type} (l : List ι) (g : ι → M) (b : M) :
    l.foldl (fun acc c => add acc (g c)) b = add b (l.foldl (fun acc c => add acc (g c)) z) := by
  induction l generalizing b with
  | nil => simp only [List.foldl]; rw [h.zero]
  | cons x l ih =>
    simp only [List.foldl]
    rw [ih (add b (g x)), ih (add z (g x)), h.zero_left, h.assoc]

/-- a filtered in-order sum over `0 … n-1` as a `csum` with zeros for the dropped terms -/
theorem filter_foldl_eq_csum (h : CMon add z) (P : Nat → Bool) (g : Nat → M) (n : Nat) :
    ((List.range n).filter P).foldl (fun acc c => add acc (g c)) z
      = csum add z n (fun c => if P c then g c else z) := by
  induction n with
  | zero => rfl
  | succ n ih =>
    rw [List.range_succ, List.filter_append, List.foldl_append, ih]
    simp only [csum]
    by_cases hp : P n
    · simp [List.filter, hp]
    · simp [List.filter, hp, h.zero]

/-- **the backward accumulation satisfies the subtree recursion** -/
theorem revAcc_rec (h : CMon add z) (n : Nat) :
    ∀ (ps : List Int) (a : List M), ps.length = n → a.length = n → PWF ps →
    ∀ i, i < n →
    (revAcc add ps a).getD i z
      = add (a.getD i z)
          (csum add z n fun c => if ps.getD c (-1) = (i : Int) then (revAcc add ps a).getD c z else z) := by
  induction n with
  | zero => intro ps a _ _ _ i hi; omega
  | succ n ih =>
    intro ps a hps ha hwf i hi
    obtain ⟨ps', p, rfl, hps'⟩ := exists_snoc ps hps
    obtain ⟨a', v, rfl, ha'⟩ := exists_snoc a ha
    have hwf' := hwf.prefix
    have hp : p < (n : Int) := by have := hwf.last; rwa [hps'] at this
    set a'' : List M := if p < 0 then a' else a'.modify p.toNat (fun x => add x v) with ha''def
    have ha''len : a''.length = n := by rw [ha''def]; split <;> simp [ha']
    have hrev : revAcc add (ps' ++ [p]) (a' ++ [v]) = revAcc add ps' a'' ++ [v] :=
      revAcc_snoc add ps' a' p v (by rw [hps', ha']) hwf' (by rw [ha']; exact hp)
    have hrlen : (revAcc add ps' a'').length = n := by rw [revAcc_length, ha''len]
    rw [hrev]
    -- the sum over the first n links only sees the prefix
    have hsum : csum add z n (fun c => if (ps' ++ [p]).getD c (-1) = (i : Int)
          then (revAcc add ps' a'' ++ [v]).getD c z else z)
        = csum add z n (fun c => if ps'.getD c (-1) = (i : Int) then (revAcc add ps' a'').getD c z else z) := by
      apply csum_congr
      intro c hc
      rw [getD_append_left' ps' [p] (-1) c (by omega), getD_append_left' _ [v] z c (by omega)]
    simp only [csum]
    rw [hsum]
    have hlastp : (ps' ++ [p]).getD n (-1) = p := by rw [← hps']; exact getD_snoc_last ps' p (-1)
    have hlastv : (revAcc add ps' a'' ++ [v]).getD n z = v := by
      rw [← hrlen]; exact getD_snoc_last _ v z
    rw [hlastp, hlastv]
    by_cases hin : i = n
    · -- the last link has no children
      subst hin
      have hpi : ¬ p = (i : Int) := by omega
      rw [if_neg hpi, h.zero]
      have hnone : csum add z i (fun c => if ps'.getD c (-1) = (i : Int) then (revAcc add ps' a'').getD c z else z)
          = csum add z i (fun _ => z) := by
        apply csum_congr
        intro c hc
        have := hwf' c
        rw [if_neg (by omega)]
      rw [hnone, csum_zero h, h.zero]
      have e2 : (a' ++ [v]).getD i z = v := by have := getD_snoc_last a' v z; rwa [ha'] at this
      rw [hlastv, e2]
    · have hi' : i < n := by omega
      rw [getD_append_left' _ [v] z i (by omega), getD_append_left' a' [v] z i (by omega)]
      rw [ih ps' a'' hps' ha''len hwf' i hi']
      by_cases hneg : p < 0
      · have : a'' = a' := by rw [ha''def, if_pos hneg]
        rw [this, if_neg (by omega), h.zero]
      · have ha''eq : a'' = a'.modify p.toNat (fun x => add x v) := by rw [ha''def, if_neg hneg]
        by_cases hpi : p = (i : Int)
        · rw [if_pos hpi]
          have hpt : p.toNat = i := by omega
          have : a''.getD i z = add (a'.getD i z) v := by
            rw [ha''eq, getD_modify a' _ z p.toNat i (by omega), if_pos hpt.symm, hpt]
          rw [this]
          generalize csum add z n _ = S
          rw [h.assoc, h.comm v S]
        · rw [if_neg hpi, h.zero]
          have hpt : ¬ i = p.toNat := by omega
          have : a''.getD i z = a'.getD i z := by
            rw [ha''eq, getD_modify a' _ z p.toNat i (by omega), if_neg hpt]
          rw [this]

theorem pwf_of_parentsWF {ps : List Int} (h : ParentsWF ps) : PWF ps := by
  intro i
  by_cases hi : i < ps.length
  · rw [List.getD_eq_getElem?_getD, List.getElem?_eq_getElem hi]; exact h i hi
  · rw [List.getD_eq_getElem?_getD, List.getElem?_eq_none (by omega)]
    simp only [Option.getD_none]; omega

theorem map_range_getD {ι κ : Type} (l : List ι) (d : ι) (G : ι → κ) :
    (List.range l.length).map (fun k => G (l.getD k d)) = l.map G := by
  apply List.ext_getElem
  · simp
  · intro k h1 h2
    simp only [List.getElem_map, List.getElem_range]
    rw [List.getD_eq_getElem?_getD, List.getElem?_eq_getElem (by simpa using h1)]; rfl

theorem zipWith_map_range {κ μ ν : Type} (hf : μ → ν → κ) (n : Nat) (g1 : Nat → μ) (g2 : Nat → ν) :
    List.zipWith hf ((List.range n).map g1) ((List.range n).map g2) = (List.range n).map fun k => hf (g1 k) (g2 k) :=
  Kin.zipWith_map_map hf g1 g2 (List.range n)

theorem nodup_levelIdxs (ds : List Nat) (d : Nat) : (levelIdxs ds d).Nodup := by
  unfold levelIdxs; exact List.Nodup.filter _ List.nodup_range

/-- an in-order sum over a filtered level as a `csum` over all links -/
theorem levelIdxs_filter_foldl (h : CMon add z) (ds : List Nat) (e : Nat) (P : Nat → Bool) (g : Nat → M) :
    ((levelIdxs ds e).filter P).foldl (fun acc c => add acc (g c)) z
      = csum add z ds.length (fun c => if (ds.getD c 0 == e && P c) then g c else z) := by
  unfold levelIdxs
  rw [List.filter_filter, filter_foldl_eq_csum h]
  apply csum_congr
  intro c _
  rw [Bool.and_comm]

section main
variable (ps : List Int) (as : List M) (dflt : M)

/-- the backward accumulation read at link `i` -/
def rgetR (add : M → M → M) (z : M) (ps : List Int) (as : List M) (i : Nat) : M := (revAcc add ps as).getD i z

theorem rgetR_spec (h : CMon add z) (hlen : ps.length = as.length) (hwf : ParentsWF ps) (i : Nat) (hi : i < ps.length) :
    rgetR add z ps as i
      = add (as.getD i dflt)
          (csum add z ps.length fun c => if ps.getD c (-1) = (i : Int) then rgetR add z ps as c else z) := by
  have := revAcc_rec h ps.length ps as rfl hlen.symm (pwf_of_parentsWF hwf) i hi
  unfold rgetR
  rw [this]
  congr 1
  rw [List.getD_eq_getElem?_getD, List.getD_eq_getElem?_getD, List.getElem?_eq_getElem (hlen ▸ hi)]; rfl

/-- depth of a child = depth of its parent + 1 -/
theorem depth_child (hwf : ParentsWF ps) (c i : Nat) (hc : c < ps.length) (hpar : ps.getD c (-1) = (i : Int)) :
    (depths ps).getD c 0 = (depths ps).getD i 0 + 1 := by
  have hget : ps.getD c (-1) = ps[c] := by
    rw [List.getD_eq_getElem?_getD, List.getElem?_eq_getElem hc]; rfl
  rw [hget] at hpar
  rw [depths_getElem ps hwf c hc, if_neg (by omega)]
  have : ps[c].toNat = i := by omega
  rw [this]

theorem depth_le_max (i : Nat) (hi : i < ps.length) : (depths ps).getD i 0 ≤ (depths ps).foldl max 0 := by
  have hlt : i < (depths ps).length := by rw [depths_length]; exact hi
  rw [List.getD_eq_getElem?_getD, List.getElem?_eq_getElem hlt]
  exact (le_foldl_max (depths ps) 0).2 _ (List.getElem_mem hlt)

/-- **one level, leaves → root** -/
theorem levelStepRev_spec (h : CMon add z) (hlen : ps.length = as.length) (hwf : ParentsWF ps) (d : Nat)
    (hd : d ≤ (depths ps).foldl max 0) :
    levelStepRev (addF add) ps as dflt z add
        (if d = (depths ps).foldl max 0 then none else some (levelIdxs (depths ps) (d + 1),
          (levelIdxs (depths ps) (d + 1)).map (rgetR add z ps as)))
        (levelIdxs (depths ps) d)
      = (levelIdxs (depths ps) d).map (rgetR add z ps as) := by
  by_cases hmax : d = (depths ps).foldl max 0
  · -- deepest level: no children
    simp only [levelStepRev, if_pos hmax, List.map_map]
    apply List.map_congr_left
    intro i hi
    obtain ⟨hi1, hi2⟩ := (mem_levelIdxs _ _ _).mp hi
    rw [depths_length] at hi1
    rw [rgetR_spec ps as dflt h hlen hwf i hi1]
    have hnone : csum add z ps.length (fun c => if ps.getD c (-1) = (i : Int) then rgetR add z ps as c else z)
        = csum add z ps.length (fun _ => z) := by
      apply csum_congr
      intro c hc
      by_cases hpar : ps.getD c (-1) = (i : Int)
      · exfalso
        have h1 := depth_child ps hwf c i hc hpar
        have h2 := depth_le_max ps c hc
        omega
      · rw [if_neg hpar]
    rw [hnone, csum_zero h, h.zero]
    rfl
  · simp only [levelStepRev, if_neg hmax, List.map_map, indexSum]
    rw [← map_range_getD (levelIdxs (depths ps) d) 0 (fun i => as.getD i dflt)]
    rw [zipWith_map_range]
    rw [← map_range_getD (levelIdxs (depths ps) d) 0 (rgetR add z ps as)]
    apply List.map_congr_left
    intro k hk
    have hk' : k < (levelIdxs (depths ps) d).length := by simpa using hk
    generalize hidef : (levelIdxs (depths ps) d).getD k 0 = i
    have hik : (levelIdxs (depths ps) d)[k] = i := by
      rw [← hidef, List.getD_eq_getElem?_getD, List.getElem?_eq_getElem hk']; rfl
    have himem : i ∈ levelIdxs (depths ps) d := by rw [← hik]; exact List.getElem_mem hk'
    obtain ⟨hi1, hi2⟩ := (mem_levelIdxs _ _ _).mp himem
    rw [depths_length] at hi1
    rw [rgetR_spec ps as dflt h hlen hwf i hi1]
    simp only [addF]
    congr 1
    -- the scatter-add entry k is the sum over the children of link i
    rw [List.zip_map', List.filter_map, List.foldl_map]
    rw [levelIdxs_filter_foldl h, depths_length]
    apply csum_congr
    intro c hc
    simp only [Function.comp_apply]
    have hcget : ps.getD c (-1) = ps[c] := by
      rw [List.getD_eq_getElem?_getD, List.getElem?_eq_getElem hc]; rfl
    have hidx : List.idxOf i (levelIdxs (depths ps) d) = k := by
      have := (nodup_levelIdxs (depths ps) d).idxOf_getElem k hk'
      rw [hik] at this; exact this
    by_cases hpar : ps.getD c (-1) = (i : Int)
    · have hdc := depth_child ps hwf c i hc hpar
      have hpt : (ps.getD c (-1)).toNat = i := by omega
      rw [if_pos hpar, hpt, hidx]
      have hcd : (depths ps).getD c 0 = d + 1 := by omega
      rw [hcd]; simp
    · rw [if_neg hpar]
      split
      · rename_i hcond
        exfalso
        simp only [Bool.and_eq_true, beq_iff_eq] at hcond
        obtain ⟨hc2, hc1⟩ := hcond
        have hrec := depths_getElem ps hwf c hc
        rw [hc2] at hrec
        have hnn : ¬ ps[c] < 0 := by
          intro hneg; rw [if_pos hneg] at hrec; omega
        rw [if_neg hnn] at hrec
        have hp := hwf c hc
        have hpmem : ps[c].toNat ∈ levelIdxs (depths ps) d := by
          rw [mem_levelIdxs, depths_length]; exact ⟨by omega, by omega⟩
        have hlt : List.idxOf ps[c].toNat (levelIdxs (depths ps) d) < (levelIdxs (depths ps) d).length :=
          List.idxOf_lt_length_iff.mpr hpmem
        have hge := List.getElem_idxOf hlt
        rw [hcget] at hc1
        have hkk : (levelIdxs (depths ps) d)[List.idxOf ps[c].toNat (levelIdxs (depths ps) d)]
            = (levelIdxs (depths ps) d)[k] := by congr 1
        rw [hge, hik] at hkk
        apply hpar
        rw [hcget]; omega
      · rfl

/-- **all levels**, deepest first: after processing levels `k-1 … 0` -/
theorem levelLoopRev_spec (h : CMon add z) (hlen : ps.length = as.length) (hwf : ParentsWF ps) (k : Nat)
    (hk : k ≤ (depths ps).foldl max 0 + 1) :
    levelLoopRev (addF add) ps as dflt z add (depths ps) (List.range k).reverse
        (if k = (depths ps).foldl max 0 + 1 then none else some (levelIdxs (depths ps) k,
          (levelIdxs (depths ps) k).map (rgetR add z ps as)))
      = (List.range k).map fun d => (levelIdxs (depths ps) d).map (rgetR add z ps as) := by
  induction k with
  | zero => rfl
  | succ k ih =>
    rw [List.range_succ, List.reverse_append, List.reverse_singleton, List.singleton_append]
    simp only [levelLoopRev, List.map_append, List.map_cons, List.map_nil]
    have hstep := levelStepRev_spec ps as dflt h hlen hwf k (by omega)
    have hcond : (k + 1 = (depths ps).foldl max 0 + 1) = (k = (depths ps).foldl max 0) := by
      apply propext; constructor <;> intro e <;> omega
    simp only [hcond]
    rw [hstep]
    have := ih (by omega)
    rw [if_neg (by omega)] at this
    rw [this]

/-- **Layer B stage 2, leaves → root.**  The level-grouped algorithm of `scan.tree(reverse=True)` (group by
depth, `index_sum` the deeper level's carry onto its parents, `None` carry on the deepest level, insert at
the front, concatenate, reorder) computes exactly the backward accumulation `revAcc`, for every forest whose
parents precede their children and every commutative monoid `(add, z)`. -/
theorem scanTreeLevelsRev_eq_revAcc (h : CMon add z) (hlen : ps.length = as.length) (hwf : ParentsWF ps) :
    scanTreeLevelsRev (addF add) ps as dflt z add = revAcc add ps as := by
  have hrlen : (revAcc add ps as).length = ps.length := by rw [revAcc_length]; omega
  unfold scanTreeLevelsRev
  simp only
  by_cases hemp : (depths ps).isEmpty = true
  · have hps : ps.length = 0 := by
      have := depths_length ps
      rw [List.isEmpty_iff] at hemp
      rw [hemp] at this; simpa using this.symm
    have : ps = [] := List.eq_nil_of_length_eq_zero hps
    subst this
    have : as = [] := List.eq_nil_of_length_eq_zero (by simpa using hlen.symm)
    subst this
    rfl
  · simp only [hemp, if_false, Bool.false_eq_true]
    have hloop := levelLoopRev_spec ps as dflt h hlen hwf ((depths ps).foldl max 0 + 1) (Nat.le_refl _)
    simp only [if_true] at hloop
    rw [hloop]
    have hflat : ((List.range ((depths ps).foldl max 0 + 1)).map fun d =>
          (levelIdxs (depths ps) d).map (rgetR add z ps as)).flatten
        = (((List.range ((depths ps).foldl max 0 + 1)).map (levelIdxs (depths ps))).flatten).map (rgetR add z ps as) := by
      rw [List.map_flatten, List.map_map]; rfl
    rw [hflat]
    apply List.ext_getElem
    · simp [hrlen]
    · intro i h1 h2
      simp only [List.getElem_map, List.getElem_range]
      have hi : i < ps.length := by simpa using h1
      have hmem : i ∈ ((List.range ((depths ps).foldl max 0 + 1)).map (levelIdxs (depths ps))).flatten := by
        rw [List.mem_flatten]
        refine ⟨levelIdxs (depths ps) ((depths ps).getD i 0), ?_, ?_⟩
        · rw [List.mem_map]
          refine ⟨(depths ps).getD i 0, ?_, rfl⟩
          rw [List.mem_range]
          have := depth_le_max ps i hi
          omega
        · rw [mem_levelIdxs, depths_length]; exact ⟨hi, rfl⟩
      rw [getD_map_idxOf _ _ _ _ hmem]
      unfold rgetR
      rw [List.getD_eq_getElem?_getD, List.getElem?_eq_getElem h2]; rfl

end main
end
end Brax.Gd
