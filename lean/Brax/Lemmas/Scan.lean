import Brax.Model.Kinematics
import Batteries.Data.List.Basic
/-!
# Layer B lemmas: the tree recursion `Kin.scanFwd`, the slicing `Kin.linkSlices`
(core Lean only)
-/
namespace Brax.Kin

/-- step function of `scanFwd`, named -/
def scanStep {β γ : Type} (f : Option β → γ → β) (acc : List β) (pa : Int × γ) : List β :=
  acc ++ [f (if pa.1 < 0 then none else acc[pa.1.toNat]?) pa.2]

theorem scanFwd_eq {β γ : Type} (f : Option β → γ → β) (ps : List Int) (as : List γ) :
    scanFwd f ps as = (ps.zip as).foldl (scanStep f) [] := rfl

theorem foldl_scanStep_length {β γ : Type} (f : Option β → γ → β) (l : List (Int × γ)) (acc : List β) :
    (l.foldl (scanStep f) acc).length = acc.length + l.length := by
  induction l generalizing acc with
  | nil => simp
  | cons x xs ih => simp [List.foldl, ih, scanStep]; omega

theorem scanFwd_length {β γ : Type} (f : Option β → γ → β) (ps : List Int) (as : List γ) :
    (scanFwd f ps as).length = min ps.length as.length := by
  rw [scanFwd_eq, foldl_scanStep_length]; simp

/-- relation between two optional parents -/
inductive OptRel {β β' : Type} (R : β → β' → Prop) : Option β → Option β' → Prop
  | none : OptRel R none none
  | some {a b} : R a b → OptRel R (some a) (some b)

theorem getElem?_optRel {β β' : Type} {R : β → β' → Prop} {l : List β} {l' : List β'}
    (h : List.Forall₂ R l l') (i : Nat) : OptRel R l[i]? l'[i]? := by
  induction h generalizing i with
  | nil => simp; exact OptRel.none
  | cons hab _ ih =>
    cases i with
    | zero => simp; exact OptRel.some hab
    | succ i => simpa using ih i

theorem forall₂_append_singleton {β β' : Type} {R : β → β' → Prop} {l : List β} {l' : List β'}
    {a : β} {b : β'} (h : List.Forall₂ R l l') (hab : R a b) :
    List.Forall₂ R (l ++ [a]) (l' ++ [b]) := by
  induction h with
  | nil => exact List.Forall₂.cons hab List.Forall₂.nil
  | cons h1 _ ih => exact List.Forall₂.cons h1 ih

/-- **Simulation lemma for the tree scan.**  If two scans run over the same parent list and
argument lists related elementwise by `S` (which may mention the parent index), and one step of
`f` and `g` preserves the relation `R` whenever the (optional) parents are related, then the
results are related elementwise — for every forest, of any size. -/
theorem scanFwd_rel {β β' γ γ' : Type} (R : β → β' → Prop) (S : Int → γ → γ' → Prop)
    (f : Option β → γ → β) (g : Option β' → γ' → β')
    (hstep : ∀ p par par' a b, OptRel R par par' → S p a b → (p < 0 → par = none) →
      R (f par a) (g par' b))
    (ps : List Int) (as : List γ) (bs : List γ')
    (hS : List.Forall₂ (fun (x : Int × γ) (y : Int × γ') => x.1 = y.1 ∧ S x.1 x.2 y.2)
      (ps.zip as) (ps.zip bs)) :
    List.Forall₂ R (scanFwd f ps as) (scanFwd g ps bs) := by
  rw [scanFwd_eq, scanFwd_eq]
  suffices H : ∀ (l : List (Int × γ)) (l' : List (Int × γ')) (acc : List β) (acc' : List β'),
      List.Forall₂ (fun (x : Int × γ) (y : Int × γ') => x.1 = y.1 ∧ S x.1 x.2 y.2) l l' →
      List.Forall₂ R acc acc' →
      List.Forall₂ R (l.foldl (scanStep f) acc) (l'.foldl (scanStep g) acc') from
    H _ _ [] [] hS List.Forall₂.nil
  intro l l' acc acc' hl
  induction hl generalizing acc acc' with
  | nil => intro h; simpa using h
  | @cons x y xs ys hxy _ ih =>
    intro hacc
    simp only [List.foldl]
    apply ih
    obtain ⟨hp, hs⟩ := hxy
    unfold scanStep
    apply forall₂_append_singleton hacc
    rw [← hp]
    by_cases hneg : x.1 < 0
    · simp only [hneg, if_true]
      exact hstep x.1 none none x.2 y.2 OptRel.none hs (fun _ => rfl)
    · simp only [hneg, if_false]
      exact hstep x.1 _ _ x.2 y.2 (getElem?_optRel hacc _) hs (fun h => absurd h hneg)

theorem linkSlices_length {α : Type} (ts : List LinkType) (q qd : List α) (ds : List (DofP α)) :
    (linkSlices ts q qd ds).length = ts.length := by
  induction ts generalizing q qd ds with
  | nil => rfl
  | cons t ts ih => simp [linkSlices, ih]

theorem linkSlices_typ {α : Type} (ts : List LinkType) (q qd : List α) (ds : List (DofP α)) :
    (linkSlices ts q qd ds).map (·.typ) = ts := by
  induction ts generalizing q qd ds with
  | nil => rfl
  | cons t ts ih => simp [linkSlices, ih]

/-- the q-part of the slicing does not depend on `qd` -/
theorem linkSlices_q_indep {α : Type} (ts : List LinkType) (q qd qd' : List α) (ds : List (DofP α)) :
    (linkSlices ts q qd ds).map (fun l => (l.typ, l.q, l.dofs))
      = (linkSlices ts q qd' ds).map (fun l => (l.typ, l.q, l.dofs)) := by
  induction ts generalizing q qd qd' ds with
  | nil => rfl
  | cons t ts ih => simp only [linkSlices, List.map_cons]; rw [ih]

/-- the slices partition `q`: concatenating them gives back the first `nq` entries -/
theorem linkSlices_q_flatten {α : Type} (ts : List LinkType) (q qd : List α) (ds : List (DofP α)) :
    ((linkSlices ts q qd ds).map (·.q)).flatten = q.take ((ts.map LinkType.qWidth).sum) := by
  induction ts generalizing q qd ds with
  | nil => simp [linkSlices]
  | cons t ts ih =>
    simp only [linkSlices, List.map_cons, List.flatten_cons, ih, List.sum_cons]
    rw [List.take_add]

end Brax.Kin
