import Brax.Lemmas.C02Tree
/-!
# C02 helper lemmas: the quadratic form of `mass.matrix` as nested sums over links and dofs
-/
set_option linter.unusedSectionVars false
set_option linter.unusedSimpArgs false
namespace Brax.Gd
open Brax Kin

section nested
variable {R : Type} [CommRing R]

/-- `Σ_{l<n} Σ_{r<w l} F l r` -/
def nsum (n : Nat) (w : Nat → Nat) (F : Nat → Nat → R) : R := rsum n fun l => rsum (w l) fun r => F l r

/-- the dof index list `[(l, r)]` in flat dof order -/
def dofIdx (n : Nat) (w : Nat → Nat) : List (Nat × Nat) :=
  (List.range n).flatMap fun l => (List.range (w l)).map fun r => (l, r)

theorem foldr_add_eq_sum (l : List R) : l.foldr (· + ·) 0 = l.sum := by
  induction l with
  | nil => rfl
  | cons a l ih => simp [List.foldr, ih]

theorem zipWith_map_map {γ : Type} (l : List γ) (f g : γ → R) :
    List.zipWith (· * ·) (l.map f) (l.map g) = l.map fun x => f x * g x := by
  induction l with
  | nil => rfl
  | cons a l ih => simp [ih]

theorem sum_flatMap_map {γ δ : Type} (L : List γ) (F : γ → List δ) (h : δ → R) :
    ((L.flatMap F).map h).sum = (L.map fun l => ((F l).map h).sum).sum := by
  induction L with
  | nil => rfl
  | cons a L ih => simp [List.flatMap_cons, ih]

theorem sum_dofIdx (n : Nat) (w : Nat → Nat) (h : Nat × Nat → R) :
    ((dofIdx n w).map h).sum = nsum n w fun l r => h (l, r) := by
  unfold dofIdx nsum
  rw [sum_flatMap_map, sum_map_range]
  apply rsum_congr
  intro l _
  rw [List.map_map, sum_map_range]
  rfl

theorem dot_map_map (n : Nat) (w : Nat → Nat) (f g : Nat × Nat → R) :
    dot ((dofIdx n w).map f) ((dofIdx n w).map g) = nsum n w fun l r => f (l, r) * g (l, r) := by
  unfold dot
  rw [foldr_add_eq_sum, zipWith_map_map, sum_dofIdx]

/-- `xᵀ M x` -/
def quadForm (m : List (List R)) (x : List R) : R := dot x (matVec m x)

/-- the quadratic form of a matrix given by an entry function over the dof index list -/
theorem quadForm_entries (n : Nat) (w : Nat → Nat) (E : Nat → Nat → Nat → Nat → R) (X : Nat → Nat → R) :
    quadForm ((dofIdx n w).map fun lr => (dofIdx n w).map fun as => E lr.1 lr.2 as.1 as.2)
        ((dofIdx n w).map fun lr => X lr.1 lr.2)
      = nsum n w fun l r => X l r * nsum n w fun a s => E l r a s * X a s := by
  unfold quadForm matVec
  rw [List.map_map]
  rw [dot_map_map n w (fun lr => X lr.1 lr.2)]
  unfold nsum
  apply rsum_congr; intro l _
  apply rsum_congr; intro r _
  simp only [Function.comp]
  rw [dot_map_map n w (fun as => E l r as.1 as.2) (fun lr => X lr.1 lr.2)]
  rfl

/-- symmetric double sum: diagonal plus twice the strict lower triangle -/
theorem rsum_symm_split (n : Nat) (G : Nat → Nat → R) (hG : ∀ l a, G l a = G a l) :
    rsum n (fun l => rsum n (fun a => G l a))
      = rsum n (fun l => G l l) + 2 * rsum n (fun l => rsum l (fun a => G l a)) := by
  induction n with
  | zero => simp [rsum]
  | succ n ih =>
    simp only [rsum]
    rw [rsum_add, ih]
    have : rsum n (fun l => G l n) = rsum n (fun a => G n a) := rsum_congr (fun l _ => hG l n)
    rw [this]
    ring

theorem nsum_add (n : Nat) (w : Nat → Nat) (F G : Nat → Nat → R) :
    nsum n w (fun l r => F l r + G l r) = nsum n w F + nsum n w G := by
  unfold nsum
  rw [← rsum_add]
  apply rsum_congr; intro l _
  rw [rsum_add]

theorem nsum_congr {n : Nat} {w : Nat → Nat} {F G : Nat → Nat → R}
    (h : ∀ l r, l < n → r < w l → F l r = G l r) : nsum n w F = nsum n w G := by
  unfold nsum
  apply rsum_congr; intro l hl
  apply rsum_congr; intro r hr
  exact h l r hl hr

/-- a nested sum with a single non-zero term -/
theorem nsum_single (n : Nat) (w : Nat → Nat) (l r : Nat) (hl : l < n) (hr : r < w l) (F : Nat → Nat → R) :
    nsum n w (fun a s => if a = l ∧ s = r then F a s else 0) = F l r := by
  unfold nsum
  have : ∀ a, a < n → rsum (w a) (fun s => if a = l ∧ s = r then F a s else 0)
      = if a = l then rsum (w a) (fun s => if s = r then F a s else 0) else 0 := by
    intro a _
    by_cases h : a = l
    · simp [h]
    · simp [h, rsum_zero]
  rw [rsum_congr this, rsum_single n l hl (fun a => rsum (w a) (fun s => if s = r then F a s else 0))]
  exact rsum_single (w l) r hr (fun s => F l s)

end nested

/-! ## ancestors -/
section ancestors

theorem ancs_cons (ps : List Int) (i : Nat) :
    ancs ps i = i :: (if ps.getD i (-1) < 0 then [] else ancsFuel ps i (ps.getD i (-1)).toNat) := rfl

theorem ancsFuel_indep {ps : List Int} (hwf : PWF ps) : ∀ f i, i < f → ancsFuel ps f i = ancs ps i := by
  intro f
  induction f using Nat.strong_induction_on with
  | _ f ih =>
    intro i hi
    cases f with
    | zero => omega
    | succ f =>
      rw [ancs_cons]
      simp only [ancsFuel]
      by_cases hneg : ps.getD i (-1) < 0
      · rw [if_pos hneg, if_pos hneg]
      · rw [if_neg hneg, if_neg hneg]
        have hp := hwf i
        have hlt : (ps.getD i (-1)).toNat < i := by omega
        rw [ih f (Nat.lt_succ_self f) _ (by omega)]
        by_cases hif : i = f
        · subst hif
          rw [ih i (Nat.lt_succ_self i) _ hlt]
        · rw [ih i (by omega) _ hlt]

theorem ancs_unfold {ps : List Int} (hwf : PWF ps) (i : Nat) :
    ancs ps i = i :: (if ps.getD i (-1) < 0 then [] else ancs ps (ps.getD i (-1)).toNat) := by
  rw [ancs_cons]
  by_cases hneg : ps.getD i (-1) < 0
  · rw [if_pos hneg, if_pos hneg]
  · rw [if_neg hneg, if_neg hneg]
    have hp := hwf i
    rw [ancsFuel_indep hwf i _ (by omega)]

theorem self_mem_ancs (ps : List Int) (i : Nat) : i ∈ ancs ps i := by
  rw [ancs_cons]; exact List.mem_cons_self

theorem ancs_le {ps : List Int} (hwf : PWF ps) : ∀ i a, a ∈ ancs ps i → a ≤ i := by
  intro i
  induction i using Nat.strong_induction_on with
  | _ i ih =>
    intro a ha
    rw [ancs_unfold hwf i] at ha
    rcases List.mem_cons.mp ha with rfl | ha'
    · exact Nat.le_refl _
    · by_cases hneg : ps.getD i (-1) < 0
      · rw [if_pos hneg] at ha'; exact absurd ha' List.not_mem_nil
      · rw [if_neg hneg] at ha'
        have hp := hwf i
        have := ih (ps.getD i (-1)).toNat (by omega) a ha'
        omega

end ancestors

/-! ## dof level -/
section doflevel
variable {R : Type} [CommRing R]

/-- `cdof` row `r` of link `l` -/
def cAt (cdof : List (List (Motion R))) (l r : Nat) : Motion R := (cdof.getD l []).getD r Motion.zero
/-- number of dofs of link `l` -/
def wAt (cdof : List (List (Motion R))) (l : Nat) : Nat := (cdof.getD l []).length
def armAt (arm : List (List R)) (l r : Nat) : R := (arm.getD l []).getD r 0

/-- joint-space velocity of link `l`: `Σ_{dofs r of l} cdof_{l,r} · x_{l,r}` -/
def Ulink (cdof : List (List (Motion R))) (X : Nat → Nat → R) (l : Nat) : Motion R :=
  mrsum (wAt cdof l) fun r => mulr (cAt cdof l r) (X l r)

/-- `v_k(x)`: sum of `cdof_i x_i` over the dofs of the ancestors-or-self of link `k` -/
def velAnc (ps : List Int) (cdof : List (List (Motion R))) (X : Nat → Nat → R) (k : Nat) : Motion R :=
  mrsum (k + 1) fun a => if (ancs ps k).contains a then Ulink cdof X a else Motion.zero

/-- `massEntry` without the armature -/
def massOff (ps : List Int) (C : List (Inertia R)) (cdof : List (List (Motion R))) (l r a s : Nat) : R :=
  let low := fun (l r a s : Nat) =>
    if (ancs ps l).contains a then mxRaw (C.getD l dI) (cAt cdof l r) (cAt cdof a s) else 0
  if a < l ∨ (a = l ∧ s ≤ r) then low l r a s else low a s l r

theorem massEntry_eq (ps : List Int) (C : List (Inertia R)) (cdof : List (List (Motion R)))
    (arm : List (List R)) (l r a s : Nat) :
    massEntry ps C cdof arm l r a s
      = massOff ps C cdof l r a s + (if a = l ∧ s = r then armAt arm l r else 0) := by
  unfold massEntry massOff armAt cAt dI
  simp only
  split <;> simp

theorem massOff_symm (ps : List Int) (C : List (Inertia R)) (cdof : List (List (Motion R)))
    (l r a s : Nat) : massOff ps C cdof l r a s = massOff ps C cdof a s l r := by
  unfold massOff
  simp only
  by_cases h1 : a = l
  · subst h1
    by_cases h2 : s = r
    · subst h2; rfl
    · have h2' : ¬ r = s := fun h => h2 h.symm
      rcases Nat.lt_or_gt_of_ne h2 with g | g
      · have g1 : s ≤ r := Nat.le_of_lt g
        have g2 : ¬ r ≤ s := Nat.not_le.mpr g
        simp [h2, h2', g1, g2]
      · have g1 : r ≤ s := Nat.le_of_lt g
        have g2 : ¬ s ≤ r := Nat.not_le.mpr g
        simp [h2, h2', g1, g2]
  · have h1' : ¬ l = a := fun h => h1 h.symm
    rcases Nat.lt_or_gt_of_ne h1 with g | g
    · have g2 : ¬ l < a := Nat.not_lt.mpr (Nat.le_of_lt g)
      simp [h1, h1', g, g2]
    · have g2 : ¬ a < l := Nat.not_lt.mpr (Nat.le_of_lt g)
      simp [h1, h1', g, g2]

theorem mxRaw_eq_bil (C : Inertia R) (ci cj : Motion R) : mxRaw C ci cj = bil C cj ci := rfl

/-- off-diagonal block (`a < l`) -/
theorem massOff_lt (ps : List Int) (C : List (Inertia R)) (cdof : List (List (Motion R)))
    (l r a s : Nat) (h : a < l) :
    massOff ps C cdof l r a s
      = if (ancs ps l).contains a then bil (C.getD l dI) (cAt cdof a s) (cAt cdof l r) else 0 := by
  unfold massOff
  simp only [Or.inl h, if_true, mxRaw_eq_bil]

/-- diagonal block -/
theorem massOff_diag (ps : List Int) (C : List (Inertia R)) (cdof : List (List (Motion R)))
    (l r s : Nat) (hC : SymmI (C.getD l dI)) :
    massOff ps C cdof l r l s = bil (C.getD l dI) (cAt cdof l r) (cAt cdof l s) := by
  unfold massOff
  have hm : (ancs ps l).contains l = true := by
    rw [List.contains_iff_mem]; exact self_mem_ancs ps l
  simp only [hm, if_true, mxRaw_eq_bil, Nat.lt_irrefl, false_or, true_and]
  split
  · exact bil_symm hC _ _
  · rfl

theorem dI_symm : SymmI (dI : Inertia R) := by
  simp [SymmI, dI, M3.zero, V3.zero]

theorem foldl_revStep_symm (steps : List (Nat × Int)) : ∀ (acc : List (Inertia R)),
    (∀ x ∈ acc, SymmI x) → ∀ x ∈ steps.foldl (revStep inertiaAdd) acc, SymmI x := by
  induction steps with
  | nil => intro acc h; exact h
  | cons ip rest ih =>
    intro acc h
    simp only [List.foldl]
    apply ih
    unfold revStep
    split
    · exact h
    · split
      · rename_i v hv
        have hvs : SymmI v := h v (List.mem_of_getElem? hv)
        intro x hx
        rw [List.mem_iff_getElem?] at hx
        obtain ⟨k, hk⟩ := hx
        rw [List.getElem?_modify] at hk
        cases hkk : acc[k]? with
        | none => rw [hkk] at hk; simp at hk
        | some y =>
          rw [hkk] at hk
          have hy : SymmI y := h y (List.mem_of_getElem? hkk)
          simp only [Option.map_eq_map, Option.map_some, Option.some.injEq] at hk
          rw [← hk]
          split
          · exact hy.add hvs
          · exact hy
      · exact h

theorem crb_symm (ps : List Int) (I : List (Inertia R)) (h : ∀ x ∈ I, SymmI x) (l : Nat) :
    SymmI ((crb ps I).getD l dI) := by
  have hall := foldl_revStep_symm ((List.range ps.length).zip ps).reverse I h
  rw [List.getD_eq_getElem?_getD]
  cases hk : (crb ps I)[l]? with
  | none => exact dI_symm
  | some y => exact hall y (List.mem_of_getElem? hk)

theorem mrsum_congr {n : Nat} {f g : Nat → Motion R} (h : ∀ i, i < n → f i = g i) :
    mrsum n f = mrsum n g := by
  induction n with
  | zero => rfl
  | succ n ih =>
    simp only [mrsum]
    rw [ih (fun i hi => h i (Nat.lt_succ_of_lt hi)), h n (Nat.lt_succ_self n)]

theorem mrsum_zero (n : Nat) : mrsum n (fun _ => (Motion.zero : Motion R)) = Motion.zero := by
  induction n with
  | zero => rfl
  | succ n ih => simp only [mrsum, ih, madd_zero]

/-- extending a sum by vanishing terms -/
theorem mrsum_extend {m n : Nat} (hmn : m ≤ n) (f : Nat → Motion R)
    (h : ∀ i, m ≤ i → i < n → f i = Motion.zero) : mrsum n f = mrsum m f := by
  induction n with
  | zero => have : m = 0 := by omega
            subst this; rfl
  | succ n ih =>
    by_cases hm : m = n + 1
    · subst hm; rfl
    · simp only [mrsum]
      rw [h n (by omega) (Nat.lt_succ_self n), madd_zero]
      exact ih (by omega) (fun i h1 h2 => h i h1 (Nat.lt_succ_of_lt h2))

/-- `Σ_{a<l} [a ∈ ancs l] U a` is the velocity of the parent of `l` -/
theorem mrsum_ancs_lt {ps : List Int} (hwf : PWF ps) (cdof : List (List (Motion R)))
    (X : Nat → Nat → R) (l : Nat) :
    mrsum l (fun a => if (ancs ps l).contains a then Ulink cdof X a else Motion.zero)
      = vpar ps (velAnc ps cdof X) l := by
  unfold vpar
  by_cases hneg : ps.getD l (-1) < 0
  · rw [if_pos hneg]
    have : ∀ a, a < l → (if (ancs ps l).contains a then Ulink cdof X a else Motion.zero) = Motion.zero := by
      intro a ha
      have hna : (ancs ps l).contains a = false := by
        rw [Bool.eq_false_iff]; intro hc
        rw [List.contains_iff_mem, ancs_unfold hwf l, if_pos hneg] at hc
        simp at hc; omega
      rw [hna]; rfl
    rw [mrsum_congr this, mrsum_zero]
  · rw [if_neg hneg]
    have hp := hwf l
    set p := (ps.getD l (-1)).toNat with hpdef
    have hpl : p < l := by omega
    unfold velAnc
    have hiff : ∀ a, a < l → ((ancs ps l).contains a = (ancs ps p).contains a) := by
      intro a ha
      rw [ancs_unfold hwf l, if_neg hneg, List.contains_cons]
      have : (a == l) = false := by
        rw [beq_eq_false_iff_ne]; omega
      rw [this, Bool.false_or]
    have h1 : mrsum l (fun a => if (ancs ps l).contains a then Ulink cdof X a else Motion.zero)
        = mrsum l (fun a => if (ancs ps p).contains a then Ulink cdof X a else Motion.zero) :=
      mrsum_congr (fun a ha => by rw [hiff a ha])
    rw [h1]
    apply mrsum_extend (by omega)
    intro a h1 _
    have hna : (ancs ps p).contains a = false := by
      rw [Bool.eq_false_iff]; intro hc
      rw [List.contains_iff_mem] at hc
      have := ancs_le hwf p a hc
      omega
    rw [hna]; rfl

/-- the recursion of the ancestor-sum velocity -/
theorem velAnc_rec {ps : List Int} (hwf : PWF ps) (cdof : List (List (Motion R)))
    (X : Nat → Nat → R) (l : Nat) :
    velAnc ps cdof X l = vpar ps (velAnc ps cdof X) l + Ulink cdof X l := by
  rw [← mrsum_ancs_lt hwf cdof X l]
  conv_lhs => unfold velAnc
  simp only [mrsum]
  have hm : (ancs ps l).contains l = true := by
    rw [List.contains_iff_mem]; exact self_mem_ancs ps l
  rw [hm, if_pos rfl]

theorem bil_ite_left (I : Inertia R) (c : Bool) (u v : Motion R) :
    bil I (if c then u else Motion.zero) v = if c then bil I u v else 0 := by
  cases c <;> simp [bil_zero_left]

/-- `bil C (U a) (U l)` expanded over the dofs of both links -/
theorem bil_Ulink (C : Inertia R) (cdof : List (List (Motion R))) (X : Nat → Nat → R) (a l : Nat) :
    bil C (Ulink cdof X a) (Ulink cdof X l)
      = rsum (wAt cdof a) fun s => rsum (wAt cdof l) fun r =>
          X a s * X l r * bil C (cAt cdof a s) (cAt cdof l r) := by
  unfold Ulink
  rw [bil_mrsum_left]
  apply rsum_congr; intro s _
  rw [bil_mrsum_right]
  apply rsum_congr; intro r _
  rw [bil_mulr_left, bil_mulr_right]; ring

/-- **the quadratic form of `mass.matrix`** as kinetic energy of the ancestor-sum velocities plus
the armature term -/
theorem quadForm_massMatrix (ps : List Int) (cinr : List (Inertia R)) (cdof : List (List (Motion R)))
    (arm : List (List R)) (X : Nat → Nat → R)
    (hps : ps.length = cdof.length) (hI : cinr.length = cdof.length) (hwf : PWF ps)
    (hsym : ∀ x ∈ cinr, SymmI x) :
    quadForm (massMatrix ps cinr cdof arm) ((dofIdx cdof.length (wAt cdof)).map fun lr => X lr.1 lr.2)
      = rsum cdof.length (fun k => ke (cinr.getD k dI) (velAnc ps cdof X k))
        + nsum cdof.length (wAt cdof) (fun l r => armAt arm l r * (X l r * X l r)) := by
  have hM : massMatrix ps cinr cdof arm
      = (dofIdx cdof.length (wAt cdof)).map fun lr => (dofIdx cdof.length (wAt cdof)).map fun as =>
          massEntry ps (crb ps cinr) cdof arm lr.1 lr.2 as.1 as.2 := rfl
  rw [hM, quadForm_entries]
  generalize hn : cdof.length = n at *
  set w := wAt cdof with hw
  set C := crb ps cinr with hC
  -- split off the armature
  have hsplit : ∀ l r, l < n → r < w l →
      X l r * nsum n w (fun a s => massEntry ps C cdof arm l r a s * X a s)
        = X l r * nsum n w (fun a s => massOff ps C cdof l r a s * X a s)
          + armAt arm l r * (X l r * X l r) := by
    intro l r hl hr
    have : nsum n w (fun a s => massEntry ps C cdof arm l r a s * X a s)
        = nsum n w (fun a s => massOff ps C cdof l r a s * X a s)
          + nsum n w (fun a s => if a = l ∧ s = r then armAt arm l r * X a s else 0) := by
      rw [← nsum_add]
      apply nsum_congr; intro a s _ _
      rw [massEntry_eq]
      split <;> ring
    rw [this, nsum_single n w l r hl hr (fun a s => armAt arm l r * X a s)]
    ring
  rw [nsum_congr hsplit, nsum_add]
  congr 1
  -- the armature-free part
  let G : Nat → Nat → R := fun l a =>
    rsum (w l) fun r => rsum (w a) fun s => X l r * (massOff ps C cdof l r a s * X a s)
  have hQ : nsum n w (fun l r => X l r * nsum n w (fun a s => massOff ps C cdof l r a s * X a s))
      = rsum n (fun l => rsum n (fun a => G l a)) := by
    unfold nsum
    apply rsum_congr; intro l _
    have : ∀ r, r < w l → X l r * rsum n (fun a => rsum (w a) (fun s => massOff ps C cdof l r a s * X a s))
        = rsum n (fun a => rsum (w a) (fun s => X l r * (massOff ps C cdof l r a s * X a s))) := by
      intro r _
      rw [← rsum_mul_left]
      apply rsum_congr; intro a _
      rw [← rsum_mul_left]
    rw [rsum_congr this, rsum_comm]
  have hGsymm : ∀ l a, G l a = G a l := by
    intro l a
    show rsum (w l) (fun r => rsum (w a) (fun s => X l r * (massOff ps C cdof l r a s * X a s)))
      = rsum (w a) (fun s => rsum (w l) (fun r => X a s * (massOff ps C cdof a s l r * X l r)))
    rw [rsum_comm]
    apply rsum_congr; intro s _
    apply rsum_congr; intro r _
    rw [massOff_symm ps C cdof l r a s]; ring
  have hCs : ∀ l, SymmI (C.getD l dI) := crb_symm ps cinr hsym
  have hGdiag : ∀ l, G l l = ke (C.getD l dI) (Ulink cdof X l) := by
    intro l
    unfold ke
    rw [bil_Ulink]
    apply rsum_congr; intro r _
    apply rsum_congr; intro s _
    rw [massOff_diag ps C cdof l r s (hCs l)]; ring
  have hGlt : ∀ l a, a < l → G l a
      = if (ancs ps l).contains a then bil (C.getD l dI) (Ulink cdof X a) (Ulink cdof X l) else 0 := by
    intro l a hal
    by_cases hc : (ancs ps l).contains a = true
    · rw [if_pos hc, bil_Ulink, rsum_comm]
      apply rsum_congr; intro r _
      apply rsum_congr; intro s _
      rw [massOff_lt ps C cdof l r a s hal, if_pos hc]; ring
    · rw [if_neg hc]
      have : ∀ r, r < w l → rsum (w a) (fun s => X l r * (massOff ps C cdof l r a s * X a s))
          = 0 := by
        intro r _
        have : ∀ s, s < w a → X l r * (massOff ps C cdof l r a s * X a s) = 0 := by
          intro s _
          rw [massOff_lt ps C cdof l r a s hal, if_neg hc]; ring
        rw [rsum_congr this, rsum_zero]
      show rsum (w l) (fun r => rsum (w a) (fun s => X l r * (massOff ps C cdof l r a s * X a s))) = 0
      rw [rsum_congr this, rsum_zero]
  have hlow : ∀ l, rsum l (fun a => G l a)
      = bil (C.getD l dI) (Ulink cdof X l) (vpar ps (velAnc ps cdof X) l) := by
    intro l
    rw [rsum_congr (fun a ha => hGlt l a ha), bil_symm (hCs l), ← mrsum_ancs_lt hwf cdof X l,
      bil_mrsum_left]
    apply rsum_congr; intro a _
    rw [bil_ite_left]
  rw [hQ, rsum_symm_split n G hGsymm, rsum_congr (fun l _ => hGdiag l), rsum_congr (fun l _ => hlow l)]
  have hcrb := crb_ke n ps cinr (by rw [hps]) hI hwf hsym (Ulink cdof X) (velAnc ps cdof X)
    (fun l _ => velAnc_rec hwf cdof X l)
  rw [hcrb, rsum_add, rsum_mul_left]
  rfl

end doflevel
end Brax.Gd
