import Brax.Lemmas.C02Tree
/-!
# C02 helper lemmas: the quadratic form of `mass.matrix` as nested sums over links and dofs
-/
set_option linter.unusedSectionVars false
set_option linter.unusedSimpArgs false
namespace Brax.Gd
open Brax Kin

section nested
variable {R : Type} [CommRing R]

/-- `Σ_{l<n} Σ_{r<w l} F l r` -/
def nsum (n : Nat) (w : Nat → Nat) (F : Nat → Nat → R) : R := rsum n fun l => rsum (w l) fun r => F l r

/-- the dof index list `[(l, r)]` in flat dof order -/
def dofIdx (n : Nat) (w : Nat → Nat) : List (Nat × Nat) :=
  (List.range n).flatMap fun l => (List.range (w l)).map fun r => (l, r)

theorem foldr_add_eq_sum (l : List R) : l.foldr (· + ·) 0 = l.sum := by
  induction l with
  | nil => rfl
  | cons a l ih => simp [List.foldr, ih]

theorem zipWith_map_map {γ : Type} (l : List γ) (f g : γ → R) :
    List.zipWith (· * ·) (l.map f) (l.map g) = l.map fun x => f x * g x := by
  induction l with
  | nil => rfl
  | cons a l ih => simp [ih]

theorem sum_flatMap_map {γ δ : Type} (L : List γ) (F : γ → List δ) (h : δ → R) :
    ((L.flatMap F).map h).sum = (L.map fun l => ((F l).map h).sum).sum := by
  induction L with
  | nil => rfl
  | cons a L ih => simp [List.flatMap_cons, ih]

theorem sum_dofIdx (n : Nat) (w : Nat → Nat) (h : Nat × Nat → R) :
    ((dofIdx n w).map h).sum = nsum n w fun l r => h (l, r) := by
  unfold dofIdx nsum
  rw [sum_flatMap_map, sum_map_range]
  apply rsum_congr
  intro l _
  rw [List.map_map, sum_map_range]
  rfl

theorem dot_map_map (n : Nat) (w : Nat → Nat) (f g : Nat × Nat → R) :
    dot ((dofIdx n w).map f) ((dofIdx n w).map g) = nsum n w fun l r => f (l, r) * g (l, r) := by
  unfold dot
  rw [foldr_add_eq_sum, zipWith_map_map, sum_dofIdx]

/-- `xᵀ M x` -/
def quadForm (m : List (List R)) (x : List R) : R := dot x (matVec m x)

/-- the quadratic form of a matrix given by an entry function over the dof index list -/
theorem quadForm_entries (n : Nat) (w : Nat → Nat) (E : Nat → Nat → Nat → Nat → R) (X : Nat → Nat → R) :
    quadForm ((dofIdx n w).map fun lr => (dofIdx n w).map fun as => E lr.1 lr.2 as.1 as.2)
        ((dofIdx n w).map fun lr => X lr.1 lr.2)
      = nsum n w fun l r => X l r * nsum n w fun a s => E l r a s * X a s := by
  unfold quadForm matVec
  rw [List.map_map]
  rw [dot_map_map n w (fun lr => X lr.1 lr.2)]
  unfold nsum
  apply rsum_congr; intro l _
  apply rsum_congr; intro r _
  simp only [Function.comp]
  rw [dot_map_map n w (fun as => E l r as.1 as.2) (fun lr => X lr.1 lr.2)]
  rfl

/-- symmetric double sum: diagonal plus twice the strict lower triangle -/
theorem rsum_symm_split (n : Nat) (G : Nat → Nat → R) (hG : ∀ l a, G l a = G a l) :
    rsum n (fun l => rsum n (fun a => G l a))
      = rsum n (fun l => G l l) + 2 * rsum n (fun l => rsum l (fun a => G l a)) := by
  induction n with
  | zero => simp [rsum]
  | succ n ih =>
    simp only [rsum]
    rw [rsum_add, ih]
    have : rsum n (fun l => G l n) = rsum n (fun a => G n a) := rsum_congr (fun l _ => hG l n)
    rw [this]
    ring

theorem nsum_add (n : Nat) (w : Nat → Nat) (F G : Nat → Nat → R) :
    nsum n w (fun l r => F l r + G l r) = nsum n w F + nsum n w G := by
  unfold nsum
  rw [← rsum_add]
  apply rsum_congr; intro l _
  rw [rsum_add]

theorem nsum_congr {n : Nat} {w : Nat → Nat} {F G : Nat → Nat → R}
    (h : ∀ l r, l < n → r < w l → F l r = G l r) : nsum n w F = nsum n w G := by
  unfold nsum
  apply rsum_congr; intro l hl
  apply rsum_congr; intro r hr
  exact h l r hl hr

/-- a nested sum with a single non-zero term -/
theorem nsum_single (n : Nat) (w : Nat → Nat) (l r : Nat) (hl : l < n) (hr : r < w l) (F : Nat → Nat → R) :
    nsum n w (fun a s => if a = l ∧ s = r then F a s else 0) = F l r := by
  unfold nsum
  have : ∀ a, a < n → rsum (w a) (fun s => if a = l ∧ s = r then F a s else 0)
      = if a = l then rsum (w a) (fun s => if s = r then F a s else 0) else 0 := by
    intro a _
    by_cases h : a = l
    · simp [h]
    · simp [h, rsum_zero]
  rw [rsum_congr this, rsum_single n l hl (fun a => rsum (w a) (fun s => if s = r then F a s else 0))]
  exact rsum_single (w l) r hr (fun s => F l s)

end nested
end Brax.Gd
