import Brax.Model.C17
/-!
# C17 — helper lemmas (core Lean only; no Mathlib needed)

* list facts about `filterMap` over ranges (all indices hit);
* `insertInternal_eq` / `insertInternal_spec`: the `Int`-valued roll arithmetic of
  `insert_internal` in natural-number form and its effect on `data.take ip`;
* `takeWrap_noncyclic` / `takeWrap_cyclic`: what `Queue.sample_internal` reads;
* the simulation relation `Rel` between the guarded queue and the abstract FIFO and its
  preservation by every operation (`step_refines`, `run_refines`);
* the wrappers as a product of independent buffers (`shStep_product`, `shRun_product`).
-/
namespace Brax.C17
variable {α ι β γ δ : Type}

/-! ## lists -/


theorem length_filterMap_of_isSome (f : β → Option γ) (l : List β)
    (h : ∀ x ∈ l, (f x).isSome) : (l.filterMap f).length = l.length := by
  induction l with
  | nil => rfl
  | cons a l ih =>
    have ha := h a (by simp)
    obtain ⟨v, hv⟩ := Option.isSome_iff_exists.mp ha
    rw [List.filterMap_cons_some hv]
    simp only [List.length_cons]
    rw [ih (fun x hx => h x (by simp [hx]))]

theorem getElem?_filterMap_range (f : Nat → Option β) (n : Nat)
    (h : ∀ j, j < n → (f j).isSome) (j : Nat) (hj : j < n) :
    ((List.range n).filterMap f)[j]? = f j := by
  induction n with
  | zero => omega
  | succ n ih =>
    have hlen : ((List.range n).filterMap f).length = n := by
      rw [length_filterMap_of_isSome _ _ (fun x hx => h x (by simp at hx; omega))]; simp
    rw [List.range_succ, List.filterMap_append]
    by_cases hjn : j < n
    · rw [List.getElem?_append_left (by omega)]
      exact ih (fun j hj => h j (by omega)) hjn
    · have : j = n := by omega
      subst this
      rw [List.getElem?_append_right (by omega), hlen]
      obtain ⟨v, hv⟩ := Option.isSome_iff_exists.mp (h j (by omega))
      simp [hv]

theorem filterMap_range'_getElem? (l : List α) (a B : Nat) (h : a + B ≤ l.length) :
    (List.range' a B).filterMap (fun j => l[j]?) = (l.drop a).take B := by
  induction B generalizing a with
  | zero => simp
  | succ B ih =>
    have ha : a < l.length := by omega
    rw [List.range'_succ, List.filterMap_cons_some (List.getElem?_eq_getElem ha)]
    rw [ih (a + 1) (by omega)]
    rw [List.drop_eq_getElem_cons ha, List.take_succ_cons]


theorem filterMap_congr' {f g : β → Option γ} {l : List β} (h : ∀ x ∈ l, f x = g x) :
    l.filterMap f = l.filterMap g := by
  induction l with
  | nil => rfl
  | cons a l ih =>
    have ha := h a (by simp)
    have ih' := ih (fun x hx => h x (by simp [hx]))
    simp only [List.filterMap_cons, ha, ih']

theorem takeWrap_noncyclic (data : List α) (sp ip B : Nat) (h1 : sp + B ≤ ip)
    (h2 : ip ≤ data.length) :
    takeWrap data ((List.range B).map fun i => jmod (i + sp) ip) =
      ((data.take ip).drop sp).take B := by
  unfold takeWrap
  rw [List.filterMap_map]
  have hc : ∀ i ∈ List.range B,
      ((fun i => data[i % data.length]?) ∘ fun i => jmod (i + sp) ip) i = data[sp + i]? := by
    intro i hi
    simp only [List.mem_range] at hi
    have hne : ip ≠ 0 := by omega
    simp only [Function.comp, jmod, if_neg hne]
    rw [Nat.mod_eq_of_lt (by omega : i + sp < ip), Nat.mod_eq_of_lt (by omega), Nat.add_comm]
  rw [filterMap_congr' hc]
  have hr : (List.range B).filterMap (fun i => data[sp + i]?) =
      (List.range' sp B).filterMap (fun j => data[j]?) := by
    rw [List.range'_eq_map_range, List.filterMap_map]; rfl
  rw [hr, filterMap_range'_getElem? _ _ _ (by omega)]
  rw [List.drop_take, List.take_take]
  congr 1
  omega

theorem takeWrap_cyclic (data : List α) (sp ip B : Nat) (hpos : 0 < ip) (h2 : ip ≤ data.length) :
    takeWrap data ((List.range B).map fun i => jmod (i + sp) ip) =
      (List.range B).filterMap fun i => (data.take ip)[(sp + i) % ip]? := by
  unfold takeWrap
  rw [List.filterMap_map]
  apply filterMap_congr'
  intro i _
  have hne : ip ≠ 0 := by omega
  have hlt : (i + sp) % ip < ip := Nat.mod_lt _ hpos
  simp only [Function.comp, jmod, if_neg hne]
  rw [Nat.mod_eq_of_lt (by omega : (i + sp) % ip < data.length), Nat.add_comm sp i,
    List.getElem?_take_of_lt hlt]


/-! ## `insert_internal` -/


theorem jroll_neg (l : List α) (r : Nat) (h0 : 0 < r) (hr : r ≤ l.length) :
    jroll l (-(r : Int)) = l.drop r ++ l.take r := by
  have hn : (0 : Int) < l.length := by omega
  have hmod : (-(r : Int)) % (l.length : Int) = (l.length : Int) - r := by
    rw [← Int.add_emod_right (-(r : Int)) (l.length : Int)]
    by_cases hlt : r = l.length
    · rw [hlt]; simp
    · rw [Int.emod_eq_of_lt (by omega) (by omega)]; omega
  simp only [jroll, hmod]
  have : l.length - ((l.length : Int) - (r : Int)).toNat = r := by omega
  rw [this]

/-- `insert_internal` in natural-number form (`r` = how far the buffer is rolled) -/
theorem insertInternal_eq (s : Core α) (upd : List α) (hk : upd.length ≤ s.data.length)
    (hip : s.ip ≤ s.data.length) :
    insertInternal s upd =
      { data := (if s.ip + upd.length - s.data.length = 0 then s.data
                 else s.data.drop (s.ip + upd.length - s.data.length) ++
                      s.data.take (s.ip + upd.length - s.data.length)).take
                  (s.ip - (s.ip + upd.length - s.data.length)) ++ upd ++
                (if s.ip + upd.length - s.data.length = 0 then s.data
                 else s.data.drop (s.ip + upd.length - s.data.length) ++
                      s.data.take (s.ip + upd.length - s.data.length)).drop
                  (s.ip - (s.ip + upd.length - s.data.length) + upd.length),
        ip := s.ip - (s.ip + upd.length - s.data.length) + upd.length,
        sp := s.sp - (s.ip + upd.length - s.data.length) } := by
  generalize hr : s.ip + upd.length - s.data.length = r
  have hroll : min (0 : Int) ((s.data.length : Int) - (s.ip : Int) - (upd.length : Int)) = -(r : Int) := by
    omega
  unfold insertInternal
  simp only [hroll]
  have hdata : (if -(r : Int) ≠ 0 then jroll s.data (-(r : Int)) else s.data) =
      (if r = 0 then s.data else s.data.drop r ++ s.data.take r) := by
    by_cases h0 : r = 0
    · simp [h0]
    · rw [if_pos (by omega), if_neg h0, jroll_neg _ _ (by omega) (by omega)]
  rw [hdata]
  generalize hd : (if r = 0 then s.data else s.data.drop r ++ s.data.take r) = d
  have hdl : d.length = s.data.length := by
    rw [← hd]; split
    · rfl
    · simp [List.length_append, List.length_take, List.length_drop]; omega
  have hp : (max 0 (min ((s.ip : Int) + -(r : Int)) ((d.length : Int) - (upd.length : Int)))).toNat = s.ip - r := by
    rw [hdl]; omega
  have hmod : ((s.ip : Int) + -(r : Int) + (upd.length : Int)) % ((s.data.length : Int) + 1)
      = ((s.ip - r + upd.length : Nat) : Int) := by
    rw [Int.emod_eq_of_lt (by omega) (by omega)]; omega
  simp only [dynUpdate, hp, hmod]
  congr 1
  omega


theorem insertInternal_spec (s : Core α) (upd : List α) (hk : upd.length ≤ s.data.length)
    (hip : s.ip ≤ s.data.length) :
    (insertInternal s upd).data.length = s.data.length ∧
    (insertInternal s upd).ip = min s.data.length (s.ip + upd.length) ∧
    (insertInternal s upd).data.take (insertInternal s upd).ip =
      (s.data.take s.ip ++ upd).drop (s.ip + upd.length - s.data.length) ∧
    (insertInternal s upd).sp = s.sp - (s.ip + upd.length - s.data.length) := by
  rw [insertInternal_eq s upd hk hip]
  simp only
  by_cases hr : s.ip + upd.length - s.data.length = 0
  · simp only [hr, if_true, Nat.sub_zero, List.drop_zero]
    have h1 : s.ip + upd.length ≤ s.data.length := by omega
    have hl : (List.take s.ip s.data ++ upd).length = s.ip + upd.length := by
      simp [List.length_take]; omega
    refine ⟨?_, by omega, ?_, trivial⟩
    · rw [List.length_append, hl, List.length_drop]; omega
    · rw [List.take_append_of_le_length (by omega), List.take_of_length_le (by omega)]
  · simp only [hr, if_false]
    generalize hrr : s.ip + upd.length - s.data.length = r at *
    have hp : s.ip - r + upd.length = s.data.length := by omega
    have hlen1 : (List.take (s.ip - r) (List.drop r s.data ++ List.take r s.data)).length = s.ip - r := by
      simp [List.length_take, List.length_drop]; omega
    have hdrop : List.drop (s.data.length) (List.drop r s.data ++ List.take r s.data) = [] := by
      apply List.drop_of_length_le; simp [List.length_take, List.length_drop]; omega
    have hl2 : (List.take (s.ip - r) (List.drop r s.data ++ List.take r s.data) ++ upd).length
        = s.data.length := by
      rw [List.length_append, hlen1]; omega
    rw [hp, hdrop, List.append_nil]
    refine ⟨hl2, by omega, ?_, trivial⟩
    rw [List.take_of_length_le (by omega)]
    rw [List.drop_append_of_le_length (by simp [List.length_take]; omega)]
    congr 1
    rw [List.take_append_of_le_length (by simp [List.length_drop]; omega)]
    rw [List.drop_take]


/-! ## simulation of the guarded `Queue` by the abstract FIFO -/

/-- simulation relation between the guarded `Queue` and the abstract FIFO -/
structure Rel (cap : Nat) (cyc : Bool) (b : Buf α) (f : Fifo α) : Prop where
  len : b.core.data.length = cap
  ip_le : b.core.ip ≤ cap
  held : b.core.data.take b.core.ip = f.held
  cur : b.core.sp = f.cur
  cur_le : f.cur ≤ f.held.length
  host : b.host = f.avail cyc

theorem Rel.ip_eq {cap : Nat} {cyc : Bool} {b : Buf α} {f : Fifo α} (h : Rel cap cyc b f) :
    f.held.length = b.core.ip := by
  rw [← h.held, List.length_take, h.len]; have := h.ip_le; omega

theorem Rel.size_eq {cap : Nat} {cyc : Bool} {b : Buf α} {f : Fifo α} (h : Rel cap cyc b f) :
    queueSize cyc b.core = (f.avail cyc : Int) := by
  have h1 := h.ip_eq; have h2 := h.cur; have h3 := h.cur_le
  unfold queueSize Fifo.avail
  cases cyc <;> simp <;> omega

theorem Rel.init (cap : Nat) (cyc : Bool) (z : α) : Rel cap cyc (Buf.init cap z) Fifo.empty := by
  constructor <;> simp [Buf.init, Core.init, Fifo.empty, Fifo.avail]

theorem insert_refines_step (cap B : Nat) (cyc : Bool) (b : Buf α) (f : Fifo α)
    (h : Rel cap cyc b f) (xs : List α) :
    (Buf.step (queueKind cap B cyc) b (.ins xs)).1 = (Fifo.step cap B cyc f (.ins xs)).1 ∧
    Rel cap cyc (Buf.step (queueKind cap B cyc) b (.ins xs)).2 (Fifo.step cap B cyc f (.ins xs)).2 := by
  have hip := h.ip_eq
  by_cases hk : cap < xs.length
  · have e1 : Buf.step (queueKind cap B cyc) b (.ins xs) = (⟨.refuseInsert, [], queueSize cyc b.core⟩, b) := by
      simp [Buf.step, Buf.insert, checkCanInsert, queueKind, hk]
    have e2 : Fifo.step cap B cyc f (.ins xs) = (⟨.refuseInsert, [], f.avail cyc⟩, f) := by
      simp [Fifo.step, Fifo.insert, hk]
    rw [e1, e2, h.size_eq]; exact ⟨rfl, h⟩
  · have hs := insertInternal_spec b.core xs (by rw [h.len]; omega) (by rw [h.len]; exact h.ip_le)
    obtain ⟨s1, s2, s3, s4⟩ := hs
    have e1 : Buf.step (queueKind cap B cyc) b (.ins xs) =
        (⟨.ok, [], queueSize cyc (insertInternal b.core xs)⟩,
         ⟨insertInternal b.core xs, min cap (b.host + xs.length)⟩) := by
      simp [Buf.step, Buf.insert, checkCanInsert, queueKind, hk]
    have e2 : Fifo.step cap B cyc f (.ins xs) =
        (⟨.ok, [], (Fifo.avail cyc ⟨(f.held ++ xs).drop ((f.held ++ xs).length - cap),
            f.cur - ((f.held ++ xs).length - cap)⟩ : Nat)⟩,
         ⟨(f.held ++ xs).drop ((f.held ++ xs).length - cap), f.cur - ((f.held ++ xs).length - cap)⟩) := by
      simp [Fifo.step, Fifo.insert, hk]
    have hover : (f.held ++ xs).length - cap = b.core.ip + xs.length - b.core.data.length := by
      rw [List.length_append, hip, h.len]
    have hrel : Rel cap cyc ⟨insertInternal b.core xs, min cap (b.host + xs.length)⟩
        ⟨(f.held ++ xs).drop ((f.held ++ xs).length - cap), f.cur - ((f.held ++ xs).length - cap)⟩ := by
      have hl := h.len; have hle := h.ip_le; have hc := h.cur; have hcl := h.cur_le; have hh := h.host
      constructor
      · simp only; rw [s1, hl]
      · simp only; rw [s2]; omega
      · simp only; rw [s3, h.held, hover]
      · simp only; rw [s4, hover, hc]
      · simp only [List.length_drop, List.length_append]; omega
      · simp only [Fifo.avail] at hh ⊢
        simp only [List.length_drop, List.length_append]
        cases cyc <;> simp at hh ⊢ <;> omega
    rw [e1, e2]
    refine ⟨?_, hrel⟩
    rw [hrel.size_eq]


theorem sample_refines_step (cap B : Nat) (cyc : Bool) (b : Buf α) (f : Fifo α)
    (h : Rel cap cyc b f) :
    (Buf.step (queueKind cap B cyc) b (.smp ())).1 = (Fifo.step cap B cyc f (.smp ())).1 ∧
    Rel cap cyc (Buf.step (queueKind cap B cyc) b (.smp ())).2 (Fifo.step cap B cyc f (.smp ())).2 := by
  have hip := h.ip_eq
  have hl := h.len; have hle := h.ip_le; have hc := h.cur; have hcl := h.cur_le; have hh := h.host
  by_cases hB : f.avail cyc < B
  · have e1 : Buf.step (queueKind cap B cyc) b (.smp ()) = (⟨.refuseSample, [], queueSize cyc b.core⟩, b) := by
      simp [Buf.step, Buf.sample, queueCanSample, queueKind, hh, hB]
    have e2 : Fifo.step cap B cyc f (.smp ()) = (⟨.refuseSample, [], f.avail cyc⟩, f) := by
      simp [Fifo.step, Fifo.sample, hB]
    rw [e1, e2, h.size_eq]; exact ⟨rfl, h⟩
  · cases cyc with
    | false =>
      have hav : f.held.length - f.cur ≥ B := by simp [Fifo.avail] at hB; omega
      have e1 : Buf.step (queueKind cap B false) b (.smp ()) =
          (⟨.ok, takeWrap b.core.data ((List.range B).map fun i => jmod (i + b.core.sp) b.core.ip),
            queueSize false { b.core with sp := b.core.sp + B }⟩,
           ⟨{ b.core with sp := b.core.sp + B }, b.host - B⟩) := by
        simp [Buf.step, Buf.sample, queueCanSample, queueKind, queueSampleInternal, hh, hB]
      have e2 : Fifo.step cap B false f (.smp ()) =
          (⟨.ok, (f.held.drop f.cur).take B, (Fifo.avail false { f with cur := f.cur + B } : Nat)⟩,
           { f with cur := f.cur + B }) := by
        simp [Fifo.step, Fifo.sample, hB]
      have hh' : b.host = f.held.length - f.cur := by simpa [Fifo.avail] using hh
      have hrel : Rel cap false ⟨{ b.core with sp := b.core.sp + B }, b.host - B⟩
          { f with cur := f.cur + B } :=
        ⟨hl, hle, h.held, by simp only; omega, by simp only; omega,
          by simp only [Fifo.avail]; simp; omega⟩
      have hout : takeWrap b.core.data ((List.range B).map fun i => jmod (i + b.core.sp) b.core.ip) =
          (f.held.drop f.cur).take B := by
        rw [takeWrap_noncyclic _ _ _ _ (by omega) (by omega), h.held, hc]
      rw [e1, e2, hrel.size_eq, hout]
      exact ⟨rfl, hrel⟩
    | true =>
      have hav : B ≤ f.held.length := by simp [Fifo.avail] at hB; omega
      have e1 : Buf.step (queueKind cap B true) b (.smp ()) =
          (⟨.ok, takeWrap b.core.data ((List.range B).map fun i => jmod (i + b.core.sp) b.core.ip),
            queueSize true { b.core with sp := jmod (b.core.sp + B) b.core.ip }⟩,
           ⟨{ b.core with sp := jmod (b.core.sp + B) b.core.ip }, b.host⟩) := by
        simp [Buf.step, Buf.sample, queueCanSample, queueKind, queueSampleInternal, hh, hB]
      have e2 : Fifo.step cap B true f (.smp ()) =
          (⟨.ok, (List.range B).filterMap fun i => f.held[(f.cur + i) % f.held.length]?,
            (Fifo.avail true { f with cur := (f.cur + B) % f.held.length } : Nat)⟩,
           { f with cur := (f.cur + B) % f.held.length }) := by
        simp [Fifo.step, Fifo.sample, hB]
      have hcur : jmod (b.core.sp + B) b.core.ip = (f.cur + B) % f.held.length := by
        unfold jmod
        by_cases h0 : b.core.ip = 0
        · have : B = 0 := by omega
          have : f.cur = 0 := by omega
          simp [*]
        · rw [if_neg h0, hip, hc]
      have hrel : Rel cap true ⟨{ b.core with sp := jmod (b.core.sp + B) b.core.ip }, b.host⟩
          { f with cur := (f.cur + B) % f.held.length } := by
        have hcl' : (f.cur + B) % f.held.length ≤ f.held.length := by
          by_cases h0 : f.held.length = 0
          · have : B = 0 := by omega
            simp [h0, this]; omega
          · exact Nat.le_of_lt (Nat.mod_lt _ (by omega))
        exact ⟨hl, hle, h.held, hcur, hcl', by simpa [Fifo.avail] using hh⟩
      have hout : takeWrap b.core.data ((List.range B).map fun i => jmod (i + b.core.sp) b.core.ip) =
          (List.range B).filterMap fun i => f.held[(f.cur + i) % f.held.length]? := by
        by_cases h0 : b.core.ip = 0
        · have : B = 0 := by omega
          subst this; simp [takeWrap]
        · rw [takeWrap_cyclic _ _ _ _ (by omega) (by omega), h.held, hip, hc]
      rw [e1, e2, hrel.size_eq, hout]
      exact ⟨rfl, hrel⟩


theorem step_refines (cap B : Nat) (cyc : Bool) (b : Buf α) (f : Fifo α) (h : Rel cap cyc b f)
    (op : Op α Unit) :
    (Buf.step (queueKind cap B cyc) b op).1 = (Fifo.step cap B cyc f op).1 ∧
    Rel cap cyc (Buf.step (queueKind cap B cyc) b op).2 (Fifo.step cap B cyc f op).2 := by
  cases op with
  | ins xs => exact insert_refines_step cap B cyc b f h xs
  | smp u => exact sample_refines_step cap B cyc b f h

theorem run_refines (cap B : Nat) (cyc : Bool) (ops : List (Op α Unit)) (b : Buf α) (f : Fifo α)
    (h : Rel cap cyc b f) :
    (Buf.run (queueKind cap B cyc) b ops).1 = (Fifo.run cap B cyc f ops).1 ∧
    Rel cap cyc (Buf.run (queueKind cap B cyc) b ops).2 (Fifo.run cap B cyc f ops).2 := by
  induction ops generalizing b f with
  | nil => exact ⟨rfl, h⟩
  | cons op ops ih =>
    obtain ⟨h1, h2⟩ := step_refines cap B cyc b f h op
    obtain ⟨h3, h4⟩ := ih _ _ h2
    simp only [Buf.run, Fifo.run]
    exact ⟨by rw [h1, h3], h4⟩

/-! ## the abstract FIFO holds the last `cap` inserted records -/

theorem lastN_append_lastN (cap : Nat) (l xs : List α) :
    lastN cap (lastN cap l ++ xs) = lastN cap (l ++ xs) := by
  unfold lastN
  rw [← List.drop_append_of_le_length (by omega : l.length - cap ≤ l.length), List.drop_drop]
  congr 1
  simp only [List.length_drop, List.length_append]
  omega

theorem Fifo.step_held (cap B : Nat) (cyc : Bool) (f : Fifo α) (op : Op α Unit) (pre : List α)
    (h : f.held = lastN cap pre) :
    (f.step cap B cyc op).2.held = lastN cap (pre ++ inserted cap [op]) := by
  cases op with
  | ins xs =>
    by_cases hk : cap < xs.length
    · have : ¬ xs.length ≤ cap := by omega
      simp [Fifo.step, Fifo.insert, hk, inserted, this, h]
    · have hle : xs.length ≤ cap := by omega
      have e : (f.step cap B cyc (.ins xs)).2.held = lastN cap (f.held ++ xs) := by
        simp [Fifo.step, Fifo.insert, hk, lastN]
      rw [e, h, lastN_append_lastN]
      simp [inserted, hle]
  | smp u =>
    have e : (f.step cap B cyc (.smp u)).2.held = f.held := by
      by_cases hB : f.avail cyc < B
      · simp [Fifo.step, Fifo.sample, hB]
      · cases cyc <;> simp [Fifo.step, Fifo.sample, hB]
    rw [e, h]; simp [inserted]

theorem inserted_cons (cap : Nat) (op : Op α ι) (ops : List (Op α ι)) :
    inserted cap (op :: ops) = inserted cap [op] ++ inserted cap ops := by
  cases op <;> simp [inserted]

theorem Fifo.run_held (cap B : Nat) (cyc : Bool) (ops : List (Op α Unit)) (f : Fifo α)
    (pre : List α) (h : f.held = lastN cap pre) :
    (Fifo.run cap B cyc f ops).2.held = lastN cap (pre ++ inserted cap ops) := by
  induction ops generalizing f pre with
  | nil => simpa [Fifo.run, inserted] using h
  | cons op ops ih =>
    simp only [Fifo.run]
    rw [ih _ _ (Fifo.step_held cap B cyc f op pre h), inserted_cons cap op ops, List.append_assoc]


/-! ## uniform queue -/

/-- invariant of the guarded `UniformSamplingQueue` -/
structure UInv (cap : Nat) (b : Buf α) (held : List α) : Prop where
  len : b.core.data.length = cap
  ip_le : b.core.ip ≤ cap
  held : b.core.data.take b.core.ip = held
  sp0 : b.core.sp = 0

theorem UInv.ip_eq {cap : Nat} {b : Buf α} {held : List α} (h : UInv cap b held) :
    held.length = b.core.ip := by
  rw [← h.held, List.length_take, h.len]; have := h.ip_le; omega

theorem UInv.init (cap : Nat) (z : α) : UInv cap (Buf.init cap z) (lastN cap []) := by
  constructor <;> simp [Buf.init, Core.init, lastN]

theorem uniform_step_inv (cap : Nat) (b : Buf α) (op : Op α (List Nat)) (pre : List α)
    (h : UInv cap b (lastN cap pre)) :
    UInv cap (Buf.step (uniformKind cap) b op).2 (lastN cap (pre ++ inserted cap [op])) := by
  cases op with
  | ins xs =>
    by_cases hk : cap < xs.length
    · have : ¬ xs.length ≤ cap := by omega
      have e : (Buf.step (uniformKind cap) b (.ins xs)).2 = b := by
        simp [Buf.step, Buf.insert, checkCanInsert, uniformKind, hk]
      rw [e]; simpa [inserted, this] using h
    · have hle : xs.length ≤ cap := by omega
      have e : (Buf.step (uniformKind cap) b (.ins xs)).2 =
          ⟨insertInternal b.core xs, min cap (b.host + xs.length)⟩ := by
        simp [Buf.step, Buf.insert, checkCanInsert, uniformKind, hk]
      obtain ⟨s1, s2, s3, s4⟩ :=
        insertInternal_spec b.core xs (by rw [h.len]; omega) (by rw [h.len]; exact h.ip_le)
      have hip := h.ip_eq
      rw [e]
      constructor
      · simp only; rw [s1, h.len]
      · simp only; rw [s2, h.len]; omega
      · simp only
        have e2 : lastN cap (lastN cap pre ++ xs) =
            (lastN cap pre ++ xs).drop ((lastN cap pre ++ xs).length - cap) := rfl
        rw [s3, h.held, h.len]
        simp only [inserted, hle, if_true, List.append_nil]
        rw [← lastN_append_lastN, e2, List.length_append, hip]
      · simp only; rw [s4, h.sp0]; omega
  | smp idx =>
    have e : (Buf.step (uniformKind cap) b (.smp idx)).2 = b := by
      simp [Buf.step, Buf.sample, uniformKind, uniformSampleInternal]
    rw [e]; simpa [inserted] using h

theorem uniform_run_inv (cap : Nat) (ops : List (Op α (List Nat))) (b : Buf α) (pre : List α)
    (h : UInv cap b (lastN cap pre)) :
    UInv cap (Buf.run (uniformKind cap) b ops).2 (lastN cap (pre ++ inserted cap ops)) := by
  induction ops generalizing b pre with
  | nil => simpa [Buf.run, inserted] using h
  | cons op ops ih =>
    simp only [Buf.run]
    have := ih _ _ (uniform_step_inv cap b op pre h)
    rwa [inserted_cons cap op ops, ← List.append_assoc]

theorem uniform_sample_mem (cap : Nat) (b : Buf α) (held : List α) (h : UInv cap b held)
    (idx : List Nat) (hidx : ∀ i ∈ idx, i < b.core.ip) :
    (Buf.sample (uniformKind cap) b idx) = (.ok, b, takeWrap b.core.data idx) ∧
    (takeWrap b.core.data idx).length = idx.length ∧
    ∀ x ∈ takeWrap b.core.data idx, x ∈ held := by
  refine ⟨by simp [Buf.sample, uniformKind, uniformSampleInternal], ?_, ?_⟩
  · unfold takeWrap
    apply length_filterMap_of_isSome
    intro i hi
    have := hidx i hi
    have hl := h.len; have hle := h.ip_le
    have : i % b.core.data.length < b.core.data.length := Nat.mod_lt _ (by omega)
    rw [List.getElem?_eq_getElem this]; rfl
  · intro x hx
    unfold takeWrap at hx
    rw [List.mem_filterMap] at hx
    obtain ⟨i, hi, hxi⟩ := hx
    have hlt := hidx i hi
    have hl := h.len; have hle := h.ip_le
    rw [Nat.mod_eq_of_lt (by omega)] at hxi
    rw [← h.held]
    have : (b.core.data.take b.core.ip)[i]? = some x := by
      rw [List.getElem?_take_of_lt hlt]; exact hxi
    exact List.mem_of_getElem? this


/-! ## wrappers = product of independent buffers -/

theorem zipWith_congr_mem {f g : β → γ → δ} (l₁ : List β) (l₂ : List γ)
    (h : ∀ a ∈ l₁, ∀ b ∈ l₂, f a b = g a b) : List.zipWith f l₁ l₂ = List.zipWith g l₁ l₂ := by
  induction l₁ generalizing l₂ with
  | nil => simp
  | cons a l₁ ih =>
    cases l₂ with
    | nil => simp
    | cons b l₂ =>
      simp only [List.zipWith_cons_cons]
      rw [h a (by simp) b (by simp), ih l₂ (fun a' ha b' hb => h a' (by simp [ha]) b' (by simp [hb]))]

theorem forall_mem_zipWith {f : β → γ → δ} {P : δ → Prop} (l₁ : List β) (l₂ : List γ)
    (h : ∀ a ∈ l₁, ∀ b ∈ l₂, P (f a b)) : ∀ x ∈ List.zipWith f l₁ l₂, P x := by
  induction l₁ generalizing l₂ with
  | nil => simp
  | cons a l₁ ih =>
    cases l₂ with
    | nil => simp
    | cons b l₂ =>
      intro x hx
      simp only [List.zipWith_cons_cons, List.mem_cons] at hx
      rcases hx with hx | hx
      · rw [hx]; exact h a (by simp) b (by simp)
      · exact ih l₂ (fun a' ha b' hb => h a' (by simp [ha]) b' (by simp [hb])) x hx

theorem zipWith_left_const (f : β → δ) (l₁ : List β) (l₂ : List γ) (h : l₁.length ≤ l₂.length) :
    List.zipWith (fun a _ => f a) l₁ l₂ = l₁.map f := by
  induction l₁ generalizing l₂ with
  | nil => simp
  | cons a l₁ ih =>
    cases l₂ with
    | nil => simp at h
    | cons b l₂ =>
      simp only [List.zipWith_cons_cons, List.map_cons]
      rw [ih l₂ (by simpa using h)]

theorem length_dealAt (D d : Nat) (xs : List α) (hd : d < D) :
    (dealAt D d xs).length = xs.length / D := by
  unfold dealAt
  rw [length_filterMap_of_isSome, List.length_range]
  intro i hi
  simp only [List.mem_range] at hi
  have h1 : (i + 1) * D ≤ xs.length / D * D := Nat.mul_le_mul_right D (by omega)
  have h2 := Nat.div_mul_le_self xs.length D
  rw [Nat.succ_mul] at h1
  have : i * D + d < xs.length := by omega
  rw [List.getElem?_eq_getElem this]; rfl

/-- record `i * D + d` of a batch is slot `i` of shard `d` -/
theorem getElem?_dealAt (D d : Nat) (xs : List α) (hd : d < D) (i : Nat) (hi : i < xs.length / D) :
    (dealAt D d xs)[i]? = xs[i * D + d]? := by
  unfold dealAt
  rw [getElem?_filterMap_range _ _ _ i hi]
  intro j hj
  have h1 : (j + 1) * D ≤ xs.length / D * D := Nat.mul_le_mul_right D (by omega)
  have h2 := Nat.div_mul_le_self xs.length D
  rw [Nat.succ_mul] at h1
  have : j * D + d < xs.length := by omega
  rw [List.getElem?_eq_getElem this]; rfl

theorem interleave_all_nil (rows : List (List α)) (h : ∀ r ∈ rows, r = []) : interleave rows = [] := by
  cases rows with
  | nil => simp [interleave]
  | cons r rows =>
    have : r = [] := h r (by simp)
    subst this
    simp [interleave]

/-- output position `i * D + d` of a wrapped sample is record `i` of shard `d`'s batch -/
theorem getElem?_interleave (rows : List (List α)) (B : Nat) (hB : ∀ r ∈ rows, r.length = B)
    (d i : Nat) (hd : d < rows.length) (hi : i < B) :
    (interleave rows)[i * rows.length + d]? = (rows[d]?).bind fun r => r[i]? := by
  cases rows with
  | nil => simp at hd
  | cons r rows =>
    have hr : r.length = B := hB r (by simp)
    unfold interleave
    simp only [hr]
    generalize hD : (r :: rows).length = D at *
    have hlt : i * D + d < B * D := by
      have h1 : (i + 1) * D ≤ B * D := Nat.mul_le_mul_right D (by omega)
      rw [Nat.succ_mul] at h1; omega
    rw [getElem?_filterMap_range _ _ _ _ hlt]
    · have e1 : (i * D + d) % D = d := by
        rw [Nat.add_comm, Nat.add_mul_mod_self_right, Nat.mod_eq_of_lt hd]
      have e2 : (i * D + d) / D = i := by
        rw [Nat.add_comm, Nat.add_mul_div_right _ _ (by omega), Nat.div_eq_of_lt hd]; omega
      rw [e1, e2]
    · intro j hj
      have hjd : j % D < D := Nat.mod_lt _ (by omega)
      have hjb : j / D < B := by
        rw [Nat.div_lt_iff_lt_mul (by omega)]; exact hj
      have hmem : (r :: rows)[j % D] ∈ (r :: rows) := List.getElem_mem (by omega)
      have hl := hB _ hmem
      rw [List.getElem?_eq_getElem (by omega : j % D < (r :: rows).length)]
      simp only [Option.bind_some]
      rw [List.getElem?_eq_getElem (by omega)]; rfl


theorem combineObs_outcome (rs : List (Obs α)) (o : Outcome) (hne : rs ≠ [])
    (h : ∀ r ∈ rs, r.outcome = o) : (combineObs rs).outcome = o := by
  cases rs with
  | nil => exact absurd rfl hne
  | cons r rs => exact h r (by simp)

/-- all four cases of a wrapper step have this shape -/
theorem prod_explicit (K : Kind α ι) (shards : List (Core α)) (D : Nat) (hD : 0 < D)
    (hlen : shards.length = D) (o : Outcome) (out : Core α → Nat → List α)
    (st : Core α → Nat → Core α) (h' : Nat)
    (rs : List (Obs α × Buf α))
    (hrs : rs = List.zipWith (fun c d => (⟨o, out c d, K.size (st c d)⟩, ⟨st c d, h'⟩)) shards (List.range D)) :
    combineObs (rs.map (·.1)) =
      ⟨o, interleave (List.zipWith out shards (List.range D)),
        ((List.zipWith st shards (List.range D)).map K.size).sum⟩ ∧
    rs.map (·.2) = (List.zipWith st shards (List.range D)).map (⟨·, h'⟩) := by
  subst hrs
  refine ⟨?_, by simp [List.map_zipWith]⟩
  have hne : (List.zipWith (fun c d => ((⟨o, out c d, K.size (st c d)⟩ : Obs α), (⟨st c d, h'⟩ : Buf α)))
      shards (List.range D)).map (·.1) ≠ [] := by
    intro h
    have := congrArg List.length h
    simp only [List.length_map, List.length_zipWith, List.length_range, List.length_nil, hlen] at this
    omega
  have ho := combineObs_outcome _ o hne (by
    rw [List.map_zipWith]
    exact forall_mem_zipWith _ _ (fun _ _ _ _ => rfl))
  have e : ∀ x : Obs α, x = ⟨x.outcome, x.out, x.size⟩ := fun x => rfl
  rw [e (combineObs _), ho]
  simp [combineObs, List.map_zipWith]

theorem shStep_product (K : Kind α ι) (sb : ShBuf α) (op : Op α (Nat → ι))
    (hD : 0 < sb.shards.length)
    (hwf : ∀ xs, op = .ins xs → xs.length % sb.shards.length = 0) :
    (ShBuf.step K sb op).1 =
      combineObs ((prodStep K sb.shards.length (sb.shards.map (⟨·, sb.host⟩)) op).map (·.1)) ∧
    (prodStep K sb.shards.length (sb.shards.map (⟨·, sb.host⟩)) op).map (·.2) =
      (ShBuf.step K sb op).2.shards.map (⟨·, (ShBuf.step K sb op).2.host⟩) ∧
    (ShBuf.step K sb op).2.shards.length = sb.shards.length := by
  generalize hDe : sb.shards.length = D at *
  have hlr : sb.shards.length ≤ (List.range D).length := by simp [hDe]
  cases op with
  | ins xs =>
    have hdiv := hwf xs rfl
    have hps : prodStep K D (sb.shards.map (⟨·, sb.host⟩)) (.ins xs) =
        List.zipWith (fun c d => Buf.step K ⟨c, sb.host⟩ (.ins (dealAt D d xs))) sb.shards (List.range D) := by
      simp [prodStep, List.zipWith_map_left, projOp]
    cases hc : checkCanInsert K.cap sb.host (xs.length / D) with
    | none =>
      have hrs : prodStep K D (sb.shards.map (⟨·, sb.host⟩)) (.ins xs) =
          List.zipWith (fun c _ => (⟨.refuseInsert, [], K.size c⟩, ⟨c, sb.host⟩)) sb.shards (List.range D) := by
        rw [hps]
        apply zipWith_congr_mem
        intro c _ d hd
        simp only [List.mem_range] at hd
        simp [Buf.step, Buf.insert, length_dealAt D d xs hd, hc]
      obtain ⟨p1, p2⟩ := prod_explicit K sb.shards D hD hDe .refuseInsert (fun _ _ => [])
        (fun c _ => c) sb.host _ hrs
      have hst : List.zipWith (fun c (_ : Nat) => c) sb.shards (List.range D) = sb.shards := by
        rw [zipWith_left_const (fun c => c) _ _ hlr]; simp
      have e : ShBuf.step K sb (.ins xs) = (⟨.refuseInsert, [], sb.size K⟩, sb) := by
        simp [ShBuf.step, ShBuf.insert, hDe, hc]
      rw [p1, p2, e, hst]
      refine ⟨?_, rfl, hDe⟩
      rw [interleave_all_nil _ (forall_mem_zipWith _ _ (fun _ _ _ _ => rfl))]
      rfl
    | some h =>
      have hrs : prodStep K D (sb.shards.map (⟨·, sb.host⟩)) (.ins xs) =
          List.zipWith (fun c d => (⟨.ok, [], K.size (insertInternal c (dealAt D d xs))⟩,
            ⟨insertInternal c (dealAt D d xs), h⟩)) sb.shards (List.range D) := by
        rw [hps]
        apply zipWith_congr_mem
        intro c _ d hd
        simp only [List.mem_range] at hd
        simp [Buf.step, Buf.insert, length_dealAt D d xs hd, hc]
      obtain ⟨p1, p2⟩ := prod_explicit K sb.shards D hD hDe .ok (fun _ _ => [])
        (fun c d => insertInternal c (dealAt D d xs)) h _ hrs
      have hst : List.zipWith (fun c d => insertInternal c (dealAt D d xs)) sb.shards (List.range D) =
          List.zipWith insertInternal sb.shards (deal D xs) := by
        simp [deal, List.zipWith_map_right]
      have e : ShBuf.step K sb (.ins xs) =
          (⟨.ok, [], (ShBuf.size K ⟨List.zipWith insertInternal sb.shards (deal D xs), h⟩)⟩,
           ⟨List.zipWith insertInternal sb.shards (deal D xs), h⟩) := by
        simp [ShBuf.step, ShBuf.insert, hDe, hc, hdiv]
      rw [p1, p2, e, hst]
      refine ⟨?_, rfl, by simp [deal, hDe]⟩
      rw [interleave_all_nil _ (forall_mem_zipWith _ _ (fun _ _ _ _ => rfl))]
      rfl
  | smp aux =>
    have hps : prodStep K D (sb.shards.map (⟨·, sb.host⟩)) (.smp aux) =
        List.zipWith (fun c d => Buf.step K ⟨c, sb.host⟩ (.smp (aux d))) sb.shards (List.range D) := by
      simp [prodStep, List.zipWith_map_left, projOp]
    cases hc : K.canSample sb.host with
    | none =>
      have hrs : prodStep K D (sb.shards.map (⟨·, sb.host⟩)) (.smp aux) =
          List.zipWith (fun c _ => (⟨.refuseSample, [], K.size c⟩, ⟨c, sb.host⟩)) sb.shards (List.range D) := by
        rw [hps]
        apply zipWith_congr_mem
        intro c _ d _
        simp [Buf.step, Buf.sample, hc]
      obtain ⟨p1, p2⟩ := prod_explicit K sb.shards D hD hDe .refuseSample (fun _ _ => [])
        (fun c _ => c) sb.host _ hrs
      have hst : List.zipWith (fun c (_ : Nat) => c) sb.shards (List.range D) = sb.shards := by
        rw [zipWith_left_const (fun c => c) _ _ hlr]; simp
      have e : ShBuf.step K sb (.smp aux) = (⟨.refuseSample, [], sb.size K⟩, sb) := by
        simp [ShBuf.step, ShBuf.sample, hc]
      rw [p1, p2, e, hst]
      refine ⟨?_, rfl, hDe⟩
      rw [interleave_all_nil _ (forall_mem_zipWith _ _ (fun _ _ _ _ => rfl))]
      rfl
    | some h =>
      have hrs : prodStep K D (sb.shards.map (⟨·, sb.host⟩)) (.smp aux) =
          List.zipWith (fun c d => (⟨.ok, (K.sample c (aux d)).2, K.size (K.sample c (aux d)).1⟩,
            ⟨(K.sample c (aux d)).1, h⟩)) sb.shards (List.range D) := by
        rw [hps]
        apply zipWith_congr_mem
        intro c _ d _
        simp [Buf.step, Buf.sample, hc]
      obtain ⟨p1, p2⟩ := prod_explicit K sb.shards D hD hDe .ok (fun c d => (K.sample c (aux d)).2)
        (fun c d => (K.sample c (aux d)).1) h _ hrs
      have e : ShBuf.step K sb (.smp aux) =
          (⟨.ok, interleave (List.zipWith (fun c d => (K.sample c (aux d)).2) sb.shards (List.range D)),
            (ShBuf.size K ⟨List.zipWith (fun c d => (K.sample c (aux d)).1) sb.shards (List.range D), h⟩)⟩,
           ⟨List.zipWith (fun c d => (K.sample c (aux d)).1) sb.shards (List.range D), h⟩) := by
        simp [ShBuf.step, ShBuf.sample, hc, hDe, List.map_zipWith]
      rw [p1, p2, e]
      exact ⟨rfl, rfl, by simp [hDe]⟩


theorem shRun_product (K : Kind α ι) (ops : List (Op α (Nat → ι))) (sb : ShBuf α)
    (hD : 0 < sb.shards.length)
    (hwf : ∀ xs, Op.ins xs ∈ ops → xs.length % sb.shards.length = 0) :
    (ShBuf.run K sb ops).1 = (prodRun K sb.shards.length (sb.shards.map (⟨·, sb.host⟩)) ops).1 ∧
    (prodRun K sb.shards.length (sb.shards.map (⟨·, sb.host⟩)) ops).2 =
      (ShBuf.run K sb ops).2.shards.map (⟨·, (ShBuf.run K sb ops).2.host⟩) ∧
    (ShBuf.run K sb ops).2.shards.length = sb.shards.length := by
  induction ops generalizing sb with
  | nil => exact ⟨rfl, rfl, rfl⟩
  | cons op ops ih =>
    obtain ⟨s1, s2, s3⟩ := shStep_product K sb op hD
      (fun xs hxs => hwf xs (by rw [hxs]; simp))
    obtain ⟨i1, i2, i3⟩ := ih (ShBuf.step K sb op).2 (by rw [s3]; exact hD)
      (fun xs hxs => by rw [s3]; exact hwf xs (by simp [hxs]))
    simp only [ShBuf.run, prodRun]
    rw [s3] at i1 i2 i3
    rw [s2, ← s1, ← i1, i2]
    exact ⟨rfl, rfl, i3⟩

theorem prodRun_getElem? (K : Kind α ι) (D : Nat) (ops : List (Op α (Nat → ι))) (bs : List (Buf α))
    (hlen : bs.length = D) (d : Nat) (hd : d < D) :
    (prodRun K D bs ops).2[d]? =
      (bs[d]?).map fun b => (Buf.run K b (ops.map (projOp D d))).2 := by
  induction ops generalizing bs with
  | nil => simp [prodRun, Buf.run]
  | cons op ops ih =>
    simp only [prodRun, List.map_cons, Buf.run]
    have hl : ((prodStep K D bs op).map (·.2)).length = D := by
      simp [prodStep, hlen]
    rw [ih _ hl]
    have hb : d < bs.length := by omega
    simp [prodStep, List.getElem?_zipWith, List.getElem?_range hd, List.getElem?_eq_getElem hb]

end Brax.C17
