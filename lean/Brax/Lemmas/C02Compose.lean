import Brax.Lemmas.C02Sys
/-!
# C02 helper lemmas: composing the per-link theorems over the whole system
-/
set_option linter.unusedSectionVars false
set_option linter.unusedSimpArgs false
namespace Brax.Gd
open Brax Kin KinPos

/-! ## the Spec's body poses are `Mj.kinematics` -/

theorem foldl_jointStep_fst (a : V3 ℝ) : ∀ (dqs : List (DofP ℝ × ℝ)) (st : Tf ℝ × List (MjD.JointW ℝ)),
    (dqs.foldl (MjD.jointStep a) st).1 = dqs.foldl (Mj.applyJoint a) st.1
  | [], _ => rfl
  | dq :: rest, st => by
    simp only [List.foldl]
    rw [foldl_jointStep_fst a rest]
    rfl

theorem bodyKin_fst (par : Option (Tf ℝ)) (lk : LinkP ℝ) (l : LinkIn ℝ) :
    (MjD.bodyKin par lk l).1 = Mj.bodyPose par lk l := by
  unfold MjD.bodyKin Mj.bodyPose
  cases l.typ
  · rfl
  all_goals
    simp only
    rw [foldl_jointStep_fst]
    rfl

theorem forall₂_zip3 {Q : LinkIn ℝ → LinkIn ℝ → Prop} {ins ins' : List (LinkIn ℝ)}
    (hins : List.Forall₂ Q ins ins') : ∀ (ps : List Int) (lks : List (LinkP ℝ)),
    List.Forall₂ (fun (x y : Int × (LinkP ℝ × LinkIn ℝ)) => x.1 = y.1 ∧ (x.2.1 = y.2.1 ∧ Q x.2.2 y.2.2))
      (ps.zip (lks.zip ins)) (ps.zip (lks.zip ins')) := by
  induction hins with
  | nil => intro ps lks; simp
  | cons hab _ ih =>
    intro ps lks
    cases ps with
    | nil => simp
    | cons p ps =>
      cases lks with
      | nil => simp
      | cons lk lks =>
        simp only [List.zip_cons_cons]
        exact List.Forall₂.cons ⟨rfl, rfl, hab⟩ (ih ps lks)

/-- the body poses of the C02 Spec are those of `Mj.kinematics` (the C01 Spec) -/
theorem xpose_eq_kinematics (s : Sys ℝ) (q qd ctrl : List ℝ) :
    (MjD.forwardData s q qd ctrl).xpose = Mj.kinematics s q := by
  have h1 : (MjD.forwardData s q qd ctrl).xpose
      = (scanFwd (fun (par : Option (Tf ℝ × List (MjD.JointW ℝ))) (a : LinkP ℝ × LinkIn ℝ) =>
          MjD.bodyKin (par.map Prod.fst) a.1 a.2) s.parents
          (s.links.zip (linkSlices s.types q qd s.dofs))).map Prod.fst := rfl
  rw [h1]
  unfold Mj.kinematics
  simp only
  have hrel := scanFwd_rel
    (fun (x : Tf ℝ × List (MjD.JointW ℝ)) (y : Tf ℝ) => x.1 = y)
    (fun _ (a b : LinkP ℝ × LinkIn ℝ) => a.1 = b.1 ∧ (a.2.typ = b.2.typ ∧ a.2.q = b.2.q ∧ a.2.dofs = b.2.dofs))
    (fun (par : Option (Tf ℝ × List (MjD.JointW ℝ))) (a : LinkP ℝ × LinkIn ℝ) =>
      MjD.bodyKin (par.map Prod.fst) a.1 a.2)
    (fun par (a : LinkP ℝ × LinkIn ℝ) => Mj.bodyPose par a.1 a.2)
    (by
      intro p par par' a b hpar hS _
      obtain ⟨h1, h2⟩ := hS
      rw [bodyKin_fst, h1, bodyPose_congr _ _ a.2 b.2 h2]
      cases hpar with
      | none => rfl
      | some h => simp only [Option.map_some, h])
    s.parents _ _
    (forall₂_zip3 (linkSlices_q_rel s.types q qd (q.map fun _ => 0) s.dofs) s.parents s.links)
  generalize scanFwd _ s.parents (s.links.zip (linkSlices s.types q qd s.dofs)) = xs at hrel
  generalize scanFwd _ s.parents (s.links.zip (linkSlices s.types q (q.map fun _ => 0) s.dofs)) = ys at hrel
  induction hrel with
  | nil => rfl
  | cons h _ ih => simp only [List.map_cons, ih, h]

/-! ## whole-system `cdof` -/

theorem parentOf_map {β γ : Type} (f : β → γ) (xs : List β) (p : Int) :
    parentOf (xs.map f) p = (parentOf xs p).map f := by
  unfold parentOf
  split
  · rfl
  · rw [List.getElem?_map]

theorem parentOf_mem {β : Type} (xs : List β) (p : Int) (t : β) (h : parentOf xs p = some t) : t ∈ xs := by
  unfold parentOf at h
  split at h
  · exact absurd h (by simp)
  · exact List.mem_of_getElem? h

theorem cdofBody_free_indep (l : LinkIn ℝ) (hf : l.typ = .free) (pose : Tf ℝ)
    (j1 j2 : List (MjD.JointW ℝ)) (c : V3 ℝ) :
    MjD.cdofBody l pose j1 c = MjD.cdofBody l pose j2 c := by
  unfold MjD.cdofBody; rw [hf]

/-- the step function of the Spec's kinematics scan -/
noncomputable def kinStep (par : Option (Tf ℝ × List (MjD.JointW ℝ))) (a : LinkP ℝ × LinkIn ℝ) :
    Tf ℝ × List (MjD.JointW ℝ) :=
  MjD.bodyKin (par.map Prod.fst) a.1 a.2

/-- the dof rows `mjcf.load_model` writes for a free joint -/
noncomputable def freeBasis : List (Motion ℝ) :=
  [⟨V3.zero, ⟨1, 0, 0⟩⟩, ⟨V3.zero, ⟨0, 1, 0⟩⟩, ⟨V3.zero, ⟨0, 0, 1⟩⟩,
   ⟨⟨1, 0, 0⟩, V3.zero⟩, ⟨⟨0, 1, 0⟩, V3.zero⟩, ⟨⟨0, 0, 1⟩, V3.zero⟩]

/-- **whole-system `cdof`**, list level: `transform_com`'s rows (parent frame looked up with
`x.take(parent_idx)`) equal the Spec's rows (parent frame = running value of the kinematics
scan), given per-link facts `hlink` (the per-stack theorems) -/
theorem cdof_sys (ps : List Int) (lks : List (LinkP ℝ)) (ins : List (LinkIn ℝ)) (coms : List (V3 ℝ))
    (n : Nat) (hps : ps.length = n) (hlks : lks.length = n) (hins : ins.length = n)
    (hcoms : coms.length = n) (hwf : PWF ps) (hlow : ∀ i : Nat, -1 ≤ ps.getD i (-1))
    (hlink : ∀ (p : Int) (lk : LinkP ℝ) (l : LinkIn ℝ), (p, lk, l) ∈ ps.zip (lks.zip ins) →
      (l.typ ≠ .free → ∀ (par' : Option (Tf ℝ)) (c : V3 ℝ),
        (∀ t, par' = some t → t ∈ (scanFwd kinStep ps (lks.zip ins)).map Prod.fst) →
        cdofLink l (Tf.doTf (Tf.doTf (par'.getD Tf.id) lk.tf) lk.joint) c
          = MjD.cdofBody l (MjD.bodyKin par' lk l).1 (MjD.bodyKin par' lk l).2 c)
      ∧ (l.typ = .free → ∀ (pose : Tf ℝ) (c : V3 ℝ),
        cdofLink l (Tf.doTf (Tf.doTf pose lk.tf) lk.joint) c = MjD.cdofBody l pose [] c)) :
    List.zipWith (fun (l : LinkIn ℝ) (jc : Tf ℝ × V3 ℝ) => cdofLink l jc.1 jc.2) ins
        (((lks.zip (parentIdx (ins.map (·.typ)) ps)).map fun lp =>
            Tf.doTf (Tf.doTf (takeParent ((scanFwd kinStep ps (lks.zip ins)).map Prod.fst) Tf.id lp.2)
              lp.1.tf) lp.1.joint).zip coms)
      = List.zipWith (fun (lk : LinkIn ℝ × (Tf ℝ × List (MjD.JointW ℝ))) (c : V3 ℝ) =>
          MjD.cdofBody lk.1 lk.2.1 lk.2.2 c) (ins.zip (scanFwd kinStep ps (lks.zip ins))) coms := by
  set kin := scanFwd kinStep ps (lks.zip ins) with hkin
  have hkinlen : kin.length = n := by rw [hkin, scanFwd_length]; simp [hps, hlks, hins]
  have hlook := scanFwd_lookup kinStep ps (lks.zip ins) hwf
  rw [← hkin] at hlook
  have hpidx : (parentIdx (ins.map (·.typ)) ps).length = n := by
    rw [parentIdx_length _ _ (by simp [hps, hins])]; simp [hins]
  apply List.ext_getElem
  · simp [hpidx, hins, hlks, hcoms, hkinlen]
  · intro i h1 h2
    have hi : i < n := by
      simp only [List.length_zipWith, List.length_zip, hins, hkinlen, hcoms] at h2; omega
    have hip : i < ps.length := by omega
    have hii : i < ins.length := by omega
    have hil : i < lks.length := by omega
    simp only [List.getElem_zipWith, List.getElem_zip, List.getElem_map]
    have hz : i < (ps.zip (lks.zip ins)).length := by simp; omega
    have hrow := forall₂_getElem hlook i hz (by omega)
    simp only [List.getElem_zip] at hrow
    have hmem : (ps[i], lks[i], ins[i]) ∈ ps.zip (lks.zip ins) := by
      rw [List.mem_iff_getElem]; exact ⟨i, hz, by simp⟩
    obtain ⟨hnf, hfr⟩ := hlink ps[i] lks[i] ins[i] hmem
    have hpi : ps.getD i (-1) = ps[i] := by
      rw [List.getD_eq_getElem?_getD, List.getElem?_eq_getElem hip]; rfl
    have hlo : -1 ≤ ps[i] := by rw [← hpi]; exact hlow i
    have hhi : ps[i] < (i : Int) := by rw [← hpi]; exact hwf i
    have hidx : (parentIdx (ins.map (·.typ)) ps)[i]'(by omega)
        = if ins[i].typ == .free then (i : Int) else ps[i] := by
      have := parentIdx_getElem? (ins.map (·.typ)) ps i (by simpa using hii) hip
      rw [List.getElem?_eq_getElem (by omega)] at this
      simpa using this
    have hxlen : (kin.map Prod.fst).length = n := by simp [hkinlen]
    by_cases hf : ins[i].typ = .free
    · have hb : (ins[i].typ == LinkType.free) = true := by rw [hf]; rfl
      rw [hidx, hb, if_pos rfl]
      rw [takeParent_eq _ _ _ (by omega) (by rw [hxlen]; omega)]
      have hself : parentOf (kin.map Prod.fst) (i : Int) = some kin[i].1 := by
        unfold parentOf
        simp only [Int.toNat_natCast, List.getElem?_map]
        rw [if_neg (by omega), List.getElem?_eq_getElem (by omega)]
        rfl
      rw [hself, Option.getD_some, hfr hf]
      exact cdofBody_free_indep _ hf _ _ _ _
    · have hb : (ins[i].typ == LinkType.free) = false := by
        cases ht : ins[i].typ <;> first | exact absurd ht hf | rfl
      rw [hidx, hb]
      simp only [Bool.false_eq_true, if_false]
      rw [takeParent_eq _ _ _ hlo (by rw [hxlen]; omega)]
      rw [hnf hf (parentOf (kin.map Prod.fst) ps[i]) _ (fun t ht => parentOf_mem _ _ t ht)]
      rw [hrow]
      unfold kinStep
      rw [parentOf_map]

/-! ## all Spec body poses are unit quaternions -/

/-- scan invariant that also sees the parent index -/
theorem scanFwd_forall' {β γ : Type} (P : β → Prop) (f : Option β → γ → β) (ps : List Int)
    (args : List γ)
    (h : ∀ par (pa : Int × γ), (∀ x, par = some x → P x) → pa ∈ ps.zip args → P (f par pa.2)) :
    ∀ x ∈ scanFwd f ps args, P x := by
  rw [scanFwd_eq]
  suffices H : ∀ (l : List (Int × γ)) (acc : List β), (∀ x ∈ acc, P x) → (∀ pa ∈ l, pa ∈ ps.zip args) →
      ∀ x ∈ l.foldl (scanStep f) acc, P x from
    H _ [] (by simp) (fun pa hpa => hpa)
  intro l
  induction l with
  | nil => intro acc hacc _; exact hacc
  | cons pa rest ih =>
    intro acc hacc hl
    simp only [List.foldl]
    apply ih
    · unfold scanStep
      intro x hx
      rcases List.mem_append.mp hx with hx | hx
      · exact hacc x hx
      · simp only [List.mem_singleton] at hx
        subst hx
        apply h _ pa _ (hl pa (by simp))
        intro y hy
        split at hy
        · exact absurd hy (by simp)
        · exact hacc y (List.mem_of_getElem? hy)
    · intro qa hqa; exact hl qa (by simp [hqa])

theorem bodyPose_unit (p : Int) (par' : Option (Tf ℝ)) (hpar : ∀ t, par' = some t → t.rot.IsUnit)
    (lk : LinkP ℝ) (l : LinkIn ℝ) (hok : LinkOK p lk l) : (Mj.bodyPose par' lk l).rot.IsUnit := by
  by_cases hfree : l.typ = .free
  · obtain ⟨_, _, _, _, p0, p1, p2, r0, r1, r2, r3, hq, hu⟩ := hok.free hfree
    have : Mj.bodyPose par' lk l = ⟨⟨p0, p1, p2⟩, ⟨r0, r1, r2, r3⟩⟩ := by
      unfold Mj.bodyPose; rw [hfree]; simp only [hq, normalize4_unit hu]
    rw [this]; exact hu
  · obtain ⟨_, _, hd⟩ := hok.nonfree hfree
    have hsU : (startPose par' lk).rot.IsUnit := by
      cases par' with
      | none => exact hok.bodyUnit
      | some t => simp only [startPose, Tf.doTf]; exact Q4.IsUnit.mul (hpar t rfl) hok.bodyUnit
    have key := foldl_applyJoint (startPose par' lk) lk.joint.pos hsU (l.dofs.zip l.q) Tf.id
      Q4.isUnit_one hd
    rw [stackPose_id] at key
    have hU : (stackPose (startPose par' lk) lk.joint.pos
        ((List.map (fun dq => dofTf dq.1 dq.2) (l.dofs.zip l.q)).foldl Tf.doTf Tf.id)).rot.IsUnit := by
      simp only [stackPose, Tf.doTf]; exact Q4.IsUnit.mul hsU key.2
    rw [bodyPose_nonfree par' lk l hfree, key.1]
    simp only
    rw [normalize4_unit hU]; exact hU

theorem kin_unit (ps : List Int) (lks : List (LinkP ℝ)) (ins : List (LinkIn ℝ))
    (hok : ∀ y ∈ ps.zip (lks.zip ins), LinkOK y.1 y.2.1 y.2.2) :
    ∀ t ∈ (scanFwd kinStep ps (lks.zip ins)).map Prod.fst, t.rot.IsUnit := by
  intro t ht
  obtain ⟨y, hy, rfl⟩ := List.mem_map.mp ht
  refine scanFwd_forall' (fun (y : Tf ℝ × List (MjD.JointW ℝ)) => y.1.rot.IsUnit) kinStep ps _ ?_ y hy
  intro par pa hpar hpa
  unfold kinStep
  rw [bodyKin_fst]
  apply bodyPose_unit pa.1 _ _ _ _ (hok pa hpa)
  intro t ht
  cases par with
  | none => simp at ht
  | some z =>
    simp only [Option.map_some, Option.some.injEq] at ht
    rw [← ht]; exact hpar z rfl

/-! ## whole-system `cinr` -/

theorem forall₂_cinr : ∀ (lks : List (LinkP ℝ)) (x : List (Tf ℝ)) (coms : List (V3 ℝ)),
    List.Forall₂ SameInertia
      (List.zipWith (fun (tc : Tf ℝ × V3 ℝ) (lk : LinkP ℝ) => cinrLink tc.1 tc.2 lk.inertia)
        ((List.zipWith (fun (t : Tf ℝ) (lk : LinkP ℝ) => Tf.doTf t lk.inertia.tf) x lks).zip coms) lks)
      (List.zipWith (fun (pq : V3 ℝ × Q4 ℝ) (lc : LinkP ℝ × V3 ℝ) =>
          MjD.inertCom pq.2 lc.1.inertia.i lc.1.inertia.mass (pq.1 - lc.2))
        ((List.zipWith (fun (x : Tf ℝ) (lk : LinkP ℝ) => x.pos + rotate lk.inertia.tf.pos x.rot) x lks).zip
          (List.zipWith (fun (x : Tf ℝ) (lk : LinkP ℝ) => quatMul x.rot lk.inertia.tf.rot) x lks))
        (lks.zip coms))
  | [], _, _ => by simp
  | _ :: _, [], _ => by simp
  | _ :: _, _ :: _, [] => by simp
  | lk :: lks, t :: x, c :: coms => by
    simp only [List.zipWith_cons_cons, List.zip_cons_cons]
    exact List.Forall₂.cons (cinrLink_same (Tf.doTf t lk.inertia.tf) c lk.inertia) (forall₂_cinr lks x coms)

end Brax.Gd
