import Brax.Lemmas.C04PosRest2
import Brax.Lemmas.ScanSpec
import Brax.Props.C08
/-!
# C04 rest clause, system level: the state `pipeline.init(sys, q, 0)` of a whole tree

Part A (`forward_rest`): `Kin.forward s q 0` over the whole tree, link by link: every world
quaternion is unit, every world motion is zero, and the value at link `i` **is** C08's per-link
`Inv.fwdLink (value at parent i) (link i) (slice i)` — by strong induction along
`Kin.scanFwd_getElem`.

Part B (`w2j_rest`): `Kin.worldToJoint` of that pose is, at every link, C08's `Inv.w2jLink`, whose
`j` is `jcalc (slice i)` (`C08.worldToJoint_forward_id`) and whose `jd` is zero.

Part C (`inverse_init`): `Inv.inverse s (world_to_joint (forward q 0)) = some (q, 0)` for trees whose
links are free / 1-dof / `PureStack` links (`RestKind`), from C08's per-link `inverse_*` theorems and
the `mapM` assembly.

Part D: `spring_init_rest`, `positional_init_rest`: Newton's first law for the state
`Spring.init s q 0` / `Positional.init s q 0`.
-/
set_option linter.unusedSectionVars false
set_option linter.unusedSimpArgs false
set_option linter.unusedVariables false
namespace Brax.C04I
open Brax MC Kin C04L

/-- the zero motion, as a literal -/
abbrev zM : Motion ℝ := ⟨⟨0, 0, 0⟩, ⟨0, 0, 0⟩⟩

/-! ## A.0 zero velocities through `jcalc` and `world` -/

theorem jcalcDof_rest (d : DofP ℝ) (q : ℝ) : (jcalcDof d q 0).2 = zM := by
  simp [jcalcDof]

theorem jcalcAcc_rest (acc ji : Tf ℝ × Motion ℝ) (h1 : acc.2 = zM) (h2 : ji.2 = zM) :
    (jcalcAcc acc ji).2 = zM := by
  simp only [jcalcAcc, h1, h2, Inv.rotate_zero, cross_zero_right]
  simp [V3.cross, Inv.rotate_zero]

theorem foldl_jcalcAcc_rest (L : List (Tf ℝ × Motion ℝ)) (j0 : Tf ℝ × Motion ℝ) (h0 : j0.2 = zM)
    (hL : ∀ x ∈ L, x.2 = zM) : (L.foldl jcalcAcc j0).2 = zM := by
  induction L generalizing j0 with
  | nil => exact h0
  | cons x xs ih =>
    simp only [List.foldl]
    exact ih _ (jcalcAcc_rest j0 x h0 (hL x (by simp))) (fun y hy => hL y (by simp [hy]))

theorem jcalcDofs_rest (ds : List (DofP ℝ)) (q qd : List ℝ) (hqd : ∀ x ∈ qd, x = 0) :
    ∀ x ∈ (ds.zip (q.zip qd)).map (fun d : DofP ℝ × ℝ × ℝ => jcalcDof d.1 d.2.1 d.2.2), x.2 = zM := by
  intro x hx
  simp only [List.mem_map] at hx
  obtain ⟨d, hd, rfl⟩ := hx
  have h2 : d.2.2 ∈ qd := (List.of_mem_zip (List.of_mem_zip hd).2).2
  rw [hqd _ h2]
  exact jcalcDof_rest _ _

/-- **no joint velocity ⇒ no joint-frame motion**, every link type -/
theorem jcalc_rest (l : LinkIn ℝ) (hqd : ∀ x ∈ l.qd, x = 0) : (jcalc l).2 = zM := by
  have hall := jcalcDofs_rest l.dofs l.q l.qd hqd
  unfold jcalc
  cases ht : l.typ with
  | free =>
    simp only
    split
    · rename_i p0 p1 p2 r0 r1 r2 r3 v0 v1 v2 w0 w1 w2 hq hqd'
      rw [hqd'] at hqd
      simp only [List.mem_cons, List.not_mem_nil, or_false, forall_eq_or_imp, forall_eq] at hqd
      obtain ⟨h0, h1, h2, h3, h4, h5⟩ := hqd
      simp only [h0, h1, h2, h3, h4, h5]
    · rfl
  | one | two | three =>
    simp only
    split
    · rfl
    · rename_i j0 rest hL
      rw [hL] at hall
      exact foldl_jcalcAcc_rest rest j0 (hall j0 (by simp)) (fun y hy => hall y (by simp [hy]))

theorem world_rest (par : Option (Tf ℝ × Motion ℝ)) (jj : Tf ℝ × Motion ℝ)
    (hpar : ∀ p, par = some p → p.2 = zM) (hjj : jj.2 = zM) : (world par jj).2 = zM := by
  cases par with
  | none => simp only [world, hjj, Inv.rotate_zero]
  | some p =>
    obtain ⟨xp, xdp⟩ := p
    have := hpar _ rfl
    simp only at this
    subst this
    simp only [world, hjj, Inv.rotate_zero]
    simp [V3.cross]

/-! ## A.1 shapes of the slices -/

theorem slices_qd_zero (ts : List LinkType) (q : List ℝ) (m : Nat) (ds : List (DofP ℝ)) :
    ∀ l ∈ linkSlices ts q (List.replicate m (0 : ℝ)) ds, ∀ x ∈ l.qd, x = 0 := fun l hl x hx =>
  List.eq_of_mem_replicate (linkSlices_qd_mem ts _ _ _ l hl x hx)

/-- the slices for two different `q` agree in type, `qd` and dofs, index by index -/
theorem linkSlices_same (ts : List LinkType) (q q' qd : List ℝ) (ds : List (DofP ℝ)) (i : Nat) :
    ∀ l l', (linkSlices ts q qd ds)[i]? = some l → (linkSlices ts q' qd ds)[i]? = some l' →
      l'.typ = l.typ ∧ l'.qd = l.qd ∧ l'.dofs = l.dofs := by
  induction ts generalizing q q' qd ds i with
  | nil => intro l l' h; simp [linkSlices] at h
  | cons t ts ih =>
    intro l l' h h'
    cases i with
    | zero =>
      simp only [linkSlices, List.getElem?_cons_zero, Option.some.injEq] at h h'
      subst h; subst h'; exact ⟨rfl, rfl, rfl⟩
    | succ i =>
      simp only [linkSlices, List.getElem?_cons_succ] at h h'
      exact ih _ _ _ _ i l l' h h'

/-- the same, forgetting `qd` as well (the positional pipeline slices `(types, dofs)` only) -/
theorem linkSlices_same' (ts : List LinkType) (q q' qd qd' : List ℝ) (ds : List (DofP ℝ)) (i : Nat) :
    ∀ l l', (linkSlices ts q qd ds)[i]? = some l → (linkSlices ts q' qd' ds)[i]? = some l' →
      l'.typ = l.typ ∧ l'.dofs = l.dofs := by
  induction ts generalizing q q' qd qd' ds i with
  | nil => intro l l' h; simp [linkSlices] at h
  | cons t ts ih =>
    intro l l' h h'
    cases i with
    | zero =>
      simp only [linkSlices, List.getElem?_cons_zero, Option.some.injEq] at h h'
      subst h; subst h'; exact ⟨rfl, rfl⟩
    | succ i =>
      simp only [linkSlices, List.getElem?_cons_succ] at h h'
      exact ih _ _ _ _ _ i l l' h h'

/-! ## A.2 the tree -/

/-- what the theorems need of the tree: consistent lengths, parents precede children and are `≥ -1`
(all part of `Sys.WF`, see `TreeOK.of_WF`), unit link-frame quaternions and identity joint
orientation (what `mjcf.load_model` writes; hypotheses of C08's `worldToJoint_forward_id`) -/
structure TreeOK (s : Sys ℝ) : Prop where
  hpar : s.parents.length = s.types.length
  hlinks : s.links.length = s.types.length
  hwf : ParentsWF s.parents
  hge : ∀ i (h : i < s.parents.length), -1 ≤ s.parents[i]
  hlk : ∀ lk ∈ s.links, Q4.normSq lk.tf.rot = 1 ∧ lk.joint.rot = ⟨1, 0, 0, 0⟩

theorem TreeOK.of_WF (s : Sys ℝ) (h : s.WF = true)
    (hlk : ∀ lk ∈ s.links, Q4.normSq lk.tf.rot = 1 ∧ lk.joint.rot = ⟨1, 0, 0, 0⟩) : TreeOK s := by
  simp only [Sys.WF, Bool.and_eq_true, beq_iff_eq, List.all_eq_true, List.mem_range,
    decide_eq_true_eq] at h
  obtain ⟨⟨⟨⟨h1, h2⟩, _⟩, h4⟩, _⟩ := h
  refine ⟨h1, h2, ?_, ?_, hlk⟩
  · intro i hi
    have := (h4 i (by rw [← h1]; exact hi)).1.2
    rwa [List.getD_eq_getElem?_getD, List.getElem?_eq_getElem hi, Option.getD_some] at this
  · intro i hi
    have := (h4 i (by rw [← h1]; exact hi)).1.1
    rwa [List.getD_eq_getElem?_getD, List.getElem?_eq_getElem hi, Option.getD_some] at this

/-- what `forward` feeds to the tree scan for one link (as `KinPos.linkArg`) -/
noncomputable def linkArg (li : LinkP ℝ × LinkIn ℝ) : Tf ℝ × Motion ℝ :=
  (placeJoint li.1 (jcalc li.2).1, ⟨(jcalc li.2).2.ang, rotate (jcalc li.2).2.vel li.1.tf.rot⟩)

theorem forward_eq (s : Sys ℝ) (q qd : List ℝ) :
    forward s q qd = (scanFwd world s.parents
      ((s.links.zip (linkSlices s.types q qd s.dofs)).map linkArg)).map
        (fun x => (⟨x.1.pos, normalize4 x.1.rot⟩, x.2)) := rfl

theorem linkArg_rest (lk : LinkP ℝ) (l : LinkIn ℝ) (hqd : ∀ x ∈ l.qd, x = 0) :
    (linkArg (lk, l)).2 = zM := by
  simp only [linkArg, jcalc_rest l hqd, Inv.rotate_zero]

theorem world_unit (par : Option (Tf ℝ × Motion ℝ)) (lk : LinkP ℝ) (l : LinkIn ℝ)
    (hp : ∀ p, par = some p → Q4.normSq p.1.rot = 1) (hlk : Q4.normSq lk.tf.rot = 1)
    (hj : Q4.normSq (jcalc l).1.rot = 1) :
    Q4.normSq (world par (linkArg (lk, l))).1.rot = 1 := by
  cases par with
  | none =>
    simp only [world, linkArg, placeJoint, Tf.doTf]
    rw [Inv.normSq_quatMul, hlk, hj]; ring
  | some p =>
    obtain ⟨xp, xdp⟩ := p
    have := hp _ rfl
    simp only at this
    simp only [world, linkArg, placeJoint, Tf.doTf]
    rw [Inv.normSq_quatMul, Inv.normSq_quatMul, this, hlk, hj]; ring

/-- the per-link inputs of `forward s q 0` -/
noncomputable def ins (s : Sys ℝ) (q : List ℝ) : List (LinkIn ℝ) :=
  linkSlices s.types q (List.replicate s.nv (0 : ℝ)) s.dofs

/-- the raw (not yet normalised) tree scan of `forward s q 0` -/
noncomputable def raw (s : Sys ℝ) (q : List ℝ) : List (Tf ℝ × Motion ℝ) :=
  scanFwd world s.parents ((s.links.zip (ins s q)).map linkArg)

theorem ins_length (s : Sys ℝ) (q : List ℝ) : (ins s q).length = s.types.length :=
  linkSlices_length _ _ _ _

theorem args_length (s : Sys ℝ) (q : List ℝ) (h : TreeOK s) :
    ((s.links.zip (ins s q)).map linkArg).length = s.types.length := by
  simp [ins_length, h.hlinks]

theorem raw_length (s : Sys ℝ) (q : List ℝ) (h : TreeOK s) : (raw s q).length = s.types.length := by
  unfold raw
  rw [scanFwd_length, args_length s q h, h.hpar, Nat.min_self]

/-- the parent value the scan hands to link `i` -/
noncomputable def parentVal (s : Sys ℝ) (xs : List (Tf ℝ × Motion ℝ)) (i : Nat) :
    Option (Tf ℝ × Motion ℝ) :=
  if s.parents.getD i (-1) < 0 then none else xs[(s.parents.getD i (-1)).toNat]?

/-- **the raw scan, link by link**: unit quaternion, zero motion, and the recursion it satisfies -/
theorem raw_rest (s : Sys ℝ) (q : List ℝ) (h : TreeOK s)
    (hj : ∀ l ∈ ins s q, Q4.normSq (jcalc l).1.rot = 1) :
    ∀ i, i < s.types.length → ∃ r lk l, (raw s q)[i]? = some r ∧ s.links[i]? = some lk
      ∧ (ins s q)[i]? = some l ∧ r = world (parentVal s (raw s q) i) (linkArg (lk, l))
      ∧ Q4.normSq r.1.rot = 1 ∧ r.2 = zM := by
  intro i
  induction i using Nat.strongRecOn with
  | _ i ih =>
    intro hi
    have hlenA := args_length s q h
    have hi' : i < s.parents.length := by rw [h.hpar]; exact hi
    have hiL : i < s.links.length := by rw [h.hlinks]; exact hi
    have hiI : i < (ins s q).length := by rw [ins_length]; exact hi
    have hspec := scanFwd_getElem world s.parents ((s.links.zip (ins s q)).map linkArg)
      (by rw [h.hpar, hlenA]) h.hwf i hi'
    have hargs : ((s.links.zip (ins s q)).map linkArg)[i]'(by rw [hlenA]; exact hi)
        = linkArg (s.links[i], (ins s q)[i]) := by
      simp only [List.getElem_map, List.getElem_zip]
    have hpv : parentVal s (raw s q) i
        = (if s.parents[i] < 0 then none else (raw s q)[s.parents[i].toNat]?) := by
      unfold parentVal
      rw [List.getD_eq_getElem?_getD, List.getElem?_eq_getElem hi', Option.getD_some]
    rw [hargs] at hspec
    have hqd : ∀ x ∈ ((ins s q)[i]).qd, x = 0 :=
      slices_qd_zero _ _ _ _ _ (List.getElem_mem hiI)
    refine ⟨_, s.links[i], (ins s q)[i], hspec, List.getElem?_eq_getElem hiL,
      List.getElem?_eq_getElem hiI, ?_, ?_, ?_⟩
    · rw [hpv]; rfl
    · apply world_unit
      · intro p hp
        by_cases hneg : s.parents[i] < 0
        · simp [hneg] at hp
        · simp only [hneg, if_false] at hp
          have hlt : s.parents[i].toNat < i := by have := h.hwf i hi'; omega
          obtain ⟨r, _, _, hr, _, _, _, hu, _⟩ := ih _ hlt (by omega)
          have hr' : (raw s q)[s.parents[i].toNat]? = some r := hr
          unfold raw at hr'
          rw [hr'] at hp
          cases hp; exact hu
      · exact (h.hlk _ (List.getElem_mem hiL)).1
      · exact hj _ (List.getElem_mem hiI)
    · apply world_rest
      · intro p hp
        by_cases hneg : s.parents[i] < 0
        · simp [hneg] at hp
        · simp only [hneg, if_false] at hp
          have hlt : s.parents[i].toNat < i := by have := h.hwf i hi'; omega
          obtain ⟨r, _, _, hr, _, _, _, _, hz⟩ := ih _ hlt (by omega)
          have hr' : (raw s q)[s.parents[i].toNat]? = some r := hr
          unfold raw at hr'
          rw [hr'] at hp
          cases hp; exact hz
      · exact linkArg_rest _ _ hqd

/-- with unit quaternions everywhere, the final normalisation of `forward` is the identity -/
theorem forward_eq_raw (s : Sys ℝ) (q : List ℝ) (h : TreeOK s)
    (hj : ∀ l ∈ ins s q, Q4.normSq (jcalc l).1.rot = 1) :
    forward s q (List.replicate s.nv 0) = raw s q := by
  rw [forward_eq]
  show (raw s q).map _ = raw s q
  conv_rhs => rw [← List.map_id (raw s q)]
  apply List.map_congr_left
  intro x hx
  obtain ⟨i, hi, rfl⟩ := List.mem_iff_getElem.mp hx
  obtain ⟨r, _, _, hr, _, _, _, hu, _⟩ := raw_rest s q h hj i (by rw [← raw_length s q h]; exact hi)
  rw [List.getElem?_eq_getElem hi] at hr
  cases hr
  simp only [id]
  rw [Inv.normalize4_unit _ hu]

/-- **`forward s q 0`, link by link** (Part A): for every link `i` the world pose has a unit
quaternion, the world motion is zero, and the pair is C08's `Inv.fwdLink` of the value at the parent
(`none` for a root), the link parameters and the link's slice of `(q, 0, dofs)` -/
theorem forward_rest (s : Sys ℝ) (q : List ℝ) (h : TreeOK s)
    (hj : ∀ l ∈ ins s q, Q4.normSq (jcalc l).1.rot = 1) :
    ∀ i, i < s.types.length → ∃ x lk l,
      (forward s q (List.replicate s.nv 0))[i]? = some (x, zM) ∧ s.links[i]? = some lk
      ∧ (ins s q)[i]? = some l ∧ Q4.normSq x.rot = 1
      ∧ (x, zM) = Inv.fwdLink (parentVal s (forward s q (List.replicate s.nv 0)) i) lk l := by
  intro i hi
  rw [forward_eq_raw s q h hj]
  obtain ⟨r, lk, l, hr, hlk, hl, hrec, hu, hz⟩ := raw_rest s q h hj i hi
  obtain ⟨x, xd⟩ := r
  simp only at hz hu
  subst hz
  refine ⟨x, lk, l, hr, hlk, hl, hu, ?_⟩
  have : Inv.fwdLink (parentVal s (raw s q) i) lk l
      = (⟨(world (parentVal s (raw s q) i) (linkArg (lk, l))).1.pos,
          normalize4 (world (parentVal s (raw s q) i) (linkArg (lk, l))).1.rot⟩,
         (world (parentVal s (raw s q) i) (linkArg (lk, l))).2) := rfl
  rw [this, ← hrec]
  simp only
  rw [Inv.normalize4_unit _ hu]

/-! ## B. `world_to_joint` of the initial pose -/

theorem filterMap_range_all {β : Type} (n : Nat) (g : Nat → Option β) (f : Nat → β)
    (hg : ∀ i, i < n → g i = some (f i)) : (List.range n).filterMap g = (List.range n).map f := by
  rw [← List.filterMap_eq_map]
  apply List.filterMap_congr
  intro i hi
  simp [hg i (List.mem_range.mp hi)]

/-- the parent lookup `x.concatenate(zero).take(parent_idx)` on a mapped list -/
theorem takeParent_map {β : Type} (xs : List (Tf ℝ × Motion ℝ)) (f : Tf ℝ × Motion ℝ → β) (d : β)
    (p : Int) (hp : -1 ≤ p) (hlt : p < (xs.length : Int)) :
    takeParent (xs.map f) d p
      = match (if p < 0 then none else xs[p.toNat]?) with
        | none => d
        | some x => f x := by
  unfold takeParent
  simp only [List.length_map]
  by_cases hneg : p < 0
  · have hp1 : p = -1 := by omega
    subst hp1
    have : ((-1 : Int) % ((xs.length : Int) + 1)).toNat = xs.length := by
      rw [Int.emod_eq_add_self_emod, Int.emod_eq_of_lt (by omega) (by omega)]
      omega
    simp [this, List.getD_eq_getElem?_getD]
  · have hmod : (p % ((xs.length : Int) + 1)).toNat = p.toNat := by
      rw [Int.emod_eq_of_lt (by omega) (by omega)]
    have hlt' : p.toNat < xs.length := by omega
    simp only [hneg, if_false, hmod, List.getElem?_eq_getElem hlt']
    rw [List.getD_eq_getElem?_getD, List.getElem?_append_left (by simpa using hlt'),
      List.getElem?_map, List.getElem?_eq_getElem hlt']
    rfl

theorem w2jLink_rest (lk : LinkP ℝ) (xp xi : Tf ℝ) :
    (Inv.w2jLink lk xp zM xi zM).2.1 = zM := by
  simp [Inv.w2jLink, Tf.doMotion, invRotate, Inv.rotate_zero, V3.cross, rotate, V3.dot, Q4.vec, quatInv]

/-- the world pose / motion lists of `pipeline.init(sys, q, 0)` -/
noncomputable def initX (s : Sys ℝ) (q : List ℝ) : List (Tf ℝ) :=
  (forward s q (List.replicate s.nv 0)).map (·.1)
noncomputable def initXd (s : Sys ℝ) (q : List ℝ) : List (Motion ℝ) :=
  (forward s q (List.replicate s.nv 0)).map (·.2)

theorem forward_length' (s : Sys ℝ) (q : List ℝ) (h : TreeOK s)
    (hj : ∀ l ∈ ins s q, Q4.normSq (jcalc l).1.rot = 1) :
    (forward s q (List.replicate s.nv 0)).length = s.types.length := by
  rw [forward_eq_raw s q h hj, raw_length s q h]

/-- the parent of every link is an identity/zero root frame or an earlier link of the tree: unit
quaternion, zero motion -/
theorem parent_rest (s : Sys ℝ) (q : List ℝ) (h : TreeOK s)
    (hj : ∀ l ∈ ins s q, Q4.normSq (jcalc l).1.rot = 1) (i : Nat) (hi : i < s.types.length) :
    Q4.normSq (Inv.parentOr (parentVal s (forward s q (List.replicate s.nv 0)) i)).1.rot = 1
      ∧ (Inv.parentOr (parentVal s (forward s q (List.replicate s.nv 0)) i)).2 = zM := by
  have hi' : i < s.parents.length := by rw [h.hpar]; exact hi
  unfold parentVal
  rw [List.getD_eq_getElem?_getD, List.getElem?_eq_getElem hi', Option.getD_some]
  by_cases hneg : s.parents[i] < 0
  · simp only [hneg, if_true, Inv.parentOr, Option.getD_none]
    exact ⟨by simp [Tf.id, Q4.one, Q4.normSq], rfl⟩
  · simp only [hneg, if_false]
    have hlt : s.parents[i].toNat < i := by have := h.hwf i hi'; omega
    obtain ⟨x, _, _, hx, _, _, hu, _⟩ := forward_rest s q h hj _ (show s.parents[i].toNat < _ by omega)
    rw [hx]
    exact ⟨hu, rfl⟩

/-- **`world_to_joint(forward(q, 0))`, link by link** (Part B): one row per link, whose joint
transform `j` is `jcalc` of the link's slice of `q` and whose joint-frame motion `jd` is zero -/
theorem w2j_rest (s : Sys ℝ) (q : List ℝ) (h : TreeOK s)
    (hj : ∀ l ∈ ins s q, Q4.normSq (jcalc l).1.rot = 1) :
    (worldToJoint s (initX s q) (initXd s q)).length = s.types.length
    ∧ ∀ i, i < s.types.length → ∃ l a_p a_c, (ins s q)[i]? = some l
        ∧ (worldToJoint s (initX s q) (initXd s q))[i]? = some ((jcalc l).1, zM, a_p, a_c) := by
  have hFlen := forward_length' s q h hj
  set F := forward s q (List.replicate s.nv 0) with hF
  have hXlen : (initX s q).length = s.types.length := by simp [initX, ← hF, hFlen]
  have hXdlen : (initXd s q).length = s.types.length := by simp [initXd, ← hF, hFlen]
  -- the per-link body, totalised
  let f : Nat → Tf ℝ × Motion ℝ × Tf ℝ × Tf ℝ := fun i =>
    Inv.w2jLink (nth s.links i) (takeParent (initX s q) Tf.id (s.parents.getD i (-1)))
      (takeParent (initXd s q) Motion.zero (s.parents.getD i (-1))) (nth (initX s q) i)
      (nth (initXd s q) i)
  have hW : worldToJoint s (initX s q) (initXd s q) = (List.range s.links.length).map f := by
    rw [C08.worldToJoint_eq]
    apply filterMap_range_all
    intro i hi
    have h1 : s.links[i]? = some (nth s.links i) := by
      rw [List.getElem?_eq_getElem hi]; simp [nth, List.getD_eq_getElem?_getD, List.getElem?_eq_getElem hi]
    have hiX : i < (initX s q).length := by rw [hXlen, ← h.hlinks]; exact hi
    have hiXd : i < (initXd s q).length := by rw [hXdlen, ← h.hlinks]; exact hi
    have h2 : (initX s q)[i]? = some (nth (initX s q) i) := by
      rw [List.getElem?_eq_getElem hiX]; simp [nth, List.getD_eq_getElem?_getD, List.getElem?_eq_getElem hiX]
    have h3 : (initXd s q)[i]? = some (nth (initXd s q) i) := by
      rw [List.getElem?_eq_getElem hiXd]; simp [nth, List.getD_eq_getElem?_getD, List.getElem?_eq_getElem hiXd]
    simp only [h1, h2, h3, f]
    rfl
  refine ⟨by rw [hW]; simp [h.hlinks], ?_⟩
  intro i hi
  obtain ⟨x, lk, l, hx, hlk, hl, hu, hfw⟩ := forward_rest s q h hj i hi
  obtain ⟨hpu, hpz⟩ := parent_rest s q h hj i hi
  rw [← hF] at hx hfw hpu hpz
  have hiL : i < s.links.length := by rw [h.hlinks]; exact hi
  have hi' : i < s.parents.length := by rw [h.hpar]; exact hi
  have hpge : -1 ≤ s.parents.getD i (-1) := by
    rw [List.getD_eq_getElem?_getD, List.getElem?_eq_getElem hi', Option.getD_some]; exact h.hge i hi'
  have hplt : s.parents.getD i (-1) < (F.length : Int) := by
    rw [List.getD_eq_getElem?_getD, List.getElem?_eq_getElem hi', Option.getD_some, hFlen]
    have := h.hwf i hi'; omega
  -- what the per-link body reads
  have hnl : nth s.links i = lk := by
    simp [nth, List.getD_eq_getElem?_getD, hlk]
  have hnx : nth (initX s q) i = x := by
    simp [nth, initX, ← hF, List.getD_eq_getElem?_getD, List.getElem?_map, hx]
  have hnxd : nth (initXd s q) i = zM := by
    simp [nth, initXd, ← hF, List.getD_eq_getElem?_getD, List.getElem?_map, hx]
  have htp : takeParent (initX s q) Tf.id (s.parents.getD i (-1)) = (Inv.parentOr (parentVal s F i)).1 := by
    unfold initX
    rw [← hF, takeParent_map F (·.1) Tf.id _ hpge hplt]
    unfold parentVal Inv.parentOr
    cases (if s.parents.getD i (-1) < 0 then none else F[(s.parents.getD i (-1)).toNat]?) <;> rfl
  have htpd : takeParent (initXd s q) Motion.zero (s.parents.getD i (-1))
      = (Inv.parentOr (parentVal s F i)).2 := by
    unfold initXd
    rw [← hF, takeParent_map F (·.2) Motion.zero _ hpge hplt]
    unfold parentVal Inv.parentOr
    cases (if s.parents.getD i (-1) < 0 then none else F[(s.parents.getD i (-1)).toNat]?) <;> rfl
  have hlkok := h.hlk lk (List.mem_of_getElem? hlk)
  have hjl := hj l (List.mem_of_getElem? hl)
  have hj1 := C08.worldToJoint_forward_id (parentVal s F i) lk l hpu hlkok.1 hlkok.2 hjl
  rw [← hfw] at hj1
  simp only at hj1
  refine ⟨l, (f i).2.2.1, (f i).2.2.2, hl, ?_⟩
  rw [hW, List.getElem?_map, List.getElem?_range hiL]
  simp only [Option.map_some]
  congr 1
  have hfi : f i = Inv.w2jLink lk (Inv.parentOr (parentVal s F i)).1 zM x zM := by
    simp only [f, hnl, hnx, hnxd, htp, htpd, hpz]
  rw [hfi, hpz] at *
  refine Prod.ext hj1 (Prod.ext (w2jLink_rest lk _ x) rfl)

/-! ## D.0 the supported link kinds -/

/-- a link's slice of `(q, 0, dofs)` that the rest theorems support: a free link with a unit
quaternion, a 1-dof link (`PureOne`: hinge or slide about a unit axis) or one of the six 2- and
3-dof stack kinds (`PureStack`), inside the charts and the joint limits -/
inductive RestKind (hasLimit : Bool) (lq : LinkIn ℝ) : Prop
  | free (p0 p1 p2 r0 r1 r2 r3 : ℝ) (ds : List (DofP ℝ))
      (hlq : lq = ⟨.free, [p0, p1, p2, r0, r1, r2, r3], [0, 0, 0, 0, 0, 0], ds⟩)
      (hu : r0 * r0 + r1 * r1 + r2 * r2 + r3 * r3 = 1) : RestKind hasLimit lq
  | one (h : PureOne hasLimit lq) : RestKind hasLimit lq
  | stack (h : PureStack hasLimit lq) : RestKind hasLimit lq

theorem pureOne_unit {hasLimit : Bool} {lq : LinkIn ℝ} (h : PureOne hasLimit lq) :
    Q4.normSq (jcalc lq).1.rot = 1 := by
  cases h with
  | hinge d a q qd hlq hdm ha h1 h2 hl =>
    subst hlq
    rw [Inv.jcalc_one_hinge d q qd (by rw [hdm]; exact ha) (by rw [hdm])]
    exact Inv.quatRotAxis_normSq _ q (by rw [hdm]; exact ha)
  | slide d e q qd hlq hdm he hq hl =>
    subst hlq
    rw [Inv.jcalc_slides1 d e q qd hdm hq]
    simp [Q4.normSq]

theorem restKind_unit {hasLimit : Bool} {lq : LinkIn ℝ} (h : RestKind hasLimit lq) :
    Q4.normSq (jcalc lq).1.rot = 1 := by
  cases h with
  | free p0 p1 p2 r0 r1 r2 r3 ds hlq hu => subst hlq; simpa [jcalc, Q4.normSq] using hu
  | one h => exact pureOne_unit h
  | stack h => exact h.unit

theorem pureOne_shape {hasLimit : Bool} {lq : LinkIn ℝ} (h : PureOne hasLimit lq) :
    lq.typ = .one ∧ lq.qd.length = lq.dofs.length := by
  cases h with
  | hinge d a q qd hlq hdm ha h1 h2 hl => subst hlq; exact ⟨rfl, rfl⟩
  | slide d e q qd hlq hdm he hq hl => subst hlq; exact ⟨rfl, rfl⟩

theorem pureStack_shape {hasLimit : Bool} {lq : LinkIn ℝ} (h : PureStack hasLimit lq) :
    lq.typ ≠ .free ∧ lq.qd.length = lq.dofs.length := by
  cases h <;> (subst_vars; exact ⟨by simp, rfl⟩)

theorem eq_replicate_of_zero (l : List ℝ) (h : ∀ x ∈ l, x = 0) : l = List.replicate l.length 0 :=
  List.eq_replicate_iff.mpr ⟨rfl, h⟩

/-- **spring joint force of a 1-dof link at `j = jcalc q`**: zero (hinge: the child copy of the axis is
the axis, `psi = q`; slide: the offset is along the axis, no rotation) -/
theorem jointForce_pureOne (hasLimit : Bool) (lk : LinkP ℝ) (lq l : LinkIn ℝ)
    (h : PureOne hasLimit lq) (ht : l.typ = lq.typ) (hd : l.dofs = lq.dofs) (htau : l.qd = [0]) :
    Spring.jointForce hasLimit lk (jcalc lq).1 zM l = ⟨0, 0⟩ := by
  cases h with
  | hinge d a q qd hlq hdm ha h1 h2 hl =>
    subst hlq
    have hA := v3Any_unit a ha
    obtain ⟨hb, hab, hc⟩ := Inv.orthogonals_spec a ha
    have hj : (jcalc ⟨.one, [q], [qd], [d]⟩).1 = ⟨⟨0, 0, 0⟩, quatRotAxis a q⟩ := by
      rw [Inv.jcalc_one_hinge d q qd (by rw [hdm]; exact ha) (by rw [hdm]), hdm]
      simp only [zero_mul]
    have hfr : frame1 d.motion = ⟨⟨a, (Inv.orthogonals a).1, V3.cross a (Inv.orthogonals a).1⟩, eye, 1⟩ := by
      simp [frame1, hdm, hA, v3Any_zero_lit, orth_eq, hc]
    simp only [Spring.jointForce, ht, hd, htau]
    rw [hj]
    apply oneDof_rest_hinge
    · rw [hdm]; exact v3Any_zero_lit
    · rfl
    · rw [hfr]; simp only
      rw [Inv.rotate_axis a q ha, cross_self_lit]
    · intro hL
      rw [hfr]; simp only
      rw [aa_psi, (Inv.hinge_psi a (Inv.orthogonals a).1 ⟨0, 0, 0⟩ q 1 ha hb hab h1 h2).1]
      exact limDelta_inside _ _ _ (hl hL)
  | slide d e q qd hlq hdm he hq hl =>
    subst hlq
    have hE := v3Any_unit e he
    have hj : (jcalc ⟨.one, [q], [qd], [d]⟩).1 = ⟨V3.smul q e, Q4.one⟩ := by
      rw [Inv.jcalc_slides1 d e q qd hdm hq]
      simp only
      rw [smul_1]
      rfl
    have hdv : d.motion.vel = e := by rw [hdm]
    simp only [Spring.jointForce, ht, hd, htau]
    rw [hj]
    apply oneDof_rest_slide hasLimit lk _ d q
    · rw [hdv]; exact hE
    · rw [hdm]; exact v3Any_zero_lit
    · rw [hdv]; exact he
    · rw [hdv]
    · rfl
    · intro hL
      have : V3.dot (V3.smul q e) e = q := by
        simp only [V3.dot] at he ⊢
        simp only [V3.smul]
        linear_combination q * he
      simp only [hdv, this]
      exact limDelta_inside _ _ _ (hl hL)

/-- the spring joint force of every supported link kind vanishes at `j = jcalc q`, `jd = 0`, `tau = 0` -/
theorem jointForce_restKind (hasLimit : Bool) (lk : LinkP ℝ) (lq l : LinkIn ℝ)
    (h : RestKind hasLimit lq) (ht : l.typ = lq.typ) (hd : l.dofs = lq.dofs) (hqd : l.qd = lq.qd)
    (hz : ∀ x ∈ lq.qd, x = 0) :
    Spring.jointForce hasLimit lk (jcalc lq).1 zM l = ⟨0, 0⟩ := by
  cases h with
  | free p0 p1 p2 r0 r1 r2 r3 ds hlq hu =>
    subst hlq
    simp only [Spring.jointForce, ht]
  | one h =>
    have hs := pureOne_shape h
    have hq1 : l.qd = [0] := by
      rw [hqd, eq_replicate_of_zero _ hz, hs.2]
      cases h <;> (subst_vars; rfl)
    exact jointForce_pureOne hasLimit lk lq l h ht hd hq1
  | stack h =>
    have hs := pureStack_shape h
    exact C04L.jointForce_pureStack hasLimit lk lq l h ht hd
      (by rw [hqd, eq_replicate_of_zero _ hz, hs.2])

/-! ## D.1 the spring pipeline from `init(q, 0)` -/

theorem nth_map_of_getElem? {β γ : Type} [Inhabited β] [Inhabited γ] (xs : List β) (f : β → γ) (i : Nat)
    (x : β) (h : xs[i]? = some x) : nth (xs.map f) i = f x := by
  simp [nth, List.getD_eq_getElem?_getD, List.getElem?_map, h]

theorem init_x (s : Sys ℝ) (q : List ℝ) : (Spring.init s q (List.replicate s.nv 0)).x = initX s q := rfl
theorem init_xd (s : Sys ℝ) (q : List ℝ) : (Spring.init s q (List.replicate s.nv 0)).xd = initXd s q := rfl

/-- hypotheses on system and coordinates shared by the system-level rest theorems -/
structure InitOK (s : Sys ℝ) (q : List ℝ) : Prop where
  tree : TreeOK s
  kind : ∀ l ∈ ins s q, RestKind s.hasLimit l

theorem InitOK.unitJ {s : Sys ℝ} {q : List ℝ} (h : InitOK s q) :
    ∀ l ∈ ins s q, Q4.normSq (jcalc l).1.rot = 1 := fun l hl => restKind_unit (h.kind l hl)

/-- world quaternions of `init(q, 0)` are unit, world motions vanish -/
theorem init_pose_rest (s : Sys ℝ) (q : List ℝ) (h : InitOK s q) (i : Nat) (hi : i < s.numLinks) :
    Q4.normSq (nth (initX s q) i).rot = 1 ∧ nth (initXd s q) i = ⟨0, 0⟩ := by
  obtain ⟨x, _, _, hx, _, _, hu, _⟩ := forward_rest s q h.tree h.unitJ i hi
  unfold initX initXd
  rw [nth_map_of_getElem? _ _ i _ hx, nth_map_of_getElem? _ _ i _ hx]
  exact ⟨hu, rfl⟩

/-- **Newton's first law, spring pipeline, system level.**  `inv` enters through the one equation the
step needs: `inv (world_to_joint (forward q 0)) = (q, 0)` (`inverse_init` discharges it for the model
of `kinematics.inverse`). -/
theorem spring_init_rest (inv : List (Tf ℝ) → List (Motion ℝ) → List ℝ × List ℝ)
    (cf : List (Tf ℝ) → List (Contact ℝ)) (s : Sys ℝ) (q act : List ℝ) (h : InitOK s q)
    (hg : s.gravity = 0) (hacts : s.acts = []) (hcf : cf (initX s q) = [])
    (hinv : inv ((worldToJoint s (initX s q) (initXd s q)).map (·.1))
        ((worldToJoint s (initX s q) (initXd s q)).map (·.2.1)) = (q, List.replicate s.nv 0)) :
    Spring.step inv cf s (Spring.init s q (List.replicate s.nv 0)) act
      = Spring.init s q (List.replicate s.nv 0) := by
  have hFlen := forward_length' s q h.tree h.unitJ
  obtain ⟨hWlen, hW⟩ := w2j_rest s q h.tree h.unitJ
  apply spring_rest_of_zero_jointForces inv cf s _ act
  · exact ⟨by rw [init_x]; simp [initX, hFlen, Sys.numLinks],
      by rw [init_xd]; simp [initXd, hFlen, Sys.numLinks], rfl, rfl, rfl, rfl, rfl, hinv, rfl⟩
  · exact ⟨hg, hacts, Real.sqrt_one, h.tree.hpar⟩
  · intro i hi; rw [init_xd]; exact (init_pose_rest s q h i hi).2
  · intro i hi; rw [init_x]; exact (init_pose_rest s q h i hi).1
  · exact hcf
  · intro i hi
    obtain ⟨l, a_p, a_c, hl, hw⟩ := hW i hi
    have hj : nth (Spring.init s q (List.replicate s.nv 0)).j i = (jcalc l).1 :=
      nth_map_of_getElem? _ _ i _ hw
    have hjd : nth (Spring.init s q (List.replicate s.nv 0)).jd i = zM :=
      nth_map_of_getElem? _ _ i _ hw
    unfold Spring.jointForces
    rw [nth_tab _ hi, hj, hjd]
    cases hl' : (linkSlices s.types ([] : List ℝ) (List.replicate s.nv 0) s.dofs)[i]? with
    | none => rfl
    | some l' =>
      obtain ⟨h1, h2, h3⟩ := linkSlices_same s.types q [] _ s.dofs i l l' hl hl'
      exact jointForce_restKind _ _ l l' (h.kind l (List.mem_of_getElem? hl)) h1 h3 h2
        (slices_qd_zero _ _ _ _ l (List.mem_of_getElem? hl))

/-! ## C. `kinematics.inverse` of the initial joint transforms is `(q, 0)` -/

/-- a root link with identity link frame and anchor: through it C08's `inverse_*` theorems (stated
for `world_to_joint ∘ forward` of one link) become statements about `inverseLink (jcalc q)` -/
noncomputable def lk0 : LinkP ℝ := default

theorem lk0_unit : Q4.normSq lk0.tf.rot = 1 := by simp [lk0, Q4.normSq, default]
theorem lk0_joint : lk0.joint.rot = ⟨1, 0, 0, 0⟩ := rfl
theorem none_unit : Q4.normSq (Inv.parentOr none).1.rot = 1 := by
  simp [Inv.parentOr, Tf.id, Q4.one, Q4.normSq]
theorem none_rest : (Inv.parentOr none).2.ang = ⟨0, 0, 0⟩ := rfl

/-- `world_to_joint ∘ forward` of a root link under `lk0` at zero velocity returns `(jcalc q, 0)` -/
theorem w2j_lk0 (l : LinkIn ℝ) (hu : Q4.normSq (jcalc l).1.rot = 1) (hz : ∀ x ∈ l.qd, x = 0) :
    (Inv.w2jLink lk0 (Inv.parentOr none).1 (Inv.parentOr none).2 (Inv.fwdLink none lk0 l).1
        (Inv.fwdLink none lk0 l).2).1 = (jcalc l).1
    ∧ (Inv.w2jLink lk0 (Inv.parentOr none).1 (Inv.parentOr none).2 (Inv.fwdLink none lk0 l).1
        (Inv.fwdLink none lk0 l).2).2.1 = zM := by
  refine ⟨C08.worldToJoint_forward_id none lk0 l none_unit lk0_unit lk0_joint hu, ?_⟩
  have h2 : (Inv.fwdLink none lk0 l).2 = zM := by
    have : (Inv.fwdLink none lk0 l).2 = (world none (linkArg (lk0, l))).2 := rfl
    rw [this]
    exact world_rest none _ (fun p hp => by cases hp) (linkArg_rest lk0 l hz)
  rw [h2]
  exact w2jLink_rest lk0 _ _

theorem xDof_rest2 (j : Tf ℝ) (p : Int) (m0 m1 : Motion ℝ) (a b : List ℝ)
    (h : Inv.xDof j zM p [m0, m1] = some (a, b)) : b = [0, 0] := by
  simp only [Inv.xDof, Inv.linkToJointFrame, invRotate, Inv.rotate_zero, dot_zero_right_lit,
    List.map_cons, List.map_nil, List.zip_cons_cons, List.zip_nil_right, List.zipWith_cons_cons,
    List.zipWith_nil_right, ite_self, Option.some.injEq, Prod.mk.injEq] at h
  exact h.2.symm

theorem xDof_rest3 (j : Tf ℝ) (p : Int) (m0 m1 m2 : Motion ℝ) (a b : List ℝ)
    (h : Inv.xDof j zM p [m0, m1, m2] = some (a, b)) : b = [0, 0, 0] := by
  simp only [Inv.xDof, Inv.linkToJointFrame, invRotate, Inv.rotate_zero, dot_zero_right_lit,
    List.map_cons, List.map_nil, List.zip_cons_cons, List.zip_nil_right, List.zipWith_cons_cons,
    List.zipWith_nil_right, ite_self, Option.some.injEq, Prod.mk.injEq] at h
  exact h.2.symm

/-- **per link**: `q_fn` of `kinematics.inverse` applied to `(jcalc q, 0)` returns the link's slice
`(q, 0)` — from C08's `inverse_free`, `inverse_one_hinge`, `inverse_slide_stack1/2/3`,
`inverse_slide_then_hinge`, `inverse_slides_then_hinge`, `inverse_two_hinges`,
`inverse_three_hinges` (the velocities C08 leaves open for stacked hinges are zero here because
`jd = 0`: `xDof_rest2/3`) -/
theorem inverseLink_restKind (hasLimit : Bool) (lq : LinkIn ℝ) (h : RestKind hasLimit lq)
    (hz : ∀ x ∈ lq.qd, x = 0) (pidx : Int) :
    Inv.inverseLink lq.typ (jcalc lq).1 zM pidx (lq.dofs.map (·.motion)) = some (lq.q, lq.qd) := by
  obtain ⟨hw1, hw2⟩ := w2j_lk0 lq (restKind_unit h) hz
  cases h with
  | free p0 p1 p2 r0 r1 r2 r3 ds hlq hu =>
    subst hlq
    have := C08.inverse_free none lk0 none_unit none_rest lk0_unit lk0_joint p0 p1 p2 r0 r1 r2 r3
      0 0 0 0 0 0 hu ds pidx
    simp only at this
    rw [hw1, hw2] at this
    exact this
  | one h =>
    cases h with
    | hinge d a q qd hlq hdm ha h1 h2 hl =>
      subst hlq
      have hqd : qd = 0 := hz qd (by simp)
      subst hqd
      have := C08.inverse_one_hinge none lk0 none_unit lk0_unit lk0_joint d (by rw [hdm]; exact ha)
        (by rw [hdm]) q 0 h1 h2 pidx
      simp only at this
      rw [hw1, hw2] at this
      exact this
    | slide d e q qd hlq hdm he hq hl =>
      subst hlq
      have hqd : qd = 0 := hz qd (by simp)
      subst hqd
      obtain ⟨qd', hx, hv⟩ := C08.inverse_slide_stack1 none lk0 none_unit lk0_unit lk0_joint d e hdm he
        q 0 hq pidx
      rw [hv none_rest, hw1, hw2] at hx
      exact hx
  | stack h =>
    cases h with
    | hh d0 d1 a0 a1 q0 q1 qd0 qd1 hlq hd0 hd1 h00 h11 h01 hq0 hq0' hq1 hl0 hl1 =>
      subst hlq
      have e0 : qd0 = 0 := hz qd0 (by simp)
      have e1 : qd1 = 0 := hz qd1 (by simp)
      subst e0; subst e1
      obtain ⟨qd', hx⟩ := C08.inverse_two_hinges none lk0 none_unit lk0_unit lk0_joint d0 d1 a0 a1
        hd0 hd1 h00 h11 h01 q0 q1 0 0 hq0 hq0' hq1 pidx
      rw [hw1, hw2] at hx
      have hx' := hx
      simp only [Inv.inverseLink, List.length_cons, List.length_nil, LinkType.qdWidth, if_true] at hx'
      rw [xDof_rest2 _ _ _ _ _ _ hx'] at hx
      exact hx
    | hhh d0 d1 d2 a0 a1 a2 q0 q1 q2 qd0 qd1 qd2 hlq hd0 hd1 hd2 h00 h11 h01 h2 hq0 hq0' hq1 hq2 hq2'
        hl0 hl1 hl2 =>
      subst hlq
      have e0 : qd0 = 0 := hz qd0 (by simp)
      have e1 : qd1 = 0 := hz qd1 (by simp)
      have e2 : qd2 = 0 := hz qd2 (by simp)
      subst e0; subst e1; subst e2
      obtain ⟨qd', hx⟩ := C08.inverse_three_hinges none lk0 none_unit lk0_unit lk0_joint d0 d1 d2
        a0 a1 a2 hd0 hd1 hd2 h00 h11 h01 h2 q0 q1 q2 0 0 0 hq0 hq0' hq1 hq2 hq2' pidx
      rw [hw1, hw2] at hx
      have hx' := hx
      simp only [Inv.inverseLink, List.length_cons, List.length_nil, LinkType.qdWidth, if_true] at hx'
      rw [xDof_rest3 _ _ _ _ _ _ _ hx'] at hx
      exact hx
    | ss d0 d1 e0 e1 q0 q1 qd0 qd1 hlq hd0 hd1 h00 h11 h01 hq0 hq1 hl0 hl1 =>
      subst hlq
      have z0 : qd0 = 0 := hz qd0 (by simp)
      have z1 : qd1 = 0 := hz qd1 (by simp)
      subst z0; subst z1
      obtain ⟨qd', hx, hv⟩ := C08.inverse_slide_stack2 none lk0 none_unit lk0_unit lk0_joint d0 d1
        e0 e1 hd0 hd1 h00 h11 h01 q0 q1 0 0 hq0 hq1 pidx
      rw [hv none_rest, hw1, hw2] at hx
      exact hx
    | sss d0 d1 d2 e0 e1 e2 q0 q1 q2 qd0 qd1 qd2 hlq hd0 hd1 hd2 h00 h11 h22 h01 h02 h12 hq0 hq1 hq2
        hl0 hl1 hl2 =>
      subst hlq
      have z0 : qd0 = 0 := hz qd0 (by simp)
      have z1 : qd1 = 0 := hz qd1 (by simp)
      have z2 : qd2 = 0 := hz qd2 (by simp)
      subst z0; subst z1; subst z2
      obtain ⟨qd', hx, hv⟩ := C08.inverse_slide_stack3 none lk0 none_unit lk0_unit lk0_joint d0 d1 d2
        e0 e1 e2 hd0 hd1 hd2 h00 h11 h22 h01 h02 h12 q0 q1 q2 0 0 0 hq0 hq1 hq2 pidx
      rw [hv none_rest, hw1, hw2] at hx
      exact hx
    | sh ds dh e a q0 q1 qd0 qd1 hlq hs hh hee haa hq0 hq1 hl0 hl1 =>
      subst hlq
      have z0 : qd0 = 0 := hz qd0 (by simp)
      have z1 : qd1 = 0 := hz qd1 (by simp)
      subst z0; subst z1
      obtain ⟨v, hx, hv⟩ := C08.inverse_slide_then_hinge none lk0 none_unit lk0_unit lk0_joint ds dh
        a e hs hh haa hee q0 q1 0 0 hq0 hq1 pidx
      rw [hv none_rest, hw1, hw2] at hx
      exact hx
    | ssh d0 d1 dh e0 e1 a q0 q1 q2 qd0 qd1 qd2 hlq h0 h1 hh h00 h11 h01 haa hq0 hq1 hq2 hq2'
        hl0 hl1 hl2 =>
      subst hlq
      have z0 : qd0 = 0 := hz qd0 (by simp)
      have z1 : qd1 = 0 := hz qd1 (by simp)
      have z2 : qd2 = 0 := hz qd2 (by simp)
      subst z0; subst z1; subst z2
      obtain ⟨v0, v1, hx, hv⟩ := C08.inverse_slides_then_hinge none lk0 none_unit lk0_unit lk0_joint
        d0 d1 dh a e0 e1 h0 h1 hh haa h00 h11 h01 q0 q1 q2 0 0 0 hq0 hq1 hq2 hq2' pidx
      rw [(hv none_rest).1, (hv none_rest).2, hw1, hw2] at hx
      exact hx

theorem mapM_forall₂ {β γ : Type} (f : β → Option γ) (l : List β) (r : List γ)
    (h : List.Forall₂ (fun a b => f a = some b) l r) : l.mapM f = some r := by
  induction h with
  | nil => rfl
  | cons hab _ ih => simp [List.mapM_cons, hab, ih]

/-- the slices partition `qd` -/
theorem linkSlices_qd_flatten (ts : List LinkType) (q qd : List ℝ) (ds : List (DofP ℝ)) :
    ((linkSlices ts q qd ds).map (·.qd)).flatten = qd.take ((ts.map LinkType.qdWidth).sum) := by
  induction ts generalizing q qd ds with
  | nil => simp [linkSlices]
  | cons t ts ih =>
    simp only [linkSlices, List.map_cons, List.flatten_cons, ih, List.sum_cons]
    rw [List.take_add]

/-- **`kinematics.inverse(sys, *world_to_joint(forward(q, 0))) = (q, 0)`** (Part C) for the model
`Inv.inverse` of C08, for every tree whose links are of the supported kinds.  `q.length = nq` is the
shape `pipeline.init` is called with. -/
theorem inverse_init (s : Sys ℝ) (q : List ℝ) (h : InitOK s q) (hq : q.length = s.nq) :
    Inv.inverse s ((worldToJoint s (initX s q) (initXd s q)).map (·.1))
        ((worldToJoint s (initX s q) (initXd s q)).map (·.2.1))
      = some (q, List.replicate s.nv 0) := by
  obtain ⟨hWlen, hW⟩ := w2j_rest s q h.tree h.unitJ
  set W := worldToJoint s (initX s q) (initXd s q) with hWdef
  have hper : ((linkSlices s.types ([] : List ℝ) [] s.dofs).zip
      (s.parents.zip ((W.map (·.1)).zip (W.map (·.2.1))))).mapM
        (fun a => Inv.inverseLink a.1.typ a.2.2.1 a.2.2.2 a.2.1 (a.1.dofs.map (·.motion)))
      = some ((ins s q).map fun l => (l.q, l.qd)) := by
    apply mapM_forall₂
    rw [List.forall₂_iff_get]
    refine ⟨by simp [linkSlices_length, h.tree.hpar, hWlen, ins_length], ?_⟩
    intro i h1 h2
    have hi : i < s.types.length := by simpa [ins_length] using h2
    obtain ⟨l, a_p, a_c, hl, hw⟩ := hW i hi
    have hi0 : i < (linkSlices s.types ([] : List ℝ) [] s.dofs).length := by
      rw [linkSlices_length]; exact hi
    have hiW : i < W.length := by rw [hWlen]; exact hi
    have hiI : i < (ins s q).length := by rw [ins_length]; exact hi
    obtain ⟨ht, hd⟩ := linkSlices_same' s.types q [] _ [] s.dofs i l _ hl
      (List.getElem?_eq_getElem hi0)
    have hwi : W[i] = ((jcalc l).1, zM, a_p, a_c) := by
      rw [List.getElem?_eq_getElem hiW] at hw; exact Option.some.inj hw
    have hli : (ins s q)[i] = l := by
      rw [List.getElem?_eq_getElem hiI] at hl; exact Option.some.inj hl
    simp only [List.get_eq_getElem, List.getElem_zip, List.getElem_map, hwi, hli, ht, hd]
    exact inverseLink_restKind s.hasLimit l (h.kind l (List.mem_of_getElem? hl))
      (slices_qd_zero _ _ _ _ l (List.mem_of_getElem? hl)) _
  unfold Inv.inverse
  rw [if_neg (by simp [hWlen, h.tree.hpar])]
  simp only [hper, Option.map_some, List.flatMap_def, List.map_map, Function.comp_def]
  congr 2
  · have := linkSlices_q_flatten s.types q (List.replicate s.nv (0 : ℝ)) s.dofs
    unfold ins
    rw [this, List.take_of_length_le (by rw [hq]; exact le_refl _)]
  · have := linkSlices_qd_flatten s.types q (List.replicate s.nv (0 : ℝ)) s.dofs
    unfold ins
    rw [this, List.take_of_length_le (by simp [Sys.nv])]

/-- the model of `kinematics.inverse` as the `inv` parameter of the pipelines (`none` = the
`AssertionError` of a malformed system: never reached here) -/
noncomputable def invModel (s : Sys ℝ) : List (Tf ℝ) → List (Motion ℝ) → List ℝ × List ℝ :=
  fun j jd => (Inv.inverse s j jd).getD ([], [])

/-- **Newton's first law, spring pipeline, system level, with `inv` = the model of
`kinematics.inverse`** -/
theorem spring_init_rest_inverse (cf : List (Tf ℝ) → List (Contact ℝ)) (s : Sys ℝ) (q act : List ℝ)
    (h : InitOK s q) (hq : q.length = s.nq) (hg : s.gravity = 0) (hacts : s.acts = [])
    (hcf : cf (initX s q) = []) :
    Spring.step (invModel s) cf s (Spring.init s q (List.replicate s.nv 0)) act
      = Spring.init s q (List.replicate s.nv 0) :=
  spring_init_rest (invModel s) cf s q act h hg hacts hcf (by
    unfold invModel; rw [inverse_init s q h hq]; rfl)

/-! ## D.2 the positional pipeline from `init(q, 0)` -/

/-- the positional joint update `_three_dof_joint_update(jcalc q, *_sphericalize(…))` of a link slice
asks for no correction (free links are masked by `free_mask`) -/
def PosZero (hasLimit : Bool) (lq : LinkIn ℝ) : Prop :=
  lq.typ = .free ∨ ∀ l : LinkIn ℝ, l.typ = lq.typ → l.dofs = lq.dofs →
    Positional.threeDofJointUpdate (jcalc lq).1 (Positional.sphericalize hasLimit l).1
      (Positional.sphericalize hasLimit l).2 = (⟨0, 0, 0⟩, ⟨0, 0, 0⟩)

theorem posZero_free (hasLimit : Bool) (lq : LinkIn ℝ) (h : lq.typ = .free) : PosZero hasLimit lq :=
  Or.inl h

theorem posZero_pureOne (hasLimit : Bool) (lq : LinkIn ℝ) (h : PureOne hasLimit lq) :
    PosZero hasLimit lq :=
  Or.inr fun l ht hd => threeDofJointUpdate_pureOne hasLimit lq l h ht hd

theorem pinit_x (s : Sys ℝ) (q : List ℝ) : (Positional.init s q (List.replicate s.nv 0)).x = initX s q := rfl
theorem pinit_xd (s : Sys ℝ) (q : List ℝ) : (Positional.init s q (List.replicate s.nv 0)).xd = initXd s q := rfl

/-- **Newton's first law, positional pipeline, system level**, for every tree of supported links whose
positional joint updates vanish at `jcalc q` (`PosZero`: free links, `PureOne`, `PureStack` —
`posZero_restKind`) -/
theorem positional_init_rest_of (inv : List (Tf ℝ) → List (Motion ℝ) → List ℝ × List ℝ)
    (cf : List (Tf ℝ) → List (Contact ℝ)) (s : Sys ℝ) (q act : List ℝ) (h : InitOK s q)
    (hpos : ∀ l ∈ ins s q, PosZero s.hasLimit l)
    (hg : s.gravity = 0) (hacts : s.acts = []) (hdt : s.dt ≠ 0) (hcf : ∀ x, cf x = [])
    (hinv : inv ((worldToJoint s (initX s q) (initXd s q)).map (·.1))
        ((worldToJoint s (initX s q) (initXd s q)).map (·.2.1)) = (q, List.replicate s.nv 0)) :
    Positional.step inv cf s (Positional.init s q (List.replicate s.nv 0)) act
      = Positional.init s q (List.replicate s.nv 0) := by
  have hFlen := forward_length' s q h.tree h.unitJ
  obtain ⟨hWlen, hW⟩ := w2j_rest s q h.tree h.unitJ
  have hjd : ∀ i, i < s.numLinks →
      nth (Positional.init s q (List.replicate s.nv 0)).jd i = ⟨⟨0, 0, 0⟩, ⟨0, 0, 0⟩⟩ := by
    intro i hi
    obtain ⟨l, a_p, a_c, hl, hw⟩ := hW i hi
    exact nth_map_of_getElem? _ _ i _ hw
  apply positional_rest_of_zero_displacements inv cf s _ act
  · exact ⟨by rw [pinit_x]; simp [initX, hFlen, Sys.numLinks],
      by rw [pinit_xd]; simp [initXd, hFlen, Sys.numLinks], rfl, rfl, rfl, rfl, rfl, hinv⟩
  · exact ⟨hg, hacts, Real.sqrt_one, h.tree.hpar⟩
  · exact hdt
  · intro i hi; rw [pinit_xd]; exact (init_pose_rest s q h i hi).2
  · intro i hi; rw [pinit_x]; exact (init_pose_rest s q h i hi).1
  · exact hcf
  · intro i hi; exact posJointForces_zero s _ hjd hi
  · intro i hi
    obtain ⟨l, a_p, a_c, hl, hw⟩ := hW i hi
    have hj : nth (Positional.init s q (List.replicate s.nv 0)).j i = (jcalc l).1 :=
      nth_map_of_getElem? _ _ i _ hw
    unfold Positional.jointDisplacements
    rw [nth_tab _ hi]
    cases hl' : (linkSlices s.types ([] : List ℝ) [] s.dofs)[i]? with
    | none => rfl
    | some l' =>
      obtain ⟨h1, h3⟩ := linkSlices_same' s.types q [] _ [] s.dofs i l l' hl hl'
      simp only
      rcases hpos l (List.mem_of_getElem? hl) with hf | hz
      · have hb : (LinkType.free != LinkType.free) = false := rfl
        simp only [h1, hf, hb, maskV_false, Inv.rotate_zero]
        rfl
      · rw [hj, hz l' h1 h3]
        simp only [maskV_zero_lit, Inv.rotate_zero]
        rfl

/-- every supported link kind has a vanishing positional joint update, a hinge in the middle of a
stack being outside the `allclose` window of `normalize(a1 × p0)` (`StackMid`) -/
theorem posZero_restKind (hasLimit : Bool) (lq : LinkIn ℝ) (h : RestKind hasLimit lq)
    (hm : StackMid lq) : PosZero hasLimit lq := by
  cases h with
  | free p0 p1 p2 r0 r1 r2 r3 ds hlq hu => subst hlq; exact Or.inl rfl
  | one h => exact posZero_pureOne hasLimit lq h
  | stack h => exact Or.inr fun l ht hd => threeDofJointUpdate_pureStack hasLimit lq l h hm ht hd

/-- **Newton's first law, positional pipeline, system level** -/
theorem positional_init_rest (inv : List (Tf ℝ) → List (Motion ℝ) → List ℝ × List ℝ)
    (cf : List (Tf ℝ) → List (Contact ℝ)) (s : Sys ℝ) (q act : List ℝ) (h : InitOK s q)
    (hmid : ∀ l ∈ ins s q, StackMid l)
    (hg : s.gravity = 0) (hacts : s.acts = []) (hdt : s.dt ≠ 0) (hcf : ∀ x, cf x = [])
    (hinv : inv ((worldToJoint s (initX s q) (initXd s q)).map (·.1))
        ((worldToJoint s (initX s q) (initXd s q)).map (·.2.1)) = (q, List.replicate s.nv 0)) :
    Positional.step inv cf s (Positional.init s q (List.replicate s.nv 0)) act
      = Positional.init s q (List.replicate s.nv 0) :=
  positional_init_rest_of inv cf s q act h
    (fun l hl => posZero_restKind s.hasLimit l (h.kind l hl) (hmid l hl)) hg hacts hdt hcf hinv

/-- … with `inv` = the model of `kinematics.inverse` -/
theorem positional_init_rest_inverse (cf : List (Tf ℝ) → List (Contact ℝ)) (s : Sys ℝ)
    (q act : List ℝ) (h : InitOK s q) (hmid : ∀ l ∈ ins s q, StackMid l) (hq : q.length = s.nq)
    (hg : s.gravity = 0) (hacts : s.acts = []) (hdt : s.dt ≠ 0) (hcf : ∀ x, cf x = []) :
    Positional.step (invModel s) cf s (Positional.init s q (List.replicate s.nv 0)) act
      = Positional.init s q (List.replicate s.nv 0) :=
  positional_init_rest (invModel s) cf s q act h hmid hg hacts hdt hcf (by
    unfold invModel; rw [inverse_init s q h hq]; rfl)

end Brax.C04I
