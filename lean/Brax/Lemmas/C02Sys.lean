import Brax.Lemmas.C02Act
/-!
# C02 helper lemmas: looking a scan result up after the scan = the parent value inside the scan;
whole-system `cdofd = cdof_dot`
-/
set_option linter.unusedSectionVars false
set_option linter.unusedSimpArgs false
namespace Brax.Gd
open Brax Kin

/-! ## Layer B: pointwise characterisation of the forward scan -/
section lookup
variable {β γ : Type}

/-- the parent value the scan hands to the step of a link with parent index `p` -/
def parentOf (res : List β) (p : Int) : Option β := if p < 0 then none else res[p.toNat]?

theorem foldl_scanStep_lookup (f : Option β → γ → β) : ∀ (l : List (Int × γ)) (acc : List β),
    (∀ (k : Nat) (hk : k < l.length), l[k].1 < (acc.length + k : Int)) →
    ∃ t, l.foldl (scanStep f) acc = acc ++ t ∧
      List.Forall₂ (fun (pa : Int × γ) (r : β) =>
        r = f (parentOf (l.foldl (scanStep f) acc) pa.1) pa.2) l t := by
  intro l
  induction l with
  | nil => intro acc _; exact ⟨[], by simp, List.Forall₂.nil⟩
  | cons pa rest ih =>
    intro acc h
    simp only [List.foldl]
    obtain ⟨t, ht, hrel⟩ := ih (scanStep f acc pa) (by
      intro k hk
      have := h (k + 1) (by simp; omega)
      simp only [List.getElem_cons_succ] at this
      simp only [scanStep, List.length_append, List.length_cons, List.length_nil]
      push_cast at this ⊢
      omega)
    refine ⟨f (if pa.1 < 0 then none else acc[pa.1.toNat]?) pa.2 :: t, ?_, ?_⟩
    · rw [ht]; simp [scanStep]
    · refine List.Forall₂.cons ?_ hrel
      congr 1
      unfold parentOf
      by_cases hneg : pa.1 < 0
      · simp [hneg]
      · simp only [hneg, if_false]
        have h0 := h 0 (by simp)
        simp only [List.getElem_cons_zero] at h0
        have hlt : pa.1.toNat < acc.length := by omega
        rw [ht]
        unfold scanStep
        rw [List.append_assoc, List.getElem?_append_left hlt]

/-- **every result of the forward scan is the step applied to the looked-up parent result** -/
theorem scanFwd_lookup (f : Option β → γ → β) (ps : List Int) (as : List γ)
    (hwf : ∀ i : Nat, ps.getD i (-1) < (i : Int)) :
    List.Forall₂ (fun (pa : Int × γ) (r : β) => r = f (parentOf (scanFwd f ps as) pa.1) pa.2)
      (ps.zip as) (scanFwd f ps as) := by
  rw [scanFwd_eq]
  obtain ⟨t, ht, hrel⟩ := foldl_scanStep_lookup f (ps.zip as) [] (by
    intro k hk
    have hk' : k < ps.length := by simp at hk; omega
    have := hwf k
    rw [List.getD_eq_getElem?_getD, List.getElem?_eq_getElem hk'] at this
    simp only [List.getElem_zip, List.length_nil]
    simpa using this)
  rw [List.nil_append] at ht
  rw [← ht] at hrel
  exact hrel

theorem forall₂_getElem {δ ε : Type} {P : δ → ε → Prop} {l : List δ} {l' : List ε}
    (h : List.Forall₂ P l l') : ∀ (i : Nat) (h1 : i < l.length) (h2 : i < l'.length), P l[i] l'[i] := by
  induction h with
  | nil => intro i h1; simp at h1
  | cons hab _ ih =>
    intro i h1 h2
    cases i with
    | zero => exact hab
    | succ i => exact ih i (by simpa using h1) (by simpa using h2)

/-- `x.concatenate(zero).take(p)` is the looked-up parent value, the default for the world -/
theorem takeParent_eq (xs : List β) (d : β) (p : Int) (h1 : -1 ≤ p) (h2 : p < (xs.length : Int)) :
    takeParent xs d p = (parentOf xs p).getD d := by
  unfold takeParent parentOf
  simp only
  by_cases hneg : p < 0
  · have hp : p = -1 := by omega
    subst hp
    have hmod : (-1 : Int) % ((xs.length : Int) + 1) = (xs.length : Int) := by
      have h := Int.add_mul_emod_self_left (-1) ((xs.length : Int) + 1) 1
      rw [← h]
      have : (-1 : Int) + ((xs.length : Int) + 1) * 1 = (xs.length : Int) := by ring
      rw [this]
      exact Int.emod_eq_of_lt (by omega) (by omega)
    rw [hmod]
    simp [List.getD_eq_getElem?_getD]
  · have hmod : p % ((xs.length : Int) + 1) = p := Int.emod_eq_of_lt (by omega) (by omega)
    rw [hmod]
    simp only [hneg, if_false]
    have hlt : p.toNat < xs.length := by omega
    rw [List.getD_eq_getElem?_getD, List.getElem?_append_left hlt]

end lookup

/-! ## whole-system `cdofd` -/
section cdofdsys
variable {R : Type} [CommRing R]

theorem parentIdx_getElem? (ts : List LinkType) (ps : List Int) (i : Nat) (h1 : i < ts.length)
    (h2 : i < ps.length) :
    (parentIdx ts ps)[i]? = some (if ts[i] == .free then (i : Int) else ps[i]) := by
  unfold parentIdx
  rw [List.getElem?_map, List.getElem?_eq_getElem (by simp; omega)]
  simp

/-- **whole-system `cdofd`**: computing `cdofd` after the scan from `cd.take(parent_idx)` (as
`transform_com` does) equals MuJoCo's `cdof_dot` computed inside `mj_comVel`'s body loop -/
theorem cdofd_sys (ps : List Int) (ins : List (LinkIn R)) (cdof : List (List (Motion R))) (n : Nat)
    (hps : ps.length = n) (hins : ins.length = n) (hcdof : cdof.length = n)
    (hwf : PWF ps) (hlow : ∀ i : Nat, -1 ≤ ps.getD i (-1))
    (hok : ∀ x ∈ ps.zip (ins.zip cdof), CdOK x.1 x.2.1 x.2.2) :
    List.zipWith (fun (lp : LinkIn R × Int) (cc : List (Motion R) × List (Motion R)) =>
        cdofdLink lp.1.typ
          (takeParent (scanFwd cdStep ps
            (List.zipWith (fun cs (l : LinkIn R) => List.zipWith mulr cs l.qd) cdof ins)) Motion.zero lp.2)
          cc.1 cc.2)
      (ins.zip (parentIdx (ins.map (·.typ)) ps))
      (cdof.zip (List.zipWith (fun cs (l : LinkIn R) => List.zipWith mulr cs l.qd) cdof ins))
      = (scanFwd comVelStep ps (ins.zip cdof)).map Prod.fst := by
  rw [cd_eq_spec ps ins cdof hok]
  set cv := scanFwd comVelStep ps (ins.zip cdof) with hcv
  have hcvlen : cv.length = n := by rw [hcv, scanFwd_length]; simp [hps, hins, hcdof]
  have hlook := scanFwd_lookup comVelStep ps (ins.zip cdof) hwf
  rw [← hcv] at hlook
  have hpidx : (parentIdx (ins.map (·.typ)) ps).length = n := by
    rw [parentIdx_length _ _ (by simp [hps, hins])]; simp [hins]
  apply List.ext_getElem
  · simp [hpidx, hins, hcdof, hcvlen]
  · intro i h1 h2
    have hi : i < n := by simpa [hcvlen] using h2
    have hip : i < ps.length := by omega
    have hii : i < ins.length := by omega
    have hic : i < cdof.length := by omega
    simp only [List.getElem_zipWith, List.getElem_zip, List.getElem_map]
    -- the Spec side at `i`
    have hz : i < (ps.zip (ins.zip cdof)).length := by simp; omega
    have hrow := forall₂_getElem hlook i hz (by omega)
    simp only [List.getElem_zip] at hrow
    rw [hrow]
    have hokI : CdOK ps[i] ins[i] cdof[i] := by
      apply hok (ps[i], ins[i], cdof[i])
      rw [List.mem_iff_getElem]
      exact ⟨i, hz, by simp⟩
    have hpi : ps.getD i (-1) = ps[i] := by
      rw [List.getD_eq_getElem?_getD, List.getElem?_eq_getElem hip]; rfl
    have hlo : -1 ≤ ps[i] := by rw [← hpi]; exact hlow i
    have hhi : ps[i] < (i : Int) := by rw [← hpi]; exact hwf i
    unfold comVelStep
    simp only
    have hidx : (parentIdx (ins.map (·.typ)) ps)[i]'(by omega)
        = if ins[i].typ == .free then (i : Int) else ps[i] := by
      have := parentIdx_getElem? (ins.map (·.typ)) ps i (by simpa using hii) hip
      rw [List.getElem?_eq_getElem (by omega)] at this
      simpa using this
    by_cases hf : ins[i].typ = .free
    · -- free root link: `cdofdLink .free` does not read the parent velocity
      obtain ⟨hp, h6, h6'⟩ := hokI hf
      obtain ⟨c0, c1, c2, c3, c4, c5, hc⟩ := length6 cdof[i] h6
      obtain ⟨v0, v1, v2, v3, v4, v5, hv⟩ := length6 ins[i].qd h6'
      have hpar : parentOf cv ps[i] = none := by unfold parentOf; simp [hp]
      rw [hpar, hf, hc, hv]
      simp only [Option.map_none, Option.getD_none]
      rw [comVelBody_free]
      rfl
    · rw [comVelBody_axis _ hf]
      simp only
      congr 1
      have hne : (ins[i].typ == LinkType.free) = false := by
        cases ht : ins[i].typ <;> first | exact absurd ht hf | rfl
      rw [hidx, hne]
      simp only [Bool.false_eq_true, if_false]
      rw [takeParent_eq _ _ _ hlo (by simp only [List.length_map, hcvlen]; omega)]
      unfold parentOf
      by_cases hneg : ps[i] < 0
      · simp [hneg]
      · simp only [hneg, if_false, List.getElem?_map]

end cdofdsys
end Brax.Gd
