import Brax.Lemmas.C04PosRest
/-!
# C04 rest clause, positional pipeline, 2- and 3-dof links

`_three_dof_joint_update(jcalc q, *_sphericalize(…))` asks for no correction for the `PureStack` kinds.

The rotational core (`euler_dq_zero`) is one statement for an orthonormal right-handed joint frame
`(f0, f1, f0×f1)` with parity `σ = ±1` and the joint rotation `R(f0,ψ)·R(f1,θ)·R(σ f0×f1,φ)`:
the three limit axes / reference directions of `_three_dof_joint_update` reproduce `(ψ, θ, φ)` and
turning each first reference direction by its angle lands on the second one.  All six stack kinds
(and the 1-dof hinge) are instances (`φ = 0`, or `ψ = φ = 0`, or `ψ = θ = 0`).

**Middle angle.**  `a2n = normalize(a1 × p0)` has length `|sin θ|`; for `0 < |sin θ| ≤ 1e-8`
`safe_norm`'s `allclose` window makes it a *non-unit* vector and the correction of the middle axis is
then of size `≈ |sin θ|` instead of 0 (it is discarded later by the `safe_norm` of `_rotation_update`).
The theorems therefore ask for `θ = 0 ∨ 1e-7 < |sin θ|` (`MidOK`).
-/
set_option linter.unusedSectionVars false
set_option linter.unusedSimpArgs false
set_option linter.unusedVariables false
namespace Brax.C04L
open Brax MC

section euler

/-- the middle Euler angle is outside the `allclose` window of `normalize(a1 × p0)` -/
def MidOK (θ : ℝ) : Prop := θ = 0 ∨ 1e-7 < |Real.sin θ|

/-- clipping to the (padded) angle limit of the axis leaves the angle -/
def ClipOK (a : Positional.Axis3 ℝ) (ang : ℝ) : Prop :=
  clipO ang (if v3Any a.motion.vel then some 0 else a.lo)
    (if v3Any a.motion.vel then some 0 else a.hi) = ang

theorem limitAngle_fst (pos n n1 n2 : V3 ℝ) (a : Positional.Axis3 ℝ) (ang : ℝ)
    (hs : signedAngle n n1 n2 = ang) (hc : ClipOK a ang)
    (hr : rotate n1 (quatRotAxis n ang) = n2) :
    (Positional.limitAngle pos n n1 n2 a).1 = ⟨0, 0, 0⟩ := by
  unfold ClipOK at hc
  simp only [Positional.limitAngle, hs, hc, hr, cross_self_lit]

variable (f0 f1 : V3 ℝ) (h00 : V3.dot f0 f0 = 1) (h11 : V3.dot f1 f1 = 1) (h01 : V3.dot f0 f1 = 0)

include h00 h11 h01 in
/-- Rodrigues' formula in frame coordinates -/
theorem rotate_L_axis (a v : V3 ℝ) (α : ℝ) (ha : V3.dot a a = 1) :
    rotate (Inv.L f0 f1 v) (quatRotAxis (Inv.L f0 f1 a) α)
      = Inv.L f0 f1 ⟨Real.cos α * v.x + Real.sin α * (V3.cross a v).x + (1 - Real.cos α) * V3.dot a v * a.x,
          Real.cos α * v.y + Real.sin α * (V3.cross a v).y + (1 - Real.cos α) * V3.dot a v * a.y,
          Real.cos α * v.z + Real.sin α * (V3.cross a v).z + (1 - Real.cos α) * V3.dot a v * a.z⟩ := by
  rw [Inv.rotate_quatRotAxis _ _ α (by rw [Inv.L_dot f0 f1 h00 h11 h01]; exact ha),
    Inv.L_cross f0 f1 h00 h11 h01, Inv.L_dot f0 f1 h00 h11 h01]
  simp only [Inv.L]
  congr 1 <;> ring

/-- the line of nodes in coordinates -/
noncomputable def wv (ψ : ℝ) : V3 ℝ := ⟨0, Real.cos ψ, Real.sin ψ⟩
/-- the projected first axis in coordinates -/
noncomputable def uv (ψ θ : ℝ) : V3 ℝ := Inv.rx ψ (Inv.ry θ ⟨1, 0, 0⟩)
/-- the child axes in coordinates -/
noncomputable def kv (σ ψ θ φ : ℝ) (e : V3 ℝ) : V3 ℝ := Inv.rx ψ (Inv.ry θ (Inv.rz σ φ e))

/-- the joint rotation `R(f0,ψ)·R(f1,θ)·R(σ f0×f1,φ)` -/
noncomputable def eulerRot (σ ψ θ φ : ℝ) : Q4 ℝ :=
  quatMul (quatMul (quatRotAxis f0 ψ) (quatRotAxis f1 θ)) (quatRotAxis (Inv.L f0 f1 ⟨0, 0, σ⟩) φ)

include h00 h11 h01 in
/-- axis 0: the angle about `p0` between `p1` and the line of nodes is `ψ` -/
theorem euler_axis0 (ψ : ℝ) (h1 : -Real.pi < ψ) (h2 : ψ ≤ Real.pi) :
    signedAngle f0 f1 (Inv.L f0 f1 (wv ψ)) = ψ
      ∧ rotate f1 (quatRotAxis f0 ψ) = Inv.L f0 f1 (wv ψ) := by
  constructor
  · simp only [signedAngle]
    rw [Inv.cross_a1_L f0 f1 h00 h11 h01, Inv.dot_comm _ f0, Inv.dot_a0_L f0 f1 h00 h11 h01,
      Inv.dot_a1_L f0 f1 h00 h11 h01]
    exact Inv.atan2_sin_cos ψ h1 h2
  · conv_lhs => rw [← Inv.L_e1 f0 f1]
    rw [Inv.rotate_L_x f0 f1 h00 h11 h01]
    congr 1
    simp [Inv.rx, wv]

include h00 h11 h01 in
/-- axis 1, generic middle angle: about the line of nodes, from `p0` to the projected axis -/
theorem euler_axis1 (ψ θ : ℝ) (hθ : |θ| ≤ 6 / 5) :
    signedAngle (Inv.L f0 f1 (wv ψ)) f0 (Inv.L f0 f1 (uv ψ θ)) = θ
      ∧ rotate f0 (quatRotAxis (Inv.L f0 f1 (wv ψ)) θ) = Inv.L f0 f1 (uv ψ θ) := by
  have hcs0 := Real.sin_sq_add_cos_sq ψ
  have hpi := Real.two_le_pi
  have habs := abs_le.mp hθ
  constructor
  · simp only [signedAngle]
    have hcr := Inv.L_cross f0 f1 h00 h11 h01 ⟨1, 0, 0⟩ (uv ψ θ)
    have hdt := Inv.L_dot f0 f1 h00 h11 h01 ⟨1, 0, 0⟩ (uv ψ θ)
    rw [Inv.L_e0] at hcr hdt
    rw [hcr, hdt, Inv.L_dot f0 f1 h00 h11 h01]
    have hy : V3.dot (V3.cross ⟨1, 0, 0⟩ (uv ψ θ)) (wv ψ) = Real.sin θ := by
      simp only [uv, wv, Inv.rx, Inv.ry, V3.dot, V3.cross]
      linear_combination Real.sin θ * hcs0
    have hx : V3.dot (⟨1, 0, 0⟩ : V3 ℝ) (uv ψ θ) = Real.cos θ := by
      simp only [uv, Inv.rx, Inv.ry, V3.dot]; ring
    rw [hy, hx]
    exact Inv.atan2_sin_cos θ (by linarith) (by linarith)
  · have hr := rotate_L_axis f0 f1 h00 h11 h01 (wv ψ) ⟨1, 0, 0⟩ θ
      (by simp only [wv, V3.dot]; linear_combination hcs0)
    rw [Inv.L_e0] at hr
    rw [hr]
    congr 1
    simp only [uv, wv, Inv.rx, Inv.ry, V3.cross, V3.dot]
    congr 1 <;> ring

include h00 in
/-- axis 1 at `θ = 0`: the limit axis degenerates to the zero vector, nothing turns -/
theorem euler_axis1_zero (ψ : ℝ) :
    signedAngle (⟨0, 0, 0⟩ : V3 ℝ) f0 (Inv.L f0 f1 (uv ψ 0)) = 0
      ∧ rotate f0 (quatRotAxis (⟨0, 0, 0⟩ : V3 ℝ) 0) = Inv.L f0 f1 (uv ψ 0) := by
  have hu : uv ψ 0 = ⟨1, 0, 0⟩ := by simp [uv, Inv.rx, Inv.ry]
  rw [hu, Inv.L_e0]
  constructor
  · simp only [signedAngle, dot_zero_right_lit]
    have := Inv.atan2_sin_cos 0 (by linarith [Real.pi_pos]) (le_of_lt Real.pi_pos)
    rw [Real.sin_zero, Real.cos_zero] at this
    rw [h00]; exact this
  · rw [quatRotAxis_zero_angle, Inv.rotate_one]

include h00 h11 h01 in
/-- axis 2: about the third child axis (with parity), from the line of nodes to the second child axis -/
theorem euler_axis2 (σ ψ θ φ : ℝ) (hσ : σ * σ = 1) (h1 : -Real.pi < φ) (h2 : φ ≤ Real.pi) :
    signedAngle (Inv.L f0 f1 ⟨σ * (kv σ ψ θ φ ⟨0, 0, 1⟩).x, σ * (kv σ ψ θ φ ⟨0, 0, 1⟩).y,
        σ * (kv σ ψ θ φ ⟨0, 0, 1⟩).z⟩) (Inv.L f0 f1 (wv ψ)) (Inv.L f0 f1 (kv σ ψ θ φ ⟨0, 1, 0⟩)) = φ
    ∧ rotate (Inv.L f0 f1 (wv ψ)) (quatRotAxis (Inv.L f0 f1 ⟨σ * (kv σ ψ θ φ ⟨0, 0, 1⟩).x,
        σ * (kv σ ψ θ φ ⟨0, 0, 1⟩).y, σ * (kv σ ψ θ φ ⟨0, 0, 1⟩).z⟩) φ)
      = Inv.L f0 f1 (kv σ ψ θ φ ⟨0, 1, 0⟩) := by
  have hcs0 := Real.sin_sq_add_cos_sq ψ
  have hcs1 := Real.sin_sq_add_cos_sq θ
  constructor
  · simp only [signedAngle]
    rw [Inv.L_cross f0 f1 h00 h11 h01, Inv.L_dot f0 f1 h00 h11 h01, Inv.L_dot f0 f1 h00 h11 h01]
    have hy : V3.dot (V3.cross (wv ψ) (kv σ ψ θ φ ⟨0, 1, 0⟩)) ⟨σ * (kv σ ψ θ φ ⟨0, 0, 1⟩).x,
        σ * (kv σ ψ θ φ ⟨0, 0, 1⟩).y, σ * (kv σ ψ θ φ ⟨0, 0, 1⟩).z⟩ = Real.sin φ := by
      simp only [kv, wv, Inv.rx, Inv.ry, Inv.rz, V3.dot, V3.cross]
      linear_combination Real.sin φ * ((Real.sin ψ ^ 2 + Real.cos ψ ^ 2)
        * (Real.sin θ ^ 2 + Real.cos θ ^ 2) * hσ + (Real.sin θ ^ 2 + Real.cos θ ^ 2) * hcs0 + hcs1)
    have hx : V3.dot (wv ψ) (kv σ ψ θ φ ⟨0, 1, 0⟩) = Real.cos φ := by
      simp only [kv, wv, Inv.rx, Inv.ry, Inv.rz, V3.dot]
      linear_combination Real.cos φ * hcs0
    rw [hy, hx]
    exact Inv.atan2_sin_cos φ h1 h2
  · rw [rotate_L_axis f0 f1 h00 h11 h01 _ _ φ (by
      simp only [kv, Inv.rx, Inv.ry, Inv.rz, V3.dot]
      linear_combination (Real.sin θ ^ 2 + Real.cos θ ^ 2 * (Real.sin ψ ^ 2 + Real.cos ψ ^ 2)) * hσ
        + Real.cos θ ^ 2 * hcs0 + hcs1)]
    congr 1
    simp only [kv, wv, Inv.rx, Inv.ry, Inv.rz, V3.cross, V3.dot]
    congr 1
    · linear_combination (-(σ * Real.sin φ * Real.cos θ)) * hcs0
    · ring
    · ring

theorem smul_add_L (a b : ℝ) (p q : V3 ℝ) :
    V3.smul a (Inv.L f0 f1 p) + V3.smul b (Inv.L f0 f1 q)
      = Inv.L f0 f1 ⟨a * p.x + b * q.x, a * p.y + b * q.y, a * p.z + b * q.z⟩ := by
  simp only [Inv.L, V3.smul, V3.add_def]
  congr 1 <;> ring

include h00 h11 h01 in
/-- the projected first axis `a1 = normalize(d0 c0 + d1 c1)` -/
theorem euler_a1 (σ ψ θ φ : ℝ) (hσ : σ * σ = 1) (hθ : |θ| ≤ 6 / 5) :
    normalize3 (V3.smul (kv σ ψ θ φ ⟨1, 0, 0⟩).x (Inv.L f0 f1 (kv σ ψ θ φ ⟨1, 0, 0⟩))
        + V3.smul (kv σ ψ θ φ ⟨0, 1, 0⟩).x (Inv.L f0 f1 (kv σ ψ θ φ ⟨0, 1, 0⟩)))
      = Inv.L f0 f1 (uv ψ θ) := by
  have hcos := Inv.cos_ge_of_abs_le θ hθ
  have hcs0 := Real.sin_sq_add_cos_sq ψ
  have hcs1 := Real.sin_sq_add_cos_sq θ
  have hcs2 := Real.sin_sq_add_cos_sq φ
  rw [smul_add_L]
  have hraw : (⟨(kv σ ψ θ φ ⟨1, 0, 0⟩).x * (kv σ ψ θ φ ⟨1, 0, 0⟩).x
        + (kv σ ψ θ φ ⟨0, 1, 0⟩).x * (kv σ ψ θ φ ⟨0, 1, 0⟩).x,
      (kv σ ψ θ φ ⟨1, 0, 0⟩).x * (kv σ ψ θ φ ⟨1, 0, 0⟩).y
        + (kv σ ψ θ φ ⟨0, 1, 0⟩).x * (kv σ ψ θ φ ⟨0, 1, 0⟩).y,
      (kv σ ψ θ φ ⟨1, 0, 0⟩).x * (kv σ ψ θ φ ⟨1, 0, 0⟩).z
        + (kv σ ψ θ φ ⟨0, 1, 0⟩).x * (kv σ ψ θ φ ⟨0, 1, 0⟩).z⟩ : V3 ℝ)
      = ⟨Real.cos θ * (uv ψ θ).x, Real.cos θ * (uv ψ θ).y, Real.cos θ * (uv ψ θ).z⟩ := by
    simp only [kv, uv, Inv.rx, Inv.ry, Inv.rz]
    congr 1
    · linear_combination (Real.cos θ ^ 2) * ((Real.sin φ ^ 2) * hσ + hcs2)
    · linear_combination (Real.cos θ * Real.sin ψ * Real.sin θ) * ((Real.sin φ ^ 2) * hσ + hcs2)
    · linear_combination (-(Real.cos θ * Real.cos ψ * Real.sin θ)) * ((Real.sin φ ^ 2) * hσ + hcs2)
  have hunit : V3.dot (uv ψ θ) (uv ψ θ) = 1 := by
    simp only [uv, Inv.rx, Inv.ry, V3.dot]
    linear_combination hcs1 + (Real.sin θ ^ 2) * hcs0
  rw [hraw]
  exact Inv.normalize3_L_scale f0 f1 h00 h11 h01 _ _ hunit (by norm_num; linarith)

include h00 h11 h01 in
/-- the line of nodes `normalize(c2 × p0)` -/
theorem euler_lon (σ ψ θ φ : ℝ) (hθ : |θ| ≤ 6 / 5) :
    normalize3 (V3.cross (Inv.L f0 f1 (kv σ ψ θ φ ⟨0, 0, 1⟩)) f0) = Inv.L f0 f1 (wv ψ) := by
  have hcos := Inv.cos_ge_of_abs_le θ hθ
  have hcs0 := Real.sin_sq_add_cos_sq ψ
  rw [Inv.cross_L_a0 f0 f1 h00 h11 h01]
  have : (⟨0, (kv σ ψ θ φ ⟨0, 0, 1⟩).z, -(kv σ ψ θ φ ⟨0, 0, 1⟩).y⟩ : V3 ℝ)
      = ⟨Real.cos θ * (wv ψ).x, Real.cos θ * (wv ψ).y, Real.cos θ * (wv ψ).z⟩ := by
    simp only [kv, wv, Inv.rx, Inv.ry, Inv.rz]; congr 1 <;> ring
  rw [this]
  exact Inv.normalize3_L_scale f0 f1 h00 h11 h01 (Real.cos θ) (wv ψ)
    (by simp only [wv, V3.dot]; linear_combination hcs0) (by norm_num; linarith)

theorem normalize3_zero_lit : normalize3 (⟨0, 0, 0⟩ : V3 ℝ) = ⟨0, 0, 0⟩ := normalize3_zero

theorem sigma_cases (σ : ℝ) (hσ : σ * σ = 1) : σ = 1 ∨ σ = -1 := by
  have : (σ - 1) * (σ + 1) = 0 := by linear_combination hσ
  rcases mul_eq_zero.mp this with h | h
  · left; linarith
  · right; linarith

theorem signv_of_neg {s : ℝ} (h : s < 0) : signv s = -1 := by simp [signv, h]
theorem signv_of_pos {s : ℝ} (h : 0 < s) : signv s = 1 := by
  simp [signv, h, not_lt.mpr (le_of_lt h)]
theorem signv_sigma (σ s : ℝ) (hσ : σ * σ = 1) : signv (σ * s) * σ = signv s := by
  rcases sigma_cases σ hσ with rfl | rfl
  · simp
  · rcases lt_trichotomy s 0 with h | h | h
    · have : 0 < -1 * s := by linarith
      rw [signv_of_pos this, signv_of_neg h]; norm_num
    · subst h; simp [signv]
    · have : -1 * s < 0 := by linarith
      rw [signv_of_neg this, signv_of_pos h]; norm_num

theorem smul_neg_one_neg (v : V3 ℝ) : V3.smul (-1) (-v) = v := by cases v; simp [V3.smul]
theorem smul_one_lit (v : V3 ℝ) : V3.smul 1 v = v := by cases v; simp [V3.smul]

theorem neg_L (p : V3 ℝ) : -(Inv.L f0 f1 p) = Inv.L f0 f1 ⟨-p.x, -p.y, -p.z⟩ := by
  simp only [Inv.L, V3.neg_def]; congr 1 <;> ring

include h00 h11 h01 in
/-- the middle limit axis `sign(p0·c2)·parity · (−a2n)`: the line of nodes, or the zero vector at `θ = 0` -/
theorem euler_n1 (σ ψ θ φ : ℝ) (hσ : σ * σ = 1) (hθ : |θ| ≤ 6 / 5) (hmid : MidOK θ) :
    V3.smul (signv (V3.dot f0 ⟨(Inv.L f0 f1 (kv σ ψ θ φ ⟨0, 0, 1⟩)).x * σ,
        (Inv.L f0 f1 (kv σ ψ θ φ ⟨0, 0, 1⟩)).y * σ, (Inv.L f0 f1 (kv σ ψ θ φ ⟨0, 0, 1⟩)).z * σ⟩) * σ)
        (-(normalize3 (V3.cross (Inv.L f0 f1 (uv ψ θ)) f0)))
      = if θ = 0 then ⟨0, 0, 0⟩ else Inv.L f0 f1 (wv ψ) := by
  have hcs0 := Real.sin_sq_add_cos_sq ψ
  have hdot : V3.dot f0 ⟨(Inv.L f0 f1 (kv σ ψ θ φ ⟨0, 0, 1⟩)).x * σ,
      (Inv.L f0 f1 (kv σ ψ θ φ ⟨0, 0, 1⟩)).y * σ, (Inv.L f0 f1 (kv σ ψ θ φ ⟨0, 0, 1⟩)).z * σ⟩
      = σ * Real.sin θ := by
    have h := Inv.dot_a0_L f0 f1 h00 h11 h01 (kv σ ψ θ φ ⟨0, 0, 1⟩)
    have hx : (kv σ ψ θ φ ⟨0, 0, 1⟩).x = Real.sin θ := by simp [kv, Inv.rx, Inv.ry, Inv.rz]
    rw [hx] at h
    simp only [V3.dot] at h ⊢
    linear_combination σ * h
  rw [hdot, Inv.cross_L_a0 f0 f1 h00 h11 h01]
  by_cases h0 : θ = 0
  · subst h0
    have : (⟨0, (uv ψ 0).z, -(uv ψ 0).y⟩ : V3 ℝ) = ⟨0, 0, 0⟩ := by simp [uv, Inv.rx, Inv.ry]
    rw [this]
    have hL0 : Inv.L f0 f1 ⟨0, 0, 0⟩ = ⟨0, 0, 0⟩ := by simp [Inv.L]
    rw [hL0, normalize3_zero_lit]
    simp [V3.smul]
  · simp only [h0, if_false]
    have hs : 1e-7 < |Real.sin θ| := by
      rcases hmid with h | h
      · exact absurd h h0
      · exact h
    have hwu : V3.dot (wv ψ) (wv ψ) = 1 := by simp only [wv, V3.dot]; linear_combination hcs0
    rcases lt_or_ge (Real.sin θ) 0 with hneg | hpos
    · -- sin θ < 0
      have hk : 1e-7 < -Real.sin θ := by rwa [abs_of_neg hneg] at hs
      have hv : (⟨0, (uv ψ θ).z, -(uv ψ θ).y⟩ : V3 ℝ)
          = ⟨-Real.sin θ * (wv ψ).x, -Real.sin θ * (wv ψ).y, -Real.sin θ * (wv ψ).z⟩ := by
        simp only [uv, wv, Inv.rx, Inv.ry]; congr 1 <;> ring
      rw [hv, Inv.normalize3_L_scale f0 f1 h00 h11 h01 _ _ hwu hk]
      have hsg : signv (σ * Real.sin θ) * σ = -1 := by
        rw [signv_sigma σ _ hσ, signv_of_neg hneg]
      rw [hsg, smul_neg_one_neg]
    · -- sin θ > 0
      have hpos' : 0 < Real.sin θ := by
        rcases lt_or_eq_of_le hpos with h | h
        · exact h
        · rw [← h] at hs; norm_num at hs
      have hk : 1e-7 < Real.sin θ := by rwa [abs_of_pos hpos'] at hs
      have hv : (⟨0, (uv ψ θ).z, -(uv ψ θ).y⟩ : V3 ℝ)
          = ⟨Real.sin θ * (-(wv ψ).x), Real.sin θ * (-(wv ψ).y), Real.sin θ * (-(wv ψ).z)⟩ := by
        simp only [uv, wv, Inv.rx, Inv.ry]; congr 1 <;> ring
      have hwu' : V3.dot (⟨-(wv ψ).x, -(wv ψ).y, -(wv ψ).z⟩ : V3 ℝ) ⟨-(wv ψ).x, -(wv ψ).y, -(wv ψ).z⟩ = 1 := by
        simp only [wv, V3.dot]; linear_combination hcs0
      have := Inv.normalize3_L_scale f0 f1 h00 h11 h01 (Real.sin θ) ⟨-(wv ψ).x, -(wv ψ).y, -(wv ψ).z⟩ hwu' hk
      simp only at this
      rw [hv, this]
      have hsg : signv (σ * Real.sin θ) * σ = 1 := by
        rw [signv_sigma σ _ hσ, signv_of_pos hpos']
      rw [hsg, smul_one_lit, neg_L]
      simp only [neg_neg]

include h00 h11 h01 in
theorem euler_child (σ ψ θ φ : ℝ) (hσ : σ * σ = 1) :
    rotate f0 (eulerRot f0 f1 σ ψ θ φ) = Inv.L f0 f1 (kv σ ψ θ φ ⟨1, 0, 0⟩)
    ∧ rotate f1 (eulerRot f0 f1 σ ψ θ φ) = Inv.L f0 f1 (kv σ ψ θ φ ⟨0, 1, 0⟩)
    ∧ rotate (V3.cross f0 f1) (eulerRot f0 f1 σ ψ θ φ) = Inv.L f0 f1 (kv σ ψ θ φ ⟨0, 0, 1⟩) := by
  have hc0 := Inv.child_hhh f0 f1 h00 h11 h01 σ ψ θ φ hσ ⟨1, 0, 0⟩
  have hc1 := Inv.child_hhh f0 f1 h00 h11 h01 σ ψ θ φ hσ ⟨0, 1, 0⟩
  have hc2 := Inv.child_hhh f0 f1 h00 h11 h01 σ ψ θ φ hσ ⟨0, 0, 1⟩
  rw [Inv.L_e0] at hc0; rw [Inv.L_e1] at hc1; rw [Inv.L_e2] at hc2
  exact ⟨hc0, hc1, hc2⟩

include h00 h11 h01 in
/-- **rotational core**: for the joint rotation `R(f0,ψ)·R(f1,θ)·R(σ f0×f1,φ)` in the frame
`(f0, f1, f0×f1)` with parity `σ`, and three axes whose (padded) limits contain `ψ, θ, φ`, the
rotational correction of `_three_dof_joint_update` vanishes -/
theorem euler_dq_zero (σ ψ θ φ : ℝ) (hσ : σ * σ = 1)
    (hψ : -Real.pi < ψ) (hψ' : ψ ≤ Real.pi) (hθ : |θ| ≤ 6 / 5) (hmid : MidOK θ)
    (hφ : -Real.pi < φ) (hφ' : φ ≤ Real.pi) (p : V3 ℝ) (velF : M3 ℝ)
    (ax0 ax1 ax2 : Positional.Axis3 ℝ) (hc0 : ClipOK ax0 ψ) (hc1 : ClipOK ax1 θ) (hc2 : ClipOK ax2 φ) :
    (Positional.threeDofJointUpdate ⟨p, eulerRot f0 f1 σ ψ θ φ⟩ [ax0, ax1, ax2]
      ⟨⟨f0, f1, V3.cross f0 f1⟩, velF, σ⟩).2 = ⟨0, 0, 0⟩ := by
  obtain ⟨hk0, hk1, hk2⟩ := euler_child f0 f1 h00 h11 h01 σ ψ θ φ hσ
  have hlon := euler_lon f0 f1 h00 h11 h01 σ ψ θ φ hθ
  have ha1 := euler_a1 f0 f1 h00 h11 h01 σ ψ θ φ hσ hθ
  have hn1 := euler_n1 f0 f1 h00 h11 h01 σ ψ θ φ hσ hθ hmid
  obtain ⟨hs0, hr0⟩ := euler_axis0 f0 f1 h00 h11 h01 ψ hψ hψ'
  obtain ⟨hs2, hr2⟩ := euler_axis2 f0 f1 h00 h11 h01 σ ψ θ φ hσ hφ hφ'
  have hC2 : (⟨(Inv.L f0 f1 (kv σ ψ θ φ ⟨0, 0, 1⟩)).x * σ, (Inv.L f0 f1 (kv σ ψ θ φ ⟨0, 0, 1⟩)).y * σ,
      (Inv.L f0 f1 (kv σ ψ θ φ ⟨0, 0, 1⟩)).z * σ⟩ : V3 ℝ)
      = Inv.L f0 f1 ⟨σ * (kv σ ψ θ φ ⟨0, 0, 1⟩).x, σ * (kv σ ψ θ φ ⟨0, 0, 1⟩).y,
          σ * (kv σ ψ θ φ ⟨0, 0, 1⟩).z⟩ := by
    rw [Inv.L_scale]; congr 1 <;> ring
  unfold Positional.threeDofJointUpdate
  simp only [axisAngleAng, hk0, hk1, hk2, hlon, Inv.dot_a0_L f0 f1 h00 h11 h01, ha1]
  simp only [show List.range 3 = [0, 1, 2] from rfl, List.map_cons, List.map_nil, nth,
    List.getD_cons_zero, List.getD_cons_succ]
  rw [hn1]
  rw [limitAngle_fst p f0 f1 _ ax0 ψ hs0 hc0 hr0]
  rw [hC2, limitAngle_fst p _ _ _ ax2 φ hs2 hc2 hr2]
  by_cases h0 : θ = 0
  · subst h0
    obtain ⟨hs1, hr1⟩ := euler_axis1_zero f0 f1 h00 ψ
    simp only [if_true]
    rw [limitAngle_fst p _ f0 _ ax1 0 hs1 hc1 hr1]
    simp only [sumV3_zero, smul_zero_lit]
  · obtain ⟨hs1, hr1⟩ := euler_axis1 f0 f1 h00 h11 h01 ψ θ hθ
    simp only [h0, if_false]
    rw [limitAngle_fst p _ f0 _ ax1 θ hs1 hc1 hr1]
    simp only [sumV3_zero, smul_zero_lit]

end euler

/-! ## the translational part -/
section transl

theorem eqZero_false {a : ℝ} (h : a ≠ 0) : eqZero a = false := by
  rw [Bool.eq_false_iff]; intro hc; exact h ((eqZero_iff a).mp hc)
theorem eqZero_zero : eqZero (0 : ℝ) = true := (eqZero_iff 0).mpr rfl

/-- the coordinate-wise prismatic mask removes exactly the coordinates of `Σ q_i v_i` that can be
non-zero -/
theorem maskS_any3 (a b c q0 q1 q2 : ℝ) :
    maskS (!(!eqZero a || (!eqZero b || (!eqZero c || false)))) (-(q0 * a + q1 * b + q2 * c)) = 0 := by
  by_cases ha : a = 0 <;> by_cases hb : b = 0 <;> by_cases hc : c = 0
  all_goals first
    | (subst ha; subst hb; subst hc; simp [maskS, eqZero_zero])
    | (simp [maskS, eqZero_false, eqZero_zero, *])

/-- what an axis must satisfy for the translational correction along it to vanish: not a slide, or a
unit slide axis whose coordinate `q` is inside the limits -/
def SlideOK (a : Positional.Axis3 ℝ) (q : ℝ) : Prop :=
  a.motion.vel = ⟨0, 0, 0⟩ ∨ (V3.dot a.motion.vel a.motion.vel = 1 ∧ clipO q a.lo a.hi = q)

theorem limitAngle_snd (pos n n1 n2 : V3 ℝ) (a : Positional.Axis3 ℝ) (q : ℝ)
    (h : SlideOK a q) (hq : a.motion.vel ≠ ⟨0, 0, 0⟩ → V3.dot a.motion.vel pos = q) :
    (Positional.limitAngle pos n n1 n2 a).2 = ⟨0, 0, 0⟩ := by
  simp only [Positional.limitAngle]
  rcases h with h | ⟨_, h⟩
  · rw [h]; simp only [smul_zero_lit, maskV_zero_lit]
  · by_cases hv : a.motion.vel = ⟨0, 0, 0⟩
    · rw [hv]; simp only [smul_zero_lit, maskV_zero_lit]
    · rw [hq hv, h, sub_self, zsmul_lit, maskV_zero_lit]

/-- **translational part**: pairwise orthogonal slide axes (or zero), offset `Σ q_i v_i`, coordinates
inside the limits ⇒ the translational correction of `_three_dof_joint_update` vanishes -/
theorem threeDof_dx_zero (rot : Q4 ℝ) (fr : JointFrame ℝ) (a0 a1 a2 : Positional.Axis3 ℝ)
    (q0 q1 q2 : ℝ)
    (h01 : V3.dot a0.motion.vel a1.motion.vel = 0) (h02 : V3.dot a0.motion.vel a2.motion.vel = 0)
    (h12 : V3.dot a1.motion.vel a2.motion.vel = 0)
    (hs0 : SlideOK a0 q0) (hs1 : SlideOK a1 q1) (hs2 : SlideOK a2 q2) :
    (Positional.threeDofJointUpdate
      ⟨⟨q0 * a0.motion.vel.x + q1 * a1.motion.vel.x + q2 * a2.motion.vel.x,
        q0 * a0.motion.vel.y + q1 * a1.motion.vel.y + q2 * a2.motion.vel.y,
        q0 * a0.motion.vel.z + q1 * a1.motion.vel.z + q2 * a2.motion.vel.z⟩, rot⟩
      [a0, a1, a2] fr).1 = ⟨0, 0, 0⟩ := by
  have unit_of : ∀ (a : Positional.Axis3 ℝ) (q : ℝ), SlideOK a q → a.motion.vel ≠ ⟨0, 0, 0⟩ →
      V3.dot a.motion.vel a.motion.vel = 1 := by
    intro a q h hv
    rcases h with h | h
    · exact absurd h hv
    · exact h.1
  unfold Positional.threeDofJointUpdate
  simp only [show List.range 3 = [0, 1, 2] from rfl, List.map_cons, List.map_nil, nth,
    List.getD_cons_zero, List.getD_cons_succ]
  rw [limitAngle_snd _ _ _ _ a0 q0 hs0 (by
        intro hv; have hu := unit_of a0 q0 hs0 hv
        simp only [V3.dot] at hu h01 h02 ⊢
        linear_combination q0 * hu + q1 * h01 + q2 * h02),
    limitAngle_snd _ _ _ _ a1 q1 hs1 (by
        intro hv; have hu := unit_of a1 q1 hs1 hv
        simp only [V3.dot] at hu h01 h12 ⊢
        linear_combination q0 * h01 + q1 * hu + q2 * h12),
    limitAngle_snd _ _ _ _ a2 q2 hs2 (by
        intro hv; have hu := unit_of a2 q2 hs2 hv
        simp only [V3.dot] at hu h02 h12 ⊢
        linear_combination q0 * h02 + q1 * h12 + q2 * hu)]
  simp only [sumV3_zero, sub_zero_lit, List.any_cons, List.any_nil, V3.neg_def, maskS_any3]

end transl

/-! ## the sphericalized axes of a link -/
section kinds

/-- a link's own axis as `_sphericalize` hands it over -/
def ownAxis (hasLimit : Bool) (d : DofP ℝ) : Positional.Axis3 ℝ :=
  if hasLimit then ⟨d.lo, d.hi, d.motion⟩ else ⟨none, none, d.motion⟩

theorem ownAxis_motion (hl : Bool) (d : DofP ℝ) : (ownAxis hl d).motion = d.motion := by
  cases hl <;> rfl

theorem ownAxis_clip (hl : Bool) (d : DofP ℝ) (q : ℝ) (hin : hl = true → InLim q d.lo d.hi) :
    clipO q (ownAxis hl d).lo (ownAxis hl d).hi = q := by
  cases hl
  · rfl
  · exact clipO_inside q d.lo d.hi (hin rfl)

theorem clipOK_hinge (hl : Bool) (d : DofP ℝ) (q : ℝ) (hv : d.motion.vel = ⟨0, 0, 0⟩)
    (hin : hl = true → InLim q d.lo d.hi) : ClipOK (ownAxis hl d) q := by
  unfold ClipOK
  rw [ownAxis_motion, hv, v3Any_zero_lit]
  exact ownAxis_clip hl d q hin

theorem clipOK_slide (hl : Bool) (d : DofP ℝ) (he : V3.dot d.motion.vel d.motion.vel = 1) :
    ClipOK (ownAxis hl d) 0 := by
  unfold ClipOK
  rw [ownAxis_motion, v3Any_unit _ he]
  exact clipO_zero_zero 0

theorem clipOK_pad : ClipOK padAxis 0 := by
  unfold ClipOK padAxis
  simp only [v3Any_zero0]
  exact clipO_zero_zero 0

theorem slideOK_hinge (hl : Bool) (d : DofP ℝ) (q : ℝ) (hv : d.motion.vel = ⟨0, 0, 0⟩) :
    SlideOK (ownAxis hl d) q := by
  left; rw [ownAxis_motion, hv]

theorem slideOK_slide (hl : Bool) (d : DofP ℝ) (q : ℝ) (he : V3.dot d.motion.vel d.motion.vel = 1)
    (hin : hl = true → InLim q d.lo d.hi) : SlideOK (ownAxis hl d) q := by
  right; rw [ownAxis_motion]; exact ⟨he, ownAxis_clip hl d q hin⟩

theorem slideOK_pad (q : ℝ) : SlideOK padAxis q := Or.inl rfl

theorem sphericalize_two (hl : Bool) (l : Kin.LinkIn ℝ) (d0 d1 : DofP ℝ) (ht : l.typ = .two)
    (hd : l.dofs = [d0, d1]) :
    Positional.sphericalize hl l
      = ([ownAxis hl d0, ownAxis hl d1, padAxis], frame2 d0.motion d1.motion) := by
  unfold Positional.sphericalize padAxis ownAxis
  rw [ht, hd]
  rfl

theorem sphericalize_three (hl : Bool) (l : Kin.LinkIn ℝ) (d0 d1 d2 : DofP ℝ) (ht : l.typ = .three)
    (hd : l.dofs = [d0, d1, d2]) :
    Positional.sphericalize hl l
      = ([ownAxis hl d0, ownAxis hl d1, ownAxis hl d2], frame3 d0.motion d1.motion d2.motion) := by
  unfold Positional.sphericalize ownAxis
  rw [ht, hd]
  rfl

theorem eulerRot_phi0 (f0 f1 : V3 ℝ) (σ ψ θ : ℝ) :
    eulerRot f0 f1 σ ψ θ 0 = quatMul (quatRotAxis f0 ψ) (quatRotAxis f1 θ) := by
  unfold eulerRot
  rw [quatRotAxis_zero_angle]
  exact quatMul_one _

theorem eulerRot_mid (f0 f1 : V3 ℝ) (σ θ : ℝ) :
    eulerRot f0 f1 σ 0 θ 0 = quatRotAxis f1 θ := by
  rw [eulerRot_phi0, quatRotAxis_zero_angle]
  exact Inv.quatMul_one_left _

theorem eulerRot_last (f0 f1 : V3 ℝ) (φ : ℝ) :
    eulerRot f0 f1 1 0 0 φ = quatRotAxis (V3.cross f0 f1) φ := by
  unfold eulerRot
  rw [quatRotAxis_zero_angle, quatRotAxis_zero_angle, Inv.quatMul_one_left, Inv.quatMul_one_left,
    ← Inv.L_e2 f0 f1]

theorem midOK_zero : MidOK 0 := Or.inl rfl
theorem pi_bounds : -Real.pi < 0 ∧ (0 : ℝ) ≤ Real.pi := ⟨by linarith [Real.pi_pos], le_of_lt Real.pi_pos⟩
theorem abs_zero_le : |(0 : ℝ)| ≤ 6 / 5 := by rw [abs_zero]; norm_num

theorem frame_eta (fr : JointFrame ℝ) (A : M3 ℝ) (σ : ℝ) (h1 : fr.ang = A) (h2 : fr.parity = σ) :
    fr = ⟨A, fr.vel, σ⟩ := by
  cases fr; simp only at h1 h2; rw [h1, h2]

/-- the middle dof of a stack is a slide, or its angle is outside the `allclose` window (`MidOK`) -/
def StackMid (lq : Kin.LinkIn ℝ) : Prop :=
  ∀ d1 q1, lq.dofs[1]? = some d1 → lq.q[1]? = some q1 → d1.motion.ang = ⟨0, 0, 0⟩ ∨ MidOK q1

theorem midOK_of_stackMid {lq : Kin.LinkIn ℝ} (h : StackMid lq) (d1 : DofP ℝ) (q1 : ℝ) (a : V3 ℝ)
    (hd : lq.dofs[1]? = some d1) (hq : lq.q[1]? = some q1) (hm : d1.motion.ang = a)
    (ha : V3.dot a a = 1) : MidOK q1 := by
  rcases h d1 q1 hd hq with h0 | h0
  · rw [hm] at h0; rw [h0] at ha; simp [V3.dot] at ha
  · exact h0

/-- two hinges -/
theorem threeDof_hh (hl : Bool) (d0 d1 : DofP ℝ) (a0 a1 : V3 ℝ) (q0 q1 qd0 qd1 : ℝ)
    (hd0 : d0.motion = ⟨a0, ⟨0, 0, 0⟩⟩) (hd1 : d1.motion = ⟨a1, ⟨0, 0, 0⟩⟩)
    (h00 : V3.dot a0 a0 = 1) (h11 : V3.dot a1 a1 = 1) (h01 : V3.dot a0 a1 = 0)
    (hq0 : -Real.pi < q0) (hq0' : q0 ≤ Real.pi) (hq1 : |q1| ≤ 6 / 5) (hmid : MidOK q1)
    (hl0 : hl = true → InLim q0 d0.lo d0.hi) (hl1 : hl = true → InLim q1 d1.lo d1.hi) :
    Positional.threeDofJointUpdate (Kin.jcalc ⟨.two, [q0, q1], [qd0, qd1], [d0, d1]⟩).1
      [ownAxis hl d0, ownAxis hl d1, padAxis] (frame2 d0.motion d1.motion) = (⟨0, 0, 0⟩, ⟨0, 0, 0⟩) := by
  have hA0 := v3Any_unit a0 h00
  have hA1 := v3Any_unit a1 h11
  have hfr : frame2 d0.motion d1.motion = ⟨⟨a0, a1, V3.cross a0 a1⟩, eye, 1⟩ := by
    simp [frame2, hd0, hd1, hA0, hA1, v3Any_zero_lit]
  have hv0 : d0.motion.vel = ⟨0, 0, 0⟩ := by rw [hd0]
  have hv1 : d1.motion.vel = ⟨0, 0, 0⟩ := by rw [hd1]
  rw [Inv.jcalc_two_hinges d0 d1 a0 a1 q0 q1 qd0 qd1 hd0 hd1 h00 h11, hfr, ← eulerRot_phi0 a0 a1 1]
  apply Prod.ext
  · have := threeDof_dx_zero (eulerRot a0 a1 1 q0 q1 0) ⟨⟨a0, a1, V3.cross a0 a1⟩, eye, 1⟩
      (ownAxis hl d0) (ownAxis hl d1) padAxis 0 0 0
      (by simp [ownAxis_motion, hv0, V3.dot]) (by simp [ownAxis_motion, hv0, V3.dot])
      (by simp [ownAxis_motion, hv1, V3.dot])
      (slideOK_hinge hl d0 0 hv0) (slideOK_hinge hl d1 0 hv1) (slideOK_pad 0)
    simpa using this
  · exact euler_dq_zero a0 a1 h00 h11 h01 1 q0 q1 0 (by norm_num) hq0 hq0' hq1 hmid pi_bounds.1
      pi_bounds.2 _ _ _ _ _ (clipOK_hinge hl d0 q0 hv0 hl0) (clipOK_hinge hl d1 q1 hv1 hl1) clipOK_pad

/-- three hinges, either handedness -/
theorem threeDof_hhh (hl : Bool) (d0 d1 d2 : DofP ℝ) (a0 a1 a2 : V3 ℝ) (q0 q1 q2 qd0 qd1 qd2 : ℝ)
    (hd0 : d0.motion = ⟨a0, ⟨0, 0, 0⟩⟩) (hd1 : d1.motion = ⟨a1, ⟨0, 0, 0⟩⟩)
    (hd2 : d2.motion = ⟨a2, ⟨0, 0, 0⟩⟩)
    (h00 : V3.dot a0 a0 = 1) (h11 : V3.dot a1 a1 = 1) (h01 : V3.dot a0 a1 = 0)
    (h2 : a2 = V3.cross a0 a1 ∨ a2 = -V3.cross a0 a1)
    (hq0 : -Real.pi < q0) (hq0' : q0 ≤ Real.pi) (hq1 : |q1| ≤ 6 / 5) (hmid : MidOK q1)
    (hq2 : -Real.pi < q2) (hq2' : q2 ≤ Real.pi)
    (hl0 : hl = true → InLim q0 d0.lo d0.hi) (hl1 : hl = true → InLim q1 d1.lo d1.hi)
    (hl2 : hl = true → InLim q2 d2.lo d2.hi) :
    Positional.threeDofJointUpdate
      (Kin.jcalc ⟨.three, [q0, q1, q2], [qd0, qd1, qd2], [d0, d1, d2]⟩).1
      [ownAxis hl d0, ownAxis hl d1, ownAxis hl d2] (frame3 d0.motion d1.motion d2.motion)
      = (⟨0, 0, 0⟩, ⟨0, 0, 0⟩) := by
  obtain ⟨σ, hσ, ha2⟩ : ∃ σ : ℝ, σ * σ = 1 ∧ a2 = Inv.L a0 a1 ⟨0, 0, σ⟩ := by
    rcases h2 with h | h
    · exact ⟨1, by norm_num, by rw [h]; simp [Inv.L]⟩
    · exact ⟨-1, by norm_num, by rw [h]; simp [Inv.L, V3.neg_def]⟩
  have h22 : V3.dot a2 a2 = 1 := by rw [ha2, Inv.L_dot a0 a1 h00 h11 h01]; simp [V3.dot, hσ]
  have hA0 := v3Any_unit a0 h00
  have hA1 := v3Any_unit a1 h11
  have hA2 := v3Any_unit a2 h22
  have hpar : V3.dot (V3.cross a0 a1) a2 = σ := by
    rw [ha2, ← Inv.L_e2 a0 a1, Inv.L_dot a0 a1 h00 h11 h01]; simp [V3.dot]
  have hfa : (frame3 d0.motion d1.motion d2.motion).ang = ⟨a0, a1, V3.cross a0 a1⟩ := by
    simp [frame3, hd0, hd1, hd2, hA0, hA1, hA2, v3Any_zero_lit]
  have hfp : (frame3 d0.motion d1.motion d2.motion).parity = σ := by
    simp [frame3, hd0, hd1, hd2, hA0, hA1, hA2, v3Any_zero_lit, hpar]
  have hv0 : d0.motion.vel = ⟨0, 0, 0⟩ := by rw [hd0]
  have hv1 : d1.motion.vel = ⟨0, 0, 0⟩ := by rw [hd1]
  have hv2 : d2.motion.vel = ⟨0, 0, 0⟩ := by rw [hd2]
  rw [Inv.jcalc_three_hinges d0 d1 d2 a0 a1 a2 q0 q1 q2 qd0 qd1 qd2 hd0 hd1 hd2 h00 h11 h22,
    frame_eta _ _ _ hfa hfp, ha2]
  show Positional.threeDofJointUpdate ⟨⟨0, 0, 0⟩, eulerRot a0 a1 σ q0 q1 q2⟩ _ _ = _
  apply Prod.ext
  · have := threeDof_dx_zero (eulerRot a0 a1 σ q0 q1 q2)
      ⟨⟨a0, a1, V3.cross a0 a1⟩, (frame3 d0.motion d1.motion d2.motion).vel, σ⟩
      (ownAxis hl d0) (ownAxis hl d1) (ownAxis hl d2) 0 0 0
      (by simp [ownAxis_motion, hv0, V3.dot]) (by simp [ownAxis_motion, hv0, V3.dot])
      (by simp [ownAxis_motion, hv1, V3.dot])
      (slideOK_hinge hl d0 0 hv0) (slideOK_hinge hl d1 0 hv1) (slideOK_hinge hl d2 0 hv2)
    simpa using this
  · exact euler_dq_zero a0 a1 h00 h11 h01 σ q0 q1 q2 hσ hq0 hq0' hq1 hmid hq2 hq2' _ _ _ _ _
      (clipOK_hinge hl d0 q0 hv0 hl0) (clipOK_hinge hl d1 q1 hv1 hl1) (clipOK_hinge hl d2 q2 hv2 hl2)

/-- slide then hinge -/
theorem threeDof_sh (hl : Bool) (ds dh : DofP ℝ) (e a : V3 ℝ) (q0 q1 qd0 qd1 : ℝ)
    (hs : ds.motion = ⟨⟨0, 0, 0⟩, e⟩) (hh : dh.motion = ⟨a, ⟨0, 0, 0⟩⟩)
    (hee : V3.dot e e = 1) (haa : V3.dot a a = 1) (hq0 : |q0| ≤ 2) (hq1 : |q1| ≤ 6 / 5)
    (hmid : MidOK q1)
    (hl0 : hl = true → InLim q0 ds.lo ds.hi) (hl1 : hl = true → InLim q1 dh.lo dh.hi) :
    Positional.threeDofJointUpdate (Kin.jcalc ⟨.two, [q0, q1], [qd0, qd1], [ds, dh]⟩).1
      [ownAxis hl ds, ownAxis hl dh, padAxis] (frame2 ds.motion dh.motion) = (⟨0, 0, 0⟩, ⟨0, 0, 0⟩) := by
  have hA := v3Any_unit a haa
  have hE := v3Any_unit e hee
  obtain ⟨hb, hab, hc⟩ := Inv.orthogonals_spec a haa
  set b := (Inv.orthogonals a).1 with hbdef
  have hfa : (frame2 ds.motion dh.motion).ang = ⟨V3.cross a b, a, V3.cross (V3.cross a b) a⟩ := by
    rw [Inv.cross_cross_a a b haa hab]
    simp [frame2, hs, hh, hA, hE, v3Any_zero_lit, orth_eq, hc, Inv.cross_cross_a a _ haa hab, ← hbdef]
  have hfp : (frame2 ds.motion dh.motion).parity = 1 := rfl
  have hf00 : V3.dot (V3.cross a b) (V3.cross a b) = 1 := Inv.cross_unit_normSq a b haa hb hab
  have hf01 : V3.dot (V3.cross a b) a = 0 := by rw [Inv.dot_comm]; exact Inv.dot_cross_self_left a b
  have hvs : ds.motion.vel = e := by rw [hs]
  have hvh : dh.motion.vel = ⟨0, 0, 0⟩ := by rw [hh]
  rw [Inv.jcalc_slide_hinge ds dh a e q0 q1 qd0 qd1 hs hh haa hq0, frame_eta _ _ _ hfa hfp]
  simp only
  rw [← eulerRot_mid (V3.cross a b) a 1 q1]
  apply Prod.ext
  · have := threeDof_dx_zero (eulerRot (V3.cross a b) a 1 0 q1 0)
      ⟨⟨V3.cross a b, a, V3.cross (V3.cross a b) a⟩, (frame2 ds.motion dh.motion).vel, 1⟩
      (ownAxis hl ds) (ownAxis hl dh) padAxis q0 0 0
      (by simp [ownAxis_motion, hvh, V3.dot]) (by simp [padAxis, V3.dot])
      (by simp [padAxis, V3.dot])
      (slideOK_slide hl ds q0 (by rw [hvs]; exact hee) hl0) (slideOK_hinge hl dh 0 hvh) (slideOK_pad 0)
    have hp : (⟨e.x * q0, e.y * q0, e.z * q0⟩ : V3 ℝ)
        = ⟨q0 * (ownAxis hl ds).motion.vel.x + 0 * (ownAxis hl dh).motion.vel.x + 0 * padAxis.motion.vel.x,
           q0 * (ownAxis hl ds).motion.vel.y + 0 * (ownAxis hl dh).motion.vel.y + 0 * padAxis.motion.vel.y,
           q0 * (ownAxis hl ds).motion.vel.z + 0 * (ownAxis hl dh).motion.vel.z + 0 * padAxis.motion.vel.z⟩ := by
      simp only [ownAxis_motion, hvs]; congr 1 <;> ring
    rw [hp]; exact this
  · exact euler_dq_zero (V3.cross a b) a hf00 haa hf01 1 0 q1 0 (by norm_num) pi_bounds.1 pi_bounds.2
      hq1 hmid pi_bounds.1 pi_bounds.2 _ _ _ _ _
      (clipOK_slide hl ds (by rw [hvs]; exact hee)) (clipOK_hinge hl dh q1 hvh hl1) clipOK_pad

/-- two slides then a hinge -/
theorem threeDof_ssh (hl : Bool) (d0 d1 dh : DofP ℝ) (e0 e1 a : V3 ℝ) (q0 q1 q2 qd0 qd1 qd2 : ℝ)
    (h0 : d0.motion = ⟨⟨0, 0, 0⟩, e0⟩) (h1 : d1.motion = ⟨⟨0, 0, 0⟩, e1⟩)
    (hh : dh.motion = ⟨a, ⟨0, 0, 0⟩⟩)
    (h00 : V3.dot e0 e0 = 1) (h11 : V3.dot e1 e1 = 1) (h01 : V3.dot e0 e1 = 0)
    (haa : V3.dot a a = 1) (hq0 : |q0| ≤ 2) (hq1 : |q1| ≤ 2)
    (hq2 : -Real.pi < q2) (hq2' : q2 ≤ Real.pi)
    (hl0 : hl = true → InLim q0 d0.lo d0.hi) (hl1 : hl = true → InLim q1 d1.lo d1.hi)
    (hl2 : hl = true → InLim q2 dh.lo dh.hi) :
    Positional.threeDofJointUpdate
      (Kin.jcalc ⟨.three, [q0, q1, q2], [qd0, qd1, qd2], [d0, d1, dh]⟩).1
      [ownAxis hl d0, ownAxis hl d1, ownAxis hl dh] (frame3 d0.motion d1.motion dh.motion)
      = (⟨0, 0, 0⟩, ⟨0, 0, 0⟩) := by
  have hA := v3Any_unit a haa
  have hE := v3Any_unit e0 h00
  obtain ⟨hb, hab, hc⟩ := Inv.orthogonals_spec a haa
  set b := (Inv.orthogonals a).1 with hbdef
  have hfa : (frame3 d0.motion d1.motion dh.motion).ang
      = ⟨b, V3.cross a b, V3.cross b (V3.cross a b)⟩ := by
    rw [Inv.cross_b_cross a b hb hab]
    simp [frame3, h0, h1, hh, hA, hE, v3Any_zero_lit, orth_eq, hc, Inv.cross_b_cross a _ hb hab, ← hbdef]
  have hfp : (frame3 d0.motion d1.motion dh.motion).parity = 1 := by
    simp [frame3, h0, h1, hh, hA, hE, v3Any_zero_lit]
  have hf11 : V3.dot (V3.cross a b) (V3.cross a b) = 1 := Inv.cross_unit_normSq a b haa hb hab
  have hf01 : V3.dot b (V3.cross a b) = 0 := Inv.dot_cross_self_right a b
  have hv0 : d0.motion.vel = e0 := by rw [h0]
  have hv1 : d1.motion.vel = e1 := by rw [h1]
  have hvh : dh.motion.vel = ⟨0, 0, 0⟩ := by rw [hh]
  have hrot : quatRotAxis a q2 = eulerRot b (V3.cross a b) 1 0 0 q2 := by
    rw [eulerRot_last, Inv.cross_b_cross a b hb hab]
  rw [Inv.jcalc_slide_slide_hinge d0 d1 dh a e0 e1 q0 q1 q2 qd0 qd1 qd2 h0 h1 hh haa hq0 hq1,
    frame_eta _ _ _ hfa hfp]
  simp only
  rw [hrot]
  apply Prod.ext
  · have := threeDof_dx_zero (eulerRot b (V3.cross a b) 1 0 0 q2)
      ⟨⟨b, V3.cross a b, V3.cross b (V3.cross a b)⟩, (frame3 d0.motion d1.motion dh.motion).vel, 1⟩
      (ownAxis hl d0) (ownAxis hl d1) (ownAxis hl dh) q0 q1 0
      (by rw [ownAxis_motion, ownAxis_motion, hv0, hv1]; exact h01)
      (by simp [ownAxis_motion, hvh, V3.dot]) (by simp [ownAxis_motion, hvh, V3.dot])
      (slideOK_slide hl d0 q0 (by rw [hv0]; exact h00) hl0)
      (slideOK_slide hl d1 q1 (by rw [hv1]; exact h11) hl1) (slideOK_hinge hl dh 0 hvh)
    have hp : (⟨e0.x * q0 + e1.x * q1, e0.y * q0 + e1.y * q1, e0.z * q0 + e1.z * q1⟩ : V3 ℝ)
        = ⟨q0 * (ownAxis hl d0).motion.vel.x + q1 * (ownAxis hl d1).motion.vel.x
              + 0 * (ownAxis hl dh).motion.vel.x,
           q0 * (ownAxis hl d0).motion.vel.y + q1 * (ownAxis hl d1).motion.vel.y
              + 0 * (ownAxis hl dh).motion.vel.y,
           q0 * (ownAxis hl d0).motion.vel.z + q1 * (ownAxis hl d1).motion.vel.z
              + 0 * (ownAxis hl dh).motion.vel.z⟩ := by
      simp only [ownAxis_motion, hv0, hv1]; congr 1 <;> ring
    rw [hp]; exact this
  · exact euler_dq_zero b (V3.cross a b) hb hf11 hf01 1 0 0 q2 (by norm_num) pi_bounds.1 pi_bounds.2
      abs_zero_le midOK_zero hq2 hq2' _ _ _ _ _
      (clipOK_slide hl d0 (by rw [hv0]; exact h00)) (clipOK_slide hl d1 (by rw [hv1]; exact h11))
      (clipOK_hinge hl dh q2 hvh hl2)

/-- two slides -/
theorem threeDof_ss (hl : Bool) (d0 d1 : DofP ℝ) (e0 e1 : V3 ℝ) (q0 q1 qd0 qd1 : ℝ)
    (hd0 : d0.motion = ⟨⟨0, 0, 0⟩, e0⟩) (hd1 : d1.motion = ⟨⟨0, 0, 0⟩, e1⟩)
    (h00 : V3.dot e0 e0 = 1) (h11 : V3.dot e1 e1 = 1) (h01 : V3.dot e0 e1 = 0)
    (hq0 : |q0| ≤ 2) (hq1 : |q1| ≤ 2)
    (hl0 : hl = true → InLim q0 d0.lo d0.hi) (hl1 : hl = true → InLim q1 d1.lo d1.hi) :
    Positional.threeDofJointUpdate (Kin.jcalc ⟨.two, [q0, q1], [qd0, qd1], [d0, d1]⟩).1
      [ownAxis hl d0, ownAxis hl d1, padAxis] (frame2 d0.motion d1.motion) = (⟨0, 0, 0⟩, ⟨0, 0, 0⟩) := by
  have hE0 := v3Any_unit e0 h00
  have hE1 := v3Any_unit e1 h11
  have hfa : (frame2 d0.motion d1.motion).ang
      = ⟨⟨1, 0, 0⟩, ⟨0, 1, 0⟩, V3.cross ⟨1, 0, 0⟩ ⟨0, 1, 0⟩⟩ := by
    simp [frame2, hd0, hd1, hE0, hE1, v3Any_zero_lit, eye, V3.cross]
  have hfp : (frame2 d0.motion d1.motion).parity = 1 := rfl
  have hv0 : d0.motion.vel = e0 := by rw [hd0]
  have hv1 : d1.motion.vel = e1 := by rw [hd1]
  have hrot : (⟨1, 0, 0, 0⟩ : Q4 ℝ) = eulerRot ⟨1, 0, 0⟩ ⟨0, 1, 0⟩ 1 0 0 0 := by
    rw [eulerRot_mid, quatRotAxis_zero_angle]
  rw [Inv.jcalc_slides2 d0 d1 e0 e1 q0 q1 qd0 qd1 hd0 hd1 hq0 hq1, frame_eta _ _ _ hfa hfp]
  simp only
  rw [hrot]
  apply Prod.ext
  · have := threeDof_dx_zero (eulerRot ⟨1, 0, 0⟩ ⟨0, 1, 0⟩ 1 0 0 0)
      ⟨⟨⟨1, 0, 0⟩, ⟨0, 1, 0⟩, V3.cross ⟨1, 0, 0⟩ ⟨0, 1, 0⟩⟩, (frame2 d0.motion d1.motion).vel, 1⟩
      (ownAxis hl d0) (ownAxis hl d1) padAxis q0 q1 0
      (by rw [ownAxis_motion, ownAxis_motion, hv0, hv1]; exact h01)
      (by simp [padAxis, V3.dot]) (by simp [padAxis, V3.dot])
      (slideOK_slide hl d0 q0 (by rw [hv0]; exact h00) hl0)
      (slideOK_slide hl d1 q1 (by rw [hv1]; exact h11) hl1) (slideOK_pad 0)
    have hp : (⟨e0.x * q0 + e1.x * q1, e0.y * q0 + e1.y * q1, e0.z * q0 + e1.z * q1⟩ : V3 ℝ)
        = ⟨q0 * (ownAxis hl d0).motion.vel.x + q1 * (ownAxis hl d1).motion.vel.x
              + 0 * padAxis.motion.vel.x,
           q0 * (ownAxis hl d0).motion.vel.y + q1 * (ownAxis hl d1).motion.vel.y
              + 0 * padAxis.motion.vel.y,
           q0 * (ownAxis hl d0).motion.vel.z + q1 * (ownAxis hl d1).motion.vel.z
              + 0 * padAxis.motion.vel.z⟩ := by
      simp only [ownAxis_motion, hv0, hv1]; congr 1 <;> ring
    rw [hp]; exact this
  · exact euler_dq_zero ⟨1, 0, 0⟩ ⟨0, 1, 0⟩ (by simp [V3.dot]) (by simp [V3.dot]) (by simp [V3.dot])
      1 0 0 0 (by norm_num) pi_bounds.1 pi_bounds.2 abs_zero_le midOK_zero pi_bounds.1 pi_bounds.2
      _ _ _ _ _ (clipOK_slide hl d0 (by rw [hv0]; exact h00))
      (clipOK_slide hl d1 (by rw [hv1]; exact h11)) clipOK_pad

theorem limitAngle_fst_zero_ref (pos n n2 : V3 ℝ) (a : Positional.Axis3 ℝ) :
    (Positional.limitAngle pos n ⟨0, 0, 0⟩ n2 a).1 = ⟨0, 0, 0⟩ := by
  simp only [Positional.limitAngle, Inv.rotate_zero]
  simp [V3.cross]

/-- three slides (the rotational frame of `link_to_joint_frame` is the zero matrix here) -/
theorem threeDof_sss (hl : Bool) (d0 d1 d2 : DofP ℝ) (e0 e1 e2 : V3 ℝ) (q0 q1 q2 qd0 qd1 qd2 : ℝ)
    (hd0 : d0.motion = ⟨⟨0, 0, 0⟩, e0⟩) (hd1 : d1.motion = ⟨⟨0, 0, 0⟩, e1⟩)
    (hd2 : d2.motion = ⟨⟨0, 0, 0⟩, e2⟩)
    (h00 : V3.dot e0 e0 = 1) (h11 : V3.dot e1 e1 = 1) (h22 : V3.dot e2 e2 = 1)
    (h01 : V3.dot e0 e1 = 0) (h02 : V3.dot e0 e2 = 0) (h12 : V3.dot e1 e2 = 0)
    (hq0 : |q0| ≤ 2) (hq1 : |q1| ≤ 2) (hq2 : |q2| ≤ 2)
    (hl0 : hl = true → InLim q0 d0.lo d0.hi) (hl1 : hl = true → InLim q1 d1.lo d1.hi)
    (hl2 : hl = true → InLim q2 d2.lo d2.hi) :
    Positional.threeDofJointUpdate
      (Kin.jcalc ⟨.three, [q0, q1, q2], [qd0, qd1, qd2], [d0, d1, d2]⟩).1
      [ownAxis hl d0, ownAxis hl d1, ownAxis hl d2] (frame3 d0.motion d1.motion d2.motion)
      = (⟨0, 0, 0⟩, ⟨0, 0, 0⟩) := by
  have hE0 := v3Any_unit e0 h00
  have hfa : (frame3 d0.motion d1.motion d2.motion).ang = ⟨⟨0, 0, 0⟩, ⟨0, 0, 0⟩, ⟨0, 0, 0⟩⟩ := by
    simp [frame3, hd0, hd1, hd2, v3Any_zero_lit, V3.cross]
  have hv0 : d0.motion.vel = e0 := by rw [hd0]
  have hv1 : d1.motion.vel = e1 := by rw [hd1]
  have hv2 : d2.motion.vel = e2 := by rw [hd2]
  rw [Inv.jcalc_slides3 d0 d1 d2 e0 e1 e2 q0 q1 q2 qd0 qd1 qd2 hd0 hd1 hd2 hq0 hq1 hq2]
  simp only
  apply Prod.ext
  · have := threeDof_dx_zero ⟨1, 0, 0, 0⟩ (frame3 d0.motion d1.motion d2.motion)
      (ownAxis hl d0) (ownAxis hl d1) (ownAxis hl d2) q0 q1 q2
      (by rw [ownAxis_motion, ownAxis_motion, hv0, hv1]; exact h01)
      (by rw [ownAxis_motion, ownAxis_motion, hv0, hv2]; exact h02)
      (by rw [ownAxis_motion, ownAxis_motion, hv1, hv2]; exact h12)
      (slideOK_slide hl d0 q0 (by rw [hv0]; exact h00) hl0)
      (slideOK_slide hl d1 q1 (by rw [hv1]; exact h11) hl1)
      (slideOK_slide hl d2 q2 (by rw [hv2]; exact h22) hl2)
    have hp : (⟨e0.x * q0 + e1.x * q1 + e2.x * q2, e0.y * q0 + e1.y * q1 + e2.y * q2,
        e0.z * q0 + e1.z * q1 + e2.z * q2⟩ : V3 ℝ)
        = ⟨q0 * (ownAxis hl d0).motion.vel.x + q1 * (ownAxis hl d1).motion.vel.x
              + q2 * (ownAxis hl d2).motion.vel.x,
           q0 * (ownAxis hl d0).motion.vel.y + q1 * (ownAxis hl d1).motion.vel.y
              + q2 * (ownAxis hl d2).motion.vel.y,
           q0 * (ownAxis hl d0).motion.vel.z + q1 * (ownAxis hl d1).motion.vel.z
              + q2 * (ownAxis hl d2).motion.vel.z⟩ := by
      simp only [ownAxis_motion, hv0, hv1, hv2]; congr 1 <;> ring
    rw [hp]; exact this
  · unfold Positional.threeDofJointUpdate
    simp only [hfa, axisAngleAng, Inv.rotate_zero]
    simp only [show List.range 3 = [0, 1, 2] from rfl, List.map_cons, List.map_nil, nth,
      List.getD_cons_zero, List.getD_cons_succ]
    have hlon : normalize3 (V3.cross (⟨0, 0, 0⟩ : V3 ℝ) ⟨0, 0, 0⟩) = ⟨0, 0, 0⟩ := by
      rw [cross_self_lit]; exact normalize3_zero_lit
    rw [hlon, limitAngle_fst_zero_ref, limitAngle_fst_zero_ref, limitAngle_fst_zero_ref]
    simp only [sumV3_zero, smul_zero_lit]

/-- **`_three_dof_joint_update(jcalc q, *_sphericalize(…)) = 0` for the six 2- and 3-dof stack kinds**
(`PureStack`), the middle angle of a hinge in the middle of the stack being outside the `allclose`
window (`StackMid`) -/
theorem threeDofJointUpdate_pureStack (hl : Bool) (lq l : Kin.LinkIn ℝ) (h : PureStack hl lq)
    (hm : StackMid lq) (ht : l.typ = lq.typ) (hd : l.dofs = lq.dofs) :
    Positional.threeDofJointUpdate (Kin.jcalc lq).1 (Positional.sphericalize hl l).1
      (Positional.sphericalize hl l).2 = (⟨0, 0, 0⟩, ⟨0, 0, 0⟩) := by
  cases h with
  | hh d0 d1 a0 a1 q0 q1 qd0 qd1 hlq hd0 hd1 h00 h11 h01 hq0 hq0' hq1 hl0 hl1 =>
    subst hlq
    rw [sphericalize_two hl l d0 d1 ht hd]
    exact threeDof_hh hl d0 d1 a0 a1 q0 q1 qd0 qd1 hd0 hd1 h00 h11 h01 hq0 hq0' hq1
      (midOK_of_stackMid hm d1 q1 a1 rfl rfl (by rw [hd1]) h11) hl0 hl1
  | hhh d0 d1 d2 a0 a1 a2 q0 q1 q2 qd0 qd1 qd2 hlq hd0 hd1 hd2 h00 h11 h01 h2 hq0 hq0' hq1 hq2 hq2'
      hl0 hl1 hl2 =>
    subst hlq
    rw [sphericalize_three hl l d0 d1 d2 ht hd]
    exact threeDof_hhh hl d0 d1 d2 a0 a1 a2 q0 q1 q2 qd0 qd1 qd2 hd0 hd1 hd2 h00 h11 h01 h2 hq0 hq0'
      hq1 (midOK_of_stackMid hm d1 q1 a1 rfl rfl (by rw [hd1]) h11) hq2 hq2' hl0 hl1 hl2
  | ss d0 d1 e0 e1 q0 q1 qd0 qd1 hlq hd0 hd1 h00 h11 h01 hq0 hq1 hl0 hl1 =>
    subst hlq
    rw [sphericalize_two hl l d0 d1 ht hd]
    exact threeDof_ss hl d0 d1 e0 e1 q0 q1 qd0 qd1 hd0 hd1 h00 h11 h01 hq0 hq1 hl0 hl1
  | sss d0 d1 d2 e0 e1 e2 q0 q1 q2 qd0 qd1 qd2 hlq hd0 hd1 hd2 h00 h11 h22 h01 h02 h12 hq0 hq1 hq2
      hl0 hl1 hl2 =>
    subst hlq
    rw [sphericalize_three hl l d0 d1 d2 ht hd]
    exact threeDof_sss hl d0 d1 d2 e0 e1 e2 q0 q1 q2 qd0 qd1 qd2 hd0 hd1 hd2 h00 h11 h22 h01 h02 h12
      hq0 hq1 hq2 hl0 hl1 hl2
  | sh ds dh e a q0 q1 qd0 qd1 hlq hs hh hee haa hq0 hq1 hl0 hl1 =>
    subst hlq
    rw [sphericalize_two hl l ds dh ht hd]
    exact threeDof_sh hl ds dh e a q0 q1 qd0 qd1 hs hh hee haa hq0 hq1
      (midOK_of_stackMid hm dh q1 a rfl rfl (by rw [hh]) haa) hl0 hl1
  | ssh d0 d1 dh e0 e1 a q0 q1 q2 qd0 qd1 qd2 hlq h0 h1 hh h00 h11 h01 haa hq0 hq1 hq2 hq2'
      hl0 hl1 hl2 =>
    subst hlq
    rw [sphericalize_three hl l d0 d1 dh ht hd]
    exact threeDof_ssh hl d0 d1 dh e0 e1 a q0 q1 q2 qd0 qd1 qd2 h0 h1 hh h00 h11 h01 haa hq0 hq1
      hq2 hq2' hl0 hl1 hl2

/-- `1e-6 ≤ |θ| ≤ 1` is outside the window: `|sin θ| ≥ (2/π)|θ|` on `[−π/2, π/2]` -/
theorem midOK_of_abs (θ : ℝ) (h1 : 1e-6 ≤ |θ|) (h2 : |θ| ≤ 1) : MidOK θ := by
  right
  have hpi := Real.two_le_pi
  have hpi2 := Real.pi_le_four
  have key : ∀ x : ℝ, 1e-6 ≤ x → x ≤ 1 → 1e-7 < Real.sin x := by
    intro x hx1 hx2
    have h := Real.mul_le_sin (x := x) (by linarith) (by linarith)
    have : 2 / Real.pi * x ≥ 2 / 4 * x := by
      apply mul_le_mul_of_nonneg_right _ (by linarith)
      exact div_le_div_of_nonneg_left (by norm_num) (by linarith) hpi2
    nlinarith
  rcases le_total 0 θ with hp | hn
  · rw [abs_of_nonneg hp] at h1 h2
    have := key θ h1 h2
    rw [abs_of_pos (by linarith)]; exact this
  · rw [abs_of_nonpos hn] at h1 h2
    have := key (-θ) h1 h2
    rw [Real.sin_neg] at this
    rw [abs_of_neg (by linarith)]; exact this

/-- the per-link displacement `d_w` of `joints.position_update` vanishes for free links, 1-dof links and
the six stack kinds in a pure joint configuration inside their limits -/
theorem jointDisplacements_zero' (s : Sys ℝ) (j a_p : List (Tf ℝ)) {i : Nat} (hi : i < s.numLinks)
    (h : ∀ l, (Kin.linkSlices s.types ([] : List ℝ) [] s.dofs)[i]? = some l →
      l.typ = .free ∨ ∃ lq, (PureOne s.hasLimit lq ∨ (PureStack s.hasLimit lq ∧ StackMid lq))
        ∧ l.typ = lq.typ ∧ l.dofs = lq.dofs ∧ nth j i = (Kin.jcalc lq).1) :
    nth (Positional.jointDisplacements s j a_p) i = (0, 0) := by
  unfold Positional.jointDisplacements
  rw [nth_tab _ hi]
  cases hl : (Kin.linkSlices s.types ([] : List ℝ) [] s.dofs)[i]? with
  | none => rfl
  | some l =>
    simp only
    rcases h l hl with hf | ⟨lq, hp, ht, hd, hj⟩
    · have hb : (LinkType.free != LinkType.free) = false := rfl
      simp only [hf, hb, maskV_false, Inv.rotate_zero]
      rfl
    · have hz : Positional.threeDofJointUpdate (Kin.jcalc lq).1 (Positional.sphericalize s.hasLimit l).1
          (Positional.sphericalize s.hasLimit l).2 = (⟨0, 0, 0⟩, ⟨0, 0, 0⟩) := by
        rcases hp with hp | ⟨hp, hm⟩
        · exact threeDofJointUpdate_pureOne s.hasLimit lq l hp ht hd
        · exact threeDofJointUpdate_pureStack s.hasLimit lq l hp hm ht hd
      rw [hj, hz]
      simp only [maskV_zero_lit, Inv.rotate_zero]
      rfl

end kinds
end Brax.C04L
