import Brax.Lemmas.KinVel
/-!
# Equivariance of forward kinematics under a rigid transform of the whole scene
Helper lemmas for `Props/C05.lean`.
-/
set_option linter.unusedSectionVars false
set_option linter.unusedSimpArgs false
namespace Brax.KinEquiv
open Brax Kin KinPos KinVel

/-- rotate a world motion by `g` -/
def rotM (g : Tf ℝ) (m : Motion ℝ) : Motion ℝ := ⟨rotate m.ang g.rot, rotate m.vel g.rot⟩

/-- transform the coordinates of a free root link by `g`: `pos ↦ g.pos + R_g pos`,
`rot ↦ g.rot · rot`, linear velocity rotated, body-frame angular velocity unchanged;
non-free links keep their joint coordinates -/
noncomputable def xformIn (g : Tf ℝ) (l : LinkIn ℝ) : LinkIn ℝ :=
  match l.typ, l.q, l.qd with
  | .free, [p0, p1, p2, r0, r1, r2, r3], [v0, v1, v2, w0, w1, w2] =>
    let t := Tf.doTf g ⟨⟨p0, p1, p2⟩, ⟨r0, r1, r2, r3⟩⟩
    let v := rotate ⟨v0, v1, v2⟩ g.rot
    { l with q := [t.pos.x, t.pos.y, t.pos.z, t.rot.w, t.rot.x, t.rot.y, t.rot.z],
             qd := [v.x, v.y, v.z, w0, w1, w2] }
  | _, _, _ => l

theorem xformIn_nonfree (g : Tf ℝ) (l : LinkIn ℝ) (h : l.typ ≠ .free) : xformIn g l = l := by
  unfold xformIn
  split
  · rename_i heq _ _; exact absurd heq h
  · rfl

theorem doTf_pos_sub (g a b : Tf ℝ) :
    (Tf.doTf g a).pos - (Tf.doTf g b).pos = rotate (a.pos - b.pos) g.rot := by
  rw [rotate_sub]
  simp only [Tf.doTf, V3.add_def, V3.sub_def]
  apply V3.ext' <;> simp only <;> ring

theorem world_child_equiv (g : Tf ℝ) (hg : g.rot.IsUnit) (xp : Tf ℝ) (xdp : Motion ℝ)
    (jj : Tf ℝ × Motion ℝ) :
    world (some (Tf.doTf g xp, rotM g xdp)) jj
      = (Tf.doTf g (world (some (xp, xdp)) jj).1, rotM g (world (some (xp, xdp)) jj).2) := by
  simp only [world, rotM, Tf.doTf_assoc]
  congr 1
  have hrot : (Tf.doTf g (Tf.doTf xp jj.1)).rot = quatMul g.rot (Tf.doTf xp jj.1).rot := rfl
  have hrot2 : (Tf.doTf g xp).rot = quatMul g.rot xp.rot := rfl
  rw [doTf_pos_sub, hrot, hrot2, rotate_quatMul, rotate_quatMul, rotate_cross_unit _ _ hg,
    ← rotate_add, ← rotate_add, ← rotate_add]


/-- `kinematics.forward` as a function of the per-link inputs (what `scan.link_types` hands out) -/
noncomputable def forwardIns (s : Sys ℝ) (ins : List (LinkIn ℝ)) : List (Tf ℝ × Motion ℝ) :=
  (scanFwd world s.parents ((s.links.zip ins).map linkArg)).map
    (fun x => (⟨x.1.pos, normalize4 x.1.rot⟩, x.2))

theorem forward_eq_forwardIns (s : Sys ℝ) (q qd : List ℝ) :
    forward s q qd = forwardIns s (linkSlices s.types q qd s.dofs) := rfl

/-- under `LinkOK` every raw (un-normalised) world rotation of the tree scan is a unit quaternion -/
theorem forwardRaw_unit (ps : List Int) (bs : List (LinkP ℝ × LinkIn ℝ))
    (hok : ∀ x ∈ ps.zip bs, LinkOK x.1 x.2.1 x.2.2) :
    ∀ x ∈ scanFwd world ps (bs.map linkArg), x.1.rot.IsUnit := by
  have hrel := scanFwd_rel
    (fun (x : Tf ℝ × Motion ℝ) (y : Tf ℝ) => x.1 = y ∧ y.rot.IsUnit)
    (fun p (a : Tf ℝ × Motion ℝ) (b : LinkP ℝ × LinkIn ℝ) => a = linkArg b ∧ LinkOK p b.1 b.2)
    world (fun par (a : LinkP ℝ × LinkIn ℝ) => Mj.bodyPose par a.1 a.2)
    (by
      intro p par par' a b hpar hS hroot
      obtain ⟨ha, hk⟩ := hS
      subst ha
      exact link_pose_eq p par par' b.1 b.2 (linkArg b).2 hpar hk hroot)
    ps (bs.map linkArg) bs (zip_rel_same ps bs hok)
  generalize scanFwd world ps (bs.map linkArg) = xs at hrel
  generalize scanFwd (fun par (a : LinkP ℝ × LinkIn ℝ) => Mj.bodyPose par a.1 a.2) ps bs = ys at hrel
  induction hrel with
  | nil => intro x hx; simp at hx
  | @cons a b as bs' hab _ ih =>
    intro x hx
    rcases List.mem_cons.mp hx with rfl | hx
    · rw [hab.1]; exact hab.2
    · exact ih x hx

/-- a free root: transforming its coordinates by `g` transforms its world pose by `g` and rotates
its world velocity -/
theorem world_root_equiv (g : Tf ℝ) (p : Int) (lk : LinkP ℝ) (l : LinkIn ℝ)
    (hok : LinkOK p lk l) (hfree : l.typ = .free) :
    world none (linkArg (lk, xformIn g l))
      = (Tf.doTf g (world none (linkArg (lk, l))).1, rotM g (world none (linkArg (lk, l))).2) := by
  obtain ⟨hp, htf, hjp, hqdl, p0, p1, p2, r0, r1, r2, r3, hq, hu⟩ := hok.free hfree
  obtain ⟨v0, v1, v2, w0, w1, w2, hqd'⟩ : ∃ v0 v1 v2 w0 w1 w2, l.qd = [v0, v1, v2, w0, w1, w2] := by
    match hm : l.qd, hqdl with
    | [a, b, c, d, e, f], _ => exact ⟨a, b, c, d, e, f, rfl⟩
  have hj : jcalc l = (⟨⟨p0, p1, p2⟩, ⟨r0, r1, r2, r3⟩⟩, ⟨⟨w0, w1, w2⟩, ⟨v0, v1, v2⟩⟩) := by
    unfold jcalc; rw [hfree]; simp only [hq, hqd']
  have hx : xformIn g l = { l with
      q := [(Tf.doTf g ⟨⟨p0, p1, p2⟩, ⟨r0, r1, r2, r3⟩⟩).pos.x, (Tf.doTf g ⟨⟨p0, p1, p2⟩, ⟨r0, r1, r2, r3⟩⟩).pos.y,
            (Tf.doTf g ⟨⟨p0, p1, p2⟩, ⟨r0, r1, r2, r3⟩⟩).pos.z, (Tf.doTf g ⟨⟨p0, p1, p2⟩, ⟨r0, r1, r2, r3⟩⟩).rot.w,
            (Tf.doTf g ⟨⟨p0, p1, p2⟩, ⟨r0, r1, r2, r3⟩⟩).rot.x, (Tf.doTf g ⟨⟨p0, p1, p2⟩, ⟨r0, r1, r2, r3⟩⟩).rot.y,
            (Tf.doTf g ⟨⟨p0, p1, p2⟩, ⟨r0, r1, r2, r3⟩⟩).rot.z],
      qd := [(rotate ⟨v0, v1, v2⟩ g.rot).x, (rotate ⟨v0, v1, v2⟩ g.rot).y, (rotate ⟨v0, v1, v2⟩ g.rot).z, w0, w1, w2] } := by
    unfold xformIn; rw [hfree, hq, hqd']
  have hj' : jcalc (xformIn g l)
      = (Tf.doTf g ⟨⟨p0, p1, p2⟩, ⟨r0, r1, r2, r3⟩⟩, ⟨⟨w0, w1, w2⟩, rotate ⟨v0, v1, v2⟩ g.rot⟩) := by
    rw [hx]; unfold jcalc; simp only [hfree]
  have hpl : ∀ J : Tf ℝ, placeJoint lk J = J := by
    intro J
    rw [placeJoint_eq lk J hok.jointRot, htf, hjp]
    simp only [stackPose, Tf.id_doTf]
    cases J with | mk jp jr =>
    congr 1
    apply V3.ext' <;> simp [rotate, V3.dot, V3.cross, Q4.vec, V3.zero]
  simp only [world, linkArg, hj, hj', hpl, htf, Tf.id, rotate_one, rotM]
  congr 1
  congr 1
  simp only [Tf.doTf, rotate_quatMul]

end Brax.KinEquiv
