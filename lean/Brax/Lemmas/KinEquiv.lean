import Brax.Lemmas.KinVel
/-!
# Equivariance of forward kinematics under a rigid transform of the whole scene
Helper lemmas for `Props/C05.lean`.
-/
set_option linter.unusedSectionVars false
set_option linter.unusedSimpArgs false
namespace Brax.KinEquiv
open Brax Kin KinPos KinVel

/-- rotate a world motion by `g` -/
def rotM (g : Tf ℝ) (m : Motion ℝ) : Motion ℝ := ⟨rotate m.ang g.rot, rotate m.vel g.rot⟩

/-- transform the coordinates of a free root link by `g`: `pos ↦ g.pos + R_g pos`,
`rot ↦ g.rot · rot`, linear velocity rotated, body-frame angular velocity unchanged;
non-free links keep their joint coordinates -/
noncomputable def xformIn (g : Tf ℝ) (l : LinkIn ℝ) : LinkIn ℝ :=
  match l.typ, l.q, l.qd with
  | .free, [p0, p1, p2, r0, r1, r2, r3], [v0, v1, v2, w0, w1, w2] =>
    let t := Tf.doTf g ⟨⟨p0, p1, p2⟩, ⟨r0, r1, r2, r3⟩⟩
    let v := rotate ⟨v0, v1, v2⟩ g.rot
    { l with q := [t.pos.x, t.pos.y, t.pos.z, t.rot.w, t.rot.x, t.rot.y, t.rot.z],
             qd := [v.x, v.y, v.z, w0, w1, w2] }
  | _, _, _ => l

theorem xformIn_nonfree (g : Tf ℝ) (l : LinkIn ℝ) (h : l.typ ≠ .free) : xformIn g l = l := by
  unfold xformIn
  split
  · rename_i heq _ _; exact absurd heq h
  · rfl

theorem doTf_pos_sub (g a b : Tf ℝ) :
    (Tf.doTf g a).pos - (Tf.doTf g b).pos = rotate (a.pos - b.pos) g.rot := by
  rw [rotate_sub]
  simp only [Tf.doTf, V3.add_def, V3.sub_def]
  apply V3.ext' <;> simp only <;> ring

theorem world_child_equiv (g : Tf ℝ) (hg : g.rot.IsUnit) (xp : Tf ℝ) (xdp : Motion ℝ)
    (jj : Tf ℝ × Motion ℝ) :
    world (some (Tf.doTf g xp, rotM g xdp)) jj
      = (Tf.doTf g (world (some (xp, xdp)) jj).1, rotM g (world (some (xp, xdp)) jj).2) := by
  simp only [world, rotM, Tf.doTf_assoc]
  congr 1
  have hrot : (Tf.doTf g (Tf.doTf xp jj.1)).rot = quatMul g.rot (Tf.doTf xp jj.1).rot := rfl
  have hrot2 : (Tf.doTf g xp).rot = quatMul g.rot xp.rot := rfl
  rw [doTf_pos_sub, hrot, hrot2, rotate_quatMul, rotate_quatMul, rotate_cross_unit _ _ hg,
    ← rotate_add, ← rotate_add, ← rotate_add]

end Brax.KinEquiv
