import Brax.Lemmas.C04Spring
/-!
# C04 helper lemmas, part 3: the positional (PBD) pipeline

* `positionAssemble_momentum` — the joint position update moves the centre of mass of a
  free-rooted system nowhere, for any per-link correction;
* `positionSpread_momentum` — nor does the contact position update, for any list of contacts
  between links of the system;
* `positional_step_momentum` — one `positional.pipeline.step`.
-/
set_option linter.unusedSectionVars false
set_option linter.unusedSimpArgs false
set_option linter.unusedVariables false
namespace Brax.C04L
open Brax MC

section pbd
variable {K : Type} [Field K] [LinearOrder K] [IsStrictOrderedRing K] [HasSqrt K]

/-- `v * s` componentwise (what `Transform * s` does to `pos`) -/
def rsmul (v : V3 K) (s : K) : V3 K := ⟨v.x * s, v.y * s, v.z * s⟩

theorem rsmul_zero (s : K) : rsmul (0 : V3 K) s = 0 := by
  simp only [rsmul, v3_zero_x, v3_zero_y, v3_zero_z, zero_mul]; rfl

theorem v3_neg_zero : -(0 : V3 K) = 0 := by
  show (⟨-0, -0, -0⟩ : V3 K) = ⟨0, 0, 0⟩; simp

theorem v3_add_sub_cancel_left (a b : V3 K) : a + b - a = b := by
  cases a; cases b; simp only [V3.add_def, V3.sub_def, add_sub_cancel_left]

theorem normalize3_zero : normalize3 (0 : V3 K) = 0 := by
  simp only [normalize3, v3_zero_x, v3_zero_y, v3_zero_z, zero_div]; rfl

/-- shape of the position part of `_translation_update`: the child moves by `mass_inv_c · P`, the
parent by `−mass_inv_p · P`, for one and the same `P`, and `P = 0` for a zero correction -/
theorem translationUpdate_pos_form (a_p xi_p : Tf K) (iInvP : M3 K) (massInvP : K) (a_c xi_c : Tf K)
    (iInvC : M3 K) (massInvC : K) (dx : V3 K) :
    ∃ P : V3 K,
      (Positional.translationUpdate a_p xi_p iInvP massInvP a_c xi_c iInvC massInvC dx).1.pos
        = V3.smul massInvP (-P)
      ∧ (Positional.translationUpdate a_p xi_p iInvP massInvP a_c xi_c iInvC massInvC dx).2.pos
        = V3.smul massInvC P
      ∧ (dx = 0 → P = 0) := by
  refine ⟨_, rfl, rfl, ?_⟩
  intro h
  subst h
  rw [normalize3_zero]
  exact smul_zero' _

theorem rotationUpdate_pos (xi_p : Tf K) (iInvP : M3 K) (xi_c : Tf K) (iInvC : M3 K) (dq : V3 K) :
    (Positional.rotationUpdate xi_p iInvP xi_c iInvC dq).1.pos = 0
      ∧ (Positional.rotationUpdate xi_p iInvP xi_c iInvC dq).2.pos = 0 := ⟨rfl, rfl⟩

theorem dtf_smul_pos (s : K) (d : Positional.DTf K) : (Positional.DTf.smul s d).pos = rsmul d.pos s := rfl

theorem addDelta_pos (t : Tf K) (d : Positional.DTf K) : (Positional.addDelta t d).pos = t.pos + d.pos := rfl

/-- parent lookup of an in-range index in a scalar list -/
theorem getD_inRange (l : List K) {n k : Nat} (hl : l.length = n) (hk : k < n) :
    l.getD (((k : Int)) % (l.length : Int)).toNat 0 = nthS l k := by
  rw [hl]
  have : ((k : Int) % (n : Int)).toNat = k := by
    rw [Int.emod_eq_of_lt (by omega) (by exact_mod_cast hk)]; simp
  rw [this]; rfl

/-- **The joint position update conserves `Σ m_i · pos_i`** when the correction vanishes on every
link without a parent link (the free roots): the child moves by `+P/m_c`, its parent by `−P/m_p`
(accumulated by `segment_sum`; a world parent has `mass_inv_p = 0` and its row is dropped). -/
theorem positionAssemble_momentum (parents : List Int) (jsp jsa : K) (a_p a_c x_i : List (Tf K))
    (iInv : List (M3 K)) (massInv : List K) (dw : List (V3 K × V3 K)) (m : Nat → K)
    (hlenM : massInv.length = parents.length)
    (hm : ∀ i, i < parents.length → m i * nthS massInv i = 1)
    (hpar : ∀ i, i < parents.length → -1 ≤ parentOf parents i ∧ parentOf parents i < (i : Int))
    (hroot : ∀ i, i < parents.length → parentOf parents i = -1 → (nth dw i).1 = 0) :
    (∑ i ∈ Finset.range parents.length,
      V3.smul (m i) ((nth (Positional.positionAssemble parents jsp jsa a_p a_c x_i iInv massInv dw) i).pos
        - (nth x_i i).pos)) = 0 := by
  unfold Positional.positionAssemble
  simp only []
  set n := parents.length with hn
  -- name the per-link update
  set upd : Nat → Positional.DTf K × Positional.DTf K := fun i =>
    (Positional.DTf.smul jsp (Positional.translationUpdate (nth a_p i)
          (Kin.takeParent x_i default (parents.getD i (-1)))
          (maskM (decide (-1 < parents.getD i (-1))) (takeWrap iInv (parents.getD i (-1))))
          (maskS (decide (-1 < parents.getD i (-1)))
            (massInv.getD (parents.getD i (-1) % (massInv.length : Int)).toNat 0))
          (nth a_c i) (nth x_i i) (nth iInv i) (nthS massInv i) (-(nth dw i).1)).1
        + Positional.DTf.smul jsa (Positional.rotationUpdate
          (Kin.takeParent x_i default (parents.getD i (-1)))
          (maskM (decide (-1 < parents.getD i (-1))) (takeWrap iInv (parents.getD i (-1))))
          (nth x_i i) (nth iInv i) (nth dw i).2).1,
     Positional.DTf.smul jsp (Positional.translationUpdate (nth a_p i)
          (Kin.takeParent x_i default (parents.getD i (-1)))
          (maskM (decide (-1 < parents.getD i (-1))) (takeWrap iInv (parents.getD i (-1))))
          (maskS (decide (-1 < parents.getD i (-1)))
            (massInv.getD (parents.getD i (-1) % (massInv.length : Int)).toNat 0))
          (nth a_c i) (nth x_i i) (nth iInv i) (nthS massInv i) (-(nth dw i).1)).2
        + Positional.DTf.smul jsa (Positional.rotationUpdate
          (Kin.takeParent x_i default (parents.getD i (-1)))
          (maskM (decide (-1 < parents.getD i (-1))) (takeWrap iInv (parents.getD i (-1))))
          (nth x_i i) (nth iInv i) (nth dw i).2).2) with hupd
  -- the parent side, summed with weights
  have hseg : ∀ i, i < n →
      (nth (segmentSum (tab n fun i => (upd i).1) parents n) i).pos
        = segAt (tab n fun c => ((upd c).1.pos, parentOf parents c)) i := by
    intro i hi
    rw [nth_segmentSum_eq _ _ hi, segAt_dtf_pos, zip_tab n _ hn.symm, tab_map]
    congr 1
    apply tab_congr
    intro k hk
    simp only [parentOf, nth]
    congr 1
    rw [List.getD_eq_getElem?_getD, List.getD_eq_getElem?_getD, List.getElem?_eq_getElem (by omega)]
    rfl
  have hrow : ∀ i, i < n →
      V3.smul (m i) ((nth (tab n fun i => Positional.addDelta (Positional.addDelta (nth x_i i) (upd i).2)
          (nth (segmentSum (tab n fun i => (upd i).1) parents n) i)) i).pos - (nth x_i i).pos)
        = V3.smul (m i) (upd i).2.pos
          + V3.smul (m i) (segAt (tab n fun c => ((upd c).1.pos, parentOf parents c)) i) := by
    intro i hi
    rw [nth_tab _ hi, addDelta_pos, addDelta_pos, hseg i hi, ← smul_add']
    congr 1
    simp only [V3.add_def, V3.sub_def]; congr 1 <;> ring
  rw [Finset.sum_congr rfl (fun i hi => hrow i (Finset.mem_range.mp hi)), Finset.sum_add_distrib,
    segmentSum_weighted_total, sum_filter_tab, ← Finset.sum_add_distrib]
  apply Finset.sum_eq_zero
  intro c hc
  have hc' := Finset.mem_range.mp hc
  obtain ⟨hp1, hp2⟩ := hpar c hc'
  -- shape of the two position deltas of link c
  obtain ⟨P, h1, h2, h0⟩ := translationUpdate_pos_form (nth a_p c)
    (Kin.takeParent x_i default (parents.getD c (-1)))
    (maskM (decide (-1 < parents.getD c (-1))) (takeWrap iInv (parents.getD c (-1))))
    (maskS (decide (-1 < parents.getD c (-1)))
      (massInv.getD (parents.getD c (-1) % (massInv.length : Int)).toNat 0))
    (nth a_c c) (nth x_i c) (nth iInv c) (nthS massInv c) (-(nth dw c).1)
  have hU1 : (upd c).1.pos = rsmul (V3.smul (maskS (decide (-1 < parents.getD c (-1)))
      (massInv.getD (parents.getD c (-1) % (massInv.length : Int)).toNat 0)) (-P)) jsp := by
    simp only [hupd, dtf_add_pos, dtf_smul_pos, h1, (rotationUpdate_pos _ _ _ _ _).1, rsmul_zero]
    exact V3.add_zero' _
  have hU2 : (upd c).2.pos = rsmul (V3.smul (nthS massInv c) P) jsp := by
    simp only [hupd, dtf_add_pos, dtf_smul_pos, h2, (rotationUpdate_pos _ _ _ _ _).2, rsmul_zero]
    exact V3.add_zero' _
  by_cases hr : (0 ≤ parentOf parents c ∧ parentOf parents c < (n : Int))
  · -- a parent link: the two sides cancel
    simp only [hr, and_self, decide_true, if_true]
    obtain ⟨k, hk⟩ := Int.eq_ofNat_of_zero_le hr.1
    have hkn : k < n := by have := hr.2; rw [hk] at this; exact_mod_cast this
    have hpk : parents.getD c (-1) = (k : Int) := hk
    rw [hU1, hU2, hpk]
    have hdec : decide (-1 < (k : Int)) = true := by simp; omega
    rw [hdec]
    simp only [maskS, if_true]
    rw [getD_inRange massInv hlenM hkn, hk]
    simp only [Int.toNat_natCast]
    have e1 := hm c hc'
    have e2 := hm k hkn
    apply V3.ext' <;> simp only [V3.smul, rsmul, V3.add_def, V3.neg_def, v3_zero_x, v3_zero_y, v3_zero_z]
    · linear_combination (P.x * jsp) * e1 - (P.x * jsp) * e2
    · linear_combination (P.y * jsp) * e1 - (P.y * jsp) * e2
    · linear_combination (P.z * jsp) * e1 - (P.z * jsp) * e2
  · -- a root: no correction at all
    simp only [hr, decide_false, Bool.false_eq_true, if_false]
    have hroot' : parentOf parents c = -1 := by
      generalize parentOf parents c = p at *
      have hcn : (c : Int) < (n : Int) := by exact_mod_cast hc'
      by_contra hne
      exact hr ⟨by omega, by omega⟩
    have hP : P = 0 := h0 (by rw [hroot c hc' hroot']; exact v3_neg_zero)
    rw [hU2, hP, smul_zero', rsmul_zero, smul_zero']
    exact V3.add_zero' _

/-! ### contact position update -/

/-- weighted sum of the in-range entries of a list of `(value, id)` -/
def wsum (m : Nat → K) (n : Nat) (L : List (V3 K × Int)) : V3 K :=
  ((L.filter fun p => decide (0 ≤ p.2 ∧ p.2 < (n : Int))).map fun p => V3.smul (m p.2.toNat) p.1).sum

theorem wsum_nil (m : Nat → K) (n : Nat) : wsum m n [] = 0 := by simp [wsum]

theorem wsum_cons_in (m : Nat → K) (n : Nat) (v : V3 K) (a : Nat) (ha : a < n) (L : List (V3 K × Int)) :
    wsum m n ((v, (a : Int)) :: L) = V3.smul (m a) v + wsum m n L := by
  have : (0 ≤ (a : Int) ∧ (a : Int) < (n : Int)) := ⟨by omega, by exact_mod_cast ha⟩
  simp [wsum, List.filter_cons, this]

theorem wsum_append (m : Nat → K) (n : Nat) (L₁ L₂ : List (V3 K × Int)) :
    wsum m n (L₁ ++ L₂) = wsum m n L₁ + wsum m n L₂ := by
  simp [wsum, List.filter_append]

theorem nanToZero_id (x : K) : Positional.nanToZero x = x := by
  unfold Positional.nanToZero; rw [if_pos le_rfl]

theorem nanToZeroD_id (d : Positional.DTf K) : Positional.nanToZeroD d = d := by
  cases d; simp only [Positional.nanToZeroD, nanToZero_id]

/-- the two halves of the scattered contact deltas, as `(pos, id)` lists -/
def spreadHalf (sel : Positional.DTf K × Positional.DTf K → Positional.DTf K) (lk : Contact K → Int)
    (cs : List (Contact K)) (dps : List (Positional.DTf K × Positional.DTf K)) : List (V3 K × Int) :=
  List.zipWith (fun c d => ((if -1 < lk c then Positional.nanToZeroD (sel d) else (0 : Positional.DTf K)).pos, lk c))
    cs dps

theorem wsum_halves (m : Nat → K) (n : Nat) (cs : List (Contact K)) :
    ∀ (dps : List (Positional.DTf K × Positional.DTf K)),
    (∀ cd ∈ cs.zip dps, ∃ a b : Nat, a < n ∧ b < n ∧ cd.1.link1 = (a : Int) ∧ cd.1.link2 = (b : Int)
        ∧ V3.smul (m a) cd.2.1.pos + V3.smul (m b) cd.2.2.pos = 0) →
    wsum m n (spreadHalf (·.1) (·.link1) cs dps) + wsum m n (spreadHalf (·.2) (·.link2) cs dps) = 0 := by
  induction cs with
  | nil => intro dps _; simp [spreadHalf, wsum_nil]
  | cons c cs ih =>
    intro dps h
    cases dps with
    | nil => simp [spreadHalf, wsum_nil]
    | cons d dps =>
      obtain ⟨a, b, ha, hb, h1, h2, hrel⟩ := h (c, d) (by simp)
      have ih' := ih dps (fun cd hcd => h cd (by simp only [List.zip_cons_cons, List.mem_cons]; exact Or.inr hcd))
      simp only [spreadHalf, List.zipWith_cons_cons] at ih' ⊢
      rw [h1, h2]
      have e1 : (-1 : Int) < (a : Int) := by omega
      have e2 : (-1 : Int) < (b : Int) := by omega
      rw [if_pos e1, if_pos e2, nanToZeroD_id, nanToZeroD_id, wsum_cons_in m n _ a ha, wsum_cons_in m n _ b hb]
      have : V3.smul (m a) d.1.pos + wsum m n (List.zipWith (fun c d =>
            ((if -1 < c.link1 then Positional.nanToZeroD d.1 else (0 : Positional.DTf K)).pos, c.link1)) cs dps)
          + (V3.smul (m b) d.2.pos + wsum m n (List.zipWith (fun c d =>
            ((if -1 < c.link2 then Positional.nanToZeroD d.2 else (0 : Positional.DTf K)).pos, c.link2)) cs dps))
          = (V3.smul (m a) d.1.pos + V3.smul (m b) d.2.pos)
            + (wsum m n (List.zipWith (fun c d =>
              ((if -1 < c.link1 then Positional.nanToZeroD d.1 else (0 : Positional.DTf K)).pos, c.link1)) cs dps)
            + wsum m n (List.zipWith (fun c d =>
              ((if -1 < c.link2 then Positional.nanToZeroD d.2 else (0 : Positional.DTf K)).pos, c.link2)) cs dps)) := by
        simp only [V3.add_def]; congr 1 <;> ring
      rw [this, hrel, ih']
      exact V3.add_zero' _

theorem positionSpread_list (cs : List (Contact K)) (dps : List (Positional.DTf K × Positional.DTf K))
    (hlen : dps.length = cs.length) :
    ((List.zipWith (fun (d : Positional.DTf K) (id : Int) =>
          if -1 < id then Positional.nanToZeroD d else (0 : Positional.DTf K))
        (dps.map (·.1) ++ dps.map (·.2)) (cs.map (·.link1) ++ cs.map (·.link2))).zip
        (cs.map (·.link1) ++ cs.map (·.link2))).map (fun p => (p.1.pos, p.2))
      = spreadHalf (·.1) (·.link1) cs dps ++ spreadHalf (·.2) (·.link2) cs dps := by
  apply List.ext_getElem
  · simp [spreadHalf, hlen]
  · intro k h1 h2
    simp only [List.getElem_map, List.getElem_zip, List.getElem_zipWith]
    simp only [spreadHalf, List.length_append, List.length_zipWith, hlen, min_self] at h2
    by_cases hk : k < cs.length
    · rw [List.getElem_append_left (by simp [spreadHalf]; omega)]
      simp only [spreadHalf, List.getElem_zipWith]
      rw [List.getElem_append_left (by simp; omega), List.getElem_append_left (by simp; omega)]
      simp
    · rw [List.getElem_append_right (by simp [spreadHalf]; omega)]
      simp only [spreadHalf, List.getElem_zipWith]
      rw [List.getElem_append_right (by simp; omega), List.getElem_append_right (by simp; omega)]
      simp [spreadHalf, hlen]

/-- **The contact position update conserves `Σ m_i · pos_i`** for any list of contacts between
links of the system whose two deltas are opposite after weighting with the masses (no averaging
is involved here, so the number of bodies is irrelevant). -/
theorem positionSpread_momentum (n : Nat) (x_i : List (Tf K)) (cs : List (Contact K))
    (dps : List (Positional.DTf K × Positional.DTf K)) (m : Nat → K) (hlen : dps.length = cs.length)
    (hrel : ∀ cd ∈ cs.zip dps, ∃ a b : Nat, a < n ∧ b < n ∧ cd.1.link1 = (a : Int) ∧ cd.1.link2 = (b : Int)
        ∧ V3.smul (m a) cd.2.1.pos + V3.smul (m b) cd.2.2.pos = 0) :
    (∑ i ∈ Finset.range n,
      V3.smul (m i) ((nth (Positional.positionSpread n x_i cs dps) i).pos - (nth x_i i).pos)) = 0 := by
  unfold Positional.positionSpread
  simp only []
  have hrow : ∀ i, i < n →
      V3.smul (m i) ((nth (tab n fun i =>
          (⟨(Positional.addDelta (nth x_i i) (nth (segmentSum
              (List.zipWith (fun (d : Positional.DTf K) (id : Int) =>
                if -1 < id then Positional.nanToZeroD d else (0 : Positional.DTf K))
                (dps.map (·.1) ++ dps.map (·.2)) (cs.map (·.link1) ++ cs.map (·.link2)))
              (cs.map (·.link1) ++ cs.map (·.link2)) n) i)).pos,
            normalize4 (Positional.addDelta (nth x_i i) (nth (segmentSum
              (List.zipWith (fun (d : Positional.DTf K) (id : Int) =>
                if -1 < id then Positional.nanToZeroD d else (0 : Positional.DTf K))
                (dps.map (·.1) ++ dps.map (·.2)) (cs.map (·.link1) ++ cs.map (·.link2)))
              (cs.map (·.link1) ++ cs.map (·.link2)) n) i)).rot⟩ : Tf K)) i).pos - (nth x_i i).pos)
        = V3.smul (m i) (segAt (spreadHalf (·.1) (·.link1) cs dps ++ spreadHalf (·.2) (·.link2) cs dps) i) := by
    intro i hi
    rw [nth_tab _ hi, addDelta_pos, nth_segmentSum_eq _ _ hi, segAt_dtf_pos, positionSpread_list cs dps hlen,
      v3_add_sub_cancel_left]
  rw [Finset.sum_congr rfl (fun i hi => hrow i (Finset.mem_range.mp hi)), segmentSum_weighted_total]
  change wsum m n _ = 0
  rw [wsum_append]
  exact wsum_halves m n cs dps hrel

/-- the position parts of the two deltas `translate` produces for one contact -/
theorem translate_pos_form (cscale : K) (x_i xPrev : List (Tf K)) (ii : List (M3 K)) (im : List K)
    (c : Contact K) :
    ∃ p p' : V3 K,
      (Positional.translate cscale x_i xPrev ii im c).1.pos
        = rsmul (V3.smul (maskS (decide (-1 < c.link1)) (im.getD (c.link1 % (im.length : Int)).toNat 0)) p
            + V3.smul (maskS (decide (-1 < c.link1)) (im.getD (c.link1 % (im.length : Int)).toNat 0)) p') cscale
      ∧ (Positional.translate cscale x_i xPrev ii im c).2.1.pos
        = rsmul (V3.smul (maskS (decide (-1 < c.link2)) (im.getD (c.link2 % (im.length : Int)).toNat 0)) (-p)
            - V3.smul (maskS (decide (-1 < c.link2)) (im.getD (c.link2 % (im.length : Int)).toNat 0)) p') cscale :=
  ⟨_, _, rfl, rfl⟩

theorem translate_rel (cscale : K) (x_i xPrev : List (Tf K)) (ii : List (M3 K)) (im : List K)
    (c : Contact K) (m : Nat → K) {n a b : Nat} (ha : a < n) (hb : b < n) (h1 : c.link1 = (a : Int))
    (h2 : c.link2 = (b : Int)) (hlen : im.length = n) (hm : ∀ i, i < n → m i * nthS im i = 1) :
    V3.smul (m a) (Positional.translate cscale x_i xPrev ii im c).1.pos
      + V3.smul (m b) (Positional.translate cscale x_i xPrev ii im c).2.1.pos = 0 := by
  obtain ⟨p, p', e1, e2⟩ := translate_pos_form cscale x_i xPrev ii im c
  rw [e1, e2, h1, h2]
  have d1 : decide ((-1 : Int) < (a : Int)) = true := by simp; omega
  have d2 : decide ((-1 : Int) < (b : Int)) = true := by simp; omega
  rw [d1, d2]
  simp only [maskS, if_true]
  rw [getD_inRange im hlen ha, getD_inRange im hlen hb]
  have ea := hm a ha
  have eb := hm b hb
  apply V3.ext' <;> simp only [V3.smul, rsmul, V3.add_def, V3.sub_def, V3.neg_def, v3_zero_x, v3_zero_y, v3_zero_z]
  · linear_combination ((p.x + p'.x) * cscale) * ea - ((p.x + p'.x) * cscale) * eb
  · linear_combination ((p.y + p'.y) * cscale) * ea - ((p.y + p'.y) * cscale) * eb
  · linear_combination ((p.z + p'.z) * cscale) * ea - ((p.z + p'.z) * cscale) * eb

end pbd

/-! ## the positional step -/
section posStep
variable {K : Type} [Field K] [LinearOrder K] [IsStrictOrderedRing K]
  [HasSqrt K] [HasTrig K] [HasExp K] [HasPow K] [HasF32 K]

theorem jointDisplacements_free (s : Sys K) (j a_p : List (Tf K)) {i : Nat}
    (hi : i < s.numLinks) (hfree : s.types[i]? = some .free) :
    (nth (Positional.jointDisplacements s j a_p) i).1 = 0 := by
  unfold Positional.jointDisplacements
  rw [nth_tab _ hi]
  have hl := Kin.linkSlices_length s.types ([] : List K) [] s.dofs
  have ht := Kin.linkSlices_typ s.types ([] : List K) [] s.dofs
  have hi' : i < (Kin.linkSlices s.types ([] : List K) [] s.dofs).length := by rw [hl]; exact hi
  simp only [List.getElem?_eq_getElem hi']
  have : (Kin.linkSlices s.types ([] : List K) [] s.dofs)[i].typ = .free := by
    have h1 : ((Kin.linkSlices s.types ([] : List K) [] s.dofs).map (·.typ))[i]? = some .free := by
      rw [ht]; exact hfree
    rw [List.getElem?_map, List.getElem?_eq_getElem hi'] at h1
    simpa using h1
  simp only [this, bne_self_eq_false, maskV]
  exact rotate_zero _

/-- the velocity change of `positional.collisions.resolve_velocity`, weighted by the masses, sums to
zero for two-body contact lists -/
theorem resolveVelocity_momentum (s : Sys K) (x_i : List (Tf K)) (xd_i xdPrev : List (Motion K))
    (ii : List (M3 K)) (im : List K) (cs : List (Contact K)) (dl : List K) (m : Nat → K)
    (hcs : TwoBody s.numLinks cs) (hdl : cs ≠ [] → dl.length = cs.length)
    (hm : ∀ i, i < s.numLinks → m i * nthS im i = 1) :
    (∑ i ∈ Finset.range s.numLinks,
      V3.smul (m i) (nth (Positional.resolveVelocity s x_i xd_i xdPrev ii im cs dl) i).vel) = 0 := by
  unfold Positional.resolveVelocity
  simp only []
  by_cases he : cs.isEmpty = true
  · rw [if_pos he]
    apply Finset.sum_eq_zero
    intro i hi
    rw [nth_tab _ (Finset.mem_range.mp hi)]
    exact smul_zero' _
  · rw [if_neg he]
    rcases hcs with rfl | ⟨a, b, ha, hb, hab⟩
    · simp at he
    · have hne : cs ≠ [] := by intro h; subst h; simp at he
      have hl := hdl hne
      rw [← spread_two_body s.numLinks (fun id => Kin.takeParent x_i default id) cs
        ((List.zipWith (Positional.velImpulse s x_i xd_i xdPrev ii im) cs dl).map (·.1))
        ((List.zipWith (Positional.velImpulse s x_i xd_i xdPrev ii im) cs dl).map fun p => if p.2 then 1 else 0)
        a b ha hb hab (by simp [hl]) (by simp [hl])]
      apply Finset.sum_congr rfl
      intro i hi
      have hi' := Finset.mem_range.mp hi
      rw [nth_tab _ hi', smul_smul', hm i hi', one_smul']

/-- structural hypotheses on the per-link parameter lists -/
structure PosOK (s : Sys K) (st : Positional.State K) : Prop where
  hlinks : s.links.length = s.numLinks
  hmass : st.mass = effMass s
  hne : ∀ i, i < s.numLinks → nthS st.mass i ≠ 0

theorem massInv_length (s : Sys K) : (Positional.massInv s).length = s.links.length := by
  simp [Positional.massInv, effMass]

theorem massInv_mul (s : Sys K) (st : Positional.State K) (h : PosOK s st) {i : Nat} (hi : i < s.numLinks) :
    nthS st.mass i * nthS (Positional.massInv s) i = 1 := by
  have hne := h.hne i hi
  rw [h.hmass] at hne ⊢
  have hi' : i < (effMass s).length := by simp [effMass, h.hlinks]; exact hi
  simp only [nthS, Positional.massInv, List.getD_eq_getElem?_getD, List.getElem?_map,
    List.getElem?_eq_getElem hi', Option.map_some, Option.getD_some] at hne ⊢
  field_simp

/-- intermediate values of `Positional.step`, named -/
def posXi1 (s : Sys K) (st : Positional.State K) (act : List K) : List (Tf K) × List (Motion K) :=
  Positional.integrateXdd s st.x_i st.xd_i
    (Positional.acceleration s (Com.invInertia s st.x) st.mass
      (Positional.accelerationUpdate s st (toTau s act st.q st.qd)))

def posSt1 (s : Sys K) (st : Positional.State K) (act : List K) : Positional.State K :=
  { st with x := (Com.toWorld s (posXi1 s st act).1 (posXi1 s st act).2).1,
            xd := (Com.toWorld s (posXi1 s st act).1 (posXi1 s st act).2).2,
            x_i := (posXi1 s st act).1, xd_i := (posXi1 s st act).2 }

def posXi2 (s : Sys K) (st : Positional.State K) (act : List K) : List (Tf K) :=
  Positional.positionUpdate s (posSt1 s st act)

def posX2 (s : Sys K) (st : Positional.State K) (act : List K) : List (Tf K) :=
  (Com.toWorld s (posXi2 s st act) (posXi1 s st act).2).1

def posRp (cf : List (Tf K) → List (Contact K)) (s : Sys K) (st : Positional.State K) (act : List K) :
    List (Tf K) × List K :=
  Positional.resolvePosition s (posXi2 s st act) st.x_i (Com.invInertia s (posX2 s st act))
    (Positional.massInv s) (cf (posX2 s st act))

def posXd3 (cf : List (Tf K) → List (Contact K)) (s : Sys K) (st : Positional.State K) (act : List K) :
    List (Motion K) :=
  Positional.projectXd s (posRp cf s st act).1 st.x_i

def posXdv (cf : List (Tf K) → List (Contact K)) (s : Sys K) (st : Positional.State K) (act : List K) :
    List (Motion K) :=
  Positional.resolveVelocity s (posRp cf s st act).1 (posXd3 cf s st act) (posXi1 s st act).2
    (Com.invInertia s (Com.toWorld s (posRp cf s st act).1 (posXd3 cf s st act)).1)
    (Positional.massInv s) (cf (posX2 s st act)) (posRp cf s st act).2

theorem pos_step_xd_i (inv : List (Tf K) → List (Motion K) → List K × List K)
    (cf : List (Tf K) → List (Contact K)) (s : Sys K) (st : Positional.State K) (act : List K) :
    (Positional.step inv cf s st act).xd_i
      = Positional.integrateXdv s (posXd3 cf s st act) (posXdv cf s st act) := rfl

theorem pos_step_mass (inv : List (Tf K) → List (Motion K) → List K × List K)
    (cf : List (Tf K) → List (Contact K)) (s : Sys K) (st : Positional.State K) (act : List K) :
    (Positional.step inv cf s st act).mass = st.mass := rfl

/-- the joint position update inside the step moves no momentum -/
theorem posXi2_momentum (s : Sys K) (st : Positional.State K) (act : List K) (h : FreeRooted s)
    (hok : PosOK s st) :
    (∑ i ∈ Finset.range s.numLinks, V3.smul (nthS st.mass i)
      ((nth (posXi2 s st act) i).pos - (nth (posXi1 s st act).1 i).pos)) = 0 := by
  unfold posXi2 Positional.positionUpdate
  simp only []
  have hx : (posSt1 s st act).x_i = (posXi1 s st act).1 := rfl
  rw [hx, ← h.hlen]
  apply positionAssemble_momentum
  · rw [massInv_length, hok.hlinks, h.hlen]
  · intro i hi; rw [h.hlen] at hi; exact massInv_mul s st hok hi
  · intro i hi; rw [h.hlen] at hi; exact h.hpar i hi
  · intro i hi hroot; rw [h.hlen] at hi
    exact jointDisplacements_free s _ _ hi (h.hroot i hi hroot)

/-- renormalising the rotations (the contact-free path of `resolve_position`) moves no position -/
theorem nth_map_pos (l : List (Tf K)) (g : Q4 K → Q4 K) (i : Nat) :
    (nth (l.map fun t => (⟨t.pos, g t.rot⟩ : Tf K)) i).pos = (nth l i).pos := by
  simp only [nth, List.getD_eq_getElem?_getD, List.getElem?_map]
  cases l[i]? with
  | none => rfl
  | some t => rfl

/-- the contact position update inside the step moves no momentum -/
theorem posRp_momentum (cf : List (Tf K) → List (Contact K)) (s : Sys K) (st : Positional.State K)
    (act : List K) (h : FreeRooted s) (hok : PosOK s st)
    (hcs : TwoBody s.numLinks (cf (posX2 s st act))) :
    (∑ i ∈ Finset.range s.numLinks, V3.smul (nthS st.mass i)
      ((nth (posRp cf s st act).1 i).pos - (nth (posXi2 s st act) i).pos)) = 0 := by
  unfold posRp Positional.resolvePosition
  simp only []
  by_cases he : (cf (posX2 s st act)).isEmpty = true
  · rw [if_pos he]
    apply Finset.sum_eq_zero
    intro i _
    rw [nth_map_pos, V3.sub_self']
    exact smul_zero' _
  · rw [if_neg he]
    apply positionSpread_momentum
    · simp
    · intro cd hcd
      rcases hcs with hnil | ⟨a, b, ha, hb, hab⟩
      · rw [hnil] at he; simp at he
      · have hmem := List.of_mem_zip hcd
        obtain ⟨c, hc, hceq⟩ := List.mem_map.mp hmem.2
        have hc1 : cd.1 ∈ cf (posX2 s st act) := hmem.1
        obtain ⟨e1, e2⟩ := hab cd.1 hc1
        refine ⟨a, b, ha, hb, e1, e2, ?_⟩
        -- the delta pair is `translate` of *its own* contact
        have hpair : cd.2 = ((Positional.translate s.collideScale (posXi2 s st act) st.x_i
            (Com.invInertia s (posX2 s st act)) (Positional.massInv s) cd.1).1,
            (Positional.translate s.collideScale (posXi2 s st act) st.x_i
            (Com.invInertia s (posX2 s st act)) (Positional.massInv s) cd.1).2.1) := by
          obtain ⟨k, hk1, hk2⟩ := List.mem_iff_getElem.mp hcd
          rw [← hk2]
          simp [List.getElem_zip, List.getElem_map]
        rw [hpair]
        exact translate_rel _ _ _ _ _ _ (fun i => nthS st.mass i) ha hb e1 e2
          (by rw [massInv_length, hok.hlinks]) (fun i hi => massInv_mul s st hok hi)

theorem vdiv_eq_smul (v : V3 K) (d : K) : vdiv v d = V3.smul (1 / d) v := by
  cases v; simp only [vdiv, V3.smul]; congr 1 <;> ring

/-- the algebra of one positional step: velocity recovered from the position change -/
theorem pos_momentum_update (n : Nat) (m : Nat → K) (A B v f w : Nat → V3 K) (g : V3 K) (dt : K)
    (hdt : dt ≠ 0) (hm : ∀ i, i < n → m i ≠ 0) :
    (∑ i ∈ Finset.range n, V3.smul (m i)
        (V3.smul 1 (vdiv (A i + B i + V3.smul dt (V3.smul 1 (v i + V3.smul dt (g + V3.smul (1 / m i) (f i))))) dt)
          + w i))
      = (∑ i ∈ Finset.range n, V3.smul (m i) (v i))
        + V3.smul ((∑ i ∈ Finset.range n, m i) * dt) g
        + V3.smul dt (∑ i ∈ Finset.range n, f i)
        + vdiv (∑ i ∈ Finset.range n, V3.smul (m i) (A i)) dt
        + vdiv (∑ i ∈ Finset.range n, V3.smul (m i) (B i)) dt
        + ∑ i ∈ Finset.range n, V3.smul (m i) (w i) := by
  rw [vdiv_eq_smul, vdiv_eq_smul, Finset.sum_mul, sum_smul', smul_sum', smul_sum', smul_sum',
    ← Finset.sum_add_distrib, ← Finset.sum_add_distrib, ← Finset.sum_add_distrib,
    ← Finset.sum_add_distrib, ← Finset.sum_add_distrib]
  apply Finset.sum_congr rfl
  intro i hi
  have h := hm i (Finset.mem_range.mp hi)
  apply V3.ext' <;> simp only [V3.smul, V3.add_def, vdiv] <;> field_simp <;> ring

/-- **one positional step**: `P' = P + (Σ m_i)·dt·g` -/
theorem positional_step_momentum (inv : List (Tf K) → List (Motion K) → List K × List K)
    (cf : List (Tf K) → List (Contact K)) (s : Sys K) (st : Positional.State K) (act : List K)
    (h : FreeRooted s) (hok : PosOK s st) (hlen : st.mass.length = s.numLinks)
    (hdamp : HasExp.exp (s.velDamping * s.dt) = (1 : K)) (hdt : s.dt ≠ 0)
    (hcs : TwoBody s.numLinks (cf (posX2 s st act))) :
    momentum (Positional.step inv cf s st act).mass (Positional.step inv cf s st act).xd_i
      = momentum st.mass st.xd_i + V3.smul (totalMass st.mass * s.dt) s.gravity := by
  unfold momentum totalMass
  rw [pos_step_mass, pos_step_xd_i, hlen]
  have hrow : ∀ i, i < s.numLinks →
      (nth (Positional.integrateXdv s (posXd3 cf s st act) (posXdv cf s st act)) i).vel
        = V3.smul 1 (vdiv (((nth (posRp cf s st act).1 i).pos - (nth (posXi2 s st act) i).pos)
            + ((nth (posXi2 s st act) i).pos - (nth (posXi1 s st act).1 i).pos)
            + V3.smul s.dt (V3.smul 1 ((nth st.xd_i i).vel + V3.smul s.dt (s.gravity
                + V3.smul (1 / nthS st.mass i)
                  (nth (Positional.accelerationUpdate s st (toTau s act st.q st.qd)) i).vel)))) s.dt)
          + (nth (posXdv cf s st act) i).vel := by
    intro i hi
    have hx1 : (nth (posXi1 s st act).1 i).pos
        = (nth st.x_i i).pos + V3.smul s.dt (V3.smul 1 ((nth st.xd_i i).vel + V3.smul s.dt (s.gravity
            + V3.smul (1 / nthS st.mass i)
              (nth (Positional.accelerationUpdate s st (toTau s act st.q st.qd)) i).vel))) := by
      simp only [posXi1, Positional.integrateXdd, nth_tab _ hi, Positional.integrateXddLink, hdamp,
        Positional.acceleration]
    simp only [Positional.integrateXdv, nth_tab _ hi, hdamp, posXd3, Positional.projectXd]
    congr 1
    congr 1
    rw [hx1]
    simp only [vdiv, V3.add_def, V3.sub_def]
    congr 1 <;> ring
  rw [Finset.sum_congr rfl (fun i hi => by rw [hrow i (Finset.mem_range.mp hi)])]
  rw [pos_momentum_update s.numLinks (fun i => nthS st.mass i) _ _ _ _ _ s.gravity s.dt hdt hok.hne]
  rw [accUpdate_sum_zero s h, smul_zero', posRp_momentum cf s st act h hok hcs, posXi2_momentum s st act h hok,
    vdiv_zero]
  have hv := resolveVelocity_momentum s (posRp cf s st act).1 (posXd3 cf s st act) (posXi1 s st act).2
    (Com.invInertia s (Com.toWorld s (posRp cf s st act).1 (posXd3 cf s st act)).1)
    (Positional.massInv s) (cf (posX2 s st act)) (posRp cf s st act).2 (fun i => nthS st.mass i) hcs
    (by
      intro hne
      unfold posRp Positional.resolvePosition
      have : (cf (posX2 s st act)).isEmpty = false := by
        cases hc : cf (posX2 s st act) with
        | nil => exact absurd hc hne
        | cons _ _ => rfl
      simp [this])
    (fun i hi => massInv_mul s st hok hi)
  unfold posXdv
  rw [hv]
  simp

end posStep

end Brax.C04L
