import Brax.Spec.C16
import Brax.Lemmas.Real
import Mathlib.Tactic.Ring
import Mathlib.Tactic.Linarith
import Mathlib.Tactic.Positivity
import Mathlib.Tactic.NormNum
/-!
# C16 — helper lemmas (list lengths, range tests, boolean-to-number coding)
-/
set_option linter.unusedSectionVars false
set_option linter.unusedSimpArgs false
namespace Brax.C16
open Brax

/-! ## list lengths -/
section lists
variable {α : Type}

theorem length_flatMap_range (f : Nat → List α) (k n : Nat) (h : ∀ i, (f i).length = k) :
    ((List.range n).flatMap f).length = k * n := by
  induction n with
  | zero => simp
  | succ n ih =>
    rw [List.range_succ, List.flatMap_append, List.length_append, ih]
    simp [h, Nat.mul_succ]

theorem length_clip10 [Neg α] [LT α] [DecidableLT α] [OfScientific α] (v : List α) :
    (clip10 v).length = v.length := by simp [clip10]

theorem length_V3_toList (v : V3 α) : (V3.toList v).length = 3 := rfl

theorem idx_append_left [Zero α] (a b : List α) (i : Nat) (h : i < a.length) :
    idx (a ++ b) i = idx a i := by
  simp [idx, List.getD_eq_getElem?_getD, List.getElem?_append_left h]

end lists

/-! ## range tests decide the documented propositions -/
section order
variable {K : Type} [Field K] [LinearOrder K] [IsStrictOrderedRing K]

theorem inOpen_iff (lo hi : Option K) (x : K) : inOpen lo hi x = true ↔ InOpen lo hi x := by
  cases lo <;> cases hi <;> simp [inOpen, gtLo, ltHi, InOpen]

/-- `where(z > hi, 0, where(z < lo, 0, 1))` is the indicator of the closed range -/
theorem closedIndicator (lo hi : Option K) (z : K) :
    ((if gtHi z hi then (0 : K) else if ltLo z lo then 0 else 1) = 1 ↔ InClosed lo hi z)
    ∧ ((if gtHi z hi then (0 : K) else if ltLo z lo then 0 else 1) = 0 ↔ ¬ InClosed lo hi z) := by
  rcases lo with _ | l <;> rcases hi with _ | h
  · simp [gtHi, ltLo, InClosed]
  · by_cases h1 : h < z
    · simp [gtHi, ltLo, InClosed, h1]
    · simp [gtHi, ltLo, InClosed, h1, not_lt.mp h1]
  · by_cases h2 : z < l
    · simp [gtHi, ltLo, InClosed, h2]
    · simp [gtHi, ltLo, InClosed, h2, not_lt.mp h2]
  · by_cases h1 : h < z
    · simp [gtHi, ltLo, InClosed, h1]
    · by_cases h2 : z < l
      · simp [gtHi, ltLo, InClosed, h1, h2]
      · simp [gtHi, ltLo, InClosed, h1, h2, not_lt.mp h1, not_lt.mp h2]

theorem b2f_eq_one (b : Bool) : (b2f b : K) = 1 ↔ b = true := by cases b <;> simp [b2f]
theorem b2f_eq_zero (b : Bool) : (b2f b : K) = 0 ↔ b = false := by cases b <;> simp [b2f]
theorem one_sub_b2f_eq_one (b : Bool) : (1 - b2f b : K) = 1 ↔ b = false := by cases b <;> simp [b2f]
theorem one_sub_b2f_eq_zero (b : Bool) : (1 - b2f b : K) = 0 ↔ b = true := by cases b <;> simp [b2f]

theorem sumSq_nonneg (a : List K) : 0 ≤ sumSq a := by
  unfold sumSq
  induction a with
  | nil => simp
  | cons x xs ih =>
    simp only [List.map_cons, List.sum_cons]
    have := mul_self_nonneg x
    linarith

/-- `math.rotate` by the identity quaternion is the identity -/
theorem rotate_one (v : V3 K) : rotate v (Q4.one : Q4 K) = v := by
  cases v
  simp only [rotate, Q4.one, Q4.vec, V3.dot, V3.cross]
  congr 1 <;> ring

end order
end Brax.C16
