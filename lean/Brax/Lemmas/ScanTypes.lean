import Brax.Model.ScanTypes
import Brax.Lemmas.ScanLevels
/-!
# Layer B stage 2: the type-grouped `scan.link_types` computes the per-link slicing
(core Lean + Batteries only)
-/
namespace Brax.Kin

/-! ## offsets and slices -/

theorem offsets_length (w : LinkType → Nat) (ts : List LinkType) (o : Nat) :
    (offsets w ts o).length = ts.length := by
  induction ts generalizing o with
  | nil => rfl
  | cons t ts ih => simp [offsets, ih]

/-- every block ends inside `[o, o + Σ w)` -/
theorem offsets_bound (w : LinkType → Nat) (ts : List LinkType) (o i : Nat) (hi : i < ts.length) :
    o ≤ (offsets w ts o).getD i 0 ∧ (offsets w ts o).getD i 0 + w ts[i] ≤ o + (ts.map w).sum := by
  induction ts generalizing o i with
  | nil => simp at hi
  | cons t ts ih =>
    cases i with
    | zero => simp [offsets]
    | succ i =>
      have := ih (o + w t) i (by simpa using hi)
      simp only [offsets, List.getD_cons_succ, List.getElem_cons_succ, List.map_cons, List.sum_cons]
      omega

theorem slice_drop {β : Type} (xs : List β) (a b len : Nat) : slice (xs.drop a) b len = slice xs (a + b) len := by
  simp [slice, List.drop_drop]

theorem slice_length {β : Type} (xs : List β) (a len : Nat) (h : a + len ≤ xs.length) :
    (slice xs a len).length = len := by
  simp [slice]; omega

/-- gathering a contiguous index range is slicing -/
theorem map_range'_getD {β : Type} (xs : List β) (d : β) (a len : Nat) (h : a + len ≤ xs.length) :
    (List.range' a len).map (fun i => xs.getD i d) = slice xs a len := by
  apply List.ext_getElem
  · simp [slice]; omega
  · intro k h1 h2
    simp only [List.length_map, List.length_range'] at h1
    simp only [List.getElem_map, List.getElem_range', slice, List.getElem_take, List.getElem_drop, Nat.one_mul]
    rw [List.getD_eq_getElem?_getD, List.getElem?_eq_getElem (by omega)]; rfl

/-- **the per-link slicing, pointwise**: link `i` gets the slices at the running offsets -/
theorem linkSlices_getElem {α : Type} (ts : List LinkType) (Q QD : List α) (DS : List (DofP α)) (oq od : Nat)
    (i : Nat) (hi : i < ts.length) :
    (linkSlices ts (Q.drop oq) (QD.drop od) (DS.drop od))[i]'(by rw [linkSlices_length]; exact hi)
      = ⟨ts[i], slice Q ((offsets LinkType.qWidth ts oq).getD i 0) ts[i].qWidth,
          slice QD ((offsets LinkType.qdWidth ts od).getD i 0) ts[i].qdWidth,
          slice DS ((offsets LinkType.qdWidth ts od).getD i 0) ts[i].qdWidth⟩ := by
  induction ts generalizing oq od i with
  | nil => simp at hi
  | cons t ts ih =>
    cases i with
    | zero => simp [linkSlices, offsets, slice]
    | succ i =>
      simp only [linkSlices, List.getElem_cons_succ, offsets, List.getD_cons_succ, List.drop_drop]
      exact ih (oq + t.qWidth) (od + t.qdWidth) i (by simpa using hi)

/-! ## reshaping a flat batch back to rows -/

theorem rowsOf_flatten {β : Type} (w : Nat) (R : List (List β)) (hR : ∀ r ∈ R, r.length = w) :
    rowsOf w R.length R.flatten = R := by
  induction R with
  | nil => rfl
  | cons r R ih =>
    have hr : r.length = w := hR r (by simp)
    have ih' := ih (fun r' hr' => hR r' (by simp [hr']))
    unfold rowsOf at ih' ⊢
    rw [List.length_cons, List.range_succ_eq_map, List.map_cons, List.map_map]
    congr 1
    · simp [slice, List.flatten_cons, ← hr]
    · refine Eq.trans ?_ ih'
      apply List.map_congr_left
      intro k _
      simp only [Function.comp, slice, List.flatten_cons]
      have : (k + 1) * w = r.length + k * w := by rw [hr, Nat.add_mul]; omega
      rw [this, List.drop_append]
      have hd : List.drop (r.length + k * w) r = [] := List.drop_eq_nil_of_le (by omega)
      rw [hd]; simp

theorem map_range_getD' {ι κ : Type} (l : List ι) (d : ι) (G : ι → κ) :
    (List.range l.length).map (fun k => G (l.getD k d)) = l.map G := by
  apply List.ext_getElem
  · simp
  · intro k h1 h2
    simp only [List.getElem_map, List.getElem_range]
    rw [List.getD_eq_getElem?_getD, List.getElem?_eq_getElem (by simpa using h1)]; rfl

theorem mem_typLinks (ts : List LinkType) (t : LinkType) (i : Nat) :
    i ∈ typLinks ts t ↔ ∃ h : i < ts.length, ts[i] = t := by
  simp only [typLinks, List.mem_filter, List.mem_range, decide_eq_true_eq]
  constructor
  · rintro ⟨h1, h2⟩
    refine ⟨h1, ?_⟩
    rw [List.getElem?_eq_getElem h1] at h2
    exact Option.some.inj h2
  · rintro ⟨h1, h2⟩
    exact ⟨h1, by rw [List.getElem?_eq_getElem h1, h2]⟩

/-- one kind of input of one type's batch: gather + reshape = the slices of the links of that type -/
theorem rows_takeIdx {β : Type} (w : LinkType → Nat) (ts : List LinkType) (t : LinkType) (xs : List β) (d : β)
    (hlen : xs.length = (ts.map w).sum) :
    rowsOf (w t) (typLinks ts t).length (takeIdx xs d (typIdxs w ts t))
      = (typLinks ts t).map fun i => slice xs ((offsets w ts 0).getD i 0) (w t) := by
  have hflat : takeIdx xs d (typIdxs w ts t)
      = ((typLinks ts t).map fun i => slice xs ((offsets w ts 0).getD i 0) (w t)).flatten := by
    unfold takeIdx typIdxs
    rw [List.map_flatten, List.map_map]
    congr 1
    apply List.map_congr_left
    intro i hi
    obtain ⟨h1, h2⟩ := (mem_typLinks ts t i).mp hi
    have hb := (offsets_bound w ts 0 i h1).2
    rw [h2] at hb
    simp only [Function.comp]
    exact map_range'_getD xs d _ _ (by omega)
  rw [hflat]
  have := rowsOf_flatten (w t) ((typLinks ts t).map fun i => slice xs ((offsets w ts 0).getD i 0) (w t)) (by
    intro r hr
    obtain ⟨i, hi, rfl⟩ := List.mem_map.mp hr
    obtain ⟨h1, h2⟩ := (mem_typLinks ts t i).mp hi
    have hb := (offsets_bound w ts 0 i h1).2
    rw [h2] at hb
    exact slice_length xs _ _ (by omega))
  rw [List.length_map] at this
  exact this

/-- **one type's batch**, reshaped = the per-link slices of the links of that type -/
theorem typBatch_eq {α : Type} (ts : List LinkType) (q qd : List α) (ds : List (DofP α)) (dq : α) (dd : DofP α)
    (hq : q.length = (ts.map LinkType.qWidth).sum) (hqd : qd.length = (ts.map LinkType.qdWidth).sum)
    (hds : ds.length = (ts.map LinkType.qdWidth).sum) (t : LinkType) (dl : LinkIn α) :
    typBatch ts q qd ds dq dd t = (typLinks ts t).map fun i => (linkSlices ts q qd ds).getD i dl := by
  unfold typBatch
  simp only
  rw [rows_takeIdx LinkType.qWidth ts t q dq hq, rows_takeIdx LinkType.qdWidth ts t qd dq hqd,
    rows_takeIdx LinkType.qdWidth ts t ds dd hds]
  apply List.ext_getElem
  · simp
  · intro k h1 h2
    have hk : k < (typLinks ts t).length := by simpa using h1
    simp only [List.getElem_map, List.getElem_range]
    have e1 : ∀ {γ : Type} (S : Nat → List γ), ((typLinks ts t).map S).getD k [] = S (typLinks ts t)[k] := by
      intro γ S
      rw [List.getD_eq_getElem?_getD, List.getElem?_eq_getElem (by simpa using hk)]; simp
    rw [e1, e1, e1]
    have hmem := List.getElem_mem hk
    obtain ⟨hi1, hi2⟩ := (mem_typLinks ts t _).mp hmem
    have hls := linkSlices_getElem ts q qd ds 0 0 (typLinks ts t)[k] hi1
    simp only [List.drop_zero] at hls
    have e2 : (linkSlices ts q qd ds).getD (typLinks ts t)[k] dl
        = (linkSlices ts q qd ds)[(typLinks ts t)[k]]'(by rw [linkSlices_length]; exact hi1) := by
      rw [List.getD_eq_getElem?_getD, List.getElem?_eq_getElem (by rw [linkSlices_length]; exact hi1)]; rfl
    rw [e2, hls, hi2]

/-! ## the type order, grouping, tiling -/

theorem mem_typOrder (ts : List LinkType) (t : LinkType) : t ∈ typOrder ts ↔ t ∈ ts := by
  induction ts with
  | nil => simp [typOrder]
  | cons u ts ih =>
    simp only [typOrder, List.mem_cons, List.mem_filter, decide_eq_true_eq, ih]
    by_cases h : t = u
    · simp [h]
    · simp [h]

theorem nodup_typOrder (ts : List LinkType) : (typOrder ts).Nodup := by
  induction ts with
  | nil => simp [typOrder]
  | cons u ts ih =>
    simp only [typOrder, List.nodup_cons, List.mem_filter, decide_eq_true_eq]
    exact ⟨fun h => h.2 rfl, List.Nodup.sublist List.filter_sublist ih⟩

/-- grouping a list by a key (groups in any duplicate-free order containing all keys) and concatenating
the groups' blocks is a permutation of concatenating the blocks in the original order -/
theorem group_perm {κ γ : Type} [DecidableEq κ] (key : Nat → κ) (B : Nat → List γ) (order : List κ)
    (hnd : order.Nodup) (l : List Nat) (hl : ∀ i ∈ l, key i ∈ order) :
    List.Perm (order.map fun t => ((l.filter fun i => decide (key i = t)).map B).flatten).flatten
      (l.map B).flatten := by
  induction order generalizing l with
  | nil =>
    cases l with
    | nil => simp
    | cons x l => exact absurd (hl x (by simp)) (by simp)
  | cons t0 rest ih =>
    obtain ⟨ht0, hrest⟩ := List.nodup_cons.mp hnd
    simp only [List.map_cons, List.flatten_cons]
    -- the remaining groups only see the elements whose key is not t0
    have hrestEq : (rest.map fun t => ((l.filter fun i => decide (key i = t)).map B).flatten)
        = (rest.map fun t => (((l.filter fun i => !decide (key i = t0)).filter fun i => decide (key i = t)).map B).flatten) := by
      apply List.map_congr_left
      intro t ht
      rw [List.filter_filter]
      congr 2
      apply List.filter_congr
      intro i _
      by_cases h : key i = t
      · have hne : t ≠ t0 := fun e => ht0 (e ▸ ht)
        subst h
        simp [hne]
      · simp [h]
    rw [hrestEq]
    have hl' : ∀ i ∈ l.filter (fun i => !decide (key i = t0)), key i ∈ rest := by
      intro i hi
      obtain ⟨h1, h2⟩ := List.mem_filter.mp hi
      have := hl i h1
      rcases List.mem_cons.mp this with h | h
      · simp [h] at h2
      · exact h
    have ih' := ih hrest (l.filter fun i => !decide (key i = t0)) hl'
    refine List.Perm.trans (List.Perm.append_left _ ih') ?_
    rw [← List.flatten_append, ← List.map_append]
    exact List.Perm.flatten (List.Perm.map B (List.filter_append_perm _ l))

/-- the blocks of all links, in link order, tile `[o, o + Σ w)` -/
theorem blocks_tile (w : LinkType → Nat) (ts : List LinkType) (o : Nat) :
    ((List.range ts.length).map fun i => List.range' ((offsets w ts o).getD i 0) (w (ts.getD i .free))).flatten
      = List.range' o (ts.map w).sum := by
  induction ts generalizing o with
  | nil => simp
  | cons t ts ih =>
    rw [List.length_cons, List.range_succ_eq_map, List.map_cons, List.map_map, List.flatten_cons]
    simp only [offsets, List.getD_cons_zero, List.map_cons, List.sum_cons]
    have : (List.map ((fun i => List.range' ((o :: offsets w ts (o + w t)).getD i 0) (w ((t :: ts).getD i LinkType.free))) ∘ Nat.succ)
        (List.range ts.length)) = (List.range ts.length).map fun i =>
          List.range' ((offsets w ts (o + w t)).getD i 0) (w (ts.getD i .free)) := by
      apply List.map_congr_left
      intro i _
      simp [Function.comp]
    rw [this, ih (o + w t)]
    rw [List.range'_append_1] <;> rfl

/-! ## the output side -/

theorem getD_block {β : Type} (pre b rest : List β) (d : β) :
    (List.range' pre.length b.length).map (fun j => (pre ++ (b ++ rest)).getD j d) = b := by
  rw [map_range'_getD _ _ _ _ (by simp)]
  simp [slice]

/-- every block of a concatenation is the gather of its index range -/
theorem blocks_slices {β : Type} (wo : LinkType → Nat) (dy : β) (ts : List LinkType) (bl : List (List β))
    (hlen : bl.length = ts.length)
    (hw : ∀ k (h1 : k < bl.length) (h2 : k < ts.length), bl[k].length = wo ts[k])
    (pre : List β) (i : Nat) (hi : i < bl.length) :
    bl[i] = (List.range' ((offsets wo ts pre.length).getD i 0) bl[i].length).map
      (fun j => (pre ++ bl.flatten).getD j dy) := by
  induction ts generalizing bl pre i with
  | nil => simp at hlen; subst hlen; simp at hi
  | cons t ts ih =>
    cases bl with
    | nil => simp at hi
    | cons b bl =>
      have hb : b.length = wo t := hw 0 (by simp) (by simp)
      cases i with
      | zero =>
        simp only [List.getElem_cons_zero, offsets, List.getD_cons_zero, List.flatten_cons]
        exact (getD_block pre b bl.flatten dy).symm
      | succ i =>
        simp only [List.getElem_cons_succ, offsets, List.getD_cons_succ, List.flatten_cons]
        have := ih bl (by simpa using hlen)
          (fun k h1 h2 => by
            have := hw (k + 1) (by simpa using h1) (by simpa using h2)
            simp only [List.getElem_cons_succ] at this
            exact this)
          (pre ++ b) i (by simpa using hi)
        rw [List.length_append, hb, List.append_assoc] at this
        exact this

theorem flatten_length_of_widths {β : Type} (wo : LinkType → Nat) (ts : List LinkType) (bl : List (List β))
    (hlen : bl.length = ts.length)
    (hw : ∀ k (h1 : k < bl.length) (h2 : k < ts.length), bl[k].length = wo ts[k]) :
    bl.flatten.length = (ts.map wo).sum := by
  induction ts generalizing bl with
  | nil => simp at hlen; subst hlen; rfl
  | cons t ts ih =>
    cases bl with
    | nil => simp at hlen
    | cons b bl =>
      have hb : b.length = wo t := hw 0 (by simp) (by simp)
      have := ih bl (by simpa using hlen) (fun k h1 h2 => by
        have := hw (k + 1) (by simpa using h1) (by simpa using h2)
        simp only [List.getElem_cons_succ] at this
        exact this)
      simp [List.flatten_cons, hb, this]

/-- **Layer B stage 2, `scan.link_types`.**  The type-grouped algorithm as coded (group the links by type in
order of first appearance, gather each type's flat `q`/`qd`/dof index lists, reshape to rows, apply the
per-link function to every row, concatenate, reorder through the output kind's index list) computes
exactly the per-link slicing `linkSlices` followed by the per-link function — for every list of link types
and any inputs of the right total widths. -/
theorem scanLinkTypesCoded_eq {α β : Type} (g : LinkIn α → List β) (wo : LinkType → Nat) (ts : List LinkType)
    (q qd : List α) (ds : List (DofP α)) (dq : α) (dd : DofP α) (dy : β)
    (hq : q.length = (ts.map LinkType.qWidth).sum) (hqd : qd.length = (ts.map LinkType.qdWidth).sum)
    (hds : ds.length = (ts.map LinkType.qdWidth).sum) (hg : ∀ l, (g l).length = wo l.typ) :
    scanLinkTypesCoded g wo ts q qd ds dq dd dy = ((linkSlices ts q qd ds).map g).flatten := by
  let dl : LinkIn α := ⟨.free, [], [], []⟩
  have hLSlen : (linkSlices ts q qd ds).length = ts.length := linkSlices_length ts q qd ds
  -- per-link outputs, by index
  have hBl : (linkSlices ts q qd ds).map g
      = (List.range ts.length).map fun i => g ((linkSlices ts q qd ds).getD i dl) := by
    rw [← hLSlen]; exact (map_range_getD' (linkSlices ts q qd ds) dl g).symm
  have htyp : ∀ i (hi : i < ts.length), ((linkSlices ts q qd ds).getD i dl).typ = ts[i] := by
    intro i hi
    have h1 : i < (linkSlices ts q qd ds).length := by rw [hLSlen]; exact hi
    rw [List.getD_eq_getElem?_getD, List.getElem?_eq_getElem h1]
    simp only [Option.getD_some]
    have := linkSlices_typ ts q qd ds
    have h2 : ((linkSlices ts q qd ds).map (·.typ))[i]'(by simpa using h1) = ts[i] := by simp [this]
    simpa using h2
  generalize hflat : ((linkSlices ts q qd ds).map g).flatten = flat
  -- widths of the blocks
  have hbw : ∀ k (h1 : k < ((List.range ts.length).map fun i => g ((linkSlices ts q qd ds).getD i dl)).length)
      (h2 : k < ts.length),
      (((List.range ts.length).map fun i => g ((linkSlices ts q qd ds).getD i dl))[k]).length = wo ts[k] := by
    intro k h1 h2
    simp only [List.getElem_map, List.getElem_range]
    rw [hg, htyp k h2]
  have hflatlen : flat.length = (ts.map wo).sum := by
    rw [← hflat, hBl]
    exact flatten_length_of_widths wo ts _ (by simp) hbw
  -- every block is the gather of its index range out of the flat result
  have hblock : ∀ i (hi : i < ts.length), g ((linkSlices ts q qd ds).getD i dl)
      = (List.range' ((offsets wo ts 0).getD i 0) (wo ts[i])).map (fun j => flat.getD j dy) := by
    intro i hi
    have := blocks_slices wo dy ts ((List.range ts.length).map fun i => g ((linkSlices ts q qd ds).getD i dl))
      (by simp) hbw [] i (by simpa using hi)
    simp only [List.getElem_map, List.getElem_range, List.length_nil, List.nil_append] at this
    rw [← hBl, hflat] at this
    rw [hg, htyp i hi] at this
    exact this
  unfold scanLinkTypesCoded
  simp only
  -- the concatenated per-type outputs = the gather of the concatenated per-type index lists
  have hys : ((typOrder ts).map fun t => ((typBatch ts q qd ds dq dd t).map g).flatten).flatten
      = (((typOrder ts).map fun t => typIdxs wo ts t).flatten).map (fun j => flat.getD j dy) := by
    rw [List.map_flatten, List.map_map]
    congr 1
    apply List.map_congr_left
    intro t _
    simp only [Function.comp]
    rw [typBatch_eq ts q qd ds dq dd hq hqd hds t dl, List.map_map]
    unfold typIdxs
    rw [List.map_flatten, List.map_map]
    congr 1
    apply List.map_congr_left
    intro i hi
    obtain ⟨h1, h2⟩ := (mem_typLinks ts t i).mp hi
    simp only [Function.comp]
    rw [hblock i h1, h2]
  rw [hys]
  -- the concatenated index lists are a permutation of 0 … total-1
  have hperm : List.Perm (((typOrder ts).map fun t => typIdxs wo ts t).flatten) (List.range' 0 (ts.map wo).sum) := by
    rw [← blocks_tile wo ts 0]
    have hgp := group_perm (fun i => ts.getD i .free)
      (fun i => List.range' ((offsets wo ts 0).getD i 0) (wo (ts.getD i .free)))
      (typOrder ts) (nodup_typOrder ts) (List.range ts.length) (by
        intro i hi
        rw [mem_typOrder]
        have hi' : i < ts.length := by simpa using hi
        rw [List.getD_eq_getElem?_getD, List.getElem?_eq_getElem hi']
        exact List.getElem_mem hi')
    refine List.Perm.trans (List.Perm.of_eq ?_) hgp
    congr 1
    apply List.map_congr_left
    intro t _
    unfold typIdxs typLinks
    congr 1
    have hfilt : (List.range ts.length).filter (fun i => decide (ts[i]? = some t))
        = (List.range ts.length).filter (fun i => decide (ts.getD i .free = t)) := by
      apply List.filter_congr
      intro i hi
      have hi' : i < ts.length := by simpa using hi
      rw [List.getD_eq_getElem?_getD, List.getElem?_eq_getElem hi']
      simp
    rw [hfilt]
    apply List.map_congr_left
    intro i hi
    obtain ⟨_, h2⟩ := List.mem_filter.mp hi
    simp only [decide_eq_true_eq] at h2
    rw [h2]
  have hlen : (((typOrder ts).map fun t => typIdxs wo ts t).flatten).length = flat.length := by
    rw [hperm.length_eq, List.length_range', hflatlen]
  rw [hlen]
  apply List.ext_getElem
  · simp
  · intro j h1 h2
    simp only [List.getElem_map, List.getElem_range]
    have hj : j < flat.length := h2
    have hmem : j ∈ ((typOrder ts).map fun t => typIdxs wo ts t).flatten := by
      rw [hperm.mem_iff, List.mem_range'_1]
      omega
    rw [getD_map_idxOf _ _ _ _ hmem]
    rw [List.getD_eq_getElem?_getD, List.getElem?_eq_getElem hj]; rfl

end Brax.Kin
