import Brax.Lemmas.C04Spring
import Brax.Lemmas.C04Real
import Brax.Lemmas.KinEquiv
import Brax.Lemmas.Norm
/-!
# C05, dynamics part: one `spring.pipeline.step` commutes with a rigid transform of the scene

Stage lemmas (each useful on its own) and their composition `spring_step_equivariant`.
`g : Tf ℝ` with `g.rot.IsUnit` is the rigid transform; it acts on

* world/centre-of-mass poses and child anchors by `Tf.doTf g ·`, on world motions by `rotM g`
  (both parts rotated), on world forces by `rotF g`, on inverse inertias by `conjM g.rot`
  (`R·A·Rᵀ`);
* the parent anchor `a_p` of a **non-root** link by `Tf.doTf g ·`; the parent anchor of a *root*
  link is `link.transform ∘ link.joint` expressed in the (fixed) world frame, which
  `kinematics.world_to_joint` recomputes without looking at the state, so it is *unchanged*;
* the joint coordinates `j`, `jd` of non-root links: unchanged; of root links: recomputed by the
  root formulas of `world_to_joint` from the transformed child anchor / world velocity;
* the system: `gravity ↦ rotate gravity g.rot`, everything else unchanged.
-/
set_option linter.unusedSectionVars false
set_option linter.unusedSimpArgs false
set_option linter.unusedVariables false
namespace Brax.C05L
open Brax MC C04L KinEquiv

/-! ## 0. algebra: rotating forces, conjugating matrices, quaternion identities -/

/-- rotate a world force by `g` -/
def rotF (g : Tf ℝ) (f : Force ℝ) : Force ℝ := ⟨rotate f.ang g.rot, rotate f.vel g.rot⟩

/-- rotate every row of a matrix: `A ↦ A·Rᵀ` -/
def rowsRot (A : M3 ℝ) (q : Q4 ℝ) : M3 ℝ := ⟨rotate A.r0 q, rotate A.r1 q, rotate A.r2 q⟩
/-- rotate every column of a matrix: `A ↦ R·A` -/
def colsRot (A : M3 ℝ) (q : Q4 ℝ) : M3 ℝ := (rowsRot A.transpose q).transpose
/-- `A ↦ R·A·Rᵀ` -/
def conjM (q : Q4 ℝ) (A : M3 ℝ) : M3 ℝ := rowsRot (colsRot A q) q

theorem transpose_transpose (A : M3 ℝ) : A.transpose.transpose = A := by
  cases A with | mk a b c => cases a; cases b; cases c; rfl

theorem rowsRot_mul (A : M3 ℝ) (p q : Q4 ℝ) : rowsRot A (quatMul p q) = rowsRot (rowsRot A q) p := by
  simp only [rowsRot, rotate_quatMul]

theorem rowsRot_transpose (B : M3 ℝ) (g : Q4 ℝ) : (rowsRot B g).transpose = colsRot B.transpose g := by
  simp only [colsRot, transpose_transpose]

/-- row operations commute with column operations -/
theorem rows_cols_comm (C : M3 ℝ) (p q : Q4 ℝ) :
    rowsRot (colsRot C p) q = colsRot (rowsRot C q) p := by
  obtain ⟨⟨a0, a1, a2⟩, ⟨b0, b1, b2⟩, ⟨c0, c1, c2⟩⟩ := C
  simp only [rowsRot, colsRot, M3.transpose, rotate, V3.dot, V3.cross, Q4.vec]
  congr 1 <;> congr 1 <;> ring

/-- **`com.inv_inertia` is equivariant**: composing the link rotation with `g` on the left
conjugates the world inverse inertia by `R_g` (no hypothesis on `g`) -/
theorem invInertiaLink_mul (sc : ℝ) (it : Inertia ℝ) (g q : Q4 ℝ) :
    Com.invInertiaLink sc it (quatMul g q) = conjM g (Com.invInertiaLink sc it q) := by
  simp only [Com.invInertiaLink, quatMul_assoc]
  generalize quatMul q it.tf.rot = ri
  generalize (1 / HasPow.pow it.i.r0.x (1 - sc) : ℝ) = d0
  generalize (1 / HasPow.pow it.i.r1.y (1 - sc) : ℝ) = d1
  generalize (1 / HasPow.pow it.i.r2.z (1 - sc) : ℝ) = d2
  change rowsRot (rowsRot ⟨⟨d0, 0, 0⟩, ⟨0, d1, 0⟩, ⟨0, 0, d2⟩⟩ (quatMul g ri)).transpose (quatMul g ri)
    = conjM g (rowsRot (rowsRot ⟨⟨d0, 0, 0⟩, ⟨0, d1, 0⟩, ⟨0, 0, d2⟩⟩ ri).transpose ri)
  rw [rowsRot_mul, rowsRot_mul, rowsRot_transpose, rows_cols_comm, conjM]

theorem mulVec_rowsRot (C : M3 ℝ) (v : V3 ℝ) {g : Q4 ℝ} (hg : g.IsUnit) :
    M3.mulVec (rowsRot C g) (rotate v g) = M3.mulVec C v := by
  simp only [M3.mulVec, rowsRot, rotate_dot_unit _ _ hg]

theorem mulVec_colsRot (A : M3 ℝ) (v : V3 ℝ) (g : Q4 ℝ) :
    M3.mulVec (colsRot A g) v = rotate (M3.mulVec A v) g := by
  obtain ⟨⟨a0, a1, a2⟩, ⟨b0, b1, b2⟩, ⟨c0, c1, c2⟩⟩ := A
  simp only [M3.mulVec, rowsRot, colsRot, M3.transpose, rotate, V3.dot, V3.cross, Q4.vec]
  congr 1 <;> ring

/-- `(R A Rᵀ)(R v) = R (A v)` for a rotation -/
theorem mulVec_conjM (A : M3 ℝ) (v : V3 ℝ) {g : Q4 ℝ} (hg : g.IsUnit) :
    M3.mulVec (conjM g A) (rotate v g) = rotate (M3.mulVec A v) g := by
  rw [conjM, mulVec_rowsRot _ _ hg, mulVec_colsRot]

theorem quatInv_quatMul (a b : Q4 ℝ) : quatInv (quatMul a b) = quatMul (quatInv b) (quatInv a) := by
  simp only [quatInv, quatMul]; congr 1 <;> ring

theorem quatInv_one : quatInv (Q4.one : Q4 ℝ) = Q4.one := by
  simp [quatInv, Q4.one]

/-- `(0, R_g ω) ⊗ g = |g|² · g ⊗ (0, ω)` -/
theorem angToQuat_rotate_mul (w : V3 ℝ) (g : Q4 ℝ) :
    quatMul (angToQuat (rotate w g)) g = Q4.smul (Q4.normSq g) (quatMul g (angToQuat w)) := by
  simp only [angToQuat, rotate, quatMul, Q4.smul, Q4.normSq, V3.dot, V3.cross, Q4.vec]
  congr 1 <;> ring

theorem rotate_div (v : V3 ℝ) (m : ℝ) (q : Q4 ℝ) :
    rotate (⟨v.x / m, v.y / m, v.z / m⟩ : V3 ℝ) q
      = ⟨(rotate v q).x / m, (rotate v q).y / m, (rotate v q).z / m⟩ := by
  simp only [rotate, V3.dot, V3.cross, Q4.vec, div_eq_mul_inv]; congr 1 <;> ring

theorem rotate_zero_lit (q : Q4 ℝ) : rotate (⟨0, 0, 0⟩ : V3 ℝ) q = ⟨0, 0, 0⟩ := rotate_zero q
theorem rotate_zero0 (q : Q4 ℝ) : rotate (0 : V3 ℝ) q = 0 := rotate_zero q

theorem cross_zero_left (v : V3 ℝ) : V3.cross (V3.zero : V3 ℝ) v = V3.zero := by
  simp [V3.cross, V3.zero]

theorem rotF_zero (g : Tf ℝ) : rotF g (0 : Force ℝ) = 0 := by
  show (⟨rotate (0 : V3 ℝ) g.rot, rotate (0 : V3 ℝ) g.rot⟩ : Force ℝ) = ⟨0, 0⟩
  rw [rotate_zero0]
theorem rotF_add (g : Tf ℝ) (a b : Force ℝ) : rotF g (a + b) = rotF g a + rotF g b := by
  simp only [rotF, Force.add_def, rotate_add]
theorem rotF_sub (g : Tf ℝ) (a b : Force ℝ) : rotF g (a - b) = rotF g a - rotF g b := by
  simp only [rotF, Force.sub_def, rotate_sub]
theorem rotM_zero (g : Tf ℝ) : rotM g (0 : Motion ℝ) = 0 := by
  show (⟨rotate (0 : V3 ℝ) g.rot, rotate (0 : V3 ℝ) g.rot⟩ : Motion ℝ) = ⟨0, 0⟩
  rw [rotate_zero0]

/-! ## list bookkeeping -/
section lists
variable {β γ : Type}

theorem nth_map_lt [Inhabited β] [Inhabited γ] (l : List β) (F : β → γ) {i : Nat}
    (h : i < l.length) : nth (l.map F) i = F (nth l i) := by
  simp only [nth, List.getD_eq_getElem?_getD, List.getElem?_map, List.getElem?_eq_getElem h,
    Option.map_some, Option.getD_some]

theorem nth_map_dflt [Inhabited β] [Inhabited γ] (l : List β) (F : β → γ) (i : Nat)
    (hF : F default = default) : nth (l.map F) i = F (nth l i) := by
  by_cases h : i < l.length
  · exact nth_map_lt l F h
  · simp only [nth, List.getD_eq_getElem?_getD, List.getElem?_map,
      List.getElem?_eq_none (not_lt.mp h), Option.map_none, Option.getD_none, hF]

theorem map_eq_tab [Inhabited β] (l : List β) (F : β → γ) {n : Nat} (h : l.length = n) :
    l.map F = tab n fun i => F (nth l i) := by
  conv_lhs => rw [eq_tab_of_length h, tab_map]

theorem takeWrap_map [Inhabited β] [Inhabited γ] (l : List β) (F : β → γ) (p : Int)
    (h : 0 < l.length) : takeWrap (l.map F) p = F (takeWrap l p) := by
  have hlt : (p % (l.length : Int)).toNat < l.length := by
    have h0 : (0 : Int) < (l.length : Int) := by exact_mod_cast h
    have h1 := Int.emod_nonneg p (ne_of_gt h0)
    have h2 := Int.emod_lt_of_pos p h0
    omega
  simp only [takeWrap, List.length_map]
  exact nth_map_lt l F hlt

/-- `segment_sum` commutes with an additive map -/
theorem segmentSum_map {M M' : Type} [AddCommMonoid M] [AddCommMonoid M'] (F : M → M')
    (h0 : F 0 = 0) (hadd : ∀ a b, F (a + b) = F a + F b) (vals : List M) (ids : List Int) (n : Nat) :
    segmentSum (vals.map F) ids n = (segmentSum vals ids n).map F := by
  unfold segmentSum
  rw [tab_map]
  apply tab_congr
  intro k _
  induction vals generalizing ids with
  | nil => simp [h0]
  | cons v vs ih =>
    cases ids with
    | nil => simp [h0]
    | cons a as =>
      simp only [List.map_cons, List.zip_cons_cons, List.filterMap_cons]
      by_cases ha : a = (k : Int)
      · simp only [ha, if_true, List.sum_cons, hadd]
        rw [ih as]
      · simp only [ha, if_false]
        exact ih as

end lists

/-! ## 1. joint forces: only `(j, jd)` of non-free links are read -/

/-- `jointForces` is unchanged when `j`, `jd` are changed on free links only -/
theorem jointForces_congr (s : Sys ℝ) (j j' : List (Tf ℝ)) (jd jd' : List (Motion ℝ)) (tau : List ℝ)
    (h : ∀ i, i < s.numLinks → s.types[i]? ≠ some .free → nth j' i = nth j i ∧ nth jd' i = nth jd i) :
    Spring.jointForces s j' jd' tau = Spring.jointForces s j jd tau := by
  rw [eq_tab_of_length (l := Spring.jointForces s j' jd' tau) (n := s.numLinks)
      (by simp [Spring.jointForces, tab_length]),
    eq_tab_of_length (l := Spring.jointForces s j jd tau) (n := s.numLinks)
      (by simp [Spring.jointForces, tab_length])]
  apply tab_congr
  intro i hi
  by_cases hf : s.types[i]? = some .free
  · rw [jointForces_free s j' jd' tau hi hf, jointForces_free s j jd tau hi hf]
  · obtain ⟨h1, h2⟩ := h i hi hf
    simp only [Spring.jointForces, nth_tab _ hi, h1, h2]

/-! ## 2. assembly -/

theorem worldForce_eq (a : Tf ℝ) (f : Force ℝ) :
    Spring.worldForce a f = ⟨rotate f.ang a.rot, rotate f.vel a.rot⟩ := by
  simp only [Spring.worldForce, Tf.doForce, tfRot, cross_zero_left, V3.add_zero']

theorem worldForce_equiv (g a : Tf ℝ) (f : Force ℝ) :
    Spring.worldForce (Tf.doTf g a) f = rotF g (Spring.worldForce a f) := by
  simp only [worldForce_eq, rotF, Tf.doTf, rotate_quatMul]

theorem worldForce_zero (a : Tf ℝ) : Spring.worldForce a (0 : Force ℝ) = 0 := by
  rw [worldForce_eq]
  show (⟨rotate (0 : V3 ℝ) a.rot, rotate (0 : V3 ℝ) a.rot⟩ : Force ℝ) = ⟨0, 0⟩
  rw [rotate_zero0]

theorem doForce_tfPos_eq (p : V3 ℝ) (f : Force ℝ) :
    Tf.doForce (tfPos p) f = ⟨f.ang + V3.cross p f.vel, f.vel⟩ := by
  simp only [Tf.doForce, tfPos, rotate_one]

theorem doForce_tfPos_equiv (g : Tf ℝ) (hg : g.rot.IsUnit) (d : V3 ℝ) (f : Force ℝ) :
    Tf.doForce (tfPos (rotate d g.rot)) (rotF g f) = rotF g (Tf.doForce (tfPos d) f) := by
  simp only [doForce_tfPos_eq, rotF, rotate_add, rotate_cross_unit _ _ hg]

theorem doForce_tfPos_zero (p : V3 ℝ) : Tf.doForce (tfPos p) (0 : Force ℝ) = 0 := by
  rw [doForce_tfPos_eq]
  show (⟨(0 : V3 ℝ) + V3.cross p (0 : V3 ℝ), (0 : V3 ℝ)⟩ : Force ℝ) = ⟨0, 0⟩
  congr 1
  show (⟨0, 0, 0⟩ : V3 ℝ) + V3.cross p ⟨0, 0, 0⟩ = ⟨0, 0, 0⟩
  simp [V3.cross]

/-- the action of `g` on the parent anchors: a root's parent anchor lives in the fixed world frame
and is unchanged, every other one is composed with `g` -/
noncomputable def gAp (g : Tf ℝ) (parents : List Int) (a_p : List (Tf ℝ)) : List (Tf ℝ) :=
  tab parents.length fun i =>
    if parentOf parents i < 0 then nth a_p i else Tf.doTf g (nth a_p i)

/-- **the assembly of `joints.resolve` is equivariant**, for every joint-frame force that vanishes
on the roots -/
theorem assemble_equiv (g : Tf ℝ) (hg : g.rot.IsUnit) (parents : List Int)
    (a_p a_c x_i : List (Tf ℝ)) (jf : List (Force ℝ))
    (hpar : ∀ i, i < parents.length → -1 ≤ parentOf parents i ∧ parentOf parents i < (i : Int))
    (hxi : x_i.length = parents.length) (hac : a_c.length = parents.length)
    (hjf : ∀ i, i < parents.length → parentOf parents i < 0 → nth jf i = 0) :
    Spring.assemble parents (gAp g parents a_p) (a_c.map (Tf.doTf g)) (x_i.map (Tf.doTf g)) jf
      = (Spring.assemble parents a_p a_c x_i jf).map (rotF g) := by
  unfold Spring.assemble
  simp only []
  set n := parents.length with hn
  -- world-oriented force
  have hxf : ∀ i, i < n → Spring.worldForce (nth (gAp g parents a_p) i) (nth jf i)
      = rotF g (Spring.worldForce (nth a_p i) (nth jf i)) := by
    intro i hi
    rw [gAp, nth_tab _ hi]
    by_cases hr : parentOf parents i < 0
    · rw [if_pos hr, hjf i hi hr, worldForce_zero, rotF_zero]
    · rw [if_neg hr, worldForce_equiv]
  -- parent side, before the segment sum
  have hfp : (tab n fun i => Tf.doForce
        (tfPos ((nth (gAp g parents a_p) i).pos
          - (takeWrap (x_i.map (Tf.doTf g)) (parents.getD i (-1))).pos))
        (Spring.worldForce (nth (gAp g parents a_p) i) (nth jf i)))
      = (tab n fun i => Tf.doForce
        (tfPos ((nth a_p i).pos - (takeWrap x_i (parents.getD i (-1))).pos))
        (Spring.worldForce (nth a_p i) (nth jf i))).map (rotF g) := by
    rw [tab_map]
    apply tab_congr
    intro i hi
    rw [hxf i hi]
    by_cases hr : parentOf parents i < 0
    · rw [hjf i hi hr, worldForce_zero, rotF_zero, doForce_tfPos_zero, doForce_tfPos_zero, rotF_zero]
    · rw [takeWrap_map _ _ _ (by omega), gAp, nth_tab _ hi, if_neg hr, doTf_pos_sub,
        doForce_tfPos_equiv g hg]
  rw [hfp, segmentSum_map (rotF g) (rotF_zero g) (rotF_add g), tab_map]
  apply tab_congr
  intro i hi
  have hlen : i < (segmentSum (tab n fun i => Tf.doForce
        (tfPos ((nth a_p i).pos - (takeWrap x_i (parents.getD i (-1))).pos))
        (Spring.worldForce (nth a_p i) (nth jf i))) parents n).length := by
    simp [segmentSum, tab_length, hi]
  rw [nth_map_lt _ _ hlen, rotF_sub, hxf i hi, nth_map_lt _ _ (by omega), nth_map_lt _ _ (by omega),
    doTf_pos_sub, doForce_tfPos_equiv g hg]

/-! ## the transformed system -/

/-- the action of `g` on the system: only gravity is a world-frame quantity -/
noncomputable def gSys (g : Tf ℝ) (s : Sys ℝ) : Sys ℝ := { s with gravity := rotate s.gravity g.rot }

@[simp] theorem gSys_numLinks (g : Tf ℝ) (s : Sys ℝ) : (gSys g s).numLinks = s.numLinks := rfl
@[simp] theorem gSys_links (g : Tf ℝ) (s : Sys ℝ) : (gSys g s).links = s.links := rfl
@[simp] theorem gSys_parents (g : Tf ℝ) (s : Sys ℝ) : (gSys g s).parents = s.parents := rfl
@[simp] theorem gSys_dt (g : Tf ℝ) (s : Sys ℝ) : (gSys g s).dt = s.dt := rfl
@[simp] theorem gSys_velDamping (g : Tf ℝ) (s : Sys ℝ) : (gSys g s).velDamping = s.velDamping := rfl
@[simp] theorem gSys_angDamping (g : Tf ℝ) (s : Sys ℝ) : (gSys g s).angDamping = s.angDamping := rfl
@[simp] theorem gSys_gravity (g : Tf ℝ) (s : Sys ℝ) : (gSys g s).gravity = rotate s.gravity g.rot := rfl

/-! ## 3. acceleration update -/

theorem rotM_add (g : Tf ℝ) (a b : Motion ℝ) : rotM g (a + b) = rotM g a + rotM g b := by
  simp only [rotM, Motion.add_def, rotate_add]

/-- **`xd_i + (gravity + I⁻¹ f) dt` is equivariant** when gravity is rotated and the inverse
inertias are conjugated -/
theorem accelerate_equiv (g : Tf ℝ) (hg : g.rot.IsUnit) (s : Sys ℝ) (i_inv i_inv' : List (M3 ℝ))
    (mass : List ℝ) (xd_i : List (Motion ℝ)) (xf : List (Force ℝ))
    (hI : ∀ i, i < s.numLinks → nth i_inv' i = conjM g.rot (nth i_inv i)) :
    Spring.accelerate (gSys g s) i_inv' mass (xd_i.map (rotM g)) (xf.map (rotF g))
      = (Spring.accelerate s i_inv mass xd_i xf).map (rotM g) := by
  unfold Spring.accelerate
  rw [tab_map]
  apply tab_congr
  intro i hi
  simp only [gSys_numLinks, gSys_dt, gSys_gravity]
  rw [nth_map_dflt _ _ _ (rotM_zero g), nth_map_dflt _ _ _ (rotF_zero g), hI i hi, rotM_add]
  congr 1
  simp only [rotM, rotF, mulVec_conjM _ _ hg, rotate_smul, rotate_add, rotate_zero0, rotate_div]

/-! ## 4. collisions without contacts -/

theorem collide_nil (s : Sys ℝ) (st : Spring.State ℝ) :
    Spring.collide s st [] = tab s.numLinks fun _ => (0 : Motion ℝ) := by
  simp only [Spring.collide, List.isEmpty_nil, if_true]; rfl

theorem tab_zero_map_rotM (g : Tf ℝ) (n : Nat) :
    (tab n fun _ => (0 : Motion ℝ)).map (rotM g) = tab n fun _ => (0 : Motion ℝ) := by
  rw [tab_map]; apply tab_congr; intro i _; exact rotM_zero g

/-! ## 5. integrator -/

/-- `rot + (½ dt ω) ⊗ rot` -/
def qstep (r : Q4 ℝ) (w : V3 ℝ) (h dt : ℝ) : Q4 ℝ :=
  r + quatMul ⟨(angToQuat w).w * h * dt, (angToQuat w).x * h * dt, (angToQuat w).y * h * dt,
    (angToQuat w).z * h * dt⟩ r

/-- `rot / jp.linalg.norm(rot)` -/
noncomputable def qnorm (rot : Q4 ℝ) : Q4 ℝ :=
  ⟨rot.w / HasSqrt.sqrt (rot.w * rot.w + rot.x * rot.x + rot.y * rot.y + rot.z * rot.z),
   rot.x / HasSqrt.sqrt (rot.w * rot.w + rot.x * rot.x + rot.y * rot.y + rot.z * rot.z),
   rot.y / HasSqrt.sqrt (rot.w * rot.w + rot.x * rot.x + rot.y * rot.y + rot.z * rot.z),
   rot.z / HasSqrt.sqrt (rot.w * rot.w + rot.x * rot.x + rot.y * rot.y + rot.z * rot.z)⟩

theorem integrateLink_eq (s : Sys ℝ) (x : Tf ℝ) (xd xdv : Motion ℝ) :
    Spring.integrateLink s x xd xdv
      = (⟨x.pos + V3.smul s.dt
            (V3.smul (HasExp.exp (s.velDamping * s.dt)) xd.vel + xdv.vel),
          qnorm (qstep x.rot (V3.smul (HasExp.exp (s.angDamping * s.dt)) xd.ang + xdv.ang) 0.5 s.dt)⟩,
         ⟨V3.smul (HasExp.exp (s.angDamping * s.dt)) xd.ang + xdv.ang,
          V3.smul (HasExp.exp (s.velDamping * s.dt)) xd.vel + xdv.vel⟩) := rfl

theorem q4_smul_one (q : Q4 ℝ) : Q4.smul 1 q = q := by
  cases q; simp [Q4.smul]

/-- the quaternion update commutes with left multiplication by a unit quaternion -/
theorem qstep_equiv (g r : Q4 ℝ) (hg : g.IsUnit) (w : V3 ℝ) (h dt : ℝ) :
    qstep (quatMul g r) (rotate w g) h dt = quatMul g (qstep r w h dt) := by
  have hA : ∀ a : Q4 ℝ, quatMul ⟨a.w * h * dt, a.x * h * dt, a.y * h * dt, a.z * h * dt⟩ (quatMul g r)
      = quatMul (Q4.smul (h * dt) (quatMul a g)) r := by
    intro a; simp only [quatMul, Q4.smul]; congr 1 <;> ring
  have hB : ∀ a : Q4 ℝ, quatMul (Q4.smul (h * dt) (quatMul g a)) r
      = quatMul g (quatMul ⟨a.w * h * dt, a.x * h * dt, a.y * h * dt, a.z * h * dt⟩ r) := by
    intro a; simp only [quatMul, Q4.smul]; congr 1 <;> ring
  have hC : ∀ X : Q4 ℝ, quatMul g r + quatMul g X = quatMul g (r + X) := by
    intro X; simp only [quatMul, q4_add_def]; congr 1 <;> ring
  unfold qstep
  rw [hA, angToQuat_rotate_mul, hg, q4_smul_one, hB, hC]

theorem quatMul_div (g q : Q4 ℝ) (n : ℝ) :
    (⟨(quatMul g q).w / n, (quatMul g q).x / n, (quatMul g q).y / n, (quatMul g q).z / n⟩ : Q4 ℝ)
      = quatMul g ⟨q.w / n, q.x / n, q.y / n, q.z / n⟩ := by
  simp only [quatMul, div_eq_mul_inv]; congr 1 <;> ring

/-- the normalisation commutes with left multiplication by a unit quaternion -/
theorem qnorm_equiv (g q : Q4 ℝ) (hg : g.IsUnit) : qnorm (quatMul g q) = quatMul g (qnorm q) := by
  have hn : (quatMul g q).w * (quatMul g q).w + (quatMul g q).x * (quatMul g q).x
      + (quatMul g q).y * (quatMul g q).y + (quatMul g q).z * (quatMul g q).z
      = q.w * q.w + q.x * q.x + q.y * q.y + q.z * q.z := by
    have := normSq_quatMul g q
    rw [hg, one_mul] at this
    exact this
  unfold qnorm
  rw [hn, quatMul_div]

/-- **`integrator.integrate` is equivariant**, link by link (damping is a scalar; the quaternion
update and its normalisation commute with the left multiplication by `g.rot`) -/
theorem integrateLink_equiv (g : Tf ℝ) (hg : g.rot.IsUnit) (s : Sys ℝ) (x : Tf ℝ) (xd xdv : Motion ℝ) :
    Spring.integrateLink (gSys g s) (Tf.doTf g x) (rotM g xd) (rotM g xdv)
      = (Tf.doTf g (Spring.integrateLink s x xd xdv).1, rotM g (Spring.integrateLink s x xd xdv).2) := by
  rw [integrateLink_eq, integrateLink_eq]
  have hw : ∀ (c : ℝ) (a b : V3 ℝ), V3.smul c (rotate a g.rot) + rotate b g.rot
      = rotate (V3.smul c a + b) g.rot := by
    intro c a b; rw [rotate_add, rotate_smul]
  show (_ : Tf ℝ × Motion ℝ) = _
  simp only [rotM, hw, gSys_velDamping, gSys_angDamping, gSys_dt]
  refine Prod.ext ?_ rfl
  apply Tf.ext'
  · show (Tf.doTf g x).pos + V3.smul s.dt (rotate _ g.rot) = (Tf.doTf g _).pos
    simp only [Tf.doTf, rotate_add, rotate_smul, V3.add_assoc']
  · show qnorm (qstep (quatMul g.rot x.rot) (rotate _ g.rot) 0.5 s.dt) = quatMul g.rot (qnorm _)
    rw [qstep_equiv _ _ hg, qnorm_equiv _ _ hg]

theorem integrate_equiv (g : Tf ℝ) (hg : g.rot.IsUnit) (s : Sys ℝ) (x_i : List (Tf ℝ))
    (xd_i xdv_i : List (Motion ℝ)) (hx : x_i.length = s.numLinks) :
    Spring.integrate (gSys g s) (x_i.map (Tf.doTf g)) (xd_i.map (rotM g)) (xdv_i.map (rotM g))
      = ((Spring.integrate s x_i xd_i xdv_i).1.map (Tf.doTf g),
         (Spring.integrate s x_i xd_i xdv_i).2.map (rotM g)) := by
  unfold Spring.integrate
  simp only [gSys_numLinks, tab_map]
  have hrow : ∀ i, i < s.numLinks →
      Spring.integrateLink (gSys g s) (nth (x_i.map (Tf.doTf g)) i) (nth (xd_i.map (rotM g)) i)
        (nth (xdv_i.map (rotM g)) i)
      = (Tf.doTf g (Spring.integrateLink s (nth x_i i) (nth xd_i i) (nth xdv_i i)).1,
         rotM g (Spring.integrateLink s (nth x_i i) (nth xd_i i) (nth xdv_i i)).2) := by
    intro i hi
    rw [nth_map_lt _ _ (by omega), nth_map_dflt _ _ _ (rotM_zero g), nth_map_dflt _ _ _ (rotM_zero g),
      integrateLink_equiv g hg]
  refine Prod.ext ?_ ?_
  · apply tab_congr; intro i hi; simp only [hrow i hi]
  · apply tab_congr; intro i hi; simp only [hrow i hi]

/-! ## 6. back to world / joint coordinates -/

theorem doMotion_tfPos_eq (p : V3 ℝ) (m : Motion ℝ) :
    Tf.doMotion (tfPos p) m = ⟨m.ang, m.vel - V3.cross p m.ang⟩ := by
  simp only [Tf.doMotion, tfPos, quatInv_one, rotate_one]

theorem doMotion_tfPos_equiv (g : Tf ℝ) (hg : g.rot.IsUnit) (d : V3 ℝ) (m : Motion ℝ) :
    Tf.doMotion (tfPos (rotate d g.rot)) (rotM g m) = rotM g (Tf.doMotion (tfPos d) m) := by
  simp only [doMotion_tfPos_eq, rotM, rotate_sub, rotate_cross_unit _ _ hg]

/-- **`com.to_world` is equivariant** -/
theorem toWorld_equiv (g : Tf ℝ) (hg : g.rot.IsUnit) (s : Sys ℝ) (x_i : List (Tf ℝ))
    (xd_i : List (Motion ℝ)) (hx : x_i.length = s.numLinks) :
    Com.toWorld (gSys g s) (x_i.map (Tf.doTf g)) (xd_i.map (rotM g))
      = ((Com.toWorld s x_i xd_i).1.map (Tf.doTf g), (Com.toWorld s x_i xd_i).2.map (rotM g)) := by
  unfold Com.toWorld
  simp only [gSys_numLinks, gSys_links, tab_map]
  refine Prod.ext ?_ ?_
  · apply tab_congr; intro i hi
    simp only [nth_map_lt _ _ (show i < x_i.length by omega), Tf.doTf_assoc]
  · apply tab_congr; intro i hi
    simp only [nth_map_lt _ _ (show i < x_i.length by omega), nth_map_dflt _ _ _ (rotM_zero g),
      Tf.doTf_assoc, doTf_pos_sub, doMotion_tfPos_equiv g hg]

/-- **`com.inv_inertia` is equivariant** -/
theorem invInertia_equiv (g : Tf ℝ) (s : Sys ℝ) (x : List (Tf ℝ)) (hx : x.length = s.numLinks) :
    ∀ i, i < s.numLinks →
      nth (Com.invInertia (gSys g s) (x.map (Tf.doTf g))) i = conjM g.rot (nth (Com.invInertia s x) i) := by
  intro i hi
  unfold Com.invInertia
  rw [gSys_numLinks, nth_tab _ hi, nth_tab _ hi, nth_map_lt _ _ (by omega)]
  exact invInertiaLink_mul _ _ _ _

theorem invInertia_equiv_list (g : Tf ℝ) (s : Sys ℝ) (x : List (Tf ℝ)) (hx : x.length = s.numLinks) :
    Com.invInertia (gSys g s) (x.map (Tf.doTf g)) = (Com.invInertia s x).map (conjM g.rot) := by
  unfold Com.invInertia
  rw [tab_map]
  apply tab_congr
  intro i hi
  have hi' : i < s.numLinks := hi
  rw [nth_map_lt _ _ (by omega)]
  exact invInertiaLink_mul _ _ _ _

/-! ### `kinematics.world_to_joint` -/

theorem toLocal_equiv (g : Tf ℝ) (hg : g.rot.IsUnit) (a b : Tf ℝ) :
    Tf.toLocal (Tf.doTf g a) (Tf.doTf g b) = Tf.toLocal a b := by
  unfold Tf.toLocal
  rw [doTf_pos_sub]
  have hr : ∀ t : Tf ℝ, (Tf.doTf g t).rot = quatMul g.rot t.rot := fun _ => rfl
  rw [hr, hr, quatInv_quatMul, rotate_quatMul, rotate_inv_rotate_unit _ hg, quatMul_assoc,
    ← quatMul_assoc (quatInv g.rot), quatInv_mul_unit hg, one_quatMul]

/-- the joint-frame velocity of `world_to_joint` from the parent pose/velocity, the parent anchor
and the link's world velocity -/
def jdOf (xp a_p : Tf ℝ) (xdp xdi : Motion ℝ) : Motion ℝ :=
  ⟨invRotate (xdi.ang - (Tf.doMotion ⟨xp.pos - a_p.pos, Q4.one⟩ xdp).ang) a_p.rot,
   invRotate (xdi.vel - (Tf.doMotion ⟨xp.pos - a_p.pos, Q4.one⟩ xdp).vel) a_p.rot⟩

theorem doMotion_pos_eq (p : V3 ℝ) (m : Motion ℝ) :
    Tf.doMotion ⟨p, Q4.one⟩ m = ⟨m.ang, m.vel - V3.cross p m.ang⟩ := doMotion_tfPos_eq p m

theorem jdOf_equiv (g : Tf ℝ) (hg : g.rot.IsUnit) (xp a_p : Tf ℝ) (xdp xdi : Motion ℝ) :
    jdOf (Tf.doTf g xp) (Tf.doTf g a_p) (rotM g xdp) (rotM g xdi) = jdOf xp a_p xdp xdi := by
  unfold jdOf
  have hr : (Tf.doTf g a_p).rot = quatMul g.rot a_p.rot := rfl
  simp only [doMotion_pos_eq, doTf_pos_sub, rotM, invRotate, hr, quatInv_quatMul, rotate_quatMul,
    rotate_cross_unit _ _ hg, ← rotate_sub, rotate_inv_rotate_unit _ hg]

theorem v3_sub_zero (a : V3 ℝ) : a - V3.zero = a := by
  cases a; simp [V3.sub_def, V3.zero]

theorem jdOf_zero (xp a_p : Tf ℝ) (xdi : Motion ℝ) :
    jdOf xp a_p Motion.zero xdi = ⟨invRotate xdi.ang a_p.rot, invRotate xdi.vel a_p.rot⟩ := by
  unfold jdOf
  simp only [doMotion_pos_eq, Motion.zero, KinVel.cross_zero_right, v3_sub_zero]

/-- one row of `world_to_joint`: `(j, jd, a_p, a_c)` -/
def w2jRow (s : Sys ℝ) (x : List (Tf ℝ)) (xd : List (Motion ℝ)) (i : Nat) :
    Tf ℝ × Motion ℝ × Tf ℝ × Tf ℝ :=
  let xp := Kin.takeParent x Tf.id (parentOf s.parents i)
  let xdp := Kin.takeParent xd Motion.zero (parentOf s.parents i)
  let a_p := Tf.doTf (Tf.doTf xp (nth s.links i).tf) (nth s.links i).joint
  let a_c := Tf.doTf (nth x i) (nth s.links i).joint
  (Tf.toLocal a_c a_p, jdOf xp a_p xdp (nth xd i), a_p, a_c)

theorem worldToJoint_eq_tab (s : Sys ℝ) (x : List (Tf ℝ)) (xd : List (Motion ℝ)) {n : Nat}
    (hl : s.links.length = n) (hx : x.length = n) (hxd : xd.length = n) :
    Kin.worldToJoint s x xd = tab n (w2jRow s x xd) := by
  unfold Kin.worldToJoint tab
  rw [hl, ← List.filterMap_eq_map]
  apply List.filterMap_congr
  intro i hi
  have hi' := List.mem_range.mp hi
  have h1 : s.links[i]? = some (nth s.links i) := by
    rw [List.getElem?_eq_getElem (by omega)]
    simp [nth, List.getD_eq_getElem?_getD, List.getElem?_eq_getElem (show i < s.links.length by omega)]
  have h2 : x[i]? = some (nth x i) := by
    rw [List.getElem?_eq_getElem (by omega)]
    simp [nth, List.getD_eq_getElem?_getD, List.getElem?_eq_getElem (show i < x.length by omega)]
  have h3 : xd[i]? = some (nth xd i) := by
    rw [List.getElem?_eq_getElem (by omega)]
    simp [nth, List.getD_eq_getElem?_getD, List.getElem?_eq_getElem (show i < xd.length by omega)]
  simp only [h1, h2, h3, Option.bind_eq_bind, Option.bind_some, Function.comp]
  rfl

theorem takeParent_neg_one {β : Type} (xs : List β) (d : β) : Kin.takeParent xs d (-1) = d := by
  unfold Kin.takeParent
  have h : ((-1 : Int) % ((xs.length : Int) + 1)).toNat = xs.length := by
    have : (-1 : Int) % ((xs.length : Int) + 1) = (xs.length : Int) := by
      have h1 : (-1 : Int) % ((xs.length : Int) + 1)
          = ((-1) + ((xs.length : Int) + 1)) % ((xs.length : Int) + 1) := (Int.add_emod_right (-1) ((xs.length : Int) + 1)).symm
      rw [h1, show (-1 : Int) + ((xs.length : Int) + 1) = (xs.length : Int) by ring,
        Int.emod_eq_of_lt (by omega) (by omega)]
    rw [this]; simp
  simp only [h, List.getD_eq_getElem?_getD]
  simp

theorem takeParent_map_lt {β γ : Type} (xs : List β) (F : β → γ) (d : β) (d' : γ) (p : Int)
    (h0 : 0 ≤ p) (hlt : p < (xs.length : Int)) :
    Kin.takeParent (xs.map F) d' p = F (Kin.takeParent xs d p) := by
  unfold Kin.takeParent
  obtain ⟨m, rfl⟩ := Int.eq_ofNat_of_zero_le h0
  have hm : m < xs.length := by exact_mod_cast hlt
  have h : ((m : Int) % ((xs.length : Int) + 1)).toNat = m := by
    rw [Int.emod_eq_of_lt (by omega) (by omega)]; simp
  simp only [List.length_map, h, List.getD_eq_getElem?_getD]
  rw [List.getElem?_append_left (by simpa using hm), List.getElem?_append_left hm,
    List.getElem?_map, List.getElem?_eq_getElem hm]
  simp

/-- **`world_to_joint` is equivariant**, row by row: a non-root link keeps `(j, jd)` and has both
anchors composed with `g`; a root keeps its (world-fixed) parent anchor, has its child anchor
composed with `g`, and its `(j, jd)` are those of the transformed child anchor / world velocity -/
theorem w2jRow_equiv (g : Tf ℝ) (hg : g.rot.IsUnit) (s : Sys ℝ) (x : List (Tf ℝ))
    (xd : List (Motion ℝ)) {n : Nat} (hx : x.length = n) (hxd : xd.length = n) {i : Nat} (hi : i < n)
    (hpar : -1 ≤ parentOf s.parents i ∧ parentOf s.parents i < (i : Int)) :
    w2jRow (gSys g s) (x.map (Tf.doTf g)) (xd.map (rotM g)) i
      = if parentOf s.parents i < 0 then
          (Tf.toLocal (Tf.doTf g (w2jRow s x xd i).2.2.2) (w2jRow s x xd i).2.2.1,
           ⟨invRotate (rotate (nth xd i).ang g.rot) (w2jRow s x xd i).2.2.1.rot,
            invRotate (rotate (nth xd i).vel g.rot) (w2jRow s x xd i).2.2.1.rot⟩,
           (w2jRow s x xd i).2.2.1, Tf.doTf g (w2jRow s x xd i).2.2.2)
        else
          ((w2jRow s x xd i).1, (w2jRow s x xd i).2.1, Tf.doTf g (w2jRow s x xd i).2.2.1,
           Tf.doTf g (w2jRow s x xd i).2.2.2) := by
  by_cases hr : parentOf s.parents i < 0
  · have hp : parentOf s.parents i = -1 := by omega
    rw [if_pos hr]
    simp only [w2jRow, gSys_parents, gSys_links, hp, takeParent_neg_one, jdOf_zero,
      nth_map_lt _ _ (show i < x.length by omega), nth_map_lt _ _ (show i < xd.length by omega),
      Tf.doTf_assoc, rotM]
  · rw [if_neg hr]
    have h0 : 0 ≤ parentOf s.parents i := by omega
    have h1 : parentOf s.parents i < (x.length : Int) := by omega
    have h2 : parentOf s.parents i < (xd.length : Int) := by omega
    simp only [w2jRow, gSys_parents, gSys_links,
      takeParent_map_lt x (Tf.doTf g) Tf.id Tf.id _ h0 h1,
      takeParent_map_lt xd (rotM g) Motion.zero Motion.zero _ h0 h2,
      nth_map_lt _ _ (show i < x.length by omega), nth_map_lt _ _ (show i < xd.length by omega),
      Tf.doTf_assoc, toLocal_equiv g hg, jdOf_equiv g hg]

/-! ## the action of `g` on a state -/

/-- root links: `j` recomputed (as `world_to_joint` does for a root) from the transformed child
anchor and the world-fixed parent anchor; other links: unchanged -/
noncomputable def gJ (g : Tf ℝ) (parents : List Int) (a_p a_c j : List (Tf ℝ)) : List (Tf ℝ) :=
  tab parents.length fun i =>
    if parentOf parents i < 0 then Tf.toLocal (Tf.doTf g (nth a_c i)) (nth a_p i) else nth j i

/-- root links: `jd` recomputed (as `world_to_joint` does for a root) from the rotated world
velocity; other links: unchanged -/
noncomputable def gJd (g : Tf ℝ) (parents : List Int) (a_p : List (Tf ℝ)) (xd jd : List (Motion ℝ)) :
    List (Motion ℝ) :=
  tab parents.length fun i =>
    if parentOf parents i < 0 then
      ⟨invRotate (rotate (nth xd i).ang g.rot) (nth a_p i).rot,
       invRotate (rotate (nth xd i).vel g.rot) (nth a_p i).rot⟩
    else nth jd i

/-- **the rigid transform `g` acting on a spring state.**  `q'`, `qd'` are the generalized
coordinates of the transformed state (the coordinates of the free roots change, see `ActAgree`). -/
noncomputable def gState (g : Tf ℝ) (s : Sys ℝ) (st : Spring.State ℝ) (q' qd' : List ℝ) :
    Spring.State ℝ :=
  { q := q', qd := qd',
    x := st.x.map (Tf.doTf g), xd := st.xd.map (rotM g),
    x_i := st.x_i.map (Tf.doTf g), xd_i := st.xd_i.map (rotM g),
    j := gJ g s.parents st.a_p st.a_c st.j,
    jd := gJd g s.parents st.a_p st.xd st.jd,
    a_p := gAp g s.parents st.a_p,
    a_c := st.a_c.map (Tf.doTf g),
    i_inv := st.i_inv.map (conjM g.rot),
    mass := st.mass }

/-- **`kinematics.world_to_joint` is equivariant** (list form): the four outputs `(j, jd, a_p, a_c)`
of the transformed world poses/velocities are the action of `g` on the four outputs -/
theorem worldToJoint_equiv (g : Tf ℝ) (hg : g.rot.IsUnit) (s : Sys ℝ) (x : List (Tf ℝ))
    (xd : List (Motion ℝ)) (hfr : FreeRooted s) (hlinks : s.links.length = s.numLinks)
    (hx : x.length = s.numLinks) (hxd : xd.length = s.numLinks) :
    (Kin.worldToJoint (gSys g s) (x.map (Tf.doTf g)) (xd.map (rotM g))).map (·.1)
        = gJ g s.parents ((Kin.worldToJoint s x xd).map (·.2.2.1)) ((Kin.worldToJoint s x xd).map (·.2.2.2))
            ((Kin.worldToJoint s x xd).map (·.1))
    ∧ (Kin.worldToJoint (gSys g s) (x.map (Tf.doTf g)) (xd.map (rotM g))).map (·.2.1)
        = gJd g s.parents ((Kin.worldToJoint s x xd).map (·.2.2.1)) xd ((Kin.worldToJoint s x xd).map (·.2.1))
    ∧ (Kin.worldToJoint (gSys g s) (x.map (Tf.doTf g)) (xd.map (rotM g))).map (·.2.2.1)
        = gAp g s.parents ((Kin.worldToJoint s x xd).map (·.2.2.1))
    ∧ (Kin.worldToJoint (gSys g s) (x.map (Tf.doTf g)) (xd.map (rotM g))).map (·.2.2.2)
        = ((Kin.worldToJoint s x xd).map (·.2.2.2)).map (Tf.doTf g) := by
  have hW' := worldToJoint_eq_tab (gSys g s) (x.map (Tf.doTf g)) (xd.map (rotM g))
    (n := s.numLinks) hlinks (by simp [hx]) (by simp [hxd])
  have hW := worldToJoint_eq_tab s x xd hlinks hx hxd
  have hrow : ∀ i, i < s.numLinks → _ := fun i hi =>
    w2jRow_equiv g hg s x xd hx hxd hi (hfr.hpar i hi)
  refine ⟨?_, ?_, ?_, ?_⟩
  · rw [hW', hW, tab_map, tab_map, tab_map, tab_map, gJ, hfr.hlen]
    apply tab_congr
    intro i hi
    rw [hrow i hi, nth_tab _ hi, nth_tab _ hi, nth_tab _ hi]
    by_cases hr : parentOf s.parents i < 0
    · rw [if_pos hr, if_pos hr]
    · rw [if_neg hr, if_neg hr]
  · rw [hW', hW, tab_map, tab_map, tab_map, gJd, hfr.hlen]
    apply tab_congr
    intro i hi
    rw [hrow i hi, nth_tab _ hi, nth_tab _ hi]
    by_cases hr : parentOf s.parents i < 0
    · rw [if_pos hr, if_pos hr]
    · rw [if_neg hr, if_neg hr]
  · rw [hW', hW, tab_map, tab_map, gAp, hfr.hlen]
    apply tab_congr
    intro i hi
    rw [hrow i hi, nth_tab _ hi]
    by_cases hr : parentOf s.parents i < 0
    · rw [if_pos hr, if_pos hr]
    · rw [if_neg hr, if_neg hr]
  · rw [hW', hW, tab_map, tab_map, tab_map]
    apply tab_congr
    intro i hi
    rw [hrow i hi]
    by_cases hr : parentOf s.parents i < 0
    · rw [if_pos hr]
    · rw [if_neg hr]

/-- the generalized coordinates of the two states agree wherever an actuator reads them.  (A
rigid transform of the scene changes only the 7 + 6 coordinates of the free roots; brax actuators
drive hinge/slide dofs, which belong to non-root links.) -/
def ActAgree (s : Sys ℝ) (q qd q' qd' : List ℝ) : Prop :=
  ∀ a ∈ s.acts, nthS q' a.qId = nthS q a.qId ∧ nthS qd' a.qdId = nthS qd a.qdId

theorem zipWith_congr_mem {β γ δ : Type} (f f' : β → γ → δ) (as : List β) (us : List γ)
    (h : ∀ a ∈ as, ∀ u, f a u = f' a u) : List.zipWith f as us = List.zipWith f' as us := by
  induction as generalizing us with
  | nil => simp
  | cons a as ih =>
    cases us with
    | nil => simp
    | cons u us =>
      simp only [List.zipWith_cons_cons]
      rw [h a (by simp) u, ih us (fun b hb => h b (by simp [hb]))]

/-- `actuator.to_tau` reads `q`, `qd` only at the actuated coordinates (and not gravity) -/
theorem toTau_congr (g : Tf ℝ) (s : Sys ℝ) (act q qd q' qd' : List ℝ) (h : ActAgree s q qd q' qd') :
    toTau (gSys g s) act q' qd' = toTau s act q qd := by
  unfold toTau
  show (if s.acts.length = 0 then List.replicate s.nv 0 else _) = _
  by_cases h0 : s.acts.length = 0
  · rw [if_pos h0, if_pos h0]
  · rw [if_neg h0, if_neg h0]
    have hz := zipWith_congr_mem (fun a u => actForce a u (nthS q' a.qId) (nthS qd' a.qdId))
      (fun a u => actForce a u (nthS q a.qId) (nthS qd a.qdId)) s.acts act
      (by intro a ha u; simp only [(h a ha).1, (h a ha).2])
    show segmentSum (List.zipWith _ s.acts act) _ s.nv = _
    rw [hz]
    rfl

/-! ## the contact-free step, stage by stage -/

/-- `xd_i` after the acceleration update -/
noncomputable def midXd (s : Sys ℝ) (st : Spring.State ℝ) (act : List ℝ) : List (Motion ℝ) :=
  Spring.accelerate s (Com.invInertia s st.x) st.mass st.xd_i
    (Spring.resolve s st (toTau s act st.q st.qd))
/-- `(x_i, xd_i)` after the integrator (no contacts: `xdv_i = 0`) -/
noncomputable def stepXi (s : Sys ℝ) (st : Spring.State ℝ) (act : List ℝ) :
    List (Tf ℝ) × List (Motion ℝ) :=
  Spring.integrate s st.x_i (midXd s st act) (tab s.numLinks fun _ => (0 : Motion ℝ))
/-- `(x, xd)` after the step -/
noncomputable def stepXw (s : Sys ℝ) (st : Spring.State ℝ) (act : List ℝ) :
    List (Tf ℝ) × List (Motion ℝ) :=
  Com.toWorld s (stepXi s st act).1 (stepXi s st act).2
/-- `(j, jd, a_p, a_c)` after the step -/
noncomputable def stepW (s : Sys ℝ) (st : Spring.State ℝ) (act : List ℝ) :
    List (Tf ℝ × Motion ℝ × Tf ℝ × Tf ℝ) :=
  Kin.worldToJoint s (stepXw s st act).1 (stepXw s st act).2

/-- `pipeline.step` without contacts, field by field -/
theorem step_nil_eq (inv : List (Tf ℝ) → List (Motion ℝ) → List ℝ × List ℝ) (s : Sys ℝ)
    (st : Spring.State ℝ) (act : List ℝ) :
    Spring.step inv (fun _ => []) s st act
      = { q := (inv ((stepW s st act).map (·.1)) ((stepW s st act).map (·.2.1))).1,
          qd := (inv ((stepW s st act).map (·.1)) ((stepW s st act).map (·.2.1))).2,
          x := (stepXw s st act).1, xd := (stepXw s st act).2,
          x_i := (stepXi s st act).1, xd_i := (stepXi s st act).2,
          j := (stepW s st act).map (·.1), jd := (stepW s st act).map (·.2.1),
          a_p := (stepW s st act).map (·.2.2.1), a_c := (stepW s st act).map (·.2.2.2),
          i_inv := Com.invInertia s st.x, mass := st.mass } := rfl

theorem step_q (inv : List (Tf ℝ) → List (Motion ℝ) → List ℝ × List ℝ)
    (cf : List (Tf ℝ) → List (Contact ℝ)) (s : Sys ℝ) (st : Spring.State ℝ) (act : List ℝ) :
    (Spring.step inv cf s st act).q
      = (inv (Spring.step inv cf s st act).j (Spring.step inv cf s st act).jd).1 := rfl
theorem step_qd (inv : List (Tf ℝ) → List (Motion ℝ) → List ℝ × List ℝ)
    (cf : List (Tf ℝ) → List (Contact ℝ)) (s : Sys ℝ) (st : Spring.State ℝ) (act : List ℝ) :
    (Spring.step inv cf s st act).qd
      = (inv (Spring.step inv cf s st act).j (Spring.step inv cf s st act).jd).2 := rfl
theorem step_mass (inv : List (Tf ℝ) → List (Motion ℝ) → List ℝ × List ℝ)
    (cf : List (Tf ℝ) → List (Contact ℝ)) (s : Sys ℝ) (st : Spring.State ℝ) (act : List ℝ) :
    (Spring.step inv cf s st act).mass = st.mass := rfl
theorem gState_mass (g : Tf ℝ) (s : Sys ℝ) (st : Spring.State ℝ) (q' qd' : List ℝ) :
    (gState g s st q' qd').mass = st.mass := rfl

/-! ## composition -/

/-- the three array lengths the proof reads (a consequence of `State.WF`): `g` does not fix the
default pose `Transform.zero` that the model returns outside an array, so the arrays of *poses*
whose rows are read through `map` must really have one row per link -/
structure LenOK (s : Sys ℝ) (st : Spring.State ℝ) : Prop where
  x : st.x.length = s.numLinks
  x_i : st.x_i.length = s.numLinks
  a_c : st.a_c.length = s.numLinks

theorem LenOK.of_wf {s : Sys ℝ} {st : Spring.State ℝ} (h : Spring.State.WF s st = true) : LenOK s st := by
  simp only [Spring.State.WF, Bool.and_eq_true, beq_iff_eq] at h
  obtain ⟨⟨⟨⟨⟨⟨⟨⟨⟨⟨⟨_, _⟩, h1⟩, h2⟩, h3⟩, h4⟩, h5⟩, h6⟩, h7⟩, h8⟩, _⟩, _⟩ := h
  exact ⟨h1, h3, h8⟩

section compose
variable (g : Tf ℝ) (hg : g.rot.IsUnit) (s : Sys ℝ) (st : Spring.State ℝ) (act q' qd' : List ℝ)
  (hfr : FreeRooted s) (hwf : LenOK s st) (hact : ActAgree s st.q st.qd q' qd')
include hg hfr hwf hact

/-- stages 1+2: `joints.resolve` is equivariant -/
theorem resolve_equiv :
    Spring.resolve (gSys g s) (gState g s st q' qd') (toTau (gSys g s) act q' qd')
      = (Spring.resolve s st (toTau s act st.q st.qd)).map (rotF g) := by
  have hx := hwf.x
  have hxi := hwf.x_i
  have hac := hwf.a_c
  rw [toTau_congr g s act _ _ _ _ hact]
  generalize toTau s act st.q st.qd = tau
  have hjf : Spring.jointForces (gSys g s) (gJ g s.parents st.a_p st.a_c st.j)
      (gJd g s.parents st.a_p st.xd st.jd) tau = Spring.jointForces s st.j st.jd tau := by
    show Spring.jointForces s _ _ tau = _
    apply jointForces_congr
    intro i hi hnf
    have hnr : ¬ parentOf s.parents i < 0 := by
      intro hr
      have := (hfr.hpar i hi).1
      exact hnf (hfr.hroot i hi (by omega))
    have hi' : i < s.parents.length := by rw [hfr.hlen]; exact hi
    simp only [gJ, gJd, nth_tab _ hi', if_neg hnr, and_self]
  show Spring.assemble s.parents (gAp g s.parents st.a_p) (st.a_c.map (Tf.doTf g))
      (st.x_i.map (Tf.doTf g)) (Spring.jointForces (gSys g s) (gJ g s.parents st.a_p st.a_c st.j)
        (gJd g s.parents st.a_p st.xd st.jd) tau) = _
  rw [hjf]
  apply assemble_equiv g hg
  · intro i hi; exact hfr.hpar i (by rw [← hfr.hlen]; exact hi)
  · rw [hfr.hlen]; exact hxi
  · rw [hfr.hlen]; exact hac
  · intro i hi hr
    have hi' : i < s.numLinks := by rw [← hfr.hlen]; exact hi
    have := (hfr.hpar i hi').1
    exact jointForces_free s st.j st.jd tau hi' (hfr.hroot i hi' (by omega))

/-- stages 1–3: the velocity after the acceleration update is rotated -/
theorem midXd_equiv :
    midXd (gSys g s) (gState g s st q' qd') act = (midXd s st act).map (rotM g) := by
  have hx := hwf.x
  have hxi := hwf.x_i
  have hac := hwf.a_c
  unfold midXd
  show Spring.accelerate (gSys g s) (Com.invInertia (gSys g s) (st.x.map (Tf.doTf g))) st.mass
    (st.xd_i.map (rotM g))
    (Spring.resolve (gSys g s) (gState g s st q' qd') (toTau (gSys g s) act q' qd')) = _
  rw [resolve_equiv g hg s st act q' qd' hfr hwf hact]
  exact accelerate_equiv g hg s _ _ st.mass st.xd_i _ (invInertia_equiv g s st.x hx)

/-- stages 1–5 -/
theorem stepXi_equiv :
    stepXi (gSys g s) (gState g s st q' qd') act
      = ((stepXi s st act).1.map (Tf.doTf g), (stepXi s st act).2.map (rotM g)) := by
  have hx := hwf.x
  have hxi := hwf.x_i
  have hac := hwf.a_c
  unfold stepXi
  rw [midXd_equiv g hg s st act q' qd' hfr hwf hact]
  show Spring.integrate (gSys g s) (st.x_i.map (Tf.doTf g)) _ (tab s.numLinks fun _ => (0 : Motion ℝ)) = _
  have h := integrate_equiv g hg s st.x_i (midXd s st act) (tab s.numLinks fun _ => (0 : Motion ℝ)) hxi
  rw [tab_zero_map_rotM] at h
  exact h

theorem stepXi_length : (stepXi s st act).1.length = s.numLinks ∧ (stepXi s st act).2.length = s.numLinks := by
  simp [stepXi, Spring.integrate, tab_length]

/-- stages 1–6a: world poses and velocities after the step -/
theorem stepXw_equiv :
    stepXw (gSys g s) (gState g s st q' qd') act
      = ((stepXw s st act).1.map (Tf.doTf g), (stepXw s st act).2.map (rotM g)) := by
  unfold stepXw
  rw [stepXi_equiv g hg s st act q' qd' hfr hwf hact]
  exact toWorld_equiv g hg s _ _ (stepXi_length g hg s st act q' qd' hfr hwf hact).1

theorem stepXw_length : (stepXw s st act).1.length = s.numLinks ∧ (stepXw s st act).2.length = s.numLinks := by
  simp [stepXw, Com.toWorld, tab_length]

/-- **C05, whole-step equivariance of the spring pipeline (contact-free).**  Stepping the
transformed state in the transformed system gives the transform of the stepped state, field by
field; `q`, `qd` are `kinematics.inverse` (`inv`) of the transformed `j`, `jd`. -/
theorem spring_step_equivariant (inv : List (Tf ℝ) → List (Motion ℝ) → List ℝ × List ℝ)
    (hlinks : s.links.length = s.numLinks) :
    Spring.step inv (fun _ => []) (gSys g s) (gState g s st q' qd') act
      = gState g s (Spring.step inv (fun _ => []) s st act)
          (inv (gJ g s.parents (Spring.step inv (fun _ => []) s st act).a_p
                  (Spring.step inv (fun _ => []) s st act).a_c
                  (Spring.step inv (fun _ => []) s st act).j)
               (gJd g s.parents (Spring.step inv (fun _ => []) s st act).a_p
                  (Spring.step inv (fun _ => []) s st act).xd
                  (Spring.step inv (fun _ => []) s st act).jd)).1
          (inv (gJ g s.parents (Spring.step inv (fun _ => []) s st act).a_p
                  (Spring.step inv (fun _ => []) s st act).a_c
                  (Spring.step inv (fun _ => []) s st act).j)
               (gJd g s.parents (Spring.step inv (fun _ => []) s st act).a_p
                  (Spring.step inv (fun _ => []) s st act).xd
                  (Spring.step inv (fun _ => []) s st act).jd)).2 := by
  have hx := hwf.x
  obtain ⟨hw1, hw2⟩ := stepXw_length g hg s st act q' qd' hfr hwf hact
  have hWW : stepW (gSys g s) (gState g s st q' qd') act
      = Kin.worldToJoint (gSys g s) ((stepXw s st act).1.map (Tf.doTf g))
          ((stepXw s st act).2.map (rotM g)) := by
    unfold stepW
    rw [stepXw_equiv g hg s st act q' qd' hfr hwf hact]
  obtain ⟨hJ, hJd, hAp, hAc⟩ := worldToJoint_equiv g hg s (stepXw s st act).1 (stepXw s st act).2
    hfr hlinks hw1 hw2
  rw [← hWW] at hJ hJd hAp hAc
  change _ = gJ g s.parents ((stepW s st act).map (·.2.2.1)) ((stepW s st act).map (·.2.2.2))
    ((stepW s st act).map (·.1)) at hJ
  change _ = gJd g s.parents ((stepW s st act).map (·.2.2.1)) (stepXw s st act).2
    ((stepW s st act).map (·.2.1)) at hJd
  change _ = gAp g s.parents ((stepW s st act).map (·.2.2.1)) at hAp
  change _ = ((stepW s st act).map (·.2.2.2)).map (Tf.doTf g) at hAc
  have hI : Com.invInertia (gSys g s) (gState g s st q' qd').x
      = (Com.invInertia s st.x).map (conjM g.rot) := invInertia_equiv_list g s st.x hx
  rw [step_nil_eq, step_nil_eq]
  simp only [hJ, hJd, hAp, hAc, hI, stepXw_equiv g hg s st act q' qd' hfr hwf hact,
    stepXi_equiv g hg s st act q' qd' hfr hwf hact]
  rfl

end compose

/-! ## the root rows of the action, when the root's parent anchor is the identity

For a free link as `mjcf.load_model` produces it (`link.transform = link.joint = identity`)
`world_to_joint` gives `a_p = identity`, `j = a_c = x`, `jd = xd`; then the action of `g` on the
root's `(j, jd)` is the action on a world pose / world velocity. -/

theorem toLocal_id (a : Tf ℝ) : Tf.toLocal a Tf.id = a := by
  cases a with | mk p r =>
  simp only [Tf.toLocal, Tf.id, v3_sub_zero, quatInv_one, rotate_one, one_quatMul]

theorem gJ_root_id (g : Tf ℝ) (parents : List Int) (a_p a_c j : List (Tf ℝ)) {i : Nat}
    (hi : i < parents.length) (hr : parentOf parents i < 0) (hid : nth a_p i = Tf.id) :
    nth (gJ g parents a_p a_c j) i = Tf.doTf g (nth a_c i) := by
  rw [gJ, nth_tab _ hi, if_pos hr, hid, toLocal_id]

theorem gJd_root_id (g : Tf ℝ) (parents : List Int) (a_p : List (Tf ℝ)) (xd jd : List (Motion ℝ))
    {i : Nat} (hi : i < parents.length) (hr : parentOf parents i < 0) (hid : nth a_p i = Tf.id) :
    nth (gJd g parents a_p xd jd) i = rotM g (nth xd i) := by
  rw [gJd, nth_tab _ hi, if_pos hr, hid]
  simp only [Tf.id, invRotate, quatInv_one, rotate_one, rotM]

theorem gJ_nonroot (g : Tf ℝ) (parents : List Int) (a_p a_c j : List (Tf ℝ)) {i : Nat}
    (hi : i < parents.length) (hr : ¬ parentOf parents i < 0) :
    nth (gJ g parents a_p a_c j) i = nth j i := by
  rw [gJ, nth_tab _ hi, if_neg hr]

theorem gJd_nonroot (g : Tf ℝ) (parents : List Int) (a_p : List (Tf ℝ)) (xd jd : List (Motion ℝ))
    {i : Nat} (hi : i < parents.length) (hr : ¬ parentOf parents i < 0) :
    nth (gJd g parents a_p xd jd) i = nth jd i := by
  rw [gJd, nth_tab _ hi, if_neg hr]

/-! ## several steps -/

/-- `act ↦ step` folded over a list of controls (contact-free) -/
noncomputable def steps (inv : List (Tf ℝ) → List (Motion ℝ) → List ℝ × List ℝ) (s : Sys ℝ)
    (st : Spring.State ℝ) (acts : List (List ℝ)) : Spring.State ℝ :=
  acts.foldl (fun st a => Spring.step inv (fun _ => []) s st a) st

/-- what the several-step theorem needs from `kinematics.inverse`: the generalized coordinates an
actuator reads are computed from the `(j, jd)` rows of non-root links only.  (The real
`kinematics.inverse` computes the `q`/`qd` slice of every link from that link's own row, and
actuated dofs belong to non-root links.) -/
def InvLocal (s : Sys ℝ) (inv : List (Tf ℝ) → List (Motion ℝ) → List ℝ × List ℝ) : Prop :=
  ∀ (j j' : List (Tf ℝ)) (jd jd' : List (Motion ℝ)),
    (∀ i, i < s.numLinks → ¬ parentOf s.parents i < 0 → nth j' i = nth j i ∧ nth jd' i = nth jd i) →
    ActAgree s (inv j jd).1 (inv j jd).2 (inv j' jd').1 (inv j' jd').2

theorem LenOK.step {s : Sys ℝ} {st : Spring.State ℝ} (inv : List (Tf ℝ) → List (Motion ℝ) → List ℝ × List ℝ)
    (act : List ℝ) (hlinks : s.links.length = s.numLinks) :
    LenOK s (Spring.step inv (fun _ => []) s st act) := by
  have h1 : (stepXw s st act).1.length = s.numLinks := by simp [stepXw, Com.toWorld, tab_length]
  have h2 : (stepXw s st act).2.length = s.numLinks := by simp [stepXw, Com.toWorld, tab_length]
  rw [step_nil_eq]
  refine ⟨h1, by simp [stepXi, Spring.integrate, tab_length], ?_⟩
  show ((stepW s st act).map (·.2.2.2)).length = s.numLinks
  rw [stepW, worldToJoint_eq_tab s _ _ hlinks h1 h2, List.length_map, tab_length]

/-- **C05, whole trajectories.**  Any number of contact-free spring steps commutes with the rigid
transform; the generalized coordinates of the two end states agree wherever an actuator reads them. -/
theorem spring_steps_equivariant (g : Tf ℝ) (hg : g.rot.IsUnit) (s : Sys ℝ)
    (inv : List (Tf ℝ) → List (Motion ℝ) → List ℝ × List ℝ) (hfr : FreeRooted s)
    (hlinks : s.links.length = s.numLinks) (hinv : InvLocal s inv) (acts : List (List ℝ)) :
    ∀ (st : Spring.State ℝ) (q' qd' : List ℝ), LenOK s st → ActAgree s st.q st.qd q' qd' →
      ∃ q'' qd'', steps inv (gSys g s) (gState g s st q' qd') acts
          = gState g s (steps inv s st acts) q'' qd''
        ∧ ActAgree s (steps inv s st acts).q (steps inv s st acts).qd q'' qd'' := by
  induction acts with
  | nil => intro st q' qd' _ hact; exact ⟨q', qd', rfl, hact⟩
  | cons a as ih =>
    intro st q' qd' hlen hact
    simp only [steps, List.foldl_cons]
    rw [spring_step_equivariant g hg s st a q' qd' hfr hlen hact inv hlinks]
    apply ih _ _ _ (LenOK.step inv a hlinks)
    apply hinv
    intro i hi hr
    have hi' : i < s.parents.length := by rw [hfr.hlen]; exact hi
    exact ⟨gJ_nonroot g _ _ _ _ hi' hr, gJd_nonroot g _ _ _ _ hi' hr⟩

/-! ## `com.from_world` (used by `pipeline.init`) -/

/-- **`com.from_world` is equivariant** -/
theorem fromWorld_equiv (g : Tf ℝ) (hg : g.rot.IsUnit) (s : Sys ℝ) (x : List (Tf ℝ))
    (xd : List (Motion ℝ)) (hx : x.length = s.numLinks) :
    Com.fromWorld (gSys g s) (x.map (Tf.doTf g)) (xd.map (rotM g))
      = ((Com.fromWorld s x xd).1.map (Tf.doTf g), (Com.fromWorld s x xd).2.map (rotM g)) := by
  unfold Com.fromWorld
  simp only [gSys_numLinks, gSys_links, tab_map]
  refine Prod.ext ?_ ?_
  · apply tab_congr; intro i hi
    simp only [nth_map_lt _ _ (show i < x.length by omega), Tf.doTf_assoc]
  · apply tab_congr; intro i hi
    simp only [nth_map_lt _ _ (show i < x.length by omega), nth_map_dflt _ _ _ (rotM_zero g),
      Tf.doTf_assoc, doTf_pos_sub, doMotion_tfPos_equiv g hg]

/-! ## `pipeline.init` -/

theorem forward_length (s : Sys ℝ) (q qd : List ℝ) (hl : s.links.length = s.numLinks)
    (hp : s.parents.length = s.numLinks) : (Kin.forward s q qd).length = s.numLinks := by
  unfold Kin.forward
  simp only [List.length_map, Kin.scanFwd_length, List.length_zip, Kin.linkSlices_length, hl, hp]
  simp [Sys.numLinks]

/-- **`pipeline.init` is equivariant**, given that forward kinematics is (`forward_equivariant` in
`Props/C05.lean`): the initial state of the transformed coordinates is the transform of the
initial state -/
theorem init_equiv_of_forward (g : Tf ℝ) (hg : g.rot.IsUnit) (s : Sys ℝ) (q qd q' qd' : List ℝ)
    (hfr : FreeRooted s) (hlinks : s.links.length = s.numLinks)
    (hfwd : Kin.forward s q' qd' = (Kin.forward s q qd).map (fun x => (Tf.doTf g x.1, rotM g x.2))) :
    Spring.init (gSys g s) q' qd' = gState g s (Spring.init s q qd) q' qd' := by
  have hF := forward_length s q qd hlinks hfr.hlen
  have hx : ((Kin.forward s q qd).map (·.1)).length = s.numLinks := by simp [hF]
  have hxd : ((Kin.forward s q qd).map (·.2)).length = s.numLinks := by simp [hF]
  have h1 : (Kin.forward (gSys g s) q' qd').map (·.1) = ((Kin.forward s q qd).map (·.1)).map (Tf.doTf g) := by
    show (Kin.forward s q' qd').map (·.1) = _
    rw [hfwd, List.map_map, List.map_map]; rfl
  have h2 : (Kin.forward (gSys g s) q' qd').map (·.2) = ((Kin.forward s q qd).map (·.2)).map (rotM g) := by
    show (Kin.forward s q' qd').map (·.2) = _
    rw [hfwd, List.map_map, List.map_map]; rfl
  obtain ⟨hJ, hJd, hAp, hAc⟩ := worldToJoint_equiv g hg s _ _ hfr hlinks hx hxd
  unfold Spring.init
  simp only [h1, h2, hJ, hJd, hAp, hAc, fromWorld_equiv g hg s _ _ hx, invInertia_equiv_list g s _ hx]
  rfl

theorem LenOK.init (s : Sys ℝ) (q qd : List ℝ) (hlinks : s.links.length = s.numLinks)
    (hp : s.parents.length = s.numLinks) : LenOK s (Spring.init s q qd) := by
  have hF := forward_length s q qd hlinks hp
  have hx : ((Kin.forward s q qd).map (·.1)).length = s.numLinks := by simp [hF]
  have hxd : ((Kin.forward s q qd).map (·.2)).length = s.numLinks := by simp [hF]
  refine ⟨hx, by simp [Spring.init, Com.fromWorld, tab_length], ?_⟩
  show ((Kin.worldToJoint s _ _).map (·.2.2.2)).length = s.numLinks
  rw [worldToJoint_eq_tab s _ _ hlinks hx hxd, List.length_map, tab_length]

end Brax.C05L
